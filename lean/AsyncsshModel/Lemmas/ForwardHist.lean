import AsyncsshModel.Lemmas.Forward
/-
  History invariant of the relay machine (property C20): relates the events that arrived from the two
  transports to the calls made on them, for every reachable (state, history, outputs) triple.
-/
namespace AsyncsshModel.Forward
open AsyncsshModel
set_option linter.unusedSimpArgs false
set_option linter.unusedVariables false

/-! ### which control calls one legal step emits, in terms of the flags before and after -/

theorem step_eofOutC (v : Variant) (r : Relay) (e : Ev) (h : Shape v r) (hl : legal r e = true) :
    ((r.s.eof && r.phase == .linked && !(v.fixEarly && r.early)) || eofOut .chan (step v r e).2)
      = ((step v r e).1.s.eof && (step v r e).1.phase == .linked && !(v.fixEarly && (step v r e).1.early)) := by
  obtain ⟨⟨st, sp, sb, se, sg⟩, ⟨ct, cp, cb, ce, cg⟩, ph, ea⟩ := r
  obtain ⟨h1, h2, h3, h4, h5, h6, h7, h8, h9, h10⟩ := h
  simp only at h1 h2 h3 h4 h5 h6 h7 h8 h9 h10
  relay_bash e ph v

theorem step_eofOutS (v : Variant) (r : Relay) (e : Ev) (h : Shape v r) (hl : legal r e = true) :
    ((r.c.eof && !r.early) || eofOut .sock (step v r e).2)
      = ((step v r e).1.c.eof && !(step v r e).1.early) := by
  obtain ⟨⟨st, sp, sb, se, sg⟩, ⟨ct, cp, cb, ce, cg⟩, ph, ea⟩ := r
  obtain ⟨h1, h2, h3, h4, h5, h6, h7, h8, h9, h10⟩ := h
  simp only at h1 h2 h3 h4 h5 h6 h7 h8 h9 h10
  relay_bash e ph v

theorem step_closeS (v : Variant) (r : Relay) (e : Ev) (h : Shape v r) (hl : legal r e = true) :
    ((!r.s.tr) || closeOut .sock (step v r e).2) = !(step v r e).1.s.tr := by
  obtain ⟨⟨st, sp, sb, se, sg⟩, ⟨ct, cp, cb, ce, cg⟩, ph, ea⟩ := r
  obtain ⟨h1, h2, h3, h4, h5, h6, h7, h8, h9, h10⟩ := h
  simp only at h1 h2 h3 h4 h5 h6 h7 h8 h9 h10
  relay_bash e ph v

theorem step_closeC (v : Variant) (r : Relay) (e : Ev) (h : Shape v r) (hl : legal r e = true) :
    ((r.phase == .linked && !r.c.tr) || closeOut .chan (step v r e).2)
      = ((step v r e).1.phase == .linked && !(step v r e).1.c.tr) := by
  obtain ⟨⟨st, sp, sb, se, sg⟩, ⟨ct, cp, cb, ce, cg⟩, ph, ea⟩ := r
  obtain ⟨h1, h2, h3, h4, h5, h6, h7, h8, h9, h10⟩ := h
  simp only at h1 h2 h3 h4 h5 h6 h7 h8 h9 h10
  relay_bash e ph v

theorem step_noAssert (v : Variant) (r : Relay) (e : Ev) (h : Shape v r) (hl : legal r e = true) :
    (step v r e).2.contains .assertFail = true → v.fixEarly = false ∧ r.early = true := by
  obtain ⟨⟨st, sp, sb, se, sg⟩, ⟨ct, cp, cb, ce, cg⟩, ph, ea⟩ := r
  obtain ⟨h1, h2, h3, h4, h5, h6, h7, h8, h9, h10⟩ := h
  simp only at h1 h2 h3 h4 h5 h6 h7 h8 h9 h10
  relay_bash e ph v

theorem step_trMonoS (v : Variant) (r : Relay) (e : Ev) (h : Shape v r) (hl : legal r e = true) :
    r.s.tr = false → (step v r e).1.s.tr = false := by
  obtain ⟨⟨st, sp, sb, se, sg⟩, ⟨ct, cp, cb, ce, cg⟩, ph, ea⟩ := r
  obtain ⟨h1, h2, h3, h4, h5, h6, h7, h8, h9, h10⟩ := h
  simp only at h1 h2 h3 h4 h5 h6 h7 h8 h9 h10
  relay_bash e ph v

theorem step_trMonoC (v : Variant) (r : Relay) (e : Ev) (h : Shape v r) (hl : legal r e = true) :
    r.phase = .linked → r.c.tr = false → (step v r e).1.c.tr = false := by
  obtain ⟨⟨st, sp, sb, se, sg⟩, ⟨ct, cp, cb, ce, cg⟩, ph, ea⟩ := r
  obtain ⟨h1, h2, h3, h4, h5, h6, h7, h8, h9, h10⟩ := h
  simp only at h1 h2 h3 h4 h5 h6 h7 h8 h9 h10
  relay_bash e ph v

theorem step_down (v : Variant) (r : Relay) (e : Ev) (h : Shape v r) (hl : legal r e = true) :
    (step v r e).1.s.tr = false → r.s.tr = false ∨ e = .lost .sock ∨ e = .lost .chan ∨ e = .fail ∨
      (v.fixEof = true ∧ (step v r e).1.s.eof = true ∧ (step v r e).1.c.eof = true) := by
  obtain ⟨⟨st, sp, sb, se, sg⟩, ⟨ct, cp, cb, ce, cg⟩, ph, ea⟩ := r
  obtain ⟨h1, h2, h3, h4, h5, h6, h7, h8, h9, h10⟩ := h
  simp only at h1 h2 h3 h4 h5 h6 h7 h8 h9 h10
  relay_bash e ph v

theorem step_bothEof (v : Variant) (r : Relay) (e : Ev) (h : Shape v r) (hl : legal r e = true) :
    v.fixEof = true → (r.phase = .linked → r.s.eof = true → r.c.eof = true → r.s.tr = false) →
      (step v r e).1.phase = .linked → (step v r e).1.s.eof = true → (step v r e).1.c.eof = true →
      (step v r e).1.s.tr = false := by
  obtain ⟨⟨st, sp, sb, se, sg⟩, ⟨ct, cp, cb, ce, cg⟩, ph, ea⟩ := r
  obtain ⟨h1, h2, h3, h4, h5, h6, h7, h8, h9, h10⟩ := h
  simp only at h1 h2 h3 h4 h5 h6 h7 h8 h9 h10
  relay_bash e ph v

theorem step_earlyLost (v : Variant) (r : Relay) (e : Ev) (h : Shape v r) (hl : legal r e = true) :
    (step v r e).1.early = true → r.early = true ∨ (e = .confirm ∧ r.s.tr = false) := by
  obtain ⟨⟨st, sp, sb, se, sg⟩, ⟨ct, cp, cb, ce, cg⟩, ph, ea⟩ := r
  obtain ⟨h1, h2, h3, h4, h5, h6, h7, h8, h9, h10⟩ := h
  simp only at h1 h2 h3 h4 h5 h6 h7 h8 h9 h10
  relay_bash e ph v

theorem step_openTr (v : Variant) (r : Relay) (e : Ev) (h : Shape v r) (hl : legal r e = true) :
    r.phase = .opening → (step v r e).1.phase = .opening → (step v r e).1.s.tr = false →
      r.s.tr = false ∨ e = .lost .sock := by
  obtain ⟨⟨st, sp, sb, se, sg⟩, ⟨ct, cp, cb, ce, cg⟩, ph, ea⟩ := r
  obtain ⟨h1, h2, h3, h4, h5, h6, h7, h8, h9, h10⟩ := h
  simp only at h1 h2 h3 h4 h5 h6 h7 h8 h9 h10
  relay_bash e ph v

theorem step_lostTr (v : Variant) (r : Relay) (x : Side) (h : Shape v r) (hl : legal r (.lost x) = true) :
    ((step v r (.lost x)).1.get x).tr = false := by
  obtain ⟨⟨st, sp, sb, se, sg⟩, ⟨ct, cp, cb, ce, cg⟩, ph, ea⟩ := r
  obtain ⟨h1, h2, h3, h4, h5, h6, h7, h8, h9, h10⟩ := h
  simp only at h1 h2 h3 h4 h5 h6 h7 h8 h9 h10
  cases x <;> cases ph <;>
    simp only [step, legal, closeFwd, Relay.get, Relay.set, Relay.has, Side.other] at * <;> grind

/-- repaired variant: the channel-to-socket direction needs no side condition -/
theorem step_c2s_fixed (v : Variant) (hv : v.fixEarly = true) (r : Relay) (e : Ev) (h : Shape v r)
    (hl : legal r e = true) : sent .sock (step v r e).2 = dataOf .chan e := by
  obtain ⟨⟨st, sp, sb, se, sg⟩, ⟨ct, cp, cb, ce, cg⟩, ph, ea⟩ := r
  obtain ⟨h1, h2, h3, h4, h5, h6, h7, h8, h9, h10⟩ := h
  obtain ⟨fe, fl⟩ := v
  simp only at h1 h2 h3 h4 h5 h6 h7 h8 h9 h10 hv
  subst hv
  have h9' := h9 rfl
  cases e with
  | data x d =>
    cases x <;> cases ph <;>
      simp only [step, legal, dataOf, Relay.get, Relay.set, Relay.has, Side.other] at hl ⊢ <;>
      relay_finish <;> (try (cases st <;> simp_all [sent]))
  | eof x =>
    cases x <;> cases ph <;> cases fe <;>
      simp only [step, legal, dataOf, closeFwd, Relay.get, Relay.set, Relay.has, Side.other] at hl ⊢ <;>
      relay_finish <;> (try (cases st <;> simp_all [sent]))
  | lost x =>
    cases x <;> cases ph <;>
      simp only [step, legal, dataOf, closeFwd, Relay.get, Relay.set, Relay.has, Side.other] at hl ⊢ <;>
      relay_finish <;> (try (cases st <;> simp_all [sent]))
  | pauseW x =>
    cases x <;> cases ph <;>
      simp only [step, legal, dataOf, closeFwd, Relay.get, Relay.set, Relay.has, Side.other] at hl ⊢ <;>
      relay_finish <;> (try (cases st <;> simp_all [sent]))
  | resumeW x =>
    cases x <;> cases ph <;>
      simp only [step, legal, dataOf, closeFwd, Relay.get, Relay.set, Relay.has, Side.other] at hl ⊢ <;>
      relay_finish <;> (try (cases st <;> simp_all [sent]))
  | confirm =>
    cases ph <;>
      simp only [step, legal, dataOf, closeFwd, Relay.get, Relay.set, Relay.has, Side.other] at hl ⊢ <;>
      relay_finish <;> (try (cases st <;> simp_all [sent]))
  | fail =>
    cases ph <;>
      simp only [step, legal, dataOf, closeFwd, Relay.get, Relay.set, Relay.has, Side.other] at hl ⊢ <;>
      relay_finish <;> (try (cases st <;> simp_all [sent]))

/-- a data event that the transports may deliver is written to the other side at once (linked, no early loss) -/
theorem step_flow (v : Variant) (r : Relay) (x : Side) (d : Bytes) (h : Shape v r)
    (hl : legal r (.data x d) = true) (hp : r.phase = .linked) (he : r.early = false) :
    step v r (.data x d) = (r, [.write x.other d]) := by
  obtain ⟨⟨st, sp, sb, se, sg⟩, ⟨ct, cp, cb, ce, cg⟩, ph, ea⟩ := r
  obtain ⟨h1, h2, h3, h4, h5, h6, h7, h8, h9, h10⟩ := h
  simp only at h1 h2 h3 h4 h5 h6 h7 h8 h9 h10 hp he
  subst hp he
  cases x <;> simp only [step, legal, Relay.get, Relay.set, Relay.has, Side.other] at hl ⊢ <;> grind

/-- the state after "socket lost, then channel confirmed" in the code as it stands: the channel-side half is up and
    linked to a dead socket-side half -/
def Stuck (r : Relay) : Prop :=
  r.early = true ∧ r.c.tr = true ∧ r.s.gone = true ∧ r.phase = .linked

theorem step_stuck (v : Variant) (hv : v.fixEof = false) (r : Relay) (e : Ev) (h : Shape v r) (hs : Stuck r)
    (hl : legal r e = true) (hne : e ≠ .lost .chan) :
    Stuck (step v r e).1 ∧ closeOut .chan (step v r e).2 = false := by
  obtain ⟨fe, fl⟩ := v
  simp only at hv
  subst hv
  obtain ⟨⟨st, sp, sb, se, sg⟩, ⟨ct, cp, cb, ce, cg⟩, ph, ea⟩ := r
  obtain ⟨h1, h2, h3, h4, h5, h6, h7, h8, h9, h10⟩ := h
  obtain ⟨s1, s2, s3, s4⟩ := hs
  simp only at h1 h2 h3 h4 h5 h6 h7 h8 h9 h10 s1 s2 s3 s4
  subst s1 s2 s3 s4
  unfold Stuck
  cases e with
  | data x d =>
    cases x <;> simp only [step, legal, closeOut, Relay.get, Relay.set, Relay.has, Side.other] at hl ⊢ <;> grind
  | eof x =>
    cases x <;> simp only [step, legal, closeOut, closeFwd, Relay.get, Relay.set, Relay.has, Side.other] at hl ⊢ <;>
      grind
  | lost x =>
    cases x
    · simp only [legal, Relay.get, Relay.has] at hl; simp at hl
    · exact absurd rfl hne
  | pauseW x =>
    cases x <;> simp only [step, legal, closeOut, Relay.get, Relay.set, Relay.has, Side.other] at hl ⊢ <;> grind
  | resumeW x =>
    cases x <;> simp only [step, legal, closeOut, Relay.get, Relay.set, Relay.has, Side.other] at hl ⊢ <;> grind
  | confirm => simp only [legal] at hl; simp at hl
  | fail => simp only [legal] at hl; simp at hl

/-! ### the invariant over histories -/

structure Hist (v : Variant) (r : Relay) (evs : List Ev) (outs : List Out) : Prop where
  s2c : sent .chan outs ++ r.s.buf = recvd .sock evs
  c2s : r.early = false → sent .sock outs = recvd .chan evs
  eofS : r.s.eof = eofIn .sock evs
  eofC : r.c.eof = eofIn .chan evs
  goneS : r.s.gone = lostIn .sock evs
  goneC : r.c.gone = lostIn .chan evs
  linked : (r.phase == .linked) = evs.contains .confirm
  failed : (r.phase == .failed) = evs.contains .fail
  eofOutC : eofOut .chan outs = (r.s.eof && r.phase == .linked && !(v.fixEarly && r.early))
  eofOutS : eofOut .sock outs = (r.c.eof && !r.early)
  closeS : closeOut .sock outs = !r.s.tr
  closeC : closeOut .chan outs = (r.phase == .linked && !r.c.tr)
  noAssert : outs.contains .assertFail = true → v.fixEarly = false ∧ r.early = true
  lostS : lostIn .sock evs = true → r.s.tr = false
  lostC : lostIn .chan evs = true → r.c.tr = false
  down : r.s.tr = false → lostIn .sock evs = true ∨ lostIn .chan evs = true ∨ evs.contains .fail = true ∨
      (v.fixEof = true ∧ r.s.eof = true ∧ r.c.eof = true)
  bothEof : v.fixEof = true → r.phase = .linked → r.s.eof = true → r.c.eof = true → r.s.tr = false
  earlyWhy : r.early = true → ∃ pre post, evs = pre ++ .confirm :: post ∧ lostIn .sock pre = true
  openTr : r.phase = .opening → r.s.tr = false → lostIn .sock evs = true

theorem hist_init (v : Variant) : Hist v initListener [] [] := by
  constructor
  all_goals first
    | (intro h; simp [initListener] at h; done)
    | (intro _ h; simp [initListener] at h; done)
    | (intro _ h; simp [initListener, lostIn] at h; done)
    | (simp [initListener, sent, recvd, eofIn, lostIn, eofOut, closeOut]; done)
    | (intro _ _ h; simp [initListener] at h; done)

theorem contains_snoc {α} [DecidableEq α] (l : List α) (e a : α) :
    (l ++ [e]).contains a = (l.contains a || e == a) := by
  rw [List.contains_append]
  congr 1
  by_cases h : a = e
  · subst h; simp
  · have h' : ¬ e = a := fun x => h x.symm
    simp [h, h']

theorem hist_step (v : Variant) (r : Relay) (evs : List Ev) (outs : List Out) (e : Ev)
    (hs : Shape v r) (h : Hist v r evs outs) (hl : legal r e = true) :
    Hist v (step v r e).1 (evs ++ [e]) (outs ++ (step v r e).2) := by
  have f := step_facts v r e hs hl
  have hs' := shape_step v r e hs hl
  have mono : r.early = true → (step v r e).1.early = true := step_early_mono v r e hs
  constructor
  · -- s2c
    rw [sent_append, recvd_append, recvd_single, List.append_assoc, step_s2c v r e hs hl,
      ← List.append_assoc, h.s2c]
  · -- c2s
    intro he
    have he0 : r.early = false := by
      cases hr : r.early
      · rfl
      · rw [mono hr] at he; cases he
    rw [sent_append, recvd_append, recvd_single, step_c2s v r e hs hl he, h.c2s he0]
  · rw [f.eofS, h.eofS]; simp only [eofIn]; rw [contains_snoc]
  · rw [f.eofC, h.eofC]; simp only [eofIn]; rw [contains_snoc]
  · rw [f.goneS, h.goneS]; simp only [lostIn]; rw [contains_snoc]
  · rw [f.goneC, h.goneC]; simp only [lostIn]; rw [contains_snoc]
  · rw [f.linked, h.linked, contains_snoc]
  · rw [f.failed, h.failed, contains_snoc]
  · rw [eofOut_append, h.eofOutC]; exact step_eofOutC v r e hs hl
  · rw [eofOut_append, h.eofOutS]; exact step_eofOutS v r e hs hl
  · rw [closeOut_append, h.closeS]; exact step_closeS v r e hs hl
  · rw [closeOut_append, h.closeC]; exact step_closeC v r e hs hl
  · -- noAssert
    intro ha
    rw [List.contains_append, Bool.or_eq_true] at ha
    rcases ha with ha | ha
    · exact ⟨(h.noAssert ha).1, mono (h.noAssert ha).2⟩
    · exact ⟨(step_noAssert v r e hs hl ha).1, mono (step_noAssert v r e hs hl ha).2⟩
  · -- lostS
    intro hlo
    rw [lostIn_append, Bool.or_eq_true] at hlo
    rcases hlo with hlo | hlo
    · exact step_trMonoS v r e hs hl (h.lostS hlo)
    · have : e = .lost .sock := by
        simp only [lostIn, List.contains_cons, List.contains_nil, Bool.or_false, beq_iff_eq] at hlo
        exact hlo.symm
      subst this
      exact step_lostTr v r .sock hs hl
  · -- lostC
    intro hlo
    rw [lostIn_append, Bool.or_eq_true] at hlo
    rcases hlo with hlo | hlo
    · have hg : r.c.gone = true := by rw [h.goneC]; exact hlo
      have hlk : r.phase = .linked := by
        cases hp : r.phase
        · have := (hs.notLinked (by rw [hp]; simp)).2.2.2
          rw [this] at hg; cases hg
        · rfl
        · have := (hs.notLinked (by rw [hp]; simp)).2.2.2
          rw [this] at hg; cases hg
      exact step_trMonoC v r e hs hl hlk (h.lostC hlo)
    · have : e = .lost .chan := by
        simp only [lostIn, List.contains_cons, List.contains_nil, Bool.or_false, beq_iff_eq] at hlo
        exact hlo.symm
      subst this
      exact step_lostTr v r .chan hs hl
  · -- down
    intro hd
    rcases step_down v r e hs hl hd with h0 | h0 | h0 | h0 | h0
    · rcases h.down h0 with h1 | h1 | h1 | ⟨h1, h2, h3⟩
      · left; rw [lostIn_append, h1]; rfl
      · right; left; rw [lostIn_append, h1]; rfl
      · right; right; left; rw [List.contains_append, h1]; rfl
      · right; right; right
        refine ⟨h1, ?_, ?_⟩
        · rw [f.eofS, h2]; rfl
        · rw [f.eofC, h3]; rfl
    · left; subst h0; simp [lostIn_append, lostIn]
    · right; left; subst h0; simp [lostIn_append, lostIn]
    · right; right; left; subst h0; simp
    · right; right; right; exact h0
  · -- bothEof
    intro hv
    exact step_bothEof v r e hs hl hv (h.bothEof hv)
  · -- earlyWhy
    intro he
    rcases step_earlyLost v r e hs hl he with h0 | ⟨h0, h1⟩
    · obtain ⟨pre, post, e1, e2⟩ := h.earlyWhy h0
      exact ⟨pre, post ++ [e], by rw [e1]; simp, e2⟩
    · subst h0
      have hop : r.phase = .opening := by
        have := hl
        simp only [legal] at this
        exact eq_of_beq this
      exact ⟨evs, [], rfl, h.openTr hop h1⟩
  · -- openTr
    intro hop htr
    have hop0 : r.phase = .opening := by
      cases hp : r.phase
      · rfl
      · have h1 := f.linked; rw [hp, hop] at h1; simp at h1
      · have h1 := f.failed; rw [hp, hop] at h1; simp at h1
    rcases step_openTr v r e hs hl hop0 hop htr with h0 | h0
    · rw [lostIn_append, h.openTr hop0 h0]; rfl
    · subst h0; simp [lostIn_append, lostIn]

theorem reach_hist {v r evs outs} (h : Reach v r evs outs) : Hist v r evs outs := by
  induction h with
  | init => exact hist_init v
  | step e hr hl ih => exact hist_step v _ _ _ e (reach_shape hr) ih hl

end AsyncsshModel.Forward
