import AsyncsshModel.Model.KeyFmtBase64
/-
  base64: decoding skips everything outside the alphabet, so the line wrapping is invisible, and
  `a2b (b2a data) = data`.
-/
namespace AsyncsshModel.KeyFmt
open AsyncsshModel

/-- a character the decoder ignores in every state -/
def isSkip (c : UInt8) : Bool := c != padChar && (b64Val c).isNone

theorem toNat_ofNat_small {n : Nat} (h : n < 256) : (UInt8.ofNat n).toNat = n := by
  simp [UInt8.toNat_ofNat', Nat.mod_eq_of_lt h]

theorem b64Val_b64Char {n : Nat} (h : n < 64) : b64Val (b64Char n) = some n := by
  unfold b64Char
  split
  · rename_i h1
    have : (UInt8.ofNat (65 + n)).toNat = 65 + n := toNat_ofNat_small (by omega)
    simp only [b64Val, this]
    have c1 : 65 ≤ 65 + n ∧ 65 + n ≤ 90 := by omega
    simp [c1]
  · split
    · rename_i h1 h2
      have : (UInt8.ofNat (97 + (n - 26))).toNat = 97 + (n - 26) := toNat_ofNat_small (by omega)
      simp only [b64Val, this]
      have c1 : ¬ (65 ≤ 97 + (n - 26) ∧ 97 + (n - 26) ≤ 90) := by omega
      have c2 : 97 ≤ 97 + (n - 26) ∧ 97 + (n - 26) ≤ 122 := by omega
      simp only [c1, c2, if_true, if_false, and_self]
      congr 1; omega
    · split
      · rename_i h1 h2 h3
        have : (UInt8.ofNat (48 + (n - 52))).toNat = 48 + (n - 52) := toNat_ofNat_small (by omega)
        simp only [b64Val, this]
        have c1 : ¬ (65 ≤ 48 + (n - 52) ∧ 48 + (n - 52) ≤ 90) := by omega
        have c2 : ¬ (97 ≤ 48 + (n - 52) ∧ 48 + (n - 52) ≤ 122) := by omega
        have c3 : 48 ≤ 48 + (n - 52) ∧ 48 + (n - 52) ≤ 57 := by omega
        simp only [c1, c2, c3, if_true, if_false, and_self]
        congr 1; omega
      · split
        · rename_i h4; subst h4; decide
        · have : n = 63 := by omega
          subst this; decide

theorem b64Char_ne_pad {n : Nat} (h : n < 64) : b64Char n ≠ padChar := by
  intro hc
  have h1 := b64Val_b64Char h
  rw [hc] at h1
  have : b64Val padChar = none := by decide
  rw [this] at h1
  cases h1

theorem b64Char_not_skip {n : Nat} (h : n < 64) : isSkip (b64Char n) = false := by
  simp [isSkip, b64Val_b64Char h]

theorem pad_not_skip : isSkip padChar = false := by decide

/-! ### skipped characters are invisible -/

theorem a2bGo_skip (q l p : Nat) (c : UInt8) (rest : Bytes) (h : isSkip c = true) :
    a2bGo q l p (c :: rest) = a2bGo q l p rest := by
  unfold isSkip at h
  simp only [Bool.and_eq_true, bne_iff_ne, ne_eq, Option.isNone_iff_eq_none] at h
  rw [a2bGo]
  simp [h.1, h.2]

theorem a2bGo_filter (t : Bytes) : ∀ q l p,
    a2bGo q l p t = a2bGo q l p (t.filter (fun c => !isSkip c)) := by
  induction t with
  | nil => intros; rfl
  | cons c rest ih =>
    intro q l p
    by_cases hs : isSkip c = true
    · rw [a2bGo_skip q l p c rest hs]
      simp only [List.filter_cons, hs, Bool.not_true, Bool.false_eq_true, if_false]
      exact ih q l p
    · have hs' : isSkip c = false := by simpa using hs
      simp only [List.filter_cons, hs', Bool.not_false, if_true]
      rw [a2bGo, a2bGo]
      split
      · split
        · rfl
        · exact ih _ _ _
      · split
        · exact ih _ _ _
        · split
          · exact ih _ _ _
          · split
            · rw [ih]
            · split
              · rw [ih]
              · rw [ih]

/-! ### line wrapping only inserts skipped characters -/

theorem nl_skip : isSkip nl = true := by decide

theorem filter_wrapJoinAux (w : Nat) (f : UInt8 → Bool) (hf : f nl = false) :
    ∀ (fuel : Nat) (s : Bytes), (wrapJoinAux w fuel s).filter f = s.filter f := by
  intro fuel
  induction fuel with
  | zero => intro s; rfl
  | succ k ih =>
    intro s
    rw [wrapJoinAux]
    split
    · rfl
    · rw [List.filter_append, List.filter_cons, hf, ih]
      simp only [Bool.false_eq_true, if_false]
      rw [← List.filter_append, List.take_append_drop]

/-! ### `a2b ∘ b2a` -/

theorem step0 {c : UInt8} {v : Nat} (hc : c ≠ padChar) (hv : b64Val c = some v) (l p : Nat) (rest : Bytes) :
    a2bGo 0 l p (c :: rest) = a2bGo 1 v 0 rest := by
  rw [a2bGo]; simp [hc, hv]

theorem step1 {c : UInt8} {v : Nat} (hc : c ≠ padChar) (hv : b64Val c = some v) (l p : Nat) (rest : Bytes) :
    a2bGo 1 l p (c :: rest) = (a2bGo 2 (v % 16) 0 rest).map (UInt8.ofNat (l * 4 + v / 16) :: ·) := by
  rw [a2bGo]; simp [hc, hv]

theorem step2 {c : UInt8} {v : Nat} (hc : c ≠ padChar) (hv : b64Val c = some v) (l p : Nat) (rest : Bytes) :
    a2bGo 2 l p (c :: rest) = (a2bGo 3 (v % 4) 0 rest).map (UInt8.ofNat (l * 16 + v / 4) :: ·) := by
  rw [a2bGo]; simp [hc, hv]

theorem step3 {c : UInt8} {v : Nat} (hc : c ≠ padChar) (hv : b64Val c = some v) (l p : Nat) (rest : Bytes) :
    a2bGo 3 l p (c :: rest) = (a2bGo 0 0 0 rest).map (UInt8.ofNat (l * 64 + v) :: ·) := by
  rw [a2bGo]; simp [hc, hv]

theorem pad2a (l : Nat) (rest : Bytes) : a2bGo 2 l 0 (padChar :: rest) = a2bGo 2 l 1 rest := by
  rw [a2bGo]; simp

theorem pad2b (l : Nat) (rest : Bytes) : a2bGo 2 l 1 (padChar :: rest) = some [] := by
  rw [a2bGo]; simp

theorem pad3 (l : Nat) (rest : Bytes) : a2bGo 3 l 0 (padChar :: rest) = some [] := by
  rw [a2bGo]; simp

theorem a2bGo_b2a (data : Bytes) : a2bGo 0 0 0 (b2a data) = some data := by
  induction data using b2a.induct with
  | case1 => simp [b2a, a2bGo]
  | case2 a =>
    have ha := a.toNat_lt
    have h1 : a.toNat / 4 < 64 := by omega
    have h2 : a.toNat % 4 * 16 < 64 := by omega
    simp only [b2a]
    rw [step0 (b64Char_ne_pad h1) (b64Val_b64Char h1), step1 (b64Char_ne_pad h2) (b64Val_b64Char h2),
      pad2a, pad2b]
    have e : a.toNat / 4 * 4 + a.toNat % 4 * 16 / 16 = a.toNat := by omega
    simp only [Option.map_some, e, UInt8.ofNat_toNat]
  | case3 a b =>
    have ha := a.toNat_lt
    have hb := b.toNat_lt
    have h1 : a.toNat / 4 < 64 := by omega
    have h2 : a.toNat % 4 * 16 + b.toNat / 16 < 64 := by omega
    have h3 : b.toNat % 16 * 4 < 64 := by omega
    simp only [b2a]
    rw [step0 (b64Char_ne_pad h1) (b64Val_b64Char h1), step1 (b64Char_ne_pad h2) (b64Val_b64Char h2),
      step2 (b64Char_ne_pad h3) (b64Val_b64Char h3), pad3]
    have e1 : a.toNat / 4 * 4 + (a.toNat % 4 * 16 + b.toNat / 16) / 16 = a.toNat := by omega
    have e2 : (a.toNat % 4 * 16 + b.toNat / 16) % 16 * 16 + b.toNat % 16 * 4 / 4 = b.toNat := by omega
    simp only [Option.map_some, e1, e2, UInt8.ofNat_toNat]
  | case4 a b c rest ih =>
    have ha := a.toNat_lt
    have hb := b.toNat_lt
    have hc := c.toNat_lt
    have h1 : a.toNat / 4 < 64 := by omega
    have h2 : a.toNat % 4 * 16 + b.toNat / 16 < 64 := by omega
    have h3 : b.toNat % 16 * 4 + c.toNat / 64 < 64 := by omega
    have h4 : c.toNat % 64 < 64 := by omega
    simp only [b2a]
    rw [step0 (b64Char_ne_pad h1) (b64Val_b64Char h1), step1 (b64Char_ne_pad h2) (b64Val_b64Char h2),
      step2 (b64Char_ne_pad h3) (b64Val_b64Char h3), step3 (b64Char_ne_pad h4) (b64Val_b64Char h4), ih]
    have e1 : a.toNat / 4 * 4 + (a.toNat % 4 * 16 + b.toNat / 16) / 16 = a.toNat := by omega
    have e2 : (a.toNat % 4 * 16 + b.toNat / 16) % 16 * 16 + (b.toNat % 16 * 4 + c.toNat / 64) / 4 = b.toNat := by
      omega
    have e3 : (b.toNat % 16 * 4 + c.toNat / 64) % 4 * 64 + c.toNat % 64 = c.toNat := by omega
    simp only [Option.map_some, e1, e2, e3, UInt8.ofNat_toNat]

/-- every character of `b2a data` is significant -/
theorem b2a_no_skip (data : Bytes) : ∀ c ∈ b2a data, isSkip c = false := by
  induction data using b2a.induct with
  | case1 => simp [b2a]
  | case2 a =>
    have ha := a.toNat_lt
    intro c hc
    simp only [b2a, List.mem_cons, List.mem_nil_iff, or_false] at hc
    rcases hc with rfl | rfl | rfl | rfl
    · exact b64Char_not_skip (by omega)
    · exact b64Char_not_skip (by omega)
    · exact pad_not_skip
    · exact pad_not_skip
  | case3 a b =>
    have ha := a.toNat_lt
    have hb := b.toNat_lt
    intro c hc
    simp only [b2a, List.mem_cons, List.mem_nil_iff, or_false] at hc
    rcases hc with rfl | rfl | rfl | rfl
    · exact b64Char_not_skip (by omega)
    · exact b64Char_not_skip (by omega)
    · exact b64Char_not_skip (by omega)
    · exact pad_not_skip
  | case4 a b c rest ih =>
    have ha := a.toNat_lt
    have hb := b.toNat_lt
    have hc' := c.toNat_lt
    intro x hx
    simp only [b2a, List.mem_cons] at hx
    rcases hx with rfl | rfl | rfl | rfl | hx
    · exact b64Char_not_skip (by omega)
    · exact b64Char_not_skip (by omega)
    · exact b64Char_not_skip (by omega)
    · exact b64Char_not_skip (by omega)
    · exact ih x hx

theorem filter_noskip_id (s : Bytes) (h : ∀ c ∈ s, isSkip c = false) :
    s.filter (fun c => !isSkip c) = s := by
  rw [List.filter_eq_self]
  intro c hc; simp [h c hc]

theorem filter_allskip (s : Bytes) (h : ∀ c ∈ s, isSkip c = true) :
    s.filter (fun c => !isSkip c) = [] := by
  rw [List.filter_eq_nil_iff]
  intro c hc; simp [h c hc]

/-- **base64 survives line wrapping at any width**: decoding the wrapped text, surrounded by
    any characters outside the alphabet (line ends, blanks), gives back the data. -/
theorem a2b_wrapJoin (w : Nat) (hw : 0 < w) (data pre post : Bytes)
    (hpre : ∀ c ∈ pre, isSkip c = true) (hpost : ∀ c ∈ post, isSkip c = true) :
    ∃ body, wrapJoin? w (b2a data) = some body ∧ a2b (pre ++ body ++ post) = some data := by
  refine ⟨wrapJoinAux w (b2a data).length (b2a data), by simp [wrapJoin?]; omega, ?_⟩
  unfold a2b
  rw [a2bGo_filter, List.filter_append, List.filter_append, filter_allskip pre hpre,
    filter_allskip post hpost,
    filter_wrapJoinAux w _ (by simp [nl_skip]), filter_noskip_id _ (b2a_no_skip data)]
  simpa using a2bGo_b2a data

end AsyncsshModel.KeyFmt
