import AsyncsshModel.Lemmas.SftpIOCopy
/-
  Helper lemmas for C12, part 3: the copier over a list of ranges (sparse copy), and the reduction of
  the non-sparse copier to the single-range machine.
-/
namespace AsyncsshModel.SftpIO
open AsyncsshModel

def InRanges (l : List (Nat × Nat)) (p : Nat) : Prop := ∃ rg ∈ l, rg.1 ≤ p ∧ p < rg.1 + rg.2

/-- the copier's reads signal EOF by empty data: an empty reply only at or after the end of the source -/
def EofOnly (src : Bytes) : Ev → Prop
  | .complete r (.data d) => d = [] → src.length ≤ r.off
  | _ => True

def SNeed (src : Bytes) (done : List (Nat × Nat)) : Nat → Prop := fun p => InRanges done p ∧ p < src.length

def SInv (src : Bytes) (all : List (Nat × Nat)) (s : CState) : Prop :=
  Errored s.g.io ∨ ∃ done lo hi, all = done ++ s.ranges ∧ (∀ p, lo ≤ p → p < hi → InRanges done p) ∧
    GFrame (srcT src) src.length 0 lo hi (InRanges all) [] s.g ∧
    Cov (SNeed src done) (Good (srcT src) 0 s.g.buf) s.g.io ∧ Bnd s.g.io

theorem startTasks_mid (bs mr : Nat) (s : IO) : (startTasks bs mr s).mid = s.mid := by
  induction s using startTasks.induct bs mr with
  | case1 s h ih => rw [startTasks, if_pos h]; exact ih
  | case2 s h => rw [startTasks, if_neg h]

theorem inRanges_append_left (a b : List (Nat × Nat)) (p : Nat) (h : InRanges a p) : InRanges (a ++ b) p := by
  obtain ⟨rg, hrg, h⟩ := h
  exact ⟨rg, List.mem_append_left _ hrg, h⟩

theorem sinv_advance (src : Bytes) (all : List (Nat × Nat)) (bs mr : Nat) (hbs : 1 ≤ bs) (hmr : 1 ≤ mr)
    (rs : List (Nat × Nat)) : ∀ (g : GState) (done : List (Nat × Nat)) (lo hi : Nat),
    all = done ++ rs → (∀ p, lo ≤ p → p < hi → InRanges done p) →
    GFrame (srcT src) src.length 0 lo hi (InRanges all) [] g →
    Cov (SNeed src done) (Good (srcT src) 0 g.buf) g.io →
    g.io.pending = [] → g.io.left = 0 → g.io.mid = false → g.io.raised = false →
    SInv src all ⟨(advance bs mr g rs).1, (advance bs mr g rs).2⟩ := by
  induction rs with
  | nil =>
    intro g done lo hi hall hreg hf hcov _ hleft _ _
    right
    exact ⟨done, lo, hi, hall, hreg, hf, hcov, fun _ _ => hleft⟩
  | cons rg rs ih =>
    obtain ⟨o, l⟩ := rg
    intro g done lo hi hall hreg hf hcov hpend hleft hmid hnr
    let io0 : IO := { g.io with off := o, left := l, excs := 0 }
    have hall' : all = (done ++ [(o, l)]) ++ rs := by rw [hall]; simp
    have hreg' : ∀ p, o ≤ p → p < o + l → InRanges (done ++ [(o, l)]) p :=
      fun p h1 h2 => ⟨(o, l), by simp, h1, h2⟩
    have hf' : GFrame (srcT src) src.length 0 o (o + l) (InRanges all) []
        { g with io := startTasks bs mr io0 } := by
      refine ⟨?_, hf.frame, hf.len1, hf.len2⟩
      apply range_startTasks o (o + l) bs mr hbs
      refine ⟨?_, Nat.le_refl _, Nat.le_refl _⟩
      intro r hr
      have : r ∈ g.io.pending := hr
      rw [hpend] at this; cases this
    have hcov' : Cov (SNeed src (done ++ [(o, l)])) (Good (srcT src) 0 g.buf) (startTasks bs mr io0) := by
      apply cov_startTasks
      intro p hp
      obtain ⟨⟨rg, hrg, h1, h2⟩, hpl⟩ := hp
      rcases List.mem_append.mp hrg with hrg | hrg
      · rcases hcov p ⟨⟨rg, hrg, h1, h2⟩, hpl⟩ with hg | ⟨r, hr, _⟩ | hu
        · exact Or.inl hg
        · rw [hpend] at hr; cases hr
        · omega
      · simp only [List.mem_singleton] at hrg
        subst hrg
        exact Or.inr (Or.inr ⟨h1, h2⟩)
    have hmid' : (startTasks bs mr io0).mid = false := by rw [startTasks_mid]; exact hmid
    have hnr' : (startTasks bs mr io0).raised = false := by rw [(startTasks_excs bs mr io0).2]; exact hnr
    simp only [advance]
    split
    · rename_i hp
      exact ih { g with io := startTasks bs mr io0 } (done ++ [(o, l)]) o (o + l) hall' hreg' hf' hcov' hp
        (startTasks_post bs mr hmr io0 hp) hmid' hnr'
    · rename_i hp
      right
      exact ⟨done ++ [(o, l)], o, o + l, hall', hreg', hf', hcov', fun _ h => absurd h hp⟩

theorem sinv_init (src : Bytes) (all : List (Nat × Nat)) (bs mr : Nat) (hbs : 1 ≤ bs) (hmr : 1 ≤ mr) :
    SInv src all (cinit bs mr all) := by
  simp only [cinit]
  apply sinv_advance src all bs mr hbs hmr all _ [] 0 0 (by simp) (fun p h1 h2 => by omega)
  · exact ⟨⟨(fun r hr => nomatch hr), Nat.le_refl _, Nat.le_refl _⟩,
      (fun q b hq => by simp at hq), Nat.le_refl _, (fun q hq => by simp at hq)⟩
  · intro p hp
    obtain ⟨⟨rg, hrg, _⟩, _⟩ := hp
    cases hrg
  · rfl
  · rfl
  · rfl
  · rfl

theorem sinv_step (src : Bytes) (all : List (Nat × Nat)) (bs mr : Nat) (hbs : 1 ≤ bs) (hmr : 1 ≤ mr)
    (s : CState) (e : Ev) (h : SInv src all s) (htr : Truthful src e) (heo : EofOnly src e) :
    SInv src all (cstep bs mr s e) := by
  rcases h with h | ⟨done, lo, hi, hall, hreg, hf, hc, hb⟩
  · -- already failed: stays failed
    cases e with
    | complete r rep => exact Or.inl (errored_gstep _ _ _ _ _ _ h)
    | endBatch =>
      have he := errored_gstep false bs mr 0 s.g .endBatch h
      simp only [cstep]
      split
      · rename_i hcond
        rcases he with he | he
        · -- after `endBatch` the batch flag is down, so the failure has been raised
          exfalso
          have hm : (gstep false bs mr 0 s.g .endBatch).io.mid = false ∨
              (gstep false bs mr 0 s.g .endBatch).io.raised = true := by
            simp only [gstep]
            split
            · rename_i hr; exact Or.inr hr
            · left; simp only [endBatchIO]; split <;> rfl
          rcases hm with hm | hm
          · rw [he.2] at hm; cases hm
          · rw [hcond.1] at hm; cases hm
        · rw [hcond.1] at he; cases he
      · exact Or.inl he
  · have htr' := truthfulT_of_truthful src e htr
    have hregall : ∀ p, lo ≤ p → p < hi → InRanges all p := by
      intro p h1 h2
      rw [hall]; exact inRanges_append_left _ _ _ (hreg p h1 h2)
    have hll : Lossless (SNeed src done) e := by
      cases e with
      | complete r rep =>
        cases rep with
        | data d =>
          intro hd p hp hn
          have : src.length ≤ r.off := heo hd
          have := hp.1; have := hn.2
          omega
        | eof =>
          intro p hp hn
          have : src.length ≤ r.off := htr
          have := hn.2
          omega
        | err => trivial
      | endBatch => trivial
    have hf' := gframe_gstep (srcT src) src.length 0 lo hi _ [] false bs mr hbs (Nat.zero_le _)
      (srcT_lim src) hregall s.g e hf htr' (Or.inr rfl)
    have hc' := cov_gstep (srcT src) src.length 0 lo hi _ [] false bs mr (Nat.zero_le _) (SNeed src done)
      s.g e hf hc htr' hll
    have hb' := bnd_gstep false bs mr 0 hmr s.g e hb
    cases e with
    | complete r rep =>
      simp only [cstep]
      rcases hc' with h1 | h1
      · exact Or.inl h1
      · rcases hb' with h2 | h2
        · exact Or.inl h2
        · exact Or.inr ⟨done, lo, hi, hall, hreg, hf', h1, h2⟩
    | endBatch =>
      simp only [cstep]
      split
      · rename_i hcond
        have hmid : (gstep false bs mr 0 s.g .endBatch).io.mid = false := by
          have hm : (gstep false bs mr 0 s.g .endBatch).io.mid = false ∨
              (gstep false bs mr 0 s.g .endBatch).io.raised = true := by
            simp only [gstep]
            split
            · rename_i hr; exact Or.inr hr
            · left; simp only [endBatchIO]; split <;> rfl
          rcases hm with hm | hm
          · exact hm
          · rw [hcond.1] at hm; cases hm
        have hne : ¬ Errored (gstep false bs mr 0 s.g .endBatch).io := by
          intro he
          rcases he with he | he
          · rw [hmid] at he; cases he.2
          · rw [hcond.1] at he; cases he
        have h1 := hc'.resolve_left hne
        have h2 := hb'.resolve_left hne
        exact sinv_advance src all bs mr hbs hmr s.ranges _ done lo hi hall hreg hf' h1 hcond.2
          (h2 hmid hcond.2) hmid hcond.1
      · rcases hc' with h1 | h1
        · exact Or.inl h1
        · rcases hb' with h2 | h2
          · exact Or.inl h2
          · exact Or.inr ⟨done, lo, hi, hall, hreg, hf', h1, h2⟩

theorem sinv_run (src : Bytes) (all : List (Nat × Nat)) (bs mr : Nat) (hbs : 1 ≤ bs) (hmr : 1 ≤ mr)
    (evs : List Ev) (s : CState) (h : SInv src all s)
    (htr : ∀ e ∈ evs, Truthful src e) (heo : ∀ e ∈ evs, EofOnly src e) :
    SInv src all (evs.foldl (cstep bs mr) s) := by
  induction evs generalizing s with
  | nil => exact h
  | cons e t ih =>
    simp only [List.foldl_cons]
    apply ih
    · exact sinv_step src all bs mr hbs hmr s e h (htr e (by simp)) (heo e (by simp))
    · exact fun e' he' => htr e' (by simp [he'])
    · exact fun e' he' => heo e' (by simp [he'])

theorem sinv_final (src : Bytes) (all : List (Nat × Nat)) (s : CState) (h : SInv src all s)
    (hidle : s.g.io.idle) (hnr : s.g.io.raised = false) (hrs : s.ranges = []) :
    (∀ p, InRanges all p → p < src.length → s.g.buf[p]? = src[p]?) ∧
    (∀ q b, s.g.buf[q]? = some b → (src[q]? = some b ∧ InRanges all q) ∨ b = 0) ∧
    (∀ q, q < s.g.buf.length → ∃ p, q ≤ p ∧ InRanges all p ∧ p < src.length) := by
  rcases h with h | ⟨done, lo, hi, hall, _, hf, hc, hbnd⟩
  · rcases h with h | h
    · have := hidle.2; rw [h.2] at this; cases this
    · rw [hnr] at h; cases h
  · have hleft : s.g.io.left = 0 := hbnd hidle.2 hidle.1
    have hdone : done = all := by rw [hall, hrs]; simp
    subst hdone
    refine ⟨?_, ?_, ?_⟩
    · intro p hp hpl
      rcases hc p ⟨hp, hpl⟩ with hg | ⟨r, hr, _⟩ | hu
      · obtain ⟨_, b, ht, hbuf⟩ := hg
        simp only [Nat.sub_zero] at hbuf
        rw [hbuf]; exact ht.symm
      · rw [hidle.1] at hr; cases hr
      · omega
    · intro q b hq
      rcases hf.frame q b hq with h1 | h1
      · exact Or.inl h1
      · right; simpa using h1
    · intro q hq
      rcases hf.len2 q hq with h0 | ⟨p, h1, h2, h3⟩
      · simp at h0
      · exact ⟨p, by simpa using h1, h2, h3⟩

/-! ### the non-sparse copier is the single-range machine -/

theorem cinit_nonsparse (bs mr total : Nat) :
    cinit bs mr (nonsparseRanges total) = ⟨ginit0 bs mr total, []⟩ := by
  simp only [cinit, nonsparseRanges, advance]
  split <;> rfl

theorem cstep_nil (bs mr : Nat) (g : GState) (e : Ev) :
    cstep bs mr ⟨g, []⟩ e = ⟨gstep false bs mr 0 g e, []⟩ := by
  cases e with
  | complete r rep => rfl
  | endBatch =>
    simp only [cstep, advance]
    split <;> rfl

theorem crun_nonsparse (bs mr total : Nat) (evs : List Ev) :
    crun bs mr (nonsparseRanges total) evs = ⟨grun false bs mr 0 (ginit0 bs mr total) evs, []⟩ := by
  simp only [crun, cinit_nonsparse, grun]
  generalize ginit0 bs mr total = g
  induction evs generalizing g with
  | nil => rfl
  | cons e t ih => simp only [List.foldl_cons, cstep_nil]; exact ih _


/-! ### `range_end` -/

theorem foldl_max_ge (rs : List (Nat × Nat)) (m : Nat) :
    m ≤ rs.foldl (fun m rg => max m (rg.1 + rg.2)) m ∧
    (∀ rg ∈ rs, rg.1 + rg.2 ≤ rs.foldl (fun m rg => max m (rg.1 + rg.2)) m) ∧
    (rs.foldl (fun m rg => max m (rg.1 + rg.2)) m = m ∨
      ∃ rg ∈ rs, rg.1 + rg.2 = rs.foldl (fun m rg => max m (rg.1 + rg.2)) m) := by
  induction rs generalizing m with
  | nil => exact ⟨Nat.le_refl _, (fun rg h => nomatch h), Or.inl rfl⟩
  | cons a t ih =>
    obtain ⟨h1, h2, h3⟩ := ih (max m (a.1 + a.2))
    simp only [List.foldl_cons]
    refine ⟨by omega, ?_, ?_⟩
    · intro rg hrg
      rcases List.mem_cons.mp hrg with h | h
      · subst h; omega
      · exact h2 rg h
    · rcases h3 with h3 | ⟨rg, hrg, h3⟩
      · by_cases hm : a.1 + a.2 ≤ m
        · left; rw [h3]; omega
        · right; exact ⟨a, by simp, by rw [h3]; omega⟩
      · right; exact ⟨rg, by simp [hrg], h3⟩

theorem rangesEnd_ge (rs : List (Nat × Nat)) : ∀ rg ∈ rs, rg.1 + rg.2 ≤ rangesEnd rs :=
  (foldl_max_ge rs 0).2.1

theorem rangesEnd_attained (rs : List (Nat × Nat)) (h : 0 < rangesEnd rs) :
    ∃ rg ∈ rs, rg.1 + rg.2 = rangesEnd rs := by
  rcases (foldl_max_ge rs 0).2.2 with h0 | h0
  · simp only [rangesEnd] at h; omega
  · exact h0

theorem inRanges_lt_end (rs : List (Nat × Nat)) (p : Nat) (h : InRanges rs p) : p < rangesEnd rs := by
  obtain ⟨rg, hrg, _, h2⟩ := h
  have := rangesEnd_ge rs rg hrg
  omega

/-- every range produced by the SEEK_DATA walk starts inside the file and is non-empty -/
theorem dataRanges_start_lt (ext : List (Nat × Nat)) (limit : Nat) :
    ∀ rg ∈ dataRanges ext limit, rg.1 < limit := by
  intro rg hrg
  simp only [dataRanges, List.mem_map, List.mem_filter, decide_eq_true_eq] at hrg
  obtain ⟨e, ⟨_, he⟩, rfl⟩ := hrg
  exact he

theorem map_rev_truthful (src : Bytes) (strict : Bool) (evs : List Ev) (h : ∀ e ∈ evs, Truthful src e) :
    ∀ e ∈ evs.map (rev strict), Truthful src e := by
  intro e he
  obtain ⟨e0, he0, rfl⟩ := List.mem_map.mp he
  have := h e0 he0
  cases e0 with
  | complete r rep =>
    cases rep with
    | data d =>
      simp only [rev]
      split
      · trivial
      · exact this
    | eof => exact this
    | err => trivial
  | endBatch => trivial

theorem map_rev_nonEmpty (evs : List Ev) : ∀ e ∈ evs.map (rev true), NonEmpty e := by
  intro e he
  obtain ⟨e0, _, rfl⟩ := List.mem_map.mp he
  cases e0 with
  | complete r rep =>
    cases rep with
    | data d =>
      simp only [rev]
      split
      · trivial
      · rename_i h
        by_cases hd : d = []
        · right
          by_cases hs : r.size = 0
          · exact hs
          · exact absurd ⟨trivial, hd, hs⟩ h
        · exact Or.inl hd
    | eof => trivial
    | err => trivial
  | endBatch => trivial

end AsyncsshModel.SftpIO
