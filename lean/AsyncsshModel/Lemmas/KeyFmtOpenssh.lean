import AsyncsshModel.Model.KeyFmtOpenssh
import AsyncsshModel.Lemmas.Wire
/-
  The OpenSSH private key container: padding rule and export/import round trip.
-/
namespace AsyncsshModel.KeyFmt
open AsyncsshModel AsyncsshModel.Wire

/-! ### padding -/

theorem rangeBytes?_length {lo hi : Int} {p : Bytes} (h : rangeBytes? lo hi = some p) :
    p.length = (hi - lo).toNat := by
  unfold rangeBytes? at h
  split at h
  · simp at h; subst h; simp; omega
  · split at h
    · simp at h; subst h; simp
    · simp at h

/-- what the writer appends is accepted by the reader's padding check -/
theorem padOk_of_range {hi : Int} {p : Bytes} (h : rangeBytes? 1 hi = some p) : padOk p = true := by
  have hlen := rangeBytes?_length h
  unfold padOk
  simp only [Gen.C15.padRejectLen, Gen.C15.padCheckFirst, Gen.C15.padCheckStop]
  unfold rangeBytes? at h
  split at h
  · rename_i hle
    simp at h; subst h
    simp [rangeBytes?]
  · rename_i hgt
    split at h
    · rename_i hb
      have hl : p.length < 256 := by rw [hlen]; omega
      have e : ((p.length : Int) + 1 - 1).toNat = (hi - 1).toNat := by rw [hlen]; omega
      simp only [Option.some.injEq] at h
      have h2 : rangeBytes? (1 : Int) ((p.length : Int) + 1) = some p := by
        unfold rangeBytes?
        have c1 : ¬ ((p.length : Int) + 1 ≤ 1) := by rw [hlen]; omega
        have c2 : (0 : Int) ≤ 1 ∧ (p.length : Int) + 1 ≤ 256 := by omega
        rw [if_neg c1, if_pos c2, e, h]
      have : ¬ (256 ≤ p.length) := by omega
      simp [this, h2]
    · simp at h

/-- **The padding rule is correct** for every data length and every block size the byte range allows:
    the padded length is a multiple of the block size, fewer than `blockSize` bytes `1, 2, 3, …` are added,
    and the reader's check accepts exactly this padding. -/
theorem addPadding_spec (bs : Nat) (data : Bytes) (h1 : 1 ≤ bs) (h2 : bs ≤ 256) :
    ∃ p, addPadding? bs data = some (data ++ p) ∧ (data ++ p).length % bs = 0 ∧ p.length < bs ∧
      padOk p = true ∧ ∀ i (hi : i < p.length), p[i] = UInt8.ofNat (i + 1) := by
  unfold addPadding?
  have hbs : bs ≠ 0 := by omega
  simp only [hbs, if_false]
  by_cases hp : data.length % bs = 0
  · refine ⟨[], by simp [hp], by simpa using hp, by simp; omega, by decide, by simp⟩
  · simp only [hp, if_false, Gen.C15.padFirst, Gen.C15.padStop]
    have hlt : data.length % bs < bs := Nat.mod_lt _ (by omega)
    have hr : rangeBytes? ((1 : Nat) : Int) ((bs : Int) + 1 - ((data.length % bs : Nat) : Int))
        = some ((List.range (bs - data.length % bs)).map fun i => UInt8.ofNat (1 + i)) := by
      unfold rangeBytes?
      have c1 : ¬ ((bs : Int) + 1 - ((data.length % bs : Nat) : Int) ≤ ((1 : Nat) : Int)) := by omega
      have c2 : (0 : Int) ≤ ((1 : Nat) : Int) ∧ (bs : Int) + 1 - ((data.length % bs : Nat) : Int) ≤ 256 := by omega
      rw [if_neg c1, if_pos c2]
      have e : ((bs : Int) + 1 - ((data.length % bs : Nat) : Int) - ((1 : Nat) : Int)).toNat
          = bs - data.length % bs := by omega
      rw [e]; rfl
    refine ⟨_, by rw [hr]; rfl, ?_, by simp; omega, padOk_of_range (hi := (bs : Int) + 1 - ((data.length % bs : Nat) : Int)) (by simpa using hr), ?_⟩
    · simp only [List.length_append, List.length_map, List.length_range]
      have := Nat.div_add_mod data.length bs
      have e : data.length + (bs - data.length % bs) = bs * (data.length / bs + 1) := by
        rw [Nat.mul_add, Nat.mul_one]; omega
      rw [e]; exact Nat.mul_mod_right _ _
    · intro i hi
      simp at hi
      simp [Nat.add_comm]

theorem addPadding?_eq_some {bs : Nat} {data out : Bytes} (h : addPadding? bs data = some out) :
    ∃ p, out = data ++ p ∧ padOk p = true := by
  unfold addPadding? at h
  split at h
  · simp at h
  · simp only [] at h
    split at h
    · simp at h; subst h; exact ⟨[], by simp, by decide⟩
    · cases hr : rangeBytes? Gen.C15.padFirst (Gen.C15.padStop bs (data.length % bs)) with
      | none => simp [hr] at h
      | some p =>
        simp [hr] at h
        refine ⟨p, h.symm, ?_⟩
        exact padOk_of_range (hi := Gen.C15.padStop bs (data.length % bs)) (by simpa [Gen.C15.padFirst] using hr)

/-! ### fields -/

theorem getField_enc {k : FieldKind} {f w : Bytes} (h : encField? k f = some w) (r : Bytes) :
    getField k (w ++ r) = some (f, r) := by
  cases k with
  | str => exact getString_enc h r
  | byte =>
    simp only [encField?] at h
    split at h
    · rename_i hl
      simp at h; subst h
      simp only [getField]
      exact getBytes_append' f r hl
    · simp at h

theorem getFields_enc : ∀ (layout : List FieldKind) (fields : List Bytes) (w : Bytes),
    encFields? layout fields = some w → ∀ r, getFields layout (w ++ r) = some (fields, r)
  | [], [], w, h, r => by simp [encFields?] at h; subst h; simp [getFields]
  | [], _ :: _, w, h, r => by simp [encFields?] at h
  | _ :: _, [], w, h, r => by simp [encFields?] at h
  | k :: ks, f :: fs, w, h, r => by
    simp only [encFields?] at h
    cases h1 : encField? k f with
    | none => simp [h1] at h
    | some a =>
      cases h2 : encFields? ks fs with
      | none => simp [h1, h2] at h
      | some b =>
        simp [h1, h2] at h
        subst h
        rw [getFields, List.append_assoc, getField_enc h1]
        simp only []
        rw [getFields_enc ks fs b h2 r]

/-! ### container round trip -/

theorem isPrefixOf_append (a b : Bytes) : a.isPrefixOf (a ++ b) = true := by
  rw [List.isPrefixOf_iff_prefix]; exact List.prefix_append _ _

theorem privateData?_eq_some {k : OpensshKey} {w : Bytes} (h : privateData? k = some w) :
    ∃ layout a fs, keyLayout k.alg = some layout ∧ encString? k.alg = some a ∧
      encFields? layout k.fields = some fs ∧ w = a ++ fs := by
  unfold privateData? at h
  cases h1 : keyLayout k.alg with
  | none => simp [h1] at h
  | some layout =>
    cases h2 : encString? k.alg with
    | none => simp [h1, h2] at h
    | some a =>
      cases h3 : encFields? layout k.fields with
      | none => simp [h1, h2, h3] at h
      | some fs =>
        simp [h1, h2, h3] at h
        exact ⟨layout, a, fs, rfl, rfl, h3, h.symm⟩

theorem plainSection?_eq_some {check : Nat} {k : OpensshKey} {w : Bytes} (h : plainSection? check k = some w) :
    ∃ chk priv cmt, encUInt32? check = some chk ∧ privateData? k = some priv ∧
      encString? k.comment = some cmt ∧ w = chk ++ (chk ++ (priv ++ cmt)) := by
  unfold plainSection? at h
  cases h1 : encUInt32? check with
  | none => simp [h1] at h
  | some chk =>
    cases h2 : privateData? k with
    | none => simp [h1, h2] at h
    | some priv =>
      cases h3 : encString? k.comment with
      | none => simp [h1, h2, h3] at h
      | some cmt =>
        simp [h1, h2, h3] at h
        exact ⟨chk, priv, cmt, rfl, rfl, rfl, h.symm⟩

/-- the decrypted key section decodes to the key, whatever valid padding follows -/
theorem decodePlain_plainSection (encrypted : Bool) (check : Nat) (k : OpensshKey) (plain p : Bytes)
    (h : plainSection? check k = some plain) (hp : padOk p = true) :
    decodePlain encrypted k.pub (plain ++ p) = .ok k := by
  obtain ⟨chk, priv, cmt, h1, h2, h3, rfl⟩ := plainSection?_eq_some h
  obtain ⟨layout, a, fs, hl, ha, hfs, rfl⟩ := privateData?_eq_some h2
  unfold decodePlain
  simp only [List.append_assoc]
  rw [getUInt32_enc h1]
  simp only []
  rw [getUInt32_enc h1]
  simp only [ne_eq, not_true_eq_false, if_false]
  rw [getString_enc ha]
  simp only [hl]
  rw [getFields_enc layout k.fields fs hfs]
  simp only []
  rw [getString_enc h3]
  simp [hp]

theorem parseContainer_container (c : Cipher) (pub ct mac w : Bytes) (h : container? c pub ct mac = some w) :
    ∃ body, w = Gen.C15.opensshKeyV1 ++ body ∧
      parseContainer body = some (c.name, c.kdf, c.kdfData, 1, pub, ct, mac) := by
  unfold container? at h
  cases h5 : encString? c.name with
  | none => simp [h5] at h
  | some sName =>
  cases h6 : encString? c.kdf with
  | none => simp [h5, h6] at h
  | some sKdf =>
  cases h7 : encString? c.kdfData with
  | none => simp [h5, h6, h7] at h
  | some sKdfData =>
  cases h8 : encUInt32? 1 with
  | none => simp [h5, h6, h7, h8] at h
  | some one =>
  cases h9 : encString? pub with
  | none => simp [h5, h6, h7, h8, h9] at h
  | some sPub =>
  cases h10 : encString? ct with
  | none => simp [h5, h6, h7, h8, h9, h10] at h
  | some sCt =>
  simp [h5, h6, h7, h8, h9, h10] at h
  refine ⟨_, h.symm, ?_⟩
  unfold parseContainer
  rw [getString_enc h5]; simp only []
  rw [getString_enc h6]; simp only []
  rw [getString_enc h7]; simp only []
  rw [getUInt32_enc h8]; simp only []
  rw [getString_enc h9]; simp only []
  rw [getString_enc h10]

/-- **OpenSSH private key container round trip**, for every key (algorithm with a known layout, any
    field contents), comment, public blob, check value, block size and cipher satisfying `decrypt ∘ encrypt = id`:
    whatever `export_private_key('openssh')` manages to write, `_decode_openssh_private` reads back. -/
theorem decodeOpenssh_encodeOpenssh (c : Cipher) (pass : Option Cipher) (check : Nat) (k : OpensshKey) (w : Bytes)
    (hpass : c.name ≠ sNone → pass = some c)
    (hlaw : ∀ x, c.decrypt (c.encrypt x).1 (c.encrypt x).2 = some x)
    (hkdf : c.name ≠ sNone → c.kdf = bcryptName)
    (henc : encodeOpenssh? c check k = some w) :
    decodeOpenssh pass w = .ok k := by
  unfold encodeOpenssh? at henc
  split at henc
  · simp at henc
  unfold encodeOpensshPreFix? at henc
  cases h1 : plainSection? check k with
  | none => simp [h1] at henc
  | some plain =>
  cases h2 : addPadding? (padBlockSize c) plain with
  | none => simp [h1, h2] at henc
  | some padded =>
  obtain ⟨p, rfl, hpok⟩ := addPadding?_eq_some h2
  simp only [h1, h2, Option.bind_eq_bind, Option.bind_some] at henc
  by_cases hn : c.name = sNone
  · simp only [hn, if_true] at henc
    obtain ⟨body, rfl, hbody⟩ := parseContainer_container c k.pub (plain ++ p) [] w (by simpa [hn] using henc)
    unfold decodeOpenssh
    simp only [isPrefixOf_append, Bool.not_true, Bool.false_eq_true, if_false, List.drop_left, hbody, hn,
      ne_eq, not_true_eq_false, if_true]
    exact decodePlain_plainSection false check k plain p h1 hpok
  · simp only [hn, if_false] at henc
    obtain ⟨body, rfl, hbody⟩ := parseContainer_container c k.pub _ _ w henc
    unfold decodeOpenssh
    simp only [isPrefixOf_append, Bool.not_true, Bool.false_eq_true, if_false, List.drop_left, hbody, hn,
      ne_eq, not_true_eq_false, hpass hn, hkdf hn, hlaw]
    exact decodePlain_plainSection true check k plain p h1 hpok

/-- the repaired exporter writes nothing for a comment it refuses -/
theorem encodeOpenssh?_refused (c : Cipher) (check : Nat) (k : OpensshKey) (h : commentRefused k.comment = true) :
    encodeOpenssh? c check k = none := by
  simp [encodeOpenssh?, h]

/-- whatever the repaired exporter writes was not refused -/
theorem not_refused_of_encodeOpenssh? {c : Cipher} {check : Nat} {k : OpensshKey} {w : Bytes}
    (h : encodeOpenssh? c check k = some w) : commentRefused k.comment = false := by
  unfold encodeOpenssh? at h
  split at h
  · simp at h
  · simpa using ‹¬ commentRefused k.comment = true›

/-- a byte string without a NUL is a C string in OpenSSH's sense -/
theorem cstringOk_of_no_nul (b : Bytes) (h : b.contains 0 = false) : cstringOk b = true := by
  unfold cstringOk
  have hn : (0 : UInt8) ∉ b := by simpa using h
  have : (0 : UInt8) ∉ b.dropLast := fun hm => hn (List.dropLast_subset b hm)
  simp [this]

end AsyncsshModel.KeyFmt
