import AsyncsshModel.Lemmas.ChannelStep
/-
  One endpoint with its callback history: which callbacks a step can make (`StepOuts`), monotonicity of the
  closing send half, and the history invariant `GInv` (EOF callback only after all buffered data, at most once,
  `connection_lost` last, who caused a closing send half).
-/
namespace AsyncsshModel.Channel
open AsyncsshModel

/-! ### callbacks and state transitions of one step -/

def RecvLate (c : Chan) : Prop := c.recvState = .eof ∨ c.recvState = .closePending ∨ c.recvState = .closed
def SendLate (c : Chan) : Prop := c.sendState = .closePending ∨ c.sendState = .closed

structure StepOuts (c : Chan) (ev : Ev) (c' : Chan) (os : List Out) : Prop where
  shape : ∃ ds tl, os = ds ++ tl ∧ allDataOuts ds ∧ OutTail tl
  eofOut : Out.eof ∈ os → c'.recvBuf = [] ∧
    (c'.recvState = .eof ∨
     (c'.recvState = .closed ∧ (c.recvEofPending = true ∨ (ev = .recv .close ∧ c.recvState = .eofPending))))
  flagSrc : c'.recvEofPending = true → c.recvEofPending = true ∨ (ev = .recv .close ∧ c.recvState = .eofPending)
  eofState : c'.recvState = .eof → c.recvState = .eof ∨ Out.eof ∈ os
  lostOut : Out.lost ∈ os → c'.recvState = .closed
  quiet : RecvLate c → c.recvBuf = [] → (os = [] ∨ os = [.lost]) ∧ RecvLate c' ∧ c'.recvBuf = []
  closedAbsorb : c.recvState = .closed → c'.recvState = .closed ∧ os = []
  sendLate : SendLate c' → SendLate c ∨ ev = .close ∨ ev = .recv .close
  eofWait : c'.recvState = .eofPending →
    c'.recvPaused ≠ .no ∨ ev = .close ∨ (c.recvState = .eofPending ∧ c'.recvPaused = c.recvPaused)

theorem shape_nil : ∃ ds tl, ([] : List Out) = ds ++ tl ∧ allDataOuts ds ∧ OutTail tl :=
  ⟨[], [], rfl, trivial, Or.inl rfl⟩

/-- a step that makes no callback and leaves the receive state, buffer and pause flag alone -/
theorem StepOuts.silent {c c' : Chan} {ev : Ev} (h1 : c'.recvState = c.recvState) (h2 : c'.recvBuf = c.recvBuf)
    (h3 : c'.recvPaused = c.recvPaused) (h5 : c'.recvEofPending = c.recvEofPending)
    (h4 : SendLate c' → SendLate c ∨ ev = .close ∨ ev = .recv .close) : StepOuts c ev c' [] :=
  ⟨shape_nil, by simp, fun h => Or.inl (h5 ▸ h), fun h => Or.inl (h1 ▸ h), by simp,
   fun hl hb => ⟨Or.inl rfl, by unfold RecvLate at *; rw [h1]; exact hl, h2 ▸ hb⟩,
   fun h => ⟨h1 ▸ h, rfl⟩, h4, fun h => Or.inr (Or.inr ⟨h1 ▸ h, h3⟩)⟩

theorem SendSpec.sendLate {c c' : Chan} {ms : List Msg} (sp : SendSpec c c' ms) (h : SendLate c') :
    SendLate c := by
  unfold SendLate at *
  rcases sp.trans with ht | ⟨_, ht⟩ | ⟨ht, _⟩
  · rw [← ht]; exact h
  · rw [ht] at h; simp at h
  · exact Or.inl ht

theorem Eff.sendLate {c c' : Chan} {ms : List Msg} {os : List Out} (e : Eff c c' ms os) (h : SendLate c') :
    SendLate c := by
  unfold SendLate at *
  rcases e.sendTrans with ht | ⟨_, ht⟩ | ⟨_, ht⟩ | ⟨ht, _⟩
  · rw [← ht]; exact h
  · rcases ht with ht | ht <;> (rw [ht] at h; simp at h)
  · rw [ht] at h; simp at h
  · exact Or.inl ht

/-- the four events that run `_flush_recv_buf` -/
theorem StepOuts.of_flushRecv {c c0 c' : Chan} {ev : Ev} {ms : List Msg} {os : List Out}
    (sp : FlushRecvSpec c0 c' ms os) (hb : c0.recvBuf = c.recvBuf)
    (hs : c0.recvState = c.recvState ∨ (c.recvState = .opn ∧ c0.recvState = .eofPending) ∨
          ((c.recvState = .opn ∨ c.recvState = .eofPending ∨ c.recvState = .eof) ∧ c0.recvState = .closePending))
    (hcl : c.recvState = .closed → c.recvBuf = [])
    (hcp : c.recvState = .closePending → c.recvBuf ≠ [])
    (hfl : c0.recvEofPending = true → c.recvEofPending = true ∨ (ev = .recv .close ∧ c.recvState = .eofPending))
    (hflc : c.recvState = .eof → c0.recvState = .closePending → c0.recvEofPending = false)
    (hsl : SendLate c0 → SendLate c ∨ ev = .close ∨ ev = .recv .close) : StepOuts c ev c' os := by
  refine ⟨sp.shape, ?_, fun h => hfl (sp.flagMono h), ?_, fun h => (sp.lostOut h).1, ?_, ?_, ?_,
    fun h => Or.inl (sp.eofP h)⟩
  · intro h
    obtain ⟨hb', hc⟩ := sp.eofOut h
    refine ⟨hb', ?_⟩
    rcases hc with ⟨_, h2⟩ | ⟨_, hf, h2⟩
    · exact Or.inl h2
    · exact Or.inr ⟨h2, hfl hf⟩
  · intro h
    rcases sp.eofState h with h1 | h1
    · rcases hs with h2 | ⟨_, h2⟩ | ⟨_, h2⟩
      · left; rw [← h2]; exact h1
      · rw [h2] at h1; cases h1
      · rw [h2] at h1; cases h1
    · exact Or.inr h1
  · intro hl hcb
    have hcb0 : c0.recvBuf = [] := hb ▸ hcb
    have hlate0 : RecvLate c0 := by
      unfold RecvLate at *
      rcases hs with h2 | ⟨h2, _⟩ | ⟨_, h2⟩
      · rw [h2]; exact hl
      · rw [h2] at hl; simp at hl
      · right; left; exact h2
    have hne : c0.recvState ≠ .eofPending := by
      unfold RecvLate at hlate0
      rcases hlate0 with h | h | h <;> (rw [h]; simp)
    -- no EOF callback can come out of this call
    have hnoeof : Out.eof ∉ os := by
      intro hm
      rcases (sp.eofOut hm).2 with ⟨h1, _⟩ | ⟨h1, hf, _⟩
      · exact hne h1
      · rcases hs with h3 | ⟨h3, _⟩ | ⟨h3, _⟩
        · exact hcp (h3 ▸ h1) hcb
        · unfold RecvLate at hl; rw [h3] at hl; simp at hl
        · unfold RecvLate at hl
          rcases h3 with h3 | h3 | h3
          · rw [h3] at hl; simp at hl
          · rw [h3] at hl; simp at hl
          · have := hflc h3 h1
            rw [this] at hf; cases hf
    refine ⟨?_, ?_, ?_⟩
    · rcases sp.noData hcb0 with h | h | h | h
      · exact Or.inl h
      · exact absurd (by rw [h]; simp) hnoeof
      · exact Or.inr h
      · exact absurd (by rw [h]; simp) hnoeof
    · unfold RecvLate at *
      rcases sp.recvTrans with h | ⟨h, _⟩ | ⟨_, h⟩
      · rw [h]; exact hlate0
      · exact absurd h hne
      · right; right; exact h
    · have := sp.bufLen
      rw [hcb0] at this
      exact List.length_eq_zero_iff.mp (by simpa using this)
  · intro hc
    have h0 : c0.recvState = .closed := by
      rcases hs with h2 | ⟨h2, _⟩ | ⟨h2, _⟩
      · rw [h2]; exact hc
      · rw [hc] at h2; cases h2
      · rw [hc] at h2; simp at h2
    have hcb0 : c0.recvBuf = [] := hb ▸ hcl hc
    refine ⟨?_, ?_⟩
    · rcases sp.recvTrans with h | ⟨h, _⟩ | ⟨h, _⟩
      · rw [h]; exact h0
      · rw [h0] at h; cases h
      · rw [h0] at h; cases h
    · rcases sp.noData hcb0 with h | h | h | h
      · exact h
      · rcases (sp.eofOut (by rw [h]; simp)).2 with ⟨h5, _⟩ | ⟨h5, _⟩ <;> (rw [h0] at h5; cases h5)
      · have := (sp.lostOut (by rw [h]; simp)).2; rw [h0] at this; cases this
      · have := (sp.lostOut (by rw [h]; simp)).2; rw [h0] at this; cases this
  · intro h
    exact hsl (sp.eff.sendLate h)

/-- with the receive half still open nothing in `StepOuts` constrains a step that makes no EOF/lost callback -/
theorem StepOuts.open_data {c c' : Chan} {ev : Ev} {os : List Out} (hs : c.recvState = .opn)
    (hs' : c'.recvState = .opn) (ho : allDataOuts os) (h5 : c'.recvEofPending = c.recvEofPending)
    (h4 : SendLate c' → SendLate c ∨ ev = .close ∨ ev = .recv .close) : StepOuts c ev c' os := by
  have hn := allDataOuts_not_mem os ho
  refine ⟨⟨os, [], by simp, ho, Or.inl rfl⟩, fun h => absurd h hn.1, fun h => Or.inl (h5 ▸ h), ?_,
    fun h => absurd h hn.2, ?_, ?_, h4, ?_⟩
  · intro h; rw [hs'] at h; cases h
  · intro hl; unfold RecvLate at hl; rw [hs] at hl; simp at hl
  · intro h; rw [hs] at h; cases h
  · intro h; rw [hs'] at h; cases h

theorem step_outs (c c' : Chan) (ev : Ev) (ms : List Msg) (os : List Out) (hw : WF c)
    (h : step c ev = .ok (c', ms, os)) : StepOuts c ev c' os := by
  cases ev with
  | write dt bs =>
    obtain ⟨hs, _, rfl, ⟨_, hc, _⟩ | ⟨hne, h1⟩⟩ := step_write_ok h
    · rw [hc]; exact StepOuts.silent rfl rfl rfl rfl Or.inl
    · have hw0 : WFs { c with sendBuf := c.sendBuf ++ [(bs, dt)] } :=
        ⟨hw.s.chanOpen, by intro h2; simp [hs] at h2⟩
      have sp := flushSend_spec _ _ _ hw0 h1
      exact StepOuts.silent sp.same.recvState sp.same.recvBuf sp.same.recvPaused sp.same.recvEofPending (fun h => Or.inl (sp.sendLate h))
  | writeEof =>
    obtain ⟨h1, rfl⟩ := step_writeEof_ok h
    obtain ⟨e, h2, h3, h4, _, _, h6, _⟩ := writeEof_spec _ _ _ hw.s h1
    exact StepOuts.silent h2 h3 h4 h6 (fun h => Or.inl (e.sendLate h))
  | close =>
    obtain ⟨c1, ms1, h1, h2⟩ := step_close_ok h
    have hsr : SameRecv c c1 := by
      rcases h1 with ⟨hs1, hs2, h1⟩ | ⟨_, hc1, _⟩
      · have hop : c.sendChanOpen = true := hw.s.chanOpen.mpr hs2
        have hw0 : WFs { c with sendEofPending := decide (c.sendState = .eofPending), sendState := .closePending } :=
          ⟨by simp only [ne_eq, reduceCtorEq, not_false_eq_true, iff_true]; exact hop, by simp⟩
        have sp := flushSend_spec _ _ _ hw0 h1
        exact ⟨sp.same.initWindow, sp.same.readTypes, sp.same.writeTypes, sp.same.eofKeep, sp.same.sendPktsize,
          sp.same.recvState, sp.same.recvWindow, sp.same.recvPaused, sp.same.recvBuf, sp.same.pauseAfter,
          sp.same.recvEofPending⟩
      · rw [hc1]; exact SameRecv.refl c
    rcases h2 with ⟨hr, hc', _, ho'⟩ | ⟨hr, hc', _, ho'⟩
    · have hss := discardRecv_spec c1
      rw [hc', ho']
      refine ⟨?_, ?_, fun hf => Or.inl (by rw [← hsr.recvEofPending, ← hss.recvEofPending]; exact hf), ?_, ?_, ?_, ?_,
        fun _ => Or.inr (Or.inl rfl), fun _ => Or.inr (Or.inl rfl)⟩
      · rcases hss.fired with ⟨h3, _⟩ | ⟨h3, _⟩
        · exact ⟨[], [.lost], by simp [h3], trivial, Or.inr (Or.inr (Or.inl rfl))⟩
        · rw [h3]; exact shape_nil
      · intro hm; rcases hss.fired with ⟨h3, _⟩ | ⟨h3, _⟩ <;> (rw [h3] at hm; simp at hm)
      · intro h3
        rcases hss.fired with ⟨_, _, h4⟩ | ⟨_, _, h4⟩
        · rw [h4] at h3; cases h3
        · left; rw [← hsr.recvState, ← h4]; exact h3
      · intro hm
        rcases hss.fired with ⟨_, _, h4⟩ | ⟨h3, _⟩
        · exact h4
        · rw [h3] at hm; simp at hm
      · intro hl _
        refine ⟨?_, ?_, hss.recvBuf⟩
        · rcases hss.fired with ⟨h3, _⟩ | ⟨h3, _⟩
          · exact Or.inr h3
          · exact Or.inl h3
        · unfold RecvLate at *
          rcases hss.fired with ⟨_, _, h4⟩ | ⟨_, _, h4⟩
          · right; right; exact h4
          · rw [h4, hsr.recvState]; exact hl
      · intro hcl
        exact absurd (hsr.recvState ▸ hcl) hr
    · rw [hc', ho']
      exact StepOuts.silent hsr.recvState hsr.recvBuf hsr.recvPaused hsr.recvEofPending (fun _ => Or.inr (Or.inl rfl))
  | pause =>
    obtain ⟨rfl, _, rfl⟩ := step_pause_ok h
    exact ⟨shape_nil, by simp, Or.inl, fun h => Or.inl h, by simp,
      fun hl hb => ⟨Or.inl rfl, hl, hb⟩, fun h => ⟨h, rfl⟩, Or.inl, fun _ => Or.inl (by simp)⟩
  | armPause k =>
    obtain ⟨rfl, _, rfl⟩ := step_arm_ok h
    exact StepOuts.silent rfl rfl rfl rfl Or.inl
  | resume =>
    rcases step_resume_ok h with ⟨_, h1⟩ | ⟨_, hc, _, ho⟩
    · have hw0 : WFs { c with recvPaused := .no } := ⟨hw.s.chanOpen, hw.s.drained⟩
      exact StepOuts.of_flushRecv (flushRecv_spec _ _ _ _ hw0 h1) rfl (Or.inl rfl) hw.closedR hw.closePB Or.inl
        (fun h1 h2 => by rw [h1] at h2; cases h2) Or.inl
    · rw [hc, ho]; exact StepOuts.silent rfl rfl rfl rfl Or.inl
  | startReading =>
    rcases step_start_ok h with ⟨_, h1⟩ | ⟨_, hc, _, ho⟩
    · have hw0 : WFs { c with recvPaused := .no } := ⟨hw.s.chanOpen, hw.s.drained⟩
      exact StepOuts.of_flushRecv (flushRecv_spec _ _ _ _ hw0 h1) rfl (Or.inl rfl) hw.closedR hw.closePB Or.inl
        (fun h1 h2 => by rw [h1] at h2; cases h2) Or.inl
    · rw [hc, ho]; exact StepOuts.silent rfl rfl rfl rfl Or.inl
  | recv m =>
    cases m with
    | data dt bs =>
      obtain ⟨hs, _, _, ha⟩ := step_recv_data_ok h
      rcases acceptData_cases c bs dt with ⟨_, h1⟩ | ⟨_, _, h1⟩ | ⟨_, _, _, h1⟩ | ⟨_, _, _, h1⟩
      · rw [h1] at ha; cases ha; exact StepOuts.silent rfl rfl rfl rfl Or.inl
      · rw [h1] at ha; cases ha; exact StepOuts.silent rfl rfl rfl rfl Or.inl
      · rw [h1] at ha; cases ha; exact StepOuts.open_data hs hs trivial rfl Or.inl
      · rw [h1] at ha
        obtain ⟨sp, ho⟩ := deliverData_spec c bs dt
        rw [ha] at sp ho
        simp only at sp ho
        subst ho
        refine StepOuts.open_data hs (sp.same.recvState.trans hs) trivial sp.same.recvEofPending ?_
        intro hl; left; unfold SendLate at *; rw [← sp.same.sendState]; exact hl
    | adjust n =>
      obtain ⟨_, h1, rfl⟩ := step_recv_adjust_ok h
      have hw0 : WFs { c with sendWindow := c.sendWindow + n } := ⟨hw.s.chanOpen, hw.s.drained⟩
      have sp := flushSend_spec _ _ _ hw0 h1
      exact StepOuts.silent sp.same.recvState sp.same.recvBuf sp.same.recvPaused sp.same.recvEofPending (fun h => Or.inl (sp.sendLate h))
    | eof =>
      obtain ⟨hs, h1⟩ := step_recv_eof_ok h
      have hw0 : WFs { c with recvState := .eofPending } := ⟨hw.s.chanOpen, hw.s.drained⟩
      exact StepOuts.of_flushRecv (flushRecv_spec _ _ _ _ hw0 h1) rfl (Or.inr (Or.inl ⟨hs, rfl⟩)) hw.closedR hw.closePB
        Or.inl (fun _ h2 => by cases h2) Or.inl
    | close =>
      obtain ⟨hop, ms1, h1, _⟩ := step_recv_close_ok h
      obtain ⟨hsr, _, _, _, _, _, _, _, hwf⟩ := closeSend_spec c hw.s
      have hw0 : WFs { (closeSend c).1 with recvEofPending := decide (c.recvState = .eofPending), recvState := .closePending } := ⟨hwf.chanOpen, hwf.drained⟩
      exact StepOuts.of_flushRecv (flushRecv_spec _ _ _ _ hw0 h1) hsr.recvBuf
        (Or.inr (Or.inr ⟨(recvOpenish_iff _).mp hop, rfl⟩)) hw.closedR hw.closePB
        (fun hf => Or.inr ⟨rfl, by simpa using hf⟩) (fun h1 _ => by simp [h1]) (fun _ => Or.inr (Or.inr rfl))

theorem Eff.lateMono {c c' : Chan} {ms : List Msg} {os : List Out} (e : Eff c c' ms os) (h : SendLate c) :
    SendLate c' := by
  unfold SendLate at *
  rcases e.sendTrans with ht | ⟨ht, _⟩ | ⟨ht, _⟩ | ⟨_, ht⟩
  · rw [ht]; exact h
  · rw [ht] at h; simp at h
  · rw [ht] at h; simp at h
  · exact Or.inr ht

theorem SendSpec.lateMono {c c' : Chan} {ms : List Msg} (sp : SendSpec c c' ms) (h : SendLate c) :
    SendLate c' := by
  unfold SendLate at *
  rcases sp.trans with ht | ⟨ht, _⟩ | ⟨_, ht⟩
  · rw [ht]; exact h
  · rw [ht] at h; simp at h
  · exact Or.inr ht

/-- once the send half is closing it stays so; `close()` makes it so -/
theorem step_late (c c' : Chan) (ev : Ev) (ms : List Msg) (os : List Out) (hw : WF c)
    (h : step c ev = .ok (c', ms, os)) : (SendLate c → SendLate c') ∧ (ev = .close → SendLate c') := by
  cases ev with
  | write dt bs =>
    obtain ⟨hs, _⟩ := step_write_ok h
    exact ⟨fun hl => by unfold SendLate at hl; rw [hs] at hl; simp at hl, fun h => by cases h⟩
  | writeEof =>
    obtain ⟨h1, _⟩ := step_writeEof_ok h
    obtain ⟨e, _⟩ := writeEof_spec _ _ _ hw.s h1
    exact ⟨e.lateMono, fun h => by cases h⟩
  | close =>
    obtain ⟨c1, ms1, h1, h2⟩ := step_close_ok h
    have hl1 : SendLate c1 := by
      rcases h1 with ⟨hs1, hs2, h1⟩ | ⟨hl, hc1, _⟩
      · have hop : c.sendChanOpen = true := hw.s.chanOpen.mpr hs2
        have hw0 : WFs { c with sendEofPending := decide (c.sendState = .eofPending), sendState := .closePending } :=
          ⟨by simp only [ne_eq, reduceCtorEq, not_false_eq_true, iff_true]; exact hop, by simp⟩
        exact (flushSend_spec _ _ _ hw0 h1).lateMono (Or.inl rfl)
      · rw [hc1]; exact hl
    have hl' : SendLate c' := by
      rcases h2 with ⟨_, hc', _, _⟩ | ⟨_, hc', _, _⟩
      · rw [hc']; unfold SendLate at *; rw [(discardRecv_spec c1).sendState]; exact hl1
      · rw [hc']; exact hl1
    exact ⟨fun _ => hl', fun _ => hl'⟩
  | pause =>
    obtain ⟨rfl, _, _⟩ := step_pause_ok h
    exact ⟨id, fun h => by cases h⟩
  | armPause k =>
    obtain ⟨rfl, _, _⟩ := step_arm_ok h
    exact ⟨id, fun h => by cases h⟩
  | resume =>
    rcases step_resume_ok h with ⟨_, h1⟩ | ⟨_, hc, _, _⟩
    · have hw0 : WFs { c with recvPaused := .no } := ⟨hw.s.chanOpen, hw.s.drained⟩
      exact ⟨(flushRecv_spec _ _ _ _ hw0 h1).eff.lateMono, fun h => by cases h⟩
    · rw [hc]; exact ⟨id, fun h => by cases h⟩
  | startReading =>
    rcases step_start_ok h with ⟨_, h1⟩ | ⟨_, hc, _, _⟩
    · have hw0 : WFs { c with recvPaused := .no } := ⟨hw.s.chanOpen, hw.s.drained⟩
      exact ⟨(flushRecv_spec _ _ _ _ hw0 h1).eff.lateMono, fun h => by cases h⟩
    · rw [hc]; exact ⟨id, fun h => by cases h⟩
  | recv m =>
    refine ⟨?_, fun h => by cases h⟩
    cases m with
    | data dt bs =>
      obtain ⟨_, _, _, ha⟩ := step_recv_data_ok h
      rcases acceptData_cases c bs dt with ⟨_, h1⟩ | ⟨_, _, h1⟩ | ⟨_, _, _, h1⟩ | ⟨_, _, _, h1⟩
      · rw [h1] at ha; cases ha; exact id
      · rw [h1] at ha; cases ha; exact id
      · rw [h1] at ha; cases ha; exact id
      · rw [h1] at ha
        obtain ⟨sp, _⟩ := deliverData_spec c bs dt
        rw [ha] at sp
        intro hl; unfold SendLate at *; rw [sp.same.sendState]; exact hl
    | adjust n =>
      obtain ⟨_, h1, _⟩ := step_recv_adjust_ok h
      have hw0 : WFs { c with sendWindow := c.sendWindow + n } := ⟨hw.s.chanOpen, hw.s.drained⟩
      exact (flushSend_spec _ _ _ hw0 h1).lateMono
    | eof =>
      obtain ⟨_, h1⟩ := step_recv_eof_ok h
      have hw0 : WFs { c with recvState := .eofPending } := ⟨hw.s.chanOpen, hw.s.drained⟩
      exact (flushRecv_spec _ _ _ _ hw0 h1).eff.lateMono
    | close =>
      obtain ⟨_, ms1, h1, _⟩ := step_recv_close_ok h
      obtain ⟨_, _, _, hst, _, _, _, _, hwf⟩ := closeSend_spec c hw.s
      have hw0 : WFs { (closeSend c).1 with recvEofPending := decide (c.recvState = .eofPending), recvState := .closePending } := ⟨hwf.chanOpen, hwf.drained⟩
      intro _
      exact (flushRecv_spec _ _ _ _ hw0 h1).eff.lateMono (Or.inr hst)

theorem rStage_le_two (c : Chan) : rStage c ≤ 2 := by
  unfold rStage; cases c.recvState <;> simp

theorem step_rstage_mono (c c' : Chan) (ev : Ev) (ms : List Msg) (os : List Out) (hw : WF c)
    (h : step c ev = .ok (c', ms, os)) : rStage c ≤ rStage c' := by
  have hr := (step_sum c c' ev ms os hw h).rstage
  rw [hr]
  unfold evStage
  split
  · obtain ⟨hs, _⟩ := step_recv_eof_ok h
    simp [rStage, hs]
  · exact rStage_le_two c
  · exact Nat.le_refl _

/-! ### the history invariant of one endpoint -/

/-- shape of the callback history: data callbacks, then at most one `eof_received`, then at most one
    `connection_lost` -/
def dlShape (dl : List Out) : Prop :=
  ∃ ds tl, dl = ds ++ tl ∧ allDataOuts ds ∧ (tl = [] ∨ tl = [.eof] ∨ tl = [.lost] ∨ tl = [.eof, .lost])

structure GInv (c : Chan) (h : Hist) : Prop where
  eofSeen : Out.eof ∈ h.dl → RecvLate c ∧ c.recvBuf = []
  eofDone : c.recvState = .eof → Out.eof ∈ h.dl
  closedBy : SendLate c → h.appClosed = true ∨ rStage c = 2
  lostSeen : Out.lost ∈ h.dl → c.recvState = .closed
  eofWait : c.recvState = .eofPending → c.recvPaused ≠ .no ∨ h.appClosed = true
  shape : dlShape h.dl
  closedApp : h.appClosed = true → SendLate c

theorem ginv_step (c c' : Chan) (ev : Ev) (ms : List Msg) (os : List Out) (h h' : Hist) (hw : WF c)
    (hg : GInv c h) (hstep : step c ev = .ok (c', ms, os)) (hdl : h'.dl = h.dl ++ os)
    (hac : h'.appClosed = (h.appClosed || decide (ev = .close))) : GInv c' h' := by
  have so := step_outs c c' ev ms os hw hstep
  have hmono := step_rstage_mono c c' ev ms os hw hstep
  have hrs := (step_sum c c' ev ms os hw hstep).rstage
  have hlate := step_late c c' ev ms os hw hstep
  refine ⟨?_, ?_, ?_, ?_, ?_, ?_, ?_⟩
  · intro hm
    rw [hdl] at hm
    rcases List.mem_append.mp hm with hm | hm
    · obtain ⟨hl, hb⟩ := hg.eofSeen hm
      obtain ⟨_, h2, h3⟩ := so.quiet hl hb
      exact ⟨h2, h3⟩
    · obtain ⟨h2, h1⟩ := so.eofOut hm
      refine ⟨?_, h2⟩
      rcases h1 with h1 | ⟨h1, _⟩
      · exact Or.inl h1
      · exact Or.inr (Or.inr h1)
  · intro hs
    rw [hdl]
    rcases so.eofState hs with h1 | h1
    · exact List.mem_append_left _ (hg.eofDone h1)
    · exact List.mem_append_right _ h1
  · intro hl
    rw [hac]
    rcases so.sendLate hl with h1 | h1 | h1
    · rcases hg.closedBy h1 with h2 | h2
      · left; simp [h2]
      · right; have := rStage_le_two c'; omega
    · left; simp [h1]
    · right; rw [hrs, h1]; rfl
  · intro hm
    rw [hdl] at hm
    rcases List.mem_append.mp hm with hm | hm
    · exact (so.closedAbsorb (hg.lostSeen hm)).1
    · exact so.lostOut hm
  · intro hs
    rw [hac]
    rcases so.eofWait hs with h1 | h1 | ⟨h1, h2⟩
    · exact Or.inl h1
    · right; simp [h1]
    · rcases hg.eofWait h1 with h3 | h3
      · left; rw [h2]; exact h3
      · right; simp [h3]
  · obtain ⟨ds, tl, hd, hds, htl⟩ := hg.shape
    obtain ⟨ds', tl', hd', hds', htl'⟩ := so.shape
    unfold dlShape
    rw [hdl]
    by_cases hlost : Out.lost ∈ h.dl
    · have := (so.closedAbsorb (hg.lostSeen hlost)).2
      rw [this, List.append_nil]
      exact ⟨ds, tl, hd, hds, htl⟩
    · by_cases heof : Out.eof ∈ h.dl
      · obtain ⟨hl, hb⟩ := hg.eofSeen heof
        have htl2 : tl = [.eof] := by
          have hn := allDataOuts_not_mem ds hds
          rcases htl with h1 | h1 | h1 | h1
          · rw [hd, h1] at heof; simp at heof; exact absurd heof hn.1
          · exact h1
          · rw [hd, h1] at hlost; simp at hlost
          · rw [hd, h1] at hlost; simp at hlost
        rcases (so.quiet hl hb).1 with h1 | h1
        · rw [h1, List.append_nil]; exact ⟨ds, tl, hd, hds, htl⟩
        · rw [h1, hd, htl2]
          exact ⟨ds, [.eof, .lost], by simp, hds, Or.inr (Or.inr (Or.inr rfl))⟩
      · have htl2 : tl = [] := by
          rcases htl with h1 | h1 | h1 | h1
          · exact h1
          · rw [hd, h1] at heof; simp at heof
          · rw [hd, h1] at hlost; simp at hlost
          · rw [hd, h1] at hlost; simp at hlost
        rw [hd, htl2, hd', List.append_nil]
        refine ⟨ds ++ ds', tl', by simp, allDataOuts_append _ _ hds hds', ?_⟩
        exact htl'
  · intro ha
    rw [hac] at ha
    simp only [Bool.or_eq_true, decide_eq_true_eq] at ha
    rcases ha with ha | ha
    · exact hlate.1 (hg.closedApp ha)
    · exact hlate.2 ha

end AsyncsshModel.Channel
