import AsyncsshModel.Model.KexHash
import AsyncsshModel.Lemmas.KexWire
import AsyncsshModel.Lemmas.KexInit
/-
  Framing lemmas for the exchange-hash input: a length-prefixed field followed by anything determines the
  field and the rest; hence the hash input determines every hashed value.
-/
namespace AsyncsshModel.Kex
open AsyncsshModel AsyncsshModel.KexWire

theorem encString_append_inj {a b x y r r' : Bytes} (ha : encString? a = some x) (hb : encString? b = some y)
    (h : x ++ r = y ++ r') : a = b ∧ r = r' := by
  have h1 := getString_enc ha r
  have h2 := getString_enc hb r'
  rw [h, h2] at h1
  simp at h1
  exact ⟨h1.1.symm, h1.2.symm⟩

theorem encMPInt_append_inj {a b : Int} {x y r r' : Bytes} (ha : encMPInt? a = some x) (hb : encMPInt? b = some y)
    (h : x ++ r = y ++ r') : a = b ∧ r = r' := by
  have h1 := getMPInt_enc ha r
  have h2 := getMPInt_enc hb r'
  rw [h, h2] at h1
  simp at h1
  exact ⟨h1.1.symm, h1.2.symm⟩

/-- **The hash prefix is injective, even when followed by arbitrary bytes.** -/
theorem hashPrefix_append_inj {p q : Prefix} {x y r r' : Bytes} (hp : hashPrefix? p = some x)
    (hq : hashPrefix? q = some y) (h : x ++ r = y ++ r') : p = q ∧ r = r' := by
  unfold hashPrefix? at hp hq
  simp only [Gen.C03.hashPrefixOrder, List.map] at hp hq
  obtain ⟨a1, w1, e1, hp1, rfl⟩ := concatPieces_cons hp
  obtain ⟨a2, w2, e2, hp2, rfl⟩ := concatPieces_cons hp1
  obtain ⟨a3, w3, e3, hp3, rfl⟩ := concatPieces_cons hp2
  obtain ⟨a4, w4, e4, hp4, rfl⟩ := concatPieces_cons hp3
  have := concatPieces_nil hp4; subst this
  obtain ⟨b1, v1, f1, hq1, rfl⟩ := concatPieces_cons hq
  obtain ⟨b2, v2, f2, hq2, rfl⟩ := concatPieces_cons hq1
  obtain ⟨b3, v3, f3, hq3, rfl⟩ := concatPieces_cons hq2
  obtain ⟨b4, v4, f4, hq4, rfl⟩ := concatPieces_cons hq3
  have := concatPieces_nil hq4; subst this
  simp only [prefixPiece] at e1 e2 e3 e4 f1 f2 f3 f4
  simp only [List.append_assoc, List.append_nil] at h
  obtain ⟨g1, h⟩ := encString_append_inj e1 f1 h
  obtain ⟨g2, h⟩ := encString_append_inj e2 f2 h
  obtain ⟨g3, h⟩ := encString_append_inj e3 f3 h
  obtain ⟨g4, h⟩ := encString_append_inj e4 f4 h
  refine ⟨?_, h⟩
  cases p; cases q; simp_all


/-- what follows the prefix and the host key in the hash input -/
def bodyTail? (h : HashFields) : Option Bytes :=
  match h.body with
  | .rsa t c => concatPieces [encString? t, encString? c, some h.k]
  | _ => concatPieces [gexData? h.body, clientKey? h.body, serverKey? h.body, some h.k]

/-- the hash input is `prefix ++ String(K_S) ++ tail` for every form -/
theorem hashInput_split {h : HashFields} {w : Bytes} (hw : hashInput? h = some w) :
    ∃ x y t, hashPrefix? h.pre = some x ∧ encString? h.hostKey = some y ∧ bodyTail? h = some t ∧
      w = x ++ (y ++ t) := by
  unfold hashInput? at hw
  unfold bodyTail?
  split at hw
  · simp only [Gen.C03.rsaHashOrder, List.map] at hw
    obtain ⟨x, w1, e1, h1, rfl⟩ := concatPieces_cons hw
    obtain ⟨y, w2, e2, h2, rfl⟩ := concatPieces_cons h1
    simp only [rsaPiece] at e1 e2 h2
    rename_i t c hb
    simp only [hb] at h2
    exact ⟨x, y, w2, e1, e2, by simp only [hb]; exact h2, rfl⟩
  · simp only [Gen.C03.dhHashOrder, List.map] at hw
    obtain ⟨x, w1, e1, h1, rfl⟩ := concatPieces_cons hw
    obtain ⟨y, w2, e2, h2, rfl⟩ := concatPieces_cons h1
    simp only [dhPiece] at e1 e2 h2
    refine ⟨x, y, w2, e1, e2, ?_, rfl⟩
    split
    · rename_i hne _ t c hb; exact (hne t c hb).elim
    · exact h2

/-- **Prefix and host key are determined by the hash input, whatever the message forms.** -/
theorem hashInput_common {a b : HashFields} {w : Bytes} (ha : hashInput? a = some w)
    (hb : hashInput? b = some w) :
    a.pre = b.pre ∧ a.hostKey = b.hostKey ∧ bodyTail? a = bodyTail? b := by
  obtain ⟨x, y, t, p1, k1, t1, rfl⟩ := hashInput_split ha
  obtain ⟨x', y', t', p2, k2, t2, e⟩ := hashInput_split hb
  obtain ⟨hp, e⟩ := hashPrefix_append_inj p1 p2 e
  obtain ⟨hk, e⟩ := encString_append_inj k1 k2 e
  exact ⟨hp, hk, by rw [t1, t2, e]⟩

theorem gexData_gex {req : Bytes} {p g e f : Int} {x : Bytes} (h : gexData? (.gex req p g e f) = some x) :
    ∃ a b, encMPInt? p = some a ∧ encMPInt? g = some b ∧ x = req ++ (a ++ b) := by
  simp only [gexData?, bind, Option.bind] at h
  cases hp : encMPInt? p with
  | none => simp [hp] at h
  | some a =>
    cases hg : encMPInt? g with
    | none => simp [hp, hg] at h
    | some b => simp [hp, hg, pure] at h; exact ⟨a, b, rfl, rfl, h.symm⟩

theorem append_inj_of_length {a b r r' : Bytes} (hl : a.length = b.length) (h : a ++ r = b ++ r') :
    a = b ∧ r = r' := List.append_inj h hl

/-- **Within one message form the tail determines the method-specific values and `K`.** -/
theorem bodyTail_inj {a b : HashFields} (hf : SameForm a.body b.body) (ht : bodyTail? a = bodyTail? b)
    (hs : (bodyTail? a).isSome) : a.body = b.body ∧ a.k = b.k := by
  cases ha : bodyTail? a with
  | none => simp [ha] at hs
  | some t =>
    have hb : bodyTail? b = some t := by rw [← ht, ha]
    unfold bodyTail? at ha hb
    cases hab : a.body with
    | dh e f =>
      cases hbb : b.body with
      | dh e' f' =>
        simp only [hab, hbb] at ha hb
        obtain ⟨x1, w1, e1, h1, rfl⟩ := concatPieces_cons ha
        obtain ⟨x2, w2, e2, h2, rfl⟩ := concatPieces_cons h1
        obtain ⟨x3, w3, e3, h3, rfl⟩ := concatPieces_cons h2
        obtain ⟨x4, w4, e4, h4, rfl⟩ := concatPieces_cons h3
        have := concatPieces_nil h4; subst this
        obtain ⟨y1, v1, f1, g1, e⟩ := concatPieces_cons hb
        obtain ⟨y2, v2, f2, g2, rfl⟩ := concatPieces_cons g1
        obtain ⟨y3, v3, f3, g3, rfl⟩ := concatPieces_cons g2
        obtain ⟨y4, v4, f4, g4, rfl⟩ := concatPieces_cons g3
        have := concatPieces_nil g4; subst this
        simp only [gexData?, clientKey?, serverKey?, Option.some.injEq] at e1 e2 e3 e4 f1 f2 f3 f4
        subst e1 f1 e4 f4
        simp only [List.nil_append, List.append_nil] at e
        obtain ⟨q1, e⟩ := encMPInt_append_inj e2 f2 e
        obtain ⟨q2, e⟩ := encMPInt_append_inj e3 f3 e
        subst q1 q2
        exact ⟨rfl, e⟩
      | gex _ _ _ _ _ => simp [SameForm, hab, hbb] at hf
      | ecdh _ _ => simp [SameForm, hab, hbb] at hf
      | rsa _ _ => simp [SameForm, hab, hbb] at hf
    | gex req p g ee ff =>
      cases hbb : b.body with
      | gex req' p' g' ee' ff' =>
        simp only [hab, hbb] at ha hb
        have hl : req.length = req'.length := by simpa [SameForm, hab, hbb] using hf
        obtain ⟨x1, w1, e1, h1, rfl⟩ := concatPieces_cons ha
        obtain ⟨x2, w2, e2, h2, rfl⟩ := concatPieces_cons h1
        obtain ⟨x3, w3, e3, h3, rfl⟩ := concatPieces_cons h2
        obtain ⟨x4, w4, e4, h4, rfl⟩ := concatPieces_cons h3
        have := concatPieces_nil h4; subst this
        obtain ⟨y1, v1, f1, g1, e⟩ := concatPieces_cons hb
        obtain ⟨y2, v2, f2, g2, rfl⟩ := concatPieces_cons g1
        obtain ⟨y3, v3, f3, g3, rfl⟩ := concatPieces_cons g2
        obtain ⟨y4, v4, f4, g4, rfl⟩ := concatPieces_cons g3
        have := concatPieces_nil g4; subst this
        obtain ⟨pa, ga, hpa, hga, rfl⟩ := gexData_gex e1
        obtain ⟨pb, gb, hpb, hgb, rfl⟩ := gexData_gex f1
        simp only [clientKey?, serverKey?, Option.some.injEq] at e2 e3 e4 f2 f3 f4
        subst e4 f4
        simp only [List.append_assoc, List.append_nil] at e
        obtain ⟨q0, z0⟩ := append_inj_of_length hl e
        obtain ⟨q1, z1⟩ := encMPInt_append_inj hpa hpb z0
        obtain ⟨q2, z2⟩ := encMPInt_append_inj hga hgb z1
        obtain ⟨q3, z3⟩ := encMPInt_append_inj e2 f2 z2
        obtain ⟨q4, z4⟩ := encMPInt_append_inj e3 f3 z3
        subst q0 q1 q2 q3 q4
        exact ⟨rfl, z4⟩
      | dh _ _ => simp [SameForm, hab, hbb] at hf
      | ecdh _ _ => simp [SameForm, hab, hbb] at hf
      | rsa _ _ => simp [SameForm, hab, hbb] at hf
    | ecdh qc qs =>
      cases hbb : b.body with
      | ecdh qc' qs' =>
        simp only [hab, hbb] at ha hb
        obtain ⟨x1, w1, e1, h1, rfl⟩ := concatPieces_cons ha
        obtain ⟨x2, w2, e2, h2, rfl⟩ := concatPieces_cons h1
        obtain ⟨x3, w3, e3, h3, rfl⟩ := concatPieces_cons h2
        obtain ⟨x4, w4, e4, h4, rfl⟩ := concatPieces_cons h3
        have := concatPieces_nil h4; subst this
        obtain ⟨y1, v1, f1, g1, e⟩ := concatPieces_cons hb
        obtain ⟨y2, v2, f2, g2, rfl⟩ := concatPieces_cons g1
        obtain ⟨y3, v3, f3, g3, rfl⟩ := concatPieces_cons g2
        obtain ⟨y4, v4, f4, g4, rfl⟩ := concatPieces_cons g3
        have := concatPieces_nil g4; subst this
        simp only [gexData?, clientKey?, serverKey?, Option.some.injEq] at e1 e2 e3 e4 f1 f2 f3 f4
        subst e1 f1 e4 f4
        simp only [List.nil_append, List.append_nil] at e
        obtain ⟨q1, e⟩ := encString_append_inj e2 f2 e
        obtain ⟨q2, e⟩ := encString_append_inj e3 f3 e
        subst q1 q2
        exact ⟨rfl, e⟩
      | dh _ _ => simp [SameForm, hab, hbb] at hf
      | gex _ _ _ _ _ => simp [SameForm, hab, hbb] at hf
      | rsa _ _ => simp [SameForm, hab, hbb] at hf
    | rsa tr ck =>
      cases hbb : b.body with
      | rsa tr' ck' =>
        simp only [hab, hbb] at ha hb
        obtain ⟨x1, w1, e1, h1, rfl⟩ := concatPieces_cons ha
        obtain ⟨x2, w2, e2, h2, rfl⟩ := concatPieces_cons h1
        obtain ⟨x3, w3, e3, h3, rfl⟩ := concatPieces_cons h2
        have := concatPieces_nil h3; subst this
        obtain ⟨y1, v1, f1, g1, e⟩ := concatPieces_cons hb
        obtain ⟨y2, v2, f2, g2, rfl⟩ := concatPieces_cons g1
        obtain ⟨y3, v3, f3, g3, rfl⟩ := concatPieces_cons g2
        have := concatPieces_nil g3; subst this
        simp only [Option.some.injEq] at e3 f3
        subst e3 f3
        simp only [List.append_nil] at e
        obtain ⟨q1, e⟩ := encString_append_inj e1 f1 e
        obtain ⟨q2, e⟩ := encString_append_inj e2 f2 e
        subst q1 q2
        exact ⟨rfl, e⟩
      | dh _ _ => simp [SameForm, hab, hbb] at hf
      | gex _ _ _ _ _ => simp [SameForm, hab, hbb] at hf
      | ecdh _ _ => simp [SameForm, hab, hbb] at hf

/-- **The hash input determines every hashed value** (per message form). -/
theorem hashInput_inj {a b : HashFields} {w : Bytes} (ha : hashInput? a = some w) (hb : hashInput? b = some w)
    (hf : SameForm a.body b.body) : a = b := by
  obtain ⟨hp, hk, ht⟩ := hashInput_common ha hb
  obtain ⟨_, _, t, _, _, t1, _⟩ := hashInput_split ha
  obtain ⟨hbody, hkk⟩ := bodyTail_inj hf ht (by simp [t1])
  cases a; cases b; simp_all

end AsyncsshModel.Kex
