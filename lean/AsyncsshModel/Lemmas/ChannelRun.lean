import AsyncsshModel.Lemmas.ChannelSys
/-
  Initial state of the composition, runs (`reachable_inv`), and the per-datatype reading of the tagged stream.
-/
namespace AsyncsshModel.Channel
open AsyncsshModel

/-! ### initial state and runs -/

theorem opened_wf (iw : Nat) (rt wt : List Nat) (k : Bool) (pw pp : Nat) (p : Paused) :
    WF (Chan.opened iw rt wt k pw pp p) := by
  refine ⟨⟨by simp [Chan.opened], by simp [Chan.opened]⟩, Or.inl rfl, by simp [PendOK, Chan.opened], fun _ => rfl,
    by simp [Chan.opened],
    by simp [Chan.opened], fun _ => rfl, ?_⟩
  simp only [Chan.opened]; omega

theorem opened_ginv (iw : Nat) (rt wt : List Nat) (k : Bool) (pw pp : Nat) (p : Paused) :
    GInv (Chan.opened iw rt wt k pw pp p) {} := by
  refine ⟨by simp, by simp [Chan.opened], ?_, by simp, by simp [Chan.opened], ⟨[], [], rfl, trivial, Or.inl rfl⟩,
    by simp⟩
  intro h; unfold SendLate at h; simp [Chan.opened] at h

theorem inv_init (ca cb : SideCfg) : Inv (Sys.init ca cb) := by
  refine ⟨?_, ?_, ?_⟩
  · intro x; cases x <;> exact opened_wf ..
  · intro x; cases x <;> exact opened_ginv ..
  · intro x
    cases x <;>
    · refine ⟨by simp [Sys.init, Side.other, Chan.opened, rStage, sStage, LinkOK], ?_, ⟨[], ?_⟩, ?_, ?_⟩
      · intro _; simp [Sys.init, Side.other, Chan.opened, dataOuts, dataOf]
      · simp [Sys.init, Side.other, Chan.opened, dataOuts]
      · simp [Sys.init, Side.other, Chan.opened, dataOf, bufBytes, adjustSum]
      · intro _; simp [Sys.init, Side.other, Chan.opened, dataOf, bufBytes, adjustSum]

theorem run_inv : ∀ (evs : List Event) (s s' : Sys), Inv s → s.run evs = .ok s' → Inv s'
  | [], s, s', hinv, h => by simp only [Sys.run, Except.ok.injEq] at h; subst h; exact hinv
  | e :: es, s, s', hinv, h => by
    simp only [Sys.run] at h
    split at h
    · simp at h
    · rename_i s1 hs1
      exact run_inv es s1 s' (inv_step s s1 e hinv hs1) h

/-- every state reachable from a freshly opened channel satisfies the invariant -/
theorem reachable_inv (ca cb : SideCfg) (evs : List Event) (s : Sys)
    (h : (Sys.init ca cb).run evs = .ok s) : Inv s :=
  run_inv evs _ s (inv_init ca cb) h

/-! ### per-datatype view -/

/-- the bytes of datatype `t` in a tagged stream -/
def ofType (t : DType) (l : List (UInt8 × DType)) : Bytes :=
  (l.filter (fun p => decide (p.2 = t))).map (fun p => p.1)

theorem ofType_append (t : DType) (a b : List (UInt8 × DType)) : ofType t (a ++ b) = ofType t a ++ ofType t b := by
  simp [ofType, List.filter_append]

/-- concatenation of the chunks of datatype `t` -/
def bytesOfType (t : DType) : Buf → Bytes
  | [] => []
  | (bs, dt) :: rest => if dt = t then bs ++ bytesOfType t rest else bytesOfType t rest

theorem ofType_tag (t : DType) : ∀ (b : Buf), ofType t (tag b) = bytesOfType t b
  | [] => rfl
  | (bs, dt) :: rest => by
    rw [tag_cons, ofType_append, ofType_tag t rest]
    simp only [bytesOfType]
    by_cases h : dt = t
    · simp only [h, if_true]
      congr 1
      simp [ofType, List.filter_map, Function.comp_def]
    · simp only [h, if_false]
      have : ofType t (List.map (fun b => (b, dt)) bs) = [] := by
        simp [ofType, List.filter_map, Function.comp_def, h]
      rw [this]; rfl

end AsyncsshModel.Channel
