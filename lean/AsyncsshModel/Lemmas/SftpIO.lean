import AsyncsshModel.Model.SftpIO
/-
  Helper lemmas for C12: `writeAt`/`pwrite` pointwise, the scheduler's invariants.
-/
namespace AsyncsshModel.SftpIO
open AsyncsshModel

theorem length_padded (buf : Bytes) (pos : Nat) :
    (buf ++ List.replicate (pos - buf.length) (0 : UInt8)).length = max buf.length pos := by
  simp only [List.length_append, List.length_replicate]; omega

theorem getElem?_padded (buf : Bytes) (pos q : Nat) :
    (buf ++ List.replicate (pos - buf.length) (0 : UInt8))[q]? =
      if q < buf.length then buf[q]? else if q < pos then some 0 else none := by
  by_cases h : q < buf.length
  · simp [h, List.getElem?_append_left]
  · simp only [h, if_false]
    rw [List.getElem?_append_right (by omega), List.getElem?_replicate]
    by_cases h2 : q < pos
    · have : q - buf.length < pos - buf.length := by omega
      simp [h2, this]
    · have : ¬ (q - buf.length < pos - buf.length) := by omega
      simp [h2, this]

theorem length_writeAt (buf : Bytes) (pos : Nat) (d : Bytes) :
    (writeAt buf pos d).length = max buf.length (pos + d.length) := by
  unfold writeAt
  simp only [List.length_append, List.length_take, List.length_drop, List.length_replicate]
  omega

theorem getElem?_writeAt (buf : Bytes) (pos : Nat) (d : Bytes) (q : Nat) :
    (writeAt buf pos d)[q]? =
      if q < pos then (if q < buf.length then buf[q]? else some 0)
      else if q < pos + d.length then d[q - pos]? else buf[q]? := by
  unfold writeAt
  have hl : (List.take pos (buf ++ List.replicate (pos - buf.length) (0 : UInt8))).length = pos := by
    rw [List.length_take, length_padded]; omega
  by_cases h1 : q < pos
  · simp only [h1, if_true]
    rw [List.append_assoc, List.getElem?_append_left (by omega), List.getElem?_take, getElem?_padded]
    simp [h1]
  · simp only [h1, if_false]
    by_cases h2 : q < pos + d.length
    · simp only [h2, if_true]
      rw [List.getElem?_append_left (by simp only [List.length_append, hl]; omega),
          List.getElem?_append_right (by omega), hl]
    · simp only [h2, if_false]
      rw [List.getElem?_append_right (by simp only [List.length_append, hl]; omega)]
      simp only [List.length_append, hl, List.getElem?_drop, getElem?_padded]
      have e : pos + d.length + (q - (pos + d.length)) = q := by omega
      rw [e]
      by_cases h3 : q < buf.length
      · simp [h3]
      · have : ¬ q < pos := h1
        simp [h3, this]


/-! ### `store` (either flavour), pointwise -/

theorem getElem?_store_in (pad : Bool) (buf : Bytes) (pos : Nat) (d : Bytes) (q : Nat)
    (h1 : pos ≤ q) (h2 : q < pos + d.length) : (store pad buf pos d)[q]? = d[q - pos]? := by
  have hd : d ≠ [] := by intro h; subst h; simp at h2; omega
  have hne : d.isEmpty = false := by cases d <;> simp_all
  unfold store pwrite
  have : (writeAt buf pos d)[q]? = d[q - pos]? := by
    rw [getElem?_writeAt]; simp [Nat.not_lt.mpr h1, h2]
  cases pad <;> simp [hne, this]

theorem getElem?_store_out (pad : Bool) (buf : Bytes) (pos : Nat) (d : Bytes) (q : Nat)
    (h : ¬ (pos ≤ q ∧ q < pos + d.length)) :
    (store pad buf pos d)[q]? = buf[q]? ∨
      (buf.length ≤ q ∧ q < pos ∧ (store pad buf pos d)[q]? = some 0) := by
  have hw : (writeAt buf pos d)[q]? = buf[q]? ∨
      (buf.length ≤ q ∧ q < pos ∧ (writeAt buf pos d)[q]? = some 0) := by
    rw [getElem?_writeAt]
    by_cases h1 : q < pos
    · by_cases h2 : q < buf.length
      · left; simp [h1, h2]
      · right; simp [h1, h2]; omega
    · have h3 : ¬ q < pos + d.length := by omega
      left; simp [h1, h3]
  unfold store pwrite
  cases pad
  · by_cases hd : d.isEmpty = true
    · simp [hd]
    · simpa [hd] using hw
  · simpa using hw

theorem store_eq_writeAt (pad : Bool) (buf : Bytes) (pos : Nat) (d : Bytes) (h : d ≠ [] ∨ pad = true) :
    store pad buf pos d = writeAt buf pos d := by
  unfold store pwrite
  cases pad
  · have hne : d.isEmpty = false := by
      rcases h with h | h
      · cases d <;> simp_all
      · cases h
    simp [hne]
  · simp

theorem store_false_nil (buf : Bytes) (pos : Nat) : store false buf pos [] = buf := by
  simp [store, pwrite]

theorem length_store_ge (pad : Bool) (buf : Bytes) (pos : Nat) (d : Bytes) :
    buf.length ≤ (store pad buf pos d).length := by
  by_cases h : d ≠ [] ∨ pad = true
  · rw [store_eq_writeAt _ _ _ _ h, length_writeAt]; omega
  · have hd : d = [] := by
      by_cases hd : d = []
      · exact hd
      · exact absurd (Or.inl hd) h
    have hp : pad = false := by cases pad <;> simp_all
    subst hd; subst hp; rw [store_false_nil]; exact Nat.le_refl _

theorem length_store_le (pad : Bool) (buf : Bytes) (pos : Nat) (d : Bytes)
    (h : d ≠ [] ∨ pad = false) :
    (store pad buf pos d).length ≤ max buf.length (pos + d.length) := by
  by_cases h' : d ≠ [] ∨ pad = true
  · rw [store_eq_writeAt _ _ _ _ h', length_writeAt]; omega
  · have hd : d = [] := by
      by_cases hd : d = []
      · exact hd
      · exact absurd (Or.inl hd) h'
    have hp : pad = false := by cases pad <;> simp_all
    subst hd; subst hp; rw [store_false_nil]; omega

/-- when non-empty data is stored the buffer reaches at least its last byte -/
theorem length_store_data (pad : Bool) (buf : Bytes) (pos : Nat) (d : Bytes) (h : d ≠ []) :
    pos + d.length ≤ (store pad buf pos d).length := by
  rw [store_eq_writeAt _ _ _ _ (Or.inl h), length_writeAt]; omega


/-! ### scheduler invariants -/

/-- every needed position is already good, or inside an outstanding request, or not yet requested -/
def Cov (need good : Nat → Prop) (io : IO) : Prop :=
  ∀ p, need p → good p ∨ (∃ r ∈ io.pending, r.covers p) ∨ (io.off ≤ p ∧ p < io.off + io.left)

/-- outstanding requests are non-empty, lie in `[lo, io.off)`, and the unrequested rest ends by `hi` -/
def RangeInv (lo hi : Nat) (io : IO) : Prop :=
  (∀ r ∈ io.pending, lo ≤ r.off ∧ r.off + r.size ≤ io.off ∧ 1 ≤ r.size) ∧
    lo ≤ io.off ∧ io.off + io.left ≤ hi

def pendSum (l : List Req) : Nat := (l.map (·.size)).sum

/-- bytes still to be accounted for: outstanding + unrequested -/
def IO.todo (io : IO) : Nat := pendSum io.pending + io.left

@[simp] theorem pendSum_nil : pendSum [] = 0 := rfl
@[simp] theorem pendSum_cons (a : Req) (t : List Req) : pendSum (a :: t) = a.size + pendSum t := by
  simp [pendSum]
theorem pendSum_append (a b : List Req) : pendSum (a ++ b) = pendSum a + pendSum b := by
  induction a with
  | nil => simp
  | cons x t ih => simp [ih]; omega

theorem pendSum_erase (l : List Req) (r : Req) (h : r ∈ l) :
    pendSum (l.erase r) + r.size = pendSum l := by
  induction l with
  | nil => cases h
  | cons a t ih =>
    by_cases ha : a = r
    · subst ha; rw [List.erase_cons_head, pendSum_cons]; omega
    · have ht : r ∈ t := by
        rcases List.mem_cons.mp h with h | h
        · exact absurd h.symm ha
        · exact h
      have := ih ht
      have hbeq : (a == r) = false := by simp [ha]
      rw [List.erase_cons, hbeq]
      simp only [Bool.false_eq_true, if_false, pendSum_cons]
      omega

theorem startTasks_excs (bs mr : Nat) (s : IO) :
    (startTasks bs mr s).excs = s.excs ∧ (startTasks bs mr s).raised = s.raised := by
  induction s using startTasks.induct bs mr with
  | case1 s h ih => rw [startTasks, if_pos h]; exact ih
  | case2 s h => rw [startTasks, if_neg h]; exact ⟨rfl, rfl⟩

theorem cov_startTasks (need good : Nat → Prop) (bs mr : Nat) (s : IO) (h : Cov need good s) :
    Cov need good (startTasks bs mr s) := by
  induction s using startTasks.induct bs mr with
  | case1 s hc ih =>
    rw [startTasks, if_pos hc]
    apply ih
    intro p hp
    rcases h p hp with hg | ⟨r, hr, hcv⟩ | ⟨h1, h2⟩
    · exact Or.inl hg
    · exact Or.inr (Or.inl ⟨r, List.mem_append_left _ hr, hcv⟩)
    · by_cases hlt : p < s.off + blockSize s.left bs
      · exact Or.inr (Or.inl ⟨⟨s.off, blockSize s.left bs⟩, by simp, ⟨h1, hlt⟩⟩)
      · refine Or.inr (Or.inr ⟨by simp only; omega, ?_⟩)
        simp only [blockSize] at *; omega
  | case2 s hc => rw [startTasks, if_neg hc]; exact h

theorem range_startTasks (lo hi bs mr : Nat) (hbs : 1 ≤ bs) (s : IO) (h : RangeInv lo hi s) :
    RangeInv lo hi (startTasks bs mr s) := by
  induction s using startTasks.induct bs mr with
  | case1 s hc ih =>
    rw [startTasks, if_pos hc]
    apply ih
    obtain ⟨h1, h2, h3⟩ := h
    have hsz : blockSize s.left bs ≤ s.left := by simp only [blockSize]; omega
    have hsz1 : 1 ≤ blockSize s.left bs := by simp only [blockSize]; omega
    refine ⟨?_, by simp only; omega, by simp only; omega⟩
    intro r hr
    rcases List.mem_append.mp hr with hr | hr
    · obtain ⟨a, b, c⟩ := h1 r hr
      exact ⟨a, by simp only; omega, c⟩
    · simp only [List.mem_singleton] at hr; subst hr
      exact ⟨h2, by simp only; omega, hsz1⟩
  | case2 s hc => rw [startTasks, if_neg hc]; exact h

theorem todo_startTasks (bs mr : Nat) (s : IO) : (startTasks bs mr s).todo = s.todo := by
  induction s using startTasks.induct bs mr with
  | case1 s hc ih =>
    rw [startTasks, if_pos hc, ih]
    have hsz : blockSize s.left bs ≤ s.left := by simp only [blockSize]; omega
    simp only [IO.todo, pendSum_append, pendSum_cons, pendSum_nil]
    omega
  | case2 s hc => rw [startTasks, if_neg hc]

/-- with `max_requests ≥ 1`, `_start_tasks` leaves nothing unrequested unless something is outstanding -/
theorem startTasks_post (bs mr : Nat) (hmr : 1 ≤ mr) (s : IO) :
    (startTasks bs mr s).pending = [] → (startTasks bs mr s).left = 0 := by
  induction s using startTasks.induct bs mr with
  | case1 s hc ih => rw [startTasks, if_pos hc]; exact ih
  | case2 s hc =>
    rw [startTasks, if_neg hc]
    intro hp
    rw [hp] at hc
    simp only [List.length_nil] at hc
    by_cases hl : s.left = 0
    · exact hl
    · exact absurd ⟨hl, by omega⟩ hc

theorem cov_finish (need good good' : Nat → Prop) (io : IO) (r : Req) (count : Nat)
    (h : Cov need good io)
    (hgood : ∀ p, good p → good' p)
    (hnew : ∀ p, need p → r.off ≤ p → p < r.off + count → good' p)
    (hzero : count = 0 → ∀ p, r.covers p → ¬ need p) :
    Cov need good' (finish io r count) := by
  intro p hp
  rcases h p hp with hg | ⟨r', hr', hcv⟩ | hu
  · exact Or.inl (hgood p hg)
  · by_cases hrr : r' = r
    · subst hrr
      by_cases hlt : p < r'.off + count
      · exact Or.inl (hnew p hp hcv.1 hlt)
      · have hc0 : count ≠ 0 := fun h0 => hzero h0 p hcv hp
        have hcs : count < r'.size := by have := hcv.2; omega
        refine Or.inr (Or.inl ⟨⟨r'.off + count, r'.size - count⟩, ?_, ?_⟩)
        · simp [finish, continuation, hc0, hcs]
        · constructor
          · simp only; omega
          · have := hcv.2; simp only; omega
    · refine Or.inr (Or.inl ⟨r', ?_, hcv⟩)
      simp only [finish]
      exact List.mem_append_left _ ((List.mem_erase_of_ne hrr).mpr hr')
  · exact Or.inr (Or.inr hu)

theorem range_finish (lo hi : Nat) (io : IO) (r : Req) (count : Nat)
    (h : RangeInv lo hi io) (hr : r ∈ io.pending) : RangeInv lo hi (finish io r count) := by
  obtain ⟨h1, h2, h3⟩ := h
  refine ⟨?_, h2, h3⟩
  intro r' hr'
  simp only [finish] at hr'
  rcases List.mem_append.mp hr' with hr' | hr'
  · exact h1 r' (List.mem_of_mem_erase hr')
  · simp only [continuation] at hr'
    split at hr'
    · rename_i hc
      simp only [List.mem_singleton] at hr'; subst hr'
      obtain ⟨a, b, c⟩ := h1 r hr
      exact ⟨by simp only; omega, by simp only [finish]; omega, by simp only; omega⟩
    · cases hr'

theorem todo_finish (io : IO) (r : Req) (count : Nat) (hr : r ∈ io.pending) (hc : count ≤ r.size) :
    (count ≠ 0 ∧ (finish io r count).todo + count = io.todo) ∨
      (count = 0 ∧ (finish io r count).todo + r.size = io.todo) := by
  have he := pendSum_erase io.pending r hr
  by_cases h0 : count = 0
  · right
    refine ⟨h0, ?_⟩
    have hcont : continuation r count = [] := by simp [continuation, h0]
    simp only [IO.todo, finish, hcont, pendSum_append, pendSum_nil]
    omega
  · left
    refine ⟨h0, ?_⟩
    by_cases hlt : count < r.size
    · have hcont : continuation r count = [⟨r.off + count, r.size - count⟩] := by
        simp [continuation, h0, hlt]
      simp only [IO.todo, finish, hcont, pendSum_append, pendSum_cons, pendSum_nil]
      omega
    · have hcont : continuation r count = [] := by simp [continuation, hlt]
      simp only [IO.todo, finish, hcont, pendSum_append, pendSum_nil]
      omega

theorem cov_eof (need good : Nat → Prop) (lo hi : Nat) (io : IO) (r : Req)
    (h : Cov need good io) (hri : RangeInv lo hi io) (hr : r ∈ io.pending)
    (hno : ∀ p, r.off ≤ p → ¬ need p) :
    Cov need good { io with pending := io.pending.erase r, left := 0 } := by
  intro p hp
  rcases h p hp with hg | ⟨r', hr', hcv⟩ | hu
  · exact Or.inl hg
  · by_cases hrr : r' = r
    · subst hrr; exact absurd hp (hno p hcv.1)
    · exact Or.inr (Or.inl ⟨r', (List.mem_erase_of_ne hrr).mpr hr', hcv⟩)
  · obtain ⟨a, b, c⟩ := hri.1 r hr
    exact absurd hp (hno p (by omega))

theorem range_eof (lo hi : Nat) (io : IO) (r : Req) (hri : RangeInv lo hi io) :
    RangeInv lo hi { io with pending := io.pending.erase r, left := 0 } := by
  obtain ⟨h1, h2, h3⟩ := hri
  exact ⟨fun r' hr' => h1 r' (List.mem_of_mem_erase hr'), h2, by simp only; omega⟩


theorem range_erase (lo hi : Nat) (io : IO) (r : Req) (n : Nat) (hri : RangeInv lo hi io) :
    RangeInv lo hi { io with pending := io.pending.erase r, excs := n } := by
  obtain ⟨h1, h2, h3⟩ := hri
  exact ⟨fun r' hr' => h1 r' (List.mem_of_mem_erase hr'), h2, h3⟩

/-! ### buffer invariants of the generic machine -/

/-- the buffer holds the target byte of absolute position `p` -/
def Good (tgt : Nat → Option UInt8) (base : Nat) (buf : Bytes) (p : Nat) : Prop :=
  base ≤ p ∧ ∃ b, tgt p = some b ∧ buf[p - base]? = some b

/-- replies carry bytes of the target at the requested offset, never more than asked; EOF only where the
    target has nothing any more -/
def TruthfulT (tgt : Nat → Option UInt8) : Ev → Prop
  | .complete r (.data d) => d.length ≤ r.size ∧ ∀ i, i < d.length → tgt (r.off + i) = d[i]?
  | .complete r .eof => ∀ p, r.off ≤ p → tgt p = none
  | _ => True

/-- no needed position is given up: an empty DATA reply / an EOF only where nothing is needed -/
def Lossless (need : Nat → Prop) : Ev → Prop
  | .complete r (.data d) => d = [] → ∀ p, r.covers p → ¬ need p
  | .complete r .eof => ∀ p, r.off ≤ p → ¬ need p
  | _ => True

/-- an error was collected in the batch being processed, or `iter()` has already raised -/
def Errored (io : IO) : Prop := (io.excs ≠ 0 ∧ io.mid = true) ∨ io.raised = true

/-- `reg` is the region blocks may be stored into (it contains the current range `[lo,hi)`): every byte of
    the buffer is a target byte inside the region or still the initial byte (zero beyond the initial
    length), and the buffer never extends past the last storable position. -/
structure GFrame (tgt : Nat → Option UInt8) (lim base lo hi : Nat) (reg : Nat → Prop) (init : Bytes)
    (s : GState) : Prop where
  range : RangeInv lo hi s.io
  frame : ∀ q b, s.buf[q]? = some b → (tgt (q + base) = some b ∧ reg (q + base)) ∨ b = init.getD q 0
  len1 : init.length ≤ s.buf.length
  len2 : ∀ q, q < s.buf.length → q < init.length ∨ ∃ p, q + base ≤ p ∧ reg p ∧ p < lim

theorem good_store_old (tgt : Nat → Option UInt8) (base : Nat) (buf : Bytes) (r : Req) (d : Bytes)
    (pad : Bool) (hb : base ≤ r.off) (htr : ∀ i, i < d.length → tgt (r.off + i) = d[i]?)
    (p : Nat) (hg : Good tgt base buf p) : Good tgt base (store pad buf (r.off - base) d) p := by
  obtain ⟨hbp, b, ht, hbuf⟩ := hg
  refine ⟨hbp, b, ht, ?_⟩
  by_cases hin : r.off - base ≤ p - base ∧ p - base < r.off - base + d.length
  · rw [getElem?_store_in _ _ _ _ _ hin.1 hin.2]
    have hi : p - base - (r.off - base) < d.length := by omega
    have := htr _ hi
    have e : r.off + (p - base - (r.off - base)) = p := by omega
    rw [e, ht] at this
    exact this.symm
  · rcases getElem?_store_out pad buf (r.off - base) d (p - base) hin with h | ⟨h1, _, _⟩
    · rw [h]; exact hbuf
    · have := (List.getElem?_eq_some_iff.mp hbuf).1
      omega

theorem good_store_new (tgt : Nat → Option UInt8) (base : Nat) (buf : Bytes) (r : Req) (d : Bytes)
    (pad : Bool) (hb : base ≤ r.off) (htr : ∀ i, i < d.length → tgt (r.off + i) = d[i]?)
    (p : Nat) (hp1 : r.off ≤ p) (hp2 : p < r.off + d.length) :
    Good tgt base (store pad buf (r.off - base) d) p := by
  have hi : p - r.off < d.length := by omega
  refine ⟨by omega, d[p - r.off], ?_, ?_⟩
  · have := htr _ hi
    have e : r.off + (p - r.off) = p := by omega
    rw [e] at this
    rw [this, List.getElem?_eq_getElem hi]
  · rw [getElem?_store_in _ _ _ _ _ (by omega) (by omega)]
    have e : p - base - (r.off - base) = p - r.off := by omega
    rw [e, List.getElem?_eq_getElem hi]

theorem errored_gstep (pad : Bool) (bs mr base : Nat) (s : GState) (e : Ev) (h : Errored s.io) :
    Errored (gstep pad bs mr base s e).io := by
  cases e with
  | complete r rep =>
    simp only [gstep]
    split
    · exact h
    · rename_i hc
      have hnr : ¬ s.io.raised = true := fun hr => hc (Or.inl hr)
      rcases h with h | h
      · left
        cases rep with
        | data d => exact ⟨h.1, rfl⟩
        | eof => exact ⟨h.1, rfl⟩
        | err => exact ⟨by simp only [gcomplete]; omega, rfl⟩
      · exact absurd h hnr
  | endBatch =>
    simp only [gstep]
    split
    · exact h
    · rename_i hr
      rcases h with h | h
      · right; simp [endBatchIO, h.1]
      · exact absurd h hr

theorem gframe_gstep (tgt : Nat → Option UInt8) (lim base lo hi : Nat) (reg : Nat → Prop) (init : Bytes)
    (pad : Bool) (bs mr : Nat) (hbs : 1 ≤ bs) (hbase : base ≤ lo)
    (hlim : ∀ p b, tgt p = some b → p < lim) (hreg : ∀ p, lo ≤ p → p < hi → reg p)
    (s : GState) (e : Ev) (h : GFrame tgt lim base lo hi reg init s)
    (htr : TruthfulT tgt e) (hne : NonEmpty e ∨ pad = false) :
    GFrame tgt lim base lo hi reg init (gstep pad bs mr base s e) := by
  cases e with
  | complete r rep =>
    simp only [gstep]
    split
    · exact h
    · rename_i hcond
      have hr : r ∈ s.io.pending := by
        by_cases hr : r ∈ s.io.pending
        · exact hr
        · exact absurd (Or.inr hr) hcond
      obtain ⟨hlo, hoff, hsz⟩ := h.range.1 r hr
      have hb : base ≤ r.off := by omega
      cases rep with
      | data d =>
        obtain ⟨hdl, hdt⟩ := htr
        refine ⟨range_finish lo hi s.io r d.length h.range hr, ?_, ?_, ?_⟩
        · intro q b hq
          simp only [gcomplete] at hq
          by_cases hin : r.off - base ≤ q ∧ q < r.off - base + d.length
          · rw [getElem?_store_in _ _ _ _ _ hin.1 hin.2] at hq
            left
            have hi : q - (r.off - base) < d.length := by omega
            have := hdt _ hi
            have e : r.off + (q - (r.off - base)) = q + base := by omega
            rw [e, hq] at this
            have := h.range.2.2
            exact ⟨by assumption, hreg _ (by omega) (by omega)⟩
          · rcases getElem?_store_out pad s.buf (r.off - base) d q hin with h' | ⟨h1, _, h3⟩
            · rw [h'] at hq; exact h.frame q b hq
            · right
              rw [h3] at hq
              have : init.length ≤ q := Nat.le_trans h.len1 h1
              rw [List.getD_eq_getElem?_getD, List.getElem?_eq_none this]
              simp only [Option.some.injEq] at hq
              simp [← hq]
        · simp only [gcomplete]
          exact Nat.le_trans h.len1 (length_store_ge _ _ _ _)
        · intro q hq
          simp only [gcomplete] at hq
          by_cases hq' : q < s.buf.length
          · exact h.len2 q hq'
          · right
            by_cases hd : d = []
            · subst hd
              have hp : pad = false := by
                rcases hne with hne | hne
                · rcases hne with hne | hne
                  · exact absurd rfl hne
                  · omega
                · exact hne
              subst hp
              rw [store_false_nil] at hq
              exact absurd hq hq'
            · have hle := length_store_le pad s.buf (r.off - base) d (Or.inl hd)
              have hdpos : 0 < d.length := List.length_pos_iff.mpr hd
              have hlast := hdt (d.length - 1) (by omega)
              rw [List.getElem?_eq_getElem (by omega)] at hlast
              have := hlim _ _ hlast
              have := h.range.2.2
              exact ⟨r.off + (d.length - 1), by omega, hreg _ (by omega) (by omega), by assumption⟩
      | eof =>
        exact ⟨range_eof lo hi s.io r h.range, h.frame, h.len1, h.len2⟩
      | err =>
        exact ⟨range_erase lo hi s.io r (s.io.excs + 1) h.range, h.frame, h.len1, h.len2⟩
  | endBatch =>
    simp only [gstep]
    split
    · exact h
    · refine ⟨?_, h.frame, h.len1, h.len2⟩
      simp only [endBatchIO]
      split
      · obtain ⟨_, h2, h3⟩ := h.range
        exact ⟨(fun r hr => nomatch hr), h2, h3⟩
      · exact range_startTasks lo hi bs mr hbs s.io h.range

theorem cov_gstep (tgt : Nat → Option UInt8) (lim base lo hi : Nat) (reg : Nat → Prop) (init : Bytes)
    (pad : Bool) (bs mr : Nat) (hbase : base ≤ lo) (need : Nat → Prop)
    (s : GState) (e : Ev) (h : GFrame tgt lim base lo hi reg init s)
    (hcov : Cov need (Good tgt base s.buf) s.io)
    (htr : TruthfulT tgt e) (hll : Lossless need e) :
    Errored (gstep pad bs mr base s e).io ∨
      Cov need (Good tgt base (gstep pad bs mr base s e).buf) (gstep pad bs mr base s e).io := by
  cases e with
  | complete r rep =>
    simp only [gstep]
    split
    · exact Or.inr hcov
    · rename_i hcond
      have hr : r ∈ s.io.pending := by
        by_cases hr : r ∈ s.io.pending
        · exact hr
        · exact absurd (Or.inr hr) hcond
      obtain ⟨hlo, hoff, hsz⟩ := h.range.1 r hr
      have hb : base ≤ r.off := by omega
      cases rep with
      | data d =>
        right
        obtain ⟨hdl, hdt⟩ := htr
        simp only [gcomplete]
        apply cov_finish need (Good tgt base s.buf) _ s.io r d.length hcov
        · exact fun p hg => good_store_old tgt base s.buf r d pad hb hdt p hg
        · exact fun p _ h1 h2 => good_store_new tgt base s.buf r d pad hb hdt p h1 h2
        · intro h0
          exact hll (List.length_eq_zero_iff.mp h0)
      | eof =>
        right
        exact cov_eof need _ lo hi s.io r hcov h.range hr hll
      | err =>
        left; left; exact ⟨by simp only [gcomplete]; omega, rfl⟩
  | endBatch =>
    simp only [gstep]
    split
    · exact Or.inr hcov
    · simp only [endBatchIO]
      split
      · left; right; rfl
      · right; exact cov_startTasks need _ bs mr s.io hcov


/-- between batches (`max_requests ≥ 1`): nothing outstanding means nothing left to request -/
def Bnd (io : IO) : Prop := io.mid = false → io.pending = [] → io.left = 0

theorem bnd_gstep (pad : Bool) (bs mr base : Nat) (hmr : 1 ≤ mr) (s : GState) (e : Ev) (h : Bnd s.io) :
    Errored (gstep pad bs mr base s e).io ∨ Bnd (gstep pad bs mr base s e).io := by
  cases e with
  | complete r rep =>
    simp only [gstep]
    split
    · exact Or.inr h
    · right
      cases rep <;> (intro hm; simp [gcomplete] at hm)
  | endBatch =>
    simp only [gstep]
    split
    · exact Or.inr h
    · simp only [endBatchIO]
      split
      · left; right; rfl
      · right
        intro _ hp
        exact startTasks_post bs mr hmr s.io hp

/-! ### reader -/

def srcT (src : Bytes) : Nat → Option UInt8 := fun p => src[p]?

def RNeed (src : Bytes) (st n : Nat) : Nat → Prop := fun p => st ≤ p ∧ p < st + n ∧ p < src.length

def RInv (src : Bytes) (st n : Nat) (s : GState) : Prop :=
  Errored s.io ∨
    (GFrame (srcT src) src.length st st (st + n) (fun p => st ≤ p ∧ p < st + n) [] s ∧
      Cov (RNeed src st n) (Good (srcT src) st s.buf) s.io ∧ Bnd s.io)

theorem srcT_lim (src : Bytes) : ∀ p b, srcT src p = some b → p < src.length := by
  intro p b h
  exact (List.getElem?_eq_some_iff.mp h).1

theorem truthfulT_of_truthful (src : Bytes) (e : Ev) (h : Truthful src e) : TruthfulT (srcT src) e := by
  cases e with
  | complete r rep =>
    cases rep with
    | data d => exact h
    | eof => intro p hp; exact List.getElem?_eq_none (Nat.le_trans h hp)
    | err => trivial
  | endBatch => trivial

theorem rinv_init (src : Bytes) (st n bs mr : Nat) (hbs : 1 ≤ bs) (hmr : 1 ≤ mr) :
    RInv src st n (rinit bs mr st n) := by
  right
  refine ⟨⟨?_, ?_, ?_, ?_⟩, ?_, ?_⟩
  · apply range_startTasks st (st + n) bs mr hbs
    exact ⟨(fun r hr => nomatch hr), Nat.le_refl _, Nat.le_refl _⟩
  · intro q b hq; simp [rinit] at hq
  · simp [rinit]
  · intro q hq; simp [rinit] at hq
  · apply cov_startTasks
    intro p hp
    exact Or.inr (Or.inr ⟨hp.1, hp.2.1⟩)
  · intro _ hp
    exact startTasks_post bs mr hmr _ hp

theorem rinv_step (src : Bytes) (st n bs mr : Nat) (hbs : 1 ≤ bs) (hmr : 1 ≤ mr) (s : GState) (e : Ev)
    (h : RInv src st n s) (htr : Truthful src e) (hne : NonEmpty e) :
    RInv src st n (gstep true bs mr st s e) := by
  rcases h with h | ⟨hf, hc, hb⟩
  · exact Or.inl (errored_gstep _ _ _ _ _ _ h)
  · have htr' := truthfulT_of_truthful src e htr
    have hll : Lossless (RNeed src st n) e := by
      cases e with
      | complete r rep =>
        cases rep with
        | data d =>
          intro hd p hp
          rcases hne with hne | hne
          · exact absurd hd hne
          · have := hp.1; have := hp.2; omega
        | eof =>
          intro p hp hn
          have : src.length ≤ r.off := htr
          have := hn.2.2
          omega
        | err => trivial
      | endBatch => trivial
    have hf' := gframe_gstep (srcT src) src.length st st (st + n) _ [] true bs mr hbs (Nat.le_refl _)
      (srcT_lim src) (fun p h1 h2 => ⟨h1, h2⟩) s e hf htr' (Or.inl hne)
    rcases cov_gstep (srcT src) src.length st st (st + n) _ [] true bs mr (Nat.le_refl _) (RNeed src st n)
      s e hf hc htr' hll with h1 | h1
    · exact Or.inl h1
    · rcases bnd_gstep true bs mr st hmr s e hb with h2 | h2
      · exact Or.inl h2
      · exact Or.inr ⟨hf', h1, h2⟩

theorem rinv_run (src : Bytes) (st n bs mr : Nat) (hbs : 1 ≤ bs) (hmr : 1 ≤ mr) (evs : List Ev)
    (s : GState) (h : RInv src st n s)
    (htr : ∀ e ∈ evs, Truthful src e) (hne : ∀ e ∈ evs, NonEmpty e) :
    RInv src st n (grun true bs mr st s evs) := by
  induction evs generalizing s with
  | nil => exact h
  | cons e t ih =>
    simp only [grun, List.foldl_cons]
    apply ih
    · exact rinv_step src st n bs mr hbs hmr s e h (htr e (by simp)) (hne e (by simp))
    · exact fun e' he' => htr e' (by simp [he'])
    · exact fun e' he' => hne e' (by simp [he'])

theorem rinv_final (src : Bytes) (st n : Nat) (s : GState) (h : RInv src st n s) (b : Bytes)
    (hok : goutcome s = .ok b) : b = (src.drop st).take n := by
  simp only [goutcome] at hok
  split at hok
  · cases hok
  · rename_i hnr
    split at hok
    · rename_i hidle
      injection hok with hb
      subst hb
      rcases h with h | ⟨hf, hc, hbnd⟩
      · rcases h with h | h
        · have := hidle.2; rw [h.2] at this; cases this
        · exact absurd h hnr
      · have hleft : s.io.left = 0 := hbnd hidle.2 hidle.1
        apply List.ext_getElem?
        intro i
        rw [List.getElem?_take, List.getElem?_drop]
        by_cases hi : i < n ∧ st + i < src.length
        · have hneed : RNeed src st n (st + i) := ⟨by omega, by omega, hi.2⟩
          rcases hc (st + i) hneed with hg | ⟨r, hr, _⟩ | hu
          · obtain ⟨_, b, ht, hbuf⟩ := hg
            have e : st + i - st = i := by omega
            rw [e] at hbuf
            simp only [hi.1, if_true]
            rw [hbuf]; exact ht.symm
          · rw [hidle.1] at hr; cases hr
          · omega
        · have hnone : s.buf[i]? = none := by
            apply List.getElem?_eq_none
            apply Nat.le_of_not_lt
            intro hlt
            rcases hf.len2 i hlt with h0 | ⟨p, h1, h2, h3⟩
            · simp at h0
            · exact hi ⟨by omega, by omega⟩
          rw [hnone]
          by_cases hin : i < n
          · simp only [hin, if_true]
            exact (List.getElem?_eq_none (by omega)).symm
          · simp [hin]
    · cases hok

end AsyncsshModel.SftpIO
