import AsyncsshModel.Model.KeyFmtPem
import AsyncsshModel.Lemmas.KeyFmtBase64
set_option linter.unusedSimpArgs false
/-
  Framing lemmas: lines, the BEGIN/END lines, footer search, header parsing, and the scan of a file that
  consists of exported blocks.
-/
namespace AsyncsshModel.KeyFmt
open AsyncsshModel

/-! ### lines -/

theorem splitNl_ne_nil (s : Bytes) : splitNl s ≠ [] := by
  induction s with
  | nil => simp [splitNl]
  | cons c cs ih =>
    unfold splitNl
    split
    · simp
    · split <;> simp

theorem splitNl_append_nl (a b : Bytes) (h : nl ∉ a) : splitNl (a ++ nl :: b) = a :: splitNl b := by
  induction a with
  | nil => simp [splitNl]
  | cons c cs ih =>
    have hc : c ≠ nl := fun e => h (by simp [e])
    have hcs : nl ∉ cs := fun e => h (by simp [e])
    simp only [List.cons_append, splitNl, hc, if_false, ih hcs]

theorem splitNl_noNl (a : Bytes) (h : nl ∉ a) : splitNl a = [a] := by
  induction a with
  | nil => simp [splitNl]
  | cons c cs ih =>
    have hc : c ≠ nl := fun e => h (by simp [e])
    have hcs : nl ∉ cs := fun e => h (by simp [e])
    simp only [splitNl, hc, if_false, ih hcs]

theorem splitNl_unlines (ls : List Bytes) (rest : Bytes) (h : ∀ l ∈ ls, nl ∉ l) :
    splitNl (unlines ls ++ rest) = ls ++ splitNl rest := by
  induction ls with
  | nil => simp [unlines]
  | cons l ls ih =>
    have : unlines (l :: ls) ++ rest = l ++ nl :: (unlines ls ++ rest) := by
      simp [unlines, List.append_assoc]
    rw [this, splitNl_append_nl _ _ (h l (by simp)), ih (fun x hx => h x (by simp [hx]))]
    rfl

theorem unlines_append (a b : List Bytes) : unlines (a ++ b) = unlines a ++ unlines b := by
  simp [unlines]

theorem unlines_cons (l : Bytes) (ls : List Bytes) : unlines (l :: ls) = l ++ nl :: unlines ls := by
  simp [unlines]

theorem unlines_length_cons (l : Bytes) (ls : List Bytes) :
    (unlines (l :: ls)).length = l.length + 1 + (unlines ls).length := by
  rw [unlines_cons]; simp; omega

theorem joinNl_splitNl (s : Bytes) : joinNl (splitNl s) = s := by
  induction s with
  | nil => simp [splitNl, joinNl]
  | cons c cs ih =>
    unfold splitNl
    split
    · rename_i hc
      subst hc
      have hne := splitNl_ne_nil cs
      cases hs : splitNl cs with
      | nil => exact absurd hs hne
      | cons h t =>
        rw [hs] at ih
        simp only [joinNl, List.nil_append]
        rw [ih]
    · cases hs : splitNl cs with
      | nil => exact absurd hs (splitNl_ne_nil cs)
      | cons h t =>
        rw [hs] at ih
        simp only []
        cases t with
        | nil => simp only [joinNl] at ih ⊢; rw [ih]
        | cons t1 t2 => simp only [joinNl] at ih ⊢; rw [← ih]; simp

/-- every character of the first line of `s` is a character of `s` -/
theorem splitNl_head_subset (s : Bytes) : ∀ l ∈ (splitNl s).head?, ∀ c ∈ l, c ∈ s := by
  induction s with
  | nil => simp [splitNl]
  | cons x xs ih =>
    unfold splitNl
    split
    · simp
    · cases hs : splitNl xs with
      | nil => simp
      | cons h t =>
        rw [hs] at ih
        intro l hl c hc
        simp at hl
        subst hl
        simp at hc
        rcases hc with rfl | hc
        · simp
        · have := ih h (by simp) c hc
          simp [this]

/-! ### stripping -/

theorem rstrip_append_nonspace (l : Bytes) (c : UInt8) (hc : isSpace c = false) : rstrip (l ++ [c]) = l ++ [c] := by
  simp [rstrip, List.dropWhile, hc]

theorem rstrip_nil : rstrip [] = [] := rfl

theorem rstrip_of_getLast (l : Bytes) (h : ∀ c, l.getLast? = some c → isSpace c = false) : rstrip l = l := by
  rcases List.eq_nil_or_concat l with rfl | ⟨l', c, rfl⟩
  · rfl
  · simp only [List.concat_eq_append] at h ⊢
    exact rstrip_append_nonspace l' c (h c (by simp))

theorem lstrip_of_head (l : Bytes) (h : ∀ c, l.head? = some c → isSpace c = false) : lstrip l = l := by
  cases l with
  | nil => rfl
  | cons c cs => simp [lstrip, List.dropWhile, h c (by simp)]

theorem strip_of_edges (l : Bytes) (h1 : ∀ c, l.head? = some c → isSpace c = false)
    (h2 : ∀ c, l.getLast? = some c → isSpace c = false) : strip l = l := by
  unfold strip; rw [rstrip_of_getLast l h2, lstrip_of_head l h1]

theorem lstrip_space_cons (l : Bytes) : lstrip (32 :: l) = lstrip l := by
  simp [lstrip, List.dropWhile, isSpace]

/-! ### literal byte strings -/

theorem dashes5_eq : dashes5 = [45, 45, 45, 45, 45] := by decide +kernel
theorem dashes4_eq : dashes4 = [45, 45, 45, 45] := by decide +kernel
theorem sBegin_eq : sBegin = [66, 69, 71, 73, 78, 32] := by decide +kernel
theorem sEnd_eq : sEnd = [69, 78, 68, 32] := by decide +kernel
theorem strEND_eq : strBytes "END" = [69, 78, 68] := by decide +kernel
theorem beginPrefix_eq : beginPrefix = [45, 45, 45, 45, 45, 66, 69, 71, 73, 78, 32] := by decide +kernel

/-- the first / last line of a `wrap_base64` block with hyphens -/
def beginLine (bt : Bytes) : Bytes := [45, 45, 45, 45, 45, 66, 69, 71, 73, 78, 32] ++ bt ++ [45, 45, 45, 45, 45]
def endLine (bt : Bytes) : Bytes := [45, 45, 45, 45, 45, 69, 78, 68, 32] ++ bt ++ [45, 45, 45, 45, 45]

theorem isSpace_dash : isSpace 45 = false := by decide

theorem rstrip_beginLine (bt : Bytes) : rstrip (beginLine bt) = beginLine bt := by
  have : beginLine bt = ([45, 45, 45, 45, 45, 66, 69, 71, 73, 78, 32] ++ bt ++ [45, 45, 45, 45]) ++ [45] := by
    simp [beginLine]
  rw [this]; exact rstrip_append_nonspace _ _ isSpace_dash

theorem beginPrefix_isPrefix (bt : Bytes) : beginPrefix.isPrefixOf (beginLine bt) = true := by
  rw [beginPrefix_eq, List.isPrefixOf_iff_prefix]
  exact ⟨bt ++ [45, 45, 45, 45, 45], by simp [beginLine]⟩

theorem endsWith_append (x suffix : Bytes) : endsWith (x ++ suffix) suffix = true := by
  unfold endsWith
  rw [List.reverse_append, List.isPrefixOf_iff_prefix]
  exact List.prefix_append _ _

/-- block type `name ‖ ' ' ‖ keytype` (PKCS#1 style, `ENCRYPTED`, `OPENSSH`) or just `keytype` (PKCS#8) -/
def blockType (name kt : Bytes) : Bytes := if name = [] then kt else name ++ 32 :: kt

theorem endsWith_beginLine (name kt : Bytes) :
    endsWith (beginLine (blockType name kt)) (32 :: kt ++ dashes5) = true := by
  rw [dashes5_eq]
  unfold blockType
  split
  · have : beginLine kt = [45, 45, 45, 45, 45, 66, 69, 71, 73, 78] ++ (32 :: kt ++ [45, 45, 45, 45, 45]) := by
      simp [beginLine]
    rw [this]; exact endsWith_append _ _
  · have : beginLine (name ++ 32 :: kt)
        = ([45, 45, 45, 45, 45, 66, 69, 71, 73, 78, 32] ++ name) ++ (32 :: kt ++ [45, 45, 45, 45, 45]) := by
      simp [beginLine]
    rw [this]; exact endsWith_append _ _

theorem footerOf_beginLine (bt : Bytes) : footerOf (beginLine bt) = endLine bt := by
  simp [footerOf, beginLine, endLine, strEND_eq]

/-- the PEM name recovered from the BEGIN line -/
theorem name_of_beginLine (name kt : Bytes)
    (h1 : ∀ c, name.head? = some c → isSpace c = false) (h2 : ∀ c, name.getLast? = some c → isSpace c = false) :
    strip (((beginLine (blockType name kt)).drop 11).take
      ((beginLine (blockType name kt)).length - 11 - (6 + kt.length))) = name := by
  unfold blockType
  split
  · rename_i hn
    subst hn
    have : (beginLine kt).length - 11 - (6 + kt.length) = 0 := by simp [beginLine]; omega
    rw [this]; rfl
  · have e1 : (beginLine (name ++ 32 :: kt)).drop 11 = name ++ 32 :: kt ++ [45, 45, 45, 45, 45] := by
      simp [beginLine]
    have e2 : (beginLine (name ++ 32 :: kt)).length - 11 - (6 + kt.length) = name.length := by
      simp [beginLine]; omega
    rw [e1, e2]
    have : (name ++ 32 :: kt ++ [45, 45, 45, 45, 45]).take name.length = name := by
      rw [List.append_assoc]; exact List.take_left' rfl
    rw [this]
    exact strip_of_edges name h1 h2

/-! ### footer search -/

theorem footerLine_self (footer : Bytes) : footerLine footer footer = true := by
  simp [footerLine, List.isPrefixOf_iff_prefix]

theorem footerLine_false_of_head (footer l : Bytes) (c : UInt8) (hf : footer.head? = some c)
    (hl : l.head? ≠ some c) : footerLine footer l = false := by
  cases footer with
  | nil => simp at hf
  | cons f fs =>
    simp at hf; subst hf
    cases l with
    | nil => simp [footerLine, List.isPrefixOf]
    | cons x xs =>
      simp at hl
      simp [footerLine, List.isPrefixOf, Ne.symm hl]

def linesLen (ls : List Bytes) : Nat := (unlines ls).length

theorem findFooter_block (footer : Bytes) (total : Nat) (mid : List Bytes) (endl : Bytes) (post : List Bytes) :
    ∀ (off : Nat) (acc : List Bytes), (∀ l ∈ mid, footerLine footer l = false) → footerLine footer endl = true →
    findFooter footer total off (mid ++ endl :: post) acc =
      some (unlines (acc.reverse ++ mid),
            if post.isEmpty then total else footerStop total (off + linesLen mid + endl.length + 1) post) := by
  induction mid with
  | nil =>
    intro off acc _ he
    simp [findFooter, he, linesLen, unlines]
  | cons m ms ih =>
    intro off acc hm he
    have h1 : footerLine footer m = false := hm m (by simp)
    simp only [List.cons_append, findFooter, h1, Bool.false_eq_true, if_false]
    rw [ih (off + m.length + 1) (m :: acc) (fun l hl => hm l (by simp [hl])) he]
    simp only [List.reverse_cons, List.append_assoc, List.singleton_append]
    congr 2
    simp only [linesLen, unlines_length_cons]
    have : off + m.length + 1 + (unlines ms).length = off + (m.length + 1 + (unlines ms).length) := by omega
    rw [this]

theorem footerStop_nil_data (total off : Nat) : footerStop total off (splitNl []) = total := by
  simp [splitNl, footerStop]

theorem footerStop_visible (total off : Nat) (c : UInt8) (r : Bytes) (hc : isSpace c = false) :
    footerStop total off (splitNl (c :: r)) = off - 1 := by
  have hcn : c ≠ nl := by intro e; subst e; simp [isSpace, nl] at hc
  unfold splitNl
  simp only [hcn, if_false]
  cases hs : splitNl r with
  | nil => simp [footerStop, hc]
  | cons h t => simp [footerStop, hc]

/-! ### more on lines -/

theorem unlines_splitNl (s : Bytes) : unlines (splitNl s) = s ++ [nl] := by
  induction s with
  | nil => simp [splitNl, unlines]
  | cons c cs ih =>
    unfold splitNl
    split
    · rename_i hc; subst hc
      rw [unlines_cons, ih]; simp
    · cases hs : splitNl cs with
      | nil => exact absurd hs (splitNl_ne_nil cs)
      | cons h t =>
        rw [hs] at ih
        simp only []
        rw [unlines_cons] at ih ⊢
        simp only [List.cons_append]
        rw [ih]

theorem splitNl_noNl_mem (s : Bytes) : ∀ l ∈ splitNl s, nl ∉ l := by
  induction s with
  | nil => simp [splitNl]
  | cons c cs ih =>
    unfold splitNl
    split
    · intro l hl
      simp at hl
      rcases hl with rfl | hl
      · simp
      · exact ih l hl
    · rename_i hc
      cases hs : splitNl cs with
      | nil => intro l hl; simp at hl; subst hl; simp; exact fun e => hc e.symm
      | cons h t =>
        rw [hs] at ih
        intro l hl
        simp at hl
        rcases hl with rfl | hl
        · have := ih h (by simp)
          simp; exact ⟨fun e => hc e.symm, this⟩
        · exact ih l (by simp [hl])

/-- every line of `s` consists of characters of `s` -/
theorem splitNl_mem_subset (s : Bytes) : ∀ l ∈ splitNl s, ∀ c ∈ l, c ∈ s := by
  induction s with
  | nil => simp [splitNl]
  | cons x xs ih =>
    unfold splitNl
    split
    · intro l hl c hc
      simp at hl
      rcases hl with rfl | hl
      · simp at hc
      · simp [ih l hl c hc]
    · cases hs : splitNl xs with
      | nil => intro l hl c hc; simp at hl; subst hl; simp at hc; simp [hc]
      | cons h t =>
        rw [hs] at ih
        intro l hl c hc
        simp at hl
        rcases hl with rfl | hl
        · simp at hc
          rcases hc with rfl | hc
          · simp
          · simp [ih h (by simp) c hc]
        · simp [ih l (by simp [hl]) c hc]

/-! ### the text written by `wrap_base64` as a list of lines -/

theorem wrapBase64_lines (data bt : Bytes) (hdrLs : List Bytes) (w : Nat) (body : Bytes)
    (hb : wrapJoin? w (b2a data) = some body) :
    wrapBase64 data bt (unlines hdrLs) false w
      = some (unlines (beginLine bt :: hdrLs ++ splitNl body ++ [endLine bt])) := by
  unfold wrapBase64
  rw [hb]
  simp only [Option.map_some, Bool.false_eq_true, if_false]
  rw [dashes4_eq, sBegin_eq, sEnd_eq]
  have e : unlines (beginLine bt :: hdrLs ++ splitNl body ++ [endLine bt])
      = beginLine bt ++ [nl] ++ unlines hdrLs ++ (body ++ [nl]) ++ (endLine bt ++ [nl]) := by
    have : beginLine bt :: hdrLs ++ splitNl body ++ [endLine bt]
        = [beginLine bt] ++ hdrLs ++ splitNl body ++ [endLine bt] := rfl
    rw [this, unlines_append, unlines_append, unlines_append, unlines_splitNl]
    simp [unlines]
  rw [e]
  simp [beginLine, endLine, List.append_assoc]

/-- characters of a base64 body: alphabet, `=` and the newlines of the wrapping -/
def isB64Text (c : UInt8) : Bool := c == nl || c == padChar || (b64Val c).isSome

theorem b2a_isB64Text (data : Bytes) : ∀ c ∈ b2a data, isB64Text c = true := by
  intro c hc
  have := b2a_no_skip data c hc
  unfold isSkip at this
  unfold isB64Text
  by_cases hp : c = padChar
  · simp [hp]
  · simp [hp] at this
    cases hv : b64Val c with
    | none => simp [hv] at this
    | some v => simp

theorem wrapJoinAux_mem (w : Nat) : ∀ (fuel : Nat) (s : Bytes), ∀ c ∈ wrapJoinAux w fuel s, c ∈ s ∨ c = nl := by
  intro fuel
  induction fuel with
  | zero => intro s c hc; exact Or.inl hc
  | succ k ih =>
    intro s c hc
    rw [wrapJoinAux] at hc
    split at hc
    · exact Or.inl hc
    · simp only [List.mem_append, List.mem_cons] at hc
      rcases hc with hc | rfl | hc
      · exact Or.inl (List.mem_of_mem_take hc)
      · exact Or.inr rfl
      · rcases ih _ c hc with h | h
        · exact Or.inl (List.mem_of_mem_drop h)
        · exact Or.inr h

theorem body_isB64Text {w : Nat} {data body : Bytes} (hb : wrapJoin? w (b2a data) = some body) :
    ∀ c ∈ body, isB64Text c = true := by
  unfold wrapJoin? at hb
  split at hb
  · simp at hb
  · simp at hb; subst hb
    intro c hc
    rcases wrapJoinAux_mem w _ _ c hc with h | h
    · exact b2a_isB64Text data c h
    · subst h; decide

theorem b64Val_some_range {c : UInt8} {v : Nat} (hv : b64Val c = some v) :
    (65 ≤ c.toNat ∧ c.toNat ≤ 90) ∨ (97 ≤ c.toNat ∧ c.toNat ≤ 122) ∨ (48 ≤ c.toNat ∧ c.toNat ≤ 57) ∨
      c.toNat = 43 ∨ c.toNat = 47 := by
  unfold b64Val at hv
  simp only [] at hv
  split at hv
  · left; assumption
  · split at hv
    · right; left; assumption
    · split at hv
      · right; right; left; assumption
      · split at hv
        · right; right; right; left; assumption
        · split at hv
          · right; right; right; right; assumption
          · cases hv

theorem isB64Text_facts {c : UInt8} (h : isB64Text c = true) :
    c ≠ colon ∧ c ≠ 45 ∧ c ≠ backslash ∧ (c = nl ∨ isSpace c = false) := by
  unfold isB64Text at h
  simp only [Bool.or_eq_true, beq_iff_eq, Option.isSome_iff_exists] at h
  rcases h with (h | h) | ⟨v, hv⟩
  · subst h; decide
  · subst h; decide
  · have hr := b64Val_some_range hv
    have ne_of : ∀ d : UInt8, c.toNat ≠ d.toNat → c ≠ d := fun d hd e => hd (by rw [e])
    refine ⟨ne_of _ ?_, ne_of _ ?_, ne_of _ ?_, Or.inr ?_⟩
    · have : colon.toNat = 58 := by decide
      omega
    · have : (45 : UInt8).toNat = 45 := by decide
      omega
    · have : backslash.toNat = 92 := by decide
      omega
    · unfold isSpace
      have e1 : (c == 32) = false := by
        simp only [beq_eq_false_iff_ne, ne_eq]
        apply ne_of
        have : (32 : UInt8).toNat = 32 := by decide
        omega
      have e2 : (decide (9 ≤ c) && decide (c ≤ 13)) = false := by
        simp only [Bool.and_eq_false_iff, decide_eq_false_iff_not, UInt8.le_iff_toNat_le]
        right
        have : (13 : UInt8).toNat = 13 := by decide
        omega
      simp [e1, e2]

/-! ### header parsing -/

theorem splitColon_none (x : Bytes) (h : ∀ c ∈ x, c ≠ colon) : splitColon x = none := by
  induction x with
  | nil => rfl
  | cons c cs ih =>
    have hc : c ≠ colon := h c (by simp)
    simp [splitColon, hc, ih (fun d hd => h d (by simp [hd]))]

theorem splitColon_append (k r : Bytes) (h : colon ∉ k) : splitColon (k ++ colon :: r) = some (k, r) := by
  induction k with
  | nil => simp [splitColon]
  | cons c cs ih =>
    have hc : c ≠ colon := fun e => h (by simp [e])
    simp [splitColon, hc, ih (fun e => h (by simp [e]))]

theorem mem_rstrip {c : UInt8} {l : Bytes} (h : c ∈ rstrip l) : c ∈ l := by
  unfold rstrip at h
  rw [List.mem_reverse] at h
  have := (List.dropWhile_sublist (isSpace ·) (l := l.reverse)).subset h
  simpa using this

theorem pemHeaders_stop (l : Bytes) (rest : List Bytes) (h : ∀ c ∈ l, c ≠ colon) :
    pemHeaders (l :: rest) = ([], joinNl (l :: rest)) := by
  have : splitColon (rstrip l) = none := splitColon_none _ (fun c hc => h c (mem_rstrip hc))
  simp [pemHeaders, this]

/-- a `Key: value` header line as asyncssh writes it (`Proc-Type: 4,ENCRYPTED`, `DEK-Info: …`) -/
def hdrLine (kv : Bytes × Bytes) : Bytes := kv.1 ++ colon :: 32 :: kv.2

/-- key and value survive `rstrip`, `split(b':', 1)` and `strip` -/
def HdrOk (kv : Bytes × Bytes) : Prop :=
  colon ∉ kv.1 ∧ nl ∉ kv.1 ∧ nl ∉ kv.2 ∧ kv.2 ≠ [] ∧
  (∀ c, kv.1.head? = some c → isSpace c = false) ∧ (∀ c, kv.1.getLast? = some c → isSpace c = false) ∧
  (∀ c, kv.2.head? = some c → isSpace c = false) ∧ (∀ c, kv.2.getLast? = some c → isSpace c = false)

theorem getLast?_append_of_ne_nil (a b : Bytes) (h : b ≠ []) : (a ++ b).getLast? = b.getLast? := by
  rw [List.getLast?_append]
  cases hb : b.getLast? with
  | none => simp [List.getLast?_eq_none_iff] at hb; exact absurd hb h
  | some x => simp

theorem rstrip_hdrLine (kv : Bytes × Bytes) (h : HdrOk kv) : rstrip (hdrLine kv) = hdrLine kv := by
  obtain ⟨_, _, _, hne, _, _, _, hl⟩ := h
  apply rstrip_of_getLast
  intro c hc
  unfold hdrLine at hc
  have : (kv.1 ++ colon :: 32 :: kv.2) = (kv.1 ++ [colon, 32]) ++ kv.2 := by simp
  rw [this, getLast?_append_of_ne_nil _ _ hne] at hc
  exact hl c hc

theorem pemHeaders_pairs (pairs : List (Bytes × Bytes)) (rest : List Bytes) (h : ∀ kv ∈ pairs, HdrOk kv) :
    pemHeaders (pairs.map hdrLine ++ [] :: rest) = (pairs, joinNl ([] :: rest)) := by
  induction pairs with
  | nil => simp [pemHeaders, rstrip_nil, splitColon]
  | cons kv ps ih =>
    have hk := h kv (by simp)
    obtain ⟨hc, _, _, hne, h1, h2, h3, h4⟩ := hk
    have hsc : splitColon (rstrip (hdrLine kv)) = some (kv.1, 32 :: kv.2) := by
      rw [rstrip_hdrLine kv (h kv (by simp))]
      exact splitColon_append _ _ hc
    simp only [List.map_cons, List.cons_append, pemHeaders, hsc]
    rw [ih (fun x hx => h x (by simp [hx]))]
    simp only []
    have e1 : strip kv.1 = kv.1 := strip_of_edges _ h1 h2
    have e2 : strip (32 :: kv.2) = kv.2 := by
      unfold strip
      have : rstrip (32 :: kv.2) = 32 :: kv.2 := by
        apply rstrip_of_getLast
        intro c hc'
        have : (32 :: kv.2) = [32] ++ kv.2 := rfl
        rw [this, getLast?_append_of_ne_nil _ _ hne] at hc'
        exact h4 c hc'
      rw [this, lstrip_space_cons, lstrip_of_head _ h3]
    rw [e1, e2]

theorem joinNl_append_nil (x : List Bytes) (h : x ≠ []) : joinNl (x ++ [[]]) = joinNl x ++ [nl] := by
  induction x with
  | nil => exact absurd rfl h
  | cons a as ih =>
    cases as with
    | nil => simp [joinNl]
    | cons b bs =>
      have := ih (by simp)
      simp only [List.cons_append, joinNl] at this ⊢
      rw [this]; simp

theorem joinNl_nil_cons (x : List Bytes) (h : x ≠ []) : joinNl ([] :: x) = nl :: joinNl x := by
  cases x with
  | nil => exact absurd rfl h
  | cons a as => simp [joinNl]

/-- `_parse_pem` on the inside of a block written by `wrap_base64`, without headers -/
theorem parsePem_plain (w : Nat) (hw : 0 < w) (data body : Bytes) (hb : wrapJoin? w (b2a data) = some body) :
    parsePem (unlines (splitNl body)) = some ([], data) := by
  unfold parsePem
  have hs : splitNl (unlines (splitNl body)) = splitNl body ++ [[]] := by
    have := splitNl_unlines (splitNl body) [] (splitNl_noNl_mem body)
    simpa [splitNl] using this
  rw [hs]
  have hne := splitNl_ne_nil body
  cases hsb : splitNl body with
  | nil => exact absurd hsb hne
  | cons l ls =>
    have hl : ∀ c ∈ l, c ≠ colon := by
      intro c hc
      have hmem := splitNl_mem_subset body l (by rw [hsb]; simp) c hc
      exact (isB64Text_facts (body_isB64Text hb c hmem)).1
    rw [List.cons_append, pemHeaders_stop l _ hl]
    simp only []
    have : joinNl (l :: (ls ++ [[]])) = body ++ [nl] := by
      rw [← List.cons_append, joinNl_append_nil _ (by simp), ← hsb, joinNl_splitNl]
    rw [this]
    obtain ⟨body', hb', ha⟩ := a2b_wrapJoin w hw data [] [nl] (by simp) (by intro c hc; simp at hc; subst hc; exact nl_skip)
    rw [hb] at hb'
    cases hb'
    simp only [List.nil_append] at ha
    rw [ha]; rfl

/-- … and with `Key: value` headers followed by the blank line -/
theorem parsePem_headers (w : Nat) (hw : 0 < w) (data body : Bytes) (pairs : List (Bytes × Bytes))
    (hp : ∀ kv ∈ pairs, HdrOk kv) (hb : wrapJoin? w (b2a data) = some body) :
    parsePem (unlines (pairs.map hdrLine ++ [] :: splitNl body)) = some (pairs, data) := by
  unfold parsePem
  have hnl : ∀ l ∈ pairs.map hdrLine ++ [] :: splitNl body, nl ∉ l := by
    intro l hl
    simp only [List.mem_append, List.mem_map, List.mem_cons] at hl
    rcases hl with ⟨kv, hkv, rfl⟩ | rfl | hl
    · obtain ⟨_, h1, h2, _⟩ := hp kv hkv
      unfold hdrLine
      simp only [List.mem_append, List.mem_cons, not_or]
      exact ⟨h1, by decide, by decide, h2⟩
    · simp
    · exact splitNl_noNl_mem body l hl
  have hs : splitNl (unlines (pairs.map hdrLine ++ [] :: splitNl body))
      = pairs.map hdrLine ++ [] :: (splitNl body ++ [[]]) := by
    have := splitNl_unlines _ [] hnl
    simpa [splitNl] using this
  rw [hs, pemHeaders_pairs pairs _ hp]
  simp only []
  have : joinNl ([] :: (splitNl body ++ [[]])) = [nl] ++ body ++ [nl] := by
    rw [joinNl_nil_cons _ (by simp), joinNl_append_nil _ (splitNl_ne_nil body), joinNl_splitNl]; simp
  rw [this]
  obtain ⟨body', hb', ha⟩ := a2b_wrapJoin w hw data [nl] [nl]
    (by intro c hc; simp at hc; subst hc; exact nl_skip) (by intro c hc; simp at hc; subst hc; exact nl_skip)
  rw [hb] at hb'
  cases hb'
  rw [ha]; rfl

/-! ### scanning -/

/-- a line the scanner of `_match_next` passes over -/
def Inert (kt : Bytes) (pub : Bool) (l : Bytes) : Prop :=
  (beginPrefix.isPrefixOf (rstrip l) && endsWith (rstrip l) (32 :: kt ++ dashes5)) = false ∧
  (pub && rstrip l == rfcBegin) = false ∧
  (if pub then parseOpenssh (rstrip l) else none) = none

theorem inert_nil (kt : Bytes) (pub : Bool) : Inert kt pub [] := by
  refine ⟨?_, ?_, ?_⟩
  · rw [rstrip_nil, beginPrefix_eq]; rfl
  · rw [rstrip_nil]
    have : ([] == rfcBegin) = false := by decide +kernel
    simp [this]
  · rw [rstrip_nil]
    have : parseOpenssh [] = none := by decide +kernel
    cases pub <;> simp [this]

theorem scanLines_skip (kt : Bytes) (pub : Bool) (all : List Bytes) (total off : Nat) (l : Bytes)
    (rest : List Bytes) (h : Inert kt pub l) (hr : rest ≠ []) :
    scanLines kt pub all total off (l :: rest) = scanLines kt pub all total (off + l.length + 1) rest := by
  obtain ⟨h1, h2, h3⟩ := h
  have hl : rest.isEmpty = false := by cases rest <;> simp_all
  rw [scanLines]
  simp only [h1, h2, h3, hl, Bool.false_eq_true, if_false]

theorem scanLines_pem (kt name : Bytes) (pub : Bool) (all : List Bytes) (total off : Nat)
    (mid post : List Bytes) (hpost : post ≠ [])
    (h1 : ∀ c, name.head? = some c → isSpace c = false) (h2 : ∀ c, name.getLast? = some c → isSpace c = false)
    (hmeta : (beginLine (blockType name kt)).any isRegexMeta = false)
    (hmid : ∀ l ∈ mid, footerLine (endLine (blockType name kt)) l = false) :
    scanLines kt pub all total off
        (beginLine (blockType name kt) :: (mid ++ endLine (blockType name kt) :: post)) =
      match parsePem (unlines mid) with
      | none => .badBase64
      | some (hs, payload) =>
        .pem name hs payload
          (footerStop total (off + (beginLine (blockType name kt)).length + 1 + linesLen mid +
            (endLine (blockType name kt)).length + 1) post) := by
  have hl : (mid ++ endLine (blockType name kt) :: post).isEmpty = false := by
    cases mid <;> simp
  have hpe : post.isEmpty = false := by cases post <;> simp_all
  rw [scanLines]
  simp only [rstrip_beginLine, beginPrefix_isPrefix, endsWith_beginLine, Bool.and_self, if_true, hmeta, hl,
    Bool.false_eq_true, if_false, footerOf_beginLine, name_of_beginLine name kt h1 h2]
  rw [findFooter_block _ _ mid _ post _ [] hmid (footerLine_self _)]
  simp only [hpe, Bool.false_eq_true, if_false, List.reverse_nil, List.nil_append]
  cases parsePem (unlines mid) with
  | none => rfl
  | some r => rfl

/-! ### a PEM block followed by anything that starts visibly -/

/-- what may follow an exported block in a file: nothing, or text whose first character is not white space
    (the next exported block) -/
def VisibleOrEmpty (r : Bytes) : Prop := r = [] ∨ ∃ c r', r = c :: r' ∧ isSpace c = false

/-- where `_match_next` reports the end of a block of length `len` followed by `r` -/
def stopAfter (len : Nat) (r : Bytes) : Nat := if r = [] then len else len - 1

theorem footerStop_after (n len : Nat) (r : Bytes) (hr : VisibleOrEmpty r) (hlen : 0 < len) :
    footerStop (n + len + r.length) (n + len) (splitNl r) = n + stopAfter len r := by
  rcases hr with rfl | ⟨c, r', rfl, hc⟩
  · simp [footerStop_nil_data, stopAfter]
  · rw [footerStop_visible _ _ c r' hc]
    simp [stopAfter]; omega

theorem scanLines_blank (kt : Bytes) (pub : Bool) (all : List Bytes) (total : Nat) (rest : List Bytes)
    (hr : rest ≠ []) : ∀ (n off : Nat),
    scanLines kt pub all total off (List.replicate n [] ++ rest) = scanLines kt pub all total (off + n) rest := by
  intro n
  induction n with
  | zero => intro off; simp
  | succ k ih =>
    intro off
    rw [List.replicate_succ, List.cons_append,
      scanLines_skip kt pub all total off [] _ (inert_nil kt pub) (by cases k <;> simp [List.replicate, hr]),
      ih]
    congr 1
    simp; omega

theorem splitNl_replicate_nl (n : Nat) (x : Bytes) :
    splitNl (List.replicate n nl ++ x) = List.replicate n [] ++ splitNl x := by
  induction n with
  | zero => simp
  | succ k ih => simp [List.replicate_succ, splitNl, ih]

structure PemItem where
  name : Bytes
  pairs : List (Bytes × Bytes)
  data : Bytes
  wrap : Nat

/-- the header bytes handed to `wrap_base64`: `Key: value` lines and a blank line, or nothing -/
def PemItem.hdrLines (it : PemItem) : List Bytes :=
  if it.pairs = [] then [] else it.pairs.map hdrLine ++ [[]]

def PemItem.text? (kt : Bytes) (it : PemItem) : Option Bytes :=
  wrapBase64 it.data (blockType it.name kt) (unlines it.hdrLines) false it.wrap

/-- side conditions under which the block is found again: a wrap width, a PEM name without line breaks,
    edge blanks or regex metacharacters, header keys/values that survive stripping -/
structure PemItem.Ok (kt : Bytes) (it : PemItem) : Prop where
  wrap_pos : 0 < it.wrap
  name_head : ∀ c, it.name.head? = some c → isSpace c = false
  name_last : ∀ c, it.name.getLast? = some c → isSpace c = false
  no_nl : nl ∉ blockType it.name kt
  no_meta : (beginLine (blockType it.name kt)).any isRegexMeta = false
  hdr_ok : ∀ kv ∈ it.pairs, HdrOk kv ∧ kv.1.head? ≠ some 45

theorem hdrLine_head (kv : Bytes × Bytes) (h : kv.1.head? ≠ some 45) : (hdrLine kv).head? ≠ some 45 := by
  unfold hdrLine
  cases hk : kv.1 with
  | nil => simp [colon]
  | cons a as => rw [hk] at h; simpa using h

theorem pem_matchNext (kt : Bytes) (pub : Bool) (it : PemItem) (text r : Bytes) (n : Nat)
    (hok : it.Ok kt) (ht : it.text? kt = some text) (hr : VisibleOrEmpty r) :
    matchNext kt pub (List.replicate n nl ++ text ++ r)
      = .pem it.name it.pairs it.data (n + stopAfter text.length r) := by
  obtain ⟨body, hb⟩ : ∃ body, wrapJoin? it.wrap (b2a it.data) = some body := by
    simp [wrapJoin?]; exact Nat.pos_iff_ne_zero.mp hok.wrap_pos
  have htext : text = unlines (beginLine (blockType it.name kt) :: it.hdrLines ++ splitNl body ++
      [endLine (blockType it.name kt)]) := by
    have := wrapBase64_lines it.data (blockType it.name kt) it.hdrLines it.wrap body hb
    unfold PemItem.text? at ht
    rw [this] at ht
    exact (Option.some.inj ht).symm
  -- the lines of the block contain no newline
  have hbl : nl ∉ beginLine (blockType it.name kt) := by
    simp only [beginLine, List.mem_append, not_or]
    exact ⟨⟨by decide, hok.no_nl⟩, by decide⟩
  have hel : nl ∉ endLine (blockType it.name kt) := by
    simp only [endLine, List.mem_append, not_or]
    exact ⟨⟨by decide, hok.no_nl⟩, by decide⟩
  have hhl : ∀ l ∈ it.hdrLines, nl ∉ l ∧ l.head? ≠ some 45 := by
    intro l hl
    unfold PemItem.hdrLines at hl
    split at hl
    · simp at hl
    · simp only [List.mem_append, List.mem_map, List.mem_cons, List.mem_nil_iff, or_false] at hl
      rcases hl with ⟨kv, hkv, rfl⟩ | rfl
      · obtain ⟨⟨_, h1, h2, _⟩, h45⟩ := hok.hdr_ok kv hkv
        refine ⟨?_, hdrLine_head kv h45⟩
        unfold hdrLine
        simp only [List.mem_append, List.mem_cons, not_or]
        exact ⟨h1, by decide, by decide, h2⟩
      · simp
  have hbody : ∀ l ∈ splitNl body, nl ∉ l ∧ l.head? ≠ some 45 := by
    intro l hl
    refine ⟨splitNl_noNl_mem body l hl, ?_⟩
    cases l with
    | nil => simp
    | cons a as =>
      have := splitNl_mem_subset body _ hl a (by simp)
      have := (isB64Text_facts (body_isB64Text hb a this)).2.1
      simpa using this
  have hlines : ∀ l ∈ beginLine (blockType it.name kt) :: it.hdrLines ++ splitNl body ++
      [endLine (blockType it.name kt)], nl ∉ l := by
    intro l hl
    simp only [List.cons_append, List.mem_cons, List.mem_append, List.mem_nil_iff, or_false] at hl
    rcases hl with rfl | (hl | hl) | rfl
    · exact hbl
    · exact (hhl l hl).1
    · exact (hbody l hl).1
    · exact hel
  have hmid : ∀ l ∈ it.hdrLines ++ splitNl body, footerLine (endLine (blockType it.name kt)) l = false := by
    intro l hl
    apply footerLine_false_of_head _ _ 45 (by simp [endLine])
    simp only [List.mem_append] at hl
    rcases hl with hl | hl
    · exact (hhl l hl).2
    · exact (hbody l hl).2
  -- the data as lines
  have hsplit : splitNl (List.replicate n nl ++ text ++ r) = List.replicate n [] ++
      (beginLine (blockType it.name kt) :: ((it.hdrLines ++ splitNl body) ++
        endLine (blockType it.name kt) :: splitNl r)) := by
    rw [List.append_assoc, splitNl_replicate_nl, htext, splitNl_unlines _ _ hlines]
    simp [List.append_assoc]
  have hparse : parsePem (unlines (it.hdrLines ++ splitNl body)) = some (it.pairs, it.data) := by
    unfold PemItem.hdrLines
    split
    · rename_i hp
      rw [hp]; simp only [List.nil_append]
      exact parsePem_plain it.wrap hok.wrap_pos it.data body hb
    · have := parsePem_headers it.wrap hok.wrap_pos it.data body it.pairs (fun kv h => (hok.hdr_ok kv h).1) hb
      simpa [List.append_assoc] using this
  have hlen : text.length = (beginLine (blockType it.name kt)).length + 1 +
      linesLen (it.hdrLines ++ splitNl body) + (endLine (blockType it.name kt)).length + 1 := by
    rw [htext]
    simp only [linesLen, List.cons_append, unlines_length_cons, List.append_assoc, unlines_append]
    simp [unlines]; omega
  have hhead : (List.replicate n nl ++ text ++ r).head? ≠ some 0x30 := by
    cases n with
    | zero =>
      rw [htext]; simp [unlines, beginLine]
    | succ k => simp [List.replicate_succ, nl]
  unfold matchNext
  simp only [hhead, if_false]
  rw [hsplit, scanLines_blank _ _ _ _ _ (by simp) n 0,
    scanLines_pem kt it.name pub _ _ _ _ (splitNl r) (splitNl_ne_nil r) hok.name_head hok.name_last
      hok.no_meta hmid, hparse]
  simp only []
  congr 1
  have hpos : 0 < text.length := by rw [hlen]; omega
  have := footerStop_after n text.length r hr hpos
  simp only [List.length_append, List.length_replicate] at this ⊢
  rw [← this]
  congr 1
  omega

/-! ### RFC 4716 blocks -/

def rfcEnd : Bytes := strBytes "---- END SSH2 PUBLIC KEY ----"

theorem rfcBegin_facts :
    rstrip rfcBegin = rfcBegin ∧ beginPrefix.isPrefixOf rfcBegin = false ∧ footerOf rfcBegin = rfcEnd ∧
    rfcBegin.any isRegexMeta = false ∧ nl ∉ rfcBegin ∧ nl ∉ rfcEnd ∧ rfcEnd.head? = some 45 ∧
    rfcBegin.head? = some 45 ∧ 0 < rfcBegin.length := by
  decide +kernel

theorem wrapBase64_rfc_lines (data : Bytes) (hdrLs : List Bytes) (w : Nat) (body : Bytes)
    (hb : wrapJoin? w (b2a data) = some body) :
    wrapBase64 data rfc4716Type (unlines hdrLs) true w
      = some (unlines (rfcBegin :: hdrLs ++ splitNl body ++ [rfcEnd])) := by
  unfold wrapBase64
  rw [hb]
  simp only [Option.map_some, if_true]
  have e : unlines (rfcBegin :: hdrLs ++ splitNl body ++ [rfcEnd])
      = rfcBegin ++ [nl] ++ unlines hdrLs ++ (body ++ [nl]) ++ (rfcEnd ++ [nl]) := by
    have : rfcBegin :: hdrLs ++ splitNl body ++ [rfcEnd] = [rfcBegin] ++ hdrLs ++ splitNl body ++ [rfcEnd] := rfl
    rw [this, unlines_append, unlines_append, unlines_append, unlines_splitNl]
    simp [unlines]
  rw [e]
  have b1 : dashes4 ++ [32] ++ sBegin ++ rfc4716Type ++ [32] ++ dashes4 = rfcBegin := by decide +kernel
  have b2 : dashes4 ++ [32] ++ sEnd ++ rfc4716Type ++ [32] ++ dashes4 = rfcEnd := by decide +kernel
  rw [← b1, ← b2]
  simp [List.append_assoc]

/-- the `Comment: "…"` header line written by `export_public_key('rfc4716')` -/
def commentLine (c : Bytes) : Bytes := strBytes "Comment: \"" ++ c ++ [quote]

theorem commentLine_eq (c : Bytes) :
    commentLine c = [67, 111, 109, 109, 101, 110, 116] ++ colon :: 32 :: quote :: (c ++ [quote]) := by
  have : strBytes "Comment: \"" = [67, 111, 109, 109, 101, 110, 116, 58, 32, 34] := by decide +kernel
  simp [commentLine, this, colon, quote]

theorem isSpace_quote : isSpace quote = false := by decide

theorem rfcHeaders_stop (cm : Option Bytes) (l : Bytes) (rest : List Bytes)
    (h : ∀ c ∈ l, c ≠ colon ∧ c ≠ backslash) :
    rfcHeaders [] cm (l :: rest) = (cm, joinNl (l :: rest)) := by
  have h1 : (rstrip l).getLast? ≠ some backslash := by
    intro e
    have hm : backslash ∈ rstrip l := List.mem_of_getLast? e
    exact (h _ (mem_rstrip hm)).2 rfl
  have h2 : splitColon (rstrip l) = none := splitColon_none _ (fun c hc => (h c (mem_rstrip hc)).1)
  rw [rfcHeaders]
  simp [h1, h2]

theorem rfcHeaders_comment (c : Bytes) (rest : List Bytes) (_hc : c ≠ []) :
    rfcHeaders [] none (commentLine c :: rest) = rfcHeaders [] (some c) rest := by
  have hr : rstrip (commentLine c) = commentLine c := by
    unfold commentLine
    exact rstrip_append_nonspace _ _ isSpace_quote
  have hl : (commentLine c).getLast? ≠ some backslash := by
    unfold commentLine
    rw [List.getLast?_append]; simp [quote, backslash]
  have hs : splitColon (commentLine c) = some ([67, 111, 109, 109, 101, 110, 116], 32 :: quote :: (c ++ [quote])) := by
    rw [commentLine_eq]
    exact splitColon_append _ _ (by decide)
  rw [rfcHeaders]
  simp only [hr, hl, if_false, List.nil_append, hs]
  congr 1
  unfold rfcComment
  have hk : strip [67, 111, 109, 109, 101, 110, 116] = commentKey := by decide +kernel
  have hv : strip (32 :: quote :: (c ++ [quote])) = quote :: (c ++ [quote]) := by
    unfold strip
    have : rstrip (32 :: quote :: (c ++ [quote])) = 32 :: quote :: (c ++ [quote]) := by
      have : (32 :: quote :: (c ++ [quote])) = (32 :: quote :: c) ++ [quote] := by simp
      rw [this]; exact rstrip_append_nonspace _ _ isSpace_quote
    rw [this, lstrip_space_cons, lstrip_of_head _ (by intro x hx; simp at hx; subst hx; exact isSpace_quote)]
  simp only [hk, if_true, hv]
  have h1 : (quote :: (c ++ [quote])).head? = some quote := rfl
  have h2 : (quote :: (c ++ [quote])).getLast? = some quote := by
    rw [show quote :: (c ++ [quote]) = (quote :: c) ++ [quote] from rfl, List.getLast?_append]
    simp
  simp only [h1, h2, and_self, if_true]
  simp

/-- `_parse_rfc4716` on the inside of a block written by `export_public_key('rfc4716')` -/
theorem parseRfc4716_block (w : Nat) (hw : 0 < w) (blob body c : Bytes) (hb : wrapJoin? w (b2a blob) = some body)
    (hnl : nl ∉ c) :
    parseRfc4716 (unlines ((if c = [] then [] else [commentLine c]) ++ splitNl body))
      = some (if c = [] then none else some c, blob) := by
  unfold parseRfc4716
  have hcl : nl ∉ commentLine c := by
    rw [commentLine_eq]
    simp only [List.mem_append, List.mem_cons, not_or, List.mem_nil_iff, or_false]
    exact ⟨by decide, by decide, by decide, by decide, hnl, by decide⟩
  have hls : ∀ l ∈ (if c = [] then [] else [commentLine c]) ++ splitNl body, nl ∉ l := by
    intro l hl
    simp only [List.mem_append] at hl
    rcases hl with hl | hl
    · split at hl
      · simp at hl
      · simp at hl; subst hl; exact hcl
    · exact splitNl_noNl_mem body l hl
  have hs : splitNl (unlines ((if c = [] then [] else [commentLine c]) ++ splitNl body))
      = (if c = [] then [] else [commentLine c]) ++ (splitNl body ++ [[]]) := by
    have := splitNl_unlines _ [] hls
    simpa [splitNl, List.append_assoc] using this
  rw [hs]
  have hbodyparse : ∀ cm, rfcHeaders [] cm (splitNl body ++ [[]]) = (cm, body ++ [nl]) := by
    intro cm
    cases hsb : splitNl body with
    | nil => exact absurd hsb (splitNl_ne_nil body)
    | cons l ls =>
      have hl : ∀ x ∈ l, x ≠ colon ∧ x ≠ backslash := by
        intro x hx
        have hmem := splitNl_mem_subset body l (by rw [hsb]; simp) x hx
        have f := isB64Text_facts (body_isB64Text hb x hmem)
        exact ⟨f.1, f.2.2.1⟩
      rw [List.cons_append, rfcHeaders_stop cm l _ hl]
      congr 1
      rw [← List.cons_append, joinNl_append_nil _ (by simp), ← hsb, joinNl_splitNl]
  obtain ⟨body', hb', ha⟩ := a2b_wrapJoin w hw blob [] [nl] (by simp)
    (by intro x hx; simp at hx; subst hx; exact nl_skip)
  rw [hb] at hb'
  cases hb'
  simp only [List.nil_append] at ha
  by_cases hc : c = []
  · simp only [hc, if_true, List.nil_append]
    rw [hbodyparse none]
    simp only [ha, Option.map_some]
  · simp only [hc, if_false, List.singleton_append]
    rw [rfcHeaders_comment c _ hc, hbodyparse (some c)]
    simp only [ha, Option.map_some]

theorem scanLines_rfc (kt : Bytes) (all : List Bytes) (total off : Nat) (mid post : List Bytes)
    (hpost : post ≠ []) (hmid : ∀ l ∈ mid, footerLine rfcEnd l = false) :
    scanLines kt true all total off (rfcBegin :: (mid ++ rfcEnd :: post)) =
      match parseRfc4716 (unlines mid) with
      | none => .badBase64
      | some (c, payload) =>
        .rfc4716 c payload (footerStop total (off + rfcBegin.length + 1 + linesLen mid + rfcEnd.length + 1) post) := by
  obtain ⟨f1, f2, f3, f4, _, _, _, _, _⟩ := rfcBegin_facts
  have hl : (mid ++ rfcEnd :: post).isEmpty = false := by cases mid <;> simp
  have hpe : post.isEmpty = false := by cases post <;> simp_all
  rw [scanLines]
  simp only [f1, f2, Bool.false_and, Bool.false_eq_true, if_false, Bool.true_and, beq_self_eq_true, if_true, hl, f3]
  rw [findFooter_block _ _ mid _ post _ [] hmid (footerLine_self _)]
  simp only [hpe, Bool.false_eq_true, if_false, List.reverse_nil, List.nil_append]
  cases parseRfc4716 (unlines mid) with
  | none => rfl
  | some r => rfl

theorem rfc_matchNext (kt : Bytes) (blob c text r : Bytes) (n : Nat)
    (hnl : nl ∉ c) (ht : rfc4716Block blob c = some text) (hr : VisibleOrEmpty r) :
    matchNext kt true (List.replicate n nl ++ text ++ r)
      = .rfc4716 (if c = [] then none else some c) blob (n + stopAfter text.length r) := by
  obtain ⟨f1, f2, f3, f4, g1, g2, g3, g4, g5⟩ := rfcBegin_facts
  have hw : 0 < Gen.C15.defaultWrapLen := by decide
  obtain ⟨body, hb⟩ : ∃ body, wrapJoin? Gen.C15.defaultWrapLen (b2a blob) = some body := by
    simp [wrapJoin?]; decide
  let hdrLs : List Bytes := if c = [] then [] else [commentLine c]
  have hhdr : (if c.isEmpty then [] else strBytes "Comment: \"" ++ c ++ [quote, nl]) = unlines hdrLs := by
    by_cases hc : c = []
    · simp [hdrLs, hc, unlines]
    · have : c.isEmpty = false := by cases c <;> simp_all
      simp [hdrLs, hc, this, unlines, commentLine]
  have htext : text = unlines (rfcBegin :: hdrLs ++ splitNl body ++ [rfcEnd]) := by
    unfold rfc4716Block at ht
    simp only [] at ht
    rw [hhdr, wrapBase64_rfc_lines blob hdrLs _ body hb] at ht
    exact (Option.some.inj ht).symm
  have hcl : nl ∉ commentLine c := by
    rw [commentLine_eq]
    simp only [List.mem_append, List.mem_cons, not_or, List.mem_nil_iff, or_false]
    exact ⟨by decide, by decide, by decide, by decide, hnl, by decide⟩
  have hhl : ∀ l ∈ hdrLs, nl ∉ l ∧ l.head? ≠ some 45 := by
    intro l hl
    simp only [hdrLs] at hl
    split at hl
    · simp at hl
    · simp at hl; subst hl
      exact ⟨hcl, by rw [commentLine_eq]; simp⟩
  have hbody : ∀ l ∈ splitNl body, nl ∉ l ∧ l.head? ≠ some 45 := by
    intro l hl
    refine ⟨splitNl_noNl_mem body l hl, ?_⟩
    cases l with
    | nil => simp
    | cons a as =>
      have := splitNl_mem_subset body _ hl a (by simp)
      have := (isB64Text_facts (body_isB64Text hb a this)).2.1
      simpa using this
  have hlines : ∀ l ∈ rfcBegin :: hdrLs ++ splitNl body ++ [rfcEnd], nl ∉ l := by
    intro l hl
    simp only [List.cons_append, List.mem_cons, List.mem_append, List.mem_nil_iff, or_false] at hl
    rcases hl with rfl | (hl | hl) | rfl
    · exact g1
    · exact (hhl l hl).1
    · exact (hbody l hl).1
    · exact g2
  have hmid : ∀ l ∈ hdrLs ++ splitNl body, footerLine rfcEnd l = false := by
    intro l hl
    apply footerLine_false_of_head _ _ 45 g3
    simp only [List.mem_append] at hl
    rcases hl with hl | hl
    · exact (hhl l hl).2
    · exact (hbody l hl).2
  have hsplit : splitNl (List.replicate n nl ++ text ++ r) = List.replicate n [] ++
      (rfcBegin :: ((hdrLs ++ splitNl body) ++ rfcEnd :: splitNl r)) := by
    rw [List.append_assoc, splitNl_replicate_nl, htext, splitNl_unlines _ _ hlines]
    simp [List.append_assoc]
  have hparse := parseRfc4716_block _ hw blob body c hb hnl
  have hlen : text.length = rfcBegin.length + 1 + linesLen (hdrLs ++ splitNl body) + rfcEnd.length + 1 := by
    rw [htext]
    simp only [linesLen, List.cons_append, unlines_length_cons, List.append_assoc, unlines_append]
    simp [unlines]; omega
  have hhead : (List.replicate n nl ++ text ++ r).head? ≠ some 0x30 := by
    cases n with
    | zero =>
      rw [htext]
      simp only [List.cons_append, unlines_cons]
      cases hrb : rfcBegin with
      | nil => rw [hrb] at g5; simp at g5
      | cons a as => rw [hrb] at g4; simp at g4; subst g4; simp
    | succ k => simp [List.replicate_succ, nl]
  unfold matchNext
  simp only [hhead, if_false]
  rw [hsplit, scanLines_blank _ _ _ _ _ (by simp) n 0, scanLines_rfc kt _ _ _ _ (splitNl r) (splitNl_ne_nil r) hmid]
  simp only [hdrLs] at hparse ⊢
  rw [hparse]
  simp only []
  congr 1
  have hpos : 0 < text.length := by rw [hlen]; omega
  have := footerStop_after n text.length r hr hpos
  simp only [List.length_append, List.length_replicate] at this ⊢
  rw [← this]
  congr 1
  simp only [hdrLs] at hlen
  omega

/-! ### OpenSSH public key lines -/

/-- every algorithm name of the generated tables is a non-empty word that starts with neither `-` nor `0` -/
theorem algTable_facts : ∀ a ∈ Gen.C15.publicKeyAlgs ++ Gen.C15.certificateAlgs,
    a ≠ [] ∧ a.head? ≠ some 45 ∧ a.head? ≠ some 0x30 ∧ a.all (fun c => !isSpace c) = true := by
  decide +kernel

theorem takeWhile_word (a : Bytes) (b : UInt8) (x : Bytes) (ha : ∀ c ∈ a, isSpace c = false) (hb : isSpace b = true) :
    (a ++ b :: x).takeWhile (!isSpace ·) = a ∧ (a ++ b :: x).dropWhile (!isSpace ·) = b :: x := by
  induction a with
  | nil => simp [List.takeWhile, List.dropWhile, hb]
  | cons c cs ih =>
    have hc := ha c (by simp)
    have := ih (fun d hd => ha d (by simp [hd]))
    simp [List.takeWhile, List.dropWhile, hc, this]

theorem takeWhile_all (a : Bytes) (ha : ∀ c ∈ a, isSpace c = false) :
    a.takeWhile (!isSpace ·) = a ∧ a.dropWhile (!isSpace ·) = [] := by
  induction a with
  | nil => simp
  | cons c cs ih =>
    have hc := ha c (by simp)
    have := ih (fun d hd => ha d (by simp [hd]))
    simp [List.takeWhile, List.dropWhile, hc, this]

theorem isSpace_32 : isSpace 32 = true := by decide

theorem b2a_nonspace (blob : Bytes) : ∀ c ∈ b2a blob, isSpace c = false := by
  intro c hc
  have h1 := b2a_no_skip blob c hc
  have h2 := isB64Text_facts (b2a_isB64Text blob c hc)
  rcases h2.2.2.2 with h | h
  · subst h; rw [nl_skip] at h1; cases h1
  · exact h

theorem b2a_ne_nil (blob : Bytes) (h : blob ≠ []) : b2a blob ≠ [] := by
  match blob, h with
  | [_], _ => simp [b2a]
  | [_, _], _ => simp [b2a]
  | _ :: _ :: _ :: _, _ => simp [b2a]

/-- the line without its newline -/
def publicLineBody (alg blob comment : Bytes) : Bytes :=
  alg ++ 32 :: (b2a blob ++ (if comment.isEmpty then [] else 32 :: comment))

structure LineOk (alg blob comment : Bytes) : Prop where
  alg_mem : alg ∈ Gen.C15.publicKeyAlgs ++ Gen.C15.certificateAlgs
  blob_ne : blob ≠ []
  no_nl : nl ∉ comment
  c_head : ∀ c, comment.head? = some c → isSpace c = false
  c_last : ∀ c, comment.getLast? = some c → isSpace c = false

theorem splitWs2_line (alg blob comment : Bytes) (h : LineOk alg blob comment) :
    splitWs2 (publicLineBody alg blob comment) =
      if comment = [] then [alg, b2a blob] else [alg, b2a blob, comment] := by
  obtain ⟨hne, h45, _, hall⟩ := algTable_facts alg h.alg_mem
  have halg : ∀ c ∈ alg, isSpace c = false := by
    intro c hc
    have := List.all_eq_true.mp hall c hc
    simpa using this
  have hb := b2a_nonspace blob
  have hbne := b2a_ne_nil blob h.blob_ne
  have hhead : ∀ c, (publicLineBody alg blob comment).head? = some c → isSpace c = false := by
    intro c hc
    unfold publicLineBody at hc
    cases alg with
    | nil => exact absurd rfl hne
    | cons a as => simp at hc; subst hc; exact halg _ (by simp)
  by_cases hc : comment = []
  · subst hc
    have hbody : publicLineBody alg blob [] = alg ++ 32 :: b2a blob := by simp [publicLineBody]
    rw [hbody] at hhead ⊢
    obtain ⟨t1, t2⟩ := takeWhile_word alg 32 (b2a blob) halg isSpace_32
    have hh : ∀ c, (b2a blob).head? = some c → isSpace c = false := fun c hc' => hb c (List.mem_of_mem_head? hc')
    obtain ⟨u1, u2⟩ := takeWhile_all (b2a blob) hb
    have e1 : (alg ++ 32 :: b2a blob).isEmpty = false := by cases alg <;> simp_all
    have e2 : (b2a blob).isEmpty = false := by cases hx : b2a blob <;> simp_all
    unfold splitWs2
    simp only [lstrip_of_head _ hhead, e1, takeWord, t1, t2, lstrip_space_cons, lstrip_of_head _ hh, e2, u1, u2,
      Bool.false_eq_true, if_false, if_true]
    simp [lstrip]
  · have hce : comment.isEmpty = false := by cases comment <;> simp_all
    have hbody : publicLineBody alg blob comment = alg ++ 32 :: (b2a blob ++ 32 :: comment) := by
      simp [publicLineBody, hce]
    rw [hbody] at hhead ⊢
    obtain ⟨t1, t2⟩ := takeWhile_word alg 32 (b2a blob ++ 32 :: comment) halg isSpace_32
    have hh : ∀ c, (b2a blob ++ 32 :: comment).head? = some c → isSpace c = false := by
      intro c hc'
      cases hx : b2a blob with
      | nil => exact absurd hx hbne
      | cons x xs => rw [hx] at hc'; simp at hc'; subst hc'; exact hb _ (by rw [hx]; simp)
    obtain ⟨u1, u2⟩ := takeWhile_word (b2a blob) 32 comment hb isSpace_32
    have e1 : (alg ++ 32 :: (b2a blob ++ 32 :: comment)).isEmpty = false := by cases alg <;> simp_all
    have e2 : (b2a blob ++ 32 :: comment).isEmpty = false := by cases hx : b2a blob <;> simp
    unfold splitWs2
    simp only [lstrip_of_head _ hhead, e1, takeWord, t1, t2, lstrip_space_cons, lstrip_of_head _ hh, e2, u1, u2,
      lstrip_of_head _ h.c_head, hce, hc, Bool.false_eq_true, if_false]

theorem parseOpenssh_line (alg blob comment : Bytes) (h : LineOk alg blob comment) :
    parseOpenssh (publicLineBody alg blob comment) =
      some (alg, if comment = [] then none else some comment, blob) := by
  have hmem : (Gen.C15.publicKeyAlgs.contains alg || Gen.C15.certificateAlgs.contains alg) = true := by
    have := h.alg_mem
    simp only [List.mem_append] at this
    simp only [Bool.or_eq_true, List.contains_iff_mem]
    exact this
  unfold parseOpenssh
  rw [splitWs2_line alg blob comment h]
  have ha : a2b (b2a blob) = some blob := a2bGo_b2a blob
  by_cases hc : comment = []
  · simp only [hc, if_true, hmem, ha, Option.map_some]
  · simp only [hc, if_false, hmem, if_true, ha, Option.map_some]

theorem rstrip_publicLineBody (alg blob comment : Bytes) (h : LineOk alg blob comment) :
    rstrip (publicLineBody alg blob comment) = publicLineBody alg blob comment := by
  apply rstrip_of_getLast
  intro c hc
  unfold publicLineBody at hc
  by_cases hcm : comment = []
  · subst hcm
    simp only [List.isEmpty_nil, if_true, List.append_nil] at hc
    rw [show alg ++ 32 :: b2a blob = (alg ++ [32]) ++ b2a blob by simp,
      getLast?_append_of_ne_nil _ _ (b2a_ne_nil blob h.blob_ne)] at hc
    exact b2a_nonspace blob c (List.mem_of_getLast? hc)
  · have hce : comment.isEmpty = false := by cases comment <;> simp_all
    simp only [hce, Bool.false_eq_true, if_false] at hc
    rw [show alg ++ 32 :: (b2a blob ++ 32 :: comment) = (alg ++ 32 :: (b2a blob ++ [32])) ++ comment by simp,
      getLast?_append_of_ne_nil _ _ hcm] at hc
    exact h.c_last c hc

theorem scanLines_line (kt : Bytes) (all : List Bytes) (total off : Nat) (alg blob comment : Bytes)
    (post : List Bytes) (hpost : post ≠ []) (h : LineOk alg blob comment) :
    scanLines kt true all total off (publicLineBody alg blob comment :: post) =
      .openssh alg (if comment = [] then none else some comment) blob
        (off + (publicLineBody alg blob comment).length + 1) := by
  obtain ⟨hne, h45, _, _⟩ := algTable_facts alg h.alg_mem
  obtain ⟨_, _, _, _, _, _, _, g4, _⟩ := rfcBegin_facts
  have hhd : (publicLineBody alg blob comment).head? = alg.head? := by
    unfold publicLineBody; cases alg <;> simp_all
  have c1 : beginPrefix.isPrefixOf (publicLineBody alg blob comment) = false := by
    rw [beginPrefix_eq]
    cases hb : publicLineBody alg blob comment with
    | nil => rfl
    | cons x xs =>
      rw [hb] at hhd
      have : x ≠ 45 := by intro e; subst e; exact h45 hhd.symm
      simp [List.isPrefixOf, Ne.symm this]
  have c2 : (publicLineBody alg blob comment == rfcBegin) = false := by
    simp only [beq_eq_false_iff_ne, ne_eq]
    intro e
    rw [e, g4] at hhd
    exact h45 hhd.symm
  have hpe : post.isEmpty = false := by cases post <;> simp_all
  rw [scanLines]
  simp only [rstrip_publicLineBody alg blob comment h, c1, c2, Bool.false_and, Bool.and_false,
    Bool.false_eq_true, if_false, if_true, parseOpenssh_line alg blob comment h, hpe]

theorem opensshPublicLine_eq (alg blob comment : Bytes) :
    opensshPublicLine alg blob comment = publicLineBody alg blob comment ++ [nl] := by
  simp [opensshPublicLine, publicLineBody, List.append_assoc]

theorem line_matchNext (kt : Bytes) (alg blob comment r : Bytes) (n : Nat) (h : LineOk alg blob comment) :
    matchNext kt true (List.replicate n nl ++ opensshPublicLine alg blob comment ++ r)
      = .openssh alg (if comment = [] then none else some comment) blob
          (n + (opensshPublicLine alg blob comment).length) := by
  obtain ⟨hne, h45, h30, hall⟩ := algTable_facts alg h.alg_mem
  have halg : ∀ c ∈ alg, isSpace c = false := by
    intro c hc
    have := List.all_eq_true.mp hall c hc
    simpa using this
  have hnlbody : nl ∉ publicLineBody alg blob comment := by
    unfold publicLineBody
    simp only [List.mem_append, List.mem_cons, not_or]
    refine ⟨?_, by decide, ?_, ?_⟩
    · intro hm; have := halg nl hm; revert this; decide
    · intro hm; have := b2a_nonspace blob nl hm; revert this; decide
    · split
      · simp
      · simp only [List.mem_cons, not_or]; exact ⟨by decide, h.no_nl⟩
  have hsplit : splitNl (List.replicate n nl ++ opensshPublicLine alg blob comment ++ r)
      = List.replicate n [] ++ (publicLineBody alg blob comment :: splitNl r) := by
    rw [List.append_assoc, splitNl_replicate_nl, opensshPublicLine_eq, List.append_assoc]
    simp only [List.singleton_append]
    rw [splitNl_append_nl _ _ hnlbody]
  have hhead : (List.replicate n nl ++ opensshPublicLine alg blob comment ++ r).head? ≠ some 0x30 := by
    cases n with
    | zero =>
      rw [opensshPublicLine_eq]
      unfold publicLineBody
      cases alg with
      | nil => exact absurd rfl hne
      | cons a as => simp at h30 ⊢; exact h30
    | succ k => simp [List.replicate_succ, nl]
  unfold matchNext
  simp only [hhead, if_false]
  rw [hsplit, scanLines_blank _ _ _ _ _ (by simp) n 0,
    scanLines_line kt _ _ _ alg blob comment (splitNl r) (splitNl_ne_nil r) h]
  congr 1
  rw [opensshPublicLine_eq]; simp; omega

/-! ### the exporter's refusal of comments with a newline -/

theorem exportRfc4716?_of_noNl (blob c : Bytes) (h : nl ∉ c) : exportRfc4716? blob c = rfc4716Block blob c := by
  simp [exportRfc4716?, h]

theorem exportPublicLine?_of_noNl (alg blob c : Bytes) (h : nl ∉ c) :
    exportPublicLine? alg blob c = some (opensshPublicLine alg blob c) := by
  simp [exportPublicLine?, h]

/-- the tree under check refuses such comments (re-proved against the regenerated flag) -/
theorem export_refuses_newline (alg blob c : Bytes) (h : nl ∈ c) :
    exportPublicLine? alg blob c = none ∧ exportRfc4716? blob c = none := by
  have hf : Gen.C15.exportRefusesNewlineComment = true := rfl
  simp [exportPublicLine?, exportRfc4716?, hf, h]

theorem noNl_of_exportRfc4716? {blob c t : Bytes} (h : exportRfc4716? blob c = some t) : nl ∉ c := by
  intro hm
  rw [(export_refuses_newline [] blob c hm).2] at h
  cases h

theorem noNl_of_exportPublicLine? {alg blob c t : Bytes} (h : exportPublicLine? alg blob c = some t) : nl ∉ c := by
  intro hm
  rw [(export_refuses_newline alg blob c hm).1] at h
  cases h

/-! ### files holding several exported keys -/

inductive FileItem where
  | pem (it : PemItem)
  | rfc (blob c : Bytes)
  | line (alg blob c : Bytes)

def FileItem.text? (kt : Bytes) : FileItem → Option Bytes
  | .pem it => it.text? kt
  | .rfc blob c => exportRfc4716? blob c
  | .line alg blob c => exportPublicLine? alg blob c

def FileItem.Ok (kt : Bytes) (pub : Bool) : FileItem → Prop
  | .pem it => it.Ok kt
  | .rfc _ c => pub = true ∧ nl ∉ c
  | .line alg blob c => pub = true ∧ LineOk alg blob c

/-- forget the byte offset at which an item ended -/
def Found.forget : Found → Found
  | .der v _ => .der v 0
  | .pem n h p _ => .pem n h p 0
  | .rfc4716 c p _ => .rfc4716 c p 0
  | .openssh a c p _ => .openssh a c p 0
  | .nothing _ => .nothing 0
  | f => f

/-- what the importer must extract for an item -/
def FileItem.found : FileItem → Found
  | .pem it => .pem it.name it.pairs it.data 0
  | .rfc blob c => .rfc4716 (if c = [] then none else some c) blob 0
  | .line alg blob c => .openssh alg (if c = [] then none else some c) blob 0

/-- the exported texts one after the other, as `append_private_key` / `append_public_key` write them -/
def fileText? (kt : Bytes) : List FileItem → Option Bytes
  | [] => some []
  | it :: rest => do
    let t ← it.text? kt
    let r ← fileText? kt rest
    pure (t ++ r)

theorem wrapBase64_shape {d bt hdr : Bytes} {sp : Bool} {w : Nat} {t : Bytes}
    (h : wrapBase64 d bt hdr sp w = some t) : ∃ t', t = 45 :: (t' ++ [nl]) := by
  unfold wrapBase64 at h
  cases hb : wrapJoin? w (b2a d) with
  | none => simp [hb] at h
  | some body =>
    simp only [hb, Option.map_some, Option.some.injEq] at h
    rw [dashes4_eq] at h
    subst h
    exact ⟨[45, 45, 45] ++ [if sp = true then 32 else 45] ++ sBegin ++ bt ++ [if sp = true then 32 else 45] ++
      [45, 45, 45, 45] ++ [nl] ++ hdr ++ body ++ [nl] ++ [45, 45, 45, 45] ++ [if sp = true then 32 else 45] ++
      sEnd ++ bt ++ [if sp = true then 32 else 45] ++ [45, 45, 45, 45], by simp [List.append_assoc]⟩

theorem FileItem.text_shape (kt : Bytes) (pub : Bool) (it : FileItem) (t : Bytes) (hok : it.Ok kt pub)
    (h : it.text? kt = some t) : ∃ c t', t = c :: (t' ++ [nl]) ∧ isSpace c = false := by
  cases it with
  | pem p =>
    obtain ⟨t', ht⟩ := wrapBase64_shape (by simpa [FileItem.text?, PemItem.text?] using h)
    exact ⟨45, t', ht, isSpace_dash⟩
  | rfc blob c =>
    obtain ⟨_, hnl⟩ := hok
    simp only [FileItem.text?, exportRfc4716?_of_noNl blob c hnl] at h
    obtain ⟨t', ht⟩ := wrapBase64_shape (by simpa [rfc4716Block] using h)
    exact ⟨45, t', ht, isSpace_dash⟩
  | line alg blob c =>
    obtain ⟨_, hl⟩ := hok
    simp only [FileItem.text?, exportPublicLine?_of_noNl alg blob c hl.no_nl, Option.some.injEq] at h
    have hok : True ∧ LineOk alg blob c := ⟨trivial, hl⟩
    obtain ⟨_, hl⟩ := hok
    obtain ⟨hne, _, _, hall⟩ := algTable_facts alg hl.alg_mem
    cases alg with
    | nil => exact absurd rfl hne
    | cons a as =>
      refine ⟨a, as ++ 32 :: (b2a blob ++ (if c.isEmpty then [] else 32 :: c)), ?_, ?_⟩
      · rw [← h]; simp [opensshPublicLine, List.append_assoc]
      · have := List.all_eq_true.mp hall a (by simp)
        simpa using this

theorem matchAll_succ (kt : Bytes) (pub : Bool) (fuel : Nat) (data : Bytes) (h : data ≠ []) :
    matchAll kt pub (fuel + 1) data =
      match matchNext kt pub data with
      | .der v stop => .der v stop :: matchAll kt pub fuel (data.drop stop)
      | .pem a b c stop => .pem a b c stop :: matchAll kt pub fuel (data.drop stop)
      | .rfc4716 a b stop => .rfc4716 a b stop :: matchAll kt pub fuel (data.drop stop)
      | .openssh a b c stop => .openssh a b c stop :: matchAll kt pub fuel (data.drop stop)
      | .nothing _ => []
      | f => [f] := by
  cases data with
  | nil => exact absurd rfl h
  | cons b bs =>
    rw [matchAll]
    · cases matchNext kt pub (b :: bs) <;> rfl
    · simp

theorem matchAll_nil (kt : Bytes) (pub : Bool) (fuel : Nat) : matchAll kt pub fuel [] = [] := by
  cases fuel <;> simp [matchAll]

theorem drop_after_block (n : Nat) (c : UInt8) (t' r : Bytes) :
    (List.replicate n nl ++ (c :: (t' ++ [nl])) ++ r).drop (n + stopAfter (c :: (t' ++ [nl])).length r)
      = if r = [] then [] else nl :: r := by
  unfold stopAfter
  split
  · rename_i hr; subst hr
    rw [List.append_nil, List.drop_eq_nil_iff]; simp
  · have e : List.replicate n nl ++ (c :: (t' ++ [nl])) ++ r = (List.replicate n nl ++ (c :: t')) ++ (nl :: r) := by
      simp [List.append_assoc]
    rw [e, List.drop_left']
    simp

/-- **Multi-key files**: a file made of exported blocks (PEM blocks with any headers and wrap width, RFC 4716
    blocks, OpenSSH public key lines), optionally preceded by blank lines, is split by the import loop into
    exactly those items, in order, with the same names, headers, comments and payload bytes. -/
theorem matchAll_file (kt : Bytes) (pub : Bool) : ∀ (items : List FileItem) (data : Bytes) (n fuel : Nat),
    items ≠ [] → fileText? kt items = some data → (∀ it ∈ items, it.Ok kt pub) → items.length ≤ fuel →
    (matchAll kt pub fuel (List.replicate n nl ++ data)).map Found.forget = items.map FileItem.found
  | [], _, _, _, h, _, _, _ => absurd rfl h
  | it :: rest, data, n, fuel, _, ht, hok, hf => by
    obtain ⟨f, rfl⟩ : ∃ f, fuel = f + 1 := ⟨fuel - 1, by simp at hf; omega⟩
    simp only [fileText?] at ht
    cases h1 : it.text? kt with
    | none => simp [h1] at ht
    | some t =>
      cases h2 : fileText? kt rest with
      | none => simp [h1, h2] at ht
      | some dr =>
        simp [h1, h2] at ht
        subst ht
        obtain ⟨c, t', rfl, hc⟩ := FileItem.text_shape kt pub it t (hok it (by simp)) h1
        -- what follows is empty or starts visibly
        have hvis : VisibleOrEmpty dr ∧ (rest = [] → dr = []) ∧ (dr = [] → rest = []) := by
          cases rest with
          | nil => simp [fileText?] at h2; subst h2; exact ⟨Or.inl rfl, fun _ => rfl, fun _ => rfl⟩
          | cons it2 rest2 =>
            simp only [fileText?] at h2
            cases h3 : it2.text? kt with
            | none => simp [h3] at h2
            | some t2 =>
              cases h4 : fileText? kt rest2 with
              | none => simp [h3, h4] at h2
              | some d2 =>
                simp [h3, h4] at h2
                obtain ⟨c2, t2', rfl, hc2⟩ := FileItem.text_shape kt pub it2 t2 (hok it2 (by simp)) h3
                subst h2
                exact ⟨Or.inr ⟨c2, _, rfl, hc2⟩, fun h => by simp at h, fun h => by simp at h⟩
        have hne : List.replicate n nl ++ (c :: (t' ++ [nl]) ++ dr) ≠ [] := by simp
        have ihrest : ∀ m, dr ≠ [] →
            (matchAll kt pub f (List.replicate m nl ++ dr)).map Found.forget = rest.map FileItem.found := by
          intro m hdr
          have hrne : rest ≠ [] := fun e => hdr (hvis.2.1 e)
          exact matchAll_file kt pub rest dr m f hrne h2 (fun x hx => hok x (by simp [hx]))
            (by simp at hf; omega)
        rw [matchAll_succ _ _ _ _ hne, ← List.append_assoc]
        cases it with
        | pem p =>
          rw [pem_matchNext kt pub p _ dr n (hok (.pem p) (by simp)) h1 hvis.1]
          simp only [List.map_cons, Found.forget, FileItem.found]
          rw [drop_after_block]
          congr 1
          split
          · rename_i hdr
            rw [matchAll_nil, hvis.2.2 hdr]; rfl
          · rename_i hdr
            exact ihrest 1 hdr
        | rfc blob cm =>
          obtain ⟨hp, hnl⟩ := hok (.rfc blob cm) (by simp)
          subst hp
          simp only [FileItem.text?, exportRfc4716?_of_noNl blob cm hnl] at h1
          rw [rfc_matchNext kt blob cm _ dr n hnl h1 hvis.1]
          simp only [List.map_cons, Found.forget, FileItem.found]
          rw [drop_after_block]
          congr 1
          split
          · rename_i hdr
            rw [matchAll_nil, hvis.2.2 hdr]; rfl
          · rename_i hdr
            exact ihrest 1 hdr
        | line alg blob cm =>
          obtain ⟨hp, hl⟩ := hok (.line alg blob cm) (by simp)
          subst hp
          simp only [FileItem.text?, exportPublicLine?_of_noNl alg blob cm hl.no_nl, Option.some.injEq] at h1
          rw [← h1, line_matchNext kt alg blob cm dr n hl]
          simp only [List.map_cons, Found.forget, FileItem.found]
          congr 1
          have : (List.replicate n nl ++ opensshPublicLine alg blob cm ++ dr).drop
              (n + (opensshPublicLine alg blob cm).length) = dr := by
            rw [List.drop_left']; simp
          rw [this]
          by_cases hdr : dr = []
          · rw [hdr, matchAll_nil, hvis.2.2 hdr]; rfl
          · simpa using ihrest 0 hdr

end AsyncsshModel.KeyFmt
