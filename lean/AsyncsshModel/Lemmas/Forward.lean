import AsyncsshModel.Model.Forward
/-
  Helper lemmas for the relay machine of `Model/Forward.lean` (property C20):
  reachability under legal events, the control-state invariant `Shape`, and the history invariant `Hist`
  relating the events that arrived to the calls the relay made on its two transports.
-/
namespace AsyncsshModel.Forward
open AsyncsshModel
set_option linter.unusedSimpArgs false
set_option linter.unusedVariables false

/-- states, histories and outputs reachable from a freshly accepted connection by legal events -/
inductive Reach (v : Variant) : Relay → List Ev → List Out → Prop
  | init : Reach v initListener [] []
  | step {r evs outs} (e : Ev) : Reach v r evs outs → legal r e = true →
      Reach v (step v r e).1 (evs ++ [e]) (outs ++ (step v r e).2)

theorem reach_run_aux (v : Variant) (evs : List Ev) : ∀ (r : Relay) (evs0 : List Ev) (outs0 : List Out),
    Reach v r evs0 outs0 → legalRun v r evs = true →
    Reach v (run v r evs).1 (evs0 ++ evs) (outs0 ++ (run v r evs).2) := by
  induction evs with
  | nil => intro r evs0 outs0 h _; simpa [run] using h
  | cons e es ih =>
    intro r evs0 outs0 h hl
    simp only [legalRun, Bool.and_eq_true] at hl
    have h1 := Reach.step e h hl.1
    have h2 := ih _ _ _ h1 hl.2
    simp only [run]
    simpa [List.append_assoc] using h2

/-- every legal run from the initial state is a reachable triple -/
theorem reach_run (v : Variant) (evs : List Ev) (hl : legalRun v initListener evs = true) :
    Reach v (run v initListener evs).1 evs (run v initListener evs).2 := by
  simpa using reach_run_aux v evs initListener [] [] Reach.init hl

/-- the control-state invariant of a relay -/
structure Shape (v : Variant) (r : Relay) : Prop where
  peers : r.s.peer = r.c.peer
  ctr : r.c.tr = r.c.peer
  notLinked : r.phase ≠ .linked → r.c.peer = false ∧ r.early = false ∧ r.c.eof = false ∧ r.c.gone = false
  str : r.phase = .linked → r.early = false → r.s.tr = r.s.peer
  earlyTr : r.early = true → r.s.tr = false
  cbuf : r.c.buf = []
  sbuf : r.phase = .linked → (r.early = false ∨ v.fixEarly = false) → r.s.buf = []
  failedTr : r.phase = .failed → r.s.tr = false
  fixedEarly : v.fixEarly = true → r.early = true → r.c.peer = false
  openPeer : r.phase ≠ .linked → r.s.peer = false

theorem shape_init (v : Variant) : Shape v initListener := by
  constructor <;> simp [initListener]

theorem shape_step (v : Variant) (r : Relay) (e : Ev) (h : Shape v r) (hl : legal r e = true) :
    Shape v (step v r e).1 := by
  obtain ⟨⟨st, sp, sb, se, sg⟩, ⟨ct, cp, cb, ce, cg⟩, ph, ea⟩ := r
  obtain ⟨h1, h2, h3, h4, h5, h6, h7, h8, h9, h10⟩ := h
  simp only at h1 h2 h3 h4 h5 h6 h7 h8 h9 h10
  cases e with
  | data x d =>
    cases x <;> cases ph <;> simp only [step, legal, Relay.get, Relay.set, Relay.has, Side.other] at hl ⊢ <;>
      constructor <;> grind
  | eof x =>
    cases x <;> cases ph <;> rcases v with ⟨_ | _, _ | _⟩ <;>
      simp only [step, legal, closeFwd, Relay.get, Relay.set, Relay.has, Side.other] at hl ⊢ <;>
      constructor <;> grind
  | lost x =>
    cases x <;> cases ph <;>
      simp only [step, legal, closeFwd, Relay.get, Relay.set, Relay.has, Side.other] at hl ⊢ <;>
      constructor <;> grind
  | pauseW x =>
    cases x <;> cases ph <;>
      simp only [step, legal, closeFwd, Relay.get, Relay.set, Relay.has, Side.other] at hl ⊢ <;>
      constructor <;> grind
  | resumeW x =>
    cases x <;> cases ph <;>
      simp only [step, legal, closeFwd, Relay.get, Relay.set, Relay.has, Side.other] at hl ⊢ <;>
      constructor <;> grind
  | confirm =>
    cases ph <;> rcases v with ⟨_ | _, _ | _⟩ <;>
      simp only [step, legal, closeFwd, Relay.get, Relay.set, Relay.has, Side.other] at hl ⊢ <;>
      constructor <;> grind
  | fail =>
    cases ph <;>
      simp only [step, legal, closeFwd, Relay.get, Relay.set, Relay.has, Side.other] at hl ⊢ <;>
      constructor <;> grind

theorem reach_shape {v r evs outs} (h : Reach v r evs outs) : Shape v r := by
  induction h with
  | init => exact shape_init v
  | step e _ hl ih => exact shape_step v _ e ih hl

/-! ### observers and append -/

@[simp] theorem sent_nil (x : Side) : sent x [] = [] := rfl
theorem sent_append (x : Side) (a b : List Out) : sent x (a ++ b) = sent x a ++ sent x b := by
  induction a with
  | nil => simp
  | cons o r ih => cases o <;> simp [sent, ih] <;> split <;> simp
theorem recvd_append (x : Side) (a b : List Ev) : recvd x (a ++ b) = recvd x a ++ recvd x b := by
  induction a with
  | nil => simp [recvd]
  | cons o r ih => cases o <;> simp [recvd, ih] <;> split <;> simp

/-- bytes carried by one event from side x -/
def dataOf (x : Side) : Ev → Bytes
  | .data y d => if y = x then d else []
  | _ => []

theorem recvd_single (x : Side) (e : Ev) : recvd x [e] = dataOf x e := by
  cases e <;> simp [recvd, dataOf]

theorem eofOut_append (x : Side) (a b : List Out) : eofOut x (a ++ b) = (eofOut x a || eofOut x b) := by
  simp [eofOut]
theorem closeOut_append (x : Side) (a b : List Out) : closeOut x (a ++ b) = (closeOut x a || closeOut x b) := by
  simp [closeOut]
theorem eofIn_append (x : Side) (a b : List Ev) : eofIn x (a ++ b) = (eofIn x a || eofIn x b) := by
  simp [eofIn]
theorem lostIn_append (x : Side) (a b : List Ev) : lostIn x (a ++ b) = (lostIn x a || lostIn x b) := by
  simp [lostIn]

/-- the finishing tactic of the per-step case analyses -/
macro "relay_finish" : tactic => `(tactic|
  ((try simp_all [sent, eofOut, closeOut, eofIn, lostIn]) <;> (repeat' split) <;>
   (try simp_all [sent, eofOut, closeOut, eofIn, lostIn])))

/-! ### one step -/

/-- socket-to-channel direction: what is written to the channel plus what stays buffered is what was
    buffered plus what arrived -/
theorem step_s2c (v : Variant) (r : Relay) (e : Ev) (h : Shape v r) (hl : legal r e = true) :
    sent .chan (step v r e).2 ++ (step v r e).1.s.buf = r.s.buf ++ dataOf .sock e := by
  obtain ⟨⟨st, sp, sb, se, sg⟩, ⟨ct, cp, cb, ce, cg⟩, ph, ea⟩ := r
  obtain ⟨h1, h2, h3, h4, h5, h6, h7, h8, h9, h10⟩ := h
  simp only at h1 h2 h3 h4 h5 h6 h7 h8 h9 h10
  cases e with
  | data x d =>
    cases x <;> cases ph <;>
      simp only [step, legal, dataOf, Relay.get, Relay.set, Relay.has, Side.other] at hl ⊢ <;>
      relay_finish <;> (try (cases st <;> simp_all [sent]))
  | eof x =>
    cases x <;> cases ph <;> rcases v with ⟨_ | _, _ | _⟩ <;>
      simp only [step, legal, dataOf, closeFwd, Relay.get, Relay.set, Relay.has, Side.other] at hl ⊢ <;>
      relay_finish <;> (try (cases st <;> simp_all [sent]))
  | lost x =>
    cases x <;> cases ph <;>
      simp only [step, legal, dataOf, closeFwd, Relay.get, Relay.set, Relay.has, Side.other] at hl ⊢ <;>
      relay_finish <;> (try (cases st <;> simp_all [sent]))
  | pauseW x =>
    cases x <;> cases ph <;>
      simp only [step, legal, dataOf, closeFwd, Relay.get, Relay.set, Relay.has, Side.other] at hl ⊢ <;>
      relay_finish <;> (try (cases st <;> simp_all [sent]))
  | resumeW x =>
    cases x <;> cases ph <;>
      simp only [step, legal, dataOf, closeFwd, Relay.get, Relay.set, Relay.has, Side.other] at hl ⊢ <;>
      relay_finish <;> (try (cases st <;> simp_all [sent]))
  | confirm =>
    cases ph <;> rcases v with ⟨_ | _, _ | _⟩ <;>
      simp only [step, legal, dataOf, closeFwd, Relay.get, Relay.set, Relay.has, Side.other] at hl ⊢ <;>
      relay_finish <;> (try (cases st <;> simp_all [sent]))
  | fail =>
    cases ph <;>
      simp only [step, legal, dataOf, closeFwd, Relay.get, Relay.set, Relay.has, Side.other] at hl ⊢ <;>
      relay_finish <;> (try (cases st <;> simp_all [sent]))

/-- channel-to-socket direction, as long as the socket side was not lost before the channel was confirmed -/
theorem step_c2s (v : Variant) (r : Relay) (e : Ev) (h : Shape v r) (hl : legal r e = true)
    (he : (step v r e).1.early = false) :
    sent .sock (step v r e).2 = dataOf .chan e := by
  obtain ⟨⟨st, sp, sb, se, sg⟩, ⟨ct, cp, cb, ce, cg⟩, ph, ea⟩ := r
  obtain ⟨h1, h2, h3, h4, h5, h6, h7, h8, h9, h10⟩ := h
  simp only at h1 h2 h3 h4 h5 h6 h7 h8 h9 h10
  cases e with
  | data x d =>
    cases x <;> cases ph <;>
      simp only [step, legal, dataOf, Relay.get, Relay.set, Relay.has, Side.other] at hl he ⊢ <;>
      relay_finish <;> (try (cases st <;> simp_all [sent]))
  | eof x =>
    cases x <;> cases ph <;> rcases v with ⟨_ | _, _ | _⟩ <;>
      simp only [step, legal, dataOf, closeFwd, Relay.get, Relay.set, Relay.has, Side.other] at hl he ⊢ <;>
      relay_finish <;> (try (cases st <;> simp_all [sent]))
  | lost x =>
    cases x <;> cases ph <;>
      simp only [step, legal, dataOf, closeFwd, Relay.get, Relay.set, Relay.has, Side.other] at hl he ⊢ <;>
      relay_finish <;> (try (cases st <;> simp_all [sent]))
  | pauseW x =>
    cases x <;> cases ph <;>
      simp only [step, legal, dataOf, closeFwd, Relay.get, Relay.set, Relay.has, Side.other] at hl he ⊢ <;>
      relay_finish <;> (try (cases st <;> simp_all [sent]))
  | resumeW x =>
    cases x <;> cases ph <;>
      simp only [step, legal, dataOf, closeFwd, Relay.get, Relay.set, Relay.has, Side.other] at hl he ⊢ <;>
      relay_finish <;> (try (cases st <;> simp_all [sent]))
  | confirm =>
    cases ph <;> rcases v with ⟨_ | _, _ | _⟩ <;>
      simp only [step, legal, dataOf, closeFwd, Relay.get, Relay.set, Relay.has, Side.other] at hl he ⊢ <;>
      relay_finish <;> (try (cases st <;> simp_all [sent]))
  | fail =>
    cases ph <;>
      simp only [step, legal, dataOf, closeFwd, Relay.get, Relay.set, Relay.has, Side.other] at hl he ⊢ <;>
      relay_finish <;> (try (cases st <;> simp_all [sent]))

/-- `early` is set once, at confirmation, and never cleared -/
theorem step_early_mono (v : Variant) (r : Relay) (e : Ev) (h : Shape v r) (he : r.early = true) :
    (step v r e).1.early = true := by
  obtain ⟨⟨st, sp, sb, se, sg⟩, ⟨ct, cp, cb, ce, cg⟩, ph, ea⟩ := r
  have h3 := h.notLinked
  simp only at he h3
  subst he
  cases e with
  | data x d => cases x <;> cases ph <;> simp only [step, Relay.get, Relay.set, Relay.has, Side.other] <;> grind
  | eof x =>
    cases x <;> cases ph <;> rcases v with ⟨_ | _, _ | _⟩ <;>
      simp only [step, closeFwd, Relay.get, Relay.set, Relay.has, Side.other] <;> grind
  | lost x =>
    cases x <;> cases ph <;> simp only [step, closeFwd, Relay.get, Relay.set, Relay.has, Side.other] <;> grind
  | pauseW x => cases x <;> cases ph <;> simp only [step, Relay.get, Relay.set, Relay.has, Side.other] <;> grind
  | resumeW x => cases x <;> cases ph <;> simp only [step, Relay.get, Relay.set, Relay.has, Side.other] <;> grind
  | confirm =>
    cases ph <;> rcases v with ⟨_ | _, _ | _⟩ <;> simp only [step, closeFwd, Relay.get, Relay.set, Relay.has, Side.other] <;> grind
  | fail => cases ph <;> simp only [step, closeFwd, Relay.get, Relay.set, Relay.has, Side.other] <;> grind

/-- case analysis over event kind, side, phase and variant followed by `grind` -/
macro "relay_bash" e:ident ph:ident v:ident : tactic => `(tactic| (
  cases $e:ident with
  | data x d =>
    cases x <;> cases $ph:ident <;>
      simp only [step, legal, dataOf, closeFwd, Relay.get, Relay.set, Relay.has, Side.other,
        eofOut, closeOut, eofIn, lostIn] at * <;> grind
  | eof x =>
    cases x <;> cases $ph:ident <;> rcases $v:ident with ⟨_ | _, _ | _⟩ <;>
      simp only [step, legal, dataOf, closeFwd, Relay.get, Relay.set, Relay.has, Side.other,
        eofOut, closeOut, eofIn, lostIn] at * <;> grind
  | lost x =>
    cases x <;> cases $ph:ident <;>
      simp only [step, legal, dataOf, closeFwd, Relay.get, Relay.set, Relay.has, Side.other,
        eofOut, closeOut, eofIn, lostIn] at * <;> grind
  | pauseW x =>
    cases x <;> cases $ph:ident <;>
      simp only [step, legal, dataOf, closeFwd, Relay.get, Relay.set, Relay.has, Side.other,
        eofOut, closeOut, eofIn, lostIn] at * <;> grind
  | resumeW x =>
    cases x <;> cases $ph:ident <;>
      simp only [step, legal, dataOf, closeFwd, Relay.get, Relay.set, Relay.has, Side.other,
        eofOut, closeOut, eofIn, lostIn] at * <;> grind
  | confirm =>
    cases $ph:ident <;> rcases $v:ident with ⟨_ | _, _ | _⟩ <;>
      simp only [step, legal, dataOf, closeFwd, Relay.get, Relay.set, Relay.has, Side.other,
        eofOut, closeOut, eofIn, lostIn] at * <;> grind
  | fail =>
    cases $ph:ident <;>
      simp only [step, legal, dataOf, closeFwd, Relay.get, Relay.set, Relay.has, Side.other,
        eofOut, closeOut, eofIn, lostIn] at * <;> grind))

/-! what one legal step does to the flags -/

theorem step_flag_eofS (v : Variant) (r : Relay) (e : Ev) (h : Shape v r) (hl : legal r e = true) :
    (step v r e).1.s.eof = (r.s.eof || e == .eof .sock) := by
  obtain ⟨⟨st, sp, sb, se, sg⟩, ⟨ct, cp, cb, ce, cg⟩, ph, ea⟩ := r
  obtain ⟨h1, h2, h3, h4, h5, h6, h7, h8, h9, h10⟩ := h
  simp only at h1 h2 h3 h4 h5 h6 h7 h8 h9 h10
  relay_bash e ph v

theorem step_flag_eofC (v : Variant) (r : Relay) (e : Ev) (h : Shape v r) (hl : legal r e = true) :
    (step v r e).1.c.eof = (r.c.eof || e == .eof .chan) := by
  obtain ⟨⟨st, sp, sb, se, sg⟩, ⟨ct, cp, cb, ce, cg⟩, ph, ea⟩ := r
  obtain ⟨h1, h2, h3, h4, h5, h6, h7, h8, h9, h10⟩ := h
  simp only at h1 h2 h3 h4 h5 h6 h7 h8 h9 h10
  relay_bash e ph v

theorem step_flag_goneS (v : Variant) (r : Relay) (e : Ev) (h : Shape v r) (hl : legal r e = true) :
    (step v r e).1.s.gone = (r.s.gone || e == .lost .sock) := by
  obtain ⟨⟨st, sp, sb, se, sg⟩, ⟨ct, cp, cb, ce, cg⟩, ph, ea⟩ := r
  obtain ⟨h1, h2, h3, h4, h5, h6, h7, h8, h9, h10⟩ := h
  simp only at h1 h2 h3 h4 h5 h6 h7 h8 h9 h10
  relay_bash e ph v

theorem step_flag_goneC (v : Variant) (r : Relay) (e : Ev) (h : Shape v r) (hl : legal r e = true) :
    (step v r e).1.c.gone = (r.c.gone || e == .lost .chan) := by
  obtain ⟨⟨st, sp, sb, se, sg⟩, ⟨ct, cp, cb, ce, cg⟩, ph, ea⟩ := r
  obtain ⟨h1, h2, h3, h4, h5, h6, h7, h8, h9, h10⟩ := h
  simp only at h1 h2 h3 h4 h5 h6 h7 h8 h9 h10
  relay_bash e ph v

theorem step_flag_linked (v : Variant) (r : Relay) (e : Ev) (h : Shape v r) (hl : legal r e = true) :
    ((step v r e).1.phase == .linked) = (r.phase == .linked || e == .confirm) := by
  obtain ⟨⟨st, sp, sb, se, sg⟩, ⟨ct, cp, cb, ce, cg⟩, ph, ea⟩ := r
  obtain ⟨h1, h2, h3, h4, h5, h6, h7, h8, h9, h10⟩ := h
  simp only at h1 h2 h3 h4 h5 h6 h7 h8 h9 h10
  relay_bash e ph v

theorem step_flag_failed (v : Variant) (r : Relay) (e : Ev) (h : Shape v r) (hl : legal r e = true) :
    ((step v r e).1.phase == .failed) = (r.phase == .failed || e == .fail) := by
  obtain ⟨⟨st, sp, sb, se, sg⟩, ⟨ct, cp, cb, ce, cg⟩, ph, ea⟩ := r
  obtain ⟨h1, h2, h3, h4, h5, h6, h7, h8, h9, h10⟩ := h
  simp only at h1 h2 h3 h4 h5 h6 h7 h8 h9 h10
  relay_bash e ph v

structure StepFacts (v : Variant) (r : Relay) (e : Ev) : Prop where
  eofS : (step v r e).1.s.eof = (r.s.eof || e == .eof .sock)
  eofC : (step v r e).1.c.eof = (r.c.eof || e == .eof .chan)
  goneS : (step v r e).1.s.gone = (r.s.gone || e == .lost .sock)
  goneC : (step v r e).1.c.gone = (r.c.gone || e == .lost .chan)
  linked : ((step v r e).1.phase == .linked) = (r.phase == .linked || e == .confirm)
  failed : ((step v r e).1.phase == .failed) = (r.phase == .failed || e == .fail)

theorem step_facts (v : Variant) (r : Relay) (e : Ev) (h : Shape v r) (hl : legal r e = true) :
    StepFacts v r e :=
  ⟨step_flag_eofS v r e h hl, step_flag_eofC v r e h hl, step_flag_goneS v r e h hl, step_flag_goneC v r e h hl,
   step_flag_linked v r e h hl, step_flag_failed v r e h hl⟩

end AsyncsshModel.Forward
