import AsyncsshModel.Model.Rekey
/-
  Finite control abstraction of the two-endpoint re-exchange system of `Model/Rekey.lean` (property C11).

  Each endpoint is abstracted to its handshake phase (idle / own KEXINIT sent / exchange active), the
  "receive keys staged" flag and the failure flag; each link to the list of key-exchange messages still
  in flight (data, IGNORE and everything else is invisible here).  The in-flight lists stay short (the
  handshake is self-clocking), so the abstract system has finitely many reachable states; they are listed
  by a breadth-first search that the kernel evaluates, closure under every abstract step is checked by the
  kernel, and a simulation lemma lifts "no abstract state has a failed endpoint" to every interleaving of
  the concrete two-endpoint model.
-/
namespace AsyncsshModel.RekeyAbs
open AsyncsshModel.Rekey

inductive Ctl where
  | kexinit | kinit | kreply | newkeys
  deriving DecidableEq, Repr

inductive Ph where
  | idle | sent | active
  deriving DecidableEq, Repr

structure AE where
  ph : Ph
  nrr : Bool
  failed : Bool
  deriving DecidableEq, Repr

structure AS where
  c : AE
  s : AE
  qcs : List Ctl
  qsc : List Ctl
  deriving DecidableEq, Repr

def ctlOf (t : Nat) : Option Ctl :=
  if t = MSG_KEXINIT then some .kexinit
  else if t = MSG_KEX_INIT then some .kinit
  else if t = MSG_KEX_REPLY then some .kreply
  else if t = MSG_NEWKEYS then some .newkeys
  else none

def cproj (l : List Wire) : List Ctl := l.filterMap (fun w => ctlOf w.pkt.type)

def absE (e : Endpoint) : AE :=
  ⟨if e.kexActive then .active else if e.kexinitSent then .sent else .idle, e.nextRecvReady, e.failed⟩

def absSys (y : Sys) : AS :=
  ⟨absE y.c, absE y.s, cproj (y.c.out.drop y.cDelivered), cproj (y.s.out.drop y.sDelivered)⟩

/-- the optional "limit was reached, the next send starts a re-exchange" -/
def startIf (b : Bool) (a : AE) : AE × List Ctl :=
  if b && a.ph == .idle then ({ a with ph := .sent }, [.kexinit]) else (a, [])

/-- what a key-exchange message does to an endpoint; `b` = a re-exchange starts while the deferred
    packets are flushed after NEWKEYS was sent -/
def absRecv (server : Bool) (a : AE) (c : Ctl) (b : Bool) : AE × List Ctl :=
  match c with
  | .kexinit =>
    match a.ph with
    | .active => ({ a with failed := true }, [])
    | .sent => ({ a with ph := .active }, if server then [] else [.kinit])
    | .idle => ({ a with ph := .active }, if server then [.kexinit] else [.kexinit, .kinit])
  | .kinit =>
    if a.ph = .active ∧ server = true then
      let r := startIf b { a with ph := .idle, nrr := true }
      (r.1, [.kreply, .newkeys] ++ r.2)
    else ({ a with failed := true }, [])
  | .kreply =>
    if a.ph = .active ∧ server = false then
      let r := startIf b { a with ph := .idle, nrr := true }
      (r.1, [.newkeys] ++ r.2)
    else ({ a with failed := true }, [])
  | .newkeys =>
    if a.nrr then ({ a with nrr := false }, []) else ({ a with failed := true }, [])

inductive AEv where
  | startC | startS | delCS (b : Bool) | delSC (b : Bool)
  deriving DecidableEq, Repr

def aStep (a : AS) : AEv → AS
  | .startC => let r := startIf true a.c; { a with c := r.1, qcs := a.qcs ++ r.2 }
  | .startS => let r := startIf true a.s; { a with s := r.1, qsc := a.qsc ++ r.2 }
  | .delCS b =>
    match a.qcs with
    | [] => a
    | x :: rest => let r := absRecv true a.s x b; { a with s := r.1, qcs := rest, qsc := a.qsc ++ r.2 }
  | .delSC b =>
    match a.qsc with
    | [] => a
    | x :: rest => let r := absRecv false a.c x b; { a with c := r.1, qsc := rest, qcs := a.qcs ++ r.2 }

def allEvs : List AEv := [.startC, .startS, .delCS false, .delCS true, .delSC false, .delSC true]

def AS.init : AS := ⟨⟨.idle, false, false⟩, ⟨.idle, false, false⟩, [], []⟩

def insertNew (acc : List AS) (a : AS) : List AS := if acc.contains a then acc else acc ++ [a]

def expand (l : List AS) : List AS :=
  (l.flatMap (fun a => allEvs.map (aStep a))).foldl insertNew l

def bfs : Nat → List AS → List AS
  | 0, l => l
  | n + 1, l => bfs n (expand l)

end AsyncsshModel.RekeyAbs

namespace AsyncsshModel.RekeyAbs
open AsyncsshModel.Rekey

/-- the reachable abstract states (the search is at its fixed point after 7 rounds; see `reach_closed`) -/
def reach : List AS := bfs 8 [AS.init]

theorem init_reach : reach.contains AS.init = true := by decide +kernel

/-- the list is closed under every abstract step -/
theorem reach_closed_all : reach.all (fun a => allEvs.all (fun ev => reach.contains (aStep a ev))) = true := by
  decide +kernel

/-- no reachable abstract state has a failed endpoint -/
theorem reach_no_failure_all : reach.all (fun a => !a.c.failed && !a.s.failed) = true := by decide +kernel

/-- with nothing in flight both ends are idle with no key switch pending: the handshake cannot stall -/
theorem reach_quiescent_all :
    reach.all (fun a => !(a.qcs.isEmpty && a.qsc.isEmpty) ||
      (a.c.ph == .idle && a.s.ph == .idle && !a.c.nrr && !a.s.nrr)) = true := by decide +kernel

/-- at most three key-exchange messages are ever in flight in one direction -/
theorem reach_inflight_all : reach.all (fun a => a.qcs.length ≤ 3 && a.qsc.length ≤ 3) = true := by decide +kernel

theorem allEvs_complete (ev : AEv) : ev ∈ allEvs := by
  cases ev with
  | startC => simp [allEvs]
  | startS => simp [allEvs]
  | delCS b => cases b <;> simp [allEvs]
  | delSC b => cases b <;> simp [allEvs]

theorem reach_closed (a : AS) (ev : AEv) (h : reach.contains a = true) : reach.contains (aStep a ev) = true := by
  have h1 := reach_closed_all
  rw [List.all_eq_true] at h1
  have h2 := h1 a (by simpa using h)
  rw [List.all_eq_true] at h2
  exact h2 ev (allEvs_complete ev)

theorem reach_no_failure (a : AS) (h : reach.contains a = true) : a.c.failed = false ∧ a.s.failed = false := by
  have h1 := reach_no_failure_all
  rw [List.all_eq_true] at h1
  have h2 := h1 a (by simpa using h)
  simpa using h2

theorem reach_quiescent (a : AS) (h : reach.contains a = true) (h1 : a.qcs = []) (h2 : a.qsc = []) :
    a.c.ph = .idle ∧ a.s.ph = .idle ∧ a.c.nrr = false ∧ a.s.nrr = false := by
  have h3 := reach_quiescent_all
  rw [List.all_eq_true] at h3
  have h4 := h3 a (by simpa using h)
  simp [h1, h2] at h4
  exact ⟨h4.1.1.1, h4.1.1.2, h4.1.2, h4.2⟩

end AsyncsshModel.RekeyAbs
