import AsyncsshModel.Model.ChannelVariants
import AsyncsshModel.Lemmas.ChannelStep
/-
  * the application's pause is honoured: while `_recv_paused` is set, nothing but the application's own
    `resume_reading()` (or the `_start_reading` task of a channel that is still starting) makes the endpoint call
    `data_received` or leave the paused state (`pause_honoured`) — the clause a second `shell` request broke before
    repair e7dbee0;
  * window accounting of a layer-3 tunnel channel: with the repaired `_accept_data` the receiver's idea of the
    peer's remaining window moves by exactly the packet length (`tun_accept_accounting`); before the repair it was
    4 bytes too high after every packet (`tun_accept_leak_preFix`).
-/
namespace AsyncsshModel.Channel
open AsyncsshModel

/-! ### the pause is honoured -/

theorem drainRecv_paused (c : Chan) (buf : Buf) (hp : c.recvPaused ≠ .no) : drainRecv c buf = (c, buf, [], []) := by
  cases buf with
  | nil => rfl
  | cons p rest =>
    obtain ⟨d, dt⟩ := p
    simp [drainRecv, hp]

/-- `_flush_recv_buf` while reading is paused: no data callback (an EOF or the close may still be reported when
    the buffer is empty), and reading stays paused -/
theorem flushRecv_paused {c c' : Chan} {ms : List Msg} {os : List Out} (hw : WFs c) (hp : c.recvPaused ≠ .no)
    (h : flushRecv c = some (c', ms, os)) : dataOuts os = [] ∧ c'.recvPaused = c.recvPaused := by
  unfold flushRecv at h
  rw [drainRecv_paused c c.recvBuf hp] at h
  simp only at h
  split at h
  · simp at h
  · rename_i c2 ms2 os2 hes
    simp only [Option.some.injEq, Prod.mk.injEq] at h
    obtain ⟨rfl, rfl, rfl⟩ := h
    have s2 := eofStep_spec { c with recvBuf := c.recvBuf } c2 ms2 os2 ⟨hw.1, hw.2⟩ hes
    have s3 := closeStep_spec c2 s2.eff.wfs
    have ho2 : dataOuts os2 = [] := by
      rcases s2.fired with ⟨h1, _⟩ | ⟨h1, _⟩ <;> rw [h1] <;> rfl
    have ho3 : dataOuts (closeStep c2).2 = [] := by
      rcases s3.fired with ⟨_, _, _, _, ⟨_, h1⟩ | ⟨_, h1⟩⟩ | ⟨h1, _⟩ <;> rw [h1] <;> rfl
    refine ⟨?_, ?_⟩
    · simp [dataOuts_append, ho2, ho3, dataOuts]
    · rw [s3.recvPaused, s2.recvPaused]

/-- **The pause is honoured.**  While reading is paused (`_recv_paused` is `True` or `'starting'`), no event other
    than the application's `resume_reading()` / the `_start_reading` task — no packet of any kind from the peer,
    no other application call — makes the endpoint call `data_received`, and (except for the application's own
    `close()`, which discards the buffer) reading stays paused. -/
theorem pause_honoured {c c' : Chan} {ev : Ev} {ms : List Msg} {os : List Out} (hw : WF c)
    (hp : c.recvPaused ≠ .no) (h1 : ev ≠ .resume) (h2 : ev ≠ .startReading)
    (h : step c ev = .ok (c', ms, os)) : dataOuts os = [] ∧ (ev ≠ .close → c'.recvPaused ≠ .no) := by
  cases ev with
  | resume => exact absurd rfl h1
  | startReading => exact absurd rfl h2
  | write dt bs =>
    obtain ⟨hs, _, rfl, ⟨_, hc, _⟩ | ⟨_, hf⟩⟩ := step_write_ok h
    · exact ⟨rfl, fun _ => by rw [hc]; exact hp⟩
    · have hw0 : WFs { c with sendBuf := c.sendBuf ++ [(bs, dt)] } :=
        ⟨hw.s.chanOpen, by intro h3; simp [hs] at h3⟩
      have sp := flushSend_spec _ _ _ hw0 hf
      exact ⟨rfl, fun _ => by rw [sp.same.recvPaused]; exact hp⟩
  | writeEof =>
    obtain ⟨hf, rfl⟩ := step_writeEof_ok h
    refine ⟨rfl, fun _ => ?_⟩
    unfold writeEof at hf
    split at hf
    · rename_i hs
      have hw0 : WFs { c with sendState := .eofPending } :=
        ⟨by simpa [hs] using hw.s.chanOpen, by intro h3; simp at h3⟩
      have sp := flushSend_spec _ _ _ hw0 hf
      rw [sp.same.recvPaused]; exact hp
    · simp only [Option.some.injEq, Prod.mk.injEq] at hf
      rw [← hf.1]; exact hp
  | close =>
    obtain ⟨c1, _, _, hc2⟩ := step_close_ok h
    refine ⟨?_, fun hne => absurd rfl hne⟩
    rcases hc2 with ⟨_, _, _, rfl⟩ | ⟨_, _, _, rfl⟩
    · rcases (discardRecv_spec c1).fired with ⟨h3, _⟩ | ⟨h3, _⟩ <;> rw [h3] <;> rfl
    · rfl
  | pause =>
    simp only [step, Except.ok.injEq, Prod.mk.injEq] at h
    obtain ⟨rfl, _, rfl⟩ := h
    exact ⟨rfl, fun _ => by simp⟩
  | armPause k =>
    simp only [step, Except.ok.injEq, Prod.mk.injEq] at h
    obtain ⟨rfl, _, rfl⟩ := h
    exact ⟨rfl, fun _ => hp⟩
  | recv m =>
    cases m with
    | data dt bs =>
      obtain ⟨_, _, _, ha⟩ := step_recv_data_ok h
      rcases acceptData_cases c bs dt with ⟨_, h3⟩ | ⟨_, _, h3⟩ | ⟨_, _, _, h3⟩ | ⟨_, _, h3, _⟩
      · rw [h3] at ha
        simp only [Prod.mk.injEq] at ha
        obtain ⟨rfl, _, rfl⟩ := ha
        exact ⟨rfl, fun _ => hp⟩
      · rw [h3] at ha
        simp only [Prod.mk.injEq] at ha
        obtain ⟨rfl, _, rfl⟩ := ha
        exact ⟨rfl, fun _ => hp⟩
      · rw [h3] at ha
        simp only [Prod.mk.injEq] at ha
        obtain ⟨rfl, _, rfl⟩ := ha
        exact ⟨rfl, fun _ => hp⟩
      · exact absurd h3 hp
    | adjust n =>
      simp only [step, recvMsg] at h
      split at h
      · cases h
      · obtain ⟨hf, rfl⟩ := liftSend_ok h
        have sp := flushSend_spec { c with sendWindow := c.sendWindow + n } _ _ ⟨hw.s.1, hw.s.2⟩ hf
        exact ⟨rfl, fun _ => by rw [sp.same.recvPaused]; exact hp⟩
    | eof =>
      simp only [step, recvMsg] at h
      split at h
      · cases h
      · obtain ⟨ho, hpp⟩ := flushRecv_paused (c := { c with recvState := .eofPending }) ⟨hw.s.1, hw.s.2⟩ hp (liftRecv_ok h)
        exact ⟨ho, fun _ => by rw [hpp]; exact hp⟩
    | close =>
      simp only [step, recvMsg] at h
      split at h
      · cases h
      · obtain ⟨hsame, _, _, _, _, _, _, _, hwfs⟩ := closeSend_spec c hw.s
        split at h
        · cases h
        · rename_i c2 ms2 os2 hfr
          simp only [Except.ok.injEq, Prod.mk.injEq] at h
          obtain ⟨rfl, _, rfl⟩ := h
          have hp0 : ({ (closeSend c).1 with recvEofPending := decide (c.recvState = .eofPending),
                                              recvState := .closePending } : Chan).recvPaused ≠ .no := by
            simp only; rw [hsame.recvPaused]; exact hp
          obtain ⟨ho, hpp⟩ := flushRecv_paused (c := { (closeSend c).1 with
              recvEofPending := decide (c.recvState = .eofPending), recvState := .closePending })
            ⟨hwfs.1, hwfs.2⟩ hp0 hfr
          exact ⟨ho, fun _ => by rw [hpp]; exact hp0⟩

/-! ### window accounting of a layer-3 tunnel channel -/

theorem adjustSum_sendPkt_adjust (c : Chan) (n : Nat) (ho : c.sendChanOpen = true) :
    adjustSum (sendPkt c (.adjust n)) = n := by
  simp [sendPkt, ho, adjustSum]

/-- the base class: accepting `data` moves the credit by exactly its length (plus what a WINDOW_ADJUST returns) -/
theorem accept_accounting (c : Chan) (data : Bytes) (dt : DType) (hs : c.sendState = .opn)
    (ho : c.sendChanOpen = true) :
    credit (acceptData c data dt).1 = credit c - data.length + adjustSum (acceptData c data dt).2.1 := by
  unfold acceptData
  split
  · rename_i he
    have : data = [] := by simpa using he
    subst this
    simp [credit, adjustSum]
  · rw [if_neg (by simp [hs])]
    split
    · simp only [credit, adjustSum, bufBytes_append, bufBytes]
      push_cast
      omega
    · unfold deliverData
      simp only [credit]
      by_cases hn : needAdjust (c.recvWindow - (data.length : Int)) c.initWindow = true
      · simp only [hn, if_true, adjustSum_sendPkt_adjust c _ ho]
        simp only [needAdjust, decide_eq_true_eq] at hn
        have : (((c.initWindow : Int) - (c.recvWindow - (data.length : Int))).toNat : Int) =
            (c.initWindow : Int) - (c.recvWindow - (data.length : Int)) := by
          apply Int.toNat_of_nonneg; omega
        rw [this]; omega
      · simp only [hn, adjustSum]
        simp only [Bool.false_eq_true, if_false, adjustSum]
        omega

/-- **Tunnel accounting (since repair 9f86e20)**: a layer-3 tunnel packet of `n` bytes on the wire (header
    included) lowers what the receiver allows the peer to send by exactly `n`, plus the WINDOW_ADJUST it sends —
    the same amount the sender subtracted from its send window, so the two stay in step. -/
theorem tun_accept_accounting (c : Chan) (data : Bytes) (dt : DType) (hs : c.sendState = .opn)
    (ho : c.sendChanOpen = true) :
    credit (tunAcceptData c data dt).1 = credit c - data.length + adjustSum (tunAcceptData c data dt).2.1 := by
  unfold tunAcceptData
  have h := accept_accounting { c with recvWindow := c.recvWindow - ((data.take 4).length : Int) } (data.drop 4) dt hs ho
  rw [h]
  simp only [credit, List.length_take, List.length_drop]
  omega

/-- **Witness for the code BEFORE repair 9f86e20**: after every tunnel packet (of at least 4 bytes) the receiver
    believes the peer has 4 bytes of window more than the peer really has — they are never returned: after
    `window / 4` packets the sender's window is exhausted while the receiver still sees half a window and sends no
    WINDOW_ADJUST. -/
theorem tun_accept_leak_preFix (c : Chan) (data : Bytes) (dt : DType) (hs : c.sendState = .opn)
    (ho : c.sendChanOpen = true) (hl : 4 ≤ data.length) :
    credit (tunAcceptDataPreFix c data dt).1 =
      credit c - data.length + adjustSum (tunAcceptDataPreFix c data dt).2.1 + 4 := by
  unfold tunAcceptDataPreFix
  rw [accept_accounting c (data.drop 4) dt hs ho]
  simp only [List.length_drop]
  omega

end AsyncsshModel.Channel
