import AsyncsshModel.Model.HostTrustMachine
/-
  Helper lemmas for C04: the ordering invariant of the client trace machine.
-/
namespace AsyncsshModel.HostTrust

variable {Hash Sig : Type}

/-- what a successful `validate_server_host_key` means: the trust decision accepted the blob as key `k` and the
    blob fits the negotiated host key algorithm -/
theorem validateServerHostKey_ok {cfg : Cfg Hash Sig} {now4 : Nat} {p : Presented} {sg : Sig} {k : KeyId}
    (h : validateServerHostKey cfg now4 p sg = .ok k) :
    validateHostKey cfg.trust cfg.app cfg.host cfg.addr cfg.port now4 p = .ok k ∧ cfg.keyAlgOk p = true := by
  unfold validateServerHostKey at h
  split at h
  · simp at h
  · rename_i hka
    cases hv : validateHostKey cfg.trust cfg.app cfg.host cfg.addr cfg.port now4 p with
    | error r => simp [hv] at h
    | ok k' =>
      simp only [hv, Except.ok.injEq] at h
      subst h
      refine ⟨rfl, ?_⟩
      by_cases hg : p = .garbage
      · subst hg; simp [validateHostKey] at hv
      · cases hk : cfg.keyAlgOk p with
        | true => rfl
        | false => exact absurd ⟨hg, hk⟩ hka

/-- Trust is established in the trace `acc` (w.r.t. the events `all` the environment supplied): some KEX reply of
    `all` carried a blob the decision accepted as key `k`, usable with the negotiated host key algorithm, and a
    signature that names that algorithm's signature algorithm and verifies under `k` over the exchange hash `h`,
    and the trace shows `hostKeyAccepted k` followed by `sigVerified k h`. -/
def Est (cfg : Cfg Hash Sig) (all : List (Ev Hash Sig)) (acc : List (Out Hash)) : Prop :=
  ∃ p h sg now4 k, Ev.kexReply p h sg now4 ∈ all ∧
    validateHostKey cfg.trust cfg.app cfg.host cfg.addr cfg.port now4 p = .ok k ∧
    cfg.keyAlgOk p = true ∧ cfg.sigAlgOk sg = true ∧
    cfg.verify k h sg = true ∧
    [Out.hostKeyAccepted k, Out.sigVerified k h].Sublist acc

theorem Est.mono {cfg : Cfg Hash Sig} {all acc} (more : List (Out Hash)) (h : Est cfg all acc) :
    Est cfg all (acc ++ more) := by
  obtain ⟨p, hh, sg, now4, k, hm, hv, hka, hsa, hs, hsub⟩ := h
  exact ⟨p, hh, sg, now4, k, hm, hv, hka, hsa, hs, hsub.trans (List.sublist_append_left acc more)⟩

/-- every auth-traffic item of `l` (appended after `acc`) is preceded by established trust -/
def Safe (cfg : Cfg Hash Sig) (all : List (Ev Hash Sig)) : List (Out Hash) → List (Out Hash) → Prop
  | _, [] => True
  | acc, o :: l => (o.isAuthTraffic = true → Est cfg all acc) ∧ Safe cfg all (acc ++ [o]) l

theorem Safe.of_est {cfg : Cfg Hash Sig} {all} : ∀ (l acc : List (Out Hash)), Est cfg all acc → Safe cfg all acc l
  | [], _, _ => trivial
  | o :: l, acc, h => ⟨fun _ => h, Safe.of_est l (acc ++ [o]) (h.mono [o])⟩

theorem Safe.append {cfg : Cfg Hash Sig} {all} : ∀ (l1 l2 acc : List (Out Hash)),
    Safe cfg all acc l1 → Safe cfg all (acc ++ l1) l2 → Safe cfg all acc (l1 ++ l2)
  | [], l2, acc, _, h2 => by simpa using h2
  | o :: l1, l2, acc, h1, h2 => by
    refine ⟨h1.1, ?_⟩
    apply Safe.append l1 l2 (acc ++ [o]) h1.2
    simpa [List.append_assoc] using h2

theorem Safe.split {cfg : Cfg Hash Sig} {all} : ∀ (pre : List (Out Hash)) (acc l : List (Out Hash)) (o : Out Hash)
    (post : List (Out Hash)), Safe cfg all acc l → l = pre ++ o :: post → o.isAuthTraffic = true →
    Est cfg all (acc ++ pre)
  | [], acc, l, o, post, hs, hl, ho => by
    subst hl
    simpa using hs.1 ho
  | x :: pre, acc, l, o, post, hs, hl, ho => by
    subst hl
    have := Safe.split pre (acc ++ [x]) (pre ++ o :: post) o post hs.2 rfl ho
    simpa [List.append_assoc] using this

/-- no auth-traffic item in `l`: trivially safe -/
theorem Safe.of_none {cfg : Cfg Hash Sig} {all} : ∀ (l acc : List (Out Hash)),
    (∀ o ∈ l, o.isAuthTraffic = false) → Safe cfg all acc l
  | [], _, _ => trivial
  | o :: l, acc, h => by
    refine ⟨fun ho => ?_, Safe.of_none l (acc ++ [o]) (fun x hx => h x (List.mem_cons_of_mem _ hx))⟩
    rw [h o (List.mem_cons_self ..)] at ho
    cases ho

/-- flags that imply an earlier successful exchange -/
def St.wf (s : St) : Prop :=
  (s.nextService = true → s.haveSession = true) ∧ (s.auth = true → s.haveSession = true) ∧
  (s.deferredAuth ≠ 0 → s.haveSession = true)

theorem wf_init : St.init.wf := by simp [St.wf, St.init]

theorem fail_spec (s : St) (e : Err) (pre : List (Out Hash)) :
    (fail s e pre).1 = { s with closed := true, kex := false } ∧ (fail s e pre).2 = pre ++ [.disconnect e] := by
  simp [fail]

/-- one step preserves the invariant and emits auth traffic only after trust is established -/
theorem step_inv (cfg : Cfg Hash Sig) (all : List (Ev Hash Sig)) (acc : List (Out Hash)) (s : St)
    (e : Ev Hash Sig) (he : e ∈ all) (hwf : s.wf) (hinv : s.haveSession = true → Est cfg all acc) :
    (step cfg s e).1.wf ∧ Safe cfg all acc (step cfg s e).2 ∧
      ((step cfg s e).1.haveSession = true → Est cfg all (acc ++ (step cfg s e).2)) := by
  obtain ⟨w1, w2, w3⟩ := hwf
  unfold step
  by_cases hc : s.closed = true
  · simp only [hc, if_true]
    exact ⟨⟨w1, w2, w3⟩, trivial, by simpa using hinv⟩
  · simp only [hc, Bool.false_eq_true, if_false]
    have failcase : ∀ (er : Err) (pre : List (Out Hash)), (∀ o ∈ pre, o.isAuthTraffic = false) →
        (fail s er pre).1.wf ∧ Safe cfg all acc (fail s er pre).2 ∧
          ((fail s er pre).1.haveSession = true → Est cfg all (acc ++ (fail s er pre).2)) := by
      intro er pre hpre
      refine ⟨⟨w1, w2, w3⟩, ?_, ?_⟩
      · apply Safe.of_none
        intro o ho
        simp only [fail, List.mem_append, List.mem_singleton] at ho
        rcases ho with ho | ho
        · exact hpre o ho
        · subst ho; rfl
      · intro h
        exact (hinv h).mono _
    cases e with
    | kexInit =>
      dsimp only
      split
      · exact failcase _ [] (by simp)
      · exact ⟨⟨w1, w2, w3⟩, trivial, by simpa using hinv⟩
    | newkeys =>
      dsimp only
      split
      · exact ⟨⟨w1, w2, w3⟩, trivial, by simpa using hinv⟩
      · exact failcase _ [] (by simp)
    | benign => exact ⟨⟨w1, w2, w3⟩, trivial, by simpa using hinv⟩
    | other => exact failcase _ [] (by simp)
    | serviceAccept ua =>
      dsimp only
      split
      · exact failcase _ [] (by simp)
      · split
        · exact failcase _ [] (by simp)
        · rename_i hns
          have hns' : s.nextService = true := by
            cases h1 : s.nextService <;> simp [h1] at hns ⊢
          have hest := hinv (w1 hns')
          split
          · refine ⟨⟨by simp, fun _ => w1 hns', fun h => w3 h⟩, ⟨fun _ => hest, trivial⟩, fun _ => hest.mono _⟩
          · refine ⟨⟨by simp, fun _ => w1 hns', fun _ => w1 hns'⟩, trivial, fun _ => by simpa using hest⟩
    | userauthFailure more =>
      dsimp only
      split
      · exact failcase _ [] (by simp)
      · split
        · exact failcase _ [] (by simp)
        · rename_i hau
          have hau' : s.auth = true := by
            cases h1 : s.auth <;> simp [h1] at hau ⊢
          have hest := hinv (w2 hau')
          split
          · exact failcase _ [] (by simp)
          · split
            · exact ⟨⟨w1, w2, w3⟩, ⟨fun _ => hest, trivial⟩, fun _ => hest.mono _⟩
            · exact ⟨⟨w1, w2, fun _ => w2 hau'⟩, trivial, fun _ => by simpa using hest⟩
    | kexReply p h sg now4 =>
      dsimp only
      split
      · exact failcase _ [] (by simp)
      · cases hv' : validateServerHostKey cfg now4 p sg with
        | error er =>
          obtain ⟨e', r⟩ := er
          dsimp only
          exact failcase _ [.hostKeyRejected r] (by simp [Out.isAuthTraffic])
        | ok k =>
          obtain ⟨hv, hka⟩ := validateServerHostKey_ok hv'
          dsimp only
          by_cases hs2 : (cfg.verify k h sg && cfg.sigAlgOk sg) = true
          · have hs : cfg.verify k h sg = true := by
              simp only [Bool.and_eq_true] at hs2; exact hs2.1
            have hsa : cfg.sigAlgOk sg = true := by
              simp only [Bool.and_eq_true] at hs2; exact hs2.2
            simp only [hs2, if_true]
            have hest : Est cfg all (acc ++ [Out.hostKeyAccepted k, Out.sigVerified k h]) :=
              ⟨p, h, sg, now4, k, he, hv, hka, hsa, hs, List.sublist_append_right acc _⟩
            refine ⟨⟨by simp, by simp, by simp⟩, ?_, ?_⟩
            · have : ([Out.hostKeyAccepted k, Out.sigVerified k h, Out.sendNewkeys] ++
                  (if (!s.haveSession) = true then [Out.sendServiceRequest] else []) ++
                  List.replicate s.deferredAuth Out.sendUserauthRequest : List (Out Hash)) =
                  [Out.hostKeyAccepted k, Out.sigVerified k h] ++ ([Out.sendNewkeys] ++
                  (if (!s.haveSession) = true then [Out.sendServiceRequest] else []) ++
                  List.replicate s.deferredAuth Out.sendUserauthRequest) := by simp
              rw [this]
              apply Safe.append
              · exact ⟨by simp [Out.isAuthTraffic], ⟨by simp [Out.isAuthTraffic], trivial⟩⟩
              · exact Safe.of_est _ _ hest
            · intro _
              have := hest.mono ([Out.sendNewkeys] ++
                  (if (!s.haveSession) = true then [Out.sendServiceRequest] else []) ++
                  List.replicate s.deferredAuth Out.sendUserauthRequest)
              simpa [List.append_assoc] using this
          · simp only [hs2, Bool.false_eq_true, if_false]
            exact failcase _ [.hostKeyAccepted k, .sigBad k] (by simp [Out.isAuthTraffic])

/-- the run-level invariant -/
theorem run_safe (cfg : Cfg Hash Sig) (all : List (Ev Hash Sig)) : ∀ (evs : List (Ev Hash Sig)) (s : St)
    (acc : List (Out Hash)), (∀ e ∈ evs, e ∈ all) → s.wf → (s.haveSession = true → Est cfg all acc) →
    Safe cfg all acc (run cfg s evs)
  | [], _, _, _, _, _ => trivial
  | e :: es, s, acc, hsub, hwf, hinv => by
    obtain ⟨h1, h2, h3⟩ := step_inv cfg all acc s e (hsub e (List.mem_cons_self ..)) hwf hinv
    unfold run
    apply Safe.append _ _ _ h2
    exact run_safe cfg all es _ _ (fun x hx => hsub x (List.mem_cons_of_mem _ hx)) h1 h3

/-- a closed connection stays silent -/
theorem run_closed (cfg : Cfg Hash Sig) : ∀ (evs : List (Ev Hash Sig)) (s : St), s.closed = true → run cfg s evs = []
  | [], _, _ => rfl
  | e :: es, s, h => by
    have hs : step cfg s e = (s, []) := by simp [step, h]
    simp [run, hs, run_closed cfg es s h]

end AsyncsshModel.HostTrust
