import AsyncsshModel.Model.StreamProc
/-
  Helper lemmas for property C19 (process layer): a bookkeeping invariant for the client channel + process
  session — every byte the peer sent before its CLOSE is in exactly one place (handed to the redirect writer,
  returned by `wait()`, in the session buffer, or in the channel queue), in order — preserved by every event unless
  the channel is torn down abruptly (connection lost / protocol error).
-/
namespace AsyncsshModel.StreamProc
open AsyncsshModel
set_option linter.unusedSimpArgs false
set_option linter.unusedVariables false

/-- queued channel data of one stream -/
def qdata : List (Bool × Bytes) → Bool → Bytes
  | [], _ => []
  | (e, b) :: r, err => (if e = err then b else []) ++ qdata r err

theorem qdata_append (q1 q2 : List (Bool × Bytes)) (err : Bool) :
    qdata (q1 ++ q2) err = qdata q1 err ++ qdata q2 err := by
  induction q1 with
  | nil => rfl
  | cons x xs ih => obtain ⟨e, b⟩ := x; simp [qdata, ih]

def collOut (s : PSt) : Bytes := match s.result with | some (.done _ _ o _) => o | _ => []
def collErr (s : PSt) : Bytes := match s.result with | some (.done _ _ _ e) => e | _ => []

/-- all stdout bytes the client side holds anywhere: given to the writer, returned by `wait()`, buffered, queued -/
def totalOut (s : PSt) : Bytes := s.target.flatten ++ collOut s ++ s.out.flatten ++ qdata s.chanQ false
def totalErr (s : PSt) : Bytes := collErr s ++ s.err.flatten ++ qdata s.chanQ true

def closeSeen (s : PSt) : Bool := s.recvState = .closePending || s.recvState = .closed

structure PInv (s : PSt) (O E : Bytes) : Prop where
  na : s.abrupt = false
  out : totalOut s = O
  err : totalErr s = E
  a : s.paused = false → s.chanQ = []
  b : s.writer.isSome = true → s.out = []
  c : s.lost = false → s.result = none
  d : s.lost = true → s.chanQ = []
  e : s.cleanupPending = true → s.chanQ = [] ∧ s.recvState = .closed
  f : ∀ st sg o e, s.result = some (.done st sg o e) → s.out = [] ∧ s.err = []
  h : s.lost = true → closeSeen s = true
  i : s.waiting = false → s.result = none

theorem cleanup_abrupt (s : PSt) (e : Bool) (h : (cleanup s true e).abrupt = false) : s.lost = true := by
  unfold cleanup at h
  cases hl : s.lost with
  | true => rfl
  | false => simp [hl] at h

theorem cleanup_lost (s : PSt) (a e : Bool) (h : s.lost = true) : cleanup s a e = s := by
  simp [cleanup, h]

macro "ptriv" : tactic => `(tactic| first | rfl | trivial | assumption)

theorem deliver_spec (s : PSt) (err : Bool) (b : Bytes) (hb : s.writer.isSome = true → s.out = []) :
    (deliver s err b).target.flatten ++ (deliver s err b).out.flatten
      = s.target.flatten ++ s.out.flatten ++ (if err = false then b else []) ∧
    (deliver s err b).err.flatten = s.err.flatten ++ (if err = true then b else []) ∧
    ((deliver s err b).writer.isSome = true → (deliver s err b).out = []) ∧
    (deliver s err b).chanQ = s.chanQ ∧ (deliver s err b).result = s.result ∧
    (deliver s err b).writer = s.writer ∧
    (deliver s err b).abrupt = s.abrupt ∧ (deliver s err b).lost = s.lost ∧
    (deliver s err b).recvState = s.recvState ∧ (deliver s err b).cleanupPending = s.cleanupPending ∧
    (deliver s err b).waiting = s.waiting := by
  unfold deliver
  cases err with
  | true => simp; exact hb
  | false =>
    cases hw : s.writer.isSome with
    | true =>
      have ho := hb hw
      simp [ho, hw]
    | false => simp [hw]

theorem closeSeen_sessionEof (s : PSt) : closeSeen (sessionEof s) = closeSeen s := rfl

theorem flush_spec (q : List (Bool × Bytes)) (s : PSt) (hb : s.writer.isSome = true → s.out = [])
    (hr : s.result = none) (hcp : s.cleanupPending = true → q = [] ∧ s.recvState = .closed) :
    (flush s q).target.flatten ++ (flush s q).out.flatten ++ qdata (flush s q).chanQ false
      = s.target.flatten ++ s.out.flatten ++ qdata q false ∧
    (flush s q).err.flatten ++ qdata (flush s q).chanQ true = s.err.flatten ++ qdata q true ∧
    (flush s q).result = none ∧
    ((flush s q).writer.isSome = true → (flush s q).out = []) ∧
    ((flush s q).paused = false → (flush s q).chanQ = []) ∧
    (flush s q).abrupt = s.abrupt ∧ (flush s q).lost = s.lost ∧ (flush s q).waiting = s.waiting ∧
    ((flush s q).cleanupPending = true → (flush s q).chanQ = [] ∧ (flush s q).recvState = .closed) ∧
    closeSeen (flush s q) = closeSeen s := by
  induction q generalizing s with
  | nil =>
    unfold flush
    simp only
    by_cases h1 : s.recvState = .eofPending
    · have hcf : s.cleanupPending = false := by
        cases h : s.cleanupPending with
        | false => rfl
        | true => have := (hcp h).2; simp [h1] at this
      simp [h1, sessionEof, qdata, hr, closeSeen, hcf]; exact hb
    · simp only [h1, if_false]
      by_cases h2 : s.recvState = .closePending
      · simp [h2, qdata, hr, closeSeen]; exact hb
      · simp [h2, qdata, hr, closeSeen]
        exact ⟨hb, fun h => (hcp h).2⟩
  | cons x q ih =>
    obtain ⟨e, b⟩ := x
    unfold flush
    by_cases hp : s.paused
    · simp only [hp, if_true]
      refine ⟨by ptriv, by ptriv, hr, hb, by simp [hp], by ptriv, by ptriv, by ptriv, ?_, by ptriv⟩
      intro h
      have := (hcp h).1
      simp at this
    · simp only [hp, Bool.false_eq_true, if_false]
      have hcpf : s.cleanupPending = false := by
        cases h : s.cleanupPending with
        | false => rfl
        | true => have := (hcp h).1; simp at this
      obtain ⟨d1, d2, d3, d4, d5, d6, d7, d8, d9, d10, d11⟩ := deliver_spec s e b hb
      obtain ⟨i1, i2, i3, i4, i5, i6, i7, i8, i9, i10⟩ :=
        ih (deliver s e b) d3 (by rw [d5]; exact hr) (by rw [d10, hcpf]; intro h; simp at h)
      refine ⟨?_, ?_, i3, i4, i5, by rw [i6, d7], by rw [i7, d8], by rw [i8, d11], i9, ?_⟩
      · rw [i1, d1]; cases e <;> simp [qdata]
      · rw [i2, d2]; cases e <;> simp [qdata]
      · rw [i10]; simp [closeSeen, d9]

/-- the channel was torn down by a connection loss or a protocol error -/
def Dead (s : PSt) : Prop := s.abrupt = true ∧ s.lost = true

theorem resumeAfterFeed_dead (s : PSt) (h : Dead s) : Dead (resumeAfterFeed s) := by
  obtain ⟨ha, hl⟩ := h
  unfold resumeAfterFeed
  rw [if_pos hl]
  split
  · exact ⟨ha, hl⟩
  · exact ⟨ha, hl⟩

theorem dead_step (s : PSt) (ev : PEv) (h : Dead s) : Dead (pstep s ev) := by
  obtain ⟨ha, hl⟩ := h
  cases ev with
  | data e b => simp [pstep, onData, hl, Dead, ha]
  | eof => simp [pstep, onEof, hl, Dead, ha]
  | exitStatus n => simp [pstep, onExitStatus, hl, Dead, ha]
  | exitSignal n => simp [pstep, onExitSignal, hl, Dead, ha]
  | close => simp [pstep, onClose, hl, Dead, ha]
  | disconnect e => simp [pstep, cleanup, hl, Dead, ha]
  | tick =>
    simp only [pstep, onTick, cleanup, hl, if_true, ite_self]
    split <;> simp [Dead, collect, ha, hl]
  | waitCall =>
    simp only [pstep, onWait]
    split
    · exact ⟨ha, hl⟩
    · simp only [hl, if_true]
      split
      · split <;> simp [Dead, collect, ha, hl]
      · simp [Dead, collect, ha, hl]
  | redirect r =>
    simp only [pstep, onRedirect]
    split
    · exact ⟨ha, hl⟩
    · exact resumeAfterFeed_dead _ ⟨ha, hl⟩

/-- bytes of an event that count as "sent before close" on a stream, seen from state `s` -/
def payload (s : PSt) (ev : PEv) (err : Bool) : Bytes :=
  if closeSeen s then [] else match ev with
    | .data e b => if e = err then b else []
    | _ => []

theorem PInv_same {s : PSt} {O E O' E' : Bytes} (h : PInv s O E) (ho : O' = O) (he : E' = E) : PInv s O' E' := by
  subst ho he; exact h

theorem protoError_dead (s : PSt) (h : s.lost = false) : Dead (protoError s) := by
  simp [protoError, cleanup, h, Dead]

theorem opened_not_closeSeen {s : PSt} (h : s.recvState = .opened) : closeSeen s = false := by
  simp [closeSeen, h]

theorem step_data (s : PSt) (O E : Bytes) (hs : PInv s O E) (e : Bool) (b : Bytes) :
    PInv (onData s e b) (O ++ payload s (.data e b) false) (E ++ payload s (.data e b) true) ∨ Dead (onData s e b) := by
  unfold onData
  by_cases hl : s.lost = true
  · left
    simp only [hl, if_true]
    exact PInv_same hs (by simp [payload, hs.h hl]) (by simp [payload, hs.h hl])
  · have hl' : s.lost = false := by simpa using hl
    simp only [hl', Bool.false_eq_true, if_false]
    by_cases ho : s.recvState = .opened
    · have hcs := opened_not_closeSeen ho
      have hcp : s.cleanupPending = false := by
        cases h : s.cleanupPending with
        | false => rfl
        | true => have := (hs.e h).2; simp [ho] at this
      have hres := hs.c hl'
      simp only [ho, ne_eq, not_true_eq_false, if_false]
      left
      by_cases hb : b.isEmpty
      · have : b = [] := by simpa using hb
        subst this
        simp only [List.isEmpty_nil, if_true]
        exact PInv_same hs (by simp [payload]) (by simp [payload])
      · simp only [hb, Bool.false_eq_true, if_false]
        by_cases hp : s.paused = true
        · simp only [hp, if_true]
          refine ⟨hs.na, ?_, ?_, by simp [hp], hs.b, fun _ => hres, by simp [hl'], by simp [hcp],
            by simp [hres], by simp [hl'], fun _ => hres⟩
          · have := hs.out
            simp only [totalOut, collOut, hres, payload, hcs, qdata_append, qdata] at this ⊢
            rw [← this]; simp [List.append_assoc]
          · have := hs.err
            simp only [totalErr, collErr, hres, payload, hcs, qdata_append, qdata] at this ⊢
            rw [← this]; simp [List.append_assoc]
        · have hp' : s.paused = false := by simpa using hp
          simp only [hp', Bool.false_eq_true, if_false]
          have hq := hs.a hp'
          obtain ⟨d1, d2, d3, d4, d5, d6, d7, d8, d9, d10, d11⟩ := deliver_spec s e b hs.b
          refine ⟨by rw [d7]; exact hs.na, ?_, ?_, by intro _; rw [d4]; exact hq, d3, by intro _; rw [d5]; exact hres,
            by rw [d8]; simp [hl'], by rw [d10]; simp [hcp], by rw [d5, hres]; simp, by rw [d8]; simp [hl'],
            by rw [d5]; intro _; exact hres⟩
          · have := hs.out
            simp only [totalOut, collOut, hres, hq, qdata, List.append_nil] at this
            simp only [totalOut, collOut, d5, hres, d4, hq, qdata, List.append_nil, payload, hcs]
            rw [← this, d1]; cases e <;> simp
          · have := hs.err
            simp only [totalErr, collErr, hres, hq, qdata, List.append_nil] at this
            simp only [totalErr, collErr, d5, hres, d4, hq, qdata, List.append_nil, payload, hcs]
            rw [← this, d2]; cases e <;> simp
    · right
      simp only [ho, ne_eq, not_false_eq_true, if_true]
      exact protoError_dead s hl'

/-- resuming / EOF / CLOSE: the channel hands queued data over; nothing is lost or reordered -/
theorem flush_inv (s : PSt) (O E : Bytes) (hs : PInv s O E) (hl : s.lost = false) (s0 : PSt)
    (h1 : s0.target = s.target) (h2 : s0.out = s.out) (h3 : s0.err = s.err) (h4 : s0.writer = s.writer)
    (h5 : s0.result = s.result) (h6 : s0.abrupt = s.abrupt) (h7 : s0.lost = s.lost)
    (h8 : s0.cleanupPending = true → s.chanQ = [] ∧ s0.recvState = .closed) :
    PInv (flush s0 s.chanQ) O E := by
  have hres := hs.c hl
  obtain ⟨f1, f2, f3, f4, f5, f6, f7, f8, f9, f10⟩ :=
    flush_spec s.chanQ s0 (by rw [h4, h2]; exact hs.b) (by rw [h5]; exact hres) h8
  refine ⟨by rw [f6, h6]; exact hs.na, ?_, ?_, f5, f4, fun _ => f3, ?_, f9, by simp [f3], ?_, fun _ => f3⟩
  · have := hs.out
    simp only [totalOut, collOut, hres] at this
    simp only [totalOut, collOut, f3]
    rw [← this]
    simp only [List.append_nil, List.append_assoc] at f1 ⊢
    rw [f1, h1, h2]
  · have := hs.err
    simp only [totalErr, collErr, hres] at this
    simp only [totalErr, collErr, f3]
    rw [← this]
    simp only [List.nil_append] at f2 ⊢
    rw [f2, h3]
  · intro h; rw [f7, h7, hl] at h; simp at h
  · intro h; rw [f7, h7, hl] at h; simp at h

theorem payload_nodata (s : PSt) (ev : PEv) (err : Bool) (h : ∀ e b, ev ≠ .data e b) : payload s ev err = [] := by
  unfold payload
  split
  · rfl
  · cases ev <;> simp_all

theorem step_eof (s : PSt) (O E : Bytes) (hs : PInv s O E) : PInv (onEof s) O E ∨ Dead (onEof s) := by
  unfold onEof
  by_cases hl : s.lost = true
  · left; simp only [hl, if_true]; exact hs
  · have hl' : s.lost = false := by simpa using hl
    rw [if_neg hl]
    by_cases ho : s.recvState = .opened
    · left
      simp only [ho, ne_eq, not_true_eq_false, if_false]
      exact flush_inv s O E hs hl' _ rfl rfl rfl rfl rfl rfl rfl (by
        intro h
        have := (hs.e h).2
        simp [ho] at this)
    · right
      simp only [ho, ne_eq, not_false_eq_true, if_true]
      exact protoError_dead s hl'

theorem step_close (s : PSt) (O E : Bytes) (hs : PInv s O E) : PInv (onClose s) O E ∨ Dead (onClose s) := by
  unfold onClose
  by_cases hl : s.lost = true
  · left; simp only [hl, if_true]; exact hs
  · have hl' : s.lost = false := by simpa using hl
    rw [if_neg hl]
    by_cases ho : requestsAllowed s = true
    · left
      simp only [ho, if_true]
      exact flush_inv s O E hs hl' _ rfl rfl rfl rfl rfl rfl rfl (by
        intro h
        have := (hs.e h).2
        simp [requestsAllowed, this] at ho)
    · right
      simp only [ho, Bool.false_eq_true, if_false]
      exact protoError_dead s hl'

theorem step_exit (s : PSt) (O E : Bytes) (hs : PInv s O E) (n : Nat) :
    (PInv (onExitStatus s n) O E ∨ Dead (onExitStatus s n)) ∧
    (PInv (onExitSignal s n) O E ∨ Dead (onExitSignal s n)) := by
  unfold onExitStatus onExitSignal
  by_cases hl : s.lost = true
  · simp only [hl, if_true]; exact ⟨Or.inl hs, Or.inl hs⟩
  · have hl' : s.lost = false := by simpa using hl
    simp only [if_neg hl]
    by_cases ho : requestsAllowed s = true
    · simp only [ho, if_true]
      exact ⟨Or.inl ⟨hs.na, hs.out, hs.err, hs.a, hs.b, hs.c, hs.d, hs.e, hs.f, hs.h, hs.i⟩,
             Or.inl ⟨hs.na, hs.out, hs.err, hs.a, hs.b, hs.c, hs.d, hs.e, hs.f, hs.h, hs.i⟩⟩
    · simp only [ho, Bool.false_eq_true, if_false]
      exact ⟨Or.inr (protoError_dead s hl'), Or.inr (protoError_dead s hl')⟩

theorem step_disconnect (s : PSt) (O E : Bytes) (hs : PInv s O E) (e : Bool) :
    PInv (cleanup s true e) O E ∨ Dead (cleanup s true e) := by
  by_cases hl : s.lost = true
  · left; rw [cleanup_lost s true e hl]; exact hs
  · right
    have hl' : s.lost = false := by simpa using hl
    simp [cleanup, hl', Dead]

theorem collect_inv (s : PSt) (O E : Bytes) (hs : PInv s O E) (hl : s.lost = true) (hr : s.result = none)
    (hw : s.waiting = true) : PInv (collect s) O E := by
  refine ⟨hs.na, ?_, ?_, hs.a, fun _ => rfl, fun h => by simp [collect, hl] at h, hs.d, hs.e,
    fun _ _ _ _ _ => ⟨rfl, rfl⟩, hs.h, fun h => by simp [collect, hw] at h⟩
  · have := hs.out
    simp only [totalOut, collOut, hr] at this
    simp only [totalOut, collOut, collect]
    rw [← this]; simp
  · have := hs.err
    simp only [totalErr, collErr, hr] at this
    simp only [totalErr, collErr, collect]
    rw [← this]; simp

theorem step_tick (s : PSt) (O E : Bytes) (hs : PInv s O E) : PInv (onTick s) O E := by
  unfold onTick
  -- first the scheduled cleanup
  have h1 : PInv (if s.cleanupPending = true then cleanup s false false else s) O E := by
    by_cases hcp : s.cleanupPending = true
    · rw [if_pos hcp]
      obtain ⟨hq, hrs⟩ := hs.e hcp
      by_cases hl : s.lost = true
      · rw [cleanup_lost s false false hl]; exact hs
      · unfold cleanup
        rw [if_neg hl]
        refine ⟨rfl, hs.out, hs.err, fun _ => hq, hs.b, fun h => by simp at h, fun _ => hq,
          fun h => by simp at h, hs.f, fun _ => by simp [closeSeen, hrs], hs.i⟩
    · rw [if_neg hcp]; exact hs
  generalize (if s.cleanupPending = true then cleanup s false false else s) = s1 at h1
  simp only
  by_cases hc : s1.waiting = true ∧ s1.lost = true ∧ s1.result.isNone = true
  · rw [if_pos hc]
    exact collect_inv s1 O E h1 hc.2.1 (by simpa using hc.2.2) hc.1
  · rw [if_neg hc]; exact h1

theorem step_wait (s : PSt) (O E : Bytes) (hs : PInv s O E) : PInv (onWait s) O E := by
  unfold onWait
  by_cases hw : s.waiting = true
  · rw [if_pos hw]; exact hs
  · rw [if_neg hw]
    have hw' : s.waiting = false := by simpa using hw
    have hres := hs.i hw'
    have h0 : PInv { s with waiting := true, limit := 0 } O E :=
      ⟨hs.na, hs.out, hs.err, hs.a, hs.b, hs.c, hs.d, hs.e, hs.f, hs.h, fun h => by simp at h⟩
    simp only
    by_cases hl : s.lost = true
    · rw [if_pos hl]
      have hq := hs.d hl
      by_cases hp : s.paused = true
      · rw [if_pos hp]
        have h1 : PInv { s with waiting := true, limit := 0, paused := false, chanQ := [] } O E := by
          refine ⟨hs.na, ?_, ?_, fun _ => rfl, hs.b, hs.c, fun _ => rfl, fun h => ⟨rfl, (hs.e h).2⟩, hs.f, hs.h,
            fun h => by simp at h⟩
          · have := hs.out; simp only [totalOut, hq] at this ⊢; exact this
          · have := hs.err; simp only [totalErr, hq] at this ⊢; exact this
        by_cases he : s.recvState = .eofPending
        · rw [if_pos he]
          refine ⟨h1.na, ?_, ?_, h1.a, h1.b, fun h => by simp [hl] at h, h1.d, h1.e, fun _ _ _ _ h => by simp at h,
            h1.h, fun h => by simp at h⟩
          · have := h1.out; simp only [totalOut, collOut, hres] at this ⊢; exact this
          · have := h1.err; simp only [totalErr, collErr, hres] at this ⊢; exact this
        · rw [if_neg he]
          exact collect_inv _ O E h1 hl hres rfl
      · rw [if_neg hp]
        exact collect_inv _ O E h0 hl hres rfl
    · rw [if_neg hl]
      have hl' : s.lost = false := by simpa using hl
      unfold maybeResume
      split
      · exact flush_inv { s with waiting := true, limit := 0 } O E h0 hl' _ rfl rfl rfl rfl rfl rfl rfl (by
          intro h
          exact hs.e h)
      · exact h0

theorem resumeAfterFeed_inv (s0 : PSt) (O E : Bytes) (h0 : PInv s0 O E) : PInv (resumeAfterFeed s0) O E := by
  unfold resumeAfterFeed
  by_cases hl : s0.lost = true
  · rw [if_pos hl]
    have hq := h0.d hl
    split
    · refine ⟨h0.na, ?_, ?_, fun _ => rfl, h0.b, h0.c, fun _ => rfl, fun h => ⟨rfl, (h0.e h).2⟩, h0.f, h0.h, h0.i⟩
      · have := h0.out; simp only [totalOut, hq] at this ⊢; exact this
      · have := h0.err; simp only [totalErr, hq] at this ⊢; exact this
    · exact h0
  · rw [if_neg hl]
    have hl' : s0.lost = false := by simpa using hl
    unfold maybeResume
    split
    · exact flush_inv s0 O E h0 hl' _ rfl rfl rfl rfl rfl rfl rfl (by intro h; exact h0.e h)
    · exact h0

theorem step_redirect (s : PSt) (O E : Bytes) (hs : PInv s O E) (r : Bool) : PInv (onRedirect s r) O E := by
  unfold onRedirect
  by_cases hw : s.writer.isSome = true
  · rw [if_pos hw]; exact hs
  · rw [if_neg hw]
    apply resumeAfterFeed_inv
    -- buffered stdout goes to the writer first
    refine ⟨hs.na, ?_, hs.err, hs.a, fun _ => rfl, hs.c, hs.d, hs.e, fun st sg o e h => ⟨rfl, (hs.f st sg o e h).2⟩,
      hs.h, hs.i⟩
    have := hs.out
    simp only [totalOut] at this ⊢
    rw [← this]
    cases hr : s.result with
    | none => simp [collOut, hr]
    | some w =>
      cases w with
      | done st sg o e => simp [collOut, hr, (hs.f st sg o e hr).1]
      | assertionError => simp [collOut, hr]

/-- one event keeps the bookkeeping exact, or the channel has been torn down abruptly -/
theorem pinv_step (s : PSt) (O E : Bytes) (hs : PInv s O E) (ev : PEv) :
    PInv (pstep s ev) (O ++ payload s ev false) (E ++ payload s ev true) ∨ Dead (pstep s ev) := by
  cases ev with
  | data e b => exact step_data s O E hs e b
  | eof =>
    rw [payload_nodata _ _ _ (by simp), payload_nodata _ _ _ (by simp), List.append_nil, List.append_nil]
    exact step_eof s O E hs
  | exitStatus n =>
    rw [payload_nodata _ _ _ (by simp), payload_nodata _ _ _ (by simp), List.append_nil, List.append_nil]
    exact (step_exit s O E hs n).1
  | exitSignal n =>
    rw [payload_nodata _ _ _ (by simp), payload_nodata _ _ _ (by simp), List.append_nil, List.append_nil]
    exact (step_exit s O E hs n).2
  | close =>
    rw [payload_nodata _ _ _ (by simp), payload_nodata _ _ _ (by simp), List.append_nil, List.append_nil]
    exact step_close s O E hs
  | tick =>
    rw [payload_nodata _ _ _ (by simp), payload_nodata _ _ _ (by simp), List.append_nil, List.append_nil]
    exact Or.inl (step_tick s O E hs)
  | disconnect e =>
    rw [payload_nodata _ _ _ (by simp), payload_nodata _ _ _ (by simp), List.append_nil, List.append_nil]
    exact step_disconnect s O E hs e
  | waitCall =>
    rw [payload_nodata _ _ _ (by simp), payload_nodata _ _ _ (by simp), List.append_nil, List.append_nil]
    exact Or.inl (step_wait s O E hs)
  | redirect r =>
    rw [payload_nodata _ _ _ (by simp), payload_nodata _ _ _ (by simp), List.append_nil, List.append_nil]
    exact Or.inl (step_redirect s O E hs r)

theorem flush_closeSeen (q : List (Bool × Bytes)) (s : PSt) : closeSeen (flush s q) = closeSeen s := by
  induction q generalizing s with
  | nil =>
    unfold flush
    simp only
    by_cases h1 : s.recvState = .eofPending
    · simp [h1, sessionEof, closeSeen]
    · simp only [h1, if_false]
      by_cases h2 : s.recvState = .closePending
      · simp [h2, closeSeen]
      · simp [h2, closeSeen]
  | cons x q ih =>
    obtain ⟨e, b⟩ := x
    unfold flush
    split
    · rfl
    · rw [ih]; unfold deliver closeSeen; split <;> rfl

theorem maybeResume_closeSeen (s : PSt) : closeSeen (maybeResume s) = closeSeen s := by
  unfold maybeResume
  split
  · rw [flush_closeSeen]; rfl
  · rfl

theorem cleanup_closeSeen (s : PSt) (a e : Bool) : closeSeen (cleanup s a e) = closeSeen s := by
  unfold cleanup; split <;> rfl

theorem resumeAfterFeed_closeSeen (s : PSt) : closeSeen (resumeAfterFeed s) = closeSeen s := by
  unfold resumeAfterFeed
  split
  · split <;> rfl
  · exact maybeResume_closeSeen s

theorem pstep_closeSeen (s : PSt) (ev : PEv) (h : ev ≠ .close) : closeSeen (pstep s ev) = closeSeen s := by
  cases ev with
  | close => exact absurd rfl h
  | data e b =>
    simp only [pstep, onData]
    split; · rfl
    split; · exact cleanup_closeSeen _ _ _
    split; · rfl
    split; · rfl
    unfold deliver closeSeen; split <;> rfl
  | eof =>
    simp only [pstep, onEof]
    split; · rfl
    split; · exact cleanup_closeSeen _ _ _
    rename_i h1 h2
    rw [flush_closeSeen]
    have : s.recvState = .opened := by simpa using h2
    simp [closeSeen, this]
  | exitStatus n =>
    simp only [pstep, onExitStatus]
    split; · rfl
    split; · rfl
    exact cleanup_closeSeen _ _ _
  | exitSignal n =>
    simp only [pstep, onExitSignal]
    split; · rfl
    split; · rfl
    exact cleanup_closeSeen _ _ _
  | disconnect e => exact cleanup_closeSeen _ _ _
  | tick =>
    simp only [pstep, onTick]
    have h1 : closeSeen (if s.cleanupPending = true then cleanup s false false else s) = closeSeen s := by
      split
      · exact cleanup_closeSeen _ _ _
      · rfl
    generalize (if s.cleanupPending = true then cleanup s false false else s) = s1 at h1 ⊢
    split
    · rw [← h1]; rfl
    · exact h1
  | waitCall =>
    simp only [pstep, onWait]
    split; · rfl
    split
    · split
      · split <;> rfl
      · rfl
    · rw [maybeResume_closeSeen]; rfl
  | redirect r =>
    simp only [pstep, onRedirect]
    split; · rfl
    rw [resumeAfterFeed_closeSeen]; rfl

/-- what of the events still to come counts as sent before close -/
def remaining (s : PSt) (evs : List PEv) (err : Bool) : Bytes :=
  if closeSeen s then [] else sentBeforeClose evs err

theorem prun_cons (s : PSt) (ev : PEv) (evs : List PEv) : prun s (ev :: evs) = prun (pstep s ev) evs := rfl

theorem prun_dead (evs : List PEv) (s : PSt) (h : Dead s) : Dead (prun s evs) := by
  induction evs generalizing s with
  | nil => exact h
  | cons ev evs ih => rw [prun_cons]; exact ih _ (dead_step s ev h)

theorem onClose_closeSeen (s : PSt) (O E : Bytes) (hs : PInv s O E) (O' E' : Bytes)
    (h' : PInv (onClose s) O' E') : closeSeen (onClose s) = true := by
  unfold onClose at h' ⊢
  by_cases hl : s.lost = true
  · rw [if_pos hl]; exact hs.h hl
  · rw [if_neg hl] at h' ⊢
    by_cases ho : requestsAllowed s = true
    · rw [if_pos ho]; rw [flush_closeSeen]; simp [closeSeen]
    · rw [if_neg ho] at h'
      have := h'.na
      have hl' : s.lost = false := by simpa using hl
      simp [protoError, cleanup, hl'] at this

theorem remaining_step (s : PSt) (O E : Bytes) (hs : PInv s O E) (ev : PEv) (evs : List PEv) (O' E' : Bytes)
    (h' : PInv (pstep s ev) O' E') (err : Bool) :
    payload s ev err ++ remaining (pstep s ev) evs err = remaining s (ev :: evs) err := by
  cases hcs : closeSeen s with
  | true =>
    have : closeSeen (pstep s ev) = true := by
      by_cases hev : ev = .close
      · subst hev; exact onClose_closeSeen s O E hs O' E' h'
      · rw [pstep_closeSeen s ev hev]; exact hcs
    simp [payload, remaining, hcs, this]
  | false =>
    by_cases hev : ev = .close
    · subst hev
      have := onClose_closeSeen s O E hs O' E' h'
      have h2 : closeSeen (pstep s .close) = true := this
      simp [payload, remaining, hcs, h2, sentBeforeClose]
    · have h2 := pstep_closeSeen s ev hev
      cases ev <;> simp_all [payload, remaining, sentBeforeClose]

theorem prun_inv (evs : List PEv) (s : PSt) (O E : Bytes) (hs : PInv s O E) :
    PInv (prun s evs) (O ++ remaining s evs false) (E ++ remaining s evs true) ∨ Dead (prun s evs) := by
  induction evs generalizing s O E with
  | nil =>
    left
    have : ∀ err, remaining s [] err = [] := by intro err; unfold remaining; split <;> rfl
    simpa [prun, this] using hs
  | cons ev evs ih =>
    rw [prun_cons]
    rcases pinv_step s O E hs ev with h | h
    · rcases ih _ _ _ h with h2 | h2
      · left
        rw [List.append_assoc, List.append_assoc, remaining_step s O E hs ev evs _ _ h false,
          remaining_step s O E hs ev evs _ _ h true] at h2
        exact h2
      · exact Or.inr h2
    · exact Or.inr (prun_dead evs _ h)

theorem PInv_init (limit : Nat) : PInv { limit := limit } [] [] := by
  refine ⟨rfl, rfl, rfl, fun _ => rfl, fun _ => rfl, fun _ => rfl, fun _ => rfl, fun h => by simp at h,
    fun _ _ _ _ h => by simp at h, fun h => by simp at h, fun _ => rfl⟩

/-! ### `write_eof` on the redirect target -/

/-- bookkeeping of `write_eof` calls on the redirect writer -/
structure TInv (s : PSt) : Prop where
  t1 : s.writer = some true → s.targetEof = (if s.eofSeen then 1 else 0)
  t2 : s.writer ≠ some true → s.targetEof = 0
  t3 : s.eofSeen = true → s.lost = true ∨ (s.recvState ≠ .opened ∧ s.recvState ≠ .eofPending)
  t4 : s.lost = true → s.eofSeen = true

theorem TInv_of_fields {s s' : PSt} (h : TInv s) (hw : s'.writer = s.writer) (ht : s'.targetEof = s.targetEof)
    (he : s'.eofSeen = s.eofSeen) (hl : s'.lost = s.lost) (hr : s'.recvState = s.recvState) : TInv s' :=
  ⟨by rw [hw, ht, he]; exact h.t1, by rw [hw, ht]; exact h.t2, by rw [he, hl, hr]; exact h.t3,
   by rw [hl, he]; exact h.t4⟩

theorem deliver_T (s : PSt) (e : Bool) (b : Bytes) (h : TInv s) : TInv (deliver s e b) := by
  apply TInv_of_fields h <;> (unfold deliver; split <;> rfl)

theorem deliver_lost (s : PSt) (e : Bool) (b : Bytes) : (deliver s e b).lost = s.lost := by
  unfold deliver; split <;> rfl

theorem flush_T (q : List (Bool × Bytes)) (s : PSt) (h : TInv s) (hl : s.lost = false) : TInv (flush s q) := by
  induction q generalizing s with
  | nil =>
    unfold flush
    simp only
    by_cases h1 : s.recvState = .eofPending
    · have hes : s.eofSeen = false := by
        cases he : s.eofSeen with
        | false => rfl
        | true =>
          rcases h.t3 he with h3 | h3
          · rw [hl] at h3; simp at h3
          · exact absurd h1 h3.2
      simp only [h1, if_true, sessionEof]
      simp only [show ¬ (RecvState.eof = RecvState.closePending) by decide, if_false]
      refine ⟨?_, ?_, ?_, ?_⟩
      · intro hw
        have hw' : s.writer = some true := hw
        have := h.t1 hw'
        simp [hes] at this
        simp [hw', this]
      · intro hw
        have hw' : s.writer ≠ some true := hw
        have := h.t2 hw'
        simp [hw', this]
      · intro _; right; simp
      · intro hx
        have : s.lost = true := hx
        rw [hl] at this
    · simp only [h1, if_false]
      by_cases h2 : s.recvState = .closePending
      · simp only [h2, if_true]
        refine ⟨h.t1, h.t2, ?_, ?_⟩
        · intro he; right; simp
        · intro hx; simp [hl] at hx
      · simp only [h2, if_false]
        exact ⟨h.t1, h.t2, h.t3, h.t4⟩
  | cons x q ih =>
    obtain ⟨e, b⟩ := x
    unfold flush
    split
    · exact ⟨h.t1, h.t2, h.t3, h.t4⟩
    · exact ih _ (deliver_T s e b h) (by rw [deliver_lost]; exact hl)

theorem maybeResume_T (s : PSt) (h : TInv s) (hl : s.lost = false) : TInv (maybeResume s) := by
  unfold maybeResume
  split
  · exact flush_T _ _ ⟨h.t1, h.t2, h.t3, h.t4⟩ hl
  · exact h

theorem cleanup_T (s : PSt) (a e : Bool) (h : TInv s) : TInv (cleanup s a e) := by
  unfold cleanup
  by_cases hl : s.lost = true
  · rw [if_pos hl]; exact h
  · rw [if_neg hl]
    refine ⟨?_, ?_, fun _ => Or.inl rfl, fun _ => rfl⟩
    · intro hw
      have hw' : s.writer = some true := hw
      have := h.t1 hw'
      cases he : s.eofSeen <;> simp [he, hw'] at this ⊢ <;> exact this
    · intro hw
      have hw' : s.writer ≠ some true := hw
      have := h.t2 hw'
      simp [hw', this]

theorem collect_T (s : PSt) (h : TInv s) : TInv (collect s) :=
  ⟨h.t1, h.t2, h.t3, h.t4⟩

theorem pstep_T (s : PSt) (ev : PEv) (h : TInv s) : TInv (pstep s ev) := by
  cases ev with
  | data e b =>
    simp only [pstep, onData]
    split; · exact h
    split; · exact cleanup_T _ _ _ h
    split; · exact h
    split; · exact ⟨h.t1, h.t2, h.t3, h.t4⟩
    exact deliver_T _ _ _ h
  | eof =>
    simp only [pstep, onEof]
    split; · exact h
    split; · exact cleanup_T _ _ _ h
    rename_i hl ho
    have hl' : s.lost = false := by simpa using hl
    have ho' : s.recvState = .opened := by simpa using ho
    have hes : s.eofSeen = false := by
      cases he : s.eofSeen with
      | false => rfl
      | true =>
        rcases h.t3 he with h3 | h3
        · rw [hl'] at h3; simp at h3
        · exact absurd ho' h3.1
    exact flush_T _ _ ⟨h.t1, h.t2, fun he => by simp [hes] at he, h.t4⟩ hl'
  | exitStatus n =>
    simp only [pstep, onExitStatus]
    split; · exact h
    split; · exact ⟨h.t1, h.t2, h.t3, h.t4⟩
    exact cleanup_T _ _ _ h
  | exitSignal n =>
    simp only [pstep, onExitSignal]
    split; · exact h
    split; · exact ⟨h.t1, h.t2, h.t3, h.t4⟩
    exact cleanup_T _ _ _ h
  | close =>
    simp only [pstep, onClose]
    split; · exact h
    split
    · rename_i hl _
      have hl' : s.lost = false := by simpa using hl
      exact flush_T _ _ ⟨h.t1, h.t2, fun _ => Or.inr (by simp), h.t4⟩ hl'
    · exact cleanup_T _ _ _ h
  | disconnect e => exact cleanup_T _ _ _ h
  | tick =>
    simp only [pstep, onTick]
    have h1 : TInv (if s.cleanupPending = true then cleanup s false false else s) := by
      split
      · exact cleanup_T _ _ _ h
      · exact h
    generalize (if s.cleanupPending = true then cleanup s false false else s) = s1 at h1 ⊢
    split
    · exact collect_T _ h1
    · exact h1
  | waitCall =>
    simp only [pstep, onWait]
    split; · exact h
    have h0 : TInv { s with waiting := true, limit := 0 } := ⟨h.t1, h.t2, h.t3, h.t4⟩
    split
    · split
      · split
        · exact ⟨h.t1, h.t2, h.t3, h.t4⟩
        · exact collect_T _ ⟨h.t1, h.t2, h.t3, h.t4⟩
      · exact collect_T _ h0
    · rename_i hl
      exact maybeResume_T _ h0 (by simpa using hl)
  | redirect r =>
    simp only [pstep, onRedirect]
    split; · exact h
    rename_i hw
    have hwn : s.writer = none := by
      cases hx : s.writer with
      | none => rfl
      | some v => simp [hx] at hw
    have ht0 : s.targetEof = 0 := h.t2 (by simp [hwn])
    have h0 : TInv { s with
        writer := some r, target := s.target ++ s.out, out := []
        bufLen := s.bufLen - (((s.out.map List.length).sum : Nat) : Int)
        targetEof := if s.eofSeen && r then s.targetEof + 1 else s.targetEof } := by
      refine ⟨?_, ?_, h.t3, h.t4⟩
      · intro hr
        have : r = true := by simpa using hr
        subst this
        cases he : s.eofSeen <;> simp [he, ht0]
      · intro hr
        have : r = false := by
          cases r with
          | false => rfl
          | true => exact absurd rfl hr
        subst this
        simp [ht0]
    generalize ({ s with
        writer := some r, target := s.target ++ s.out, out := []
        bufLen := s.bufLen - (((s.out.map List.length).sum : Nat) : Int)
        targetEof := if s.eofSeen && r then s.targetEof + 1 else s.targetEof } : PSt) = s0 at h0 ⊢
    unfold resumeAfterFeed
    split
    · split
      · exact ⟨h0.t1, h0.t2, h0.t3, h0.t4⟩
      · exact h0
    · rename_i hl
      exact maybeResume_T _ h0 (by simpa using hl)

theorem prun_T (evs : List PEv) (s : PSt) (h : TInv s) : TInv (prun s evs) := by
  induction evs generalizing s with
  | nil => exact h
  | cons ev evs ih => rw [prun_cons]; exact ih _ (pstep_T s ev h)

theorem TInv_init (limit : Nat) : TInv { limit := limit } :=
  ⟨fun h => by simp at h, fun _ => rfl, fun h => by simp at h, fun h => by simp at h⟩

end AsyncsshModel.StreamProc
