import AsyncsshModel.Model.LifecycleWaiters
/-
  Lemmas for the stream-session and SFTP request-table machines (C09).
-/
namespace AsyncsshModel.Lifecycle.Waiters
open AsyncsshModel.Lifecycle

/-- with end-of-file recorded one pass of `read` always ends the call -/
theorem readPass_eof (buf : List Entry) (r : Reader) : (readPass true buf r).2.2.isSome = true := by
  unfold readPass
  cases hi : readInner buf r with
  | mk b rest =>
    obtain ⟨r', res, brk⟩ := rest
    cases res <;> simp

/-- what re-running a reader changes: only its own slot, its buffer and the list of finished reads -/
structure RFrame (t t' : StreamSess) (dt : Nat) : Prop where
  eof : t'.eofReceived = t.eofReceived
  lost : t'.connectionLost = t.connectionLost
  drainers : t'.drainers = t.drainers
  wp : t'.writePaused = t.writePaused
  exc : t'.exception = t.exception
  other0 : dt ≠ 0 → t'.reader0 = t.reader0
  other1 : dt = 0 → t'.reader1 = t.reader1
  done0 : dt = 0 → (t.eofReceived = true ∨ t.reader0 = none) → t'.reader0 = none
  done1 : dt ≠ 0 → (t.eofReceived = true ∨ t.reader1 = none) → t'.reader1 = none

theorem runReader_frame (t : StreamSess) (dt : Nat) : RFrame t (runReader t dt) dt := by
  unfold runReader
  by_cases hd : dt = 0
  · simp only [hd, if_true]
    cases hr : t.reader0 with
    | none => exact ⟨rfl, rfl, rfl, rfl, rfl, fun h => absurd rfl h, fun _ => rfl, fun _ _ => hr, fun h => absurd rfl h⟩
    | some r =>
      simp only
      cases hp : readPass t.eofReceived t.buf0 r with
      | mk b rest =>
        obtain ⟨r', res⟩ := rest
        cases res with
        | some x => exact ⟨rfl, rfl, rfl, rfl, rfl, fun h => absurd rfl h, fun _ => rfl, fun _ _ => rfl, fun h => absurd rfl h⟩
        | none =>
          refine ⟨rfl, rfl, rfl, rfl, rfl, fun h => absurd rfl h, fun _ => rfl, ?_, fun h => absurd rfl h⟩
          intro _ hh
          rcases hh with he | hn
          · have := readPass_eof t.buf0 r
            rw [he] at hp; rw [hp] at this; simp at this
          · rw [hr] at hn; cases hn
  · simp only [hd, if_false]
    cases hr : t.reader1 with
    | none => exact ⟨rfl, rfl, rfl, rfl, rfl, fun _ => rfl, fun h => absurd h hd, fun h => absurd h hd, fun _ _ => hr⟩
    | some r =>
      simp only
      cases hp : readPass t.eofReceived t.buf1 r with
      | mk b rest =>
        obtain ⟨r', res⟩ := rest
        cases res with
        | some x => exact ⟨rfl, rfl, rfl, rfl, rfl, fun _ => rfl, fun h => absurd h hd, fun h => absurd h hd, fun _ _ => rfl⟩
        | none =>
          refine ⟨rfl, rfl, rfl, rfl, rfl, fun _ => rfl, fun h => absurd h hd, fun h => absurd h hd, ?_⟩
          intro _ hh
          rcases hh with he | hn
          · have := readPass_eof t.buf1 r
            rw [he] at hp; rw [hp] at this; simp at this
          · rw [hr] at hn; cases hn

/-- once the session has seen end-of-file no reader is blocked; once it has seen `connection_lost` nothing is -/
structure SInv (s : StreamSess) : Prop where
  eof : s.eofReceived = true → s.reader0 = none ∧ s.reader1 = none
  lost : s.connectionLost = true → s.eofReceived = true ∧ s.drainers = 0

/-- re-running a reader on a state that differs from an `SInv` state only in buffers / the slot being re-run -/
theorem sinv_runReader {s t : StreamSess} (dt : Nat) (h : SInv s)
    (e1 : t.eofReceived = s.eofReceived) (e2 : t.connectionLost = s.connectionLost) (e3 : t.drainers = s.drainers)
    (e4 : dt ≠ 0 → t.reader0 = s.reader0) (e5 : dt = 0 → t.reader1 = s.reader1) : SInv (runReader t dt) := by
  have f := runReader_frame t dt
  refine ⟨?_, ?_⟩
  · intro he
    rw [f.eof, e1] at he
    have he' : t.eofReceived = true := by rw [e1]; exact he
    by_cases hd : dt = 0
    · exact ⟨f.done0 hd (Or.inl he'), by rw [f.other1 hd, e5 hd]; exact (h.eof he).2⟩
    · exact ⟨by rw [f.other0 hd, e4 hd]; exact (h.eof he).1, f.done1 hd (Or.inl he')⟩
  · intro hl
    rw [f.lost, e2] at hl
    rw [f.eof, e1, f.drainers, e3]
    exact h.lost hl

theorem onEof_spec (s : StreamSess) :
    (onEof s).reader0 = none ∧ (onEof s).reader1 = none ∧ (onEof s).eofReceived = true ∧
    (onEof s).connectionLost = s.connectionLost ∧ (onEof s).drainers = s.drainers ∧
    (onEof s).writePaused = s.writePaused ∧ (onEof s).exception = s.exception := by
  unfold onEof
  have f1 := runReader_frame { s with eofReceived := true } 0
  have f2 := runReader_frame (runReader { s with eofReceived := true } 0) 1
  have he1 : (runReader { s with eofReceived := true } 0).eofReceived = true := f1.eof
  refine ⟨?_, f2.done1 (by simp) (Or.inl he1), by rw [f2.eof]; exact he1, by rw [f2.lost, f1.lost],
    by rw [f2.drainers, f1.drainers], by rw [f2.wp, f1.wp], by rw [f2.exc, f1.exc]⟩
  rw [f2.other0 (by simp)]
  exact f1.done0 rfl (Or.inl rfl)

theorem unblockDrain_spec (s : StreamSess) :
    (unblockDrain s).reader0 = s.reader0 ∧ (unblockDrain s).reader1 = s.reader1 ∧
    (unblockDrain s).eofReceived = s.eofReceived ∧ (unblockDrain s).connectionLost = s.connectionLost ∧
    (unblockDrain s).writePaused = s.writePaused ∧
    (shouldBlockDrain s = false → (unblockDrain s).drainers = 0) ∧
    (shouldBlockDrain s = true → (unblockDrain s).drainers = s.drainers) := by
  unfold unblockDrain
  split <;> simp_all

/-- `connection_lost` leaves no reader and no drainer blocked -/
theorem onLost_spec (s : StreamSess) (e : Exc) (h : SInv s) :
    (onLost s e).reader0 = none ∧ (onLost s e).reader1 = none ∧ (onLost s e).drainers = 0 ∧
    (onLost s e).connectionLost = true ∧ (onLost s e).eofReceived = true := by
  unfold onLost
  simp only
  split
  · generalize hs' : (if e ≠ Exc.clean then
        ({ s with connectionLost := true, exception := e, buf0 := s.buf0 ++ [.exc e], buf1 := s.buf1 ++ [.exc e] } : StreamSess)
      else { s with connectionLost := true, exception := e }) = s'
    have hcl : s'.connectionLost = true := by rw [← hs']; split <;> rfl
    obtain ⟨e1, e2, e3, e4, e5, e6, e7⟩ := onEof_spec s'
    obtain ⟨u1, u2, u3, u4, u5, u6, u7⟩ := unblockDrain_spec (onEof s')
    refine ⟨by rw [u1]; exact e1, by rw [u2]; exact e2, ?_, by rw [u4, e4]; exact hcl, by rw [u3]; exact e3⟩
    apply u6
    simp [shouldBlockDrain, e4, hcl]
  · rename_i heof
    have heof' : s.eofReceived = true := by simpa using heof
    obtain ⟨u1, u2, u3, u4, u5, u6, u7⟩ := unblockDrain_spec { s with connectionLost := true, exception := e }
    refine ⟨by rw [u1]; exact (h.eof heof').1, by rw [u2]; exact (h.eof heof').2, ?_, by rw [u4], by rw [u3]; exact heof'⟩
    apply u6
    simp [shouldBlockDrain]

theorem sinv_step (s : StreamSess) (ev : SEv) (h : SInv s) : SInv (s.step ev) := by
  cases ev with
  | data dt =>
    simp only [StreamSess.step, dataReceived]
    split
    · exact sinv_runReader 0 h rfl rfl rfl (fun hh => absurd rfl hh) (fun _ => rfl)
    · exact sinv_runReader 1 h rfl rfl rfl (fun _ => rfl) (fun hh => by cases hh)
  | eof =>
    simp only [StreamSess.step]
    obtain ⟨e1, e2, e3, e4, e5, _, _⟩ := onEof_spec s
    exact ⟨fun _ => ⟨e1, e2⟩, fun hl => ⟨e3, by rw [e5]; exact (h.lost (by rw [← e4]; exact hl)).2⟩⟩
  | lost e =>
    simp only [StreamSess.step]
    obtain ⟨l1, l2, l3, l4, l5⟩ := onLost_spec s e h
    exact ⟨fun _ => ⟨l1, l2⟩, fun _ => ⟨l5, l3⟩⟩
  | pauseW => exact ⟨h.eof, h.lost⟩
  | resumeW =>
    simp only [StreamSess.step, resumeWriting]
    obtain ⟨u1, u2, u3, u4, u5, u6, u7⟩ := unblockDrain_spec { s with writePaused := false }
    refine ⟨fun he => by rw [u1, u2]; exact h.eof (by rw [← u3]; exact he), ?_⟩
    intro hl
    rw [u4] at hl
    refine ⟨by rw [u3]; exact (h.lost hl).1, ?_⟩
    apply u6
    simp [shouldBlockDrain]
  | read dt n x =>
    simp only [StreamSess.step, startRead]
    split
    · split
      · exact h
      · exact sinv_runReader 0 h rfl rfl rfl (fun hh => absurd rfl hh) (fun _ => rfl)
    · split
      · exact h
      · exact sinv_runReader 1 h rfl rfl rfl (fun _ => rfl) (fun hh => by cases hh)
  | drain =>
    simp only [StreamSess.step, startDrain]
    split
    · rename_i hb
      refine ⟨h.eof, ?_⟩
      intro hl
      have hl' : s.connectionLost = true := hl
      simp [shouldBlockDrain, hl'] at hb
    · exact ⟨h.eof, h.lost⟩

theorem onLost_lost (t : StreamSess) (e : Exc) : (onLost t e).connectionLost = true := by
  unfold onLost
  simp only
  split
  · rw [(unblockDrain_spec _).2.2.2.1, (onEof_spec _).2.2.2.1]
    split <;> rfl
  · rw [(unblockDrain_spec _).2.2.2.1]

/-- `_connection_lost` is never reset -/
theorem lost_mono_step (t : StreamSess) (ev : SEv) (ht : t.connectionLost = true) :
    (t.step ev).connectionLost = true := by
  cases ev with
  | data dt => simp only [StreamSess.step, dataReceived]; split <;> rw [(runReader_frame _ _).lost] <;> exact ht
  | eof => simp only [StreamSess.step]; rw [(onEof_spec t).2.2.2.1]; exact ht
  | lost e' => exact onLost_lost t e'
  | pauseW => exact ht
  | resumeW => simp only [StreamSess.step, resumeWriting]; rw [(unblockDrain_spec _).2.2.2.1]; exact ht
  | read dt n x =>
    simp only [StreamSess.step, startRead]
    split <;> split <;> first | exact ht | (rw [(runReader_frame _ _).lost]; exact ht)
  | drain => simp only [StreamSess.step, startDrain]; split <;> exact ht

theorem lost_mono_run (l : List SEv) (t : StreamSess) (ht : t.connectionLost = true) :
    (l.foldl StreamSess.step t).connectionLost = true := by
  induction l generalizing t with
  | nil => exact ht
  | cons ev rest ih => exact ih _ (lost_mono_step t ev ht)

theorem sinv_init : SInv {} := ⟨fun h => (by cases h), fun h => (by cases h)⟩

theorem sinv_run (evs : List SEv) : SInv (evs.foldl StreamSess.step {}) := by
  have : ∀ (s : StreamSess), SInv s → SInv (evs.foldl StreamSess.step s) := by
    induction evs with
    | nil => exact fun _ h => h
    | cons ev rest ih => exact fun s h => ih _ (sinv_step s ev h)
  exact this _ sinv_init

/-! ### SFTP client request table -/

/-- the stream session under an SFTP client whose `recv_packets` task waits for the next packet:
    `readexactly(4)` on stdout is blocked, nothing buffered, no end-of-file yet, nobody reads stderr -/
def atPacketBoundary (st0 : StreamSess) : StreamSess :=
  { st0 with reader0 := some { n := 4, exact := true }, buf0 := [], eofReceived := false, reader1 := none,
             connectionLost := false }

/-- how `readexactly(4)` ends when the channel goes away with `exc` -/
theorem reader_end_on_lost (st0 : StreamSess) (e : Exc) :
    (onLost (atPacketBoundary st0) e).reads.getLast? =
      some (if e = .clean then .incomplete 0 else .raised e) := by
  by_cases he : e = .clean
  · subst he
    simp [onLost, atPacketBoundary, onEof, runReader, readPass, readInner, unblockDrain, shouldBlockDrain]
  · simp [onLost, atPacketBoundary, onEof, runReader, readPass, readInner, unblockDrain, shouldBlockDrain, he]

theorem sftpCleanup_resolves (s : Sftp) (r : SRes) :
    (sftpCleanup s r).requests = [] ∧ ∀ i ∈ s.requests, (i, r) ∈ (sftpCleanup s r).results := by
  refine ⟨rfl, ?_⟩
  intro i hi
  simp only [sftpCleanup, List.mem_append, List.mem_map]
  exact Or.inr ⟨i, hi, rfl⟩

end AsyncsshModel.Lifecycle.Waiters
