import AsyncsshModel.Lemmas.LifecycleHandshake
/-
  C09, flow control at the end of a channel's life: the writer side (`_send_paused`, tasks blocked in `drain()`)
  when the peer's CLOSE is processed.
-/
namespace AsyncsshModel.Lifecycle

/-- the writer-side bookkeeping is left alone -/
def WKeep (c : Chan) (r : R) : Prop :=
  r.c.sendPaused = c.sendPaused ∧ r.c.drainPending = c.drainPending ∧ r.c.drainDone = c.drainDone ∧
  r.c.sendSt = c.sendSt ∧ r.c.session = c.session

theorem wkeep_refl (c : Chan) : WKeep c (R.ok c) := ⟨rfl, rfl, rfl, rfl, rfl⟩

theorem wkeep_andThen {c : Chan} {r : R} {f : Chan → R} (h1 : WKeep c r) (h2 : ∀ c', c'.sendSt = c.sendSt → WKeep c' (f c')) :
    WKeep c (r.andThen f) := by
  unfold R.andThen
  split
  · exact h1
  · obtain ⟨a1, a2, a3, a4, a5⟩ := h1
    obtain ⟨b1, b2, b3, b4, b5⟩ := h2 r.c a4
    exact ⟨b1.trans a1, b2.trans a2, b3.trans a3, b4.trans a4, b5.trans a5⟩

theorem deliverOne_wkeep (c : Chan) : WKeep c (deliverOne c) := by
  simp only [deliverOne]; split <;> exact ⟨rfl, rfl, rfl, rfl, rfl⟩

theorem deliverN_wkeep (n : Nat) (c : Chan) : WKeep c (deliverN n c) := by
  induction n generalizing c with
  | zero => exact wkeep_refl c
  | succ n ih => exact wkeep_andThen (deliverOne_wkeep c) (fun c' _ => ih c')

/-- with the send side closed, `_flush_recv_buf` does not touch the writer side (the only path to it is the
    `write_eof()` after `eof_received()` returned false, taken only while the send side is open) -/
theorem flushRecvBuf_wkeep (c : Chan) (hs : c.sendSt = .closed) : WKeep c (flushRecvBuf c) := by
  unfold flushRecvBuf
  refine wkeep_andThen (wkeep_andThen ?_ ?_) ?_
  · split
    · exact deliverN_wkeep c.recvBuf { c with recvBuf := 0 }
    · exact wkeep_refl c
  · intro c' hc'
    simp only [flushEofPart]
    split
    · split
      · split
        · rename_i h; rw [show c'.sendSt = .closed from hc'.trans hs] at h; exact absurd h.2 (by simp)
        · exact ⟨rfl, rfl, rfl, rfl, rfl⟩
      · exact ⟨rfl, rfl, rfl, rfl, rfl⟩
    · exact wkeep_refl c'
  · intro c' _
    simp only [flushClosePart]
    split
    · exact ⟨rfl, rfl, rfl, rfl, rfl⟩
    · exact wkeep_refl c'

/-- `_close_send(); _pause_resume_writing()` with the session attached: writing is not paused afterwards, everybody
    who was blocked in `drain()` has been released, and no exception was raised -/
theorem closeSendResume_writer (c : Chan) (hs : c.session = true) (hd : c.sendPaused = false → c.drainPending = 0) :
    let r := (closeSend c).andThen pauseResumeWriting
    r.err = none ∧ r.c.sendPaused = false ∧ r.c.drainPending = 0 ∧
    r.c.drainDone + r.c.drainPending = c.drainDone + c.drainPending ∧ r.c.sendSt = .closed ∧ r.c.session = true := by
  intro r
  have hne := closeSend_noerr c
  have hr : r = { c := (pauseResumeWriting (closeSend c).c).c,
                  acts := (closeSend c).acts ++ (pauseResumeWriting (closeSend c).c).acts,
                  err := (pauseResumeWriting (closeSend c).c).err } := by
    show (closeSend c).andThen pauseResumeWriting = _
    unfold R.andThen; rw [hne]
  have hcs : (closeSend c).c.sendBuf = 0 ∧ (closeSend c).c.sendPaused = c.sendPaused ∧
      (closeSend c).c.session = c.session ∧ (closeSend c).c.drainPending = c.drainPending ∧
      (closeSend c).c.drainDone = c.drainDone ∧ (closeSend c).c.sendSt = .closed := by
    simp only [closeSend]; split
    · exact ⟨rfl, rfl, rfl, rfl, rfl, rfl⟩
    · rename_i h; exact ⟨rfl, rfl, rfl, rfl, rfl, by simpa using h⟩
  obtain ⟨b0, b1, b2, b3, b4, b5⟩ := hcs
  rw [hr]
  generalize (closeSend c).c = x at b0 b1 b2 b3 b4 b5
  simp only [pauseResumeWriting]
  cases hp : c.sendPaused with
  | true =>
    have hxp : x.sendPaused = true := b1.trans hp
    have hxs : x.session = true := b2.trans hs
    simp [hxp, b0, hxs, R.ok, b3, b4, b5]
  | false =>
    have hxp : x.sendPaused = false := b1.trans hp
    have hz := hd hp
    simp [hxp, b0, R.ok, b3, b4, b5, hz, b2, hs]

/-! ### an invariant of every run: once the peer's CLOSE has been processed, nobody waits in `drain()` -/

/-- writer-side invariant of one channel object (with the two facts about the state variables it rests on) -/
structure WI (c : Chan) : Prop where
  w1 : c.sendPaused = false → c.drainPending = 0
  w2 : (c.recvSt = .closePending ∨ c.recvSt = .closed) → c.sendPaused = false
  w3 : c.sendSt = .closed → c.sendBuf = 0
  w4 : c.session = false → c.drainPending = 0
  d2 : (c.recvSt = .closePending ∨ c.recvSt = .closed) → c.sendSt = .closed
  sl : c.recvSt ≠ .closed → c.session = true

macro "wi_tac" h:ident "[" ds:Lean.Parser.Tactic.simpLemma,* "]" : tactic =>
  `(tactic| (obtain ⟨w1, w2, w3, w4, d2, sl⟩ := $h
             simp only [$ds,*, R.ok, R.fail, ok_c, fail_c, pre_c]
             repeat' split
             all_goals (constructor <;> (try simp only [R.ok, R.fail, ok_c, fail_c, pre_c]) <;> grind)))

theorem closeSend_wi (c : Chan) (h : WI c) : WI (closeSend c).c := by wi_tac h [closeSend]
theorem discardRecv_wi (c : Chan) (h : WI c) : WI (discardRecv c).c := by wi_tac h [discardRecv]
theorem pauseResumeWriting_wi (c : Chan) (h : WI c) : WI (pauseResumeWriting c).c := by wi_tac h [pauseResumeWriting]
theorem closeSendEof_wi (c : Chan) (h : WI c) (hb : c.sendBuf = 0) : WI (closeSendEof c).c := by
  wi_tac h [closeSendEof, closeSend]
theorem flushSendTail_wi (c : Chan) (h : WI c) : WI (flushSendTail c).c := by
  wi_tac h [flushSendTail, closeSendEof, closeSend]

theorem flushSendBuf_wi (c : Chan) (h : WI c) : WI (flushSendBuf c).c := by
  unfold flushSendBuf
  refine andThen_c _ _ ?_ flushSendTail_wi
  simp only [pre_c]
  apply pauseResumeWriting_wi
  obtain ⟨w1, w2, w3, w4, d2, sl⟩ := h
  constructor <;> grind

theorem writeEof_wi (c : Chan) (h : WI c) : WI (writeEof c).c := by
  unfold writeEof
  split
  · apply flushSendBuf_wi
    obtain ⟨w1, w2, w3, w4, d2, sl⟩ := h
    constructor <;> grind
  · exact h

theorem deliverOne_wi (c : Chan) (h : WI c) : WI (deliverOne c).c := by wi_tac h [deliverOne]

theorem deliverN_wi (n : Nat) (c : Chan) (h : WI c) : WI (deliverN n c).c := by
  induction n generalizing c with
  | zero => exact h
  | succ n ih => exact andThen_c _ _ (deliverOne_wi c h) ih

theorem flushEofPart_wi (c : Chan) (h : WI c) : WI (flushEofPart c).c := by
  simp only [flushEofPart]
  split
  · split
    · split
      · apply writeEof_wi
        obtain ⟨w1, w2, w3, w4, d2, sl⟩ := h
        constructor <;> grind
      · obtain ⟨w1, w2, w3, w4, d2, sl⟩ := h
        constructor <;> simp only [ok_c] <;> grind
    · obtain ⟨w1, w2, w3, w4, d2, sl⟩ := h
      constructor <;> simp only [fail_c] <;> grind
  · exact h

theorem flushClosePart_wi (c : Chan) (h : WI c) : WI (flushClosePart c).c := by wi_tac h [flushClosePart]

theorem flushRecvBuf_wi (c : Chan) (h : WI c) : WI (flushRecvBuf c).c := by
  unfold flushRecvBuf
  refine andThen_c _ _ (andThen_c _ _ ?_ flushEofPart_wi) flushClosePart_wi
  split
  · apply deliverN_wi
    obtain ⟨w1, w2, w3, w4, d2, sl⟩ := h
    constructor <;> grind
  · exact h

theorem acceptData_wi (c : Chan) (h : WI c) : WI (acceptData c).c := by
  unfold acceptData
  split
  · exact h
  · split
    · obtain ⟨w1, w2, w3, w4, d2, sl⟩ := h
      constructor <;> simp only [ok_c] <;> grind
    · exact deliverOne_wi c h

theorem resumeReading_wi (c : Chan) (h : WI c) : WI (resumeReading c).c := by
  unfold resumeReading
  split
  · apply flushRecvBuf_wi
    obtain ⟨w1, w2, w3, w4, d2, sl⟩ := h
    constructor <;> grind
  · exact h

theorem processData_wi (c : Chan) (h : WI c) : WI (processData c).c := by
  unfold processData
  split
  · exact h
  · split
    · exact h
    · exact acceptData_wi c h

theorem processEof_wi (c : Chan) (h : WI c) : WI (processEof c).c := by
  unfold processEof
  split
  · exact h
  · apply flushRecvBuf_wi
    obtain ⟨w1, w2, w3, w4, d2, sl⟩ := h
    constructor <;> grind

/-- the step that matters: `_process_close` leaves nobody waiting in `drain()` -/
theorem processClose_wi (c : Chan) (h : WI c) : WI (processClose c).c := by
  unfold processClose
  split
  · exact h
  · rename_i hl
    have hsess : c.session = true := h.sl (by intro hc; simp [recvLive, hc] at hl)
    obtain ⟨e0, e1, e2, _, e4, e5⟩ := closeSendResume_writer c hsess h.w1
    have hk := closeSendResume_recv c
    have hwi : WI ((closeSend c).andThen pauseResumeWriting).c :=
      andThen_c _ _ (closeSend_wi c h) pauseResumeWriting_wi
    generalize (closeSend c).andThen pauseResumeWriting = r at e0 e1 e2 e4 e5 hk hwi
    rw [(andThen_of_noerr _ _ e0).1]
    apply flushRecvBuf_wi
    obtain ⟨w1, w2, w3, w4, d2, sl⟩ := hwi
    constructor <;> grind

theorem processAdjust_wi (n : Nat) (c : Chan) (h : WI c) : WI (processAdjust c n).c := by
  unfold processAdjust
  split
  · exact h
  · apply flushSendBuf_wi
    obtain ⟨w1, w2, w3, w4, d2, sl⟩ := h
    constructor <;> grind

theorem handleReq_wi (k : ReqKind) (c : Chan) (h : WI c) : WI (handleReq c k).1.c := by
  obtain ⟨w1, w2, w3, w4, d2, sl⟩ := h
  cases hsv : c.server <;> cases k <;> simp only [handleReq, hsv] <;> (try split) <;>
    (constructor <;> simp only [ok_c, fail_c] <;> grind)

theorem reportResponse_wi (k : ReqKind) (w r : Bool) (c : Chan) (h : WI c) : WI (reportResponse c k w r).c := by
  simp only [reportResponse]
  split
  · split
    · simp only [pre_c]
      apply resumeReading_wi
      obtain ⟨w1, w2, w3, w4, d2, sl⟩ := h
      constructor <;> grind
    · exact h
  · exact h

theorem processRequest_wi (k : ReqKind) (w : Bool) (c : Chan) (h : WI c) : WI (processRequest c k w).c := by
  simp only [processRequest]
  split
  · exact h
  · split
    · exact h
    · exact andThen_c _ _ (handleReq_wi k c h) (fun c hc => reportResponse_wi k w _ c hc)

theorem processResponse_wi (ok : Bool) (c : Chan) (h : WI c) : WI (processResponse c ok).c := by
  wi_tac h [processResponse]

theorem processMsg_wi (m : CMsg) (c : Chan) (h : WI c) : WI (processMsg c m).c := by
  cases m with
  | data => exact processData_wi c h
  | eof => exact processEof_wi c h
  | close => exact processClose_wi c h
  | adjust n => exact processAdjust_wi n c h
  | req k w => exact processRequest_wi k w c h
  | success => exact processResponse_wi true c h
  | failure => exact processResponse_wi false c h

theorem write_wi (c : Chan) (h : WI c) : WI (write c).c := by
  unfold write
  split
  · exact h
  · apply flushSendBuf_wi
    obtain ⟨w1, w2, w3, w4, d2, sl⟩ := h
    constructor <;> grind

theorem abort_wi (c : Chan) (h : WI c) : WI (abort c).c := by
  unfold abort
  refine andThen_c _ _ ?_ ?_
  · split
    · exact closeSend_wi c h
    · exact h
  · intro c hc
    split
    · exact discardRecv_wi c hc
    · exact hc

theorem close_wi (c : Chan) (h : WI c) : WI (close c).c := by
  unfold close
  refine andThen_c _ _ ?_ ?_
  · split
    · apply flushSendBuf_wi
      obtain ⟨w1, w2, w3, w4, d2, sl⟩ := h
      constructor <;> grind
    · exact h
  · intro c hc
    split
    · exact discardRecv_wi c hc
    · exact hc

theorem appOp_wi (o : AppOp) (c : Chan) (h : WI c) : WI (appOp c o).c := by
  cases o with
  | write => exact write_wi c h
  | eof => exact writeEof_wi c h
  | close => exact close_wi c h
  | abort => exact abort_wi c h
  | pause => wi_tac h [appOp, pauseReading]
  | resume => exact resumeReading_wi c h
  | exit =>
    simp only [appOp]
    split
    · simp only [exit]
      split
      · simp only [pre_c]; exact close_wi c h
      · exact h
    · exact h
  | limits hi lo =>
    simp only [appOp, setLimits]
    apply pauseResumeWriting_wi
    obtain ⟨w1, w2, w3, w4, d2, sl⟩ := h
    constructor <;> grind
  | drain =>
    obtain ⟨w1, w2, w3, w4, d2, sl⟩ := h
    simp only [appOp, drain, ok_c]
    split <;> (constructor <;> grind)

/-- `_cleanup` runs only once the receive side is closed -/
theorem cleanup_wi (e : Exc) (c : Chan) (h : WI c) (hr : c.recvSt = .closed) : WI (cleanup c e).c := by
  obtain ⟨w1, w2, w3, w4, d2, sl⟩ := h
  simp only [cleanup, R.ok]
  (repeat' split) <;> (constructor <;> grind)

theorem wi_step (h : HS) (ev : HEv) (hi : HInv h) (ha : WI h.a) (hb : WI h.b) : WI (h.step ev).a ∧ WI (h.step ev).b := by
  unfold HS.step
  split
  · exact ⟨ha, hb⟩
  · rename_i hen
    cases ev with
    | app sideA o =>
      cases sideA with
      | true => exact ⟨appOp_wi o h.a ha, hb⟩
      | false => exact ⟨ha, appOp_wi o h.b hb⟩
    | deliver toB =>
      cases toB with
      | true =>
        simp only
        cases hab : h.ab with
        | nil => exact ⟨ha, hb⟩
        | cons m rest => exact ⟨ha, processMsg_wi m h.b hb⟩
      | false =>
        simp only
        cases hba : h.ba with
        | nil => exact ⟨ha, hb⟩
        | cons m rest => exact ⟨processMsg_wi m h.a ha, hb⟩
    | cleanup sideA =>
      cases sideA with
      | true =>
        have hpos : 0 < h.ca := by
          have : h.enabled (.cleanup true) = true := by simpa using hen
          simp [HS.enabled] at this; exact this.2
        exact ⟨cleanup_wi .clean h.a ha (hi.d9a hpos), hb⟩
      | false =>
        have hpos : 0 < h.cb := by
          have : h.enabled (.cleanup false) = true := by simpa using hen
          simp [HS.enabled] at this; exact this.2
        exact ⟨ha, cleanup_wi .clean h.b hb (hi.d9b hpos)⟩

theorem wi_run (evs : List HEv) (h : HS) (hi : HInv h) (ha : WI h.a) (hb : WI h.b) :
    WI (h.run evs).a ∧ WI (h.run evs).b := by
  induction evs generalizing h with
  | nil => exact ⟨ha, hb⟩
  | cons ev rest ih =>
    have := wi_step h ev hi ha hb
    exact ih _ (hinv_step h ev hi) this.1 this.2

theorem wi_init (w : Nat) : WI (HS.init w).a ∧ WI (HS.init w).b := by
  constructor <;> (constructor <;> simp [HS.init])

/-! ### window accounting: what is written against the peer's window is either delivered, buffered or credited -/

/-- numeric invariant of one channel object -/
structure NInv (c : Chan) : Prop where
  n1 : 1 ≤ c.initWin
  n2 : 1 ≤ c.recvWin ∧ c.recvWin ≤ c.initWin
  n4 : c.sendBuf = 0 ∨ c.sendWin = 0
  n5 : c.sendSt = .closePending → 0 < c.sendBuf
  n6 : c.sendSt = .closed → c.sendBuf = 0
  n7 : c.sendSt ≠ .closed → c.sendChan.isSome = true
  d2 : (c.recvSt = .closePending ∨ c.recvSt = .closed) → c.sendSt = .closed
  sl : c.recvSt ≠ .closed → c.session = true

macro "ni_tac" h:ident "[" ds:Lean.Parser.Tactic.simpLemma,* "]" : tactic =>
  `(tactic| (obtain ⟨n1, n2, n4, n5, n6, n7, d2, sl⟩ := $h
             simp only [$ds,*, R.ok, R.fail, ok_c, fail_c, pre_c]
             repeat' split
             all_goals (constructor <;> (try simp only [R.ok, R.fail, ok_c, fail_c, pre_c]) <;> grind)))

theorem closeSend_ni (c : Chan) (h : NInv c) : NInv (closeSend c).c := by ni_tac h [closeSend]
theorem discardRecv_ni (c : Chan) (h : NInv c) : NInv (discardRecv c).c := by ni_tac h [discardRecv]
theorem pauseResumeWriting_ni (c : Chan) (h : NInv c) : NInv (pauseResumeWriting c).c := by ni_tac h [pauseResumeWriting]
theorem flushSendTail_ni (c : Chan) (h : NInv c) : NInv (flushSendTail c).c := by
  ni_tac h [flushSendTail, closeSendEof, closeSend]

/-- `NInv` without "a pending close still has data to send": what holds between the parts of `_flush_send_buf` -/
structure NW (c : Chan) : Prop where
  n1 : 1 ≤ c.initWin
  n2 : 1 ≤ c.recvWin ∧ c.recvWin ≤ c.initWin
  n4 : c.sendBuf = 0 ∨ c.sendWin = 0
  n6 : c.sendSt = .closed → c.sendBuf = 0
  n7 : c.sendSt ≠ .closed → c.sendChan.isSome = true
  d2 : (c.recvSt = .closePending ∨ c.recvSt = .closed) → c.sendSt = .closed
  sl : c.recvSt ≠ .closed → c.session = true

/-- `NInv` without "unsent data waits on a zero window" and "a pending close still has data to send": what holds
    when `_flush_send_buf` is entered (after a write, a window adjust, `close()`) -/
structure NP (c : Chan) : Prop where
  n1 : 1 ≤ c.initWin
  n2 : 1 ≤ c.recvWin ∧ c.recvWin ≤ c.initWin
  n6 : c.sendSt = .closed → c.sendBuf = 0
  n7 : c.sendSt ≠ .closed → c.sendChan.isSome = true
  d2 : (c.recvSt = .closePending ∨ c.recvSt = .closed) → c.sendSt = .closed
  sl : c.recvSt ≠ .closed → c.session = true

theorem NInv.np {c : Chan} (h : NInv c) : NP c := ⟨h.n1, h.n2, h.n6, h.n7, h.d2, h.sl⟩

theorem nw_sent (c : Chan) (h : NP c) :
    NW { c with sendBuf := c.sendBuf - min c.sendBuf c.sendWin, sendWin := c.sendWin - min c.sendBuf c.sendWin } := by
  obtain ⟨n1, n2, n6, n7, d2, sl⟩ := h
  constructor <;> (try simp only) <;> (try assumption)
  · rcases Nat.le_total c.sendBuf c.sendWin with hle | hle
    · left; rw [Nat.min_eq_left hle]; omega
    · right; rw [Nat.min_eq_right hle]; omega
  · intro hs; have := n6 hs; omega

theorem pauseResumeWriting_nw (c : Chan) (h : NW c) :
    NW (pauseResumeWriting c).c ∧ ((pauseResumeWriting c).err ≠ none → c.session = false) := by
  obtain ⟨n1, n2, n4, n6, n7, d2, sl⟩ := h
  simp only [pauseResumeWriting]
  (repeat' split) <;> (refine ⟨?_, ?_⟩ <;> first | (constructor <;> (try simp only [R.ok, R.fail]) <;> grind) | simp_all [R.ok, R.fail])

theorem flushSendTail_of_nw (c : Chan) (h : NW c) : NInv (flushSendTail c).c := by
  obtain ⟨n1, n2, n4, n6, n7, d2, sl⟩ := h
  simp only [flushSendTail, closeSendEof, closeSend, R.ok, R.pre]
  (repeat' split) <;> (constructor <;> grind)

/-- case analysis on whether the first part raised -/
theorem andThen_c3 {P : Chan → Prop} (r : R) (f : Chan → R) (he : r.err ≠ none → P r.c)
    (hf : r.err = none → P (f r.c).c) : P (r.andThen f).c := by
  unfold R.andThen
  split
  · rename_i e h; exact he (by rw [h]; simp)
  · rename_i h; exact hf h

theorem flushSendBuf_ni (c : Chan) (h : NP c) : NInv (flushSendBuf c).c := by
  unfold flushSendBuf
  obtain ⟨hw, he⟩ := pauseResumeWriting_nw _ (nw_sent c h)
  apply andThen_c3
  · intro herr
    -- the assertion of `_pause_resume_writing` failed: the session is gone, so the channel is closed both ways
    have hsess := he herr
    simp only [pre_c]
    obtain ⟨n1, n2, n4, n6, n7, d2, sl⟩ := hw
    have hst := (pauseResumeWriting_same
      { c with sendBuf := c.sendBuf - min c.sendBuf c.sendWin, sendWin := c.sendWin - min c.sendBuf c.sendWin })
    refine ⟨n1, n2, n4, ?_, n6, n7, d2, sl⟩
    intro hcp
    exfalso
    have hrs : c.recvSt = .closed := by
      cases hr : c.recvSt with
      | closed => rfl
      | _ => have := h.sl (by rw [hr]; simp); simp only at hsess; rw [this] at hsess; cases hsess
    have := h.d2 (Or.inr hrs)
    rw [hst.2.2.1] at hcp
    simp only at hcp
    rw [this] at hcp; cases hcp
  · intro _
    simp only [pre_c]
    exact flushSendTail_of_nw _ hw

theorem writeEof_ni (c : Chan) (h : NInv c) : NInv (writeEof c).c := by
  unfold writeEof
  split
  · apply flushSendBuf_ni
    obtain ⟨n1, n2, n4, n5, n6, n7, d2, sl⟩ := h
    constructor <;> grind
  · exact h

theorem deliverOne_ni (c : Chan) (h : NInv c) : NInv (deliverOne c).c := by
  obtain ⟨n1, n2, n4, n5, n6, n7, d2, sl⟩ := h
  simp only [deliverOne]
  (repeat' split) <;> (constructor <;> (try simp only [R.ok, decide_eq_true_eq] at *) <;> (try assumption) <;> (try omega))

theorem deliverN_ni (n : Nat) (c : Chan) (h : NInv c) : NInv (deliverN n c).c := by
  induction n generalizing c with
  | zero => exact h
  | succ n ih => exact andThen_c _ _ (deliverOne_ni c h) ih

theorem flushEofPart_ni (c : Chan) (h : NInv c) : NInv (flushEofPart c).c := by
  simp only [flushEofPart]
  split
  · split
    · split
      · apply writeEof_ni
        obtain ⟨n1, n2, n4, n5, n6, n7, d2, sl⟩ := h
        constructor <;> grind
      · obtain ⟨n1, n2, n4, n5, n6, n7, d2, sl⟩ := h
        constructor <;> simp only [ok_c] <;> grind
    · obtain ⟨n1, n2, n4, n5, n6, n7, d2, sl⟩ := h
      constructor <;> simp only [fail_c] <;> grind
  · exact h

theorem flushClosePart_ni (c : Chan) (h : NInv c) : NInv (flushClosePart c).c := by ni_tac h [flushClosePart]

theorem flushRecvBuf_ni (c : Chan) (h : NInv c) : NInv (flushRecvBuf c).c := by
  unfold flushRecvBuf
  refine andThen_c _ _ (andThen_c _ _ ?_ flushEofPart_ni) flushClosePart_ni
  split
  · apply deliverN_ni
    obtain ⟨n1, n2, n4, n5, n6, n7, d2, sl⟩ := h
    constructor <;> grind
  · exact h

theorem acceptData_ni (c : Chan) (h : NInv c) : NInv (acceptData c).c := by
  unfold acceptData
  split
  · exact h
  · split
    · obtain ⟨n1, n2, n4, n5, n6, n7, d2, sl⟩ := h
      constructor <;> simp only [ok_c] <;> grind
    · exact deliverOne_ni c h

theorem resumeReading_ni (c : Chan) (h : NInv c) : NInv (resumeReading c).c := by
  unfold resumeReading
  split
  · apply flushRecvBuf_ni
    obtain ⟨n1, n2, n4, n5, n6, n7, d2, sl⟩ := h
    constructor <;> grind
  · exact h

theorem processData_ni (c : Chan) (h : NInv c) : NInv (processData c).c := by
  unfold processData
  split
  · exact h
  · split
    · exact h
    · exact acceptData_ni c h

theorem processEof_ni (c : Chan) (h : NInv c) : NInv (processEof c).c := by
  unfold processEof
  split
  · exact h
  · apply flushRecvBuf_ni
    obtain ⟨n1, n2, n4, n5, n6, n7, d2, sl⟩ := h
    constructor <;> grind

theorem processClose_ni (c : Chan) (h : NInv c) : NInv (processClose c).c := by
  unfold processClose
  split
  · exact h
  · rename_i hl
    have hk := closeSendResume_recv c
    have hni : NInv ((closeSend c).andThen pauseResumeWriting).c :=
      andThen_c _ _ (closeSend_ni c h) pauseResumeWriting_ni
    generalize (closeSend c).andThen pauseResumeWriting = r at hk hni
    refine andThen_c2 (Q := fun x => NInv x ∧ x.sendSt = .closed ∧ x.recvSt = c.recvSt) _ _ ⟨hni, hk.2.2, hk.1⟩
      (fun hq => hq.1) ?_
    intro c' ⟨hc', hs', hr'⟩
    apply flushRecvBuf_ni
    have hlive : c'.recvSt ≠ .closed := by
      rw [hr']; intro hc; simp [recvLive, hc] at hl
    obtain ⟨n1, n2, n4, n5, n6, n7, d2, sl⟩ := hc'
    have := sl hlive
    constructor <;> grind

theorem processAdjust_ni (n : Nat) (c : Chan) (h : NInv c) : NInv (processAdjust c n).c := by
  unfold processAdjust
  split
  · exact h
  · rename_i hl
    apply flushSendBuf_ni
    obtain ⟨n1, n2, n4, n5, n6, n7, d2, sl⟩ := h
    constructor <;> (try simp only) <;> assumption

theorem handleReq_ni (k : ReqKind) (c : Chan) (h : NInv c) : NInv (handleReq c k).1.c := by
  obtain ⟨n1, n2, n4, n5, n6, n7, d2, sl⟩ := h
  cases hsv : c.server <;> cases k <;> simp only [handleReq, hsv] <;> (try split) <;>
    (constructor <;> simp only [ok_c, fail_c] <;> grind)

theorem reportResponse_ni (k : ReqKind) (w r : Bool) (c : Chan) (h : NInv c) : NInv (reportResponse c k w r).c := by
  simp only [reportResponse]
  split
  · split
    · simp only [pre_c]
      apply resumeReading_ni
      obtain ⟨n1, n2, n4, n5, n6, n7, d2, sl⟩ := h
      constructor <;> grind
    · exact h
  · exact h

theorem processRequest_ni (k : ReqKind) (w : Bool) (c : Chan) (h : NInv c) : NInv (processRequest c k w).c := by
  simp only [processRequest]
  split
  · exact h
  · split
    · exact h
    · exact andThen_c _ _ (handleReq_ni k c h) (fun c hc => reportResponse_ni k w _ c hc)

theorem processResponse_ni (ok : Bool) (c : Chan) (h : NInv c) : NInv (processResponse c ok).c := by
  ni_tac h [processResponse]

theorem processMsg_ni (m : CMsg) (c : Chan) (h : NInv c) : NInv (processMsg c m).c := by
  cases m with
  | data => exact processData_ni c h
  | eof => exact processEof_ni c h
  | close => exact processClose_ni c h
  | adjust n => exact processAdjust_ni n c h
  | req k w => exact processRequest_ni k w c h
  | success => exact processResponse_ni true c h
  | failure => exact processResponse_ni false c h

theorem write_ni (c : Chan) (h : NInv c) : NInv (write c).c := by
  unfold write
  split
  · exact h
  · apply flushSendBuf_ni
    obtain ⟨n1, n2, n4, n5, n6, n7, d2, sl⟩ := h
    constructor <;> grind

theorem abort_ni (c : Chan) (h : NInv c) : NInv (abort c).c := by
  unfold abort
  refine andThen_c _ _ ?_ ?_
  · split
    · exact closeSend_ni c h
    · exact h
  · intro c hc
    split
    · exact discardRecv_ni c hc
    · exact hc

/-- `close()` on a channel still open for sending: the flush either sends everything and the CLOSE, or leaves
    `close_pending` with data waiting on a zero window -/
theorem close_ni (c : Chan) (h : NInv c) : NInv (close c).c := by
  unfold close
  refine andThen_c _ _ ?_ ?_
  · split
    · rename_i hs
      apply flushSendBuf_ni
      obtain ⟨n1, n2, n4, n5, n6, n7, d2, sl⟩ := h
      constructor <;> grind
    · exact h
  · intro c hc
    split
    · exact discardRecv_ni c hc
    · exact hc

theorem appOp_ni (o : AppOp) (c : Chan) (h : NInv c) : NInv (appOp c o).c := by
  cases o with
  | write => exact write_ni c h
  | eof => exact writeEof_ni c h
  | close => exact close_ni c h
  | abort => exact abort_ni c h
  | pause => ni_tac h [appOp, pauseReading]
  | resume => exact resumeReading_ni c h
  | exit =>
    simp only [appOp]
    split
    · simp only [exit]
      split
      · simp only [pre_c]; exact close_ni c h
      · exact h
    · exact h
  | limits hi lo =>
    simp only [appOp, setLimits]
    apply pauseResumeWriting_ni
    obtain ⟨n1, n2, n4, n5, n6, n7, d2, sl⟩ := h
    constructor <;> grind
  | drain =>
    obtain ⟨n1, n2, n4, n5, n6, n7, d2, sl⟩ := h
    simp only [appOp, drain, ok_c]
    split <;> (constructor <;> grind)

theorem cleanup_ni (e : Exc) (c : Chan) (h : NInv c) (hr : c.recvSt = .closed) : NInv (cleanup c e).c := by
  obtain ⟨n1, n2, n4, n5, n6, n7, d2, sl⟩ := h
  have := d2 (Or.inr hr)
  simp only [cleanup, R.ok]
  (repeat' split) <;> (constructor <;> grind)

/-! ### the ledger of one direction: sender's window + data in flight + undelivered data + credit in flight -/

def dataCnt : List CMsg → Nat
  | [] => 0
  | .data :: r => dataCnt r + 1
  | _ :: r => dataCnt r

def adjSum : List CMsg → Nat
  | [] => 0
  | .adjust n :: r => adjSum r + n
  | _ :: r => adjSum r

theorem dataCnt_append (a b : List CMsg) : dataCnt (a ++ b) = dataCnt a + dataCnt b := by
  induction a with
  | nil => simp [dataCnt]
  | cons x r ih => cases x <;> simp [dataCnt, ih] <;> omega

theorem adjSum_append (a b : List CMsg) : adjSum (a ++ b) = adjSum a + adjSum b := by
  induction a with
  | nil => simp [adjSum]
  | cons x r ih => cases x <;> simp [adjSum, ih] <;> omega

/-- DATA packets / window credit among the actions of a method call -/
def dOut (acts : List Act) : Nat := dataCnt (sentMsgs acts)
def aOut (acts : List Act) : Nat := adjSum (sentMsgs acts)

@[simp] theorem dOut_nil : dOut [] = 0 := rfl
@[simp] theorem aOut_nil : aOut [] = 0 := rfl
theorem dOut_append (a b : List Act) : dOut (a ++ b) = dOut a + dOut b := by simp [dOut, sentMsgs_append, dataCnt_append]
theorem aOut_append (a b : List Act) : aOut (a ++ b) = aOut a + aOut b := by simp [aOut, sentMsgs_append, adjSum_append]

theorem dOut_sendPkt (c : Chan) (m : CMsg) (hm : m ≠ .data) : dOut (sendPkt c m) = 0 := by
  unfold sendPkt; split
  · cases m <;> simp_all [dOut, sentMsgs, dataCnt]
  · rfl

theorem aOut_sendPkt (c : Chan) (m : CMsg) (hm : ∀ n, m ≠ .adjust n) : aOut (sendPkt c m) = 0 := by
  unfold sendPkt; split
  · cases m <;> simp_all [aOut, sentMsgs, adjSum]
  · rfl

theorem aOut_adjust (c : Chan) (n : Nat) (h : c.sendChan.isSome = true) : aOut (sendPkt c (.adjust n)) = n := by
  cases hs : c.sendChan with
  | none => rw [hs] at h; cases h
  | some k => simp [sendPkt, hs, aOut, sentMsgs, adjSum]

theorem dOut_data_replicate (c : Chan) (k : Nat) (h : 0 < k → c.sendChan.isSome = true) :
    dOut ((List.replicate k ()).flatMap (fun _ => sendPkt c .data)) = k := by
  induction k with
  | zero => rfl
  | succ n ih =>
    have hs := h (Nat.succ_pos n)
    cases hc : c.sendChan with
    | none => rw [hc] at hs; cases hs
    | some j =>
      simp only [List.replicate_succ, List.flatMap_cons, dOut_append]
      rw [ih (fun _ => hs)]
      simp [sendPkt, hc, dOut, sentMsgs, dataCnt]; omega

theorem aOut_data_replicate (c : Chan) (k : Nat) :
    aOut ((List.replicate k ()).flatMap (fun _ => sendPkt c .data)) = 0 := by
  induction k with
  | zero => rfl
  | succ n ih =>
    simp only [List.replicate_succ, List.flatMap_cons, aOut_append, ih]
    exact aOut_sendPkt c .data (by simp)

/-- effect of a method call on the two ledgers its endpoint takes part in: `cd` DATA packets / `ca` bytes of credit
    were consumed from the incoming link by this call -/
structure Led (c : Chan) (r : R) (cd ca : Nat) : Prop where
  snd : r.c.sendWin + dOut r.acts = c.sendWin + ca
  rcv : r.c.sendSt ≠ .closed → r.c.recvWin + cd + c.recvBuf = c.recvWin + r.c.recvBuf + aOut r.acts
  mono : c.sendSt = .closed → r.c.sendSt = .closed

theorem led_refl (c : Chan) : Led c (R.ok c) 0 0 := ⟨by simp [R.ok], by simp [R.ok], id⟩
theorem led_fail (c : Chan) (e : Exc) : Led c (R.fail c e) 0 0 := ⟨by simp [R.fail], by simp [R.fail], id⟩

theorem led_andThen {c : Chan} {r : R} {f : Chan → R} {cd ca : Nat} {Q : Chan → Prop} (h1 : Led c r cd ca) (hq : Q r.c)
    (h2 : ∀ c', Q c' → Led c' (f c') 0 0) : Led c (r.andThen f) cd ca := by
  unfold R.andThen
  split
  · exact h1
  · have g := h2 r.c hq
    refine ⟨?_, ?_, fun h => g.mono (h1.mono h)⟩
    · have := h1.snd; have := g.snd; simp only [dOut_append]; omega
    · intro hs
      have hm : r.c.sendSt ≠ .closed := fun hc => hs (g.mono hc)
      have := h1.rcv hm; have := g.rcv hs
      simp only [aOut_append]; omega

theorem led_pre {c : Chan} {r : R} {cd ca : Nat} (acts : List Act) (hd : dOut acts = 0) (ha : aOut acts = 0)
    (h : Led c r cd ca) : Led c (r.pre acts) cd ca := by
  refine ⟨?_, ?_, h.mono⟩
  · have := h.snd; simp only [R.pre, dOut_append, hd]; omega
  · intro hs; have := h.rcv hs; simp only [R.pre, aOut_append, ha]; omega

/-- restate for a start state with the same numbers -/
theorem Led.cast {c c0 : Chan} {r : R} {cd ca : Nat} (h : Led c0 r cd ca) (e1 : c0.sendWin = c.sendWin)
    (e2 : c0.recvWin = c.recvWin) (e3 : c0.recvBuf = c.recvBuf) (e4 : c.sendSt = .closed → c0.sendSt = .closed) :
    Led c r cd ca :=
  ⟨by rw [← e1]; exact h.snd, by rw [← e2, ← e3]; exact h.rcv, fun x => h.mono (e4 x)⟩

theorem closeSend_led (c : Chan) : Led c (closeSend c) 0 0 := by
  simp only [closeSend]
  split
  · exact ⟨by simp [R.ok, dOut_sendPkt], fun h => absurd rfl h, fun _ => rfl⟩
  · exact led_refl _ |>.cast rfl rfl rfl id

theorem discardRecv_led (c : Chan) (h : NInv c) : Led c (discardRecv c) 0 0 := by
  have hd : dOut (if 0 < c.recvBuf then sendPkt c (.adjust c.recvBuf) else []) = 0 := by
    split
    · exact dOut_sendPkt _ _ (by simp)
    · rfl
  have ha : c.sendSt ≠ .closed → aOut (if 0 < c.recvBuf then sendPkt c (.adjust c.recvBuf) else []) = c.recvBuf := by
    intro hs
    split
    · exact aOut_adjust _ _ (h.n7 hs)
    · simp only [aOut_nil] <;> omega
  have hsched : ∀ e, dOut [Act.sched e] = 0 ∧ aOut [Act.sched e] = 0 := fun e => ⟨rfl, rfl⟩
  simp only [discardRecv]
  split
  · refine ⟨?_, ?_, id⟩
    · simp only [R.ok, dOut_append, hd, (hsched _).1]
    · intro hs; simp only [R.ok, aOut_append, (hsched _).2, ha hs]; omega
  · refine ⟨?_, ?_, id⟩
    · simp only [R.ok, hd]
    · intro hs; simp only [R.ok, ha hs] <;> omega

theorem pauseResumeWriting_led (c : Chan) : Led c (pauseResumeWriting c) 0 0 := by
  obtain ⟨e1, e2, e3, _, _, _, _, e8⟩ := pauseResumeWriting_same c
  have e9 : (pauseResumeWriting c).c.sendWin = c.sendWin ∧ (pauseResumeWriting c).c.recvWin = c.recvWin := by
    simp only [pauseResumeWriting]; (repeat' split) <;> exact ⟨rfl, rfl⟩
  exact ⟨by rw [e8, e9.1]; simp, fun _ => by rw [e8, e9.2, e2]; simp, fun h => by rw [e3]; exact h⟩

theorem flushSendTail_led (c : Chan) : Led c (flushSendTail c) 0 0 := by
  simp only [flushSendTail]
  split
  · split
    · exact ⟨by simp [R.ok, dOut_sendPkt], fun _ => by simp [R.ok, aOut_sendPkt], fun h => by simp_all⟩
    · simp only [closeSendEof]
      split
      · exact led_pre _ (dOut_sendPkt _ _ (by simp)) (aOut_sendPkt _ _ (by simp))
          ((closeSend_led _).cast rfl rfl rfl id)
      · exact closeSend_led c
    · exact led_refl c
  · exact led_refl c

theorem flushSendBuf_led (c : Chan) (h : NP c) : Led c (flushSendBuf c) 0 0 := by
  unfold flushSendBuf
  have hk : dOut ((List.replicate (min c.sendBuf c.sendWin) ()).flatMap (fun _ => sendPkt c .data)) =
      min c.sendBuf c.sendWin := by
    apply dOut_data_replicate
    intro hpos
    apply h.n7
    intro hc
    have := h.n6 hc
    have := Nat.min_le_left c.sendBuf c.sendWin
    omega
  let c1 : Chan := { c with sendBuf := c.sendBuf - min c.sendBuf c.sendWin, sendWin := c.sendWin - min c.sendBuf c.sendWin }
  have h1 : Led c ((pauseResumeWriting c1).pre
        ((List.replicate (min c.sendBuf c.sendWin) ()).flatMap (fun _ => sendPkt c .data))) 0 0 := by
    have g := pauseResumeWriting_led c1
    have e1 : c1.sendWin = c.sendWin - min c.sendBuf c.sendWin := rfl
    have e2 : c1.recvWin = c.recvWin := rfl
    have e3 : c1.recvBuf = c.recvBuf := rfl
    have e4 : c1.sendSt = c.sendSt := rfl
    have hmin := Nat.min_le_right c.sendBuf c.sendWin
    refine ⟨?_, ?_, fun x => g.mono (e4 ▸ x)⟩
    · have := g.snd
      simp only [R.pre, dOut_append, hk] at this ⊢
      omega
    · intro hs
      have := g.rcv hs
      simp only [R.pre, aOut_append, aOut_data_replicate] at this ⊢
      omega
  exact led_andThen (Q := fun _ => True) h1 trivial (fun c' _ => flushSendTail_led c')

theorem writeEof_led (c : Chan) (h : NInv c) : Led c (writeEof c) 0 0 := by
  unfold writeEof
  split
  · rename_i hs
    have hp : NP { c with sendSt := .eofPending } := by
      obtain ⟨n1, n2, n4, n5, n6, n7, d2, sl⟩ := h
      constructor <;> grind
    exact (flushSendBuf_led _ hp).cast rfl rfl rfl (fun x => by rw [hs] at x; cases x)
  · exact led_refl c

/-- one byte handed to the session: the window shrinks by one or is topped up to `initWin` with the matching credit -/
theorem deliverOne_eq (c : Chan) (h : NInv c) :
    (deliverOne c).c.sendWin = c.sendWin ∧ dOut (deliverOne c).acts = 0 ∧ (deliverOne c).c.sendSt = c.sendSt ∧
    (deliverOne c).c.recvBuf = c.recvBuf ∧
    (c.sendSt ≠ .closed → (deliverOne c).c.recvWin + 1 = c.recvWin + aOut (deliverOne c).acts) := by
  obtain ⟨n1, n2, n4, n5, n6, n7, d2, sl⟩ := h
  simp only [deliverOne]
  have hd : ∀ m, m ≠ CMsg.data → dOut (sendPkt c m) = 0 := fun m hm => dOut_sendPkt c m hm
  by_cases hadj : 2 * (c.recvWin - 1) < c.initWin
  · simp only [hadj, decide_true, if_true]
    split <;> (refine ⟨rfl, hd _ (by simp), rfl, rfl, ?_⟩ <;> intro hs <;> simp only [R.ok] <;>
      rw [aOut_adjust _ _ (n7 hs)] <;> omega)
  · simp only [hadj, decide_false, Bool.false_eq_true, if_false]
    split <;> (refine ⟨rfl, rfl, rfl, rfl, ?_⟩ <;> intro _ <;> simp only [R.ok, aOut_nil] <;> omega)

theorem deliverN_eq (n : Nat) (c : Chan) (h : NInv c) :
    (deliverN n c).c.sendWin = c.sendWin ∧ dOut (deliverN n c).acts = 0 ∧ (deliverN n c).c.sendSt = c.sendSt ∧
    (deliverN n c).c.recvBuf = c.recvBuf ∧
    (c.sendSt ≠ .closed → (deliverN n c).c.recvWin + n = c.recvWin + aOut (deliverN n c).acts) := by
  induction n generalizing c with
  | zero => exact ⟨rfl, rfl, rfl, rfl, fun _ => by simp [deliverN, R.ok]⟩
  | succ n ih =>
    obtain ⟨a1, a2, a3, a4, a5⟩ := deliverOne_eq c h
    obtain ⟨b1, b2, b3, b4, b5⟩ := ih (deliverOne c).c (deliverOne_ni c h)
    have hne : (deliverOne c).err = none := by simp only [deliverOne]; split <;> rfl
    simp only [deliverN, R.andThen, hne]
    refine ⟨b1.trans a1, by simp only [dOut_append, a2, b2], b3.trans a3, b4.trans a4, ?_⟩
    intro hs
    have := a5 hs
    have := b5 (by rw [a3]; exact hs)
    simp only [aOut_append]
    omega

theorem flushEofPart_led (c : Chan) (h : NInv c) : Led c (flushEofPart c) 0 0 := by
  simp only [flushEofPart]
  split
  · split
    · split
      · have hi : NInv { c with recvSt := .eof, trace := c.trace ++ [.eof] } := by
          obtain ⟨n1, n2, n4, n5, n6, n7, d2, sl⟩ := h
          constructor <;> grind
        exact (writeEof_led _ hi).cast rfl rfl rfl id
      · exact (led_refl _).cast rfl rfl rfl id
    · exact (led_fail _ _).cast rfl rfl rfl id
  · exact led_refl c

theorem flushClosePart_led (c : Chan) : Led c (flushClosePart c) 0 0 := by
  simp only [flushClosePart]
  split
  · exact ⟨rfl, fun _ => rfl, id⟩
  · exact led_refl c

theorem flushRecvBuf_led (c : Chan) (h : NInv c) : Led c (flushRecvBuf c) 0 0 := by
  unfold flushRecvBuf
  have h0 : NInv { c with recvBuf := 0 } := by
    obtain ⟨n1, n2, n4, n5, n6, n7, d2, sl⟩ := h
    constructor <;> grind
  have h1 : Led c (if c.paused = .no then deliverN c.recvBuf { c with recvBuf := 0 } else R.ok c) 0 0 := by
    split
    · obtain ⟨a1, a2, a3, a4, a5⟩ := deliverN_eq c.recvBuf _ h0
      refine ⟨by rw [a1, a2], ?_, fun x => by rw [a3]; exact x⟩
      intro hs
      have := a5 (by rw [← a3]; exact hs)
      rw [a4]
      simp only at this ⊢
      omega
    · exact led_refl c
  have hq : NInv (if c.paused = .no then deliverN c.recvBuf { c with recvBuf := 0 } else R.ok c).c := by
    split
    · exact deliverN_ni _ _ h0
    · exact h
  refine led_andThen (Q := NInv) (led_andThen (Q := NInv) h1 hq flushEofPart_led) ?_ (fun c' _ => flushClosePart_led c')
  exact andThen_c _ _ hq flushEofPart_ni

theorem acceptData_led (c : Chan) (h : NInv c) : Led c (acceptData c) 1 0 := by
  unfold acceptData
  split
  · rename_i hs
    refine ⟨by simp [R.ok, dOut_sendPkt], ?_, id⟩
    intro hn
    simp only [R.ok] at hn ⊢
    rw [aOut_adjust _ _ (h.n7 hn)]
    omega
  · split
    · exact ⟨rfl, fun _ => by simp [R.ok]; omega, id⟩
    · obtain ⟨a1, a2, a3, a4, a5⟩ := deliverOne_eq c h
      refine ⟨by rw [a1, a2], ?_, fun x => by rw [a3]; exact x⟩
      intro hs
      have := a5 (by rw [← a3]; exact hs)
      rw [a4]; omega

theorem resumeReading_led (c : Chan) (h : NInv c) : Led c (resumeReading c) 0 0 := by
  unfold resumeReading
  split
  · have hi : NInv { c with paused := .no } := by
      obtain ⟨n1, n2, n4, n5, n6, n7, d2, sl⟩ := h
      constructor <;> grind
    exact (flushRecvBuf_led _ hi).cast rfl rfl rfl id
  · exact led_refl c

/-- what a message takes off the incoming link: DATA packets / bytes of window credit -/
def cdOf : CMsg → Nat
  | .data => 1
  | _ => 0

def caOf : CMsg → Nat
  | .adjust n => n
  | _ => 0

theorem processData_led (c : Chan) (h : NInv c) (he : (processData c).err = none) : Led c (processData c) 1 0 := by
  unfold processData at he ⊢
  split
  · rename_i hx; simp [hx, R.fail] at he
  · rename_i hx
    split
    · rename_i hy; simp [hx, hy, R.fail] at he
    · exact acceptData_led c h

theorem processEof_led (c : Chan) (h : NInv c) (he : (processEof c).err = none) : Led c (processEof c) 0 0 := by
  unfold processEof at he ⊢
  split
  · rename_i hx; simp [hx, R.fail] at he
  · have hi : NInv { c with recvSt := .eofPending } := by
      obtain ⟨n1, n2, n4, n5, n6, n7, d2, sl⟩ := h
      constructor <;> grind
    exact (flushRecvBuf_led _ hi).cast rfl rfl rfl id

theorem processClose_led (c : Chan) (h : NInv c) (he : (processClose c).err = none) : Led c (processClose c) 0 0 := by
  unfold processClose at he ⊢
  split
  · rename_i hx; simp [hx, R.fail] at he
  · rename_i hl
    have hk := closeSendResume_recv c
    have hni : NInv ((closeSend c).andThen pauseResumeWriting).c :=
      andThen_c _ _ (closeSend_ni c h) pauseResumeWriting_ni
    have h1 : Led c ((closeSend c).andThen pauseResumeWriting) 0 0 :=
      led_andThen (Q := fun _ => True) (closeSend_led c) trivial (fun c' _ => pauseResumeWriting_led c')
    generalize (closeSend c).andThen pauseResumeWriting = r at hk hni h1
    refine led_andThen (Q := fun x => NInv x ∧ x.sendSt = .closed ∧ x.recvSt = c.recvSt) h1 ⟨hni, hk.2.2, hk.1⟩ ?_
    intro c' ⟨hc', hs', hr'⟩
    have hlive : c'.recvSt ≠ .closed := by
      rw [hr']; intro hc; simp [recvLive, hc] at hl
    have hi : NInv { c' with recvEofPending := decide (c'.recvSt = .eofPending), recvSt := .closePending } := by
      obtain ⟨n1, n2, n4, n5, n6, n7, d2, sl⟩ := hc'
      have := sl hlive
      constructor <;> grind
    exact (flushRecvBuf_led _ hi).cast rfl rfl rfl id

theorem processAdjust_led (n : Nat) (c : Chan) (h : NInv c) (he : (processAdjust c n).err = none) :
    Led c (processAdjust c n) 0 n := by
  unfold processAdjust at he ⊢
  split
  · rename_i hx; simp [hx, R.fail] at he
  · have hp : NP { c with sendWin := c.sendWin + n } := by
      obtain ⟨n1, n2, n4, n5, n6, n7, d2, sl⟩ := h
      constructor <;> (try simp only) <;> assumption
    have g := flushSendBuf_led _ hp
    exact ⟨by have := g.snd; simp only at this ⊢; omega, g.rcv, g.mono⟩

theorem handleReq_same (k : ReqKind) (c : Chan) :
    (handleReq c k).1.c.sendWin = c.sendWin ∧ (handleReq c k).1.c.recvWin = c.recvWin ∧
    (handleReq c k).1.c.recvBuf = c.recvBuf ∧ (handleReq c k).1.c.sendSt = c.sendSt ∧ (handleReq c k).1.acts = [] := by
  cases hsv : c.server <;> cases k <;> simp only [handleReq, hsv] <;> (try split) <;> simp [R.ok, R.fail]

theorem reportResponse_led (k : ReqKind) (w r : Bool) (c : Chan) (h : NInv c) : Led c (reportResponse c k w r) 0 0 := by
  simp only [reportResponse]
  have hd : dOut (if w = true ∧ c.sendSt ≠ St.closePending ∧ c.sendSt ≠ St.closed then
      sendPkt c (if r = true then CMsg.success else CMsg.failure) else []) = 0 := by
    split
    · apply dOut_sendPkt; split <;> simp
    · rfl
  have ha : aOut (if w = true ∧ c.sendSt ≠ St.closePending ∧ c.sendSt ≠ St.closed then
      sendPkt c (if r = true then CMsg.success else CMsg.failure) else []) = 0 := by
    split
    · apply aOut_sendPkt; intro n; split <;> simp
    · rfl
  split
  · split
    · have hi : NInv { c with trace := c.trace ++ [.started] } := by
        obtain ⟨n1, n2, n4, n5, n6, n7, d2, sl⟩ := h
        constructor <;> grind
      exact led_pre _ hd ha ((resumeReading_led _ hi).cast rfl rfl rfl id)
    · exact ⟨by simp [R.fail, hd], fun _ => by simp [R.fail, ha], id⟩
  · exact ⟨by simp [R.ok, hd], fun _ => by simp [R.ok, ha], id⟩

theorem processRequest_led (k : ReqKind) (w : Bool) (c : Chan) (h : NInv c) : Led c (processRequest c k w) 0 0 := by
  simp only [processRequest]
  split
  · exact led_fail c _
  · split
    · exact led_fail c _
    · obtain ⟨a1, a2, a3, a4, a5⟩ := handleReq_same k c
      have h1 : Led c (handleReq c k).1 0 0 :=
        ⟨by rw [a1, a5]; simp, fun _ => by rw [a2, a3, a5]; simp, fun x => by rw [a4]; exact x⟩
      exact led_andThen (Q := NInv) h1 (handleReq_ni k c h) (fun c' hc' => reportResponse_led k w _ c' hc')

theorem processResponse_led (ok : Bool) (c : Chan) : Led c (processResponse c ok) 0 0 := by
  simp only [processResponse]
  split
  · exact ⟨rfl, fun _ => rfl, id⟩
  · exact led_fail c _

theorem processMsg_led (m : CMsg) (c : Chan) (h : NInv c) (he : (processMsg c m).err = none) :
    Led c (processMsg c m) (cdOf m) (caOf m) := by
  cases m with
  | data => exact processData_led c h he
  | eof => exact processEof_led c h he
  | close => exact processClose_led c h he
  | adjust n => exact processAdjust_led n c h he
  | req k w => exact processRequest_led k w c h
  | success => exact processResponse_led true c
  | failure => exact processResponse_led false c

theorem write_led (c : Chan) (h : NInv c) : Led c (write c) 0 0 := by
  unfold write
  split
  · exact led_fail c _
  · rename_i hs
    have hp : NP { c with sendBuf := c.sendBuf + 1 } := by
      obtain ⟨n1, n2, n4, n5, n6, n7, d2, sl⟩ := h
      constructor <;> grind
    exact (flushSendBuf_led _ hp).cast rfl rfl rfl id

theorem abort_led (c : Chan) (h : NInv c) : Led c (abort c) 0 0 := by
  unfold abort
  have h1 : Led c (if c.sendSt ≠ .closePending ∧ c.sendSt ≠ .closed then closeSend c else R.ok c) 0 0 := by
    split
    · exact closeSend_led c
    · exact led_refl c
  refine led_andThen (Q := NInv) h1 ?_ ?_
  · split
    · exact closeSend_ni c h
    · exact h
  · intro c' hc'
    split
    · exact discardRecv_led c' hc'
    · exact led_refl c'

theorem close_led (c : Chan) (h : NInv c) : Led c (close c) 0 0 := by
  unfold close
  have hp : c.sendSt ≠ .closePending ∧ c.sendSt ≠ .closed →
      NP { c with sendEofPending := decide (c.sendSt = .eofPending), sendSt := .closePending } := by
    intro hs
    obtain ⟨n1, n2, n4, n5, n6, n7, d2, sl⟩ := h
    constructor <;> grind
  have h1 : Led c (if c.sendSt ≠ .closePending ∧ c.sendSt ≠ .closed then
      flushSendBuf { c with sendEofPending := decide (c.sendSt = .eofPending), sendSt := .closePending } else R.ok c) 0 0 := by
    split
    · rename_i hs
      exact (flushSendBuf_led _ (hp hs)).cast rfl rfl rfl (fun x => absurd x hs.2)
    · exact led_refl c
  refine led_andThen (Q := NInv) h1 ?_ ?_
  · split
    · rename_i hs; exact flushSendBuf_ni _ (hp hs)
    · exact h
  · intro c' hc'
    split
    · exact discardRecv_led c' hc'
    · exact led_refl c'

theorem appOp_led (o : AppOp) (c : Chan) (h : NInv c) : Led c (appOp c o) 0 0 := by
  cases o with
  | write => exact write_led c h
  | eof => exact writeEof_led c h
  | close => exact close_led c h
  | abort => exact abort_led c h
  | pause => exact ⟨rfl, fun _ => rfl, id⟩
  | resume => exact resumeReading_led c h
  | exit =>
    simp only [appOp]
    split
    · simp only [exit]
      split
      · exact led_pre _ (dOut_sendPkt _ _ (by simp)) (aOut_sendPkt _ _ (by simp)) (close_led c h)
      · exact led_refl c
    · exact led_refl c
  | limits hi lo =>
    simp only [appOp, setLimits]
    exact (pauseResumeWriting_led { c with hiWater := hi, loWater := lo }).cast rfl rfl rfl id
  | drain =>
    simp only [appOp, drain]
    split <;> exact ⟨rfl, fun _ => rfl, id⟩

theorem cleanup_led (e : Exc) (c : Chan) : Led c (cleanup c e) 0 0 := by
  have hacts : dOut (cleanup c e).acts = 0 ∧ aOut (cleanup c e).acts = 0 := by
    simp only [cleanup, R.ok]; split <;> exact ⟨rfl, rfl⟩
  have hf : (cleanup c e).c.sendWin = c.sendWin ∧ (cleanup c e).c.recvWin = c.recvWin ∧
      (cleanup c e).c.recvBuf = c.recvBuf ∧ (cleanup c e).c.sendSt = c.sendSt := by
    simp only [cleanup, R.ok]; (repeat' split) <;> exact ⟨rfl, rfl, rfl, rfl⟩
  exact ⟨by simp [hacts.1, hf.1], fun _ => by simp [hacts.2, hf.2.1, hf.2.2.1],
    fun x => by rw [hf.2.2.2]; exact x⟩

/-! ### the two ledgers of a channel pair are invariant along every run -/

theorem dataCnt_cons (m : CMsg) (rest : List CMsg) : dataCnt (m :: rest) = cdOf m + dataCnt rest := by
  cases m <;> simp [dataCnt, cdOf] <;> omega

theorem adjSum_cons (m : CMsg) (rest : List CMsg) : adjSum (m :: rest) = caOf m + adjSum rest := by
  cases m <;> simp [adjSum, caOf] <;> omega

/-- numeric invariants of both endpoints and, while no protocol error has been raised, the ledger of each
    direction whose receiver has not sent its CLOSE yet:
    sender's window + DATA in flight + undelivered data at the receiver + credit in flight = receiver's window -/
structure FInv (h : HS) : Prop where
  na : NInv h.a
  nb : NInv h.b
  lab : h.err = false → h.b.sendSt ≠ .closed →
    h.a.sendWin + dataCnt h.ab + h.b.recvBuf + adjSum h.ba = h.b.recvWin
  lba : h.err = false → h.a.sendSt ≠ .closed →
    h.b.sendWin + dataCnt h.ba + h.a.recvBuf + adjSum h.ab = h.a.recvWin

theorem finv_init (w : Nat) (hw : 1 ≤ w) : FInv (HS.init w) := by
  refine ⟨?_, ?_, ?_, ?_⟩
  · constructor <;> simp [HS.init] <;> omega
  · constructor <;> simp [HS.init] <;> omega
  · intro _ _; simp [HS.init, dataCnt, adjSum]
  · intro _ _; simp [HS.init, dataCnt, adjSum]

/-- a method call of side `a` that took `cd` DATA packets / `ca` credit off `ba` (now `ba'`) -/
theorem finv_side {a b : Chan} {r : R} {ab ba ba' : List CMsg} {cd ca : Nat} (hl : Led a r cd ca)
    (hd : dataCnt ba = cd + dataCnt ba') (ha : adjSum ba = ca + adjSum ba')
    (lab : b.sendSt ≠ .closed → a.sendWin + dataCnt ab + b.recvBuf + adjSum ba = b.recvWin)
    (lba : a.sendSt ≠ .closed → b.sendWin + dataCnt ba + a.recvBuf + adjSum ab = a.recvWin) :
    (b.sendSt ≠ .closed → r.c.sendWin + dataCnt (ab ++ sentMsgs r.acts) + b.recvBuf + adjSum ba' = b.recvWin) ∧
    (r.c.sendSt ≠ .closed → b.sendWin + dataCnt ba' + r.c.recvBuf + adjSum (ab ++ sentMsgs r.acts) = r.c.recvWin) := by
  refine ⟨?_, ?_⟩
  · intro hb
    have := lab hb
    have := hl.snd
    simp only [dataCnt_append, dOut] at *
    omega
  · intro hs
    have hs0 : a.sendSt ≠ .closed := fun hc => hs (hl.mono hc)
    have := lba hs0
    have := hl.rcv hs
    simp only [adjSum_append, aOut] at *
    omega

theorem put_err_true (h : HS) (r : R) : (h.put true r).err = (h.err || r.err.isSome) := rfl
theorem put_err_false (h : HS) (r : R) : (h.put false r).err = (h.err || r.err.isSome) := rfl

theorem finv_step (h : HS) (ev : HEv) (hi : HInv h) (hf : FInv h) : FInv (h.step ev) := by
  unfold HS.step
  split
  · exact hf
  · rename_i hen
    cases ev with
    | app sideA o =>
      cases sideA with
      | true =>
        simp only
        have hl : Led h.a { appOp h.a o with err := none } 0 0 := by
          have := appOp_led o h.a hf.na; exact ⟨this.snd, this.rcv, this.mono⟩
        obtain ⟨p1, p2, p3, p4, _, _⟩ := put_true h { appOp h.a o with err := none }
        have he := put_err_true h { appOp h.a o with err := none }
        refine ⟨by rw [p1]; exact appOp_ni o h.a hf.na, by rw [p2]; exact hf.nb, ?_, ?_⟩
        · intro hne
          rw [he] at hne
          have h0 : h.err = false := by simpa using hne
          have := finv_side (ab := h.ab) (ba := h.ba) (ba' := h.ba) hl (by simp) (by simp) (hf.lab h0) (hf.lba h0)
          rw [p1, p2, p3, p4]; exact this.1
        · intro hne
          rw [he] at hne
          have h0 : h.err = false := by simpa using hne
          have := finv_side (ab := h.ab) (ba := h.ba) (ba' := h.ba) hl (by simp) (by simp) (hf.lab h0) (hf.lba h0)
          rw [p1, p2, p3, p4]; exact this.2
      | false =>
        simp only
        have hl : Led h.b { appOp h.b o with err := none } 0 0 := by
          have := appOp_led o h.b hf.nb; exact ⟨this.snd, this.rcv, this.mono⟩
        obtain ⟨p1, p2, p3, p4, _, _⟩ := put_false h { appOp h.b o with err := none }
        have he := put_err_false h { appOp h.b o with err := none }
        refine ⟨by rw [p1]; exact hf.na, by rw [p2]; exact appOp_ni o h.b hf.nb, ?_, ?_⟩
        · intro hne
          rw [he] at hne
          have h0 : h.err = false := by simpa using hne
          have := finv_side (ab := h.ba) (ba := h.ab) (ba' := h.ab) hl (by simp) (by simp) (hf.lba h0) (hf.lab h0)
          rw [p1, p2, p3, p4]; exact this.2
        · intro hne
          rw [he] at hne
          have h0 : h.err = false := by simpa using hne
          have := finv_side (ab := h.ba) (ba := h.ab) (ba' := h.ab) hl (by simp) (by simp) (hf.lba h0) (hf.lab h0)
          rw [p1, p2, p3, p4]; exact this.1
    | deliver toB =>
      cases toB with
      | true =>
        simp only
        cases hab : h.ab with
        | nil => simp only; exact hf
        | cons m rest =>
          simp only
          obtain ⟨p1, p2, p3, p4, _, _⟩ := put_false ({ h with ab := rest } : HS) (processMsg h.b m)
          have he := put_err_false ({ h with ab := rest } : HS) (processMsg h.b m)
          refine ⟨by rw [p1]; exact hf.na, by rw [p2]; exact processMsg_ni m h.b hf.nb, ?_, ?_⟩
          · intro hne
            rw [he] at hne
            have h0 : h.err = false ∧ (processMsg h.b m).err = none := by
              cases hx : (processMsg h.b m).err <;> simp_all
            have hl := processMsg_led m h.b hf.nb h0.2
            have := finv_side (ab := h.ba) (ba := h.ab) (ba' := rest) hl (by rw [hab, dataCnt_cons])
              (by rw [hab, adjSum_cons]) (hf.lba h0.1) (hf.lab h0.1)
            rw [p1, p2, p3, p4]; exact this.2
          · intro hne
            rw [he] at hne
            have h0 : h.err = false ∧ (processMsg h.b m).err = none := by
              cases hx : (processMsg h.b m).err <;> simp_all
            have hl := processMsg_led m h.b hf.nb h0.2
            have := finv_side (ab := h.ba) (ba := h.ab) (ba' := rest) hl (by rw [hab, dataCnt_cons])
              (by rw [hab, adjSum_cons]) (hf.lba h0.1) (hf.lab h0.1)
            rw [p1, p2, p3, p4]; exact this.1
      | false =>
        simp only
        cases hba : h.ba with
        | nil => simp only; exact hf
        | cons m rest =>
          simp only
          obtain ⟨p1, p2, p3, p4, _, _⟩ := put_true ({ h with ba := rest } : HS) (processMsg h.a m)
          have he := put_err_true ({ h with ba := rest } : HS) (processMsg h.a m)
          refine ⟨by rw [p1]; exact processMsg_ni m h.a hf.na, by rw [p2]; exact hf.nb, ?_, ?_⟩
          · intro hne
            rw [he] at hne
            have h0 : h.err = false ∧ (processMsg h.a m).err = none := by
              cases hx : (processMsg h.a m).err <;> simp_all
            have hl := processMsg_led m h.a hf.na h0.2
            have := finv_side (ab := h.ab) (ba := h.ba) (ba' := rest) hl (by rw [hba, dataCnt_cons])
              (by rw [hba, adjSum_cons]) (hf.lab h0.1) (hf.lba h0.1)
            rw [p1, p2, p3, p4]; exact this.1
          · intro hne
            rw [he] at hne
            have h0 : h.err = false ∧ (processMsg h.a m).err = none := by
              cases hx : (processMsg h.a m).err <;> simp_all
            have hl := processMsg_led m h.a hf.na h0.2
            have := finv_side (ab := h.ab) (ba := h.ba) (ba' := rest) hl (by rw [hba, dataCnt_cons])
              (by rw [hba, adjSum_cons]) (hf.lab h0.1) (hf.lba h0.1)
            rw [p1, p2, p3, p4]; exact this.2
    | cleanup sideA =>
      cases sideA with
      | true =>
        simp only
        have hpos : 0 < h.ca := by
          have : h.enabled (.cleanup true) = true := by simpa using hen
          simp [HS.enabled] at this; exact this.2
        have hl := cleanup_led .clean h.a
        have hne : (cleanup h.a .clean).err = none := by simp [cleanup, R.ok]
        obtain ⟨p1, p2, p3, p4, _, _⟩ := put_true ({ h with ca := h.ca - 1 } : HS) (cleanup h.a .clean)
        have he := put_err_true ({ h with ca := h.ca - 1 } : HS) (cleanup h.a .clean)
        refine ⟨by rw [p1]; exact cleanup_ni .clean h.a hf.na (hi.d9a hpos), by rw [p2]; exact hf.nb, ?_, ?_⟩
        · intro hn
          rw [he, hne] at hn
          have h0 : h.err = false := by simpa using hn
          have := finv_side (ab := h.ab) (ba := h.ba) (ba' := h.ba) hl (by simp) (by simp) (hf.lab h0) (hf.lba h0)
          rw [p1, p2, p3, p4]; exact this.1
        · intro hn
          rw [he, hne] at hn
          have h0 : h.err = false := by simpa using hn
          have := finv_side (ab := h.ab) (ba := h.ba) (ba' := h.ba) hl (by simp) (by simp) (hf.lab h0) (hf.lba h0)
          rw [p1, p2, p3, p4]; exact this.2
      | false =>
        simp only
        have hpos : 0 < h.cb := by
          have : h.enabled (.cleanup false) = true := by simpa using hen
          simp [HS.enabled] at this; exact this.2
        have hl := cleanup_led .clean h.b
        have hne : (cleanup h.b .clean).err = none := by simp [cleanup, R.ok]
        obtain ⟨p1, p2, p3, p4, _, _⟩ := put_false ({ h with cb := h.cb - 1 } : HS) (cleanup h.b .clean)
        have he := put_err_false ({ h with cb := h.cb - 1 } : HS) (cleanup h.b .clean)
        refine ⟨by rw [p1]; exact hf.na, by rw [p2]; exact cleanup_ni .clean h.b hf.nb (hi.d9b hpos), ?_, ?_⟩
        · intro hn
          rw [he, hne] at hn
          have h0 : h.err = false := by simpa using hn
          have := finv_side (ab := h.ba) (ba := h.ab) (ba' := h.ab) hl (by simp) (by simp) (hf.lba h0) (hf.lab h0)
          rw [p1, p2, p3, p4]; exact this.2
        · intro hn
          rw [he, hne] at hn
          have h0 : h.err = false := by simpa using hn
          have := finv_side (ab := h.ba) (ba := h.ab) (ba' := h.ab) hl (by simp) (by simp) (hf.lba h0) (hf.lab h0)
          rw [p1, p2, p3, p4]; exact this.1

theorem finv_run (evs : List HEv) (h : HS) (hi : HInv h) (hf : FInv h) : FInv (h.run evs) := by
  induction evs generalizing h with
  | nil => exact hf
  | cons ev rest ih => exact ih _ (hinv_step h ev hi) (finv_step h ev hi hf)

end AsyncsshModel.Lifecycle
