import AsyncsshModel.Model.KexInit
import AsyncsshModel.Lemmas.KexWire
/-
  Lemmas about KEXINIT encoding/parsing and the algorithm choice: name-list round trip, KEXINIT round trip,
  `firstIn` as `List.find?`, and agreement of the two roles' negotiations.
-/
namespace AsyncsshModel.Kex
open AsyncsshModel AsyncsshModel.KexWire

/-! ### concatenation of optional pieces -/

theorem concatPieces_cons {o : Option Bytes} {r : List (Option Bytes)} {w : Bytes}
    (h : concatPieces (o :: r) = some w) : ∃ x w', o = some x ∧ concatPieces r = some w' ∧ w = x ++ w' := by
  cases o with
  | none => simp [concatPieces] at h
  | some x =>
    simp only [concatPieces] at h
    cases hr : concatPieces r with
    | none => simp [hr] at h
    | some w' => simp [hr] at h; exact ⟨x, w', rfl, rfl, h.symm⟩

theorem concatPieces_nil {w : Bytes} (h : concatPieces [] = some w) : w = [] := by
  simp [concatPieces] at h; exact h

/-! ### `firstIn` -/

theorem firstIn_eq_find (c s : List Name) : firstIn c s = c.find? (fun a => decide (a ∈ s)) := by
  induction c with
  | nil => rfl
  | cons a r ih =>
    simp only [firstIn, List.find?]
    by_cases h : a ∈ s <;> simp [h, ih]

theorem firstIn_some {c s : List Name} {a : Name} (h : firstIn c s = some a) :
    a ∈ s ∧ ∃ pre post, c = pre ++ a :: post ∧ ∀ b ∈ pre, b ∉ s := by
  rw [firstIn_eq_find] at h
  have h1 := List.find?_some h
  obtain ⟨pre, post, hc, hpre⟩ := List.find?_eq_some_iff_append.mp h |>.2
  refine ⟨by simpa using h1, pre, post, hc, ?_⟩
  intro b hb
  simpa using hpre b hb

theorem firstIn_none {c s : List Name} : firstIn c s = none ↔ ∀ a ∈ c, a ∉ s := by
  rw [firstIn_eq_find]; simp

/-- entries of the second list that do not occur in the first never matter -/
theorem firstIn_append_right (c s x : List Name) (hx : ∀ m ∈ x, m ∉ c) : firstIn c (s ++ x) = firstIn c s := by
  induction c with
  | nil => rfl
  | cons a r ih =>
    have hax : a ∉ x := fun h => hx a h (by simp)
    have ih' := ih (fun m hm hmr => hx m hm (by simp [hmr]))
    simp only [firstIn, List.mem_append, hax, or_false, ih']

/-- trailing entries of the first list that the second does not have never matter -/
theorem firstIn_append_left (c x s : List Name) (hx : ∀ m ∈ x, m ∉ s) : firstIn (c ++ x) s = firstIn c s := by
  induction c with
  | nil =>
    simp only [List.nil_append, firstIn]
    exact firstIn_none.mpr hx
  | cons a r ih => simp only [List.cons_append, firstIn, ih]

/-! ### name-lists -/

/-- a list of names that survives `b','.join` / `split(b',')`: no empty name, no comma inside a name -/
def NamesOK (l : List Name) : Prop := ∀ n ∈ l, n ≠ [] ∧ (44 : UInt8) ∉ n

instance (l : List Name) : Decidable (NamesOK l) := by unfold NamesOK; exact inferInstance

theorem splitComma_ne_nil (b : Bytes) : splitComma b ≠ [] := by
  induction b with
  | nil => simp [splitComma]
  | cons c cs ih =>
    simp only [splitComma]
    split
    · simp
    · split <;> simp

theorem splitComma_single {n : Bytes} (h : (44 : UInt8) ∉ n) : splitComma n = [n] := by
  induction n with
  | nil => rfl
  | cons c cs ih =>
    have hc : c ≠ 44 := fun e => h (by simp [e])
    have hcs : (44 : UInt8) ∉ cs := fun e => h (by simp [e])
    simp [splitComma, hc, ih hcs]

theorem splitComma_append_comma {n : Bytes} (h : (44 : UInt8) ∉ n) (rest : Bytes) :
    splitComma (n ++ 44 :: rest) = n :: splitComma rest := by
  induction n with
  | nil => simp [splitComma]
  | cons c cs ih =>
    have hc : c ≠ 44 := fun e => h (by simp [e])
    have hcs : (44 : UInt8) ∉ cs := fun e => h (by simp [e])
    simp [splitComma, hc, ih hcs]

theorem splitComma_joinComma {l : List Name} (hne : l ≠ []) (h : ∀ n ∈ l, (44 : UInt8) ∉ n) :
    splitComma (joinComma l) = l := by
  induction l with
  | nil => exact absurd rfl hne
  | cons a r ih =>
    cases r with
    | nil => simp [joinComma, splitComma_single (h a (by simp))]
    | cons b r' =>
      simp only [joinComma]
      rw [splitComma_append_comma (h a (by simp))]
      rw [ih (by simp) (fun n hn => h n (by simp [hn]))]

theorem joinComma_ne_nil {l : List Name} (hne : l ≠ []) (h : ∀ n ∈ l, n ≠ []) : joinComma l ≠ [] := by
  cases l with
  | nil => exact absurd rfl hne
  | cons a r =>
    have ha : a ≠ [] := h a (by simp)
    cases r with
    | nil => simpa [joinComma] using ha
    | cons b r' =>
      simp only [joinComma]
      intro e
      exact ha (List.append_eq_nil_iff.mp e).1

/-- `get_namelist` inverts `NameList` for well-formed lists -/
theorem getNameList_enc {l : List Name} {w : Bytes} (hok : NamesOK l) (h : encNameList? l = some w) (r : Bytes) :
    getNameList (w ++ r) = some (l, r) := by
  unfold encNameList? at h
  unfold getNameList
  rw [getString_enc h r]
  cases l with
  | nil => simp [joinComma]
  | cons a t =>
    have hne : joinComma (a :: t) ≠ [] := joinComma_ne_nil (by simp) (fun n hn => (hok n hn).1)
    have hs := splitComma_joinComma (l := a :: t) (by simp) (fun n hn => (hok n hn).2)
    simp [hne, hs]

/-! ### KEXINIT round trip -/

structure KexInit.WF (k : KexInit) : Prop where
  cookie : k.cookie.length = 16
  l1 : NamesOK k.kexAlgs
  l2 : NamesOK k.hostKeyAlgs
  l3 : NamesOK k.encCS
  l4 : NamesOK k.encSC
  l5 : NamesOK k.macCS
  l6 : NamesOK k.macSC
  l7 : NamesOK k.cmpCS
  l8 : NamesOK k.cmpSC
  l9 : NamesOK k.langCS
  l10 : NamesOK k.langSC

theorem getBoolean_enc (b : Bool) (r : Bytes) : getBoolean (encBoolean b ++ r) = some (b, r) := by
  cases b <;> simp [getBoolean, encBoolean, getByte]

/-- **Parsing what `_send_kexinit` built returns the lists that were encoded.** -/
theorem parseKexInit_encodeBody {k : KexInit} {w : Bytes} (hwf : k.WF) (h : k.encodeBody? = some w) :
    parseKexInit w = some k := by
  unfold KexInit.encodeBody? at h
  obtain ⟨c, w0, e0, h0, rfl⟩ := concatPieces_cons h
  obtain ⟨x1, w1, e1, h1, rfl⟩ := concatPieces_cons h0
  obtain ⟨x2, w2, e2, h2, rfl⟩ := concatPieces_cons h1
  obtain ⟨x3, w3, e3, h3, rfl⟩ := concatPieces_cons h2
  obtain ⟨x4, w4, e4, h4, rfl⟩ := concatPieces_cons h3
  obtain ⟨x5, w5, e5, h5, rfl⟩ := concatPieces_cons h4
  obtain ⟨x6, w6, e6, h6, rfl⟩ := concatPieces_cons h5
  obtain ⟨x7, w7, e7, h7, rfl⟩ := concatPieces_cons h6
  obtain ⟨x8, w8, e8, h8, rfl⟩ := concatPieces_cons h7
  obtain ⟨x9, w9, e9, h9, rfl⟩ := concatPieces_cons h8
  obtain ⟨x10, w10, e10, h10, rfl⟩ := concatPieces_cons h9
  obtain ⟨xb, wb, eb, h11, rfl⟩ := concatPieces_cons h10
  obtain ⟨xr, wr, er, h12, rfl⟩ := concatPieces_cons h11
  have := concatPieces_nil h12; subst this
  simp only [Option.some.injEq] at e0 eb
  subst e0 eb
  unfold parseKexInit
  rw [getBytes_append' _ _ hwf.cookie]
  simp only []
  rw [getNameList_enc hwf.l1 e1]; simp only []
  rw [getNameList_enc hwf.l2 e2]; simp only []
  rw [getNameList_enc hwf.l3 e3]; simp only []
  rw [getNameList_enc hwf.l4 e4]; simp only []
  rw [getNameList_enc hwf.l5 e5]; simp only []
  rw [getNameList_enc hwf.l6 e6]; simp only []
  rw [getNameList_enc hwf.l7 e7]; simp only []
  rw [getNameList_enc hwf.l8 e8]; simp only []
  rw [getNameList_enc hwf.l9 e9]; simp only []
  rw [getNameList_enc hwf.l10 e10]; simp only []
  rw [getBoolean_enc]; simp only []
  rw [getUInt32_enc er]
  simp


theorem optErr_ok {α : Type} {o : Option α} {e : Err} {a : α} : optErr o e = .ok a ↔ o = some a := by
  cases o <;> simp [optErr]

/-! ### the two roles negotiate the same names -/

/-- no configured kex name is one of the pseudo-algorithms the *other* side appends -/
def MarkerFree (c s : LocalAlgs) : Prop :=
  (∀ m ∈ extraKex false, m ∉ c.kex) ∧ (∀ m ∈ extraKex true, m ∉ s.kex)

instance (c s : LocalAlgs) : Decidable (MarkerFree c s) := by unfold MarkerFree; exact inferInstance

theorem chooseKex_agree {c s : LocalAlgs} (ck sk : Bytes) (hm : MarkerFree c s) :
    chooseAlg true c.kex (sentKexInit false sk s).kexAlgs =
      chooseAlg false s.kex (sentKexInit true ck c).kexAlgs := by
  simp only [chooseAlg, sentKexInit, if_true, Bool.false_eq_true, if_false]
  rw [firstIn_append_right _ _ _ hm.1, firstIn_append_left _ _ _ hm.2]

theorem chooseOrErr_swap (a b : List Name) : chooseOrErr true a b = chooseOrErr false b a := by
  simp only [chooseOrErr, chooseAlg, chooseErr, if_true, Bool.false_eq_true, if_false]

theorem chooseOrErr_ok {isClient : Bool} {a b : List Name} {x : Name} :
    chooseOrErr isClient a b = .ok x ↔ chooseAlg isClient a b = some x := optErr_ok

theorem negotiateRest_agree (c s : LocalAlgs) (ck sk : Bytes) (kex hk : Name) :
    negotiateRest true c (sentKexInit false sk s) kex hk = negotiateRest false s (sentKexInit true ck c) kex hk := by
  simp only [negotiateRest, sentKexInit, chooseOrErr_swap]

theorem firstIn_nil_right (c : List Name) : firstIn c [] = none := firstIn_none.mpr (by simp)

/-- the host key algorithm: a client whose own list is empty advertises the placeholder `null`, which is why
    the two sides are compared on the configured lists and not on the advertised ones -/
theorem chooseHostKey_agree {c s : LocalAlgs} (ck sk : Bytes) {kex a b : Name} (hg : isGssKex kex = false)
    (h1 : chooseHostKey true c (sentKexInit false sk s) kex = .ok a)
    (h2 : chooseHostKey false s (sentKexInit true ck c) kex = .ok b) : a = b := by
  simp only [chooseHostKey, hg, Bool.false_eq_true, if_false, chooseOrErr_ok, chooseAlg, if_true,
    sentKexInit] at h1 h2
  by_cases hc : c.hostKey.isEmpty = true
  · have : c.hostKey = [] := by simpa using hc
    rw [this] at h1; simp [firstIn] at h1
  · by_cases hs : s.hostKey.isEmpty = true
    · have : s.hostKey = [] := by simpa using hs
      rw [this, firstIn_nil_right] at h2; simp at h2
    · simp only [hc, hs, Bool.false_eq_true, if_false] at h1 h2
      rw [h1] at h2; exact Option.some.inj h2

/-- **Both roles pick the same eight names** (key exchange method, server host key algorithm, cipher, MAC and
    compression per direction) when each parsed the lists the other one sent. -/
theorem negotiate_agree {c s : LocalAlgs} {ck sk : Bytes} {n1 n2 : Negotiated} (hm : MarkerFree c s)
    (hg : ∀ k ∈ s.kex, isGssKex k = false)
    (h1 : negotiate true c (sentKexInit false sk s) = .ok n1)
    (h2 : negotiate false s (sentKexInit true ck c) = .ok n2) : n1 = n2 := by
  unfold negotiate at h1 h2
  rw [chooseKex_agree ck sk hm] at h1
  cases hk : chooseAlg false s.kex (sentKexInit true ck c).kexAlgs with
  | none => simp [hk] at h2
  | some kex =>
    simp only [hk] at h1 h2
    have hkex : kex ∈ s.kex := by
      simp only [chooseAlg, Bool.false_eq_true, if_false] at hk
      exact (firstIn_some hk).1
    cases ha : chooseHostKey true c (sentKexInit false sk s) kex with
    | error e => simp [ha] at h1
    | ok a =>
      cases hb : chooseHostKey false s (sentKexInit true ck c) kex with
      | error e => simp [hb] at h2
      | ok b =>
        simp only [ha, hb] at h1 h2
        have := chooseHostKey_agree ck sk (hg kex hkex) ha hb
        subst this
        rw [negotiateRest_agree c s ck sk kex a] at h1
        rw [h1] at h2
        exact (Except.ok.inj h2)

end AsyncsshModel.Kex
