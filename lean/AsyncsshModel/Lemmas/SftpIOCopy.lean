import AsyncsshModel.Lemmas.SftpIO
/-
  Helper lemmas for C12, part 2: byte accounting of the copier (`_bytes_copied` against `_total_bytes`),
  the non-sparse copier invariant, the writer invariant.
-/
namespace AsyncsshModel.SftpIO
open AsyncsshModel

/-- bytes copied so far + bytes still outstanding or unrequested -/
def sumS (s : GState) : Nat := s.copied + s.io.todo

/-- a reply that gives up on the rest of its block: empty DATA, or EOF -/
def Lossy : Ev → Prop
  | .complete _ (.data d) => d = []
  | .complete _ .eof => True
  | _ => False

theorem lossless_of_not_lossy (need : Nat → Prop) (e : Ev) (h : ¬ Lossy e) : Lossless need e := by
  cases e with
  | complete r rep =>
    cases rep with
    | data d => intro hd; exact absurd hd h
    | eof => exact absurd trivial h
    | err => trivial
  | endBatch => trivial

theorem sum_gstep (tgt : Nat → Option UInt8) (lim base lo hi : Nat) (reg : Nat → Prop) (init : Bytes)
    (pad : Bool) (bs mr : Nat) (s : GState) (e : Ev) (h : GFrame tgt lim base lo hi reg init s)
    (htr : TruthfulT tgt e) :
    sumS (gstep pad bs mr base s e) ≤ sumS s ∧
      (Lossy e → gstep pad bs mr base s e = s ∨ sumS (gstep pad bs mr base s e) < sumS s) := by
  cases e with
  | complete r rep =>
    simp only [gstep]
    split
    · exact ⟨Nat.le_refl _, fun _ => Or.inl rfl⟩
    · rename_i hcond
      have hr : r ∈ s.io.pending := by
        by_cases hr : r ∈ s.io.pending
        · exact hr
        · exact absurd (Or.inr hr) hcond
      obtain ⟨_, _, hsz⟩ := h.range.1 r hr
      have he := pendSum_erase s.io.pending r hr
      cases rep with
      | data d =>
        obtain ⟨hdl, _⟩ := htr
        have ht : ({ finish s.io r d.length with mid := true } : IO).todo = (finish s.io r d.length).todo := rfl
        rcases todo_finish s.io r d.length hr hdl with ⟨h0, h1⟩ | ⟨h0, h1⟩
        · refine ⟨by simp only [sumS, gcomplete, ht]; omega, ?_⟩
          intro hl
          exact absurd (List.length_eq_zero_iff.mpr hl) h0
        · refine ⟨by simp only [sumS, gcomplete, ht]; omega, fun _ => Or.inr ?_⟩
          simp only [sumS, gcomplete, ht]; omega
      | eof =>
        refine ⟨?_, fun _ => Or.inr ?_⟩ <;> simp only [sumS, gcomplete, IO.todo] <;> omega
      | err =>
        refine ⟨?_, fun hl => nomatch hl⟩
        simp only [sumS, gcomplete, IO.todo]; omega
  | endBatch =>
    refine ⟨?_, fun hl => nomatch hl⟩
    simp only [gstep]
    split
    · exact Nat.le_refl _
    · simp only [endBatchIO]
      split
      · simp only [sumS, IO.todo, pendSum_nil]; omega
      · have := todo_startTasks bs mr s.io
        have ht : ({ startTasks bs mr s.io with mid := false } : IO).todo = (startTasks bs mr s.io).todo := rfl
        simp only [sumS, ht, this]; exact Nat.le_refl _

/-! ### non-sparse copier: a single range `[0,total)`, destination created empty -/

def ginit0 (bs mr total : Nat) : GState :=
  { io := startTasks bs mr ⟨0, total, [], 0, false, false⟩, buf := [], copied := 0 }

def NSInv (src : Bytes) (total : Nat) (s : GState) : Prop :=
  Errored s.io ∨
    (GFrame (srcT src) src.length 0 0 total (fun p => p < total) [] s ∧ Bnd s.io ∧ sumS s ≤ total ∧
      (sumS s = total → Cov (fun p => p < total) (Good (srcT src) 0 s.buf) s.io))

theorem nsinv_init (src : Bytes) (total bs mr : Nat) (hbs : 1 ≤ bs) (hmr : 1 ≤ mr) :
    NSInv src total (ginit0 bs mr total) := by
  right
  refine ⟨⟨?_, ?_, ?_, ?_⟩, ?_, ?_, ?_⟩
  · apply range_startTasks 0 total bs mr hbs
    exact ⟨(fun r hr => nomatch hr), Nat.le_refl _, by simp⟩
  · intro q b hq; simp [ginit0] at hq
  · simp [ginit0]
  · intro q hq; simp [ginit0] at hq
  · intro _ hp
    exact startTasks_post bs mr hmr _ hp
  · have := todo_startTasks bs mr ⟨0, total, [], 0, false, false⟩
    simp only [IO.todo, pendSum_nil] at this
    simp only [sumS, ginit0, IO.todo]; omega
  · intro _
    apply cov_startTasks
    intro p hp
    exact Or.inr (Or.inr ⟨Nat.zero_le _, by simpa using hp⟩)

theorem nsinv_step (src : Bytes) (total bs mr : Nat) (hbs : 1 ≤ bs) (hmr : 1 ≤ mr) (s : GState) (e : Ev)
    (h : NSInv src total s) (htr : Truthful src e) :
    NSInv src total (gstep false bs mr 0 s e) := by
  rcases h with h | ⟨hf, hb, hle, hc⟩
  · exact Or.inl (errored_gstep _ _ _ _ _ _ h)
  · have htr' := truthfulT_of_truthful src e htr
    have hf' := gframe_gstep (srcT src) src.length 0 0 total _ [] false bs mr hbs (Nat.le_refl _)
      (srcT_lim src) (fun p _ h2 => h2) s e hf htr' (Or.inr rfl)
    obtain ⟨hs1, hs2⟩ := sum_gstep (srcT src) src.length 0 0 total _ [] false bs mr s e hf htr'
    rcases bnd_gstep false bs mr 0 hmr s e hb with h2 | h2
    · exact Or.inl h2
    · by_cases herr : Errored (gstep false bs mr 0 s e).io
      · exact Or.inl herr
      · refine Or.inr ⟨hf', h2, Nat.le_trans hs1 hle, ?_⟩
        intro heq
        have hseq : sumS s = total := by omega
        have hcov := hc hseq
        by_cases hl : Lossy e
        · rcases hs2 hl with h3 | h3
          · rw [h3]; exact hcov
          · omega
        · rcases cov_gstep (srcT src) src.length 0 0 total _ [] false bs mr (Nat.le_refl _) _ s e hf hcov
            htr' (lossless_of_not_lossy _ e hl) with h4 | h4
          · exact absurd h4 herr
          · exact h4

theorem nsinv_run (src : Bytes) (total bs mr : Nat) (hbs : 1 ≤ bs) (hmr : 1 ≤ mr) (evs : List Ev)
    (s : GState) (h : NSInv src total s) (htr : ∀ e ∈ evs, Truthful src e) :
    NSInv src total (grun false bs mr 0 s evs) := by
  induction evs generalizing s with
  | nil => exact h
  | cons e t ih =>
    simp only [grun, List.foldl_cons]
    apply ih
    · exact nsinv_step src total bs mr hbs hmr s e h (htr e (by simp))
    · exact fun e' he' => htr e' (by simp [he'])

/-- idle + all announced bytes counted ⇒ the destination is exactly the first `total` source bytes, and
    the source really has that many -/
theorem nsinv_final (src : Bytes) (total : Nat) (s : GState) (h : NSInv src total s)
    (hidle : s.io.idle) (hnr : s.io.raised = false) (hcopied : s.copied = total) :
    s.buf = src.take total ∧ total ≤ src.length := by
  rcases h with h | ⟨hf, hbnd, _, hc⟩
  · rcases h with h | h
    · have := hidle.2; rw [h.2] at this; cases this
    · rw [hnr] at h; cases h
  · have hleft : s.io.left = 0 := hbnd hidle.2 hidle.1
    have hsum : sumS s = total := by
      simp only [sumS, IO.todo, hidle.1, hleft, pendSum_nil, hcopied]; omega
    have hcov := hc hsum
    have hgood : ∀ p, p < total → Good (srcT src) 0 s.buf p := by
      intro p hp
      rcases hcov p hp with hg | ⟨r, hr, _⟩ | hu
      · exact hg
      · rw [hidle.1] at hr; cases hr
      · omega
    have htot : total ≤ src.length := by
      by_cases h0 : total = 0
      · omega
      · obtain ⟨_, b, ht, _⟩ := hgood (total - 1) (by omega)
        have := srcT_lim src _ _ ht
        omega
    refine ⟨?_, htot⟩
    apply List.ext_getElem?
    intro i
    rw [List.getElem?_take]
    by_cases hi : i < total
    · obtain ⟨_, b, ht, hbuf⟩ := hgood i hi
      simp only [hi, if_true]
      simp only [Nat.sub_zero] at hbuf
      rw [hbuf]; exact ht.symm
    · simp only [hi, if_false]
      apply List.getElem?_eq_none
      apply Nat.le_of_not_lt
      intro hlt
      rcases hf.len2 i hlt with h0 | ⟨p, h1, h2, _⟩
      · simp at h0
      · omega

/-- while not everything is accounted for the total cannot be reached any more: the byte count only
    shrinks, so `copied ≤ total` always -/
theorem nsinv_copied_le (src : Bytes) (total : Nat) (s : GState) (h : NSInv src total s) :
    Errored s.io ∨ s.copied ≤ total := by
  rcases h with h | ⟨_, _, hle, _⟩
  · exact Or.inl h
  · right; simp only [sumS] at hle; omega

/-! ### writer -/

def dataT (data : Bytes) (st : Nat) : Nat → Option UInt8 := fun p => if st ≤ p then data[p - st]? else none

def WReg (st n : Nat) : Nat → Prop := fun p => st ≤ p ∧ p < st + n

def WInv (data : Bytes) (st : Nat) (file0 : Bytes) (s : GState) : Prop :=
  Errored s.io ∨
    (GFrame (dataT data st) (st + data.length) 0 st (st + data.length) (WReg st data.length) file0 s ∧
      Cov (WReg st data.length) (Good (dataT data st) 0 s.buf) s.io ∧ Bnd s.io)

theorem dataT_lim (data : Bytes) (st : Nat) : ∀ p b, dataT data st p = some b → p < st + data.length := by
  intro p b h
  simp only [dataT] at h
  split at h
  · have := (List.getElem?_eq_some_iff.mp h).1; omega
  · cases h

theorem wslice_length (data : Bytes) (st : Nat) (r : Req) : (wslice data st r).length ≤ r.size := by
  simp only [wslice, List.length_take]; omega

theorem wslice_truthful (data : Bytes) (st : Nat) (r : Req) (hst : st ≤ r.off) :
    TruthfulT (dataT data st) (.complete r (.data (wslice data st r))) := by
  refine ⟨wslice_length data st r, ?_⟩
  intro i hi
  have hi' : i < r.size := Nat.lt_of_lt_of_le hi (wslice_length data st r)
  simp only [dataT, wslice, List.getElem?_take, hi', if_true, List.getElem?_drop]
  have : st ≤ r.off + i := by omega
  simp only [this, if_true]
  congr 1; omega

theorem wslice_ne_nil (data : Bytes) (st : Nat) (r : Req) (h1 : st ≤ r.off) (h2 : r.off < st + data.length)
    (h3 : 1 ≤ r.size) : wslice data st r ≠ [] := by
  intro h
  have := congrArg List.length h
  simp only [wslice, List.length_take, List.length_drop, List.length_nil] at this
  omega

theorem winv_init (data : Bytes) (st bs mr : Nat) (file0 : Bytes) (hbs : 1 ≤ bs) (hmr : 1 ≤ mr) :
    WInv data st file0 (winit bs mr st data file0) := by
  right
  refine ⟨⟨?_, ?_, ?_, ?_⟩, ?_, ?_⟩
  · apply range_startTasks st (st + data.length) bs mr hbs
    exact ⟨(fun r hr => nomatch hr), Nat.le_refl _, Nat.le_refl _⟩
  · intro q b hq
    right
    simp only [winit] at hq
    rw [List.getD_eq_getElem?_getD, hq]; rfl
  · simp [winit]
  · intro q hq; left; simpa [winit] using hq
  · apply cov_startTasks
    intro p hp
    exact Or.inr (Or.inr ⟨hp.1, hp.2⟩)
  · intro _ hp
    exact startTasks_post bs mr hmr _ hp

theorem winv_step (data : Bytes) (st bs mr : Nat) (file0 : Bytes) (hbs : 1 ≤ bs) (hmr : 1 ≤ mr)
    (s : GState) (e : WEv) (h : WInv data st file0 s) :
    WInv data st file0 (wstep bs mr st data s e) := by
  rcases h with h | ⟨hf, hc, hb⟩
  · exact Or.inl (errored_gstep _ _ _ _ _ _ h)
  · -- an event on something not outstanding changes nothing
    have key : ∀ ev : Ev, TruthfulT (dataT data st) ev → Lossless (WReg st data.length) ev →
        WInv data st file0 (gstep false bs mr 0 s ev) := by
      intro ev htr hll
      have hf' := gframe_gstep (dataT data st) (st + data.length) 0 st (st + data.length) _ file0 false
        bs mr hbs (Nat.zero_le _) (dataT_lim data st) (fun p h1 h2 => ⟨h1, h2⟩) s ev hf htr (Or.inr rfl)
      rcases cov_gstep (dataT data st) (st + data.length) 0 st (st + data.length) _ file0 false bs mr
        (Nat.zero_le _) (WReg st data.length) s ev hf hc htr hll with h1 | h1
      · exact Or.inl h1
      · rcases bnd_gstep false bs mr 0 hmr s ev hb with h2 | h2
        · exact Or.inl h2
        · exact Or.inr ⟨hf', h1, h2⟩
    cases e with
    | ok r =>
      simp only [wstep, wev]
      by_cases hr : r ∈ s.io.pending
      · obtain ⟨h1, h2, h3⟩ := hf.range.1 r hr
        have h4 := hf.range.2.2
        apply key
        · exact wslice_truthful data st r h1
        · intro hd
          exact absurd hd (wslice_ne_nil data st r h1 (by omega) h3)
      · have : gstep false bs mr 0 s (.complete r (.data (wslice data st r))) = s := by
          simp [gstep, hr]
        rw [this]; exact Or.inr ⟨hf, hc, hb⟩
    | err r => exact key _ trivial trivial
    | endBatch => exact key _ trivial trivial

theorem winv_run (data : Bytes) (st bs mr : Nat) (file0 : Bytes) (hbs : 1 ≤ bs) (hmr : 1 ≤ mr)
    (evs : List WEv) (s : GState) (h : WInv data st file0 s) :
    WInv data st file0 (evs.foldl (wstep bs mr st data) s) := by
  induction evs generalizing s with
  | nil => exact h
  | cons e t ih =>
    simp only [List.foldl_cons]
    exact ih _ (winv_step data st bs mr file0 hbs hmr s e h)

theorem winv_final (data : Bytes) (st : Nat) (file0 : Bytes) (s : GState) (h : WInv data st file0 s)
    (b : Bytes) (hok : goutcome s = .ok b) : b = pwrite file0 st data := by
  simp only [goutcome] at hok
  split at hok
  · cases hok
  · rename_i hnr
    split at hok
    · rename_i hidle
      injection hok with hb
      subst hb
      rcases h with h | ⟨hf, hc, hbnd⟩
      · rcases h with h | h
        · have := hidle.2; rw [h.2] at this; cases this
        · exact absurd h hnr
      · have hleft : s.io.left = 0 := hbnd hidle.2 hidle.1
        have hgood : ∀ p, st ≤ p → p < st + data.length → Good (dataT data st) 0 s.buf p := by
          intro p h1 h2
          rcases hc p ⟨h1, h2⟩ with hg | ⟨r, hr, _⟩ | hu
          · exact hg
          · rw [hidle.1] at hr; cases hr
          · omega
        -- bytes outside the written range are the initial ones (zero beyond the initial length)
        have hout : ∀ i, ¬ (st ≤ i ∧ i < st + data.length) → i < s.buf.length →
            s.buf[i]? = some (file0.getD i 0) := by
          intro i hi hlt
          have hsome := List.getElem?_eq_getElem hlt
          rcases hf.frame i _ hsome with ⟨_, h2⟩ | h2
          · exact absurd h2 hi
          · rw [hsome, h2]
        have hlen : ∀ i, i < s.buf.length → i < file0.length ∨ i < st + data.length := by
          intro i hlt
          rcases hf.len2 i hlt with h0 | ⟨p, h1, h2, _⟩
          · exact Or.inl h0
          · right; have := h2.2; omega
        by_cases hd : data = []
        · subst hd
          have hlen' : s.buf.length = file0.length := by
            apply Nat.le_antisymm
            · apply Nat.le_of_not_lt
              intro hlt
              rcases hlen file0.length hlt with h | h
              · omega
              · -- then file0.length < st: the position is outside the (empty) written range
                have := hf.len2 file0.length hlt
                rcases this with h0 | ⟨p, _, h2, _⟩
                · omega
                · have := h2.1; have := h2.2; simp at *; omega
            · exact hf.len1
          simp only [pwrite, List.isEmpty_nil, if_true]
          apply List.ext_getElem?
          intro i
          by_cases hi : i < s.buf.length
          · rw [hout i (by simp) hi, List.getD_eq_getElem?_getD,
              List.getElem?_eq_getElem (by omega)]
            simp
          · rw [List.getElem?_eq_none (by omega), List.getElem?_eq_none (by omega)]
        · have hpos : 0 < data.length := List.length_pos_iff.mpr hd
          have hne : data.isEmpty = false := by cases data <;> simp_all
          have hreach : st + data.length ≤ s.buf.length := by
            obtain ⟨_, b, _, hbuf⟩ := hgood (st + data.length - 1) (by omega) (by omega)
            have := (List.getElem?_eq_some_iff.mp hbuf).1
            omega
          simp only [pwrite, hne, Bool.false_eq_true, if_false]
          apply List.ext_getElem?
          intro i
          rw [getElem?_writeAt]
          by_cases h1 : i < st
          · simp only [h1, if_true]
            rw [hout i (by omega) (by omega), List.getD_eq_getElem?_getD]
            by_cases h2 : i < file0.length
            · simp [h2, List.getElem?_eq_getElem h2]
            · simp [h2, List.getElem?_eq_none (Nat.le_of_not_lt h2)]
          · simp only [h1, if_false]
            by_cases h2 : i < st + data.length
            · simp only [h2, if_true]
              obtain ⟨_, b, ht, hbuf⟩ := hgood i (by omega) h2
              simp only [Nat.sub_zero] at hbuf
              simp only [dataT, Nat.le_of_not_lt h1, if_true] at ht
              rw [hbuf, ht]
            · simp only [h2, if_false]
              by_cases h3 : i < s.buf.length
              · rcases hlen i h3 with h4 | h4
                · rw [hout i (by omega) h3, List.getD_eq_getElem?_getD, List.getElem?_eq_getElem h4]
                  simp
                · omega
              · have := hf.len1
                rw [List.getElem?_eq_none (by omega), List.getElem?_eq_none (by omega)]
    · cases hok

end AsyncsshModel.SftpIO
