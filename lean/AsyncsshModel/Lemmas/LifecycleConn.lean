import AsyncsshModel.Model.LifecycleConn
import AsyncsshModel.Lemmas.LifecycleFx
/-
  Connection-level invariant for C09: one endpoint against an arbitrary peer and an arbitrary application
  (any sequence of packets, ready-queue steps, API calls and transport losses).
-/
namespace AsyncsshModel.Lifecycle

/-- acceptor for the owner's callbacks: `made · (requests)* · lost?` -/
def odfa : Nat → OCb → Option Nat
  | 0, .made => some 1
  | 1, .made => none
  | 1, .lost _ => some 2
  | 1, _ => some 1
  | _, _ => none

def runOdfa (tr : List OCb) : Option Nat := tr.foldl (fun st cb => st.bind (odfa · cb)) (some 0)

@[simp] theorem runOdfa_snoc (tr : List OCb) (x : OCb) : runOdfa (tr ++ [x]) = (runOdfa tr).bind (odfa · x) := by
  simp [runOdfa, List.foldl_append]

def hasConnCleanup (q : List Item) : Prop := ∃ e, Item.connCleanup e ∈ q

/-- no `_cleanup` of channel `k` and no connection `_cleanup` among these entries -/
def NoCleanup (k : Nat) (q : List Item) : Prop :=
  ∀ it ∈ q, (∀ e, it ≠ .chanCleanup k e) ∧ (∀ e, it ≠ .connCleanup e)

/-- the queue holds a wake-up of `create()` for channel `k` that runs before any cleanup touching `k` -/
def WakeFirst (k : Nat) (q : List Item) : Prop :=
  ∃ pre post, q = pre ++ Item.createWake k :: post ∧ NoCleanup k pre

theorem WakeFirst.append {k : Nat} {q : List Item} (h : WakeFirst k q) (q' : List Item) : WakeFirst k (q ++ q') := by
  obtain ⟨pre, post, hq, hn⟩ := h
  exact ⟨pre, post ++ q', by simp [hq], hn⟩

theorem WakeFirst.mem {k : Nat} {q : List Item} (h : WakeFirst k q) : Item.createWake k ∈ q := by
  obtain ⟨pre, post, hq, _⟩ := h
  simp [hq]

theorem wakeFirst_snoc {k : Nat} {q : List Item} (h : NoCleanup k q) : WakeFirst k (q ++ [Item.createWake k]) :=
  ⟨q, [], rfl, h⟩

/-- popping an entry that is not the wake-up itself -/
theorem WakeFirst.tail {k : Nat} {it : Item} {q : List Item} (h : WakeFirst k (it :: q)) (hne : it ≠ .createWake k) :
    WakeFirst k q ∧ (∀ e, it ≠ .chanCleanup k e) ∧ (∀ e, it ≠ .connCleanup e) := by
  obtain ⟨pre, post, hq, hn⟩ := h
  cases pre with
  | nil => simp at hq; exact absurd hq.1 hne
  | cons a pre' =>
    simp at hq
    obtain ⟨ha, hq'⟩ := hq
    subst ha
    exact ⟨⟨pre', post, hq', fun x hx => hn x (List.mem_cons_of_mem _ hx)⟩, hn it (List.mem_cons_self ..)⟩

/-- The invariant.  `x` is the ready-queue entry that has been popped and is being executed right now (if any):
    the obligations which that very entry was the witness of are lifted until it has run. -/
structure InvX (s : Conn) (x : Option Item) : Prop where
  chans : ∀ (k : Nat) (c : Chan), s.chans[k]? = some c → CInv c ∧ (c.session = true → c.reg = true)
  closed : s.closeEvent = true → s.transport = false ∧ (∀ (k : Nat) (c : Chan), s.chans[k]? = some c → c.reg = false) ∧
    s.gwaiters = [] ∧ s.wcPending = 0 ∧ s.owner = false ∧ s.establishing = false
  cc1 : hasConnCleanup s.ready → s.transport = false
  cc2 : (∀ e, x ≠ some (.connCleanup e)) → s.transport = false → s.closeEvent = true ∨ hasConnCleanup s.ready
  ownerT : s.owner = true → runOdfa s.ownerTrace = some 1
  ownerF : s.owner = false → runOdfa s.ownerTrace = some 2 ∧ s.closeEvent = true
  wakeQ : ∀ (k : Nat) (c : Chan), x ≠ some (.createWake k) → s.chans[k]? = some c → c.wakeVal.isSome = true →
    Item.createWake k ∈ s.ready
  okQ : ∀ (k : Nat) (c : Chan), x ≠ some (.createWake k) → s.chans[k]? = some c → c.wakeVal = some .openOk →
    c.reg = true ∧ WakeFirst k s.ready
  k2 : ∀ (k : Nat) (e : Exc) (c : Chan), Item.chanCleanup k e ∈ s.ready → s.chans[k]? = some c → c.openWaiter = false
  kb : ∀ (k : Nat) (e : Exc), Item.chanCleanup k e ∈ s.ready → k < s.chans.length
  greq : ∀ (i : Nat), x ≠ some (.greqStart i) → s.greqs[i]? = some .pending →
    Item.greqStart i ∈ s.ready ∨ i ∈ s.gwaiters
  cliS : ∀ (i : Nat) (cs : CliSess), x ≠ some (.createStart i) → s.cli[i]? = some cs → cs.started = false →
    Item.createStart i ∈ s.ready
  cliK : ∀ (i : Nat) (cs : CliSess), s.cli[i]? = some cs → cs.started = true →
    cs.early = true ∨ ∃ k, cs.slot = some k ∧ k < s.chans.length

abbrev Inv (s : Conn) : Prop := InvX s none

/-! ### building blocks -/

/-- ready-queue entries produced by the actions of a method of channel `k` -/
def actItems (k : Nat) : List Act → List Item
  | [] => []
  | .sched e :: rest => .chanCleanup k e :: actItems k rest
  | .wake :: rest => .createWake k :: actItems k rest
  | .spawnRead :: rest => .startReading k :: actItems k rest
  | _ :: rest => actItems k rest

/-- the fields of a connection other than `out` and `ready` -/
structure SameCore (s s' : Conn) : Prop where
  chans : s'.chans = s.chans
  transport : s'.transport = s.transport
  closeEvent : s'.closeEvent = s.closeEvent
  owner : s'.owner = s.owner
  ownerTrace : s'.ownerTrace = s.ownerTrace
  gwaiters : s'.gwaiters = s.gwaiters
  wcPending : s'.wcPending = s.wcPending
  establishing : s'.establishing = s.establishing
  greqs : s'.greqs = s.greqs
  cli : s'.cli = s.cli

theorem sameCore_refl (s : Conn) : SameCore s s := ⟨rfl, rfl, rfl, rfl, rfl, rfl, rfl, rfl, rfl, rfl⟩

theorem SameCore.trans {a b c : Conn} (h1 : SameCore a b) (h2 : SameCore b c) : SameCore a c :=
  ⟨h2.chans.trans h1.chans, h2.transport.trans h1.transport, h2.closeEvent.trans h1.closeEvent,
   h2.owner.trans h1.owner, h2.ownerTrace.trans h1.ownerTrace, h2.gwaiters.trans h1.gwaiters,
   h2.wcPending.trans h1.wcPending, h2.establishing.trans h1.establishing, h2.greqs.trans h1.greqs,
   h2.cli.trans h1.cli⟩

theorem send_core (s : Conn) (m : Msg) : SameCore s (s.send m) ∧ (s.send m).ready = s.ready := by
  unfold Conn.send
  split <;> exact ⟨⟨rfl, rfl, rfl, rfl, rfl, rfl, rfl, rfl, rfl, rfl⟩, rfl⟩

theorem applyActs_core (k : Nat) (acts : List Act) (s : Conn) :
    SameCore s (applyActs k s acts) ∧ (applyActs k s acts).ready = s.ready ++ actItems k acts := by
  induction acts generalizing s with
  | nil => exact ⟨sameCore_refl s, by simp [applyActs, actItems]⟩
  | cons a rest ih =>
    have step : SameCore s (applyAct k s a) ∧ (applyAct k s a).ready = s.ready ++ actItems k [a] := by
      cases a with
      | send rc m => have := send_core s (.chan rc m); exact ⟨this.1, by simp [applyAct, actItems, this.2]⟩
      | sendConf rc w => have := send_core s (.openConf rc k w); exact ⟨this.1, by simp [applyAct, actItems, this.2]⟩
      | sendFail rc => have := send_core s (.openFail rc); exact ⟨this.1, by simp [applyAct, actItems, this.2]⟩
      | sched e => exact ⟨⟨rfl, rfl, rfl, rfl, rfl, rfl, rfl, rfl, rfl, rfl⟩, rfl⟩
      | wake => exact ⟨⟨rfl, rfl, rfl, rfl, rfl, rfl, rfl, rfl, rfl, rfl⟩, rfl⟩
      | spawnRead => exact ⟨⟨rfl, rfl, rfl, rfl, rfl, rfl, rfl, rfl, rfl, rfl⟩, rfl⟩
    have := ih (applyAct k s a)
    simp only [applyActs, List.foldl_cons] at this ⊢
    refine ⟨step.1.trans this.1, ?_⟩
    rw [this.2, step.2]
    cases a <;> simp [actItems]

theorem actItems_mem_chanCleanup {k k' : Nat} {e : Exc} {acts : List Act}
    (h : Item.chanCleanup k' e ∈ actItems k acts) : k' = k ∧ Act.sched e ∈ acts := by
  induction acts with
  | nil => simp [actItems] at h
  | cons a rest ih =>
    cases a <;> simp only [actItems, List.mem_cons] at h ⊢
    all_goals first
      | (rcases h with h | h
         · cases h; exact ⟨rfl, Or.inl rfl⟩
         · exact ⟨(ih h).1, Or.inr (ih h).2⟩)
      | (rcases h with h | h
         · cases h
         · exact ⟨(ih h).1, Or.inr (ih h).2⟩)
      | exact ⟨(ih h).1, Or.inr (ih h).2⟩

theorem actItems_no_connCleanup (k : Nat) (acts : List Act) (e : Exc) : Item.connCleanup e ∉ actItems k acts := by
  induction acts with
  | nil => simp [actItems]
  | cons a rest ih => cases a <;> simp [actItems, ih]

theorem actItems_wake {k : Nat} {acts : List Act} (h : Act.wake ∈ acts) : Item.createWake k ∈ actItems k acts := by
  induction acts with
  | nil => cases h
  | cons a rest ih =>
    rcases List.mem_cons.mp h with h' | h'
    · subst h'; simp [actItems]
    · cases a <;> simp [actItems, ih h']

theorem hasConnCleanup_append_actItems {q : List Item} {k : Nat} {acts : List Act}
    (h : hasConnCleanup (q ++ actItems k acts)) : hasConnCleanup q := by
  obtain ⟨e, he⟩ := h
  rcases List.mem_append.mp he with y | y
  · exact ⟨e, y⟩
  · exact absurd y (actItems_no_connCleanup k acts e)

theorem getElem?_set_chan {l : List Chan} {k j : Nat} {x c' : Chan} (h : (l.set k x)[j]? = some c') :
    (j = k ∧ c' = x) ∨ (j ≠ k ∧ l[j]? = some c') := by
  rw [List.getElem?_set] at h
  split at h
  · rename_i hk
    split at h
    · left; exact ⟨hk.symm, by simpa using h.symm⟩
    · cases h
  · rename_i hk
    right; exact ⟨fun x => hk x.symm, h⟩

/-- **Core step lemma.**  A method of channel `k` turned `c` into `r.c` and asked for `r.acts`; the connection
    stored the new channel state and carried out the actions.  The invariant holds again afterwards, given what
    the method did to the summarised fields.  (`x'` is `x`, or nothing any more if `x` was the wake-up of `k`.) -/
theorem inv_chan_step {s : Conn} {k : Nat} {c : Chan} {r : R} {x x' : Option Item}
    (hI : InvX s x) (hx : x' = x ∨ (x = some (.createWake k) ∧ x' = none)) (hc : s.chans[k]? = some c)
    (hinv : CInv r.c) (hsreg : r.c.session = true → r.c.reg = true)
    (how : r.c.openWaiter = true → c.openWaiter = true)
    (hsched : ∀ e, Act.sched e ∈ r.acts → r.c.openWaiter = false)
    (hwq : r.c.wakeVal.isSome = true → Item.createWake k ∈ s.ready ∨ Act.wake ∈ r.acts)
    (hok : r.c.wakeVal = some .openOk →
      r.c.reg = true ∧ (WakeFirst k s.ready ∨ (r.acts = [.wake] ∧ NoCleanup k s.ready)))
    (hclosed : s.closeEvent = true → r.c.reg = false) :
    InvX (applyActs k (setChan s k r.c) r.acts) x' := by
  obtain ⟨hcore, hready⟩ := applyActs_core k r.acts (setChan s k r.c)
  have hch : (applyActs k (setChan s k r.c) r.acts).chans = s.chans.set k r.c := hcore.chans
  have hrd : (applyActs k (setChan s k r.c) r.acts).ready = s.ready ++ actItems k r.acts := hready
  -- an obligation guarded by `x'` about anything but the wake-up of `k` was already guarded by `x`
  have hguard : ∀ it : Item, it ≠ .createWake k → x' ≠ some it → x ≠ some it := by
    intro it hne h1 h2
    rcases hx with y | ⟨y1, y2⟩
    · rw [y] at h1; exact h1 h2
    · rw [y1] at h2; exact hne (by injection h2 with h2; exact h2.symm)
  refine ⟨?_, ?_, ?_, ?_, ?_, ?_, ?_, ?_, ?_, ?_, ?_, ?_, ?_⟩
  · intro j c' hj
    rw [hch] at hj
    rcases getElem?_set_chan hj with ⟨_, hx⟩ | ⟨_, hx⟩
    · subst hx; exact ⟨hinv, hsreg⟩
    · exact hI.chans j c' hx
  · intro hce
    rw [hcore.closeEvent] at hce
    have hce' : s.closeEvent = true := hce
    obtain ⟨h1, h2, h3, h4, h5, h6⟩ := hI.closed hce'
    refine ⟨by rw [hcore.transport]; exact h1, ?_, by rw [hcore.gwaiters]; exact h3, by rw [hcore.wcPending]; exact h4,
      by rw [hcore.owner]; exact h5, by rw [hcore.establishing]; exact h6⟩
    intro j c' hj
    rw [hch] at hj
    rcases getElem?_set_chan hj with ⟨_, hx⟩ | ⟨_, hx⟩
    · subst hx; exact hclosed hce'
    · exact h2 j c' hx
  · intro h
    rw [hrd] at h
    have := hI.cc1 (hasConnCleanup_append_actItems h)
    rw [hcore.transport]; exact this
  · intro hxx ht
    rw [hcore.transport] at ht
    rcases hI.cc2 (fun e => hguard _ (by simp) (hxx e)) ht with y | ⟨e, y⟩
    · left; rw [hcore.closeEvent]; exact y
    · right; exact ⟨e, by rw [hrd]; exact List.mem_append_left _ y⟩
  · intro h; rw [hcore.owner] at h; rw [hcore.ownerTrace]; exact hI.ownerT h
  · intro h; rw [hcore.owner] at h; rw [hcore.ownerTrace, hcore.closeEvent]; exact hI.ownerF h
  · intro j c' hxx hj hw
    rw [hch] at hj
    rw [hrd]
    rcases getElem?_set_chan hj with ⟨hjk, hx⟩ | ⟨hjk, hx⟩
    · subst hx; subst hjk
      rcases hwq hw with y | y
      · exact List.mem_append_left _ y
      · exact List.mem_append_right _ (actItems_wake y)
    · exact List.mem_append_left _ (hI.wakeQ j c' (hguard _ (by simpa using hjk) hxx) hx hw)
  · intro j c' hxx hj hw
    rw [hch] at hj
    rw [hrd]
    rcases getElem?_set_chan hj with ⟨hjk, hx⟩ | ⟨hjk, hx⟩
    · subst hx; subst hjk
      obtain ⟨h1, h2⟩ := hok hw
      refine ⟨h1, ?_⟩
      rcases h2 with y | ⟨y1, y2⟩
      · exact y.append _
      · rw [y1]; exact wakeFirst_snoc y2
    · obtain ⟨h1, h2⟩ := hI.okQ j c' (hguard _ (by simpa using hjk) hxx) hx hw
      exact ⟨h1, h2.append _⟩
  · intro j e c' hm hj
    rw [hch] at hj
    rw [hrd] at hm
    rcases getElem?_set_chan hj with ⟨hjk, hx⟩ | ⟨hjk, hx⟩
    · subst hx; subst hjk
      rcases List.mem_append.mp hm with y | y
      · have := hI.k2 j e c y hc
        cases ho : r.c.openWaiter with
        | false => rfl
        | true => rw [how ho] at this; cases this
      · exact hsched e (actItems_mem_chanCleanup y).2
    · rcases List.mem_append.mp hm with y | y
      · exact hI.k2 j e c' y hx
      · exact absurd (actItems_mem_chanCleanup y).1 hjk
  · intro j e hm
    rw [hrd] at hm
    rw [hch, List.length_set]
    rcases List.mem_append.mp hm with y | y
    · exact hI.kb j e y
    · rw [(actItems_mem_chanCleanup y).1]
      exact (List.getElem?_eq_some_iff.mp hc).1
  · intro i hxx hi
    rw [hcore.greqs] at hi
    rcases hI.greq i (hguard _ (by simp) hxx) hi with y | y
    · left; rw [hrd]; exact List.mem_append_left _ y
    · right; rw [hcore.gwaiters]; exact y
  · intro i cs hxx hi hs
    rw [hcore.cli] at hi
    rw [hrd]; exact List.mem_append_left _ (hI.cliS i cs (hguard _ (by simp) hxx) hi hs)
  · intro i cs hi hs
    rw [hcore.cli] at hi
    rcases hI.cliK i cs hi hs with y | ⟨kk, y1, y2⟩
    · exact Or.inl y
    · right; exact ⟨kk, y1, by rw [hch, List.length_set]; exact y2⟩

/-- exemptions only weaken the invariant -/
theorem InvX.weaken {s : Conn} {x : Option Item} (h : InvX s none) : InvX s x :=
  ⟨h.chans, h.closed, h.cc1, fun _ ht => h.cc2 (by simp) ht, h.ownerT, h.ownerF,
   fun k c _ => h.wakeQ k c (by simp), fun k c _ => h.okQ k c (by simp), h.k2, h.kb,
   fun i _ => h.greq i (by simp), fun i cs _ => h.cliS i cs (by simp), h.cliK⟩

/-- a change of `out` only -/
theorem InvX.congr {s s' : Conn} {x : Option Item} (h : InvX s x) (hc : SameCore s s')
    (hr : s'.ready = s.ready) : InvX s' x := by
  obtain ⟨c1, c2, c3, c4, c5, c6, c7, c8, c9, c10⟩ := hc
  exact ⟨by rw [c1]; exact h.chans, by rw [c1, c2, c3, c4, c6, c7, c8]; exact h.closed,
    by rw [hr, c2]; exact h.cc1, by rw [hr, c2, c3]; exact h.cc2, by rw [c4, c5]; exact h.ownerT,
    by rw [c4, c5, c3]; exact h.ownerF, by rw [c1, hr]; exact h.wakeQ, by rw [c1, hr]; exact h.okQ,
    by rw [c1, hr]; exact h.k2, by rw [c1, hr]; exact h.kb, by rw [c9, hr, c6]; exact h.greq,
    by rw [c10, hr]; exact h.cliS, by rw [c10, c1]; exact h.cliK⟩

theorem inv_send {s : Conn} {x : Option Item} (h : InvX s x) (m : Msg) : InvX (s.send m) x :=
  h.congr (send_core s m).1 (send_core s m).2

theorem noCleanup_append {k : Nat} {q q' : List Item} (h1 : NoCleanup k q) (h2 : NoCleanup k q') :
    NoCleanup k (q ++ q') := by
  intro it hit
  rcases List.mem_append.mp hit with y | y
  · exact h1 it y
  · exact h2 it y

/-- `_force_close` -/
theorem inv_forceClose {s : Conn} {x : Option Item} (h : InvX s x) (e : Exc) : InvX (forceClose s e) x := by
  unfold forceClose
  split
  · rename_i ht
    have hnc : s.closeEvent = false := by
      cases hce : s.closeEvent with
      | false => rfl
      | true => have := (h.closed hce).1; rw [ht] at this; cases this
    refine ⟨h.chans, ?_, ?_, ?_, h.ownerT, h.ownerF, ?_, ?_, ?_, ?_, ?_, ?_, h.cliK⟩
    · intro hce; simp only at hce; rw [hnc] at hce; cases hce
    · intro _; rfl
    · intro _ _; right; exact ⟨e, by simp⟩
    · intro k c hx hk hw; exact List.mem_append_left _ (h.wakeQ k c hx hk hw)
    · intro k c hx hk hw
      obtain ⟨h1, h2⟩ := h.okQ k c hx hk hw
      exact ⟨h1, h2.append _⟩
    · intro k e' c hm hk
      simp only [List.mem_append, List.mem_cons, List.not_mem_nil, or_false] at hm
      rcases hm with y | y | y
      · exact h.k2 k e' c y hk
      · cases y
      · cases y
    · intro k e' hm
      simp only [List.mem_append, List.mem_cons, List.not_mem_nil, or_false] at hm
      rcases hm with y | y | y
      · exact h.kb k e' y
      · cases y
      · cases y
    · intro i hx hi
      rcases h.greq i hx hi with y | y
      · exact Or.inl (List.mem_append_left _ y)
      · exact Or.inr y
    · intro i cs hx hi hs; exact List.mem_append_left _ (h.cliS i cs hx hi hs)
  · exact h

theorem inv_raised {s : Conn} {x : Option Item} (h : InvX s x) (e : Exc) : InvX (raised s e) x := by
  unfold raised
  split
  · exact inv_forceClose (inv_send h _) _
  · exact inv_forceClose h _

/-- the error continuations used by the connection all keep the invariant -/
def GoodErr (onErr : Conn → Exc → Conn) : Prop :=
  ∀ (s : Conn) (x : Option Item) (e : Exc), InvX s x → InvX (onErr s e) x

theorem goodErr_ignore : GoodErr ignoreErr := fun _ _ _ h => h
theorem goodErr_raised : GoodErr raised := fun _ _ e h => inv_raised h e
theorem goodErr_forceClose : GoodErr forceClose := fun _ _ e h => inv_forceClose h e

/-- an ordinary method call on channel `k`; if the entry being executed is the wake-up of `k`, the method
    must consume the stored result (`hwv`) -/
theorem inv_withChan_plain {s : Conn} {k : Nat} {f : Chan → R} {onErr : Conn → Exc → Conn} {x x' : Option Item}
    (hI : InvX s x) (hx : x' = x ∨ (x = some (.createWake k) ∧ x' = none)) (hE : GoodErr onErr)
    (hf : ∀ c, s.chans[k]? = some c → Plain c (f c))
    (hwv : x = some (.createWake k) → ∀ c, s.chans[k]? = some c → (f c).c.wakeVal = none) :
    InvX (withChan s k f onErr) x' := by
  unfold withChan
  cases hc : s.chans[k]? with
  | none =>
    simp only
    rcases hx with y | ⟨y1, y2⟩
    · subst y; exact hI
    · subst y1; subst y2
      refine ⟨hI.chans, hI.closed, hI.cc1, fun _ => hI.cc2 (by simp), hI.ownerT, hI.ownerF, ?_, ?_, hI.k2, hI.kb,
        fun i _ => hI.greq i (by simp), fun i cs _ => hI.cliS i cs (by simp), hI.cliK⟩
      · intro j c' _ hj hw
        by_cases hjk : j = k
        · subst hjk; rw [hc] at hj; cases hj
        · exact hI.wakeQ j c' (by simpa using fun h => hjk h.symm) hj hw
      · intro j c' _ hj hw
        by_cases hjk : j = k
        · subst hjk; rw [hc] at hj; cases hj
        · exact hI.okQ j c' (by simpa using fun h => hjk h.symm) hj hw
  | some c =>
    simp only
    have hp := hf c hc
    have hcinv := (hI.chans k c hc)
    have step : InvX (applyActs k (setChan s k (f c).c) (f c).acts) x' := by
      refine inv_chan_step hI hx hc hp.inv ?_ hp.ow hp.sched ?_ ?_ ?_
      · intro hs
        rcases hp.sess hs with y | y
        · rw [hp.reg]; exact hcinv.2 y
        · exact y
      · intro hw
        by_cases hxx : x = some (.createWake k)
        · have := hwv hxx c hc; rw [this] at hw; cases hw
        · rcases hp.wv hw with z | z
          · exact Or.inl (hI.wakeQ k c hxx hc z)
          · exact Or.inr z
      · intro hw
        by_cases hxx : x = some (.createWake k)
        · have := hwv hxx c hc; rw [this] at hw; cases hw
        · obtain ⟨h1, h2⟩ := hI.okQ k c hxx hc (hp.okv hw)
          exact ⟨by rw [hp.reg]; exact h1, Or.inl h2⟩
      · intro hce
        rw [hp.reg]; exact (hI.closed hce).2.1 k c hc
    split
    · exact step
    · exact hE _ _ _ step

/-- queueing an entry that is neither a channel nor a connection `_cleanup` -/
theorem inv_enq {s : Conn} {x : Option Item} (h : InvX s x) (it : Item)
    (hn1 : ∀ e, it ≠ .connCleanup e) (hn2 : ∀ k e, it ≠ .chanCleanup k e) : InvX (s.enq it) x := by
  unfold Conn.enq
  refine ⟨h.chans, h.closed, ?_, ?_, h.ownerT, h.ownerF, ?_, ?_, ?_, ?_, ?_, ?_, h.cliK⟩
  · rintro ⟨e, he⟩
    simp only [List.mem_append, List.mem_singleton] at he
    rcases he with y | y
    · exact h.cc1 ⟨e, y⟩
    · exact absurd y.symm (hn1 e)
  · intro hx ht
    rcases h.cc2 hx ht with y | ⟨e, y⟩
    · exact Or.inl y
    · exact Or.inr ⟨e, List.mem_append_left _ y⟩
  · intro k c hx hk hw; exact List.mem_append_left _ (h.wakeQ k c hx hk hw)
  · intro k c hx hk hw
    obtain ⟨h1, h2⟩ := h.okQ k c hx hk hw
    exact ⟨h1, h2.append _⟩
  · intro k e c hm hk
    simp only [List.mem_append, List.mem_singleton] at hm
    rcases hm with y | y
    · exact h.k2 k e c y hk
    · exact absurd y.symm (hn2 k e)
  · intro k e hm
    simp only [List.mem_append, List.mem_singleton] at hm
    rcases hm with y | y
    · exact h.kb k e y
    · exact absurd y.symm (hn2 k e)
  · intro i hx hi
    rcases h.greq i hx hi with y | y
    · exact Or.inl (List.mem_append_left _ y)
    · exact Or.inr y
  · intro i cs hx hi hs; exact List.mem_append_left _ (h.cliS i cs hx hi hs)

/-- a new channel object is appended to the table -/
theorem inv_addChan {s : Conn} {x : Option Item} (h : InvX s x) (c : Chan) (hc : CInv c)
    (hs : c.session = false) (hw : c.wakeVal = none) (hce : s.closeEvent = false)
    (ho : c.openWaiter = true → ∀ e, Item.chanCleanup s.chans.length e ∉ s.ready) :
    InvX { s with chans := s.chans ++ [c] } x := by
  have hget : ∀ (j : Nat) (c' : Chan), (s.chans ++ [c])[j]? = some c' →
      (j < s.chans.length ∧ s.chans[j]? = some c') ∨ (j = s.chans.length ∧ c' = c) := by
    intro j c' hj
    rw [List.getElem?_append] at hj
    split at hj
    · rename_i hlt; exact Or.inl ⟨hlt, hj⟩
    · rename_i hge
      right
      have : j - s.chans.length = 0 := by
        cases hd : j - s.chans.length with
        | zero => rfl
        | succ n => rw [hd] at hj; simp at hj
      rw [this] at hj
      simp at hj
      exact ⟨by omega, hj.symm⟩
  refine ⟨?_, ?_, h.cc1, h.cc2, h.ownerT, h.ownerF, ?_, ?_, ?_, ?_, h.greq, h.cliS, ?_⟩
  · intro j c' hj
    rcases hget j c' hj with ⟨_, y⟩ | ⟨_, y⟩
    · exact h.chans j c' y
    · subst y; exact ⟨hc, fun x => by rw [hs] at x; cases x⟩
  · intro hx; simp only at hx; rw [hce] at hx; cases hx
  · intro j c' hx hj hwv
    rcases hget j c' hj with ⟨_, y⟩ | ⟨_, y⟩
    · exact h.wakeQ j c' hx y hwv
    · subst y; rw [hw] at hwv; cases hwv
  · intro j c' hx hj hwv
    rcases hget j c' hj with ⟨_, y⟩ | ⟨_, y⟩
    · exact h.okQ j c' hx y hwv
    · subst y; rw [hw] at hwv; cases hwv
  · intro j e c' hm hj
    rcases hget j c' hj with ⟨_, y⟩ | ⟨y1, y⟩
    · exact h.k2 j e c' hm y
    · subst y; subst y1
      cases hcw : c'.openWaiter with
      | false => rfl
      | true => exact absurd hm (ho hcw e)
  · intro j e hm
    have := h.kb j e hm
    simp only [List.length_append, List.length_singleton]; omega
  · intro i cs hi hst
    rcases h.cliK i cs hi hst with y | ⟨k, y1, y2⟩
    · exact Or.inl y
    · exact Or.inr ⟨k, y1, by simp only [List.length_append, List.length_singleton]; omega⟩

theorem inv_toChan_plain {s : Conn} {rc : Nat} {f : Chan → R} (hI : Inv s)
    (hf : ∀ c, CInv c → Plain c (f c)) : Inv (toChan s rc f) := by
  unfold toChan
  split
  · split
    · exact inv_withChan_plain hI (Or.inl rfl) goodErr_raised (fun c hc => hf c (hI.chans rc c hc).1)
        (fun h => by cases h)
    · exact inv_raised hI _
  · exact inv_raised hI _

/-- transport still attached: the connection has not been cleaned up and no `_cleanup` is queued -/
theorem live_facts {s : Conn} {x : Option Item} (hI : InvX s x) (ht : s.transport = true) :
    s.closeEvent = false ∧ ¬ hasConnCleanup s.ready ∧ s.owner = true := by
  have h1 : s.closeEvent = false := by
    cases hce : s.closeEvent with
    | false => rfl
    | true => have := (hI.closed hce).1; rw [ht] at this; cases this
  refine ⟨h1, ?_, ?_⟩
  · intro hcc; have := hI.cc1 hcc; rw [ht] at this; cases this
  · cases ho : s.owner with
    | true => rfl
    | false => have := (hI.ownerF ho).2; rw [h1] at this; cases this

theorem inv_openConf {s : Conn} {rc sc win : Nat} (hI : Inv s) (ht : s.transport = true) :
    Inv (toChan s rc (fun c => processOpenConf c sc win)) := by
  unfold toChan
  split
  · rename_i c hc
    split
    · rename_i hreg
      unfold withChan
      rw [hc]
      simp only
      have hcinv := hI.chans rc c hc
      obtain ⟨h1, h2, h3, h4, h5, h6⟩ := processOpenConf_spec sc win c hcinv.1
      obtain ⟨hce, hncc, _⟩ := live_facts hI ht
      have step : InvX (applyActs rc (setChan s rc (processOpenConf c sc win).c) (processOpenConf c sc win).acts)
          none := by
        refine inv_chan_step hI (Or.inl rfl) hc h1 ?_ h3 (fun e he => absurd he (h5 e)) ?_ ?_ ?_
        · intro hs; rw [h4] at hs; rw [h2]; exact hcinv.2 hs
        · intro hw
          rcases h6 with ⟨_, _, ha, _⟩ | ⟨_, hcc, _⟩
          · right; rw [ha]; simp
          · left; rw [hcc] at hw; exact hI.wakeQ rc c (by simp) hc hw
        · intro hw
          rcases h6 with ⟨how, _, ha, _⟩ | ⟨_, hcc, _⟩
          · refine ⟨by rw [h2]; exact hreg, Or.inr ⟨ha, ?_⟩⟩
            intro it hit
            refine ⟨?_, ?_⟩
            · intro e heq; subst heq
              have := hI.k2 rc e c hit hc; rw [how] at this; cases this
            · intro e heq; subst heq; exact hncc ⟨e, hit⟩
          · rw [hcc] at hw
            obtain ⟨y1, y2⟩ := hI.okQ rc c (by simp) hc hw
            exact ⟨by rw [h2]; exact y1, Or.inl y2⟩
        · intro hx; rw [hce] at hx; cases hx
      split
      · exact step
      · exact inv_raised step _
    · exact inv_raised hI _
  · exact inv_raised hI _

theorem newServerChan_inv (w sc win : Nat) (l : Bool) (cfg : SrvCfg) :
    CInv { server := true, recvWin := w, initWin := w, sendChan := some sc, sendWin := win, later := l,
           fo := .start, eofRet := cfg.eofRet, ptyOK := cfg.ptyOK, reqOK := cfg.reqOK, armed := cfg.armed } := by
  constructor <;> simp

theorem inv_processOpen {s : Conn} {sc win : Nat} (hI : Inv s) (ht : s.transport = true) :
    Inv (processOpen s sc win) := by
  obtain ⟨hce, _, hown⟩ := live_facts hI ht
  unfold processOpen
  split
  · exact inv_send hI _
  · split
    · exact inv_raised hI _
    · have h0 : Inv { s with ownerTrace := s.ownerTrace ++ [.sessionRequested] } := by
        refine ⟨hI.chans, hI.closed, hI.cc1, hI.cc2, ?_, ?_, hI.wakeQ, hI.okQ, hI.k2, hI.kb, hI.greq, hI.cliS, hI.cliK⟩
        · intro ho; simp only [runOdfa_snoc, hI.ownerT ho]; rfl
        · intro ho; simp only at ho; rw [hown] at ho; cases ho
      simp only
      split
      · refine inv_send (s := { s with ownerTrace := _, srv := _ }) ?_ _
        exact h0.congr ⟨rfl, rfl, rfl, rfl, rfl, rfl, rfl, rfl, rfl, rfl⟩ rfl
      · have hadd := fun (l : Bool) => inv_addChan h0
          { server := true, recvWin := s.win, initWin := s.win, sendChan := some sc, sendWin := win,
            later := l, fo := .start, eofRet := ((s.srvCfg[s.srv.length]?).getD {}).eofRet,
            ptyOK := ((s.srvCfg[s.srv.length]?).getD {}).ptyOK, reqOK := ((s.srvCfg[s.srv.length]?).getD {}).reqOK,
            armed := ((s.srvCfg[s.srv.length]?).getD {}).armed }
          (newServerChan_inv s.win sc win l ((s.srvCfg[s.srv.length]?).getD {})) rfl rfl hce (by simp)
        refine inv_enq ?_ _ (by simp) (by simp)
        exact (hadd _).congr ⟨rfl, rfl, rfl, rfl, rfl, rfl, rfl, rfl, rfl, rfl⟩ rfl

/-- a global response resolves the oldest global request waiter -/
theorem inv_gresponse {s : Conn} (hI : Inv s) (o : Outcome) (ho : o ≠ .pending) (i : Nat) (rest : List Nat)
    (hg : s.gwaiters = i :: rest) : Inv { s with gwaiters := rest, greqs := s.greqs.set i o } := by
  have hce : s.closeEvent = false := by
    cases hce : s.closeEvent with
    | false => rfl
    | true => have := (hI.closed hce).2.2.1; rw [hg] at this; cases this
  refine ⟨hI.chans, ?_, hI.cc1, hI.cc2, hI.ownerT, hI.ownerF, hI.wakeQ, hI.okQ, hI.k2, hI.kb, ?_, hI.cliS, hI.cliK⟩
  · intro hx; simp only at hx; rw [hce] at hx; cases hx
  · intro j hx hj
    simp only at hj
    rw [List.getElem?_set] at hj
    split at hj
    · split at hj
      · simp at hj; exact absurd hj ho
      · cases hj
    · rename_i hne
      rcases hI.greq j hx hj with y | y
      · exact Or.inl y
      · right
        rw [hg] at y
        rcases List.mem_cons.mp y with z | z
        · exact absurd z.symm hne
        · exact z

theorem inv_recvMsg {s : Conn} (hI : Inv s) (m : Msg) : Inv (recvMsg s m) := by
  unfold recvMsg
  split
  · exact hI
  · rename_i ht
    have ht' : s.transport = true := by simpa using ht
    cases m with
    | disconnect e => exact inv_forceClose hI _
    | chan rc cm => exact inv_toChan_plain hI (fun c hc => processMsg_plain cm c hc)
    | open_ sc win => exact inv_processOpen hI ht'
    | openConf rc sc win => exact inv_openConf hI ht'
    | openFail rc => exact inv_toChan_plain hI (fun c hc => processOpenFailure_plain c hc)
    | greq =>
      simp only
      split
      · exact inv_send hI _
      · split
        · refine inv_enq ?_ _ (by simp) (by simp)
          exact hI.congr ⟨rfl, rfl, rfl, rfl, rfl, rfl, rfl, rfl, rfl, rfl⟩ rfl
        · exact hI.congr ⟨rfl, rfl, rfl, rfl, rfl, rfl, rfl, rfl, rfl, rfl⟩ rfl
    | gsuccess =>
      simp only
      split
      · rename_i i rest hg; exact inv_gresponse hI .ok (by simp) i rest hg
      · exact inv_raised hI _
    | gfailure =>
      simp only
      split
      · rename_i i rest hg; exact inv_gresponse hI .listenErr (by simp) i rest hg
      · exact inv_raised hI _

/-- `connection_lost` from the transport -/
theorem inv_connectionLost {s : Conn} (hI : Inv s) (reset : Bool) : Inv (connectionLost s reset) := by
  unfold connectionLost
  split
  · exact inv_forceClose hI _
  · exact hI

/-! ### executing one entry of the ready queue -/

/-- popping the head of the ready queue: the obligations it witnessed are lifted while it runs -/
theorem inv_pop {s : Conn} (hI : Inv s) {it : Item} {rest : List Item} (hr : s.ready = it :: rest) :
    InvX { s with ready := rest } (some it) := by
  have hsub : ∀ x, x ∈ rest → x ∈ s.ready := fun x hx => by rw [hr]; exact List.mem_cons_of_mem _ hx
  have hmem : ∀ x, x ∈ s.ready → x ≠ it → x ∈ rest := by
    intro x hx hne; rw [hr] at hx
    rcases List.mem_cons.mp hx with y | y
    · exact absurd y hne
    · exact y
  refine ⟨hI.chans, hI.closed, ?_, ?_, hI.ownerT, hI.ownerF, ?_, ?_, ?_, ?_, ?_, ?_, hI.cliK⟩
  · rintro ⟨e, he⟩; exact hI.cc1 ⟨e, hsub _ he⟩
  · intro hx ht
    rcases hI.cc2 (by simp) ht with y | ⟨e, y⟩
    · exact Or.inl y
    · exact Or.inr ⟨e, hmem _ y (fun h => hx e (by rw [h]))⟩
  · intro k c hx hk hw
    exact hmem _ (hI.wakeQ k c (by simp) hk hw) (fun h => hx (by rw [h]))
  · intro k c hx hk hw
    obtain ⟨h1, h2⟩ := hI.okQ k c (by simp) hk hw
    rw [hr] at h2
    exact ⟨h1, (h2.tail (fun h => hx (by rw [h]))).1⟩
  · intro k e c hm hk; exact hI.k2 k e c (hsub _ hm) hk
  · intro k e hm; exact hI.kb k e (hsub _ hm)
  · intro i hx hi
    rcases hI.greq i (by simp) hi with y | y
    · exact Or.inl (hmem _ y (fun h => hx (by rw [h])))
    · exact Or.inr y
  · intro i cs hx hi hs
    exact hmem _ (hI.cliS i cs (by simp) hi hs) (fun h => hx (by rw [h]))

/-- while a cleanup entry is at the head of the queue no channel it touches holds a successful-open result -/
theorem head_cleanup_no_ok {s : Conn} (hI : Inv s) {it : Item} {rest : List Item} (hr : s.ready = it :: rest)
    (k : Nat) (hit : (∃ e, it = .chanCleanup k e) ∨ (∃ e, it = .connCleanup e)) (c : Chan)
    (hk : s.chans[k]? = some c) : c.wakeVal ≠ some .openOk := by
  intro hw
  obtain ⟨_, h2⟩ := hI.okQ k c (by simp) hk hw
  rw [hr] at h2
  have hne : it ≠ .createWake k := by
    rcases hit with ⟨e, y⟩ | ⟨e, y⟩ <;> (rw [y]; simp)
  obtain ⟨_, t1, t2⟩ := h2.tail hne
  rcases hit with ⟨e, y⟩ | ⟨e, y⟩
  · exact t1 e y
  · exact t2 e y

/-- an exemption for an entry no obligation depends on is no exemption -/
theorem InvX.unexempt {s : Conn} {it : Item} (h : InvX s (some it))
    (h1 : ∀ e, it ≠ .connCleanup e) (h2 : ∀ k, it ≠ .createWake k) (h3 : ∀ i, it ≠ .greqStart i)
    (h4 : ∀ i, it ≠ .createStart i) : InvX s none :=
  ⟨h.chans, h.closed, h.cc1, fun _ => h.cc2 (fun e he => h1 e (by injection he)), h.ownerT, h.ownerF,
   fun k c _ => h.wakeQ k c (fun he => h2 k (by injection he)),
   fun k c _ => h.okQ k c (fun he => h2 k (by injection he)), h.k2, h.kb,
   fun i _ => h.greq i (fun he => h3 i (by injection he)),
   fun i cs _ => h.cliS i cs (fun he => h4 i (by injection he)), h.cliK⟩

/-- `_cleanup` / `process_connection_close` of channel `k` -/
theorem inv_withChan_closing {s : Conn} {k : Nat} {f : Chan → R} {x : Option Item}
    (hI : InvX s x) (hxk : x ≠ some (.createWake k))
    (hf : ∀ c, s.chans[k]? = some c → Closing c (f c))
    (hno : ∀ c, s.chans[k]? = some c → c.wakeVal ≠ some .openOk) :
    InvX (withChan s k f ignoreErr) x := by
  unfold withChan
  cases hc : s.chans[k]? with
  | none => exact hI
  | some c =>
    simp only
    have hp := hf c hc
    have step : InvX (applyActs k (setChan s k (f c).c) (f c).acts) x := by
      refine inv_chan_step hI (Or.inl rfl) hc hp.inv ?_ ?_ ?_ ?_ ?_ ?_
      · intro hs; rw [hp.sess] at hs; cases hs
      · intro ho; rw [hp.ow] at ho; cases ho
      · intro e he; exact absurd he (hp.nosched e)
      · intro hw
        rcases hp.wv hw with z | z
        · exact Or.inl (hI.wakeQ k c hxk hc z)
        · exact Or.inr z
      · intro hw; exact absurd (hp.okv hw) (hno c hc)
      · intro _; exact hp.reg
    rw [hp.noerr]
    exact step

/-- everything but the channel table, the ready queue and the output -/
structure SameRest (s s' : Conn) : Prop where
  transport : s'.transport = s.transport
  closeEvent : s'.closeEvent = s.closeEvent
  owner : s'.owner = s.owner
  ownerTrace : s'.ownerTrace = s.ownerTrace
  gwaiters : s'.gwaiters = s.gwaiters
  wcPending : s'.wcPending = s.wcPending
  establishing : s'.establishing = s.establishing
  greqs : s'.greqs = s.greqs
  cli : s'.cli = s.cli
  len : s'.chans.length = s.chans.length

theorem withChan_ignore_rest (s : Conn) (k : Nat) (f : Chan → R) : SameRest s (withChan s k f ignoreErr) := by
  unfold withChan
  cases hc : s.chans[k]? with
  | none => exact ⟨rfl, rfl, rfl, rfl, rfl, rfl, rfl, rfl, rfl, rfl⟩
  | some c =>
    simp only
    have hcore := (applyActs_core k (f c).acts (setChan s k (f c).c)).1
    have : SameRest s (applyActs k (setChan s k (f c).c) (f c).acts) :=
      ⟨hcore.transport, hcore.closeEvent, hcore.owner, hcore.ownerTrace, hcore.gwaiters, hcore.wcPending,
       hcore.establishing, hcore.greqs, hcore.cli, by rw [hcore.chans]; simp [setChan]⟩
    split <;> exact this

theorem SameRest.trans {a b c : Conn} (h1 : SameRest a b) (h2 : SameRest b c) : SameRest a c :=
  ⟨h2.transport.trans h1.transport, h2.closeEvent.trans h1.closeEvent, h2.owner.trans h1.owner,
   h2.ownerTrace.trans h1.ownerTrace, h2.gwaiters.trans h1.gwaiters, h2.wcPending.trans h1.wcPending,
   h2.establishing.trans h1.establishing, h2.greqs.trans h1.greqs, h2.cli.trans h1.cli, h2.len.trans h1.len⟩

/-- what a closing step does to the other channels: nothing -/
theorem withChan_other (s : Conn) (k j : Nat) (f : Chan → R) (onErr : Conn → Exc → Conn)
    (hE : ∀ s e, (onErr s e).chans = s.chans) (hjk : j ≠ k) :
    (withChan s k f onErr).chans[j]? = s.chans[j]? := by
  unfold withChan
  cases hc : s.chans[k]? with
  | none => rfl
  | some c =>
    simp only
    have hcore := (applyActs_core k (f c).acts (setChan s k (f c).c)).1
    have : (applyActs k (setChan s k (f c).c) (f c).acts).chans[j]? = s.chans[j]? := by
      rw [hcore.chans]; simp only [setChan]
      rw [List.getElem?_set]
      have : ¬ k = j := fun h => hjk h.symm
      simp [this]
    split
    · exact this
    · rw [hE]; exact this

theorem withChan_self (s : Conn) (k : Nat) (c : Chan) (f : Chan → R) (hc : s.chans[k]? = some c)
    (hne : (f c).err = none) : (withChan s k f ignoreErr).chans[k]? = some (f c).c := by
  unfold withChan
  rw [hc]
  simp only [hne]
  have hcore := (applyActs_core k (f c).acts (setChan s k (f c).c)).1
  rw [hcore.chans]; simp only [setChan]
  rw [List.getElem?_set]
  simp [(List.getElem?_eq_some_iff.mp hc).1]

/-- the loop of `_cleanup` over the channel table -/
theorem inv_closeChans (e : Exc) (n : Nat) {s : Conn} {x : Option Item} (hI : InvX s x)
    (hx : ∀ k, x ≠ some (.createWake k))
    (hno : ∀ (k : Nat) (c : Chan), s.chans[k]? = some c → c.wakeVal ≠ some .openOk) :
    InvX (closeChans e n s) x ∧ SameRest s (closeChans e n s) ∧
    (∀ (k : Nat) (c : Chan), (closeChans e n s).chans[k]? = some c → c.wakeVal ≠ some .openOk) ∧
    (∀ (k : Nat) (c : Chan), k < n → (closeChans e n s).chans[k]? = some c → c.reg = false) ∧
    (∀ it, it ∈ s.ready → it ∈ (closeChans e n s).ready) := by
  induction n with
  | zero =>
    exact ⟨hI, ⟨rfl, rfl, rfl, rfl, rfl, rfl, rfl, rfl, rfl, rfl⟩, hno, fun _ _ h => absurd h (by omega), fun _ h => h⟩
  | succ n ih =>
    obtain ⟨i1, i2, i3, i4, i5⟩ := ih
    simp only [closeChans]
    cases hc : (closeChans e n s).chans[n]? with
    | none =>
      refine ⟨i1, i2, i3, ?_, i5⟩
      intro k c hk hkc
      by_cases hkn : k < n
      · exact i4 k c hkn hkc
      · have : k = n := by omega
        subst this; rw [hc] at hkc; cases hkc
    | some c0 =>
      simp only
      split
      · rename_i hreg
        have hcl : ∀ c, (closeChans e n s).chans[n]? = some c → Closing c (processConnectionClose c e) :=
          fun c hcc => processConnectionClose_closing e c (i1.chans n c hcc).1
        have hstep := inv_withChan_closing (f := fun c => processConnectionClose c e) i1 (hx n) hcl (i3 n)
        have hrest := withChan_ignore_rest (closeChans e n s) n (fun c => processConnectionClose c e)
        have hself := withChan_self (closeChans e n s) n c0 (fun c => processConnectionClose c e) hc
          (hcl c0 hc).noerr
        have hoth := fun j (hj : j ≠ n) => withChan_other (closeChans e n s) n j
          (fun c => processConnectionClose c e) ignoreErr (fun _ _ => rfl) hj
        refine ⟨hstep, i2.trans hrest, ?_, ?_, ?_⟩
        · intro k c hkc
          by_cases hkn : k = n
          · subst hkn; rw [hself] at hkc; cases hkc
            intro hw; exact i3 k c0 hc ((hcl c0 hc).okv hw)
          · rw [hoth k hkn] at hkc; exact i3 k c hkc
        · intro k c hk hkc
          by_cases hkn : k = n
          · subst hkn; rw [hself] at hkc; cases hkc; exact (hcl c0 hc).reg
          · rw [hoth k hkn] at hkc; exact i4 k c (by omega) hkc
        · intro it hit
          have h5 := i5 it hit
          unfold withChan
          rw [hc]; simp only [(hcl c0 hc).noerr]
          rw [(applyActs_core n _ _).2]
          exact List.mem_append_left _ h5
      · rename_i hreg
        refine ⟨i1, i2, i3, ?_, i5⟩
        intro k c hk hkc
        by_cases hkn : k < n
        · exact i4 k c hkn hkc
        · have : k = n := by omega
          subst this; rw [hc] at hkc; cases hkc
          simpa using hreg

theorem foldl_set_get (v : Outcome) (l : List Nat) (g : List Outcome) (j : Nat) (o : Outcome)
    (h : (l.foldl (fun g i => g.set i v) g)[j]? = some o) : (j ∈ l → o = v) ∧ (j ∉ l → g[j]? = some o) := by
  induction l generalizing g with
  | nil => exact ⟨fun h' => (by cases h'), fun _ => h⟩
  | cons a rest ih =>
    simp only [List.foldl_cons] at h
    obtain ⟨i1, i2⟩ := ih (g.set a v) h
    refine ⟨?_, ?_⟩
    · intro hm
      by_cases hr : j ∈ rest
      · exact i1 hr
      · have := i2 hr
        rcases List.mem_cons.mp hm with y | y
        · subst y
          rw [List.getElem?_set] at this
          simp at this
          exact this.2.symm
        · exact absurd y hr
    · intro hm
      have hr : j ∉ rest := fun h' => hm (List.mem_cons_of_mem _ h')
      have hja : ¬ a = j := fun h' => hm (by rw [h']; exact List.mem_cons_self ..)
      have := i2 hr
      rw [List.getElem?_set] at this
      simpa [hja] using this

/-- the fields of the state after `_cleanup`, in terms of the state `s1` after the channel loop -/
theorem connCleanup_fields (s : Conn) (e : Exc) :
    let s1 := closeChans e s.chans.length s
    let r := connCleanup s e
    r.chans = s1.chans ∧ r.ready = s1.ready ∧ r.transport = s1.transport ∧ r.closeEvent = true ∧
    r.owner = false ∧ r.ownerTrace = (if s1.owner then s1.ownerTrace ++ [.lost e] else s1.ownerTrace) ∧
    r.gwaiters = [] ∧ r.wcPending = 0 ∧ r.establishing = false ∧
    r.greqs = s1.gwaiters.foldl (fun g i => g.set i .listenErr) s1.greqs ∧ r.cli = s1.cli :=
  ⟨rfl, rfl, rfl, rfl, rfl, rfl, rfl, rfl, rfl, rfl, rfl⟩

/-- `SSHConnection._cleanup(exc)` run from the ready queue -/
theorem inv_connCleanup {s : Conn} {e : Exc} (hI : InvX s (some (.connCleanup e))) (ht : s.transport = false)
    (hno : ∀ (k : Nat) (c : Chan), s.chans[k]? = some c → c.wakeVal ≠ some .openOk) :
    Inv (connCleanup s e) := by
  obtain ⟨i1, i2, i3, i4, i5⟩ := inv_closeChans e s.chans.length hI (by simp) hno
  obtain ⟨f1, f2, f3, f4, f5, f6, f7, f8, f9, f10, f11⟩ := connCleanup_fields s e
  generalize closeChans e s.chans.length s = s1 at i1 i2 i3 i4 i5 f1 f2 f3 f4 f5 f6 f7 f8 f9 f10 f11
  generalize connCleanup s e = r at f1 f2 f3 f4 f5 f6 f7 f8 f9 f10 f11 ⊢
  have hlen : s1.chans.length = s.chans.length := i2.len
  have hunreg : ∀ (k : Nat) (c : Chan), s1.chans[k]? = some c → c.reg = false := by
    intro k c hk
    exact i4 k c (by rw [← hlen]; exact (List.getElem?_eq_some_iff.mp hk).1) hk
  have ht1 : s1.transport = false := by rw [i2.transport]; exact ht
  refine ⟨by rw [f1]; exact i1.chans, ?_, ?_, ?_, ?_, ?_, ?_, ?_, by rw [f1, f2]; exact i1.k2,
    by rw [f1, f2]; exact i1.kb, ?_, ?_, by rw [f11, f1]; exact i1.cliK⟩
  · intro _; rw [f1]; exact ⟨by rw [f3]; exact ht1, hunreg, f7, f8, f5, f9⟩
  · intro h; rw [f2] at h; rw [f3]; exact i1.cc1 h
  · intro _ _; exact Or.inl f4
  · intro ho; rw [f5] at ho; cases ho
  · intro _
    refine ⟨?_, f4⟩
    rw [f6]
    cases hown : s1.owner with
    | true => simp [i1.ownerT hown, odfa]
    | false => simpa using (i1.ownerF hown).1
  · intro k c _ hk hw; rw [f1] at hk; rw [f2]; exact i1.wakeQ k c (by simp) hk hw
  · intro k c _ hk hw; rw [f1] at hk; rw [f2]; exact i1.okQ k c (by simp) hk hw
  · intro i _ hi
    rw [f10] at hi
    obtain ⟨g1, g2⟩ := foldl_set_get .listenErr s1.gwaiters s1.greqs i .pending hi
    have hnot : i ∉ s1.gwaiters := fun hm => by have := g1 hm; cases this
    rcases i1.greq i (by simp) (g2 hnot) with y | y
    · left; rw [f2]; exact y
    · exact absurd y hnot
  · intro i cs _ hi hs; rw [f11] at hi; rw [f2]; exact i1.cliS i cs (by simp) hi hs

theorem newClientChan_inv (w : Nat) (cfg : OpenCfg) :
    CInv { server := false, recvWin := w, initWin := w, openWaiter := true, stage := .waitOpen, nenv := cfg.nenv,
           wantPty := cfg.pty, kind := cfg.kind, eofRet := cfg.eofRet, armed := cfg.armed } := by
  constructor <;> simp

/-- the task of the i-th `create_session` call has taken its first step -/
theorem inv_setCli {s : Conn} {i : Nat} {v : CliSess} (hI : InvX s (some (.createStart i))) (hv : v.started = true)
    (hk : v.early = true ∨ ∃ k, v.slot = some k ∧ k < s.chans.length) :
    InvX { s with cli := s.cli.set i v } none := by
  have hset : ∀ (j : Nat) (cs' : CliSess), (s.cli.set i v)[j]? = some cs' →
      (j = i ∧ cs' = v) ∨ (j ≠ i ∧ s.cli[j]? = some cs') := by
    intro j cs' hj
    rw [List.getElem?_set] at hj
    split at hj
    · rename_i hij
      split at hj
      · left; exact ⟨hij.symm, by simpa using hj.symm⟩
      · cases hj
    · rename_i hij; right; exact ⟨fun h => hij h.symm, hj⟩
  refine ⟨hI.chans, hI.closed, hI.cc1, fun _ => hI.cc2 (by simp), hI.ownerT, hI.ownerF,
    fun k c _ => hI.wakeQ k c (by simp), fun k c _ => hI.okQ k c (by simp), hI.k2, hI.kb,
    fun j _ => hI.greq j (by simp), ?_, ?_⟩
  · intro j cs' _ hj hs
    rcases hset j cs' hj with ⟨_, y⟩ | ⟨y1, y2⟩
    · subst y; rw [hv] at hs; cases hs
    · exact hI.cliS j cs' (by simpa using fun h => y1 h.symm) y2 hs
  · intro j cs' hj hs
    rcases hset j cs' hj with ⟨_, y⟩ | ⟨y1, y2⟩
    · subst y; exact hk
    · exact hI.cliK j cs' y2 hs

/-- first step of `create_session` -/
theorem inv_createStart {s : Conn} {i : Nat} (hI : InvX s (some (.createStart i))) : Inv (createStart s i) := by
  unfold createStart
  cases hc : s.cli[i]? with
  | none =>
    simp only
    refine ⟨hI.chans, hI.closed, hI.cc1, fun _ => hI.cc2 (by simp), hI.ownerT, hI.ownerF,
      fun k c _ => hI.wakeQ k c (by simp), fun k c _ => hI.okQ k c (by simp), hI.k2, hI.kb,
      fun j _ => hI.greq j (by simp), ?_, hI.cliK⟩
    intro j cs _ hj hs
    by_cases hji : j = i
    · subst hji; rw [hc] at hj; cases hj
    · exact hI.cliS j cs (by simpa using fun h => hji h.symm) hj hs
  | some cs =>
    simp only
    split
    · rename_i hst
      refine ⟨hI.chans, hI.closed, hI.cc1, fun _ => hI.cc2 (by simp), hI.ownerT, hI.ownerF,
        fun k c _ => hI.wakeQ k c (by simp), fun k c _ => hI.okQ k c (by simp), hI.k2, hI.kb,
        fun j _ => hI.greq j (by simp), ?_, hI.cliK⟩
      intro j cs' _ hj hs
      by_cases hji : j = i
      · subst hji; rw [hc] at hj; cases hj; rw [hst] at hs; cases hs
      · exact hI.cliS j cs' (by simpa using fun h => hji h.symm) hj hs
    · split
      · exact inv_setCli hI rfl (Or.inl rfl)
      · rename_i hst ht
        have ht' : s.transport = true := by simpa using ht
        obtain ⟨hce, _, _⟩ := live_facts hI ht'
        refine inv_send ?_ _
        have hadd := inv_addChan hI _ (newClientChan_inv s.win cs.cfg) rfl rfl hce
          (fun _ e hm => by have := hI.kb _ e hm; omega)
        exact inv_setCli (s := { s with chans := _ }) hadd rfl
          (Or.inr ⟨s.chans.length, rfl, by simp⟩)

theorem inv_reportGlobalFalse {s : Conn} (hI : Inv s) : Inv (reportGlobalFalse s) := by
  unfold reportGlobalFalse
  have h0 : Inv ({ s with gqueue := s.gqueue - 1 } : Conn) :=
    hI.congr ⟨rfl, rfl, rfl, rfl, rfl, rfl, rfl, rfl, rfl, rfl⟩ rfl
  have h1 : Inv (({ s with gqueue := s.gqueue - 1 } : Conn).send .gfailure) := inv_send h0 _
  simp only
  split
  · exact inv_enq h1 _ (by simp) (by simp)
  · exact h1

theorem inv_finishPF {s : Conn} (hI : Inv s) (j : Nat) : Inv (finishPF s j) := by
  unfold finishPF
  split
  · exact hI
  · rename_i hown
    have hown' : s.owner = true := by simpa using hown
    have h0 : Inv { s with ownerTrace := s.ownerTrace ++ [.serverRequested], pfs := s.pfs ++ [({} : PF)] } := by
      refine ⟨hI.chans, hI.closed, hI.cc1, hI.cc2, ?_, ?_, hI.wakeQ, hI.okQ, hI.k2, hI.kb, hI.greq, hI.cliS, hI.cliK⟩
      · intro ho; simp only [runOdfa_snoc, hI.ownerT ho]; rfl
      · intro ho; simp only at ho; rw [hown'] at ho; cases ho
    simp only
    split
    · exact h0.congr ⟨rfl, rfl, rfl, rfl, rfl, rfl, rfl, rfl, rfl, rfl⟩ rfl
    · exact inv_reportGlobalFalse h0

theorem inv_greqStart {s : Conn} {i : Nat} (hI : InvX s (some (.greqStart i))) :
    Inv (if s.transport = false then { s with greqs := s.greqs.set i .listenErr }
         else ({ s with gwaiters := s.gwaiters ++ [i] } : Conn).send .greq) := by
  split
  · refine ⟨hI.chans, hI.closed, hI.cc1, fun _ => hI.cc2 (by simp), hI.ownerT, hI.ownerF,
      fun k c _ => hI.wakeQ k c (by simp), fun k c _ => hI.okQ k c (by simp), hI.k2, hI.kb, ?_,
      fun j cs _ => hI.cliS j cs (by simp), hI.cliK⟩
    intro j _ hj
    simp only at hj
    rw [List.getElem?_set] at hj
    split at hj
    · split at hj
      · cases hj
      · cases hj
    · rename_i hne
      exact hI.greq j (by simpa using hne) hj
  · rename_i ht
    have ht' : s.transport = true := by simpa using ht
    obtain ⟨hce, _, _⟩ := live_facts hI ht'
    refine inv_send ?_ _
    refine ⟨hI.chans, ?_, hI.cc1, fun _ => hI.cc2 (by simp), hI.ownerT, hI.ownerF,
      fun k c _ => hI.wakeQ k c (by simp), fun k c _ => hI.okQ k c (by simp), hI.k2, hI.kb, ?_,
      fun j cs _ => hI.cliS j cs (by simp), hI.cliK⟩
    · intro hx; simp only at hx; rw [hce] at hx; cases hx
    · intro j _ hj
      by_cases hji : j = i
      · subst hji; right; simp
      · rcases hI.greq j (by simpa using fun h => hji h.symm) hj with y | y
        · exact Or.inl y
        · right; simp only; exact List.mem_append_left _ y

/-- one entry of the ready queue is executed -/
theorem inv_runHead {s : Conn} (hI : Inv s) : Inv (runHead s) := by
  unfold runHead
  cases hr : s.ready with
  | nil => simp only; exact hI
  | cons it rest =>
    simp only
    have hp := inv_pop hI hr
    cases it with
    | chanCleanup k e =>
      have hno := head_cleanup_no_ok hI hr k (Or.inl ⟨e, rfl⟩)
      have h0 := hp.unexempt (by simp) (by simp) (by simp) (by simp)
      exact inv_withChan_closing h0 (by simp) (fun c hc => cleanup_closing e c (h0.chans k c hc).1) hno
    | connCleanup e =>
      have ht : s.transport = false := hI.cc1 ⟨e, by rw [hr]; exact List.mem_cons_self ..⟩
      exact inv_connCleanup hp ht (fun k c hc => head_cleanup_no_ok hI hr k (Or.inr ⟨e, rfl⟩) c hc)
    | transportAbort =>
      exact (hp.unexempt (by simp) (by simp) (by simp) (by simp)).congr
        ⟨rfl, rfl, rfl, rfl, rfl, rfl, rfl, rfl, rfl, rfl⟩ rfl
    | createStart i => exact inv_createStart hp
    | createWake k =>
      refine inv_withChan_plain hp (Or.inr ⟨rfl, rfl⟩) goodErr_ignore ?_ (fun _ c _ => createWake_wakeVal c)
      intro c hc
      exact createWake_plain c (hp.chans k c hc).1 (fun hw => (hI.okQ k c (by simp) hc hw).1)
    | startReading k =>
      have h0 := hp.unexempt (by simp) (by simp) (by simp) (by simp)
      exact inv_withChan_plain h0 (Or.inl rfl) goodErr_forceClose
        (fun c hc => startReading_plain c (h0.chans k c hc).1) (fun h => by cases h)
    | finishOpen k =>
      have h0 := hp.unexempt (by simp) (by simp) (by simp) (by simp)
      exact inv_withChan_plain h0 (Or.inl rfl) goodErr_ignore
        (fun c hc => finishOpen_plain c (h0.chans k c hc).1) (fun h => by cases h)
    | finishOpenResume k g =>
      have h0 := hp.unexempt (by simp) (by simp) (by simp) (by simp)
      exact inv_withChan_plain h0 (Or.inl rfl) goodErr_ignore
        (fun c hc => finishOpenResume_plain g c (h0.chans k c hc).1) (fun h => by cases h)
    | greqStart i => exact inv_greqStart hp
    | finishPF j => exact inv_finishPF (hp.unexempt (by simp) (by simp) (by simp) (by simp)) j
    | finishPFResume j =>
      exact inv_reportGlobalFalse (hp.unexempt (by simp) (by simp) (by simp) (by simp))

theorem inv_runN (n : Nat) {s : Conn} (hI : Inv s) : Inv (runN n s) := by
  induction n generalizing s with
  | zero => exact hI
  | succ n ih => exact ih (inv_runHead hI)

theorem inv_tick {s : Conn} (hI : Inv s) : Inv (tick s) := inv_runN _ hI

/-- `disconnect()`'s loop over the channel table: `chan.close()` for each -/
theorem inv_closeAll (n : Nat) {s : Conn} (hI : Inv s) : Inv (closeAll n s) := by
  induction n with
  | zero => exact hI
  | succ n ih =>
    simp only [closeAll]
    split
    · split
      · exact inv_withChan_plain ih (Or.inl rfl) goodErr_ignore
          (fun c hc => close_plain c (ih.chans n c hc).1) (fun h => by cases h)
      · exact ih
    · exact ih

/-- a change of a channel's fields that no invariant mentions -/
theorem inv_setChan_neutral {s : Conn} {k : Nat} {c c' : Chan} (hI : Inv s) (hc : s.chans[k]? = some c)
    (hi : CInv c') (e1 : c'.reg = c.reg) (e2 : c'.openWaiter = c.openWaiter) (e3 : c'.wakeVal = c.wakeVal)
    (e4 : c'.session = c.session) : Inv (setChan s k c') := by
  have hp : Plain c (R.ok c') := plain_of_fields hi (by simp [R.ok]) e1 e2 e3 e4
  have := inv_withChan_plain (f := fun _ => R.ok c') (onErr := ignoreErr) hI (Or.inl rfl) goodErr_ignore
    (fun c0 hc0 => by rw [hc] at hc0; cases hc0; exact hp) (fun h => by cases h)
  unfold withChan at this
  rw [hc] at this
  simpa [R.ok, applyActs] using this

/-- a fresh task entry in the queue discharges the exemption that was made for it -/
theorem InvX.discharge {s : Conn} {it : Item} (h : InvX s (some it)) (hm : it ∈ s.ready)
    (h1 : ∀ e, it ≠ .connCleanup e) (h2 : ∀ k, it ≠ .createWake k) : InvX s none :=
  ⟨h.chans, h.closed, h.cc1, fun _ => h.cc2 (fun e he => h1 e (by injection he)), h.ownerT, h.ownerF,
   fun k c _ => h.wakeQ k c (fun he => h2 k (by injection he)),
   fun k c _ => h.okQ k c (fun he => h2 k (by injection he)), h.k2, h.kb,
   fun i _ hi => by
     by_cases hx : it = .greqStart i
     · left; rw [← hx]; exact hm
     · exact h.greq i (fun he => hx (by injection he)) hi,
   fun i cs _ hi hs => by
     by_cases hx : it = .createStart i
     · rw [← hx]; exact hm
     · exact h.cliS i cs (fun he => hx (by injection he)) hi hs,
   h.cliK⟩

theorem getElem?_snoc {α : Type} (l : List α) (a : α) (j : Nat) (b : α) (hj : (l ++ [a])[j]? = some b) :
    l[j]? = some b ∨ (j = l.length ∧ b = a) := by
  rw [List.getElem?_append] at hj
  split at hj
  · exact Or.inl hj
  · right
    have : j - l.length = 0 := by
      cases hd : j - l.length with
      | zero => rfl
      | succ n => rw [hd] at hj; simp at hj
    rw [this] at hj; simp at hj
    exact ⟨by omega, hj.symm⟩

/-- an application-level operation on the connection endpoint -/
theorem inv_connOp {s : Conn} (hI : Inv s) (o : ConnOp) : Inv (connOp s o).1 := by
  cases o with
  | open_ cfg =>
    simp only [connOp]
    have hce : InvX { s with cli := s.cli ++ [{ cfg := cfg }] } (some (.createStart s.cli.length)) := by
      refine ⟨hI.chans, hI.closed, hI.cc1, fun _ => hI.cc2 (by simp), hI.ownerT, hI.ownerF,
        fun k c _ => hI.wakeQ k c (by simp), fun k c _ => hI.okQ k c (by simp), hI.k2, hI.kb,
        fun i _ => hI.greq i (by simp), ?_, ?_⟩
      · intro j cs hx hj hs
        rcases getElem?_snoc _ _ j cs hj with y | ⟨y1, _⟩
        · exact hI.cliS j cs (by simp) y hs
        · subst y1; exact absurd rfl hx
      · intro j cs hj hs
        rcases getElem?_snoc _ _ j cs hj with y | ⟨_, y⟩
        · exact hI.cliK j cs y hs
        · subst y; simp at hs
    exact (inv_enq hce (.createStart s.cli.length) (by simp) (by simp)).discharge (by simp [Conn.enq]) (by simp) (by simp)
  | chanOp i op =>
    simp only [connOp]
    cases hs : sessSlot s i with
    | none => exact hI
    | some k =>
      simp only
      cases hc : s.chans[k]? with
      | none => exact hI
      | some c =>
        simp only
        have := inv_withChan_plain (f := fun c => appOp c op) (onErr := ignoreErr) hI (Or.inl rfl) goodErr_ignore
          (fun c0 hc0 => appOp_plain op c0 (hI.chans k c0 hc0).1) (fun h => by cases h)
        unfold withChan at this
        rw [hc] at this
        simp only [ignoreErr] at this
        split at this <;> exact this
  | waitClosed i =>
    simp only [connOp]
    cases hs : sessSlot s i with
    | none => exact hI
    | some k =>
      simp only
      cases hc : s.chans[k]? with
      | none => exact hI
      | some c =>
        simp only
        obtain ⟨w1, w2, w3, w4, _, _, _⟩ := waitClosed_spec c
        exact inv_setChan_neutral hI hc (waitClosed_inv c (hI.chans k c hc).1) w1 w2 w3 w4
  | connWaitClosed =>
    simp only [connOp]
    split
    · exact hI.congr ⟨rfl, rfl, rfl, rfl, rfl, rfl, rfl, rfl, rfl, rfl⟩ rfl
    · rename_i hce
      refine ⟨hI.chans, ?_, hI.cc1, hI.cc2, hI.ownerT, hI.ownerF, hI.wakeQ, hI.okQ, hI.k2, hI.kb, hI.greq, hI.cliS,
        hI.cliK⟩
      intro hx; exact absurd hx hce
  | greq =>
    simp only [connOp]
    have hce : InvX { s with greqs := s.greqs ++ [.pending] } (some (.greqStart s.greqs.length)) := by
      refine ⟨hI.chans, hI.closed, hI.cc1, fun _ => hI.cc2 (by simp), hI.ownerT, hI.ownerF,
        fun k c _ => hI.wakeQ k c (by simp), fun k c _ => hI.okQ k c (by simp), hI.k2, hI.kb, ?_,
        fun i cs _ => hI.cliS i cs (by simp), hI.cliK⟩
      intro j hx hj
      rcases getElem?_snoc _ _ j _ hj with y | ⟨y1, _⟩
      · exact hI.greq j (by simp) y
      · subst y1; exact absurd rfl hx
    exact (inv_enq hce (.greqStart s.greqs.length) (by simp) (by simp)).discharge (by simp [Conn.enq]) (by simp) (by simp)
  | grant j g =>
    simp only [connOp]
    cases hk : (s.srv[j]?).bind id with
    | none => exact hI
    | some k =>
      simp only
      cases hc : s.chans[k]? with
      | none => exact hI
      | some c =>
        simp only
        split
        · exact hI
        · have h1 : Inv (setChan s k { c with decided := some g }) :=
            inv_setChan_neutral hI hc (cinv_congr (hI.chans k c hc).1 rfl rfl rfl rfl rfl rfl rfl rfl rfl rfl rfl rfl rfl rfl)
              rfl rfl rfl rfl
          split
          · exact inv_enq h1 _ (by simp) (by simp)
          · exact h1
  | pfDecide j =>
    simp only [connOp]
    cases hp : s.pfs[j]? with
    | none => exact hI
    | some p =>
      simp only
      split
      · exact hI
      · refine inv_enq ?_ _ (by simp) (by simp)
        exact hI.congr ⟨rfl, rfl, rfl, rfl, rfl, rfl, rfl, rfl, rfl, rfl⟩ rfl
  | connClose =>
    simp only [connOp]
    exact inv_forceClose (inv_send (inv_closeAll _ hI) _) _
  | connAbort => exact inv_forceClose hI _

/-! ### every reachable state satisfies the invariant -/

theorem inv_fresh (b : Bool) (w : Nat) (cfgs : List SrvCfg) (pf : List OpenMode) : Inv (Conn.fresh b w cfgs pf) := by
  constructor <;> simp [Conn.fresh, hasConnCleanup, runOdfa, odfa]

theorem inv_stepEv {s : Conn} (hI : Inv s) (ev : CEv) : Inv (s.stepEv ev) := by
  cases ev with
  | recv m => exact inv_recvMsg hI m
  | run => exact inv_runHead hI
  | op o => exact inv_connOp hI o
  | lose r => exact inv_connectionLost hI r

theorem inv_runEvs {s : Conn} (hI : Inv s) (evs : List CEv) : Inv (s.runEvs evs) := by
  induction evs generalizing s with
  | nil => exact hI
  | cons ev rest ih => exact ih (inv_stepEv hI ev)

theorem inv_reachable (b : Bool) (w : Nat) (cfgs : List SrvCfg) (pf : List OpenMode) (evs : List CEv) :
    Inv ((Conn.fresh b w cfgs pf).runEvs evs) := inv_runEvs (inv_fresh b w cfgs pf) evs

end AsyncsshModel.Lifecycle
