import AsyncsshModel.Lemmas.ChannelSafe
/-
  Liveness of the honest composition: a potential (`sysPot`) that every delivery strictly decreases, enabledness
  of a delivery whenever data is undelivered and the reader reads (`no_deadlock`), and the corollary that all
  written bytes reach a reading application (`all_data_eventually_delivered`).
-/
namespace AsyncsshModel.Channel
open AsyncsshModel

/-! ### a potential that every delivery decreases -/

/-- weight of a message in flight -/
def msgWeight : Msg → Nat
  | .data _ bs => bs.length + 3
  | .adjust _ => 1
  | .eof => 1
  | .close => 1

def linkPot : List Msg → Nat
  | [] => 0
  | m :: rest => msgWeight m + linkPot rest

theorem linkPot_append (a b : List Msg) : linkPot (a ++ b) = linkPot a + linkPot b := by
  induction a with
  | nil => simp [linkPot]
  | cons m rest ih => simp [linkPot, ih]; omega

/-- potential of the send half -/
def sendPot (c : Chan) : Nat := 4 * bufBytes c.sendBuf + 3 * c.sendBuf.length + 2 * (2 - sStage c)
/-- potential of the receive buffer -/
def bufPot (b : Buf) : Nat := bufBytes b + 2 * b.length
def chanPot (c : Chan) : Nat := sendPot c + bufPot c.recvBuf

theorem flushData_pot : ∀ (fuel : Nat) (c c' : Chan) (ms : List Msg),
    flushData fuel c = some (c', ms) →
    4 * bufBytes c'.sendBuf + 3 * c'.sendBuf.length + linkPot ms ≤ 4 * bufBytes c.sendBuf + 3 * c.sendBuf.length := by
  intro fuel
  induction fuel with
  | zero => intro c c' ms h; simp [flushData] at h
  | succ n ih =>
    intro c c' ms h
    unfold flushData at h
    split at h
    · simp only [Option.some.injEq, Prod.mk.injEq] at h
      obtain ⟨rfl, rfl⟩ := h
      simp [linkPot]
    · rename_i buf dt rest hb
      split at h
      · simp only [Option.some.injEq, Prod.mk.injEq] at h
        obtain ⟨rfl, rfl⟩ := h
        simp [linkPot]
      · rename_i hw
        split at h
        · simp only [Option.some.injEq, Prod.mk.injEq] at h
          obtain ⟨rfl, rfl⟩ := h
          simp [linkPot]
        rename_i hz
        simp only at h
        split at h
        · simp at h
        · rename_i c2 ms2 hrec
          simp only [Option.some.injEq, Prod.mk.injEq] at h
          obtain ⟨rfl, rfl⟩ := h
          have h1 := ih _ _ _ hrec
          simp only at h1
          have hps : 0 < pktSize c.sendWindow c.sendPktsize := by omega
          rw [hb, linkPot_append]
          have hsp : 4 * bufBytes (splitHead (pktSize c.sendWindow c.sendPktsize) buf dt rest).2 +
              3 * (splitHead (pktSize c.sendWindow c.sendPktsize) buf dt rest).2.length +
              ((splitHead (pktSize c.sendWindow c.sendPktsize) buf dt rest).1.length + 3) ≤
              4 * bufBytes ((buf, dt) :: rest) + 3 * ((buf, dt) :: rest).length := by
            unfold splitHead
            split
            · rename_i hgt
              simp only [bufBytes, List.length_drop, List.length_cons, List.length_take]
              omega
            · simp only [bufBytes, List.length_cons]
              omega
          have hm : linkPot (sendPkt c (.data dt (splitHead (pktSize c.sendWindow c.sendPktsize) buf dt rest).1)) ≤
              (splitHead (pktSize c.sendWindow c.sendPktsize) buf dt rest).1.length + 3 := by
            unfold sendPkt; split <;> simp [linkPot, msgWeight]
          omega

theorem sStage_le_two (c : Chan) : sStage c ≤ 2 := by unfold sStage; cases c.sendState <;> simp

theorem flushSend_pot (c c' : Chan) (ms : List Msg)
    (h : flushSend c = some (c', ms)) : sendPot c' + linkPot ms ≤ sendPot c := by
  unfold flushSend at h
  split at h
  · simp at h
  · rename_i c1 ms1 hfd
    simp only [Option.some.injEq, Prod.mk.injEq] at h
    obtain ⟨rfl, rfl⟩ := h
    have h1 := flushData_pot _ _ _ _ hfd
    obtain ⟨hfr, _⟩ := flushData_spec _ _ _ _ hfd
    have hst1 : c1.sendState = c.sendState := by rw [hfr]
    have hco1 : c1.sendChanOpen = c.sendChanOpen := by rw [hfr]
    have hss : sStage c1 = sStage c := by simp [sStage, hst1]
    rw [linkPot_append]
    unfold sendPot
    generalize hft : flushTail c1 = r
    obtain ⟨c2, ms2⟩ := r
    simp only
    suffices h2 : 4 * bufBytes c2.sendBuf + 3 * c2.sendBuf.length + 2 * (2 - sStage c2) + linkPot ms2 ≤
        4 * bufBytes c1.sendBuf + 3 * c1.sendBuf.length + 2 * (2 - sStage c1) by
      rw [hss] at h2; omega
    unfold flushTail at hft
    split at hft
    · rename_i hb
      split at hft
      · rename_i hs
        simp only [Prod.mk.injEq] at hft
        obtain ⟨rfl, rfl⟩ := hft
        have : linkPot (sendPkt c1 .eof) ≤ 1 := by unfold sendPkt; split <;> simp [linkPot, msgWeight]
        simp only [sStage, hs, hb]
        omega
      · rename_i hs
        unfold closeSend at hft
        simp only [hs, ne_eq, reduceCtorEq, not_false_eq_true, if_true, Prod.mk.injEq] at hft
        obtain ⟨rfl, rfl⟩ := hft
        have h6 : linkPot (if c1.sendEofPending = true then sendPkt c1 .eof else []) ≤ 1 := by
          split
          · unfold sendPkt; split <;> simp [linkPot, msgWeight]
          · simp [linkPot]
        rw [linkPot_append]
        simp only [sStage, hs, hb, bufBytes, List.length_nil]
        generalize hk : linkPot (sendPkt _ Msg.close) = k
        have h5 : k ≤ 1 := by rw [← hk]; unfold sendPkt; split <;> simp [linkPot, msgWeight]
        omega
      · simp only [Prod.mk.injEq] at hft
        obtain ⟨rfl, rfl⟩ := hft
        simp [linkPot]
    · simp only [Prod.mk.injEq] at hft
      obtain ⟨rfl, rfl⟩ := hft
      simp [linkPot]

theorem SameSend.sendPot {c c' : Chan} (h : SameSend c c') : sendPot c' = sendPot c := by
  unfold Channel.sendPot; rw [h.sendBuf, h.sStage]

theorem SameRecv.bufPot {c c' : Chan} (h : SameRecv c c') : bufPot c'.recvBuf = bufPot c.recvBuf := by
  rw [h.recvBuf]

theorem drainRecv_pot : ∀ (buf : Buf) (c : Chan),
    bufPot (drainRecv c buf).2.1 + linkPot (drainRecv c buf).2.2.1 ≤ bufPot buf
  | [], c => by simp [drainRecv, bufPot, linkPot, bufBytes]
  | (d, dt) :: rest, c => by
    unfold drainRecv
    split
    · simp [linkPot]
    · have ih := drainRecv_pot rest (deliverData c d dt).1
      obtain ⟨sp, _⟩ := deliverData_spec c d dt
      have hadj : linkPot (deliverData c d dt).2.1 ≤ 1 := by
        unfold deliverData
        simp only
        split
        · unfold sendPkt; split <;> simp [linkPot, msgWeight]
        · simp [linkPot]
      simp only [linkPot_append]
      simp only [bufPot, bufBytes, List.length_cons] at ih ⊢
      omega

theorem writeEof_pot (c c' : Chan) (ms : List Msg) (hw : WFs c)
    (h : writeEof c = some (c', ms)) : chanPot c' + linkPot ms ≤ chanPot c := by
  unfold writeEof at h
  split at h
  · rename_i hs
    have hw0 : WFs { c with sendState := .eofPending } :=
      ⟨by simp only [ne_eq, reduceCtorEq, not_false_eq_true, iff_true]; exact hw.chanOpen.mpr (by simp [hs]),
       by simp⟩
    have h1 := flushSend_pot _ _ _ h
    have sp := flushSend_spec _ _ _ hw0 h
    have h2 : sendPot { c with sendState := .eofPending } = sendPot c := by simp [sendPot, sStage, hs]
    unfold chanPot
    rw [sp.same.recvBuf]
    rw [h2] at h1
    show sendPot c' + bufPot c.recvBuf + linkPot ms ≤ _
    omega
  · simp only [Option.some.injEq, Prod.mk.injEq] at h
    obtain ⟨rfl, rfl⟩ := h
    simp [linkPot]

theorem flushRecv_pot (c c' : Chan) (ms : List Msg) (os : List Out) (hw : WFs c)
    (h : flushRecv c = some (c', ms, os)) : chanPot c' + linkPot ms ≤ chanPot c := by
  unfold flushRecv at h
  have hd := drainRecv_spec c.recvBuf c
  have hpot := drainRecv_pot c.recvBuf c
  generalize drainRecv c c.recvBuf = r at *
  obtain ⟨c1, left, ms1, os1⟩ := r
  simp only at hd h hpot
  have e1 := hd.eff hw
  split at h
  · simp at h
  · rename_i c2 ms2 os2 hes
    simp only [Option.some.injEq, Prod.mk.injEq] at h
    obtain ⟨rfl, rfl, rfl⟩ := h
    have hc1 : chanPot { c1 with recvBuf := left } + linkPot ms1 ≤ chanPot c := by
      unfold chanPot
      have : sendPot { c1 with recvBuf := left } = sendPot c := by
        simp only [sendPot, sStage]; rw [hd.same.sendBuf, hd.same.sendState]
      rw [this]; show sendPot c + bufPot left + linkPot ms1 ≤ _; omega
    have hc2 : chanPot c2 + linkPot ms2 ≤ chanPot { c1 with recvBuf := left } := by
      unfold eofStep at hes
      split at hes
      · dsimp only at hes
        split at hes
        · split at hes
          · simp at hes
          · rename_i c3 ms3 hwe
            simp only [Option.some.injEq, Prod.mk.injEq] at hes
            obtain ⟨rfl, rfl, rfl⟩ := hes
            have hw2 : WFs { { c1 with recvBuf := left } with recvState := .eof } :=
              ⟨e1.wfs.chanOpen, e1.wfs.drained⟩
            have := writeEof_pot _ _ _ hw2 hwe
            exact this
        · simp only [Option.some.injEq, Prod.mk.injEq] at hes
          obtain ⟨rfl, rfl, rfl⟩ := hes
          simp [linkPot, chanPot, sendPot, sStage]
      · simp only [Option.some.injEq, Prod.mk.injEq] at hes
        obtain ⟨rfl, rfl, rfl⟩ := hes
        simp [linkPot]
    have hc3 : chanPot (closeStep c2).1 = chanPot c2 := by
      unfold closeStep; split <;> simp [chanPot, sendPot, sStage]
    rw [hc3, linkPot_append]
    omega

/-- processing a message strictly decreases (endpoint potential + what it puts on the wire) below
    (endpoint potential + the message consumed) -/
theorem recv_potential (c c' : Chan) (m : Msg) (ms : List Msg) (os : List Out) (hw : WF c)
    (h : step c (.recv m) = .ok (c', ms, os)) :
    chanPot c' + linkPot ms < chanPot c + msgWeight m := by
  cases m with
  | data dt bs =>
    obtain ⟨_, _, _, ha⟩ := step_recv_data_ok h
    rcases acceptData_cases c bs dt with ⟨_, h1⟩ | ⟨_, _, h1⟩ | ⟨_, _, _, h1⟩ | ⟨_, _, _, h1⟩
    · rw [h1] at ha; cases ha; simp [linkPot, msgWeight]
    · rw [h1] at ha; cases ha
      have : linkPot (sendPkt c (.adjust bs.length)) ≤ 1 := by
        unfold sendPkt; split <;> simp [linkPot, msgWeight]
      simp only [msgWeight]; omega
    · rw [h1] at ha; cases ha
      simp only [chanPot, sendPot, sStage, bufPot, linkPot, msgWeight, bufBytes_append, bufBytes,
        List.length_append, List.length_cons, List.length_nil]
      omega
    · rw [h1] at ha
      obtain ⟨sp, _⟩ := deliverData_spec c bs dt
      have hadj : linkPot (deliverData c bs dt).2.1 ≤ 1 := by
        unfold deliverData
        simp only
        split
        · unfold sendPkt; split <;> simp [linkPot, msgWeight]
        · simp [linkPot]
      rw [ha] at sp hadj
      simp only at sp hadj
      unfold chanPot
      rw [sp.same.sendPot, sp.recvBuf]
      simp only [msgWeight]; omega
  | adjust n =>
    obtain ⟨_, h1, _⟩ := step_recv_adjust_ok h
    have hw0 : WFs { c with sendWindow := c.sendWindow + n } := ⟨hw.s.chanOpen, hw.s.drained⟩
    have hpot := flushSend_pot _ _ _ h1
    have sp := flushSend_spec _ _ _ hw0 h1
    have h2 : sendPot { c with sendWindow := c.sendWindow + n } = sendPot c := rfl
    unfold chanPot
    rw [sp.same.recvBuf]
    show sendPot c' + bufPot c.recvBuf + linkPot ms < _
    simp only [msgWeight]; omega
  | eof =>
    obtain ⟨_, h1⟩ := step_recv_eof_ok h
    have hw0 : WFs { c with recvState := .eofPending } := ⟨hw.s.chanOpen, hw.s.drained⟩
    have hpot := flushRecv_pot _ _ _ _ hw0 h1
    have h2 : chanPot { c with recvState := .eofPending } = chanPot c := rfl
    simp only [msgWeight]; omega
  | close =>
    obtain ⟨_, ms1, h1, rfl⟩ := step_recv_close_ok h
    obtain ⟨hsr, hb, _, hst, _, _, _, _, hwf⟩ := closeSend_spec c hw.s
    have hw0 : WFs { (closeSend c).1 with recvEofPending := decide (c.recvState = .eofPending), recvState := .closePending } := ⟨hwf.chanOpen, hwf.drained⟩
    have hpot := flushRecv_pot _ _ _ _ hw0 h1
    have hcs : chanPot { (closeSend c).1 with recvEofPending := decide (c.recvState = .eofPending), recvState := .closePending } + linkPot (closeSend c).2 ≤ chanPot c := by
      unfold chanPot
      show sendPot (closeSend c).1 + bufPot (closeSend c).1.recvBuf + linkPot (closeSend c).2 ≤ _
      rw [hsr.recvBuf]
      have : sendPot (closeSend c).1 + linkPot (closeSend c).2 ≤ sendPot c := by
        unfold closeSend
        split
        · rename_i hs
          have hop : c.sendChanOpen = true := hw.s.chanOpen.mpr hs
          have h1 : sStage c ≤ 1 := sStage_le_of_open hw.s hop
          simp only [sendPot, sStage, bufBytes, List.length_nil, sendPkt, hop, if_true, linkPot, msgWeight]
          have : 2 * (2 - sStage c) ≥ 2 := by omega
          unfold sStage at this
          omega
        · simp only [sendPot, sStage, bufBytes, List.length_nil, linkPot]
          omega
      omega
    rw [linkPot_append]
    simp only [msgWeight]; omega

/-! ### no deadlock -/

def sysPot (s : Sys) : Nat :=
  chanPot (s.ep .a) + chanPot (s.ep .b) + linkPot (s.link .a) + linkPot (s.link .b)

/-- every delivery of a message strictly decreases the potential -/
theorem deliver_decreases (s s' : Sys) (z : Side) (m : Msg) (rest : List Msg) (hinv : Inv s)
    (hl : s.link z = m :: rest) (h : s.step (.deliver z) = .ok s') :
    sysPot s' < sysPot s := by
  simp only [Sys.step, hl] at h
  split at h
  · simp at h
  · rename_i r hr
    simp only [Except.ok.injEq] at h
    subst h
    obtain ⟨c', ms, os⟩ := r
    have hpot := recv_potential _ _ _ _ _ (hinv.wf z) hr
    cases z <;>
    · simp only [sysPot, Sys.apply, upd, Side.other, hl, linkPot] at hpot ⊢
      simp only [reduceCtorEq, if_false, if_true, linkPot_append]
      omega

/-- bytes written at `x` that the application at the other side has not seen yet -/
def undelivered (s : Sys) (x : Side) : Nat :=
  bufBytes (s.ep x).sendBuf + bufBytes (dataOf (s.link x.other)) + bufBytes (s.ep x.other).recvBuf

/-- the application at `y` keeps reading -/
structure Reading (s : Sys) (y : Side) : Prop where
  unpaused : (s.ep y).recvPaused = .no
  noArm : (s.ep y).pauseAfter = none
  open_ : (s.hist y).appClosed = false

theorem adjustSum_pos_ne_nil {l : List Msg} (h : 0 < adjustSum l) : l ≠ [] := by
  intro hl; subst hl; simp [adjustSum] at h

/-- With undelivered data, a reader that reads, a receive window and a peer maximum packet size that are not zero
    (with packet size 0 the peer forbids sending anything: since fix de5c08f the data then simply waits), some message is in
    flight: a delivery step is enabled (and by `no_fatal` it succeeds, by `deliver_decreases` it makes progress). -/
theorem no_deadlock (s : Sys) (x : Side) (hinv : Inv s) (hu : 0 < undelivered s x)
    (hr : Reading s x.other) (hinit : 0 < (s.ep x.other).initWindow) (hp : 0 < (s.ep x).sendPktsize) :
    s.link x.other ≠ [] ∨ s.link x ≠ [] := by
  by_cases hl : s.link x.other = []
  · right
    have hd := hinv.dir x
    have hrb : (s.ep x.other).recvBuf = [] := (hinv.wf x.other).unpaused hr.unpaused
    have hnl : ¬ SendLate (s.ep x.other) := by
      intro hsl
      rcases (hinv.g x.other).closedBy hsl with h1 | h1
      · rw [hr.open_] at h1; cases h1
      · have := hd.link
        rw [h1, hl] at this
        simp only [LinkOK] at this
        have hsb := (hinv.wf x).s.drained (Or.inr (sStage_two this.symm))
        unfold undelivered at hu
        rw [hsb, hl, hrb] at hu
        simp [dataOf, bufBytes] at hu
    have heq := hd.acctEq (not_sendLate_open (hinv.wf x.other).s hnl)
    have hhalf := (hinv.wf x.other).half
    unfold undelivered at hu
    rw [hl, hrb] at hu heq
    simp only [dataOf, bufBytes, Nat.add_zero, Nat.zero_add] at hu heq
    have hsb : (s.ep x).sendBuf ≠ [] := by intro h; rw [h] at hu; simp [bufBytes] at hu
    have hw : (s.ep x).sendWindow = 0 := by
      rcases (hinv.wf x).exit with h | h | h
      · exact absurd h hsb
      · exact h
      · omega
    rw [hw] at heq
    apply adjustSum_pos_ne_nil
    push_cast at heq; omega
  · exact Or.inl hl

/-- nothing in flight, the reader reads: everything written has been delivered -/
theorem quiescent_delivered (s : Sys) (x : Side) (hinv : Inv s) (hla : s.link .a = []) (hlb : s.link .b = [])
    (hr : Reading s x.other) (hinit : 0 < (s.ep x.other).initWindow) (hp : 0 < (s.ep x).sendPktsize) :
    tag (dataOuts (s.hist x.other).dl) = tag (s.hist x).wr := by
  have hl : ∀ z, s.link z = [] := fun z => by cases z <;> assumption
  have hu : undelivered s x = 0 := by
    rcases Nat.eq_zero_or_pos (undelivered s x) with h | h
    · exact h
    · rcases no_deadlock s x hinv h hr hinit hp with h1 | h1
      · exact absurd (hl _) h1
      · exact absurd (hl _) h1
  have hst := (hinv.dir x).stream hr.open_
  have hrb : (s.ep x.other).recvBuf = [] := (hinv.wf x.other).unpaused hr.unpaused
  unfold undelivered at hu
  have hsb : tag (s.ep x).sendBuf = [] := by
    have : bufBytes (s.ep x).sendBuf = 0 := by omega
    rw [bufBytes_eq] at this
    exact List.length_eq_zero_iff.mp this
  rw [hrb, hl, hsb] at hst
  simpa [dataOf] using hst

/-! ### a reader that keeps reading stays a reader under deliveries -/

theorem deliverData_keep (c : Chan) (d : Bytes) (dt : DType) (h : c.pauseAfter = none) :
    (deliverData c d dt).1.pauseAfter = none ∧ (deliverData c d dt).1.recvPaused = c.recvPaused := by
  unfold deliverData; simp [h]

theorem drainRecv_keep : ∀ (buf : Buf) (c : Chan), c.pauseAfter = none →
    (drainRecv c buf).1.pauseAfter = none ∧ (drainRecv c buf).1.recvPaused = c.recvPaused
  | [], c, h => by simp [drainRecv, h]
  | (d, dt) :: rest, c, h => by
    unfold drainRecv
    split
    · exact ⟨h, rfl⟩
    · obtain ⟨h1, h2⟩ := deliverData_keep c d dt h
      obtain ⟨h3, h4⟩ := drainRecv_keep rest _ h1
      exact ⟨h3, h4.trans h2⟩

theorem flushRecv_keep (c c' : Chan) (ms : List Msg) (os : List Out) (hw : WFs c) (hpa : c.pauseAfter = none)
    (h : flushRecv c = some (c', ms, os)) : c'.pauseAfter = none ∧ c'.recvPaused = c.recvPaused := by
  unfold flushRecv at h
  have hd := drainRecv_spec c.recvBuf c
  obtain ⟨hk1, hk2⟩ := drainRecv_keep c.recvBuf c hpa
  generalize drainRecv c c.recvBuf = r at *
  obtain ⟨c1, left, ms1, os1⟩ := r
  simp only at hd h hk1 hk2
  have e1 := hd.eff hw
  split at h
  · simp at h
  · rename_i c2 ms2 os2 hes
    simp only [Option.some.injEq, Prod.mk.injEq] at h
    obtain ⟨rfl, rfl, rfl⟩ := h
    have s2 := eofStep_spec _ _ _ _ e1.wfs hes
    have h3 : (closeStep c2).1.pauseAfter = c2.pauseAfter ∧ (closeStep c2).1.recvPaused = c2.recvPaused := by
      unfold closeStep; split <;> exact ⟨rfl, rfl⟩
    exact ⟨h3.1.trans (s2.pauseAfter.trans hk1), h3.2.trans (s2.recvPaused.trans hk2)⟩

theorem step_recv_keep (c c' : Chan) (m : Msg) (ms : List Msg) (os : List Out) (hw : WF c)
    (hp : c.recvPaused = .no) (hpa : c.pauseAfter = none) (h : step c (.recv m) = .ok (c', ms, os)) :
    c'.recvPaused = .no ∧ c'.pauseAfter = none := by
  cases m with
  | data dt bs =>
    obtain ⟨_, _, _, ha⟩ := step_recv_data_ok h
    rcases acceptData_cases c bs dt with ⟨_, h1⟩ | ⟨_, _, h1⟩ | ⟨_, _, hpp, h1⟩ | ⟨_, _, _, h1⟩
    · rw [h1] at ha; cases ha; exact ⟨hp, hpa⟩
    · rw [h1] at ha; cases ha; exact ⟨hp, hpa⟩
    · exact absurd hp hpp
    · rw [h1] at ha
      obtain ⟨h2, h3⟩ := deliverData_keep c bs dt hpa
      rw [ha] at h2 h3
      exact ⟨h3.trans hp, h2⟩
  | adjust n =>
    obtain ⟨_, h1, _⟩ := step_recv_adjust_ok h
    have hw0 : WFs { c with sendWindow := c.sendWindow + n } := ⟨hw.s.chanOpen, hw.s.drained⟩
    have sp := flushSend_spec _ _ _ hw0 h1
    exact ⟨sp.same.recvPaused.trans hp, sp.same.pauseAfter.trans hpa⟩
  | eof =>
    obtain ⟨_, h1⟩ := step_recv_eof_ok h
    have hw0 : WFs { c with recvState := .eofPending } := ⟨hw.s.chanOpen, hw.s.drained⟩
    obtain ⟨h2, h3⟩ := flushRecv_keep _ _ _ _ hw0 (by exact hpa) h1
    exact ⟨h3.trans hp, h2⟩
  | close =>
    obtain ⟨_, ms1, h1, _⟩ := step_recv_close_ok h
    obtain ⟨hsr, _, _, _, _, _, _, _, hwf⟩ := closeSend_spec c hw.s
    have hw0 : WFs { (closeSend c).1 with recvEofPending := decide (c.recvState = .eofPending), recvState := .closePending } := ⟨hwf.chanOpen, hwf.drained⟩
    obtain ⟨h2, h3⟩ := flushRecv_keep _ _ _ _ hw0 (by show (closeSend c).1.pauseAfter = none; rw [hsr.pauseAfter]; exact hpa) h1
    exact ⟨h3.trans (hsr.recvPaused.trans hp), h2⟩

theorem deliver_keeps_reading (s s' : Sys) (z y : Side) (hinv : Inv s) (hr : Reading s y)
    (h : s.step (.deliver z) = .ok s') :
    Reading s' y ∧ (s'.ep y).initWindow = (s.ep y).initWindow ∧ (∀ x, (s'.ep x).sendPktsize = (s.ep x).sendPktsize) := by
  simp only [Sys.step] at h
  split at h
  · simp only [Except.ok.injEq] at h; subst h; exact ⟨hr, rfl, fun _ => rfl⟩
  · rename_i m rest hl
    split at h
    · simp at h
    · rename_i r hr1
      simp only [Except.ok.injEq] at h
      subst h
      obtain ⟨c', ms, os⟩ := r
      have hcfg := (step_sum _ _ _ _ _ (hinv.wf z) hr1).cfg
      refine ⟨?_, ?_, ?_⟩
      · rcases Side.eq_or_other y z with rfl | rfl
        · obtain ⟨h1, h2⟩ := step_recv_keep _ _ _ _ _ (hinv.wf y) hr.unpaused hr.noArm hr1
          refine ⟨by simpa [Sys.apply] using h1, by simpa [Sys.apply] using h2, ?_⟩
          have := hr.open_
          cases m <;> simpa [Sys.apply, Hist.record, Hist.recordRecv] using this
        · exact ⟨by simpa [Sys.apply] using hr.unpaused, by simpa [Sys.apply] using hr.noArm,
            by simpa [Sys.apply] using hr.open_⟩
      · rcases Side.eq_or_other y z with rfl | rfl
        · simpa [Sys.apply] using hcfg.initWindow
        · simp [Sys.apply]
      · intro x
        rcases Side.eq_or_other x z with rfl | rfl
        · simpa [Sys.apply] using hcfg.sendPktsize
        · simp [Sys.apply]

/-- **Liveness.**  From every reachable state of two honest endpoints, if the receiver advertised a non-zero
    maximum packet size (with 0 it forbids all data), the application at the receiving side keeps reading (not paused, will not pause, has not closed) and advertised
    a non-zero window, then delivering the messages in flight — in ANY order, each delivery strictly decreasing
    `sysPot` (`deliver_decreases`) — ends in a state where every byte written so far has reached it. -/
theorem all_data_eventually_delivered : ∀ (n : Nat) (s : Sys) (x : Side), sysPot s ≤ n → Inv s → TInv s →
    Reading s x.other → 0 < (s.ep x.other).initWindow → 0 < (s.ep x).sendPktsize →
    ∃ evs s', (∀ e ∈ evs, ∃ z, e = Event.deliver z) ∧ s.run evs = .ok s' ∧
      tag (dataOuts (s'.hist x.other).dl) = tag (s'.hist x).wr := by
  intro n
  induction n with
  | zero =>
    intro s x hn hinv _ hr hinit hp
    have h0 : sysPot s = 0 := by omega
    have hla : s.link .a = [] := by
      cases h : s.link .a with
      | nil => rfl
      | cons m rest =>
        exfalso
        unfold sysPot at h0; rw [h] at h0; simp only [linkPot] at h0
        have : 0 < msgWeight m := by cases m <;> simp [msgWeight]
        omega
    have hlb : s.link .b = [] := by
      cases h : s.link .b with
      | nil => rfl
      | cons m rest =>
        exfalso
        unfold sysPot at h0; rw [h] at h0; simp only [linkPot] at h0
        have : 0 < msgWeight m := by cases m <;> simp [msgWeight]
        omega
    exact ⟨[], s, by simp, rfl, quiescent_delivered s x hinv hla hlb hr hinit hp⟩
  | succ k ih =>
    intro s x hn hinv ht hr hinit hp
    by_cases hq : s.link .a = [] ∧ s.link .b = []
    · exact ⟨[], s, by simp, rfl, quiescent_delivered s x hinv hq.1 hq.2 hr hinit hp⟩
    · have hz : ∃ z m rest, s.link z = m :: rest := by
        cases ha : s.link .a with
        | cons m rest => exact ⟨.a, m, rest, ha⟩
        | nil =>
          cases hb : s.link .b with
          | cons m rest => exact ⟨.b, m, rest, hb⟩
          | nil => exact absurd ⟨ha, hb⟩ hq
      obtain ⟨z, m, rest, hl⟩ := hz
      obtain ⟨s1, hs1⟩ := no_fatal s hinv ht (.deliver z)
      have hdec := deliver_decreases s s1 z m rest hinv hl hs1
      obtain ⟨hr1, hi1, hp1⟩ := deliver_keeps_reading s s1 z x.other hinv hr hs1
      obtain ⟨evs, s', hev, hrun, hfin⟩ := ih s1 x (by omega) (inv_step s s1 _ hinv hs1) (tinv_step s s1 _ hinv ht hs1)
        hr1 (by rw [hi1]; exact hinit) (by rw [hp1]; exact hp)
      refine ⟨.deliver z :: evs, s', ?_, ?_, hfin⟩
      · intro e he
        rcases List.mem_cons.mp he with rfl | he
        · exact ⟨z, rfl⟩
        · exact hev e he
      · simp only [Sys.run, hs1]; exact hrun

end AsyncsshModel.Channel
