import AsyncsshModel.Lemmas.ChannelRun
/-
  `eof_received` is only ever delivered when the sending endpoint's send half went through `write_eof`
  (history flag `eofSig`): EOF on the wire implies send state `eof`, and the invariant `EInv`.
-/
namespace AsyncsshModel.Channel
open AsyncsshModel

/-! ### EOF is delivered only if the sender signalled it -/

theorem allData_no_eof : ∀ (l : List Msg), allData l → Msg.eof ∉ l
  | [], _ => by simp
  | .data _ _ :: rest, h => by simp [allData_no_eof rest h]
  | .adjust _ :: _, h => by simp [allData] at h
  | .eof :: _, h => by simp [allData] at h
  | .close :: _, h => by simp [allData] at h

theorem allAdjust_no_eof : ∀ (l : List Msg), allAdjust l → Msg.eof ∉ l
  | [], _ => by simp
  | .adjust _ :: rest, h => by simp [allAdjust_no_eof rest h]
  | .data _ _ :: _, h => by simp [allAdjust] at h
  | .eof :: _, h => by simp [allAdjust] at h
  | .close :: _, h => by simp [allAdjust] at h

theorem flushTail_eofMsg (c : Chan) (hm : Msg.eof ∈ (flushTail c).2) : (flushTail c).1.sendState = .eof := by
  unfold flushTail at hm ⊢
  cases hb : c.sendBuf with
  | nil =>
    simp only [hb] at hm ⊢
    cases hs : c.sendState <;> simp only [hs] at hm ⊢
    all_goals first
      | rfl
      | (exfalso; simp at hm; done)
      | (exfalso; unfold closeSend sendPkt at hm; simp only [hs] at hm; split at hm <;> simp at hm)
  | cons p rest =>
    simp only [hb] at hm
    simp at hm

theorem flushSend_eofMsg (c c' : Chan) (ms : List Msg) (h : flushSend c = some (c', ms)) (hm : Msg.eof ∈ ms) :
    c'.sendState = .eof := by
  unfold flushSend at h
  split at h
  · simp at h
  · rename_i c1 ms1 hfd
    simp only [Option.some.injEq, Prod.mk.injEq] at h
    obtain ⟨rfl, rfl⟩ := h
    obtain ⟨_, _, _, _, _, _, hall, _⟩ := flushData_spec _ _ _ _ hfd
    rcases List.mem_append.mp hm with hm | hm
    · exact absurd hm (allData_no_eof _ hall)
    · exact flushTail_eofMsg c1 hm

theorem writeEof_eofMsg (c c' : Chan) (ms : List Msg) (h : writeEof c = some (c', ms)) (hm : Msg.eof ∈ ms) :
    c'.sendState = .eof := by
  unfold writeEof at h
  split at h
  · exact flushSend_eofMsg _ _ _ h hm
  · simp only [Option.some.injEq, Prod.mk.injEq] at h
    obtain ⟨_, rfl⟩ := h
    simp at hm

theorem flushRecv_eofMsg (c c' : Chan) (ms : List Msg) (os : List Out) (h : flushRecv c = some (c', ms, os))
    (hm : Msg.eof ∈ ms) : c'.sendState = .eof := by
  unfold flushRecv at h
  have hd := drainRecv_spec c.recvBuf c
  generalize drainRecv c c.recvBuf = r at *
  obtain ⟨c1, left, ms1, os1⟩ := r
  simp only at hd h
  split at h
  · simp at h
  · rename_i c2 ms2 os2 hes
    simp only [Option.some.injEq, Prod.mk.injEq] at h
    obtain ⟨rfl, rfl, rfl⟩ := h
    have hm2 : Msg.eof ∈ ms2 := by
      rcases List.mem_append.mp hm with hm | hm
      · exact absurd hm (allAdjust_no_eof _ hd.adj)
      · exact hm
    have h2 : c2.sendState = .eof := by
      unfold eofStep at hes
      split at hes
      · dsimp only at hes
        split at hes
        · split at hes
          · simp at hes
          · rename_i c3 ms3 hwe
            simp only [Option.some.injEq, Prod.mk.injEq] at hes
            obtain ⟨rfl, rfl, rfl⟩ := hes
            exact writeEof_eofMsg _ _ _ hwe hm2
        · simp only [Option.some.injEq, Prod.mk.injEq] at hes
          obtain ⟨_, rfl, _⟩ := hes
          simp at hm2
      · simp only [Option.some.injEq, Prod.mk.injEq] at hes
        obtain ⟨_, rfl, _⟩ := hes
        simp at hm2
    unfold closeStep; split <;> exact h2

theorem sendPkt_no_eof (c : Chan) (m : Msg) (h : m ≠ .eof) : Msg.eof ∉ sendPkt c m := by
  unfold sendPkt; split
  · simp only [List.mem_singleton]; exact fun h2 => h h2.symm
  · simp

/-- an endpoint that puts EOF on the wire ends the step in send state `eof` -/
theorem step_eofMsg (c c' : Chan) (ev : Ev) (ms : List Msg) (os : List Out)
    (h : step c ev = .ok (c', ms, os)) (hm : Msg.eof ∈ ms) : c'.sendState = .eof := by
  cases ev with
  | write dt bs =>
    obtain ⟨_, _, _, ⟨_, _, hm0⟩ | ⟨_, h1⟩⟩ := step_write_ok h
    · rw [hm0] at hm; simp at hm
    · exact flushSend_eofMsg _ _ _ h1 hm
  | writeEof => exact writeEof_eofMsg _ _ _ (step_writeEof_ok h).1 hm
  | close =>
    obtain ⟨c1, h1, h2⟩ := step_close_ok h
    have hs1 : c1.sendState = .eof := by
      rcases h1 with ⟨_, _, h1⟩ | ⟨_, _, hm0⟩
      · exact flushSend_eofMsg _ _ _ h1 hm
      · rw [hm0] at hm; simp at hm
    rcases h2 with ⟨_, hc', _⟩ | ⟨_, hc', _⟩
    · rw [hc', (discardRecv_spec c1).sendState]; exact hs1
    · rw [hc']; exact hs1
  | pause => obtain ⟨_, rfl, _⟩ := step_pause_ok h; simp at hm
  | armPause k => obtain ⟨_, rfl, _⟩ := step_arm_ok h; simp at hm
  | resume =>
    rcases step_resume_ok h with ⟨_, h1⟩ | ⟨_, _, hm0, _⟩
    · exact flushRecv_eofMsg _ _ _ _ h1 hm
    · rw [hm0] at hm; simp at hm
  | startReading =>
    rcases step_start_ok h with ⟨_, h1⟩ | ⟨_, _, hm0, _⟩
    · exact flushRecv_eofMsg _ _ _ _ h1 hm
    · rw [hm0] at hm; simp at hm
  | recv m =>
    cases m with
    | data dt bs =>
      obtain ⟨_, _, _, ha⟩ := step_recv_data_ok h
      rcases acceptData_cases c bs dt with ⟨_, h1⟩ | ⟨_, _, h1⟩ | ⟨_, _, _, h1⟩ | ⟨_, _, _, h1⟩
      · rw [h1] at ha; cases ha; simp at hm
      · rw [h1] at ha; cases ha; simp at hm
      · rw [h1] at ha; cases ha; simp at hm
      · rw [h1] at ha
        obtain ⟨sp, _⟩ := deliverData_spec c bs dt
        rw [ha] at sp
        exact absurd hm (allAdjust_no_eof _ sp.adj)
    | adjust n => exact flushSend_eofMsg _ _ _ (step_recv_adjust_ok h).2.1 hm
    | eof => exact flushRecv_eofMsg _ _ _ _ (step_recv_eof_ok h).2 hm
    | close =>
      obtain ⟨_, ms1, h1, rfl⟩ := step_recv_close_ok h
      rcases List.mem_append.mp hm with hm | hm
      · exfalso
        unfold closeSend at hm
        split at hm
        · exact sendPkt_no_eof c .close (by simp) hm
        · simp at hm
      · exact flushRecv_eofMsg _ _ _ _ h1 hm

/-- how the send state can move in one step -/
theorem step_sendTrans (c c' : Chan) (ev : Ev) (ms : List Msg) (os : List Out) (hw : WF c)
    (h : step c ev = .ok (c', ms, os)) :
    c'.sendState = c.sendState ∨ (c.sendState = .opn ∧ (c'.sendState = .eofPending ∨ c'.sendState = .eof)) ∨
    (c.sendState = .eofPending ∧ c'.sendState = .eof) ∨ SendLate c' := by
  have hs := hw.s
  cases ev with
  | write dt bs =>
    obtain ⟨hso, _, _, ⟨_, hc, _⟩ | ⟨_, h1⟩⟩ := step_write_ok h
    · rw [hc]; exact Or.inl rfl
    · have hw0 : WFs { c with sendBuf := c.sendBuf ++ [(bs, dt)] } :=
        ⟨hs.chanOpen, by intro h2; simp [hso] at h2⟩
      rcases (flushSend_spec _ _ _ hw0 h1).trans with ht | ⟨ht, _⟩ | ⟨_, ht⟩
      · exact Or.inl ht
      · simp [hso] at ht
      · exact Or.inr (Or.inr (Or.inr (Or.inr ht)))
  | writeEof =>
    obtain ⟨e, _⟩ := writeEof_spec _ _ _ hs (step_writeEof_ok h).1
    rcases e.sendTrans with ht | ht | ht | ⟨_, ht⟩
    · exact Or.inl ht
    · exact Or.inr (Or.inl ht)
    · exact Or.inr (Or.inr (Or.inl ht))
    · exact Or.inr (Or.inr (Or.inr (Or.inr ht)))
  | close => exact Or.inr (Or.inr (Or.inr ((step_late c c' _ ms os hw h).2 rfl)))
  | pause => obtain ⟨rfl, _, _⟩ := step_pause_ok h; exact Or.inl rfl
  | armPause k => obtain ⟨rfl, _, _⟩ := step_arm_ok h; exact Or.inl rfl
  | resume =>
    rcases step_resume_ok h with ⟨_, h1⟩ | ⟨_, hc, _, _⟩
    · have hw0 : WFs { c with recvPaused := .no } := ⟨hs.chanOpen, hs.drained⟩
      rcases (flushRecv_spec _ _ _ _ hw0 h1).eff.sendTrans with ht | ht | ht | ⟨_, ht⟩
      · exact Or.inl ht
      · exact Or.inr (Or.inl ht)
      · exact Or.inr (Or.inr (Or.inl ht))
      · exact Or.inr (Or.inr (Or.inr (Or.inr ht)))
    · rw [hc]; exact Or.inl rfl
  | startReading =>
    rcases step_start_ok h with ⟨_, h1⟩ | ⟨_, hc, _, _⟩
    · have hw0 : WFs { c with recvPaused := .no } := ⟨hs.chanOpen, hs.drained⟩
      rcases (flushRecv_spec _ _ _ _ hw0 h1).eff.sendTrans with ht | ht | ht | ⟨_, ht⟩
      · exact Or.inl ht
      · exact Or.inr (Or.inl ht)
      · exact Or.inr (Or.inr (Or.inl ht))
      · exact Or.inr (Or.inr (Or.inr (Or.inr ht)))
    · rw [hc]; exact Or.inl rfl
  | recv m =>
    cases m with
    | data dt bs =>
      obtain ⟨_, _, _, ha⟩ := step_recv_data_ok h
      rcases acceptData_cases c bs dt with ⟨_, h1⟩ | ⟨_, _, h1⟩ | ⟨_, _, _, h1⟩ | ⟨_, _, _, h1⟩
      · rw [h1] at ha; cases ha; exact Or.inl rfl
      · rw [h1] at ha; cases ha; exact Or.inl rfl
      · rw [h1] at ha; cases ha; exact Or.inl rfl
      · rw [h1] at ha
        obtain ⟨sp, _⟩ := deliverData_spec c bs dt
        rw [ha] at sp
        exact Or.inl sp.same.sendState
    | adjust n =>
      have hw0 : WFs { c with sendWindow := c.sendWindow + n } := ⟨hs.chanOpen, hs.drained⟩
      rcases (flushSend_spec _ _ _ hw0 (step_recv_adjust_ok h).2.1).trans with ht | ht | ⟨_, ht⟩
      · exact Or.inl ht
      · exact Or.inr (Or.inr (Or.inl ht))
      · exact Or.inr (Or.inr (Or.inr (Or.inr ht)))
    | eof =>
      have hw0 : WFs { c with recvState := .eofPending } := ⟨hs.chanOpen, hs.drained⟩
      rcases (flushRecv_spec _ _ _ _ hw0 (step_recv_eof_ok h).2).eff.sendTrans with ht | ht | ht | ⟨_, ht⟩
      · exact Or.inl ht
      · exact Or.inr (Or.inl ht)
      · exact Or.inr (Or.inr (Or.inl ht))
      · exact Or.inr (Or.inr (Or.inr (Or.inr ht)))
    | close =>
      obtain ⟨_, ms1, h1, _⟩ := step_recv_close_ok h
      obtain ⟨_, _, _, hst, _, _, _, _, hwf⟩ := closeSend_spec c hs
      have hw0 : WFs { (closeSend c).1 with recvEofPending := decide (c.recvState = .eofPending), recvState := .closePending } := ⟨hwf.chanOpen, hwf.drained⟩
      exact Or.inr (Or.inr (Or.inr ((flushRecv_spec _ _ _ _ hw0 h1).eff.lateMono (Or.inr hst))))

/-- the history flag `eofSig` covers the send states `eof_pending` and `eof` -/
def EofLocal (c : Chan) (h : Hist) : Prop := (c.sendState = .eofPending ∨ c.sendState = .eof) → h.eofSig = true

theorem eofLocal_step (c c' : Chan) (ev : Ev) (ms : List Msg) (os : List Out) (h h0 : Hist) (hw : WF c)
    (hl : EofLocal c h) (hstep : step c ev = .ok (c', ms, os)) (h0e : h0.eofSig = h.eofSig) :
    EofLocal c' (h0.record c c' ms os) ∧ (h.eofSig = true → (h0.record c c' ms os).eofSig = true) := by
  refine ⟨?_, ?_⟩
  · intro hs'
    simp only [Hist.record, h0e, Bool.or_eq_true, Bool.and_eq_true, decide_eq_true_eq]
    rcases step_sendTrans c c' ev ms os hw hstep with ht | ⟨h1, h2⟩ | ⟨h1, _⟩ | ht
    · left; exact hl (ht ▸ hs')
    · right; exact ⟨h1, h2⟩
    · left; exact hl (Or.inl h1)
    · unfold SendLate at ht
      rcases hs' with h3 | h3 <;> rcases ht with h4 | h4 <;> (rw [h3] at h4; cases h4)
  · intro he
    simp [Hist.record, h0e, he]

structure EInv (s : Sys) : Prop where
  loc : ∀ x, EofLocal (s.ep x) (s.hist x)
  inFlight : ∀ x, Msg.eof ∈ s.link x.other → (s.hist x).eofSig = true
  got : ∀ x, rStage (s.ep x.other) = 1 → (s.hist x).eofSig = true
  seen : ∀ x, Out.eof ∈ (s.hist x.other).dl → (s.hist x).eofSig = true
  flag : ∀ x, (s.ep x.other).recvEofPending = true → (s.hist x).eofSig = true

theorem evStage_one {ev : Ev} {r : Nat} (h : evStage ev r = 1) : ev = .recv .eof ∨ r = 1 := by
  unfold evStage at h
  split at h
  · exact Or.inl rfl
  · cases h
  · exact Or.inr h

theorem einv_step_core (s s' : Sys) (z : Side) (ev : Ev) (c' : Chan) (ms : List Msg) (os : List Out)
    (linkz' : List Msg) (h0 : Hist) (hinv : Inv s) (he : EInv s)
    (hstep : step (s.ep z) ev = .ok (c', ms, os))
    (hlink : (∃ m, ev = .recv m ∧ s.link z = m :: linkz') ∨ ((∀ m, ev ≠ .recv m) ∧ linkz' = s.link z))
    (h0e : h0.eofSig = (s.hist z).eofSig) (h0d : h0.dl = (s.hist z).dl)
    (he1 : s'.ep z = c') (he2 : s'.ep z.other = s.ep z.other)
    (hl1 : s'.link z = linkz') (hl2 : s'.link z.other = s.link z.other ++ ms)
    (hh1 : s'.hist z = h0.record (s.ep z) c' ms os) (hh2 : s'.hist z.other = s.hist z.other) : EInv s' := by
  obtain ⟨hloc', hmono⟩ := eofLocal_step _ _ _ _ _ _ h0 (hinv.wf z) (he.loc z) hstep h0e
  have hrs := (step_sum _ _ _ _ _ (hinv.wf z) hstep).rstage
  have hso := step_outs _ _ _ _ _ (hinv.wf z) hstep
  -- the receive stage 1 of `z` after the step is explained by the state before
  have hgot : rStage c' = 1 → (s.hist z.other).eofSig = true := by
    intro h1
    rw [hrs] at h1
    have hgo := he.got z.other
    have hif := he.inFlight z.other
    rw [Side.other_other] at hgo hif
    rcases evStage_one h1 with h2 | h2
    · rcases hlink with ⟨m, hm, hl⟩ | ⟨hne, _⟩
      · rw [h2] at hm; cases hm
        exact hif (by rw [hl]; simp)
      · exact absurd h2 (hne _)
    · exact hgo h2
  -- a pending-EOF flag at `z` after the step is explained by the state before
  have hflag : c'.recvEofPending = true → (s.hist z.other).eofSig = true := by
    intro hf
    have hfo := he.flag z.other
    have hgo := he.got z.other
    rw [Side.other_other] at hfo hgo
    rcases hso.flagSrc hf with h1 | ⟨_, h1⟩
    · exact hfo h1
    · exact hgo (by simp [rStage, h1])
  refine ⟨?_, ?_, ?_, ?_, ?_⟩
  · intro x
    rcases Side.eq_or_other x z with rfl | rfl
    · rw [he1, hh1]; exact hloc'
    · rw [he2, hh2]; exact he.loc _
  · intro x
    rcases Side.eq_or_other x z with rfl | rfl
    · rw [hl2, hh1]
      intro hm
      rcases List.mem_append.mp hm with hm | hm
      · exact hmono (he.inFlight x hm)
      · exact hloc' (Or.inr (step_eofMsg _ _ _ _ _ hstep hm))
    · rw [Side.other_other, hl1, hh2]
      intro hm
      have := he.inFlight z.other
      rw [Side.other_other] at this
      apply this
      rcases hlink with ⟨m, _, hl⟩ | ⟨_, hl⟩
      · rw [hl]; exact List.mem_cons_of_mem _ hm
      · rw [← hl]; exact hm
  · intro x
    rcases Side.eq_or_other x z with rfl | rfl
    · rw [he2, hh1]; intro h1; exact hmono (he.got x h1)
    · rw [Side.other_other, he1, hh2]; exact hgot
  · intro x
    rcases Side.eq_or_other x z with rfl | rfl
    · rw [hh2, hh1]; intro h1; exact hmono (he.seen x h1)
    · rw [Side.other_other, hh1, hh2]
      intro hm
      simp only [Hist.record, h0d] at hm
      rcases List.mem_append.mp hm with hm | hm
      · have := he.seen z.other
        rw [Side.other_other] at this
        exact this hm
      · rcases (hso.eofOut hm).2 with h1 | ⟨_, h1 | ⟨_, h1⟩⟩
        · exact hgot (by simp [rStage, h1])
        · have := he.flag z.other
          rw [Side.other_other] at this
          exact this h1
        · have := he.got z.other
          rw [Side.other_other] at this
          exact this (by simp [rStage, h1])
  · intro x
    rcases Side.eq_or_other x z with rfl | rfl
    · rw [he2, hh1]; intro h1; exact hmono (he.flag x h1)
    · rw [Side.other_other, he1, hh2]; exact hflag

theorem einv_step (s s' : Sys) (ev : Event) (hinv : Inv s) (he : EInv s) (h : s.step ev = .ok s') : EInv s' := by
  cases ev with
  | app z e =>
    simp only [Sys.step] at h
    split at h
    · split at h
      · simp only [Except.ok.injEq] at h; subst h; exact he
      · simp at h
    · rename_i r hr
      simp only [Except.ok.injEq] at h
      subst h
      obtain ⟨c', ms, os⟩ := r
      refine einv_step_core s _ z e.toEv c' ms os (s.link z) ((s.hist z).recordApp e) hinv he hr
        (Or.inr ⟨fun m => AppEv.toEv_not_recv e m, rfl⟩) ?_ ?_ (by simp [Sys.apply]) (by simp [Sys.apply])
        (by simp [Sys.apply]) (by simp [Sys.apply]) (by simp [Sys.apply]) (by simp [Sys.apply])
      · cases e <;> rfl
      · cases e <;> rfl
  | deliver z =>
    simp only [Sys.step] at h
    split at h
    · simp only [Except.ok.injEq] at h; subst h; exact he
    · rename_i m rest hl
      split at h
      · simp at h
      · rename_i r hr
        simp only [Except.ok.injEq] at h
        subst h
        obtain ⟨c', ms, os⟩ := r
        refine einv_step_core s _ z (.recv m) c' ms os rest ((s.hist z).recordRecv m) hinv he hr
          (Or.inl ⟨m, rfl, hl⟩) ?_ ?_ (by simp [Sys.apply]) (by simp [Sys.apply])
          (by simp [Sys.apply]) (by simp [Sys.apply]) (by simp [Sys.apply]) (by simp [Sys.apply])
        · cases m <;> rfl
        · cases m <;> rfl

theorem einv_init (ca cb : SideCfg) : EInv (Sys.init ca cb) := by
  refine ⟨?_, ?_, ?_, ?_, ?_⟩
  · intro x h; cases x <;> simp [Sys.init, Chan.opened] at h
  · intro x h; cases x <;> simp [Sys.init] at h
  · intro x h; cases x <;> simp [Sys.init, Chan.opened, rStage, Side.other] at h
  · intro x h; cases x <;> simp [Sys.init] at h
  · intro x h; cases x <;> simp [Sys.init, Chan.opened, Side.other] at h

/-! ### an EOF that was put on the wire reaches the session (fix 024eb80) -/

/-- the states in which a received EOF waits for delivery -/
def EofWaiting (c : Chan) : Prop :=
  c.recvState = .eofPending ∨ (c.recvState = .closePending ∧ c.recvEofPending = true)

theorem FlushRecvSpec.waiting {c0 c' : Chan} {ms : List Msg} {os : List Out} (sp : FlushRecvSpec c0 c' ms os)
    (h : EofWaiting c0) : EofWaiting c' ∨ Out.eof ∈ os := by
  rcases h with h | ⟨h1, h2⟩
  · rcases sp.recvTrans with ht | ⟨_, ht⟩ | ⟨ht, _⟩
    · left; left; rw [ht]; exact h
    · right
      rcases sp.eofState ht with h3 | h3
      · rw [h] at h3; cases h3
      · exact h3
    · rw [h] at ht; cases ht
  · rcases sp.recvTrans with ht | ⟨ht, _⟩ | ⟨_, ht⟩
    · left; right
      refine ⟨ht.trans h1, ?_⟩
      rw [sp.flagKeep (by rw [ht, h1]; simp)]; exact h2
    · rw [h1] at ht; cases ht
    · right; exact sp.flagOut h1 h2 ht

/-- a waiting EOF stays waiting or is delivered, unless the application closes the channel -/
theorem step_eofProgress (c c' : Chan) (ev : Ev) (ms : List Msg) (os : List Out) (hw : WF c)
    (h : step c ev = .ok (c', ms, os)) :
    (EofWaiting c → EofWaiting c' ∨ Out.eof ∈ os ∨ ev = .close) ∧
    (ev = .recv .eof → EofWaiting c' ∨ Out.eof ∈ os) := by
  have keep : c'.recvState = c.recvState → c'.recvEofPending = c.recvEofPending → EofWaiting c → EofWaiting c' := by
    intro h1 h2 hwt
    unfold EofWaiting at *
    rw [h1, h2]; exact hwt
  cases ev with
  | write dt bs =>
    refine ⟨fun hwt => Or.inl ?_, fun h => by cases h⟩
    obtain ⟨hs, _, _, ⟨_, hc, _⟩ | ⟨_, h1⟩⟩ := step_write_ok h
    · rw [hc]; exact hwt
    · have hw0 : WFs { c with sendBuf := c.sendBuf ++ [(bs, dt)] } :=
        ⟨hw.s.chanOpen, by intro h2; simp [hs] at h2⟩
      have sp := flushSend_spec _ _ _ hw0 h1
      exact keep sp.same.recvState sp.same.recvEofPending hwt
  | writeEof =>
    refine ⟨fun hwt => Or.inl ?_, fun h => by cases h⟩
    obtain ⟨_, h2, _, _, _, _, h6, _⟩ := writeEof_spec _ _ _ hw.s (step_writeEof_ok h).1
    exact keep h2 h6 hwt
  | close => exact ⟨fun _ => Or.inr (Or.inr rfl), fun h => by cases h⟩
  | pause =>
    obtain ⟨rfl, _, _⟩ := step_pause_ok h
    exact ⟨fun hwt => Or.inl hwt, fun h => by cases h⟩
  | armPause k =>
    obtain ⟨rfl, _, _⟩ := step_arm_ok h
    exact ⟨fun hwt => Or.inl hwt, fun h => by cases h⟩
  | resume =>
    refine ⟨fun hwt => ?_, fun h => by cases h⟩
    rcases step_resume_ok h with ⟨_, h1⟩ | ⟨_, hc, _, _⟩
    · have hw0 : WFs { c with recvPaused := .no } := ⟨hw.s.chanOpen, hw.s.drained⟩
      rcases (flushRecv_spec _ _ _ _ hw0 h1).waiting hwt with h2 | h2
      · exact Or.inl h2
      · exact Or.inr (Or.inl h2)
    · rw [hc]; exact Or.inl hwt
  | startReading =>
    refine ⟨fun hwt => ?_, fun h => by cases h⟩
    rcases step_start_ok h with ⟨_, h1⟩ | ⟨_, hc, _, _⟩
    · have hw0 : WFs { c with recvPaused := .no } := ⟨hw.s.chanOpen, hw.s.drained⟩
      rcases (flushRecv_spec _ _ _ _ hw0 h1).waiting hwt with h2 | h2
      · exact Or.inl h2
      · exact Or.inr (Or.inl h2)
    · rw [hc]; exact Or.inl hwt
  | recv m =>
    cases m with
    | data dt bs =>
      obtain ⟨hs, _⟩ := step_recv_data_ok h
      refine ⟨fun hwt => ?_, fun h => by cases h⟩
      rcases hwt with h1 | ⟨h1, _⟩ <;> (rw [hs] at h1; cases h1)
    | adjust n =>
      refine ⟨fun hwt => Or.inl ?_, fun h => by cases h⟩
      have hw0 : WFs { c with sendWindow := c.sendWindow + n } := ⟨hw.s.chanOpen, hw.s.drained⟩
      have sp := flushSend_spec _ _ _ hw0 (step_recv_adjust_ok h).2.1
      exact keep sp.same.recvState sp.same.recvEofPending hwt
    | eof =>
      obtain ⟨hs, h1⟩ := step_recv_eof_ok h
      have hw0 : WFs { c with recvState := .eofPending } := ⟨hw.s.chanOpen, hw.s.drained⟩
      have := (flushRecv_spec _ _ _ _ hw0 h1).waiting (Or.inl rfl)
      refine ⟨fun hwt => ?_, fun _ => this⟩
      rcases hwt with h2 | ⟨h2, _⟩ <;> (rw [hs] at h2; cases h2)
    | close =>
      refine ⟨fun hwt => ?_, fun h => by cases h⟩
      obtain ⟨hop, ms1, h1, _⟩ := step_recv_close_ok h
      obtain ⟨_, _, _, _, _, _, _, _, hwf⟩ := closeSend_spec c hw.s
      have hw0 : WFs { (closeSend c).1 with recvEofPending := decide (c.recvState = .eofPending), recvState := .closePending } := ⟨hwf.chanOpen, hwf.drained⟩
      rcases hwt with h2 | ⟨h2, _⟩
      · have hwt0 : EofWaiting { (closeSend c).1 with recvEofPending := decide (c.recvState = .eofPending), recvState := .closePending } :=
          Or.inr ⟨rfl, by simp [h2]⟩
        rcases (flushRecv_spec _ _ _ _ hw0 h1).waiting hwt0 with h3 | h3
        · exact Or.inl h3
        · exact Or.inr (Or.inl h3)
      · rw [h2] at hop; simp [recvOpenish] at hop

/-- Once `x` has put EOF on the wire it is in flight, waiting at the peer, or delivered — unless the peer's
    application closed the channel. -/
structure SInv (s : Sys) : Prop where
  sent : ∀ x, (s.hist x).eofSent = true →
    Msg.eof ∈ s.link x.other ∨ EofWaiting (s.ep x.other) ∨ Out.eof ∈ (s.hist x.other).dl ∨
    (s.hist x.other).appClosed = true

theorem sinv_step_core (s s' : Sys) (z : Side) (ev : Ev) (c' : Chan) (ms : List Msg) (os : List Out)
    (linkz' : List Msg) (h0 : Hist) (hinv : Inv s) (hsi : SInv s)
    (hstep : step (s.ep z) ev = .ok (c', ms, os))
    (hlink : (∃ m, ev = .recv m ∧ s.link z = m :: linkz') ∨ ((∀ m, ev ≠ .recv m) ∧ linkz' = s.link z))
    (h0s : h0.eofSent = (s.hist z).eofSent) (h0d : h0.dl = (s.hist z).dl)
    (h0a : h0.appClosed = ((s.hist z).appClosed || decide (ev = .close)))
    (he1 : s'.ep z = c') (he2 : s'.ep z.other = s.ep z.other)
    (hl1 : s'.link z = linkz') (hl2 : s'.link z.other = s.link z.other ++ ms)
    (hh1 : s'.hist z = h0.record (s.ep z) c' ms os) (hh2 : s'.hist z.other = s.hist z.other) : SInv s' := by
  obtain ⟨hprog, hcons⟩ := step_eofProgress _ _ _ _ _ (hinv.wf z) hstep
  refine ⟨?_⟩
  intro x
  rcases Side.eq_or_other x z with rfl | rfl
  · -- `x` is the side that moved: it may have sent the EOF just now
    rw [he2, hh1, hh2, hl2]
    intro hs
    simp only [Hist.record, h0s, Bool.or_eq_true, decide_eq_true_eq] at hs
    rcases hs with hs | hs
    · rcases hsi.sent x hs with h1 | h1 | h1 | h1
      · exact Or.inl (List.mem_append_left _ h1)
      · exact Or.inr (Or.inl h1)
      · exact Or.inr (Or.inr (Or.inl h1))
      · exact Or.inr (Or.inr (Or.inr h1))
    · exact Or.inl (List.mem_append_right _ hs)
  · -- the receiver of that EOF moved
    rw [Side.other_other, he1, hh1, hh2, hl1]
    intro hs
    have hold := hsi.sent z.other hs
    rw [Side.other_other] at hold
    have hdl : (h0.record (s.ep z) c' ms os).dl = (s.hist z).dl ++ os := by simp [Hist.record, h0d]
    have hac : (h0.record (s.ep z) c' ms os).appClosed = ((s.hist z).appClosed || decide (ev = .close)) := by
      simp [Hist.record, h0a]
    rw [hdl, hac]
    have fromWaiting : EofWaiting (s.ep z) → Msg.eof ∈ linkz' ∨ EofWaiting c' ∨ Out.eof ∈ (s.hist z).dl ++ os ∨
        ((s.hist z).appClosed || decide (ev = .close)) = true := by
      intro hwt
      rcases hprog hwt with h2 | h2 | h2
      · exact Or.inr (Or.inl h2)
      · exact Or.inr (Or.inr (Or.inl (List.mem_append_right _ h2)))
      · exact Or.inr (Or.inr (Or.inr (by simp [h2])))
    rcases hold with h1 | h1 | h1 | h1
    · rcases hlink with ⟨m, hm, hl⟩ | ⟨_, hl⟩
      · rw [hl] at h1
        rcases List.mem_cons.mp h1 with h2 | h2
        · subst h2
          rcases hcons hm with h3 | h3
          · exact Or.inr (Or.inl h3)
          · exact Or.inr (Or.inr (Or.inl (List.mem_append_right _ h3)))
        · exact Or.inl h2
      · rw [hl]; exact Or.inl h1
    · exact fromWaiting h1
    · exact Or.inr (Or.inr (Or.inl (List.mem_append_left _ h1)))
    · exact Or.inr (Or.inr (Or.inr (by simp [h1])))

theorem sinv_step (s s' : Sys) (ev : Event) (hinv : Inv s) (hsi : SInv s) (h : s.step ev = .ok s') : SInv s' := by
  cases ev with
  | app z e =>
    simp only [Sys.step] at h
    split at h
    · split at h
      · simp only [Except.ok.injEq] at h; subst h; exact hsi
      · simp at h
    · rename_i r hr
      simp only [Except.ok.injEq] at h
      subst h
      obtain ⟨c', ms, os⟩ := r
      refine sinv_step_core s _ z e.toEv c' ms os (s.link z) ((s.hist z).recordApp e) hinv hsi hr
        (Or.inr ⟨fun m => AppEv.toEv_not_recv e m, rfl⟩) ?_ ?_ ?_ (by simp [Sys.apply]) (by simp [Sys.apply])
        (by simp [Sys.apply]) (by simp [Sys.apply]) (by simp [Sys.apply]) (by simp [Sys.apply])
      · cases e <;> rfl
      · cases e <;> rfl
      · cases e <;> simp [Hist.recordApp, AppEv.toEv]
  | deliver z =>
    simp only [Sys.step] at h
    split at h
    · simp only [Except.ok.injEq] at h; subst h; exact hsi
    · rename_i m rest hl
      split at h
      · simp at h
      · rename_i r hr
        simp only [Except.ok.injEq] at h
        subst h
        obtain ⟨c', ms, os⟩ := r
        refine sinv_step_core s _ z (.recv m) c' ms os rest ((s.hist z).recordRecv m) hinv hsi hr
          (Or.inl ⟨m, rfl, hl⟩) ?_ ?_ ?_ (by simp [Sys.apply]) (by simp [Sys.apply])
          (by simp [Sys.apply]) (by simp [Sys.apply]) (by simp [Sys.apply]) (by simp [Sys.apply])
        · cases m <;> rfl
        · cases m <;> rfl
        · cases m <;> simp [Hist.recordRecv]

theorem sinv_init (ca cb : SideCfg) : SInv (Sys.init ca cb) :=
  ⟨fun x h => by cases x <;> simp [Sys.init] at h⟩

end AsyncsshModel.Channel
