import AsyncsshModel.Lemmas.ChannelRun
/-
  `eof_received` is only ever delivered when the sending endpoint's send half went through `write_eof`
  (history flag `eofSig`): EOF on the wire implies send state `eof`, and the invariant `EInv`.
-/
namespace AsyncsshModel.Channel
open AsyncsshModel

/-! ### EOF is delivered only if the sender signalled it -/

theorem allData_no_eof : ∀ (l : List Msg), allData l → Msg.eof ∉ l
  | [], _ => by simp
  | .data _ _ :: rest, h => by simp [allData_no_eof rest h]
  | .adjust _ :: _, h => by simp [allData] at h
  | .eof :: _, h => by simp [allData] at h
  | .close :: _, h => by simp [allData] at h

theorem allAdjust_no_eof : ∀ (l : List Msg), allAdjust l → Msg.eof ∉ l
  | [], _ => by simp
  | .adjust _ :: rest, h => by simp [allAdjust_no_eof rest h]
  | .data _ _ :: _, h => by simp [allAdjust] at h
  | .eof :: _, h => by simp [allAdjust] at h
  | .close :: _, h => by simp [allAdjust] at h

theorem flushTail_eofMsg (c : Chan) (hm : Msg.eof ∈ (flushTail c).2) : (flushTail c).1.sendState = .eof := by
  unfold flushTail at hm ⊢
  cases hb : c.sendBuf with
  | nil =>
    simp only [hb] at hm ⊢
    cases hs : c.sendState <;> simp only [hs] at hm ⊢
    all_goals first
      | rfl
      | (exfalso; simp at hm; done)
      | (exfalso; unfold closeSend sendPkt at hm; simp only [hs] at hm; split at hm <;> simp at hm)
  | cons p rest =>
    simp only [hb] at hm
    simp at hm

theorem flushSend_eofMsg (c c' : Chan) (ms : List Msg) (h : flushSend c = some (c', ms)) (hm : Msg.eof ∈ ms) :
    c'.sendState = .eof := by
  unfold flushSend at h
  split at h
  · simp at h
  · rename_i c1 ms1 hfd
    simp only [Option.some.injEq, Prod.mk.injEq] at h
    obtain ⟨rfl, rfl⟩ := h
    obtain ⟨_, _, _, _, _, _, hall, _⟩ := flushData_spec _ _ _ _ hfd
    rcases List.mem_append.mp hm with hm | hm
    · exact absurd hm (allData_no_eof _ hall)
    · exact flushTail_eofMsg c1 hm

theorem writeEof_eofMsg (c c' : Chan) (ms : List Msg) (h : writeEof c = some (c', ms)) (hm : Msg.eof ∈ ms) :
    c'.sendState = .eof := by
  unfold writeEof at h
  split at h
  · exact flushSend_eofMsg _ _ _ h hm
  · simp only [Option.some.injEq, Prod.mk.injEq] at h
    obtain ⟨_, rfl⟩ := h
    simp at hm

theorem flushRecv_eofMsg (c c' : Chan) (ms : List Msg) (os : List Out) (h : flushRecv c = some (c', ms, os))
    (hm : Msg.eof ∈ ms) : c'.sendState = .eof := by
  unfold flushRecv at h
  have hd := drainRecv_spec c.recvBuf c
  generalize drainRecv c c.recvBuf = r at *
  obtain ⟨c1, left, ms1, os1⟩ := r
  simp only at hd h
  split at h
  · simp at h
  · rename_i c2 ms2 os2 hes
    simp only [Option.some.injEq, Prod.mk.injEq] at h
    obtain ⟨rfl, rfl, rfl⟩ := h
    have hm2 : Msg.eof ∈ ms2 := by
      rcases List.mem_append.mp hm with hm | hm
      · exact absurd hm (allAdjust_no_eof _ hd.adj)
      · exact hm
    have h2 : c2.sendState = .eof := by
      unfold eofStep at hes
      split at hes
      · dsimp only at hes
        split at hes
        · split at hes
          · simp at hes
          · rename_i c3 ms3 hwe
            simp only [Option.some.injEq, Prod.mk.injEq] at hes
            obtain ⟨rfl, rfl, rfl⟩ := hes
            exact writeEof_eofMsg _ _ _ hwe hm2
        · simp only [Option.some.injEq, Prod.mk.injEq] at hes
          obtain ⟨_, rfl, _⟩ := hes
          simp at hm2
      · simp only [Option.some.injEq, Prod.mk.injEq] at hes
        obtain ⟨_, rfl, _⟩ := hes
        simp at hm2
    unfold closeStep; split <;> exact h2

theorem sendPkt_no_eof (c : Chan) (m : Msg) (h : m ≠ .eof) : Msg.eof ∉ sendPkt c m := by
  unfold sendPkt; split
  · simp only [List.mem_singleton]; exact fun h2 => h h2.symm
  · simp

/-- an endpoint that puts EOF on the wire ends the step in send state `eof` -/
theorem step_eofMsg (c c' : Chan) (ev : Ev) (ms : List Msg) (os : List Out)
    (h : step c ev = .ok (c', ms, os)) (hm : Msg.eof ∈ ms) : c'.sendState = .eof := by
  cases ev with
  | write dt bs =>
    obtain ⟨_, _, _, ⟨_, _, hm0⟩ | ⟨_, h1⟩⟩ := step_write_ok h
    · rw [hm0] at hm; simp at hm
    · exact flushSend_eofMsg _ _ _ h1 hm
  | writeEof => exact writeEof_eofMsg _ _ _ (step_writeEof_ok h).1 hm
  | close =>
    obtain ⟨c1, h1, h2⟩ := step_close_ok h
    have hs1 : c1.sendState = .eof := by
      rcases h1 with ⟨_, _, h1⟩ | ⟨_, _, hm0⟩
      · exact flushSend_eofMsg _ _ _ h1 hm
      · rw [hm0] at hm; simp at hm
    rcases h2 with ⟨_, hc', _⟩ | ⟨_, hc', _⟩
    · rw [hc', (discardRecv_spec c1).sendState]; exact hs1
    · rw [hc']; exact hs1
  | pause => obtain ⟨_, rfl, _⟩ := step_pause_ok h; simp at hm
  | armPause k => obtain ⟨_, rfl, _⟩ := step_arm_ok h; simp at hm
  | resume =>
    rcases step_resume_ok h with ⟨_, h1⟩ | ⟨_, _, hm0, _⟩
    · exact flushRecv_eofMsg _ _ _ _ h1 hm
    · rw [hm0] at hm; simp at hm
  | startReading =>
    rcases step_start_ok h with ⟨_, h1⟩ | ⟨_, _, hm0, _⟩
    · exact flushRecv_eofMsg _ _ _ _ h1 hm
    · rw [hm0] at hm; simp at hm
  | recv m =>
    cases m with
    | data dt bs =>
      obtain ⟨_, _, _, ha⟩ := step_recv_data_ok h
      rcases acceptData_cases c bs dt with ⟨_, h1⟩ | ⟨_, _, h1⟩ | ⟨_, _, _, h1⟩ | ⟨_, _, _, h1⟩
      · rw [h1] at ha; cases ha; simp at hm
      · rw [h1] at ha; cases ha; simp at hm
      · rw [h1] at ha; cases ha; simp at hm
      · rw [h1] at ha
        obtain ⟨sp, _⟩ := deliverData_spec c bs dt
        rw [ha] at sp
        exact absurd hm (allAdjust_no_eof _ sp.adj)
    | adjust n => exact flushSend_eofMsg _ _ _ (step_recv_adjust_ok h).2.1 hm
    | eof => exact flushRecv_eofMsg _ _ _ _ (step_recv_eof_ok h).2 hm
    | close =>
      obtain ⟨_, ms1, h1, rfl⟩ := step_recv_close_ok h
      rcases List.mem_append.mp hm with hm | hm
      · exfalso
        unfold closeSend at hm
        split at hm
        · exact sendPkt_no_eof c .close (by simp) hm
        · simp at hm
      · exact flushRecv_eofMsg _ _ _ _ h1 hm

/-- how the send state can move in one step -/
theorem step_sendTrans (c c' : Chan) (ev : Ev) (ms : List Msg) (os : List Out) (hw : WF c)
    (h : step c ev = .ok (c', ms, os)) :
    c'.sendState = c.sendState ∨ (c.sendState = .opn ∧ (c'.sendState = .eofPending ∨ c'.sendState = .eof)) ∨
    (c.sendState = .eofPending ∧ c'.sendState = .eof) ∨ SendLate c' := by
  have hs := hw.s
  cases ev with
  | write dt bs =>
    obtain ⟨hso, _, _, ⟨_, hc, _⟩ | ⟨_, h1⟩⟩ := step_write_ok h
    · rw [hc]; exact Or.inl rfl
    · have hw0 : WFs { c with sendBuf := c.sendBuf ++ [(bs, dt)] } :=
        ⟨hs.chanOpen, by intro h2; simp [hso] at h2⟩
      rcases (flushSend_spec _ _ _ hw0 h1).trans with ht | ⟨ht, _⟩ | ⟨_, ht⟩
      · exact Or.inl ht
      · simp [hso] at ht
      · exact Or.inr (Or.inr (Or.inr (Or.inr ht)))
  | writeEof =>
    obtain ⟨e, _⟩ := writeEof_spec _ _ _ hs (step_writeEof_ok h).1
    rcases e.sendTrans with ht | ht | ht | ⟨_, ht⟩
    · exact Or.inl ht
    · exact Or.inr (Or.inl ht)
    · exact Or.inr (Or.inr (Or.inl ht))
    · exact Or.inr (Or.inr (Or.inr (Or.inr ht)))
  | close => exact Or.inr (Or.inr (Or.inr ((step_late c c' _ ms os hw h).2 rfl)))
  | pause => obtain ⟨rfl, _, _⟩ := step_pause_ok h; exact Or.inl rfl
  | armPause k => obtain ⟨rfl, _, _⟩ := step_arm_ok h; exact Or.inl rfl
  | resume =>
    rcases step_resume_ok h with ⟨_, h1⟩ | ⟨_, hc, _, _⟩
    · have hw0 : WFs { c with recvPaused := .no } := ⟨hs.chanOpen, hs.drained⟩
      rcases (flushRecv_spec _ _ _ _ hw0 h1).eff.sendTrans with ht | ht | ht | ⟨_, ht⟩
      · exact Or.inl ht
      · exact Or.inr (Or.inl ht)
      · exact Or.inr (Or.inr (Or.inl ht))
      · exact Or.inr (Or.inr (Or.inr (Or.inr ht)))
    · rw [hc]; exact Or.inl rfl
  | startReading =>
    rcases step_start_ok h with ⟨_, h1⟩ | ⟨_, hc, _, _⟩
    · have hw0 : WFs { c with recvPaused := .no } := ⟨hs.chanOpen, hs.drained⟩
      rcases (flushRecv_spec _ _ _ _ hw0 h1).eff.sendTrans with ht | ht | ht | ⟨_, ht⟩
      · exact Or.inl ht
      · exact Or.inr (Or.inl ht)
      · exact Or.inr (Or.inr (Or.inl ht))
      · exact Or.inr (Or.inr (Or.inr (Or.inr ht)))
    · rw [hc]; exact Or.inl rfl
  | recv m =>
    cases m with
    | data dt bs =>
      obtain ⟨_, _, _, ha⟩ := step_recv_data_ok h
      rcases acceptData_cases c bs dt with ⟨_, h1⟩ | ⟨_, _, h1⟩ | ⟨_, _, _, h1⟩ | ⟨_, _, _, h1⟩
      · rw [h1] at ha; cases ha; exact Or.inl rfl
      · rw [h1] at ha; cases ha; exact Or.inl rfl
      · rw [h1] at ha; cases ha; exact Or.inl rfl
      · rw [h1] at ha
        obtain ⟨sp, _⟩ := deliverData_spec c bs dt
        rw [ha] at sp
        exact Or.inl sp.same.sendState
    | adjust n =>
      have hw0 : WFs { c with sendWindow := c.sendWindow + n } := ⟨hs.chanOpen, hs.drained⟩
      rcases (flushSend_spec _ _ _ hw0 (step_recv_adjust_ok h).2.1).trans with ht | ht | ⟨_, ht⟩
      · exact Or.inl ht
      · exact Or.inr (Or.inr (Or.inl ht))
      · exact Or.inr (Or.inr (Or.inr (Or.inr ht)))
    | eof =>
      have hw0 : WFs { c with recvState := .eofPending } := ⟨hs.chanOpen, hs.drained⟩
      rcases (flushRecv_spec _ _ _ _ hw0 (step_recv_eof_ok h).2).eff.sendTrans with ht | ht | ht | ⟨_, ht⟩
      · exact Or.inl ht
      · exact Or.inr (Or.inl ht)
      · exact Or.inr (Or.inr (Or.inl ht))
      · exact Or.inr (Or.inr (Or.inr (Or.inr ht)))
    | close =>
      obtain ⟨_, ms1, h1, _⟩ := step_recv_close_ok h
      obtain ⟨_, _, _, hst, _, _, _, _, hwf⟩ := closeSend_spec c hs
      have hw0 : WFs { (closeSend c).1 with recvState := .closePending } := ⟨hwf.chanOpen, hwf.drained⟩
      exact Or.inr (Or.inr (Or.inr ((flushRecv_spec _ _ _ _ hw0 h1).eff.lateMono (Or.inr hst))))

/-- the history flag `eofSig` covers the send states `eof_pending` and `eof` -/
def EofLocal (c : Chan) (h : Hist) : Prop := (c.sendState = .eofPending ∨ c.sendState = .eof) → h.eofSig = true

theorem eofLocal_step (c c' : Chan) (ev : Ev) (ms : List Msg) (os : List Out) (h h0 : Hist) (hw : WF c)
    (hl : EofLocal c h) (hstep : step c ev = .ok (c', ms, os)) (h0e : h0.eofSig = h.eofSig) :
    EofLocal c' (h0.record c c' ms os) ∧ (h.eofSig = true → (h0.record c c' ms os).eofSig = true) := by
  refine ⟨?_, ?_⟩
  · intro hs'
    simp only [Hist.record, h0e, Bool.or_eq_true, Bool.and_eq_true, decide_eq_true_eq]
    rcases step_sendTrans c c' ev ms os hw hstep with ht | ⟨h1, h2⟩ | ⟨h1, _⟩ | ht
    · left; exact hl (ht ▸ hs')
    · right; exact ⟨h1, h2⟩
    · left; exact hl (Or.inl h1)
    · unfold SendLate at ht
      rcases hs' with h3 | h3 <;> rcases ht with h4 | h4 <;> (rw [h3] at h4; cases h4)
  · intro he
    simp [Hist.record, h0e, he]

structure EInv (s : Sys) : Prop where
  loc : ∀ x, EofLocal (s.ep x) (s.hist x)
  inFlight : ∀ x, Msg.eof ∈ s.link x.other → (s.hist x).eofSig = true
  got : ∀ x, rStage (s.ep x.other) = 1 → (s.hist x).eofSig = true
  seen : ∀ x, Out.eof ∈ (s.hist x.other).dl → (s.hist x).eofSig = true

theorem evStage_one {ev : Ev} {r : Nat} (h : evStage ev r = 1) : ev = .recv .eof ∨ r = 1 := by
  unfold evStage at h
  split at h
  · exact Or.inl rfl
  · cases h
  · exact Or.inr h

theorem einv_step_core (s s' : Sys) (z : Side) (ev : Ev) (c' : Chan) (ms : List Msg) (os : List Out)
    (linkz' : List Msg) (h0 : Hist) (hinv : Inv s) (he : EInv s)
    (hstep : step (s.ep z) ev = .ok (c', ms, os))
    (hlink : (∃ m, ev = .recv m ∧ s.link z = m :: linkz') ∨ ((∀ m, ev ≠ .recv m) ∧ linkz' = s.link z))
    (h0e : h0.eofSig = (s.hist z).eofSig) (h0d : h0.dl = (s.hist z).dl)
    (he1 : s'.ep z = c') (he2 : s'.ep z.other = s.ep z.other)
    (hl1 : s'.link z = linkz') (hl2 : s'.link z.other = s.link z.other ++ ms)
    (hh1 : s'.hist z = h0.record (s.ep z) c' ms os) (hh2 : s'.hist z.other = s.hist z.other) : EInv s' := by
  obtain ⟨hloc', hmono⟩ := eofLocal_step _ _ _ _ _ _ h0 (hinv.wf z) (he.loc z) hstep h0e
  have hrs := (step_sum _ _ _ _ _ (hinv.wf z) hstep).rstage
  have hso := step_outs _ _ _ _ _ (hinv.wf z) hstep
  -- the receive stage 1 of `z` after the step is explained by the state before
  have hgot : rStage c' = 1 → (s.hist z.other).eofSig = true := by
    intro h1
    rw [hrs] at h1
    have hgo := he.got z.other
    have hif := he.inFlight z.other
    rw [Side.other_other] at hgo hif
    rcases evStage_one h1 with h2 | h2
    · rcases hlink with ⟨m, hm, hl⟩ | ⟨hne, _⟩
      · rw [h2] at hm; cases hm
        exact hif (by rw [hl]; simp)
      · exact absurd h2 (hne _)
    · exact hgo h2
  refine ⟨?_, ?_, ?_, ?_⟩
  · intro x
    rcases Side.eq_or_other x z with rfl | rfl
    · rw [he1, hh1]; exact hloc'
    · rw [he2, hh2]; exact he.loc _
  · intro x
    rcases Side.eq_or_other x z with rfl | rfl
    · rw [hl2, hh1]
      intro hm
      rcases List.mem_append.mp hm with hm | hm
      · exact hmono (he.inFlight x hm)
      · exact hloc' (Or.inr (step_eofMsg _ _ _ _ _ hstep hm))
    · rw [Side.other_other, hl1, hh2]
      intro hm
      have := he.inFlight z.other
      rw [Side.other_other] at this
      apply this
      rcases hlink with ⟨m, _, hl⟩ | ⟨_, hl⟩
      · rw [hl]; exact List.mem_cons_of_mem _ hm
      · rw [← hl]; exact hm
  · intro x
    rcases Side.eq_or_other x z with rfl | rfl
    · rw [he2, hh1]; intro h1; exact hmono (he.got x h1)
    · rw [Side.other_other, he1, hh2]; exact hgot
  · intro x
    rcases Side.eq_or_other x z with rfl | rfl
    · rw [hh2, hh1]; intro h1; exact hmono (he.seen x h1)
    · rw [Side.other_other, hh1, hh2]
      intro hm
      simp only [Hist.record, h0d] at hm
      rcases List.mem_append.mp hm with hm | hm
      · have := he.seen z.other
        rw [Side.other_other] at this
        exact this hm
      · apply hgot
        simp [rStage, (hso.eofOut hm).1]

theorem einv_step (s s' : Sys) (ev : Event) (hinv : Inv s) (he : EInv s) (h : s.step ev = .ok s') : EInv s' := by
  cases ev with
  | app z e =>
    simp only [Sys.step] at h
    split at h
    · split at h
      · simp only [Except.ok.injEq] at h; subst h; exact he
      · simp at h
    · rename_i r hr
      simp only [Except.ok.injEq] at h
      subst h
      obtain ⟨c', ms, os⟩ := r
      refine einv_step_core s _ z e.toEv c' ms os (s.link z) ((s.hist z).recordApp e) hinv he hr
        (Or.inr ⟨fun m => AppEv.toEv_not_recv e m, rfl⟩) ?_ ?_ (by simp [Sys.apply]) (by simp [Sys.apply])
        (by simp [Sys.apply]) (by simp [Sys.apply]) (by simp [Sys.apply]) (by simp [Sys.apply])
      · cases e <;> rfl
      · cases e <;> rfl
  | deliver z =>
    simp only [Sys.step] at h
    split at h
    · simp only [Except.ok.injEq] at h; subst h; exact he
    · rename_i m rest hl
      split at h
      · simp at h
      · rename_i r hr
        simp only [Except.ok.injEq] at h
        subst h
        obtain ⟨c', ms, os⟩ := r
        refine einv_step_core s _ z (.recv m) c' ms os rest ((s.hist z).recordRecv m) hinv he hr
          (Or.inl ⟨m, rfl, hl⟩) ?_ ?_ (by simp [Sys.apply]) (by simp [Sys.apply])
          (by simp [Sys.apply]) (by simp [Sys.apply]) (by simp [Sys.apply]) (by simp [Sys.apply])
        · cases m <;> rfl
        · cases m <;> rfl

theorem einv_init (ca cb : SideCfg) : EInv (Sys.init ca cb) := by
  refine ⟨?_, ?_, ?_, ?_⟩
  · intro x h; cases x <;> simp [Sys.init, Chan.opened] at h
  · intro x h; cases x <;> simp [Sys.init] at h
  · intro x h; cases x <;> simp [Sys.init, Chan.opened, rStage, Side.other] at h
  · intro x h; cases x <;> simp [Sys.init] at h

end AsyncsshModel.Channel
