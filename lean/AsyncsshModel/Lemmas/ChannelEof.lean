import AsyncsshModel.Lemmas.ChannelRun
/-
  `eof_received` is only ever delivered when the sending endpoint's send half went through `write_eof`
  (history flag `eofSig`): EOF on the wire implies send state `eof`, and the invariant `EInv`.
-/
namespace AsyncsshModel.Channel
open AsyncsshModel

/-! ### EOF is delivered only if the sender signalled it -/

theorem allData_no_eof : ∀ (l : List Msg), allData l → Msg.eof ∉ l
  | [], _ => by simp
  | .data _ _ :: rest, h => by simp [allData_no_eof rest h]
  | .adjust _ :: _, h => by simp [allData] at h
  | .eof :: _, h => by simp [allData] at h
  | .close :: _, h => by simp [allData] at h

theorem allAdjust_no_eof : ∀ (l : List Msg), allAdjust l → Msg.eof ∉ l
  | [], _ => by simp
  | .adjust _ :: rest, h => by simp [allAdjust_no_eof rest h]
  | .data _ _ :: _, h => by simp [allAdjust] at h
  | .eof :: _, h => by simp [allAdjust] at h
  | .close :: _, h => by simp [allAdjust] at h

/-- where an EOF message on the wire comes from: the send half ends in `eof`, or a pending EOF was flushed in
    front of CLOSE (`_send_eof_pending`, fix d334dad) -/
theorem flushSend_eofMsg (c c' : Chan) (ms : List Msg) (hw : WFs c) (h : flushSend c = some (c', ms))
    (hm : Msg.eof ∈ ms) : c'.sendState = .eof ∨ (c.sendState = .closePending ∧ c.sendEofPending = true) :=
  (flushSend_spec c c' ms hw h).eofMsg hm

theorem writeEof_eofMsg (c c' : Chan) (ms : List Msg) (hw : WFs c) (h : writeEof c = some (c', ms))
    (hm : Msg.eof ∈ ms) : c'.sendState = .eof := by
  unfold writeEof at h
  split at h
  · rename_i hs
    have hw0 : WFs { c with sendState := .eofPending } :=
      ⟨by simp only [ne_eq, reduceCtorEq, not_false_eq_true, iff_true]; exact hw.chanOpen.mpr (by simp [hs]),
       by simp⟩
    rcases flushSend_eofMsg _ _ _ hw0 h hm with h1 | ⟨h1, _⟩
    · exact h1
    · cases h1
  · simp only [Option.some.injEq, Prod.mk.injEq] at h
    obtain ⟨_, rfl⟩ := h
    simp at hm

theorem flushRecv_eofMsg (c c' : Chan) (ms : List Msg) (os : List Out) (hw : WFs c)
    (h : flushRecv c = some (c', ms, os)) (hm : Msg.eof ∈ ms) : c'.sendState = .eof := by
  unfold flushRecv at h
  have hd := drainRecv_spec c.recvBuf c
  generalize drainRecv c c.recvBuf = r at *
  obtain ⟨c1, left, ms1, os1⟩ := r
  simp only at hd h
  have e1 := hd.eff hw
  split at h
  · simp at h
  · rename_i c2 ms2 os2 hes
    simp only [Option.some.injEq, Prod.mk.injEq] at h
    obtain ⟨rfl, rfl, rfl⟩ := h
    have hm2 : Msg.eof ∈ ms2 := by
      rcases List.mem_append.mp hm with hm | hm
      · exact absurd hm (allAdjust_no_eof _ hd.adj)
      · exact hm
    have h2 : c2.sendState = .eof := by
      unfold eofStep at hes
      split at hes
      · dsimp only at hes
        split at hes
        · split at hes
          · simp at hes
          · rename_i c3 ms3 hwe
            simp only [Option.some.injEq, Prod.mk.injEq] at hes
            obtain ⟨rfl, rfl, rfl⟩ := hes
            have hw2 : WFs { { c1 with recvBuf := left } with recvState := .eof } :=
              ⟨e1.wfs.chanOpen, e1.wfs.drained⟩
            exact writeEof_eofMsg _ _ _ hw2 hwe hm2
        · simp only [Option.some.injEq, Prod.mk.injEq] at hes
          obtain ⟨_, rfl, _⟩ := hes
          simp at hm2
      · simp only [Option.some.injEq, Prod.mk.injEq] at hes
        obtain ⟨_, rfl, _⟩ := hes
        simp at hm2
    unfold closeStep; split <;> exact h2

theorem sendPkt_no_eof (c : Chan) (m : Msg) (h : m ≠ .eof) : Msg.eof ∉ sendPkt c m := by
  unfold sendPkt; split
  · simp only [List.mem_singleton]; exact fun h2 => h h2.symm
  · simp

/-- an endpoint that puts EOF on the wire ends the step in send state `eof`, or flushed an EOF that was pending
    when the application closed -/
theorem step_eofMsg (c c' : Chan) (ev : Ev) (ms : List Msg) (os : List Out) (hw : WF c)
    (h : step c ev = .ok (c', ms, os)) (hm : Msg.eof ∈ ms) :
    c'.sendState = .eof ∨ c.sendEofPending = true ∨ (ev = .close ∧ c.sendState = .eofPending) := by
  have hs := hw.s
  cases ev with
  | write dt bs =>
    obtain ⟨hso, _, _, ⟨_, _, hm0⟩ | ⟨_, h1⟩⟩ := step_write_ok h
    · rw [hm0] at hm; simp at hm
    · have hw0 : WFs { c with sendBuf := c.sendBuf ++ [(bs, dt)] } :=
        ⟨hs.chanOpen, by intro h2; simp [hso] at h2⟩
      rcases flushSend_eofMsg _ _ _ hw0 h1 hm with h2 | ⟨h2, _⟩
      · exact Or.inl h2
      · rw [hso] at h2; cases h2
  | writeEof => exact Or.inl (writeEof_eofMsg _ _ _ hs (step_writeEof_ok h).1 hm)
  | close =>
    obtain ⟨c1, ms1, h1, h2⟩ := step_close_ok h
    -- the credit `_discard_recv` sends is WINDOW_ADJUST only: the EOF is among the messages of the send half
    have hm1 : Msg.eof ∈ ms1 := by
      rcases h2 with ⟨_, _, hms, _⟩ | ⟨_, _, hms, _⟩
      · rw [hms, discardRecv_msgs] at hm
        rcases List.mem_append.mp hm with h3 | h3
        · exact h3
        · exact absurd h3 (not_mem_discardCredit c1 (by intro k hk; cases hk))
      · rw [hms] at hm; exact hm
    have hs1 : c1.sendState = .eof ∨ c.sendState = .eofPending := by
      rcases h1 with ⟨_, hs2, h1⟩ | ⟨_, _, hm0⟩
      · have hw0 : WFs { c with sendEofPending := decide (c.sendState = .eofPending), sendState := .closePending } :=
          ⟨by simp only [ne_eq, reduceCtorEq, not_false_eq_true, iff_true]; exact hs.chanOpen.mpr hs2, by simp⟩
        rcases flushSend_eofMsg _ _ _ hw0 h1 hm1 with h3 | ⟨_, h3⟩
        · exact Or.inl h3
        · exact Or.inr (by simpa using h3)
      · rw [hm0] at hm1; simp at hm1
    rcases hs1 with hs1 | hs1
    · left
      rcases h2 with ⟨_, hc', _, _⟩ | ⟨_, hc', _, _⟩
      · rw [hc', (discardRecv_spec c1).sendState]; exact hs1
      · rw [hc']; exact hs1
    · exact Or.inr (Or.inr ⟨rfl, hs1⟩)
  | pause => obtain ⟨_, rfl, _⟩ := step_pause_ok h; simp at hm
  | armPause k => obtain ⟨_, rfl, _⟩ := step_arm_ok h; simp at hm
  | resume =>
    rcases step_resume_ok h with ⟨_, h1⟩ | ⟨_, _, hm0, _⟩
    · have hw0 : WFs { c with recvPaused := .no } := ⟨hs.chanOpen, hs.drained⟩
      exact Or.inl (flushRecv_eofMsg _ _ _ _ hw0 h1 hm)
    · rw [hm0] at hm; simp at hm
  | startReading =>
    rcases step_start_ok h with ⟨_, h1⟩ | ⟨_, _, hm0, _⟩
    · have hw0 : WFs { c with recvPaused := .no } := ⟨hs.chanOpen, hs.drained⟩
      exact Or.inl (flushRecv_eofMsg _ _ _ _ hw0 h1 hm)
    · rw [hm0] at hm; simp at hm
  | recv m =>
    cases m with
    | data dt bs =>
      obtain ⟨_, _, _, ha⟩ := step_recv_data_ok h
      rcases acceptData_cases c bs dt with ⟨_, h1⟩ | ⟨_, _, h1⟩ | ⟨_, _, _, h1⟩ | ⟨_, _, _, h1⟩
      · rw [h1] at ha; cases ha; simp at hm
      · rw [h1] at ha; cases ha; exact absurd hm (not_mem_sendPkt_adjust c _ (by intro k hk; cases hk))
      · rw [h1] at ha; cases ha; simp at hm
      · rw [h1] at ha
        obtain ⟨sp, _⟩ := deliverData_spec c bs dt
        rw [ha] at sp
        exact absurd hm (allAdjust_no_eof _ sp.adj)
    | adjust n =>
      have hw0 : WFs { c with sendWindow := c.sendWindow + n } := ⟨hs.chanOpen, hs.drained⟩
      rcases flushSend_eofMsg _ _ _ hw0 (step_recv_adjust_ok h).2.1 hm with h2 | ⟨_, h2⟩
      · exact Or.inl h2
      · exact Or.inr (Or.inl h2)
    | eof =>
      have hw0 : WFs { c with recvState := .eofPending } := ⟨hs.chanOpen, hs.drained⟩
      exact Or.inl (flushRecv_eofMsg _ _ _ _ hw0 (step_recv_eof_ok h).2 hm)
    | close =>
      obtain ⟨_, ms1, h1, rfl⟩ := step_recv_close_ok h
      obtain ⟨_, _, _, _, _, _, _, _, hwf⟩ := closeSend_spec c hs
      have hw0 : WFs { (closeSend c).1 with recvEofPending := decide (c.recvState = .eofPending), recvState := .closePending } := ⟨hwf.chanOpen, hwf.drained⟩
      rcases List.mem_append.mp hm with hm | hm
      · exfalso
        unfold closeSend at hm
        split at hm
        · exact sendPkt_no_eof c .close (by simp) hm
        · simp at hm
      · exact Or.inl (flushRecv_eofMsg _ _ _ _ hw0 h1 hm)

/-- where a set `_send_eof_pending` comes from -/
theorem step_sendFlag (c c' : Chan) (ev : Ev) (ms : List Msg) (os : List Out) (hw : WF c)
    (h : step c ev = .ok (c', ms, os)) (hf : c'.sendEofPending = true) :
    c.sendEofPending = true ∨ (ev = .close ∧ c.sendState = .eofPending) := by
  have hs := hw.s
  cases ev with
  | write dt bs =>
    obtain ⟨hso, _, _, ⟨_, hc, _⟩ | ⟨_, h1⟩⟩ := step_write_ok h
    · rw [hc] at hf; exact Or.inl hf
    · have hw0 : WFs { c with sendBuf := c.sendBuf ++ [(bs, dt)] } :=
        ⟨hs.chanOpen, by intro h2; simp [hso] at h2⟩
      exact Or.inl ((flushSend_spec _ _ _ hw0 h1).flagMono hf)
  | writeEof =>
    obtain ⟨_, _, _, _, _, _, _, _, _, h9, _⟩ := writeEof_spec _ _ _ hs (step_writeEof_ok h).1
    exact Or.inl (h9 hf)
  | close =>
    obtain ⟨c1, ms1, h1, h2⟩ := step_close_ok h
    have hf1 : c1.sendEofPending = true := by
      rcases h2 with ⟨_, hc', _, _⟩ | ⟨_, hc', _, _⟩
      · rw [hc'] at hf
        have := (discardRecv_spec c1).cfg
        unfold discardRecv at hf
        simp only at hf
        split at hf <;> exact hf
      · rw [hc'] at hf; exact hf
    rcases h1 with ⟨_, hs2, h1⟩ | ⟨_, hc1, _⟩
    · have hw0 : WFs { c with sendEofPending := decide (c.sendState = .eofPending), sendState := .closePending } :=
        ⟨by simp only [ne_eq, reduceCtorEq, not_false_eq_true, iff_true]; exact hs.chanOpen.mpr hs2, by simp⟩
      have := (flushSend_spec _ _ _ hw0 h1).flagMono hf1
      exact Or.inr ⟨rfl, by simpa using this⟩
    · rw [hc1] at hf1; exact Or.inl hf1
  | pause => obtain ⟨rfl, _, _⟩ := step_pause_ok h; exact Or.inl hf
  | armPause k => obtain ⟨rfl, _, _⟩ := step_arm_ok h; exact Or.inl hf
  | resume =>
    rcases step_resume_ok h with ⟨_, h1⟩ | ⟨_, hc, _, _⟩
    · have hw0 : WFs { c with recvPaused := .no } := ⟨hs.chanOpen, hs.drained⟩
      exact Or.inl ((flushRecv_spec _ _ _ _ hw0 h1).sendFlagMono hf)
    · rw [hc] at hf; exact Or.inl hf
  | startReading =>
    rcases step_start_ok h with ⟨_, h1⟩ | ⟨_, hc, _, _⟩
    · have hw0 : WFs { c with recvPaused := .no } := ⟨hs.chanOpen, hs.drained⟩
      exact Or.inl ((flushRecv_spec _ _ _ _ hw0 h1).sendFlagMono hf)
    · rw [hc] at hf; exact Or.inl hf
  | recv m =>
    left
    cases m with
    | data dt bs =>
      obtain ⟨_, _, _, ha⟩ := step_recv_data_ok h
      rcases acceptData_cases c bs dt with ⟨_, h1⟩ | ⟨_, _, h1⟩ | ⟨_, _, _, h1⟩ | ⟨_, _, _, h1⟩
      · rw [h1] at ha; cases ha; exact hf
      · rw [h1] at ha; cases ha; exact hf
      · rw [h1] at ha; cases ha; exact hf
      · rw [h1] at ha
        obtain ⟨sp, _⟩ := deliverData_spec c bs dt
        rw [ha] at sp
        rw [← sp.same.sendEofPending]; exact hf
    | adjust n =>
      have hw0 : WFs { c with sendWindow := c.sendWindow + n } := ⟨hs.chanOpen, hs.drained⟩
      exact (flushSend_spec _ _ _ hw0 (step_recv_adjust_ok h).2.1).flagMono hf
    | eof =>
      have hw0 : WFs { c with recvState := .eofPending } := ⟨hs.chanOpen, hs.drained⟩
      exact (flushRecv_spec _ _ _ _ hw0 (step_recv_eof_ok h).2).sendFlagMono hf
    | close =>
      obtain ⟨_, ms1, h1, _⟩ := step_recv_close_ok h
      obtain ⟨_, _, _, _, _, _, _, _, hwf⟩ := closeSend_spec c hs
      have hw0 : WFs { (closeSend c).1 with recvEofPending := decide (c.recvState = .eofPending), recvState := .closePending } := ⟨hwf.chanOpen, hwf.drained⟩
      have := (flushRecv_spec _ _ _ _ hw0 h1).sendFlagMono hf
      have h2 : (closeSend c).1.sendEofPending = c.sendEofPending := by unfold closeSend; split <;> rfl
      rw [← h2]; exact this

/-- how the send state can move in one step -/
theorem step_sendTrans (c c' : Chan) (ev : Ev) (ms : List Msg) (os : List Out) (hw : WF c)
    (h : step c ev = .ok (c', ms, os)) :
    c'.sendState = c.sendState ∨ (c.sendState = .opn ∧ (c'.sendState = .eofPending ∨ c'.sendState = .eof)) ∨
    (c.sendState = .eofPending ∧ c'.sendState = .eof) ∨ SendLate c' := by
  have hs := hw.s
  cases ev with
  | write dt bs =>
    obtain ⟨hso, _, _, ⟨_, hc, _⟩ | ⟨_, h1⟩⟩ := step_write_ok h
    · rw [hc]; exact Or.inl rfl
    · have hw0 : WFs { c with sendBuf := c.sendBuf ++ [(bs, dt)] } :=
        ⟨hs.chanOpen, by intro h2; simp [hso] at h2⟩
      rcases (flushSend_spec _ _ _ hw0 h1).trans with ht | ⟨ht, _⟩ | ⟨_, ht⟩
      · exact Or.inl ht
      · simp [hso] at ht
      · exact Or.inr (Or.inr (Or.inr (Or.inr ht)))
  | writeEof =>
    obtain ⟨e, _⟩ := writeEof_spec _ _ _ hs (step_writeEof_ok h).1
    rcases e.sendTrans with ht | ht | ht | ⟨_, ht⟩
    · exact Or.inl ht
    · exact Or.inr (Or.inl ht)
    · exact Or.inr (Or.inr (Or.inl ht))
    · exact Or.inr (Or.inr (Or.inr (Or.inr ht)))
  | close => exact Or.inr (Or.inr (Or.inr ((step_late c c' _ ms os hw h).2 rfl)))
  | pause => obtain ⟨rfl, _, _⟩ := step_pause_ok h; exact Or.inl rfl
  | armPause k => obtain ⟨rfl, _, _⟩ := step_arm_ok h; exact Or.inl rfl
  | resume =>
    rcases step_resume_ok h with ⟨_, h1⟩ | ⟨_, hc, _, _⟩
    · have hw0 : WFs { c with recvPaused := .no } := ⟨hs.chanOpen, hs.drained⟩
      rcases (flushRecv_spec _ _ _ _ hw0 h1).eff.sendTrans with ht | ht | ht | ⟨_, ht⟩
      · exact Or.inl ht
      · exact Or.inr (Or.inl ht)
      · exact Or.inr (Or.inr (Or.inl ht))
      · exact Or.inr (Or.inr (Or.inr (Or.inr ht)))
    · rw [hc]; exact Or.inl rfl
  | startReading =>
    rcases step_start_ok h with ⟨_, h1⟩ | ⟨_, hc, _, _⟩
    · have hw0 : WFs { c with recvPaused := .no } := ⟨hs.chanOpen, hs.drained⟩
      rcases (flushRecv_spec _ _ _ _ hw0 h1).eff.sendTrans with ht | ht | ht | ⟨_, ht⟩
      · exact Or.inl ht
      · exact Or.inr (Or.inl ht)
      · exact Or.inr (Or.inr (Or.inl ht))
      · exact Or.inr (Or.inr (Or.inr (Or.inr ht)))
    · rw [hc]; exact Or.inl rfl
  | recv m =>
    cases m with
    | data dt bs =>
      obtain ⟨_, _, _, ha⟩ := step_recv_data_ok h
      rcases acceptData_cases c bs dt with ⟨_, h1⟩ | ⟨_, _, h1⟩ | ⟨_, _, _, h1⟩ | ⟨_, _, _, h1⟩
      · rw [h1] at ha; cases ha; exact Or.inl rfl
      · rw [h1] at ha; cases ha; exact Or.inl rfl
      · rw [h1] at ha; cases ha; exact Or.inl rfl
      · rw [h1] at ha
        obtain ⟨sp, _⟩ := deliverData_spec c bs dt
        rw [ha] at sp
        exact Or.inl sp.same.sendState
    | adjust n =>
      have hw0 : WFs { c with sendWindow := c.sendWindow + n } := ⟨hs.chanOpen, hs.drained⟩
      rcases (flushSend_spec _ _ _ hw0 (step_recv_adjust_ok h).2.1).trans with ht | ht | ⟨_, ht⟩
      · exact Or.inl ht
      · exact Or.inr (Or.inr (Or.inl ht))
      · exact Or.inr (Or.inr (Or.inr (Or.inr ht)))
    | eof =>
      have hw0 : WFs { c with recvState := .eofPending } := ⟨hs.chanOpen, hs.drained⟩
      rcases (flushRecv_spec _ _ _ _ hw0 (step_recv_eof_ok h).2).eff.sendTrans with ht | ht | ht | ⟨_, ht⟩
      · exact Or.inl ht
      · exact Or.inr (Or.inl ht)
      · exact Or.inr (Or.inr (Or.inl ht))
      · exact Or.inr (Or.inr (Or.inr (Or.inr ht)))
    | close =>
      obtain ⟨_, ms1, h1, _⟩ := step_recv_close_ok h
      obtain ⟨_, _, _, hst, _, _, _, _, hwf⟩ := closeSend_spec c hs
      have hw0 : WFs { (closeSend c).1 with recvEofPending := decide (c.recvState = .eofPending), recvState := .closePending } := ⟨hwf.chanOpen, hwf.drained⟩
      exact Or.inr (Or.inr (Or.inr ((flushRecv_spec _ _ _ _ hw0 h1).eff.lateMono (Or.inr hst))))

/-- the history flag `eofSig` covers the send states `eof_pending` and `eof` and a set `_send_eof_pending` -/
def EofLocal (c : Chan) (h : Hist) : Prop :=
  (c.sendState = .eofPending ∨ c.sendState = .eof ∨ c.sendEofPending = true) → h.eofSig = true

theorem eofLocal_step (c c' : Chan) (ev : Ev) (ms : List Msg) (os : List Out) (h h0 : Hist) (hw : WF c)
    (hl : EofLocal c h) (hstep : step c ev = .ok (c', ms, os)) (h0e : h0.eofSig = h.eofSig) :
    EofLocal c' (h0.record c c' ms os) ∧ (h.eofSig = true → (h0.record c c' ms os).eofSig = true) := by
  have hmono : h.eofSig = true → (h0.record c c' ms os).eofSig = true := by
    intro he; simp [Hist.record, h0e, he]
  refine ⟨?_, hmono⟩
  intro hs'
  rcases hs' with hs' | hs' | hs'
  · simp only [Hist.record, h0e, Bool.or_eq_true, Bool.and_eq_true, decide_eq_true_eq]
    rcases step_sendTrans c c' ev ms os hw hstep with ht | ⟨h1, h2⟩ | ⟨h1, _⟩ | ht
    · left; exact hl (Or.inl (ht ▸ hs'))
    · right; exact ⟨h1, h2⟩
    · left; exact hl (Or.inl h1)
    · unfold SendLate at ht
      rcases ht with h4 | h4 <;> (rw [hs'] at h4; cases h4)
  · simp only [Hist.record, h0e, Bool.or_eq_true, Bool.and_eq_true, decide_eq_true_eq]
    rcases step_sendTrans c c' ev ms os hw hstep with ht | ⟨h1, h2⟩ | ⟨h1, _⟩ | ht
    · left; exact hl (Or.inr (Or.inl (ht ▸ hs')))
    · right; exact ⟨h1, h2⟩
    · left; exact hl (Or.inl h1)
    · unfold SendLate at ht
      rcases ht with h4 | h4 <;> (rw [hs'] at h4; cases h4)
  · apply hmono
    rcases step_sendFlag c c' ev ms os hw hstep hs' with h1 | ⟨_, h1⟩
    · exact hl (Or.inr (Or.inr h1))
    · exact hl (Or.inl h1)

structure EInv (s : Sys) : Prop where
  loc : ∀ x, EofLocal (s.ep x) (s.hist x)
  inFlight : ∀ x, Msg.eof ∈ s.link x.other → (s.hist x).eofSig = true
  got : ∀ x, rStage (s.ep x.other) = 1 → (s.hist x).eofSig = true
  seen : ∀ x, Out.eof ∈ (s.hist x.other).dl → (s.hist x).eofSig = true
  flag : ∀ x, (s.ep x.other).recvEofPending = true → (s.hist x).eofSig = true

theorem evStage_one {ev : Ev} {r : Nat} (h : evStage ev r = 1) : ev = .recv .eof ∨ r = 1 := by
  unfold evStage at h
  split at h
  · exact Or.inl rfl
  · cases h
  · exact Or.inr h

theorem einv_step_core (s s' : Sys) (z : Side) (ev : Ev) (c' : Chan) (ms : List Msg) (os : List Out)
    (linkz' : List Msg) (h0 : Hist) (hinv : Inv s) (he : EInv s)
    (hstep : step (s.ep z) ev = .ok (c', ms, os))
    (hlink : (∃ m, ev = .recv m ∧ s.link z = m :: linkz') ∨ ((∀ m, ev ≠ .recv m) ∧ linkz' = s.link z))
    (h0e : h0.eofSig = (s.hist z).eofSig) (h0d : h0.dl = (s.hist z).dl)
    (he1 : s'.ep z = c') (he2 : s'.ep z.other = s.ep z.other)
    (hl1 : s'.link z = linkz') (hl2 : s'.link z.other = s.link z.other ++ ms)
    (hh1 : s'.hist z = h0.record (s.ep z) c' ms os) (hh2 : s'.hist z.other = s.hist z.other) : EInv s' := by
  obtain ⟨hloc', hmono⟩ := eofLocal_step _ _ _ _ _ _ h0 (hinv.wf z) (he.loc z) hstep h0e
  have hrs := (step_sum _ _ _ _ _ (hinv.wf z) hstep).rstage
  have hso := step_outs _ _ _ _ _ (hinv.wf z) hstep
  -- the receive stage 1 of `z` after the step is explained by the state before
  have hgot : rStage c' = 1 → (s.hist z.other).eofSig = true := by
    intro h1
    rw [hrs] at h1
    have hgo := he.got z.other
    have hif := he.inFlight z.other
    rw [Side.other_other] at hgo hif
    rcases evStage_one h1 with h2 | h2
    · rcases hlink with ⟨m, hm, hl⟩ | ⟨hne, _⟩
      · rw [h2] at hm; cases hm
        exact hif (by rw [hl]; simp)
      · exact absurd h2 (hne _)
    · exact hgo h2
  -- a pending-EOF flag at `z` after the step is explained by the state before
  have hflag : c'.recvEofPending = true → (s.hist z.other).eofSig = true := by
    intro hf
    have hfo := he.flag z.other
    have hgo := he.got z.other
    rw [Side.other_other] at hfo hgo
    rcases hso.flagSrc hf with h1 | ⟨_, h1⟩
    · exact hfo h1
    · exact hgo (by simp [rStage, h1])
  refine ⟨?_, ?_, ?_, ?_, ?_⟩
  · intro x
    rcases Side.eq_or_other x z with rfl | rfl
    · rw [he1, hh1]; exact hloc'
    · rw [he2, hh2]; exact he.loc _
  · intro x
    rcases Side.eq_or_other x z with rfl | rfl
    · rw [hl2, hh1]
      intro hm
      rcases List.mem_append.mp hm with hm | hm
      · exact hmono (he.inFlight x hm)
      · rcases step_eofMsg _ _ _ _ _ (hinv.wf x) hstep hm with h1 | h1 | ⟨_, h1⟩
        · exact hloc' (Or.inr (Or.inl h1))
        · exact hmono (he.loc x (Or.inr (Or.inr h1)))
        · exact hmono (he.loc x (Or.inl h1))
    · rw [Side.other_other, hl1, hh2]
      intro hm
      have := he.inFlight z.other
      rw [Side.other_other] at this
      apply this
      rcases hlink with ⟨m, _, hl⟩ | ⟨_, hl⟩
      · rw [hl]; exact List.mem_cons_of_mem _ hm
      · rw [← hl]; exact hm
  · intro x
    rcases Side.eq_or_other x z with rfl | rfl
    · rw [he2, hh1]; intro h1; exact hmono (he.got x h1)
    · rw [Side.other_other, he1, hh2]; exact hgot
  · intro x
    rcases Side.eq_or_other x z with rfl | rfl
    · rw [hh2, hh1]; intro h1; exact hmono (he.seen x h1)
    · rw [Side.other_other, hh1, hh2]
      intro hm
      simp only [Hist.record, h0d] at hm
      rcases List.mem_append.mp hm with hm | hm
      · have := he.seen z.other
        rw [Side.other_other] at this
        exact this hm
      · rcases (hso.eofOut hm).2 with h1 | ⟨_, h1 | ⟨_, h1⟩⟩
        · exact hgot (by simp [rStage, h1])
        · have := he.flag z.other
          rw [Side.other_other] at this
          exact this h1
        · have := he.got z.other
          rw [Side.other_other] at this
          exact this (by simp [rStage, h1])
  · intro x
    rcases Side.eq_or_other x z with rfl | rfl
    · rw [he2, hh1]; intro h1; exact hmono (he.flag x h1)
    · rw [Side.other_other, he1, hh2]; exact hflag

theorem einv_step (s s' : Sys) (ev : Event) (hinv : Inv s) (he : EInv s) (h : s.step ev = .ok s') : EInv s' := by
  cases ev with
  | app z e =>
    simp only [Sys.step] at h
    split at h
    · split at h
      · simp only [Except.ok.injEq] at h; subst h; exact he
      · simp at h
    · rename_i r hr
      simp only [Except.ok.injEq] at h
      subst h
      obtain ⟨c', ms, os⟩ := r
      refine einv_step_core s _ z e.toEv c' ms os (s.link z) ((s.hist z).recordApp e (s.ep z)) hinv he hr
        (Or.inr ⟨fun m => AppEv.toEv_not_recv e m, rfl⟩) ?_ ?_ (by simp [Sys.apply]) (by simp [Sys.apply])
        (by simp [Sys.apply]) (by simp [Sys.apply]) (by simp [Sys.apply]) (by simp [Sys.apply])
      · cases e <;> rfl
      · cases e <;> rfl
  | deliver z =>
    simp only [Sys.step] at h
    split at h
    · simp only [Except.ok.injEq] at h; subst h; exact he
    · rename_i m rest hl
      split at h
      · simp at h
      · rename_i r hr
        simp only [Except.ok.injEq] at h
        subst h
        obtain ⟨c', ms, os⟩ := r
        refine einv_step_core s _ z (.recv m) c' ms os rest ((s.hist z).recordRecv m (s.ep z)) hinv he hr
          (Or.inl ⟨m, rfl, hl⟩) ?_ ?_ (by simp [Sys.apply]) (by simp [Sys.apply])
          (by simp [Sys.apply]) (by simp [Sys.apply]) (by simp [Sys.apply]) (by simp [Sys.apply])
        · cases m <;> rfl
        · cases m <;> rfl

theorem einv_init (ca cb : SideCfg) : EInv (Sys.init ca cb) := by
  refine ⟨?_, ?_, ?_, ?_, ?_⟩
  · intro x h; cases x <;> simp [Sys.init, Chan.opened] at h
  · intro x h; cases x <;> simp [Sys.init] at h
  · intro x h; cases x <;> simp [Sys.init, Chan.opened, rStage, Side.other] at h
  · intro x h; cases x <;> simp [Sys.init] at h
  · intro x h; cases x <;> simp [Sys.init, Chan.opened, Side.other] at h

/-! ### an EOF that was put on the wire reaches the session (fix 024eb80) -/

/-- the states in which a received EOF waits for delivery -/
def EofWaiting (c : Chan) : Prop :=
  c.recvState = .eofPending ∨ (c.recvState = .closePending ∧ c.recvEofPending = true)

theorem FlushRecvSpec.waiting {c0 c' : Chan} {ms : List Msg} {os : List Out} (sp : FlushRecvSpec c0 c' ms os)
    (h : EofWaiting c0) : EofWaiting c' ∨ Out.eof ∈ os := by
  rcases h with h | ⟨h1, h2⟩
  · rcases sp.recvTrans with ht | ⟨_, ht⟩ | ⟨ht, _⟩
    · left; left; rw [ht]; exact h
    · right
      rcases sp.eofState ht with h3 | h3
      · rw [h] at h3; cases h3
      · exact h3
    · rw [h] at ht; cases ht
  · rcases sp.recvTrans with ht | ⟨ht, _⟩ | ⟨_, ht⟩
    · left; right
      refine ⟨ht.trans h1, ?_⟩
      rw [sp.flagKeep (by rw [ht, h1]; simp)]; exact h2
    · rw [h1] at ht; cases ht
    · right; exact sp.flagOut h1 h2 ht

/-- a waiting EOF stays waiting or is delivered, unless the application closes the channel -/
theorem step_eofProgress (c c' : Chan) (ev : Ev) (ms : List Msg) (os : List Out) (hw : WF c)
    (h : step c ev = .ok (c', ms, os)) :
    (EofWaiting c → EofWaiting c' ∨ Out.eof ∈ os ∨ ev = .close) ∧
    (ev = .recv .eof → EofWaiting c' ∨ Out.eof ∈ os) := by
  have keep : c'.recvState = c.recvState → c'.recvEofPending = c.recvEofPending → EofWaiting c → EofWaiting c' := by
    intro h1 h2 hwt
    unfold EofWaiting at *
    rw [h1, h2]; exact hwt
  cases ev with
  | write dt bs =>
    refine ⟨fun hwt => Or.inl ?_, fun h => by cases h⟩
    obtain ⟨hs, _, _, ⟨_, hc, _⟩ | ⟨_, h1⟩⟩ := step_write_ok h
    · rw [hc]; exact hwt
    · have hw0 : WFs { c with sendBuf := c.sendBuf ++ [(bs, dt)] } :=
        ⟨hw.s.chanOpen, by intro h2; simp [hs] at h2⟩
      have sp := flushSend_spec _ _ _ hw0 h1
      exact keep sp.same.recvState sp.same.recvEofPending hwt
  | writeEof =>
    refine ⟨fun hwt => Or.inl ?_, fun h => by cases h⟩
    obtain ⟨_, h2, _, _, _, _, h6, _⟩ := writeEof_spec _ _ _ hw.s (step_writeEof_ok h).1
    exact keep h2 h6 hwt
  | close => exact ⟨fun _ => Or.inr (Or.inr rfl), fun h => by cases h⟩
  | pause =>
    obtain ⟨rfl, _, _⟩ := step_pause_ok h
    exact ⟨fun hwt => Or.inl hwt, fun h => by cases h⟩
  | armPause k =>
    obtain ⟨rfl, _, _⟩ := step_arm_ok h
    exact ⟨fun hwt => Or.inl hwt, fun h => by cases h⟩
  | resume =>
    refine ⟨fun hwt => ?_, fun h => by cases h⟩
    rcases step_resume_ok h with ⟨_, h1⟩ | ⟨_, hc, _, _⟩
    · have hw0 : WFs { c with recvPaused := .no } := ⟨hw.s.chanOpen, hw.s.drained⟩
      rcases (flushRecv_spec _ _ _ _ hw0 h1).waiting hwt with h2 | h2
      · exact Or.inl h2
      · exact Or.inr (Or.inl h2)
    · rw [hc]; exact Or.inl hwt
  | startReading =>
    refine ⟨fun hwt => ?_, fun h => by cases h⟩
    rcases step_start_ok h with ⟨_, h1⟩ | ⟨_, hc, _, _⟩
    · have hw0 : WFs { c with recvPaused := .no } := ⟨hw.s.chanOpen, hw.s.drained⟩
      rcases (flushRecv_spec _ _ _ _ hw0 h1).waiting hwt with h2 | h2
      · exact Or.inl h2
      · exact Or.inr (Or.inl h2)
    · rw [hc]; exact Or.inl hwt
  | recv m =>
    cases m with
    | data dt bs =>
      obtain ⟨hs, _⟩ := step_recv_data_ok h
      refine ⟨fun hwt => ?_, fun h => by cases h⟩
      rcases hwt with h1 | ⟨h1, _⟩ <;> (rw [hs] at h1; cases h1)
    | adjust n =>
      refine ⟨fun hwt => Or.inl ?_, fun h => by cases h⟩
      have hw0 : WFs { c with sendWindow := c.sendWindow + n } := ⟨hw.s.chanOpen, hw.s.drained⟩
      have sp := flushSend_spec _ _ _ hw0 (step_recv_adjust_ok h).2.1
      exact keep sp.same.recvState sp.same.recvEofPending hwt
    | eof =>
      obtain ⟨hs, h1⟩ := step_recv_eof_ok h
      have hw0 : WFs { c with recvState := .eofPending } := ⟨hw.s.chanOpen, hw.s.drained⟩
      have := (flushRecv_spec _ _ _ _ hw0 h1).waiting (Or.inl rfl)
      refine ⟨fun hwt => ?_, fun _ => this⟩
      rcases hwt with h2 | ⟨h2, _⟩ <;> (rw [hs] at h2; cases h2)
    | close =>
      refine ⟨fun hwt => ?_, fun h => by cases h⟩
      obtain ⟨hop, ms1, h1, _⟩ := step_recv_close_ok h
      obtain ⟨_, _, _, _, _, _, _, _, hwf⟩ := closeSend_spec c hw.s
      have hw0 : WFs { (closeSend c).1 with recvEofPending := decide (c.recvState = .eofPending), recvState := .closePending } := ⟨hwf.chanOpen, hwf.drained⟩
      rcases hwt with h2 | ⟨h2, _⟩
      · have hwt0 : EofWaiting { (closeSend c).1 with recvEofPending := decide (c.recvState = .eofPending), recvState := .closePending } :=
          Or.inr ⟨rfl, by simp [h2]⟩
        rcases (flushRecv_spec _ _ _ _ hw0 h1).waiting hwt0 with h3 | h3
        · exact Or.inl h3
        · exact Or.inr (Or.inl h3)
      · rw [h2] at hop; simp [recvOpenish] at hop

/-- Once `x` has put EOF on the wire it is in flight, waiting at the peer, or delivered — unless the peer's
    application closed the channel. -/
structure SInv (s : Sys) : Prop where
  sent : ∀ x, (s.hist x).eofSent = true →
    Msg.eof ∈ s.link x.other ∨ EofWaiting (s.ep x.other) ∨ Out.eof ∈ (s.hist x.other).dl ∨
    (s.hist x.other).appClosed = true

theorem sinv_step_core (s s' : Sys) (z : Side) (ev : Ev) (c' : Chan) (ms : List Msg) (os : List Out)
    (linkz' : List Msg) (h0 : Hist) (hinv : Inv s) (hsi : SInv s)
    (hstep : step (s.ep z) ev = .ok (c', ms, os))
    (hlink : (∃ m, ev = .recv m ∧ s.link z = m :: linkz') ∨ ((∀ m, ev ≠ .recv m) ∧ linkz' = s.link z))
    (h0s : h0.eofSent = (s.hist z).eofSent) (h0d : h0.dl = (s.hist z).dl)
    (h0a : h0.appClosed = ((s.hist z).appClosed || decide (ev = .close)))
    (he1 : s'.ep z = c') (he2 : s'.ep z.other = s.ep z.other)
    (hl1 : s'.link z = linkz') (hl2 : s'.link z.other = s.link z.other ++ ms)
    (hh1 : s'.hist z = h0.record (s.ep z) c' ms os) (hh2 : s'.hist z.other = s.hist z.other) : SInv s' := by
  obtain ⟨hprog, hcons⟩ := step_eofProgress _ _ _ _ _ (hinv.wf z) hstep
  refine ⟨?_⟩
  intro x
  rcases Side.eq_or_other x z with rfl | rfl
  · -- `x` is the side that moved: it may have sent the EOF just now
    rw [he2, hh1, hh2, hl2]
    intro hs
    simp only [Hist.record, h0s, Bool.or_eq_true, decide_eq_true_eq] at hs
    rcases hs with hs | hs
    · rcases hsi.sent x hs with h1 | h1 | h1 | h1
      · exact Or.inl (List.mem_append_left _ h1)
      · exact Or.inr (Or.inl h1)
      · exact Or.inr (Or.inr (Or.inl h1))
      · exact Or.inr (Or.inr (Or.inr h1))
    · exact Or.inl (List.mem_append_right _ hs)
  · -- the receiver of that EOF moved
    rw [Side.other_other, he1, hh1, hh2, hl1]
    intro hs
    have hold := hsi.sent z.other hs
    rw [Side.other_other] at hold
    have hdl : (h0.record (s.ep z) c' ms os).dl = (s.hist z).dl ++ os := by simp [Hist.record, h0d]
    have hac : (h0.record (s.ep z) c' ms os).appClosed = ((s.hist z).appClosed || decide (ev = .close)) := by
      simp [Hist.record, h0a]
    rw [hdl, hac]
    have fromWaiting : EofWaiting (s.ep z) → Msg.eof ∈ linkz' ∨ EofWaiting c' ∨ Out.eof ∈ (s.hist z).dl ++ os ∨
        ((s.hist z).appClosed || decide (ev = .close)) = true := by
      intro hwt
      rcases hprog hwt with h2 | h2 | h2
      · exact Or.inr (Or.inl h2)
      · exact Or.inr (Or.inr (Or.inl (List.mem_append_right _ h2)))
      · exact Or.inr (Or.inr (Or.inr (by simp [h2])))
    rcases hold with h1 | h1 | h1 | h1
    · rcases hlink with ⟨m, hm, hl⟩ | ⟨_, hl⟩
      · rw [hl] at h1
        rcases List.mem_cons.mp h1 with h2 | h2
        · subst h2
          rcases hcons hm with h3 | h3
          · exact Or.inr (Or.inl h3)
          · exact Or.inr (Or.inr (Or.inl (List.mem_append_right _ h3)))
        · exact Or.inl h2
      · rw [hl]; exact Or.inl h1
    · exact fromWaiting h1
    · exact Or.inr (Or.inr (Or.inl (List.mem_append_left _ h1)))
    · exact Or.inr (Or.inr (Or.inr (by simp [h1])))

theorem sinv_step (s s' : Sys) (ev : Event) (hinv : Inv s) (hsi : SInv s) (h : s.step ev = .ok s') : SInv s' := by
  cases ev with
  | app z e =>
    simp only [Sys.step] at h
    split at h
    · split at h
      · simp only [Except.ok.injEq] at h; subst h; exact hsi
      · simp at h
    · rename_i r hr
      simp only [Except.ok.injEq] at h
      subst h
      obtain ⟨c', ms, os⟩ := r
      refine sinv_step_core s _ z e.toEv c' ms os (s.link z) ((s.hist z).recordApp e (s.ep z)) hinv hsi hr
        (Or.inr ⟨fun m => AppEv.toEv_not_recv e m, rfl⟩) ?_ ?_ ?_ (by simp [Sys.apply]) (by simp [Sys.apply])
        (by simp [Sys.apply]) (by simp [Sys.apply]) (by simp [Sys.apply]) (by simp [Sys.apply])
      · cases e <;> rfl
      · cases e <;> rfl
      · cases e <;> simp [Hist.recordApp, AppEv.toEv]
  | deliver z =>
    simp only [Sys.step] at h
    split at h
    · simp only [Except.ok.injEq] at h; subst h; exact hsi
    · rename_i m rest hl
      split at h
      · simp at h
      · rename_i r hr
        simp only [Except.ok.injEq] at h
        subst h
        obtain ⟨c', ms, os⟩ := r
        refine sinv_step_core s _ z (.recv m) c' ms os rest ((s.hist z).recordRecv m (s.ep z)) hinv hsi hr
          (Or.inl ⟨m, rfl, hl⟩) ?_ ?_ ?_ (by simp [Sys.apply]) (by simp [Sys.apply])
          (by simp [Sys.apply]) (by simp [Sys.apply]) (by simp [Sys.apply]) (by simp [Sys.apply])
        · cases m <;> rfl
        · cases m <;> rfl
        · cases m <;> simp [Hist.recordRecv]

theorem sinv_init (ca cb : SideCfg) : SInv (Sys.init ca cb) :=
  ⟨fun x h => by cases x <;> simp [Sys.init] at h⟩

/-! ### an EOF signalled by the application is put on the wire (fix d334dad) -/

/-- a signalled EOF stays waiting or goes out, unless the peer's CLOSE kills the send half; and a send half that
    reaches `eof` from `open` within one step has sent the EOF -/
theorem step_sendWaiting (c c' : Chan) (ev : Ev) (ms : List Msg) (os : List Out) (hw : WF c)
    (h : step c ev = .ok (c', ms, os)) :
    (SendWaiting c → SendWaiting c' ∨ Msg.eof ∈ ms ∨ ev = .recv .close) ∧
    (c.sendState = .opn → c'.sendState = .eof → Msg.eof ∈ ms) := by
  have hs := hw.s
  have keep : c'.sendState = c.sendState → c'.sendEofPending = c.sendEofPending →
      (SendWaiting c → SendWaiting c' ∨ Msg.eof ∈ ms ∨ ev = .recv .close) ∧
      (c.sendState = .opn → c'.sendState = .eof → Msg.eof ∈ ms) := by
    intro h1 h2
    refine ⟨fun hwt => Or.inl (by unfold SendWaiting at *; rw [h1, h2]; exact hwt), fun ho he => ?_⟩
    rw [h1, ho] at he; cases he
  have ofSend : ∀ {c0 : Chan}, SendSpec c0 c' ms → c0.sendState = c.sendState → c0.sendEofPending = c.sendEofPending →
      (SendWaiting c → SendWaiting c' ∨ Msg.eof ∈ ms ∨ ev = .recv .close) ∧
      (c.sendState = .opn → c'.sendState = .eof → Msg.eof ∈ ms) := by
    intro c0 sp h1 h2
    refine ⟨fun hwt => ?_, fun ho he => ?_⟩
    · rcases sp.waiting (by unfold SendWaiting at *; rw [h1, h2]; exact hwt) with h3 | h3
      · exact Or.inl h3
      · exact Or.inr (Or.inl h3)
    · rcases sp.trans with ht | ⟨ht, _⟩ | ⟨ht, _⟩
      · rw [ht, h1, ho] at he; cases he
      · rw [h1, ho] at ht; cases ht
      · rw [h1, ho] at ht; cases ht
  cases ev with
  | write dt bs =>
    obtain ⟨hso, _, _, ⟨_, hc, _⟩ | ⟨_, h1⟩⟩ := step_write_ok h
    · exact keep (by rw [hc]) (by rw [hc])
    · have hw0 : WFs { c with sendBuf := c.sendBuf ++ [(bs, dt)] } :=
        ⟨hs.chanOpen, by intro h2; simp [hso] at h2⟩
      exact ofSend (flushSend_spec _ _ _ hw0 h1) rfl rfl
  | writeEof =>
    obtain ⟨_, _, _, _, _, _, _, _, _, _, h10⟩ := writeEof_spec _ _ _ hs (step_writeEof_ok h).1
    exact ⟨fun hwt => Or.inl (h10.1 hwt), h10.2⟩
  | close =>
    obtain ⟨c1, ms1, h1, h2⟩ := step_close_ok h
    have hsub : ∀ m, m ∈ ms1 → m ∈ ms := by
      intro m hmem
      rcases h2 with ⟨_, _, hms, _⟩ | ⟨_, _, hms, _⟩
      · rw [hms]; exact List.mem_append_left _ hmem
      · rw [hms]; exact hmem
    have hc1 : c'.sendState = c1.sendState ∧ c'.sendEofPending = c1.sendEofPending := by
      rcases h2 with ⟨_, hc', _, _⟩ | ⟨_, hc', _, _⟩
      · rw [hc']; refine ⟨(discardRecv_spec c1).sendState, ?_⟩
        unfold discardRecv; simp only; split <;> rfl
      · rw [hc']; exact ⟨rfl, rfl⟩
    rcases h1 with ⟨hs1, hs2, h1⟩ | ⟨hl, hcc, hm⟩
    · have hw0 : WFs { c with sendEofPending := decide (c.sendState = .eofPending), sendState := .closePending } :=
        ⟨by simp only [ne_eq, reduceCtorEq, not_false_eq_true, iff_true]; exact hs.chanOpen.mpr hs2, by simp⟩
      have sp := flushSend_spec _ _ _ hw0 h1
      refine ⟨fun hwt => ?_, fun ho he => ?_⟩
      · have hwt0 : SendWaiting { c with sendEofPending := decide (c.sendState = .eofPending), sendState := .closePending } := by
          rcases hwt with h3 | ⟨h3, _⟩
          · exact Or.inr ⟨rfl, by simp [h3]⟩
          · exact absurd h3 hs1
        rcases sp.waiting hwt0 with h3 | h3
        · left; unfold SendWaiting at *; rw [hc1.1, hc1.2]; exact h3
        · exact Or.inr (Or.inl (hsub _ h3))
      · rw [hc1.1] at he
        rcases sp.trans with ht | ⟨ht, _⟩ | ⟨_, ht⟩
        · rw [ht] at he; cases he
        · cases ht
        · rw [ht] at he; cases he
    · rw [hcc] at hc1
      exact keep hc1.1 hc1.2
  | pause => obtain ⟨rfl, _, _⟩ := step_pause_ok h; exact keep rfl rfl
  | armPause k => obtain ⟨rfl, _, _⟩ := step_arm_ok h; exact keep rfl rfl
  | resume =>
    rcases step_resume_ok h with ⟨_, h1⟩ | ⟨_, hc, _, _⟩
    · have hw0 : WFs { c with recvPaused := .no } := ⟨hs.chanOpen, hs.drained⟩
      have sp := (flushRecv_spec _ _ _ _ hw0 h1).sendProg
      exact ⟨fun hwt => Or.inl (sp.1 hwt), sp.2⟩
    · exact keep (by rw [hc]) (by rw [hc])
  | startReading =>
    rcases step_start_ok h with ⟨_, h1⟩ | ⟨_, hc, _, _⟩
    · have hw0 : WFs { c with recvPaused := .no } := ⟨hs.chanOpen, hs.drained⟩
      have sp := (flushRecv_spec _ _ _ _ hw0 h1).sendProg
      exact ⟨fun hwt => Or.inl (sp.1 hwt), sp.2⟩
    · exact keep (by rw [hc]) (by rw [hc])
  | recv m =>
    cases m with
    | data dt bs =>
      obtain ⟨_, _, _, ha⟩ := step_recv_data_ok h
      rcases acceptData_cases c bs dt with ⟨_, h1⟩ | ⟨_, _, h1⟩ | ⟨_, _, _, h1⟩ | ⟨_, _, _, h1⟩
      · rw [h1] at ha; cases ha; exact keep rfl rfl
      · rw [h1] at ha; cases ha; exact keep rfl rfl
      · rw [h1] at ha; cases ha; exact keep rfl rfl
      · rw [h1] at ha
        obtain ⟨sp, _⟩ := deliverData_spec c bs dt
        rw [ha] at sp
        exact keep sp.same.sendState sp.same.sendEofPending
    | adjust n =>
      have hw0 : WFs { c with sendWindow := c.sendWindow + n } := ⟨hs.chanOpen, hs.drained⟩
      exact ofSend (flushSend_spec _ _ _ hw0 (step_recv_adjust_ok h).2.1) rfl rfl
    | eof =>
      have hw0 : WFs { c with recvState := .eofPending } := ⟨hs.chanOpen, hs.drained⟩
      have sp := (flushRecv_spec _ _ _ _ hw0 (step_recv_eof_ok h).2).sendProg
      exact ⟨fun hwt => Or.inl (sp.1 hwt), sp.2⟩
    | close =>
      refine ⟨fun _ => Or.inr (Or.inr rfl), fun ho he => ?_⟩
      obtain ⟨_, ms1, h1, _⟩ := step_recv_close_ok h
      obtain ⟨_, _, _, hst, _, _, _, _, hwf⟩ := closeSend_spec c hs
      have hw0 : WFs { (closeSend c).1 with recvEofPending := decide (c.recvState = .eofPending), recvState := .closePending } := ⟨hwf.chanOpen, hwf.drained⟩
      have := (flushRecv_spec _ _ _ _ hw0 h1).eff.lateMono (Or.inr hst)
      unfold SendLate at this
      rcases this with h3 | h3 <;> (rw [he] at h3; cases h3)

/-- once the application has signalled EOF (`write_eof()` while the send half was open) the EOF message has been
    sent, or still waits behind buffered data, or the peer's application closed the channel -/
structure GInvSig (s : Sys) : Prop where
  sig : ∀ x, (s.hist x).eofSig = true →
    (s.hist x).eofSent = true ∨ SendWaiting (s.ep x) ∨ (s.hist x.other).appClosed = true

theorem siginv_step_core (s s' : Sys) (z : Side) (ev : Ev) (c' : Chan) (ms : List Msg) (os : List Out)
    (linkz' : List Msg) (h0 : Hist) (hinv : Inv s) (hsg : GInvSig s)
    (hstep : step (s.ep z) ev = .ok (c', ms, os))
    (hlink : (∃ m, ev = .recv m ∧ s.link z = m :: linkz') ∨ ((∀ m, ev ≠ .recv m) ∧ linkz' = s.link z))
    (h0s : h0.eofSent = (s.hist z).eofSent) (h0g : h0.eofSig = (s.hist z).eofSig)
    (h0a : h0.appClosed = ((s.hist z).appClosed || decide (ev = .close)))
    (he1 : s'.ep z = c') (he2 : s'.ep z.other = s.ep z.other)
    (hh1 : s'.hist z = h0.record (s.ep z) c' ms os) (hh2 : s'.hist z.other = s.hist z.other) : GInvSig s' := by
  obtain ⟨hw1, hw2⟩ := step_sendWaiting _ _ _ _ _ (hinv.wf z) hstep
  refine ⟨?_⟩
  intro x
  rcases Side.eq_or_other x z with rfl | rfl
  · rw [he1, hh1, hh2]
    intro hsig
    have hsent : Msg.eof ∈ ms → (h0.record (s.ep x) c' ms os).eofSent = true := by
      intro hm; simp [Hist.record, hm]
    have hsentMono : (s.hist x).eofSent = true → (h0.record (s.ep x) c' ms os).eofSent = true := by
      intro hm; simp [Hist.record, h0s, hm]
    simp only [Hist.record, h0g, Bool.or_eq_true, Bool.and_eq_true, decide_eq_true_eq] at hsig
    rcases hsig with hsig | ⟨ho, hp⟩
    · rcases hsg.sig x hsig with h1 | h1 | h1
      · exact Or.inl (hsentMono h1)
      · rcases hw1 h1 with h2 | h2 | h2
        · exact Or.inr (Or.inl h2)
        · exact Or.inl (hsent h2)
        · -- the peer's CLOSE arrived while our EOF was still waiting: the peer's application closed
          right; right
          rcases hlink with ⟨m, hm, hl⟩ | ⟨hne, _⟩
          · rw [h2] at hm; cases hm
            have hrev := (hinv.dir x.other).link
            rw [Side.other_other, hl] at hrev
            simp only [LinkOK] at hrev
            have hsl : SendLate (s.ep x.other) := Or.inr (sStage_two hrev.2.2)
            rcases (hinv.g x.other).closedBy hsl with h3 | h3
            · exact h3
            · exfalso
              have hl2 := (hinv.dir x).link
              rw [h3] at hl2
              obtain ⟨_, hss⟩ := LinkOK_two _ _ hl2
              have := sStage_two hss
              rcases h1 with h4 | ⟨h4, _⟩ <;> (rw [this] at h4; cases h4)
          · exact absurd h2 (hne _)
      · exact Or.inr (Or.inr h1)
    · rcases hp with hp | hp
      · exact Or.inr (Or.inl (Or.inl hp))
      · exact Or.inl (hsent (hw2 ho hp))
  · rw [Side.other_other, he2, hh1, hh2]
    intro hsig
    rcases hsg.sig z.other hsig with h1 | h1 | h1
    · exact Or.inl h1
    · exact Or.inr (Or.inl h1)
    · rw [Side.other_other] at h1
      right; right
      simp [Hist.record, h0a, h1]

theorem siginv_step (s s' : Sys) (ev : Event) (hinv : Inv s) (hsg : GInvSig s) (h : s.step ev = .ok s') :
    GInvSig s' := by
  cases ev with
  | app z e =>
    simp only [Sys.step] at h
    split at h
    · split at h
      · simp only [Except.ok.injEq] at h; subst h; exact hsg
      · simp at h
    · rename_i r hr
      simp only [Except.ok.injEq] at h
      subst h
      obtain ⟨c', ms, os⟩ := r
      refine siginv_step_core s _ z e.toEv c' ms os (s.link z) ((s.hist z).recordApp e (s.ep z)) hinv hsg hr
        (Or.inr ⟨fun m => AppEv.toEv_not_recv e m, rfl⟩) ?_ ?_ ?_ (by simp [Sys.apply]) (by simp [Sys.apply])
        (by simp [Sys.apply]) (by simp [Sys.apply])
      · cases e <;> rfl
      · cases e <;> rfl
      · cases e <;> simp [Hist.recordApp, AppEv.toEv]
  | deliver z =>
    simp only [Sys.step] at h
    split at h
    · simp only [Except.ok.injEq] at h; subst h; exact hsg
    · rename_i m rest hl
      split at h
      · simp at h
      · rename_i r hr
        simp only [Except.ok.injEq] at h
        subst h
        obtain ⟨c', ms, os⟩ := r
        refine siginv_step_core s _ z (.recv m) c' ms os rest ((s.hist z).recordRecv m (s.ep z)) hinv hsg hr
          (Or.inl ⟨m, rfl, hl⟩) ?_ ?_ ?_ (by simp [Sys.apply]) (by simp [Sys.apply])
          (by simp [Sys.apply]) (by simp [Sys.apply])
        · cases m <;> rfl
        · cases m <;> rfl
        · cases m <;> simp [Hist.recordRecv]

theorem siginv_init (ca cb : SideCfg) : GInvSig (Sys.init ca cb) :=
  ⟨fun x h => by cases x <;> simp [Sys.init] at h⟩

end AsyncsshModel.Channel
