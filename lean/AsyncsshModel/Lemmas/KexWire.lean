import AsyncsshModel.Model.KexWire
/-
  Lemmas about the SSH wire primitives of `Model/KexWire.lean` (no Mathlib needed): round trips,
  the minimal-length rule of `MPInt`, and (at the end) the framing-injectivity lemmas C03 needs.
-/
namespace AsyncsshModel.KexWire
open AsyncsshModel

/-! ### unsigned big-endian -/

@[simp] theorem length_beBytes (len n : Nat) : (beBytes len n).length = len := by
  induction len with
  | zero => simp [beBytes]
  | succ k ih => simp [beBytes, ih]

theorem beNat_lt (b : Bytes) : beNat b < 256 ^ b.length := by
  induction b with
  | nil => simp [beNat]
  | cons x xs ih =>
    simp only [beNat, List.length_cons, Nat.pow_succ]
    have hx := x.toNat_lt
    have : x.toNat * 256 ^ xs.length ≤ 255 * 256 ^ xs.length :=
      Nat.mul_le_mul_right _ (by omega)
    omega

theorem toNat_ofNat_mod (n : Nat) : (UInt8.ofNat (n % 256)).toNat = n % 256 := by
  simp [UInt8.toNat_ofNat']

theorem beNat_beBytes (len n : Nat) : beNat (beBytes len n) = n % 256 ^ len := by
  induction len with
  | zero => simp [beBytes, beNat, Nat.mod_one]
  | succ k ih =>
    simp only [beBytes, beNat, length_beBytes, ih, toNat_ofNat_mod, Nat.pow_succ]
    rw [Nat.mod_mul (x := n) (a := 256 ^ k) (b := 256)]
    rw [Nat.mul_comm]
    omega

theorem beBytes_beNat (b : Bytes) : beBytes b.length (beNat b) = b := by
  induction b with
  | nil => simp [beBytes]
  | cons x xs ih =>
    have hlt := beNat_lt xs
    have hpos : 0 < 256 ^ xs.length := Nat.pow_pos (by decide)
    simp only [List.length_cons, beBytes, beNat]
    congr 1
    · have h1 : (x.toNat * 256 ^ xs.length + beNat xs) / 256 ^ xs.length = x.toNat := by
        rw [Nat.mul_comm, Nat.mul_add_div hpos, Nat.div_eq_of_lt hlt]; simp
      rw [h1, Nat.mod_eq_of_lt x.toNat_lt]
      exact UInt8.ofNat_toNat
    · -- the lower digits do not see the leading byte
      have : ∀ (len : Nat) (a m : Nat), len ≤ m → beBytes len (a * 256 ^ m + beNat xs) = beBytes len (beNat xs) := by
        intro len
        induction len with
        | zero => intros; simp [beBytes]
        | succ j ihj =>
          intro a m hm
          simp only [beBytes]
          rw [ihj a m (by omega)]
          congr 2
          -- digit j of a*256^m + r equals digit j of r when j < m
          have hsplit : 256 ^ m = 256 ^ j * (256 * 256 ^ (m - j - 1)) := by
            rw [← Nat.pow_succ', ← Nat.pow_add]; congr 1; omega
          rw [hsplit]
          have hj : 0 < 256 ^ j := Nat.pow_pos (by decide)
          rw [show a * (256 ^ j * (256 * 256 ^ (m - j - 1))) = 256 ^ j * (a * (256 * 256 ^ (m - j - 1))) by
                rw [Nat.mul_left_comm]]
          rw [Nat.mul_add_div hj]
          rw [show a * (256 * 256 ^ (m - j - 1)) = 256 * (a * 256 ^ (m - j - 1)) by rw [Nat.mul_left_comm]]
          rw [Nat.mul_add_mod]
      rw [this xs.length x.toNat xs.length (Nat.le_refl _)]
      exact ih

theorem toBytes?_eq_some {len n : Nat} {w : Bytes} (h : toBytes? len n = some w) :
    n < 256 ^ len ∧ w = beBytes len n := by
  unfold toBytes? at h
  split at h
  · simp at h; exact ⟨by assumption, h.symm⟩
  · simp at h

/-! ### getters on concatenations -/

theorem getBytes_append (s r : Bytes) : getBytes s.length (s ++ r) = some (s, r) := by
  simp [getBytes]

theorem getBytes_append' {n : Nat} (s r : Bytes) (h : s.length = n) : getBytes n (s ++ r) = some (s, r) := by
  subst h; exact getBytes_append s r

theorem getUInt_toBytes {size n : Nat} {w : Bytes} (h : toBytes? size n = some w) (r : Bytes) :
    getUInt size (w ++ r) = some (n, r) := by
  obtain ⟨hlt, rfl⟩ := toBytes?_eq_some h
  unfold getUInt
  rw [getBytes_append' _ _ (length_beBytes _ _)]
  simp [beNat_beBytes, Nat.mod_eq_of_lt hlt]

theorem getUInt32_enc {n : Nat} {w : Bytes} (h : encUInt32? n = some w) (r : Bytes) :
    getUInt32 (w ++ r) = some (n, r) := getUInt_toBytes h r

theorem encString?_eq_some {s w : Bytes} (h : encString? s = some w) :
    s.length < 256 ^ 4 ∧ w = beBytes 4 s.length ++ s := by
  unfold encString? encUInt32? at h
  cases hh : toBytes? 4 s.length with
  | none => simp [hh] at h
  | some hdr =>
    obtain ⟨hlt, rfl⟩ := toBytes?_eq_some hh
    simp [hh] at h
    exact ⟨hlt, h.symm⟩

theorem encString?_of_lt (s : Bytes) (h : s.length < 256 ^ 4) :
    encString? s = some (beBytes 4 s.length ++ s) := by
  simp [encString?, encUInt32?, toBytes?, h]

theorem getString_enc {s w : Bytes} (h : encString? s = some w) (r : Bytes) :
    getString (w ++ r) = some (s, r) := by
  obtain ⟨hlt, rfl⟩ := encString?_eq_some h
  unfold getString
  have : getUInt32 (beBytes 4 s.length ++ s ++ r) = some (s.length, s ++ r) := by
    rw [List.append_assoc]
    exact getUInt_toBytes (by simp [toBytes?, hlt]) (s ++ r)
  rw [this]
  exact getBytes_append s r

/-! ### bit length -/

theorem bitLength_zero : bitLength 0 = 0 := by simp [bitLength]

theorem bitLength_pos {v : Int} (h : v ≠ 0) : 0 < bitLength v := by
  unfold bitLength
  have : v.natAbs ≠ 0 := by omega
  simp [this]

/-- `2^(bl-1) ≤ |v| < 2^bl` for `v ≠ 0` -/
theorem bitLength_bounds {v : Int} (h : v ≠ 0) :
    2 ^ (bitLength v - 1) ≤ v.natAbs ∧ v.natAbs < 2 ^ bitLength v := by
  unfold bitLength
  have hn : v.natAbs ≠ 0 := by omega
  simp only [hn, if_false, Nat.add_sub_cancel]
  exact ⟨Nat.log2_self_le hn, Nat.lt_log2_self⟩

/-- `n < 2^k ↔ bit_length n ≤ k` -/
theorem natAbs_lt_pow_iff {v : Int} (h : v ≠ 0) (k : Nat) : v.natAbs < 2 ^ k ↔ bitLength v ≤ k := by
  unfold bitLength
  have hn : v.natAbs ≠ 0 := by omega
  simp only [hn, if_false]
  rw [← Nat.log2_lt hn]
  omega

theorem pow256 (l : Nat) : (256 : Nat) ^ l = 2 ^ (8 * l) := by
  rw [Nat.pow_mul]

theorem pow256_cast (l : Nat) : (256 : Int) ^ l = ((256 ^ l : Nat) : Int) := by
  simp [Int.natCast_pow]

theorem two_pow_succ_pred {k : Nat} (h : 1 ≤ k) : 2 ^ k = 2 * 2 ^ (k - 1) := by
  cases k with
  | zero => omega
  | succ j => simp [Nat.pow_succ, Nat.mul_comm]

/-- positive values: `v` fits in `l` bytes iff `bit_length + 1 ≤ 8 l` (room for the sign bit) -/
theorem fitsSigned_pos {v : Int} (hv : 0 < v) (l : Nat) :
    FitsSigned v l ↔ bitLength v + 1 ≤ 8 * l := by
  have hne : v ≠ 0 := by omega
  have hm : v = (v.natAbs : Int) := by omega
  unfold FitsSigned
  rw [pow256_cast, pow256]
  by_cases hl : l = 0
  · subst hl
    have := bitLength_pos hne
    simp; omega
  · have h8 : 1 ≤ 8 * l := by omega
    rw [two_pow_succ_pred h8]
    have key := natAbs_lt_pow_iff hne (8 * l - 1)
    constructor
    · intro ⟨_, h2⟩
      have : v.natAbs < 2 ^ (8 * l - 1) := by
        have : ((2 * v.natAbs : Nat) : Int) < ((2 * 2 ^ (8 * l - 1) : Nat) : Int) := by
          rw [Int.natCast_mul]; omega
        have := Int.ofNat_lt.mp this
        omega
      have := key.mp this
      omega
    · intro h
      have : v.natAbs < 2 ^ (8 * l - 1) := key.mpr (by omega)
      refine ⟨by omega, ?_⟩
      have : ((2 * v.natAbs : Nat) : Int) < ((2 * 2 ^ (8 * l - 1) : Nat) : Int) :=
        Int.ofNat_lt.mpr (by omega)
      rw [Int.natCast_mul] at this
      omega

/-- negative values: a negative power of two `-2^(bl-1)` needs no extra sign bit -/
theorem fitsSigned_neg {v : Int} (hv : v < 0) (l : Nat) :
    FitsSigned v l ↔
      (if v = -((2 : Int) ^ (bitLength v - 1)) then bitLength v ≤ 8 * l else bitLength v + 1 ≤ 8 * l) := by
  have hne : v ≠ 0 := by omega
  have hm : v = -(v.natAbs : Int) := by omega
  have hb := bitLength_bounds hne
  have hbl := bitLength_pos hne
  have hcond : (v = -((2 : Int) ^ (bitLength v - 1))) ↔ v.natAbs = 2 ^ (bitLength v - 1) := by
    have : ((2 : Int) ^ (bitLength v - 1)) = ((2 ^ (bitLength v - 1) : Nat) : Int) := by
      simp [Int.natCast_pow]
    rw [this]
    constructor
    · intro h; omega
    · intro h; omega
  have hfit : FitsSigned v l ↔ 2 * v.natAbs ≤ 256 ^ l := by
    unfold FitsSigned
    rw [pow256_cast]
    constructor
    · intro ⟨h1, _⟩
      have : ((2 * v.natAbs : Nat) : Int) ≤ ((256 ^ l : Nat) : Int) := by
        rw [Int.natCast_mul]; omega
      exact Int.ofNat_le.mp this
    · intro h
      have : ((2 * v.natAbs : Nat) : Int) ≤ ((256 ^ l : Nat) : Int) := Int.ofNat_le.mpr h
      rw [Int.natCast_mul] at this
      have hpos : (0 : Int) ≤ ((256 ^ l : Nat) : Int) := Int.natCast_nonneg _
      constructor <;> omega
  rw [hfit, pow256]
  by_cases hl : l = 0
  · subst hl
    have : 1 ≤ v.natAbs := by omega
    split <;> simp <;> omega
  · have h8 : 1 ≤ 8 * l := by omega
    rw [two_pow_succ_pred h8]
    by_cases hc : v.natAbs = 2 ^ (bitLength v - 1)
    · rw [if_pos (hcond.mpr hc)]
      constructor
      · intro h
        have h' : 2 ^ (bitLength v - 1) ≤ 2 ^ (8 * l - 1) := by omega
        have := (Nat.pow_le_pow_iff_right (by decide : 1 < 2)).mp h'
        omega
      · intro h
        have : 2 ^ (bitLength v - 1) ≤ 2 ^ (8 * l - 1) :=
          Nat.pow_le_pow_right (by decide) (by omega)
        omega
    · rw [if_neg (fun h => hc (hcond.mp h))]
      have key := natAbs_lt_pow_iff hne (8 * l - 1)
      constructor
      · intro h
        have hle : v.natAbs ≤ 2 ^ (8 * l - 1) := by omega
        have hlt : v.natAbs < 2 ^ (8 * l - 1) := by
          rcases Nat.lt_or_eq_of_le hle with h1 | h1
          · exact h1
          · exfalso
            -- then |v| is a power of two, so it equals 2^(bl-1)
            have h2 : 2 ^ (8 * l - 1) < 2 ^ bitLength v := by rw [← h1]; exact hb.2
            have h3 : 2 ^ (bitLength v - 1) ≤ 2 ^ (8 * l - 1) := by rw [← h1]; exact hb.1
            have e1 := (Nat.pow_lt_pow_iff_right (by decide : 1 < 2)).mp h2
            have e2 := (Nat.pow_le_pow_iff_right (by decide : 1 < 2)).mp h3
            have : bitLength v - 1 = 8 * l - 1 := by omega
            exact hc (by rw [this]; exact h1)
        have := key.mp hlt
        omega
      · intro h
        have := key.mpr (by omega)
        omega

theorem fitsSigned_zero (l : Nat) : FitsSigned 0 l := by
  unfold FitsSigned
  rw [pow256_cast]
  have : 0 < 256 ^ l := Nat.pow_pos (by decide)
  have : (0 : Int) < ((256 ^ l : Nat) : Int) := Int.ofNat_lt.mpr this
  omega

/-- **The `MPInt` length rule is exactly the minimal two's-complement length**: `v` fits in
    `mpintLen v` bytes and in no shorter length. -/
theorem mpintLen_fits_minimal (v : Int) :
    FitsSigned v (mpintLen v) ∧ ∀ l, l < mpintLen v → ¬ FitsSigned v l := by
  rcases Int.lt_trichotomy v 0 with hv | hv | hv
  · -- negative
    have hne : v ≠ 0 := by omega
    have hbl := bitLength_pos hne
    unfold mpintLen
    simp only []
    by_cases hc : v = -((2 : Int) ^ (bitLength v - 1))
    · have hif : (if bitLength v % 8 = 0 ∧ v ≠ 0 ∧ v ≠ -((2 : Int) ^ (bitLength v - 1)) then 1 else 0) = 0 :=
        if_neg (fun h => h.2.2 hc)
      rw [hif]
      constructor
      · rw [fitsSigned_neg hv, if_pos hc]; omega
      · intro l hl
        rw [fitsSigned_neg hv, if_pos hc]; omega
    · by_cases h8 : bitLength v % 8 = 0
      · have hif : (if bitLength v % 8 = 0 ∧ v ≠ 0 ∧ v ≠ -((2 : Int) ^ (bitLength v - 1)) then 1 else 0) = 1 :=
          if_pos ⟨h8, hne, hc⟩
        rw [hif]
        constructor
        · rw [fitsSigned_neg hv, if_neg hc]; omega
        · intro l hl
          rw [fitsSigned_neg hv, if_neg hc]; omega
      · have hif : (if bitLength v % 8 = 0 ∧ v ≠ 0 ∧ v ≠ -((2 : Int) ^ (bitLength v - 1)) then 1 else 0) = 0 :=
          if_neg (fun h => h8 h.1)
        rw [hif]
        constructor
        · rw [fitsSigned_neg hv, if_neg hc]; omega
        · intro l hl
          rw [fitsSigned_neg hv, if_neg hc]; omega
  · subst hv
    refine ⟨fitsSigned_zero _, ?_⟩
    intro l hl
    simp [mpintLen, bitLength_zero] at hl
  · have hne : v ≠ 0 := by omega
    have hbl := bitLength_pos hne
    have hnp : v ≠ -((2 : Int) ^ (bitLength v - 1)) := by
      have : (0 : Int) < (2 : Int) ^ (bitLength v - 1) := Int.pow_pos (by decide)
      omega
    unfold mpintLen
    simp only [hne, hnp, ne_eq, not_false_eq_true, and_true]
    constructor
    · rw [fitsSigned_pos hv]; split <;> omega
    · intro l hl
      rw [fitsSigned_pos hv]
      split at hl <;> omega

/-! ### two's complement round trip -/

theorem fromBytesSigned_twosComp {v : Int} {l : Nat} (h : FitsSigned v l) :
    fromBytesSigned (twosComp v l) = v := by
  unfold fromBytesSigned twosComp
  unfold FitsSigned at h
  rw [pow256_cast] at h
  simp only [length_beBytes, beNat_beBytes]
  have hP : 0 < 256 ^ l := Nat.pow_pos (by decide)
  have hPi : (0 : Int) < ((256 ^ l : Nat) : Int) := Int.ofNat_lt.mpr hP
  rw [pow256_cast]
  generalize hPdef : 256 ^ l = P at *
  by_cases hv : 0 ≤ v
  · have e : v % (P : Int) = v := Int.emod_eq_of_lt hv (by omega)
    rw [e]
    have hvn : (v.toNat : Int) = v := Int.toNat_of_nonneg hv
    have hlt : v.toNat < P := by omega
    rw [Nat.mod_eq_of_lt hlt]
    have : ¬ (P ≤ 2 * v.toNat) := by omega
    simp [this, hvn]
  · have e : v % (P : Int) = v + P := by
      rw [← Int.add_emod_right v (P : Int)]
      exact Int.emod_eq_of_lt (by omega) (by omega)
    rw [e]
    have hvn : ((v + P).toNat : Int) = v + P := Int.toNat_of_nonneg (by omega)
    have hlt : (v + P).toNat < P := by omega
    rw [Nat.mod_eq_of_lt hlt]
    have : P ≤ 2 * (v + P).toNat := by omega
    simp [this, hvn]

theorem length_twosComp (v : Int) (l : Nat) : (twosComp v l).length = l := by
  simp [twosComp]

/-- `get_mpint` inverts `MPInt` and consumes exactly the encoder's output. -/
theorem getMPInt_enc {v : Int} {w : Bytes} (h : encMPInt? v = some w) (r : Bytes) :
    getMPInt (w ++ r) = some (v, r) := by
  unfold encMPInt? at h
  cases h1 : encUInt32? (mpintLen v) with
  | none => simp [h1] at h
  | some hdr =>
    cases h2 : toBytesSigned? v (mpintLen v) with
    | none => simp [h1, h2] at h
    | some body =>
      simp [h1, h2] at h
      subst h
      have hfit := (mpintLen_fits_minimal v).1
      have hbody : body = twosComp v (mpintLen v) := by
        unfold toBytesSigned? at h2
        split at h2
        · simp at h2; exact h2.symm
        · simp at h2
      have hlen : body.length = mpintLen v := by rw [hbody, length_twosComp]
      have hs : encString? body = some (hdr ++ body) := by
        unfold encString?; rw [hlen, h1]; rfl
      unfold getMPInt
      rw [getString_enc hs r]
      simp [hbody, fromBytesSigned_twosComp hfit]

/-- `MPInt(v)` only fails for absurd sizes (length field overflow: `|v| ≥ 2^(8·2^32 - 8)`). -/
theorem encMPInt?_isSome (v : Int) (h : mpintLen v < 256 ^ 4) : (encMPInt? v).isSome := by
  have hfit := (mpintLen_fits_minimal v).1
  simp [encMPInt?, encUInt32?, toBytes?, h, toBytesSigned?, hfit]

end AsyncsshModel.KexWire
