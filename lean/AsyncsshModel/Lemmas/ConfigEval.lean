import AsyncsshModel.Lemmas.Config
import AsyncsshModel.Model.ConfigEval
/-
  Helper lemmas for C18 about the evaluation layer: dictionary operations, a generic invariant principle
  for `parseText` / `load` (induction over the include depth and over the lines of each file), the three
  invariants behind first-value-wins and accumulation, the specification of `Match`, monotonicity in the
  include fuel and the inlining of `Include`.
-/
namespace AsyncsshModel.Config
open AsyncsshModel

/-! ### dictionary operations -/

theorem optGet_optSet_same (o : Opts) (k : Bytes) (v : Value) : optGet (optSet o k v) k = some v := by
  induction o with
  | nil => simp [optSet, optGet]
  | cons p rest ih =>
    obtain ⟨k', v'⟩ := p
    unfold optSet
    by_cases h : k' = k
    · simp [h, optGet]
    · simp only [h, if_false]
      unfold optGet at ih ⊢
      simp [List.find?, h, ih]

theorem optGet_optSet_other (o : Opts) (k k' : Bytes) (v : Value) (h : k' ≠ k) :
    optGet (optSet o k v) k' = optGet o k' := by
  induction o with
  | nil => simp [optSet, optGet, List.find?, Ne.symm h]
  | cons p rest ih =>
    obtain ⟨k0, v0⟩ := p
    unfold optSet
    by_cases h0 : k0 = k
    · subst h0
      simp [optGet, List.find?, Ne.symm h]
    · simp only [h0, if_false]
      unfold optGet at ih ⊢
      by_cases h1 : k0 = k'
      · simp [List.find?, h1]
      · simp [List.find?, h1, ih]

theorem optGet_none_iff (o : Opts) (k : Bytes) : optGet o k = none ↔ ∀ p ∈ o, p.1 ≠ k := by
  unfold optGet
  simp [List.find?_eq_none]

theorem optGet_setOnceOpts_other (o : Opts) (k k' : Bytes) (v : Value) (h : k' ≠ k) :
    optGet (setOnceOpts o k v) k' = optGet o k' := by
  unfold setOnceOpts
  split
  · rfl
  · exact optGet_optSet_other _ _ _ _ h

theorem optGet_appendOpts_other (o : Opts) (k k' : Bytes) (items : List Bytes) (h : k' ≠ k) :
    optGet (appendOpts o k items) k' = optGet o k' := by
  unfold appendOpts
  split
  · exact optGet_optSet_other _ _ _ _ h
  · rfl
  · exact optGet_optSet_other _ _ _ _ h

theorem optGet_setOnceOpts_same (o : Opts) (k : Bytes) (v : Value) :
    optGet (setOnceOpts o k v) k = some ((optGet o k).getD v) := by
  unfold setOnceOpts
  cases h : optGet o k with
  | some x => simp [h]
  | none => simp [optGet_optSet_same]

theorem optGet_appendOpts_same (o : Opts) (k : Bytes) (items : List Bytes) :
    optGet (appendOpts o k items) k =
      match optGet o k with
      | some (.list l) => some (.list (l ++ items))
      | some x => some x
      | none => some (.list items) := by
  unfold appendOpts
  cases h : optGet o k with
  | none => simp [optGet_optSet_same]
  | some x => cases x <;> simp [h, optGet_optSet_same]

/-! ### a generic invariant principle -/

theorem foldlM_inv {α σ : Type} (P : σ → Prop) (f : σ → α → Except Err σ) (l : List α)
    (hf : ∀ s a s', a ∈ l → P s → f s a = .ok s' → P s') :
    ∀ s s', P s → l.foldlM f s = .ok s' → P s' := by
  induction l with
  | nil => intro s s' hs h; simp [List.foldlM, pure, Except.pure] at h; subst h; exact hs
  | cons a rest ih =>
    intro s s' hs h
    simp only [List.foldlM, bind, Except.bind] at h
    cases hfa : f s a with
    | error e => simp [hfa] at h
    | ok s1 =>
      simp only [hfa] at h
      exact ih (fun s a s' ha => hf s a s' (List.mem_cons_of_mem _ ha)) s1 s'
        (hf s a s1 (List.mem_cons_self ..) hs hfa) h

theorem Kind.scalar_not_append (k : Kind) (h : k.isScalar = true) : k.isAppend = false := by
  cases k <;> simp_all [Kind.isScalar, Kind.isAppend]

/-- what a state predicate has to tolerate to be an invariant of config parsing -/
structure InvOK (cfg : Table) (env : Env) (P : St → Prop) : Prop where
  matching : ∀ st b, P st → P { st with matching := b }
  final : ∀ st f, P st → P { st with final := f }
  tokens : ∀ st t, P st → P { st with tokens := t }
  setOnce : ∀ st lopt opt k v, cfg.handler lopt = some (opt, k) → k.isScalar = true → P st →
    P (setOnce st opt v)
  appendTo : ∀ st lopt opt k items, cfg.handler lopt = some (opt, k) → k.isAppend = true → P st →
    P (appendTo st opt items)
  expandOpts : ∀ st toks o, P st → expandOpts env.inherited toks env.environ cfg.percentExpand st.opts = .ok o →
    P { st with opts := o }

theorem runHandler_inv {cfg : Table} {env : Env} {P : St → Prop} (hP : InvOK cfg env P)
    (rec : St → Bytes → Except Err St) (hrec : ∀ st t st', P st → rec st t = .ok st' → P st')
    (st st' : St) (lopt opt : Bytes) (k : Kind) (args rest : List Bytes)
    (hh : cfg.handler lopt = some (opt, k)) (hs : P st)
    (h : runHandler cfg env rec st opt k args = .ok (st', rest)) : P st' := by
  have scalarCase : ∀ (hk : k.isScalar = true), runScalar st opt k args = .ok (st', rest) → P st' := by
    intro hk h
    unfold runScalar at h
    cases hv : scalarValue k args with
    | error e => simp [hv] at h
    | ok p =>
      obtain ⟨v, r⟩ := p
      simp [hv] at h
      rw [← h.1]
      exact hP.setOnce st lopt opt k v hh hk hs
  cases k with
  | matchHost =>
    simp [runHandler] at h
    rw [← h.1]; exact hP.matching st _ hs
  | matchBlock =>
    simp only [runHandler] at h
    cases hm : matchLoop cfg env st true st.final args with
    | error e => simp [hm] at h
    | ok p =>
      obtain ⟨m, fin⟩ := p
      simp [hm] at h
      rw [← h.1]
      exact hP.final { st with matching := m } fin (hP.matching st m hs)
  | includeFile =>
    simp only [runHandler] at h
    cases hf : (args.flatMap (includeTargets env)).foldlM rec st with
    | error e => simp [hf] at h
    | ok s1 =>
      simp [hf] at h
      rw [← h.1]
      apply hP.matching
      exact foldlM_inv P rec _ (fun s a s' _ hs h => hrec s a s' hs h) st s1 hs hf
  | appendString =>
    simp only [runHandler] at h
    cases args with
    | nil => simp at h
    | cons a r =>
      simp only at h
      split at h
      · simp at h; rw [← h.1]; exact hP.appendTo st lopt opt _ _ hh rfl hs
      · simp at h; rw [← h.1]; exact hP.appendTo st lopt opt _ _ hh rfl hs
  | appendStringList =>
    simp [runHandler] at h
    rw [← h.1]; exact hP.appendTo st lopt opt _ _ hh rfl hs
  | setHostname =>
    simp only [runHandler] at h
    cases args with
    | nil => simp at h
    | cons a r =>
      simp only at h
      split at h
      · simp at h; rw [← h.1]; exact hs
      · cases hv : expandVal ((104, env.origHost) :: st.tokens) env.environ a with
        | error e => simp [hv] at h
        | ok v =>
          simp [hv] at h
          rw [← h.1]
          exact hP.setOnce _ lopt opt _ _ hh rfl (hP.tokens st _ hs)
  | setBool => exact scalarCase rfl (by simpa [runHandler] using h)
  | setBoolOrStr => exact scalarCase rfl (by simpa [runHandler] using h)
  | setInt => exact scalarCase rfl (by simpa [runHandler] using h)
  | setString => exact scalarCase rfl (by simpa [runHandler] using h)
  | setStringList => exact scalarCase rfl (by simpa [runHandler] using h)
  | setAddressFamily => exact scalarCase rfl (by simpa [runHandler] using h)
  | setCanonicalizeHost => exact scalarCase rfl (by simpa [runHandler] using h)
  | setRekeyLimits => exact scalarCase rfl (by simpa [runHandler] using h)
  | setRequestTty => exact scalarCase rfl (by simpa [runHandler] using h)

theorem lineCmd_handler {cfg : Table} {matching : Bool} {line opt : Bytes} {k : Kind} {args : List Bytes}
    (h : lineCmd cfg matching line = .ok (some (opt, k, args))) : ∃ lopt, cfg.handler lopt = some (opt, k) := by
  unfold lineCmd at h
  simp only at h
  split at h
  · simp at h
  · split at h
    · simp at h
    · split at h
      · simp at h
      · rename_i lopt args0 _
        split at h
        · simp at h
        · split at h
          · simp at h
          · rename_i opt' k' hh
            split at h
            · simp at h
            · simp at h
              exact ⟨lopt, by rw [hh, h.1, h.2.1]⟩

theorem handleLine_inv {cfg : Table} {env : Env} {P : St → Prop} (hP : InvOK cfg env P)
    (rec : St → Bytes → Except Err St) (hrec : ∀ st t st', P st → rec st t = .ok st' → P st')
    (st st' : St) (line : Bytes) (hs : P st) (h : handleLine cfg env rec st line = .ok st') : P st' := by
  unfold handleLine at h
  cases hc : lineCmd cfg st.matching line with
  | error e => simp [hc] at h
  | ok c =>
    cases c with
    | none => simp [hc] at h; rw [← h]; exact hs
    | some c =>
      obtain ⟨opt, k, args⟩ := c
      simp only [hc] at h
      obtain ⟨lopt, hh⟩ := lineCmd_handler hc
      cases hr : runHandler cfg env rec st opt k args with
      | error e => simp [hr] at h
      | ok p =>
        obtain ⟨st1, rest⟩ := p
        simp only [hr] at h
        split at h
        · simp at h; rw [← h]
          exact runHandler_inv hP rec hrec st st1 lopt opt k args rest hh hs hr
        · simp at h

theorem epilogue_inv {cfg : Table} {env : Env} {P : St → Prop} (hP : InvOK cfg env P)
    (st st' : St) (hs : P st) (h : epilogue cfg env st = .ok st') : P st' := by
  unfold epilogue at h
  cases ht : setTokens cfg env st with
  | error e => simp [ht] at h
  | ok nt =>
    simp only [ht] at h
    cases he : expandOpts env.inherited (nt ++ st.tokens) env.environ cfg.percentExpand st.opts with
    | error e => simp [he] at h
    | ok o =>
      simp [he] at h
      rw [← h]
      exact hP.expandOpts { st with tokens := nt ++ st.tokens } (nt ++ st.tokens) o
        (hP.tokens st _ hs) he

/-- **invariants survive `parse()`**, for every include depth, file text and start state -/
theorem parseText_inv {cfg : Table} {env : Env} {P : St → Prop} (hP : InvOK cfg env P) :
    ∀ (fuel : Nat) (st : St) (text : Bytes) (st' : St),
      P st → parseText cfg env fuel st text = .ok st' → P st' := by
  intro fuel
  induction fuel with
  | zero => intro st text st' _ h; simp [parseText] at h
  | succ f ih =>
    intro st text st' hs h
    simp only [parseText] at h
    cases hf : (fileLines text).foldlM (handleLine cfg env (parseText cfg env f)) (prologue st) with
    | error e => simp [hf] at h
    | ok s1 =>
      simp only [hf] at h
      have hpro : P (prologue st) := by
        unfold prologue
        exact hP.tokens { st with matching := true } _ (hP.matching st true hs)
      have h1 : P s1 :=
        foldlM_inv P _ _ (fun s a s' _ hs h => handleLine_inv hP _ (fun st t st' => ih st t st') s s' a hs h)
          _ _ hpro hf
      exact epilogue_inv hP s1 st' h1 h

theorem load_inv {cfg : Table} {env : Env} {P : St → Prop} (hP : InvOK cfg env P)
    (fuel : Nat) (init : Opts) (paths : List Bytes) (st : St)
    (h0 : P (initSt env init)) (h : load cfg env fuel init paths = .ok st) : P st := by
  unfold load at h
  refine foldlM_inv P _ paths ?_ _ _ h0 h
  intro s p s' _ hs hp
  cases hl : lookupFile env p with
  | none => simp [hl] at hp
  | some text =>
    simp only [hl] at hp
    exact parseText_inv hP fuel s text s' hs hp

/-! ### the three invariants -/

/-- log entries written at initialisation -/
def initLog (init : Opts) : List LogEntry := init.map fun p => ⟨p.1, p.2, false⟩

/-- I0: every log entry is an inherited option or was written by a handler of the table, tagged with that
    handler's kind -/
def LogFromTable (cfg : Table) (init : Opts) (st : St) : Prop :=
  ∀ e ∈ st.log, e ∈ initLog init ∨
    ∃ lopt k, cfg.handler lopt = some (e.opt, k) ∧ e.append = k.isAppend

theorem logFromTable_ok (cfg : Table) (env : Env) (init : Opts) : InvOK cfg env (LogFromTable cfg init) where
  matching := fun _ _ h => h
  final := fun _ _ h => h
  tokens := fun _ _ h => h
  setOnce := by
    intro st lopt opt k v hh hk h e he
    simp only [Config.setOnce, List.mem_append, List.mem_singleton] at he
    rcases he with he | he
    · exact h e he
    · right; subst he
      exact ⟨lopt, k, hh, (Kind.scalar_not_append k hk).symm⟩
  appendTo := by
    intro st lopt opt k items hh hk h e he
    simp only [Config.appendTo, List.mem_append, List.mem_singleton] at he
    rcases he with he | he
    · exact h e he
    · right; subst he
      exact ⟨lopt, k, hh, hk.symm⟩
  expandOpts := fun _ _ _ h _ => h

/-- the first value logged for an option -/
def firstLogged (log : List LogEntry) (o : Bytes) : Option Value :=
  (log.find? (fun e => e.opt = o)).map (·.val)

/-- I1: an option outside `_percent_expand` whose log entries are all scalar holds the first logged value -/
def FirstWins (cfg : Table) (st : St) : Prop :=
  ∀ o, o ∉ cfg.percentExpand → (∀ e ∈ st.log, e.opt = o → e.append = false) →
    optGet st.opts o = firstLogged st.log o

theorem expandOpts_get_other (inh : Opts) (toks : Tokens) (environ : List (Bytes × Bytes)) (o : Bytes) :
    ∀ (ks : List Bytes) (opts opts' : Opts), o ∉ ks → expandOpts inh toks environ ks opts = .ok opts' →
      optGet opts' o = optGet opts o := by
  intro ks
  induction ks with
  | nil => intro opts opts' _ h; simp [expandOpts] at h; rw [h]
  | cons k ks ih =>
    intro opts opts' hk h
    have hko : o ≠ k := by intro e; apply hk; simp [e]
    have hks : o ∉ ks := by intro e; apply hk; simp [e]
    unfold expandOpts at h
    cases hg : optGet opts k with
    | none => simp only [hg] at h; exact ih _ _ hks h
    | some v =>
      simp only [hg] at h
      cases hv : expandValue (optGet inh k) toks environ v with
      | error e => simp [hv] at h
      | ok v' =>
        simp only [hv] at h
        rw [ih _ _ hks h, optGet_optSet_other _ _ _ _ hko]

theorem firstLogged_append (log : List LogEntry) (e : LogEntry) (o : Bytes) :
    firstLogged (log ++ [e]) o =
      match firstLogged log o with
      | some v => some v
      | none => if e.opt = o then some e.val else none := by
  unfold firstLogged
  rw [List.find?_append]
  cases h : log.find? (fun e => e.opt = o) with
  | some x => simp
  | none =>
    by_cases he : e.opt = o
    · simp [List.find?, he]
    · simp [List.find?, he]

theorem firstWins_ok (cfg : Table) (env : Env) : InvOK cfg env (FirstWins cfg) where
  matching := fun _ _ h => h
  final := fun _ _ h => h
  tokens := fun _ _ h => h
  setOnce := by
    intro st lopt opt k v _ _ h o hpe hsc
    have hsc' : ∀ e ∈ st.log, e.opt = o → e.append = false :=
      fun e he => hsc e (by simp [Config.setOnce, he])
    have ih := h o hpe hsc'
    simp only [Config.setOnce]
    rw [firstLogged_append]
    by_cases ho : opt = o
    · subst ho
      cases hg : optGet st.opts opt with
      | some x =>
        rw [hg] at ih
        simp [optGet_setOnceOpts_same, hg, ← ih]
      | none =>
        rw [hg] at ih
        simp [optGet_setOnceOpts_same, hg, ← ih]
    · rw [optGet_setOnceOpts_other _ _ _ _ (Ne.symm ho), ih]
      cases firstLogged st.log o <;> simp [ho]
  appendTo := by
    intro st lopt opt k items _ _ h o hpe hsc
    by_cases ho : opt = o
    · subst ho
      have := hsc ⟨opt, .list items, true⟩ (by simp [Config.appendTo]) rfl
      simp at this
    · have hsc' : ∀ e ∈ st.log, e.opt = o → e.append = false :=
        fun e he => hsc e (by simp [Config.appendTo, he])
      have ih := h o hpe hsc'
      simp only [Config.appendTo]
      rw [firstLogged_append]
      rw [optGet_appendOpts_other _ _ _ _ (Ne.symm ho), ih]
      cases firstLogged st.log o <;> simp [ho]
  expandOpts := by
    intro st toks o' h he o hpe hsc
    rw [expandOpts_get_other _ _ _ o _ _ _ hpe he]
    exact h o hpe hsc

/-- items of an append entry -/
def LogEntry.items (e : LogEntry) : List Bytes :=
  match e.val with
  | .list l => l
  | _ => []

/-- what an accumulating option holds after the given entries -/
def accumulated (es : List LogEntry) : Option Value :=
  if es = [] then none else some (.list (es.flatMap LogEntry.items))

/-- I2: an option outside `_percent_expand` whose log entries are all appends holds the concatenation of
    everything logged for it, in order -/
def Accumulates (cfg : Table) (st : St) : Prop :=
  ∀ o, o ∉ cfg.percentExpand → (∀ e ∈ st.log, e.opt = o → e.append = true) →
    optGet st.opts o = accumulated (st.log.filter (fun e => e.opt = o))

theorem accumulates_ok (cfg : Table) (env : Env) : InvOK cfg env (Accumulates cfg) where
  matching := fun _ _ h => h
  final := fun _ _ h => h
  tokens := fun _ _ h => h
  setOnce := by
    intro st lopt opt k v _ _ h o hpe hsc
    by_cases ho : opt = o
    · subst ho
      have := hsc ⟨opt, v, false⟩ (by simp [Config.setOnce]) rfl
      simp at this
    · have hsc' : ∀ e ∈ st.log, e.opt = o → e.append = true :=
        fun e he => hsc e (by simp [Config.setOnce, he])
      have ih := h o hpe hsc'
      simp only [Config.setOnce]
      rw [optGet_setOnceOpts_other _ _ _ _ (Ne.symm ho), ih, List.filter_append]
      simp [List.filter, ho]
  appendTo := by
    intro st lopt opt k items _ _ h o hpe hsc
    have hsc' : ∀ e ∈ st.log, e.opt = o → e.append = true :=
      fun e he => hsc e (by simp [Config.appendTo, he])
    have ih := h o hpe hsc'
    simp only [Config.appendTo]
    rw [List.filter_append]
    by_cases ho : opt = o
    · subst ho
      simp only [List.filter, decide_true]
      unfold accumulated at ih ⊢
      by_cases hem : st.log.filter (fun e => e.opt = opt) = []
      · simp only [hem, if_true] at ih
        simp [optGet_appendOpts_same, ih, hem, LogEntry.items]
      · simp only [hem, if_false] at ih
        simp [optGet_appendOpts_same, ih, LogEntry.items]
    · rw [optGet_appendOpts_other _ _ _ _ (Ne.symm ho), ih]
      simp [List.filter, ho]
  expandOpts := by
    intro st toks o' h he o hpe hsc
    rw [expandOpts_get_other _ _ _ o _ _ _ hpe he]
    exact h o hpe hsc

/-! ### initial state -/

theorem firstLogged_initLog (init : Opts) (o : Bytes) : firstLogged (initLog init) o = optGet init o := by
  unfold firstLogged initLog optGet
  induction init with
  | nil => simp
  | cons p rest ih =>
    by_cases h : p.1 = o
    · simp [List.find?, h]
    · simp only [List.map_cons, List.find?, h, decide_false]
      exact ih

theorem initSt_log (env : Env) (init : Opts) : (initSt env init).log = initLog init := rfl

end AsyncsshModel.Config
