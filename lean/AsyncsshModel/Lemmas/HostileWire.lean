import AsyncsshModel.Model.HostileWire
/-
  Lemmas for the C10 field decoders: every getter consumes a prefix of what it was given, fails only with
  `incomplete`/`trailing`, and a length field larger than the remaining input is an error.
-/
namespace AsyncsshModel.Hostile
open AsyncsshModel

theorem getBytes_ok {n : Nat} {b x r : Bytes} (h : getBytes n b = .ok (x, r)) :
    n ≤ b.length ∧ x = b.take n ∧ r = b.drop n := by
  unfold getBytes at h
  split at h
  · simp only [Except.ok.injEq, Prod.mk.injEq] at h
    exact ⟨by assumption, h.1.symm, h.2.symm⟩
  · cases h

theorem getBytes_err {n : Nat} {b : Bytes} {e : DecErr} (h : getBytes n b = .error e) :
    b.length < n ∧ e = .incomplete := by
  unfold getBytes at h
  split at h
  · cases h
  · simp only [Except.error.injEq] at h
    exact ⟨by omega, h.symm⟩

theorem getBytes_split {n : Nat} {b x r : Bytes} (h : getBytes n b = .ok (x, r)) : b = x ++ r := by
  obtain ⟨_, rfl, rfl⟩ := getBytes_ok h
  simp

theorem getByte_split {b : Bytes} {x : Nat} {r : Bytes} (h : getByte b = .ok (x, r)) :
    ∃ c, b = c ++ r ∧ c.length = 1 := by
  unfold getByte at h
  cases hb : getBytes 1 b with
  | error e => simp [hb] at h
  | ok p =>
    obtain ⟨y, r'⟩ := p
    simp only [hb, Except.ok.injEq, Prod.mk.injEq] at h
    obtain ⟨hle, rfl, rfl⟩ := getBytes_ok hb
    refine ⟨b.take 1, ?_, ?_⟩
    · rw [← h.2]; exact (List.take_append_drop 1 b).symm
    · simp; omega

theorem getUInt_split {k : Nat} {b : Bytes} {x : Nat} {r : Bytes} (h : getUInt k b = .ok (x, r)) :
    ∃ c, b = c ++ r ∧ c.length = k := by
  unfold getUInt at h
  cases hb : getBytes k b with
  | error e => simp [hb] at h
  | ok p =>
    obtain ⟨y, r'⟩ := p
    simp only [hb, Except.ok.injEq, Prod.mk.injEq] at h
    obtain ⟨hle, rfl, rfl⟩ := getBytes_ok hb
    refine ⟨b.take k, ?_, ?_⟩
    · rw [← h.2]; simp
    · simp; omega

theorem getString_split {b s r : Bytes} (h : getString b = .ok (s, r)) :
    ∃ c, b = c ++ r ∧ c.length = 4 + s.length := by
  unfold getString at h
  cases hu : getUInt32 b with
  | error e => simp [hu] at h
  | ok p =>
    obtain ⟨n, r1⟩ := p
    simp only [hu] at h
    obtain ⟨c1, rfl, hc1⟩ := getUInt_split (k := 4) hu
    have hs := getBytes_split h
    refine ⟨c1 ++ s, by rw [hs]; simp, by simp [hc1]⟩

/-- a string whose length field exceeds what is left is an error, never an over-read -/
theorem getString_overlong (b : Bytes) (h4 : 4 ≤ b.length)
    (hlen : b.length - 4 < Wire.beNat (b.take 4)) : getString b = .error .incomplete := by
  unfold getString getUInt32 getUInt
  have : getBytes 4 b = .ok (b.take 4, b.drop 4) := by simp [getBytes, h4]
  simp only [this]
  unfold getBytes
  have : ¬ Wire.beNat (b.take 4) ≤ (b.drop 4).length := by simp; omega
  rw [if_neg this]

theorem getString_short (b : Bytes) (h4 : b.length < 4) : getString b = .error .incomplete := by
  unfold getString getUInt32 getUInt getBytes
  have : ¬ 4 ≤ b.length := by omega
  simp [this]

/-- exact characterisation of `get_string()` -/
theorem getString_spec (b : Bytes) :
    getString b =
      if b.length < 4 then .error .incomplete
      else if b.length - 4 < Wire.beNat (b.take 4) then .error .incomplete
      else .ok ((b.drop 4).take (Wire.beNat (b.take 4)), (b.drop 4).drop (Wire.beNat (b.take 4))) := by
  by_cases h4 : b.length < 4
  · simp [h4, getString_short b h4]
  · by_cases hl : b.length - 4 < Wire.beNat (b.take 4)
    · simp [h4, hl, getString_overlong b (by omega) hl]
    · simp only [h4, hl, if_false]
      unfold getString getUInt32 getUInt
      have : getBytes 4 b = .ok (b.take 4, b.drop 4) := by simp [getBytes]; omega
      simp only [this]
      unfold getBytes
      have : Wire.beNat (b.take 4) ≤ (b.drop 4).length := by simp; omega
      rw [if_pos this]

/-- every field decoder returns a suffix of its input -/
theorem decodeField_split {t : FieldTy} {b : Bytes} {v : Val} {r : Bytes}
    (h : decodeField t b = .ok (v, r)) : ∃ c, b = c ++ r := by
  cases t <;> simp only [decodeField] at h
  case byte =>
    cases hg : getByte b with
    | error e => simp [hg, Except.map] at h
    | ok p => obtain ⟨x, r'⟩ := p; simp [hg, Except.map] at h; obtain ⟨c, hc, _⟩ := getByte_split hg; exact ⟨c, by rw [← h.2]; exact hc⟩
  case bool =>
    cases hg : getBoolean b with
    | error e => simp [hg, Except.map] at h
    | ok p =>
      obtain ⟨x, r'⟩ := p
      simp [hg, Except.map] at h
      unfold getBoolean at hg
      cases hb : getByte b with
      | error e => simp [hb] at hg
      | ok q =>
        obtain ⟨y, r''⟩ := q
        simp [hb] at hg
        obtain ⟨c, hc, _⟩ := getByte_split hb
        exact ⟨c, by rw [← h.2, ← hg.2]; exact hc⟩
  case u16 =>
    cases hg : getUInt16 b with
    | error e => simp [hg, Except.map] at h
    | ok p => obtain ⟨x, r'⟩ := p; simp [hg, Except.map] at h; obtain ⟨c, hc, _⟩ := getUInt_split (k := 2) hg; exact ⟨c, by rw [← h.2]; exact hc⟩
  case u32 =>
    cases hg : getUInt32 b with
    | error e => simp [hg, Except.map] at h
    | ok p => obtain ⟨x, r'⟩ := p; simp [hg, Except.map] at h; obtain ⟨c, hc, _⟩ := getUInt_split (k := 4) hg; exact ⟨c, by rw [← h.2]; exact hc⟩
  case u64 =>
    cases hg : getUInt64 b with
    | error e => simp [hg, Except.map] at h
    | ok p => obtain ⟨x, r'⟩ := p; simp [hg, Except.map] at h; obtain ⟨c, hc, _⟩ := getUInt_split (k := 8) hg; exact ⟨c, by rw [← h.2]; exact hc⟩
  case str =>
    cases hg : getString b with
    | error e => simp [hg, Except.map] at h
    | ok p => obtain ⟨x, r'⟩ := p; simp [hg, Except.map] at h; obtain ⟨c, hc, _⟩ := getString_split hg; exact ⟨c, by rw [← h.2]; exact hc⟩
  case mpint =>
    cases hg : getMPInt b with
    | error e => simp [hg, Except.map] at h
    | ok p =>
      obtain ⟨x, r'⟩ := p
      simp [hg, Except.map] at h
      unfold getMPInt at hg
      cases hs : getString b with
      | error e => simp [hs] at hg
      | ok q =>
        obtain ⟨y, r''⟩ := q
        simp [hs] at hg
        obtain ⟨c, hc, _⟩ := getString_split hs
        exact ⟨c, by rw [← h.2, ← hg.2]; exact hc⟩
  case names =>
    cases hg : getNameList b with
    | error e => simp [hg, Except.map] at h
    | ok p =>
      obtain ⟨x, r'⟩ := p
      simp [hg, Except.map] at h
      unfold getNameList at hg
      cases hs : getString b with
      | error e => simp [hs] at hg
      | ok q =>
        obtain ⟨y, r''⟩ := q
        simp [hs] at hg
        obtain ⟨c, hc, _⟩ := getString_split hs
        exact ⟨c, by rw [← h.2, ← hg.2]; exact hc⟩
  case rest =>
    simp at h
    exact ⟨b, by rw [h.2]; simp⟩
  case fin =>
    unfold checkEnd at h
    split at h
    · simp [Except.map] at h
      exact ⟨[], by rw [← h.2]; simp⟩
    · simp [Except.map] at h

/-- a whole schema consumes a prefix of the payload: `payload = consumed ++ unread` -/
theorem decodeFields_split : ∀ (ts : List FieldTy) (b : Bytes) (vs : List Val) (r : Bytes),
    decodeFields ts b = .ok (vs, r) → ∃ c, b = c ++ r
  | [], b, vs, r, h => by
    simp [decodeFields] at h
    exact ⟨[], by rw [h.2]; simp⟩
  | t :: ts, b, vs, r, h => by
    unfold decodeFields at h
    cases hf : decodeField t b with
    | error e => simp [hf] at h
    | ok p =>
      obtain ⟨v, r1⟩ := p
      simp only [hf] at h
      cases hr : decodeFields ts r1 with
      | error e => simp [hr] at h
      | ok q =>
        obtain ⟨vs', r2⟩ := q
        simp only [hr, Except.ok.injEq, Prod.mk.injEq] at h
        obtain ⟨c1, hc1⟩ := decodeField_split hf
        obtain ⟨c2, hc2⟩ := decodeFields_split ts r1 vs' r2 hr
        exact ⟨c1 ++ c2, by rw [hc1, hc2, ← h.2]; simp⟩

theorem decodeFields_length_le {ts : List FieldTy} {b : Bytes} {vs : List Val} {r : Bytes}
    (h : decodeFields ts b = .ok (vs, r)) : r.length ≤ b.length := by
  obtain ⟨c, rfl⟩ := decodeFields_split ts b vs r h
  simp

/-- the work done on a payload is bounded by the schema, not by the payload -/
theorem decodeSteps_le : ∀ (ts : List FieldTy) (b : Bytes), decodeSteps ts b ≤ ts.length
  | [], _ => by simp [decodeSteps]
  | t :: ts, b => by
    unfold decodeSteps
    split
    · simp
    · rename_i v r _
      have := decodeSteps_le ts r
      simp; omega

/-- one value per schema entry on success -/
theorem decodeFields_count : ∀ (ts : List FieldTy) (b : Bytes) (vs : List Val) (r : Bytes),
    decodeFields ts b = .ok (vs, r) → vs.length = ts.length
  | [], b, vs, r, h => by simp [decodeFields] at h; simp [← h.1]
  | t :: ts, b, vs, r, h => by
    unfold decodeFields at h
    cases hf : decodeField t b with
    | error e => simp [hf] at h
    | ok p =>
      obtain ⟨v, r1⟩ := p
      simp only [hf] at h
      cases hr : decodeFields ts r1 with
      | error e => simp [hr] at h
      | ok q =>
        obtain ⟨vs', r2⟩ := q
        simp only [hr, Except.ok.injEq, Prod.mk.injEq] at h
        have := decodeFields_count ts r1 vs' r2 hr
        rw [← h.1]; simp [this]

end AsyncsshModel.Hostile
