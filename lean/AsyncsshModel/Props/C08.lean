import AsyncsshModel.Lemmas.ChannelReach
import AsyncsshModel.Lemmas.ChannelAcct
import AsyncsshModel.Lemmas.ChannelDecode
import AsyncsshModel.Lemmas.ChannelVariants
import AsyncsshModel.Gen.C08
/-
  C08 — Flow control is honoured both ways and never deadlocks.

  Same model as C07 (`Model/Channel.lean`, `Model/ChannelSys.lean`).  The sender-side and receiver-side clauses
  are proved for ONE endpoint against an ARBITRARY peer (`runChan`: any sequence of application calls and incoming
  messages, hostile ones included); the liveness clauses for the composition of two honest endpoints, over every
  event sequence.  The integer expressions of the code are regenerated into `Gen/C08.lean` on every run and the
  model's arithmetic is proved equal to them (`model_*_eq_gen`).

  Two clauses of the property were FALSE of the code before the fixes de5c08f (F2) and 53cd2ff (F3); the model now
  follows the fixed code, the full clauses are proved, and the old behaviour is kept as witness theorems about the
  old functions (`flushDataOld` / `stepOld`):
    * F2  `sender_spins_zero_pktsize_old`   — a peer advertising maximum packet size 0 made `_flush_send_buf` spin
    * F3  `receiver_window_exceeded_while_paused_old` — while reading was paused the advertised window was not enforced

  One more clause was FALSE when BOTH applications close (fix ae15f0e, found by the life-cycle check C09): data
  dropped after the local `close()` and the buffer it discards used up the peer's window for good
  (`mutual_close_deadlock_preCredit`); now they are credited (`window_in_step_until_close_sent`,
  `dropped_data_is_credited`, `discarded_data_is_credited`, tie `dropped_data_credited_in_code`).

  Three more (audit findings D2, D3, D4; repairs e7dbee0, afe8b9e, 9f86e20), outside the byte-level endpoint the
  theorems above are about — in `SSHServerChannel`, in the text layer and in `SSHTunTapChannel`
  (`Model/ChannelVariants.lean`, `Model/ChannelDecode.lean`); the model follows the repaired code, the behaviour
  before the repairs is kept in the `…PreFix` definitions with witness theorems:
    * D2  `second_session_request_ended_pause_preFix` — a second `shell` request resumed reading behind the
          application's back (`pause_honoured_prop` is the clause it broke)
    * D3  `honest_eof_after_close_midchar_fatal_preFix` — the honest peer's EOF after a local `close()` in the middle
          of a character raised `ProtocolError` (`no_protocol_error_after_local_close`)
    * D4  `tun_window_leak_preFix`, `tun_stalls_after_one_packet_preFix` — every layer-3 tunnel packet leaked 4 bytes
          of window (`tun_receiver_accounting`)
-/
namespace AsyncsshModel.Channel
open AsyncsshModel

/-! ### sender side -/

/-- **The sender never exceeds the peer's window** — for every history of one endpoint, whatever the peer sends:
    bytes put on the wire + current send window = initial window + Σ WINDOW_ADJUST received. -/
theorem sender_respects_window (c0 c : Chan) (h : Hist) (evs : List Ev) (hw : WF c0)
    (hr : runChan c0 {} evs = some (c, h)) :
    h.sentBytes + c.sendWindow = c0.sendWindow + h.adjIn ∧ h.sentBytes ≤ c0.sendWindow + h.adjIn := by
  have := (acct_run evs c0 c0 c {} h (acct_init c0 hw) hr).send
  exact ⟨this, by omega⟩

/-- **Every DATA packet fits**: in any step, each DATA / EXTENDED_DATA packet emitted is at most the peer's maximum
    packet size, and all packets of the step together fit the window the peer had granted when they were sent. -/
theorem data_packets_bounded (c c' : Chan) (ev : Ev) (ms : List Msg) (os : List Out) (hw : WF c)
    (h : step c ev = .ok (c', ms, os)) :
    (∀ dt bs, Msg.data dt bs ∈ ms → bs.length ≤ c.sendPktsize) ∧
    bufBytes (dataOf ms) ≤ c.sendWindow + evAdjust ev := by
  have ss := step_sum c c' ev ms os hw h
  refine ⟨ss.pktBound, ?_⟩
  have := ss.sendWindow
  omega

/-- **Sender progress** (unconditional since fix de5c08f): for EVERY state — any window, any maximum packet size,
    0 included — the send loop terminates within `flushFuel` iterations and leaves the buffer empty, the window
    exhausted, or (packet size 0) everything in the buffer untouched. -/
theorem sender_progress (c : Chan) (hw : WFs c) :
    ∃ c' ms, flushSend c = some (c', ms) ∧ (c'.sendBuf = [] ∨ c'.sendWindow = 0 ∨ c'.sendPktsize = 0) := by
  obtain ⟨⟨c', ms⟩, hr⟩ := flushSend_some c
  exact ⟨c', ms, hr, (flushSend_spec c c' ms hw hr).exit⟩

/-- no event makes an endpoint spin, whatever the peer advertised -/
theorem no_spin (c : Chan) (ev : Ev) : step c ev ≠ .error .spin :=
  step_not_spin c ev

/-- the loop leaves exactly when the generated test `if pktsize <= 0: break` says so, and the translator found
    that test in the code -/
theorem model_break_eq_gen (w p : Nat) : pktSize w p = 0 ↔ Gen.C08.breakCond (pktSize w p) := by
  unfold Gen.C08.breakCond; omega

theorem send_loop_breaks_on_zero : Gen.C08.loopBreaksOnZero = true := by decide

/-- with maximum packet size 0 a write is accepted, nothing is sent, the data stays buffered -/
theorem zero_pktsize_sends_nothing :
    step (Chan.opened 100 [] [1] true 10 0 .no) (.write none [1]) =
      .ok ({ Chan.opened 100 [] [1] true 10 0 .no with sendBuf := [([1], none)] }, [], []) := by
  rfl

/-- **F2 — witness for the code BEFORE fix de5c08f** (`stepOld` / `flushDataOld`: no `if pktsize <= 0: break`): with
    the peer's maximum packet size 0 (accepted by `_process_channel_open` / `_process_channel_open_confirmation`), a
    non-zero window and data to send, the loop `while self._send_buf and self._send_window` never exited — no amount
    of fuel suffices, every iteration emits an empty DATA packet and leaves the state unchanged. -/
theorem sender_spins_zero_pktsize_old (c : Chan) (dt : DType) (bs : Bytes)
    (hp : c.sendPktsize = 0) (hwin : c.sendWindow ≠ 0) (hs : c.sendState = .opn) (hsb : c.sendBuf = [])
    (ht : typeOk c.writeTypes dt = true) (hne : bs ≠ []) :
    stepOld c (.write dt bs) = .error .spin ∧
    (∀ fuel, flushDataOld fuel { c with sendBuf := c.sendBuf ++ [(bs, dt)] } = none) := by
  have hspin : ∀ fuel, flushDataOld fuel { c with sendBuf := c.sendBuf ++ [(bs, dt)] } = none := by
    intro fuel
    exact flushDataOld_spins fuel _ bs dt [] (by simp [hsb]) hne hwin hp
  refine ⟨?_, hspin⟩
  have hne' : bs.isEmpty = false := by simpa using hne
  simp only [stepOld]
  rw [if_neg (by simp [hs]), if_neg (by simp [ht]), if_neg (by simp [hne'])]
  unfold flushSendOld
  rw [hspin]
  rfl

/-- one iteration of the old spinning loop: an empty DATA packet, nothing consumed, window unchanged -/
theorem spin_iteration (buf : Bytes) (dt : DType) (rest : Buf) (w : Nat) (h : buf ≠ []) :
    splitHead (pktSize w 0) buf dt rest = ([], (buf, dt) :: rest) := by
  have : pktSize w 0 = 0 := by unfold pktSize; omega
  rw [this]; exact splitHead_zero buf dt rest h

/-- the connection layer hands ANY maximum packet size to the channel unless both zero checks are active (and
    placed after the dropbear adjustment) — upstream leaves them out on purpose for interoperability, which is
    harmless now that the send loop breaks on a zero packet size -/
theorem pktsize_positive_if_checked (p : Nat) (h1 : Gen.C08.zeroPktsizeRejectedOpen = true)
    (h2 : Gen.C08.zeroPktsizeRejectedConfirm = true) (ha : Gen.C08.admitsPktsize p = true) : 0 < p := by
  unfold Gen.C08.admitsPktsize at ha
  simpa [h1, h2] using ha

theorem zero_pktsize_admitted_iff :
    Gen.C08.admitsPktsize 0 = true ↔
      ¬ (Gen.C08.zeroPktsizeRejectedOpen = true ∧ Gen.C08.zeroPktsizeRejectedConfirm = true) := by
  unfold Gen.C08.admitsPktsize
  generalize Gen.C08.zeroPktsizeRejectedOpen = a
  generalize Gen.C08.zeroPktsizeRejectedConfirm = b
  cases a <;> cases b <;> simp

/-! ### receiver side -/

/-- **Receive-window accounting**, for every history of one endpoint against any peer: window + bytes delivered
    to the session + bytes dropped after the local `close()` or discarded by it (`h.dropped`: since fix ae15f0e their
    window is given back by a WINDOW_ADJUST of their own, and `_recv_window` was never charged for them)
    ≥ initial window + Σ WINDOW_ADJUST sent, with equality while the channel may still send: every WINDOW_ADJUST
    gives back bytes the peer had spent, never more. -/
theorem receiver_accounting (c0 c : Chan) (h : Hist) (evs : List Ev) (hw : WF c0)
    (hr : runChan c0 {} evs = some (c, h)) :
    c.recvWindow + bufBytes (dataOuts h.dl) + h.dropped ≥ c0.recvWindow + h.adjOut ∧
    (c.sendChanOpen = true →
      c.recvWindow + bufBytes (dataOuts h.dl) + h.dropped = c0.recvWindow + h.adjOut) :=
  let a := acct_run evs c0 c0 c {} h (acct_init c0 hw) hr
  ⟨a.recvGe, a.recvEq⟩

/-- **The receiver enforces its window** (unconditional since fix 53cd2ff, paused or not): a DATA packet is
    accepted only if, together with everything accepted so far — delivered to the session, still buffered, or
    dropped / discarded because the application closed — it fits what was advertised (initial window + Σ WINDOW_ADJUST sent); anything larger is
    `ProtocolError('Window exceeded')`. -/
theorem receiver_enforces_window (c0 c : Chan) (h : Hist) (evs : List Ev) (hw : WF c0)
    (hr : runChan c0 {} evs = some (c, h)) (hopen : c.sendChanOpen = true) (dt : DType) (bs : Bytes) :
    (((bufBytes (dataOuts h.dl) + h.dropped + bufBytes c.recvBuf + bs.length : Nat) : Int) > c0.recvWindow + h.adjOut →
      c.recvState = .opn → typeOk c.readTypes dt = true → step c (.recv (.data dt bs)) = .error .windowExceeded) ∧
    (∀ r, step c (.recv (.data dt bs)) = .ok r →
      ((bufBytes (dataOuts h.dl) + h.dropped + bufBytes c.recvBuf + bs.length : Nat) : Int) ≤
        c0.recvWindow + h.adjOut) := by
  have heq := (receiver_accounting c0 c h evs hw hr).2 hopen
  refine ⟨?_, ?_⟩
  · intro hgt hs ht
    have : (bs.length : Int) > c.recvWindow - bufBytes c.recvBuf := by push_cast at hgt; omega
    simp [step, recvMsg, hs, ht, this]
  · intro r hok
    obtain ⟨c', ms, os⟩ := r
    obtain ⟨_, _, hlen, _⟩ := step_recv_data_ok hok
    push_cast; omega

/-- the model's check is the generated one; `_recv_buf_len` is what the model computes as `bufBytes recvBuf` -/
theorem window_check_is_the_generated_one (c : Chan) (bs : Bytes) :
    ((bs.length : Int) > c.recvWindow - bufBytes c.recvBuf) ↔
      Gen.C08.windowExceededCond bs.length c.recvWindow (bufBytes c.recvBuf) := by
  unfold Gen.C08.windowExceededCond; rfl

/-- the counter `_recv_buf_len` is incremented where data is buffered, decremented where it is popped and reset
    where the buffer is discarded — nowhere else: it equals `bufBytes recvBuf` -/
theorem recv_buf_len_sites : Gen.C08.recvBufLenSites =
    ["__init__: self._recv_buf_len = 0", "_accept_data: self._recv_buf_len += len(data)",
     "_discard_recv: self._recv_buf_len = 0", "_flush_recv_buf: self._recv_buf_len -= len(data)"] := by decide

def f3Chan : Chan := Chan.opened 100 [] [1] true 1000 1000 .no
def f3Data : Bytes := List.replicate 96 0x41
def f3Run : List Ev :=
  [.pause, .recv (.data none f3Data), .recv (.data none f3Data), .recv (.data none f3Data),
   .recv (.data none f3Data), .recv (.data none f3Data)]

/-- **F3 — witness for the code BEFORE fix 53cd2ff** (`runChanOld`: the check was `datalen > self._recv_window`): the
    window (100 bytes, never replenished: no WINDOW_ADJUST was sent) is decremented at delivery, not at acceptance,
    so while reading was paused a peer that ignored it got 480 bytes accepted and buffered without
    `ProtocolError('Window exceeded')`. -/
theorem receiver_window_exceeded_while_paused_old :
    ∃ c h, runChanOld f3Chan {} f3Run = some (c, h) ∧ h.adjOut = 0 ∧ f3Chan.initWindow = 100 ∧
      bufBytes c.recvBuf = 480 ∧ c.recvState = .opn := by
  refine ⟨_, _, rfl, ?_⟩
  decide +kernel

/-- now the second packet is refused: the run ends with `ProtocolError('Window exceeded')` -/
theorem receiver_window_enforced_while_paused :
    runChan f3Chan {} f3Run = none ∧
    step { f3Chan with recvPaused := .yes, recvBuf := [(f3Data, none)] } (.recv (.data none f3Data)) =
      .error .windowExceeded := by
  constructor <;> rfl

theorem decrement_site_is_delivery : Gen.C08.recvWindowDecrementedIn = ["_deliver_data"] := by decide

/-- **Replenish rule**: delivering `d` bytes with window `w` left and initial window `init`: iff `w - d` is below
    half of `init` (the generated test), a WINDOW_ADJUST of `init - (w - d)` is sent (the generated expression) and
    the window is `init` again; otherwise the window is `w - d` and nothing is sent. -/
theorem replenish_rule (c : Chan) (data : Bytes) (dt : DType) (hopen : c.sendChanOpen = true) :
    let w : Int := Gen.C08.recvWindowAfter c.recvWindow data.length
    (Gen.C08.replenishCond w c.initWindow →
      (deliverData c data dt).2.1 = [.adjust (Gen.C08.adjustExpr c.initWindow w).toNat] ∧
      0 < Gen.C08.adjustExpr c.initWindow w ∧
      (deliverData c data dt).1.recvWindow = Gen.C08.recvWindowReset c.initWindow w) ∧
    (¬ Gen.C08.replenishCond w c.initWindow →
      (deliverData c data dt).2.1 = [] ∧ (deliverData c data dt).1.recvWindow = w) := by
  simp only [Gen.C08.recvWindowAfter, Gen.C08.replenishCond, Gen.C08.adjustExpr, Gen.C08.recvWindowReset]
  refine ⟨?_, ?_⟩
  · intro h
    have hn : needAdjust (c.recvWindow - data.length) c.initWindow = true := by
      simp only [needAdjust, decide_eq_true_eq]; omega
    simp only [deliverData, hn, if_true, sendPkt, hopen]
    refine ⟨?_, ?_, ?_⟩ <;> first | trivial | rfl | omega
  · intro h
    have hn : needAdjust (c.recvWindow - data.length) c.initWindow = false := by
      simp only [needAdjust, decide_eq_false_iff_not]; omega
    simp only [deliverData, hn]
    refine ⟨?_, ?_⟩ <;> first | trivial | rfl

/-! ### two honest endpoints: no protocol error, no deadlock -/

/-- **Honest peers never trip each other's checks**: in every reachable state of two endpoints with compatible
    datatypes (ANY windows and maximum packet sizes), EVERY event succeeds — no delivery raises
    `ProtocolError` ("Window exceeded", "Channel not open", "Invalid extended data type"), no send loop spins. -/
theorem honest_no_protocol_error (ca cb : SideCfg) (hc : Compatible ca cb) (evs : List Event) (s : Sys)
    (h : (Sys.init ca cb).run evs = .ok s) (ev : Event) : ∃ s', s.step ev = .ok s' :=
  let g := good_run evs _ s (good_init ca cb hc) h
  no_fatal s g.inv g.tinv ev

/-- **No deadlock**: in every reachable state with undelivered data (in the send buffer, in flight, or in the
    receive buffer), a reader that is reading, a non-zero advertised window and a non-zero maximum packet size
    (a receiver advertising 0 forbids all data: that is its configuration, not a deadlock), some message is in
    flight in one of the two directions: a delivery step is enabled (it succeeds by `honest_no_protocol_error`). -/
theorem no_deadlock_prop (ca cb : SideCfg) (evs : List Event) (s : Sys) (h : (Sys.init ca cb).run evs = .ok s)
    (x : Side) (hu : 0 < undelivered s x) (hr : Reading s x.other) (hinit : 0 < (s.ep x.other).initWindow)
    (hp : 0 < (s.ep x).sendPktsize) :
    s.link x.other ≠ [] ∨ s.link x ≠ [] :=
  no_deadlock s x (reachable_inv ca cb evs s h) hu hr hinit hp

/-- **Every non-application step makes progress**: each delivery strictly decreases the potential `sysPot`
    (4·bytes + 3·entries of the send buffers, bytes + 2·entries of the receive buffers, bytes + 3 per DATA message
    and 1 per other message in flight, 2 per send stage not yet reached). -/
theorem delivery_decreases_measure (ca cb : SideCfg) (evs : List Event) (s s' : Sys)
    (h : (Sys.init ca cb).run evs = .ok s) (z : Side) (m : Msg) (rest : List Msg) (hl : s.link z = m :: rest)
    (hs : s.step (.deliver z) = .ok s') : sysPot s' < sysPot s :=
  deliver_decreases s s' z m rest (reachable_inv ca cb evs s h) hl hs

/-- **Every written byte is eventually delivered**: from every reachable state, if the receiving application
    keeps reading (not paused, not about to pause, not closed) and advertised a non-zero window and maximum
    packet size, delivering the
    messages in flight — the only steps needed, each enabled and each decreasing the measure, so in ANY fair
    order — leads to a state where everything written so far has been handed to it. -/
theorem every_byte_eventually_delivered (ca cb : SideCfg) (hc : Compatible ca cb) (evs : List Event) (s : Sys)
    (h : (Sys.init ca cb).run evs = .ok s) (x : Side) (hr : Reading s x.other)
    (hinit : 0 < (s.ep x.other).initWindow) (hp : 0 < (s.ep x).sendPktsize) :
    ∃ ds s', (∀ e ∈ ds, ∃ z, e = Event.deliver z) ∧ s.run ds = .ok s' ∧
      tag (dataOuts (s'.hist x.other).dl) = tag (s'.hist x).wr :=
  let g := good_run evs _ s (good_init ca cb hc) h
  all_data_eventually_delivered (sysPot s) s x (Nat.le_refl _) g.inv g.tinv hr hinit hp

/-! ### data dropped after `close()` and data discarded by it are credited (fix ae15f0e) -/

/-- **The sender's window never runs ahead of the receiver's, and stays exactly in step until the receiver's CLOSE
    is out** — two honest endpoints, every reachable state, each direction `x → x.other`: DATA in flight + the
    sender's send window + bytes waiting in the receive buffer + WINDOW_ADJUSTs in flight back to the sender
    ≤ the receiver's `_recv_window`, with EQUALITY as long as the receiver has not sent CLOSE — since fix ae15f0e
    also after its application called `close()`: what it drops or discards from then on is given back as
    WINDOW_ADJUST at once, so a peer that is closing too can finish sending.  (A WINDOW_ADJUST only ever gives back
    what the sender had spent: the left-hand side never exceeds the receiver's window.) -/
theorem window_in_step_until_close_sent (ca cb : SideCfg) (evs : List Event) (s : Sys)
    (h : (Sys.init ca cb).run evs = .ok s) (x : Side) :
    ((bufBytes (dataOf (s.link x.other)) + (s.ep x).sendWindow + bufBytes (s.ep x.other).recvBuf +
        adjustSum (s.link x) : Nat) : Int) ≤ (s.ep x.other).recvWindow ∧
    ((s.ep x.other).sendChanOpen = true →
      ((bufBytes (dataOf (s.link x.other)) + (s.ep x).sendWindow + bufBytes (s.ep x.other).recvBuf +
        adjustSum (s.link x) : Nat) : Int) = (s.ep x.other).recvWindow) :=
  let d := (reachable_inv ca cb evs s h).dir x
  ⟨d.acct, d.acctEq⟩

/-- what `_accept_data` does with data that arrives after the local `close()`: nothing is kept, `_recv_window` is
    untouched, and a WINDOW_ADJUST of exactly its length goes out — unless the own CLOSE has been sent already -/
theorem dropped_data_is_credited (c : Chan) (dt : DType) (bs : Bytes) (hne : bs ≠ [])
    (hl : c.sendState = .closePending ∨ c.sendState = .closed) :
    acceptData c bs dt = (c, if c.sendChanOpen then [.adjust bs.length] else [], []) := by
  have hne' : bs.isEmpty = false := by simpa using hne
  unfold acceptData sendPkt
  simp [hne', hl]

/-- what `_discard_recv` gives back: the bytes of the buffer it throws away, `_recv_window` untouched -/
theorem discarded_data_is_credited (c : Chan) :
    (discardRecv c).2.1 =
      (if bufBytes c.recvBuf ≠ 0 then (if c.sendChanOpen then [.adjust (bufBytes c.recvBuf)] else []) else []) ∧
    (discardRecv c).1.recvWindow = c.recvWindow ∧ (discardRecv c).1.recvBuf = [] := by
  refine ⟨?_, (discardRecv_spec c).recvWindow, (discardRecv_spec c).recvBuf⟩
  rw [discardRecv_msgs]; rfl

/-- **Tie to the code**: both credits are in `_accept_data` / `_discard_recv`, as the translator finds them -/
theorem dropped_data_credited_in_code :
    Gen.C08.dropCreditsWindow = true ∧ Gen.C08.discardCreditsWindow = true := by decide

/-- both ends have 8 bytes to send against windows of 4, both applications call `close()` before reading
    anything, then everything in flight is delivered -/
def mutualCloseCfg : SideCfg × SideCfg :=
  ({ window := 4, pktsize := 32, readTypes := [1], writeTypes := [] },
   { window := 4, pktsize := 32, readTypes := [], writeTypes := [1] })

def mutualCloseRun : List Event :=
  [.app .a (.write none [1, 2, 3, 4, 5, 6, 7, 8]), .app .b (.write none [11, 12, 13, 14, 15, 16, 17, 18]),
   .app .a .close, .app .b .close,
   .deliver .a, .deliver .b, .deliver .a, .deliver .b, .deliver .a, .deliver .a, .deliver .b, .deliver .b]

/-- **Witness for the code BEFORE fix ae15f0e** (`Sys.runPreCredit`): each side drops the 4 bytes it receives
    without giving their window back; nothing is in flight any more, both send windows are 0, both still have 4
    bytes and their CLOSE to send: neither channel is ever closed (`wait_closed()` waits for ever on both ends). -/
theorem mutual_close_deadlock_preCredit :
    ∃ s, (Sys.init mutualCloseCfg.1 mutualCloseCfg.2).runPreCredit mutualCloseRun = .ok s ∧
      s.link .a = [] ∧ s.link .b = [] ∧
      (s.ep .a).sendState = .closePending ∧ (s.ep .a).sendWindow = 0 ∧ (s.ep .a).sendBuf = [([5, 6, 7, 8], none)] ∧
      (s.ep .b).sendState = .closePending ∧ (s.ep .b).sendWindow = 0 ∧
      (s.ep .b).sendBuf = [([15, 16, 17, 18], none)] := by
  refine ⟨_, rfl, ?_⟩
  decide +kernel

/-- the same run on the code as it is: the dropped bytes are credited, both sides finish sending and close -/
theorem mutual_close_completes :
    ∃ s, (Sys.init mutualCloseCfg.1 mutualCloseCfg.2).run mutualCloseRun = .ok s ∧
      s.link .a = [] ∧ s.link .b = [] ∧
      (s.ep .a).sendState = .closed ∧ (s.ep .a).recvState = .closed ∧
      (s.ep .b).sendState = .closed ∧ (s.ep .b).recvState = .closed := by
  refine ⟨_, rfl, ?_⟩
  decide +kernel

/-! ### the reader's pause is honoured (D2) -/

/-- **The pause is honoured**: while the application has reading paused, no packet of any kind from the peer and
    no application call other than `resume_reading()` (or the `_start_reading` task of a channel still starting)
    makes the endpoint call `data_received`; and reading stays paused (unless the application closes). -/
theorem pause_honoured_prop (c c' : Chan) (ev : Ev) (ms : List Msg) (os : List Out) (hw : WF c)
    (hp : c.recvPaused ≠ .no) (h1 : ev ≠ .resume) (h2 : ev ≠ .startReading) (h : step c ev = .ok (c', ms, os)) :
    dataOuts os = [] ∧ (ev ≠ .close → c'.recvPaused ≠ .no) :=
  pause_honoured hw hp h1 h2 h

/-- **Tie to the code** (repair e7dbee0): the only thing outside the events of the model that called
    `resume_reading()` — a `shell` / `exec` / `subsystem` request answered with success, `_report_response` — can
    happen once per channel: `_start_session` refuses the request once a session was started -/
theorem second_session_request_refused :
    Gen.C08.secondSessionRequestRefused = true ∧ Gen.C08.sessionRequestResumesReading = true := by decide

/-- **D2 — witness for the code BEFORE repair e7dbee0**: reading paused by the application, 3 bytes buffered (the
    peer may keep sending up to the window, then must stop: that is the back-pressure); the peer's second `shell`
    request delivers the buffer and leaves reading resumed — from then on everything the peer sends is handed to
    (and, with the stream API, buffered without limit by) a session that is not reading -/
theorem second_session_request_ended_pause_preFix :
    ∃ c', sessionRequestPreFix { Chan.opened 100 [] [1] true 100 100 .yes with recvBuf := [([1, 2, 3], none)] } =
        .ok (c', [], [.data none [1, 2, 3]]) ∧ c'.recvPaused = .no := by
  refine ⟨_, rfl, ?_⟩
  decide +kernel

/-! ### no protocol error out of the text layer once the application closed (D3) -/

open AsyncsshModel.ChannelCodec in
/-- **No ProtocolError after the application's `close()`** (since repair afe8b9e): on a text channel, whatever the
    decoders hold when the application closes, nothing the peer sends afterwards — in particular its EOF and its
    CLOSE, which an honest peer MUST send — raises a decode error. -/
theorem no_protocol_error_after_local_close (tc : TChan) (hw : WF tc.c) (hr : tc.c.recvState ≠ .closed)
    (evs : List Ev) : trunDecodeError tc (.close :: evs) = false := by
  unfold trunDecodeError trunDecodeErrorV
  rcases close_tstep tc hw hr with ⟨tc', ms, outs, hst, hq⟩ | ⟨e, hst⟩
  · have hst' : tstepV .now tc .close = .ok tc' ms outs := hst
    rw [hst']
    exact quiet_run .now evs tc' hq
  · exfalso
    have hst' : tstepV .now tc .close = .error e := hst
    unfold tstepV at hst'
    obtain ⟨r, hr'⟩ : ∃ r, step tc.c .close = .ok r := by
      simp only [step]
      split
      · rename_i hnone
        split at hnone
        · obtain ⟨r, hfs⟩ := flushSend_some
            { tc.c with sendEofPending := decide (tc.c.sendState = .eofPending), sendState := .closePending }
          rw [hfs] at hnone; cases hnone
        · cases hnone
      · split <;> exact ⟨_, rfl⟩
    obtain ⟨c', ms, os⟩ := r
    rw [hr'] at hst'
    simp only at hst'
    split at hst' <;> cases hst'

open AsyncsshModel.ChannelCodec in
/-- **Tie to the code**: `_discard_recv` resets the decoders (one per data type) and `_flush_recv_buf` runs the final
    decode on every one of them, as the translator finds them — the variant of the text layer the theorem above is
    about -/
theorem text_layer_variant_is_the_code :
    Variant.now = { perType := Gen.C08.decoderPerDatatype, resetOnDiscard := Gen.C08.discardResetsDecoders } ∧
    Gen.C08.finalDecodeAllDecoders = true := by
  decide

open AsyncsshModel.ChannelCodec in
/-- **D3 — witness for the code BEFORE repair afe8b9e**: "€€" cut as `E2 82 AC E2 | 82 AC`, the application closes
    after the first packet, the honest peer sends the rest and its EOF: decode error → `ProtocolError` → the
    connection is closed.  Now: no error. -/
theorem honest_eof_after_close_midchar_fatal_preFix :
    trunDecodeErrorV .preFix { c := Chan.opened 100 [1] [] true 100 100 .no, ds := [] }
      [.recv (.data none [0xE2, 0x82, 0xAC, 0xE2]), .close, .recv (.data none [0x82, 0xAC]), .recv .eof] = true ∧
    trunDecodeError { c := Chan.opened 100 [1] [] true 100 100 .no, ds := [] }
      [.recv (.data none [0xE2, 0x82, 0xAC, 0xE2]), .close, .recv (.data none [0x82, 0xAC]), .recv .eof] = false := by
  decide +kernel

/-! ### layer-3 tunnel channels: the stripped address family is accounted (D4) -/

/-- **Tunnel accounting** (since repair 9f86e20): accepting a tunnel packet of `n` bytes on the wire lowers what
    the receiver still allows the peer to send (`_recv_window - _recv_buf_len`, the quantity the window check uses)
    by exactly `n` and raises it by the WINDOW_ADJUST sent — the sender subtracted the same `n` from its send
    window, so the receiver replenishes the window whenever the sender's view of it falls below half. -/
theorem tun_receiver_accounting (c : Chan) (data : Bytes) (dt : DType) (hs : c.sendState = .opn)
    (ho : c.sendChanOpen = true) :
    credit (tunAcceptData c data dt).1 = credit c - data.length + adjustSum (tunAcceptData c data dt).2.1 :=
  tun_accept_accounting c data dt hs ho

/-- **D4 — witness for the code BEFORE repair 9f86e20**: 4 bytes per packet are never given back -/
theorem tun_window_leak_preFix (c : Chan) (data : Bytes) (dt : DType) (hs : c.sendState = .opn)
    (ho : c.sendChanOpen = true) (hl : 4 ≤ data.length) :
    credit (tunAcceptDataPreFix c data dt).1 =
      credit c - data.length + adjustSum (tunAcceptDataPreFix c data dt).2.1 + 4 :=
  tun_accept_leak_preFix c data dt hs ho hl

/-- the smallest stall: window 8, one packet of 4 + 4 bytes.  Before the repair the receiver is left with window 4
    — not below half, no WINDOW_ADJUST — while the sender has used all 8 bytes: the reader reads, nothing is in
    flight, nothing can ever be sent again.  Now the packet is answered with a WINDOW_ADJUST of 8. -/
theorem tun_stalls_after_one_packet_preFix :
    (∃ c', tunRecvDataPreFix (Chan.opened 8 [] [] true 100 100 .no) [0, 0, 0, 2, 1, 2, 3, 4] =
        .ok (c', [], [.data none [1, 2, 3, 4]]) ∧ c'.recvWindow = 4) ∧
    (∃ c', tunRecvData (Chan.opened 8 [] [] true 100 100 .no) [0, 0, 0, 2, 1, 2, 3, 4] =
        .ok (c', [.adjust 8], [.data none [1, 2, 3, 4]]) ∧ c'.recvWindow = 8) := by
  refine ⟨⟨_, rfl, ?_⟩, ⟨_, rfl, ?_⟩⟩ <;> decide +kernel

/-- **Tie to the code**: `SSHTunTapChannel._accept_data` subtracts the stripped bytes from `_recv_window` -/
theorem tun_header_counted_in_code : Gen.C08.tunStripsHeader = true ∧ Gen.C08.tunHeaderCounted = true := by decide

/-! ### tie to the code: the generated arithmetic -/

theorem model_pktsize_eq_gen (w p : Nat) : ((pktSize w p : Nat) : Int) = Gen.C08.pktsizeExpr w p := by
  unfold pktSize Gen.C08.pktsizeExpr; omega

theorem model_split_eq_gen (buf : Bytes) (p : Nat) : buf.length > p ↔ Gen.C08.splitCond buf.length p := by
  unfold Gen.C08.splitCond; omega

theorem model_send_window_eq_gen (w : Nat) (data : Bytes) (h : data.length ≤ w) :
    ((w - data.length : Nat) : Int) = Gen.C08.sendWindowNext w data.length := by
  unfold Gen.C08.sendWindowNext; omega

theorem model_adjust_add_eq_gen (w n : Nat) : ((w + n : Nat) : Int) = Gen.C08.sendWindowAdjusted w n := by
  unfold Gen.C08.sendWindowAdjusted; omega

theorem model_replenish_eq_gen (w : Int) (init : Nat) :
    needAdjust w init = true ↔ Gen.C08.replenishCond w init := by
  unfold needAdjust Gen.C08.replenishCond
  simp only [decide_eq_true_eq]; omega

theorem model_loop_cond_eq_gen (c : Chan) :
    (c.sendBuf ≠ [] ∧ c.sendWindow ≠ 0) ↔ Gen.C08.flushLoopCond c.sendBuf.length c.sendWindow := by
  unfold Gen.C08.flushLoopCond
  constructor
  · intro ⟨h1, h2⟩
    exact ⟨by have := List.length_pos_iff.mpr h1; omega, by omega⟩
  · intro ⟨h1, h2⟩
    refine ⟨fun h => ?_, by omega⟩
    rw [h] at h1; simp at h1

/-! ### non-vacuity -/

/-- window 8, packets of 3: a 10-byte write goes out as 3+3+2, the rest waits for the adjust -/
theorem sender_example :
    step (Chan.opened 100 [] [1] true 8 3 .no) (.write none [1, 2, 3, 4, 5, 6, 7, 8, 9, 10]) =
      .ok ({ Chan.opened 100 [] [1] true 8 3 .no with sendWindow := 0, sendBuf := [([9, 10], none)] },
           [.data none [1, 2, 3], .data none [4, 5, 6], .data none [7, 8]], []) := by
  rfl

/-- an unpaused receiver with window 100 rejects a 101-byte packet -/
theorem receiver_example :
    step (Chan.opened 100 [1] [] true 10 10 .no) (.recv (.data none (List.replicate 101 0))) = .error .windowExceeded := by
  rfl

/-- max packet size 0, before fix de5c08f: the very first write spins -/
theorem spin_example_old : stepOld (Chan.opened 100 [] [1] true 10 0 .no) (.write none [1]) = .error .spin :=
  (sender_spins_zero_pktsize_old _ none [1] rfl (by decide) rfl rfl rfl (by simp)).1

end AsyncsshModel.Channel
