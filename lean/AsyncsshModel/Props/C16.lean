import AsyncsshModel.Gen.C16
import AsyncsshModel.Lemmas.SshSig
/-
  C16 — Signatures and certificates verify only when nothing was altered.
  Property theorems only (helper lemmas: Lemmas/CertWire.lean, Lemmas/Cert.lean, Lemmas/SshSig.lean).
  Cryptographic primitives are parameters; the ideal-signature hypothesis `Ideal` is always an explicit
  hypothesis of the theorem that uses it.  Tables come from Gen/C16.lean (regenerated from the code).
-/
namespace AsyncsshModel.C16
open AsyncsshModel AsyncsshModel.CertWire AsyncsshModel.Cert AsyncsshModel.SshSig
open AsyncsshModel.Gen.C16

/-! ## 1. `SSHKey.verify` -/

/-- **Ideal signature hypothesis.**  `rv k scheme data σ` is the primitive of key `k`; `log` is the list of
    (key, scheme, data, raw signature) the legitimate signers produced.  The primitive accepts nothing else. -/
def Ideal {Key : Type} (rv : Key → Bytes → Bytes → RawSig → Bool)
    (log : List (Key × Bytes × Bytes × RawSig)) : Prop :=
  ∀ k sch m s, rv k sch m s = true → (k, sch, m, s) ∈ log

/-- **verify_sound (shape).**  If `SSHKey.verify(data, sig)` returns True then `sig` is
    `String(alg) ‖ rest` with `alg` one of the key's algorithm names, `rest` has exactly the shape the key type
    expects, and the primitive accepted exactly `data` under the scheme `alg` selects. -/
theorem verify_sound (kd : KeyDesc) (rv : Bytes → Bytes → RawSig → Bool) (data sig : Bytes)
    (h : verifyWrap kd rv data sig = true) :
    ∃ alg rest scheme raw, sig = sshString alg ++ rest ∧ alg.length < 2 ^ 32 ∧
      kd.algs.lookup alg = some scheme ∧ decodeRaw kd.fmt rest = some raw ∧ rv scheme data raw = true := by
  unfold verifyWrap at h
  split at h
  · simp at h
  · rename_i scheme raw hq
    unfold verifyQuery at hq
    split at hq
    · simp at hq
    · rename_i alg rest hs
      split at hq
      · simp at hq
      · rename_i scheme' hl
        split at hq
        · simp at hq
        · rename_i raw' hr
          simp only [Option.some.injEq, Prod.mk.injEq] at hq
          obtain ⟨rfl, rfl⟩ := hq
          obtain ⟨hb, hlt⟩ := getString_eq_some hs
          exact ⟨alg, rest, scheme', raw', hb, hlt, hl, hr, h⟩

/-- for the one-string formats (RSA, Ed25519, Ed448) the rest of the blob is exactly `String(σ)` -/
theorem decodeRaw_plain {rest : Bytes} {raw : RawSig} (h : decodeRaw .plain rest = some raw) :
    ∃ s, rest = sshString s ∧ raw = .bytes s ∧ s.length < 2 ^ 32 := by
  simp only [decodeRaw] at h
  split at h
  · rename_i s hs
    obtain ⟨hb, hlt⟩ := getString_eq_some hs
    simp only [Option.some.injEq] at h
    exact ⟨s, by simpa using hb, h.symm, hlt⟩
  · simp at h

/-- **verify_sound (ideal signatures).**  Under the ideal-signature hypothesis, a True answer means the
    signer of key `k` really produced this raw signature for exactly this data under the scheme named in the blob. -/
theorem verify_sound_ideal {Key : Type} (rv : Key → Bytes → Bytes → RawSig → Bool)
    (log : List (Key × Bytes × Bytes × RawSig)) (hideal : Ideal rv log)
    (kd : KeyDesc) (k : Key) (data sig : Bytes) (h : verifyWrap kd (rv k) data sig = true) :
    ∃ alg rest scheme raw, sig = sshString alg ++ rest ∧ kd.algs.lookup alg = some scheme ∧
      decodeRaw kd.fmt rest = some raw ∧ (k, scheme, data, raw) ∈ log := by
  obtain ⟨alg, rest, scheme, raw, h1, _, h3, h4, h5⟩ := verify_sound kd (rv k) data sig h
  exact ⟨alg, rest, scheme, raw, h1, h3, h4, hideal k scheme data raw h5⟩

/-- **Any change is rejected.**  If the only signature ever made is `s0` by key `k0` over `m0` under scheme
    `sch0`, then a True answer forces the same key, the same data, an algorithm name selecting the same scheme
    and a blob decoding to the same raw signature: changing the key, the data, the scheme or the signature
    value gives False. -/
theorem verify_rejects_any_change {Key : Type} (rv : Key → Bytes → Bytes → RawSig → Bool)
    (k0 : Key) (sch0 m0 : Bytes) (s0 : RawSig) (hideal : Ideal rv [(k0, sch0, m0, s0)])
    (kd : KeyDesc) (k : Key) (data sig : Bytes) (h : verifyWrap kd (rv k) data sig = true) :
    k = k0 ∧ data = m0 ∧ ∃ alg rest, sig = sshString alg ++ rest ∧ kd.algs.lookup alg = some sch0 ∧
      decodeRaw kd.fmt rest = some s0 := by
  obtain ⟨alg, rest, scheme, raw, h1, h3, h4, hmem⟩ := verify_sound_ideal rv _ hideal kd k data sig h
  simp only [List.mem_singleton, Prod.mk.injEq] at hmem
  obtain ⟨rfl, rfl, rfl, rfl⟩ := hmem
  exact ⟨rfl, rfl, alg, rest, h1, h3, h4⟩

/-- an algorithm name that is not one of the key's is rejected whatever follows -/
theorem verify_unknown_alg_rejected (kd : KeyDesc) (rv : Bytes → Bytes → RawSig → Bool) (data alg rest : Bytes)
    (hlen : alg.length < 2 ^ 32) (h : kd.algs.lookup alg = none) :
    verifyWrap kd rv data (sshString alg ++ rest) = false := by
  unfold verifyWrap verifyQuery
  rw [getString_sshString alg rest hlen]
  simp [h]

/-- decode errors mean False -/
theorem verify_malformed_rejected (kd : KeyDesc) (rv : Bytes → Bytes → RawSig → Bool) (data sig : Bytes)
    (h : getString sig = none) : verifyWrap kd rv data sig = false := by
  unfold verifyWrap verifyQuery; simp [h]

/-- an honest signature (one-string formats) verifies -/
theorem verify_complete_plain (kd : KeyDesc) (rv : Bytes → Bytes → RawSig → Bool) (data alg scheme s : Bytes)
    (hfmt : kd.fmt = .plain) (hl : kd.algs.lookup alg = some scheme)
    (ha : alg.length < 2 ^ 32) (hs : s.length < 2 ^ 32) (hrv : rv scheme data (.bytes s) = true) :
    verifyWrap kd rv data (signBlobPlain alg s) = true := by
  unfold verifyWrap verifyQuery signBlobPlain
  rw [getString_sshString alg _ ha]
  simp only [hl, hfmt, decodeRaw]
  have : sshString s = sshString s ++ [] := by simp
  rw [this, getString_sshString s [] hs]
  simpa using hrv

/-- names that select the same scheme are interchangeable: relabelling a blob among them does not change the
    answer (this is why "the algorithm name differs" can only mean "selects another scheme") -/
theorem verify_relabel (kd : KeyDesc) (rv : Bytes → Bytes → RawSig → Bool) (data a1 a2 rest : Bytes)
    (h1 : a1.length < 2 ^ 32) (h2 : a2.length < 2 ^ 32) (h : kd.algs.lookup a1 = kd.algs.lookup a2) :
    verifyWrap kd rv data (sshString a1 ++ rest) = verifyWrap kd rv data (sshString a2 ++ rest) := by
  unfold verifyWrap verifyQuery
  rw [getString_sshString a1 rest h1, getString_sshString a2 rest h2]
  simp [h]

/-- no two distinct names of the key select the same scheme -/
def aliasFree (kd : KeyDesc) : Bool :=
  kd.algs.all fun p => kd.algs.all fun q => p.2 != q.2 || p.1 == q.1

theorem lookup_mem {a s : Bytes} {l : List (Bytes × Bytes)} (h : l.lookup a = some s) : (a, s) ∈ l := by
  induction l with
  | nil => simp [List.lookup] at h
  | cons p l ih =>
    obtain ⟨x, y⟩ := p
    simp only [List.lookup] at h
    split at h
    · rename_i heq
      simp only [Option.some.injEq] at h
      have : a = x := by simpa using heq
      subst this; subst h; simp
    · exact List.mem_cons_of_mem _ (ih h)

theorem aliasFree_unique {kd : KeyDesc} (hf : aliasFree kd = true) {a a' s : Bytes}
    (h1 : kd.algs.lookup a = some s) (h2 : kd.algs.lookup a' = some s) : a = a' := by
  have m1 := lookup_mem h1
  have m2 := lookup_mem h2
  unfold aliasFree at hf
  rw [List.all_eq_true] at hf
  have := hf _ m1
  rw [List.all_eq_true] at this
  have := this _ m2
  simpa using this

/-- **The accepted blob is unique** (one-string formats, alias-free key): with a single honest signature
    `String(alg0) ‖ String(σ0)`, that exact byte string is the only one `verify` accepts — every single-byte edit
    (and every other change) of the signature blob gives False. -/
theorem verify_blob_unique_plain {Key : Type} (rv : Key → Bytes → Bytes → RawSig → Bool)
    (k0 : Key) (sch0 m0 s0 alg0 : Bytes) (hideal : Ideal rv [(k0, sch0, m0, .bytes s0)])
    (kd : KeyDesc) (hfmt : kd.fmt = .plain) (hfree : aliasFree kd = true)
    (halg0 : kd.algs.lookup alg0 = some sch0)
    (k : Key) (data sig : Bytes) (h : verifyWrap kd (rv k) data sig = true) :
    k = k0 ∧ data = m0 ∧ sig = signBlobPlain alg0 s0 := by
  obtain ⟨hk, hd, alg, rest, hsig, hl, hraw⟩ := verify_rejects_any_change rv k0 sch0 m0 _ hideal kd k data sig h
  rw [hfmt] at hraw
  obtain ⟨s, hrest, hs, _⟩ := decodeRaw_plain hraw
  have : s = s0 := by simpa using hs.symm
  subst this
  have : alg = alg0 := aliasFree_unique hfree hl halg0
  subst this
  exact ⟨hk, hd, by rw [hsig, hrest]; rfl⟩

def sshRsa : Bytes := strBytes "ssh-rsa"

/-- In the tables regenerated from the code, every key type other than `ssh-rsa` is alias-free
    (one name per scheme), so the uniqueness theorem applies to it as is. -/
theorem gen_alias_classification :
    ∀ p ∈ keyDescs, aliasFree p.2 = true ∨ p.1 = sshRsa := by
  decide +kernel

/-- the RSA table at snapshot 817b931 (`rsa.py` `_hash_algs` restricted to `all_sig_algorithms`) -/
def rsaDescSnapshot : KeyDesc :=
  { algs := [(strBytes "rsa-sha2-256", strBytes "sha256"), (strBytes "rsa-sha2-512", strBytes "sha512"),
             (strBytes "rsa2048-sha256", strBytes "sha256"), (strBytes "ssh-rsa", strBytes "sha1"),
             (strBytes "ssh-rsa-sha224@ssh.com", strBytes "sha224"),
             (strBytes "ssh-rsa-sha256@ssh.com", strBytes "sha256"),
             (strBytes "ssh-rsa-sha384@ssh.com", strBytes "sha384"),
             (strBytes "ssh-rsa-sha512@ssh.com", strBytes "sha512")],
    fmt := .plain }

/-- **Witness against the literal reading "fails if the algorithm name differs in any way".**  For an RSA key
    a signature made as `rsa-sha2-256` and relabelled `ssh-rsa-sha256@ssh.com` (or `rsa2048-sha256`) is
    accepted whenever the original is: the names are aliases of one scheme.  Replayed on the real code by the
    oracle (signature `verify-accepts-relabelled-rsa-alias`). -/
theorem verify_alias_witness_example (rv : Bytes → Bytes → RawSig → Bool) (data s : Bytes) :
    ¬ aliasFree rsaDescSnapshot = true ∧
    verifyWrap rsaDescSnapshot rv data (signBlobPlain (strBytes "ssh-rsa-sha256@ssh.com") s) =
      verifyWrap rsaDescSnapshot rv data (signBlobPlain (strBytes "rsa-sha2-256") s) := by
  refine ⟨by decide +kernel, ?_⟩
  unfold signBlobPlain
  exact verify_relabel _ _ _ _ _ _ (by decide +kernel) (by decide +kernel) (by decide +kernel)

/-- non-vacuity: an honest Ed25519-shaped blob is accepted, the same blob under another name is not -/
theorem verify_example :
    let kd : KeyDesc := { algs := [(strBytes "ssh-ed25519", strBytes "ssh-ed25519")], fmt := .plain }
    let rv : Bytes → Bytes → RawSig → Bool := fun _ d s => d == [1, 2, 3] && s == .bytes [9, 9]
    verifyWrap kd rv [1, 2, 3] (signBlobPlain (strBytes "ssh-ed25519") [9, 9]) = true ∧
    verifyWrap kd rv [1, 2, 4] (signBlobPlain (strBytes "ssh-ed25519") [9, 9]) = false ∧
    verifyWrap kd rv [1, 2, 3] (signBlobPlain (strBytes "ssh-ed448") [9, 9]) = false ∧
    verifyWrap kd rv [1, 2, 3] (signBlobPlain (strBytes "ssh-ed25519") [9, 9] ++ [0]) = false := by
  decide +kernel

/-- ECDSA blobs: the (r, s) value does not determine the blob (non-minimal mpints are read back to the same
    integers), so for this format "the signature differs" is meaningful for the value, not the bytes. -/
theorem ecdsa_blob_not_canonical_example :
    decodeRaw .mpintPair (sshString (sshString [5] ++ sshString [7])) = some (.pair 5 7) ∧
    decodeRaw .mpintPair (sshString (sshString [0, 5] ++ sshString [7])) = some (.pair 5 7) := by
  decide +kernel

/-! ## 2. OpenSSH certificates -/

/-- **cert_signed_region.**  An accepted certificate blob is *exactly* `region ‖ String(signature)`:
    every byte lies in the signed region or in the signature field, the CA key is the last field inside the
    region, and the region is what was handed to the CA key's `verify` together with that signature. -/
theorem cert_signed_region (T : CertTables) (O : CertOracle) (blob : Bytes) (c : Cert)
    (h : certConstruct T O blob = some c) :
    ∃ raw, parseCertRaw T blob = some raw ∧ blob = raw.region ++ sshString raw.signature ∧
      (∃ pre, raw.region = pre ++ sshString raw.ca) ∧ c.ca = raw.ca ∧ O.caOk raw.ca = true ∧
      O.verify raw.ca raw.region raw.signature = true := by
  obtain ⟨raw, hraw, hca, hver, _, _, hcca, _⟩ := certConstruct_some h
  obtain ⟨hb, _, _, hpre⟩ := parseCertRaw_layout hraw
  exact ⟨raw, hraw, hb, hpre, hcca, hca, hver⟩

/-- **Every byte of the signed region belongs to a named field**: algorithm name, nonce and key fields,
    serial, type, key id, principals, validity bounds, critical options, extensions, reserved, CA key — in
    that order and with nothing in between. -/
theorem cert_region_layout (T : CertTables) (blob : Bytes) (raw : CertRaw)
    (h : parseCertRaw T blob = some raw) :
    ∃ nonceAndKey : List Bytes,
      blob = sshString raw.alg ++ encStrings nonceAndKey ++ u64 raw.serial ++ u32 raw.ctype ++
        sshString raw.keyId ++ sshString raw.principals ++ u64 raw.validAfter ++ u64 raw.validBefore ++
        sshString raw.options ++ sshString raw.exts ++ sshString raw.reserved ++ sshString raw.ca ++
        sshString raw.signature ∧
      raw.keyFields = nonceAndKey.drop 1 := by
  obtain ⟨nk, hreg, hk⟩ := parseCertRaw_fields h
  exact ⟨nk, by rw [← hreg]; exact (parseCertRaw_layout h).1, hk⟩

/-- the structure parse is injective, so two different blobs never yield the same parsed certificate -/
theorem cert_parse_injective (T : CertTables) (b1 b2 : Bytes) (raw : CertRaw)
    (h1 : parseCertRaw T b1 = some raw) (h2 : parseCertRaw T b2 = some raw) : b1 = b2 :=
  parseCertRaw_inj h1 h2

/-- **Every edit is rejected.**  If the only (CA key, data, signature blob) the verifier accepts is the one the CA
    issued for `region0`, the only blob `decode_ssh_certificate` accepts is `region0 ‖ String(sig0)`. -/
theorem cert_any_edit_rejected (T : CertTables) (O : CertOracle) (ca0 region0 sig0 : Bytes)
    (hideal : ∀ ca d s, O.verify ca d s = true → ca = ca0 ∧ d = region0 ∧ s = sig0)
    (blob : Bytes) (c : Cert) (h : certConstruct T O blob = some c) :
    blob = region0 ++ sshString sig0 ∧ c.ca = ca0 := by
  obtain ⟨raw, _, hb, _, hca, _, hver⟩ := cert_signed_region T O blob c h
  obtain ⟨h1, h2, h3⟩ := hideal _ _ _ hver
  exact ⟨by rw [hb, h2, h3], by rw [hca, h1]⟩

/-- **Every single-byte edit of the certificate is rejected** (corollary, stated with `List.set`). -/
theorem cert_single_byte_edit_rejected (T : CertTables) (O : CertOracle) (ca0 region0 sig0 : Bytes)
    (hideal : ∀ ca d s, O.verify ca d s = true → ca = ca0 ∧ d = region0 ∧ s = sig0)
    (i : Nat) (x : UInt8) (hne : (region0 ++ sshString sig0).set i x ≠ region0 ++ sshString sig0) :
    certConstruct T O ((region0 ++ sshString sig0).set i x) = none := by
  cases hc : certConstruct T O ((region0 ++ sshString sig0).set i x) with
  | none => rfl
  | some c => exact absurd (cert_any_edit_rejected T O ca0 region0 sig0 hideal _ c hc).1 hne

/-- the CA key's `verify` as the wrapper over an ideal primitive -/
def wrapOracle {Key : Type} (keyOf : Bytes → Option Key) (desc : Key → KeyDesc)
    (rv : Key → Bytes → Bytes → RawSig → Bool) (ca data sig : Bytes) : Bool :=
  match keyOf ca with
  | some k => verifyWrap (desc k) (rv k) data sig
  | none => false

/-- **cert edits, down to the primitive.**  CA key `K` (one-string signature format, alias-free) made exactly one
    signature `σ0`, over `region0`.  Then the only certificate blob accepted is
    `region0 ‖ String(String(alg0) ‖ String(σ0))`, and its CA key decodes to `K`. -/
theorem cert_edit_rejected_ideal {Key : Type} (T : CertTables) (O : CertOracle)
    (keyOf : Bytes → Option Key) (desc : Key → KeyDesc) (rv : Key → Bytes → Bytes → RawSig → Bool)
    (hO : O.verify = wrapOracle keyOf desc rv)
    (K : Key) (sch0 region0 s0 alg0 : Bytes) (hideal : Ideal rv [(K, sch0, region0, .bytes s0)])
    (hfmt : (desc K).fmt = .plain) (hfree : aliasFree (desc K) = true)
    (halg0 : (desc K).algs.lookup alg0 = some sch0)
    (blob : Bytes) (c : Cert) (h : certConstruct T O blob = some c) :
    blob = region0 ++ sshString (signBlobPlain alg0 s0) ∧ keyOf c.ca = some K := by
  obtain ⟨raw, _, hb, _, hca, _, hver⟩ := cert_signed_region T O blob c h
  rw [hO] at hver
  unfold wrapOracle at hver
  split at hver
  · rename_i k hk
    obtain ⟨h1, h2, h3⟩ := verify_rejects_any_change rv K sch0 region0 _ hideal (desc k) k _ _ hver
    subst h1
    obtain ⟨_, _, hsig⟩ := verify_blob_unique_plain rv k sch0 region0 s0 alg0 hideal (desc k) hfmt hfree halg0 k _ _ hver
    exact ⟨by rw [hb, h2, hsig], by rw [hca]; exact hk⟩
  · simp at hver

/-! non-vacuity of the certificate model: a small certificate (one key field, one principal, a critical
    `force-command`-shaped option, a flag extension) is accepted by `certConstruct`; an edit inside the region,
    an edit of the signature and a trailing byte are rejected -/
def exT : CertTables :=
  { certAlgs := [([99], ([107], 1))], userOpts := [([102], .forceCmd)], userExts := [([112], .flag)],
    hostOpts := [], hostExts := [], consume := false }
def exVals : List Val :=
  [.bytes [1], .bytes [2, 2], .num64 7, .num32 1, .bytes [105], .bytes (encStrings [[97]]), .num64 10, .num64 20,
   .bytes (encStrings [[102], sshString [120]]), .bytes (encStrings [[112], []]), .bytes [], .bytes [67, 65]]
def exRegion : Bytes := encRegion [99] exVals
def exO : CertOracle :=
  { keyOf := fun _ f => some (encStrings f), caOk := fun _ => true,
    verify := fun ca d s => ca == [67, 65] && d == exRegion && s == [5, 5], ipNet := fun _ => none }
def exBlob : Bytes := exRegion ++ sshString [5, 5]

theorem cert_example :
    (certConstruct exT exO exBlob).any (fun c => c.ctype == 1 && c.principals == [[97]] && c.validAfter == 10 &&
        c.validBefore == 20 && c.options == [([102], .text [120]), ([112], .flag)] && c.ca == [67, 65] &&
        c.blob == exBlob) = true ∧
    (certConstruct exT exO (exBlob.set 9 3)).isNone = true ∧
    (certConstruct exT exO (exBlob.set (exBlob.length - 1) 6)).isNone = true ∧
    (certConstruct exT exO (exBlob ++ [0])).isNone = true := by
  decide +kernel

/-! ## 3. validate -/

/-- `SSHOpenSSHCertificate.validate(cert_type, principal)`: `none` = no exception, `some msg` = ValueError(msg).
    The conditions are the ones regenerated from the source (`Gen.C16.validateSteps`). -/
def certValidate (c : Cert) (wantType : Nat) (principal : Option (List Nat)) (now : Q) : Option String :=
  firstFailure (validateSteps wantType c.ctype c.validAfter c.validBefore now principal c.principals)

/-- **cert_validate_iff.**  `validate` passes exactly when the requested type is ANY or the certificate's type,
    `valid_after ≤ now < valid_before`, and the principal is not asked for, or the certificate lists no
    principal, or it lists this one. -/
theorem cert_validate_iff (c : Cert) (wantType : Nat) (principal : Option (List Nat)) (now : Q) :
    certValidate c wantType principal now = none ↔
      (wantType = 0 ∨ wantType = c.ctype) ∧
      c.validAfter * now.den ≤ now.num ∧ now.num < c.validBefore * now.den ∧
      (principal = none ∨ c.principals = [] ∨ ∃ p, principal = some p ∧ p ∈ c.principals) := by
  unfold certValidate validateSteps
  simp only [firstFailure, Q.lt, Q.ge]
  by_cases h1 : wantType = 0 ∨ wantType = c.ctype
  · have e1 : (!(wantType == 0 || wantType == c.ctype)) = false := by
      rcases h1 with h | h <;> simp [h]
    simp only [e1, Bool.false_eq_true, if_false, h1, true_and]
    by_cases h2 : now.num < c.validAfter * now.den
    · simp [h2]; omega
    · simp only [h2, decide_false, Bool.false_eq_true, if_false]
      by_cases h3 : c.validBefore * now.den ≤ now.num
      · simp [h3]; omega
      · simp only [h3, decide_false, Bool.false_eq_true, if_false]
        have h2' : c.validAfter * now.den ≤ now.num := by omega
        have h3' : now.num < c.validBefore * now.den := by omega
        simp only [h2', h3', true_and]
        cases principal with
        | none => simp [principalIn]
        | some p =>
          by_cases hp : c.principals = []
          · simp [hp, principalIn]
          · by_cases hm : p ∈ c.principals
            · simp [principalIn, hm]
            · simp [principalIn, hm, hp]
  · have e1 : (!(wantType == 0 || wantType == c.ctype)) = true := by
      have := not_or.mp h1
      simp [this.1, this.2]
    simp [e1, h1]

/-- non-vacuity: the window is half open and the bounds are hit exactly -/
theorem cert_validate_example :
    let c : Cert := { alg := [], keyAlg := [], keyFields := [], serial := 0, ctype := 1, keyId := [],
                      principals := [[97]], validAfter := 100, validBefore := 200, options := [],
                      ca := [], blob := [], keyData := [] }
    certValidate c 1 (some [97]) ⟨100, 1⟩ = none ∧
    certValidate c 0 none ⟨399, 2⟩ = none ∧
    certValidate c 1 (some [97]) ⟨199, 2⟩ = some "Certificate not yet valid" ∧
    certValidate c 1 (some [97]) ⟨200, 1⟩ = some "Certificate expired" ∧
    certValidate c 2 (some [97]) ⟨150, 1⟩ = some "Invalid certificate type" ∧
    certValidate c 1 (some [98]) ⟨150, 1⟩ = some "Certificate principal mismatch" := by
  decide +kernel

/-! ## 4. options and extensions -/

/-- the decoder tables `construct` uses for a certificate type -/
def optTable (T : CertTables) (ctype : Nat) : OptTable := if ctype = 1 then T.userOpts else T.hostOpts
def extTable (T : CertTables) (ctype : Nat) : OptTable := if ctype = 1 then T.userExts else T.hostExts

/-- **critical_options_understood.**  In an accepted certificate the critical-options field is a well-formed
    sequence of (name, data) pairs and *every* name is one the code has a decoder for (for the certificate's
    type): a certificate with an unknown critical option is rejected. -/
theorem critical_options_understood (T : CertTables) (O : CertOracle) (blob : Bytes) (c : Cert)
    (h : certConstruct T O blob = some c) :
    ∃ raw ss, parseCertRaw T blob = some raw ∧ raw.options = encStrings ss ∧ ss.length % 2 = 0 ∧
      ∀ n ∈ pairNames ss, ((optTable T raw.ctype).lookup n).isSome = true := by
  obtain ⟨raw, hraw, _, _, _, _, _, _, _, _, _, o1, o2, _, ho1, _⟩ := certConstruct_some h
  rw [decodeOptions_eq_walk] at ho1
  cases hs : splitStrings raw.options with
  | none => simp [hs] at ho1
  | some ss =>
    simp only [hs, Option.bind_some] at ho1
    rw [codeWalk_critical] at ho1
    obtain ⟨hev, hall⟩ := specWalk_critical_names _ _ _ _ ho1
    exact ⟨raw, ss, hraw, (splitStrings_eq_some hs).1, hev, hall⟩

/-- an unknown name at a name position of a critical field rejects the field, whatever else it holds -/
theorem unknown_critical_option_rejected (ip : Bytes → Option Bytes) (consume : Bool) (tbl : OptTable)
    (b : Bytes) (ss : List Bytes) (hs : splitStrings b = some ss) (n : Bytes) (hn : n ∈ pairNames ss)
    (hunk : tbl.lookup n = none) : decodeOptions ip consume tbl true b = none := by
  rw [decodeOptions_eq_walk, hs]
  simp only [Option.bind_some]
  rw [codeWalk_critical]
  cases hw : specWalk ip tbl true ss with
  | none => rfl
  | some res =>
    have := (specWalk_critical_names _ _ _ _ hw).2 n hn
    simp [hunk] at this

/-- critical fields are decoded exactly as PROTOCOL.certkeys prescribes (for every byte string) -/
theorem critical_decoding_faithful (ip : Bytes → Option Bytes) (consume : Bool) (tbl : OptTable) (b : Bytes) :
    decodeOptions ip consume tbl true b = specDecode ip tbl true b := by
  rw [decodeOptions_eq_walk]
  unfold specDecode
  cases splitStrings b with
  | none => rfl
  | some ss => simp [codeWalk_critical]

/-- **extension_decoding_faithful, with its exact precondition.**  The decoder agrees with the
    PROTOCOL.certkeys reading of the field (known entries decoded, unknown ones skipped *together with their
    data*) when (a) it consumes the data of unknown entries — for every byte string —, or (b) the field is
    critical, or (c) the field is a well-formed pair list in which no unknown entry carries a known name as
    its data (`CleanPairs`). -/
theorem extension_decoding_faithful (ip : Bytes → Option Bytes) (consume : Bool) (tbl : OptTable)
    (crit : Bool) (b : Bytes)
    (h : consume = true ∨ crit = true ∨
         ∃ ss, splitStrings b = some ss ∧ ss.length % 2 = 0 ∧ CleanPairs tbl ss) :
    decodeOptions ip consume tbl crit b = specDecode ip tbl crit b := by
  rcases h with h | h | ⟨ss, hs, hev, hcl⟩
  · subst h
    rw [decodeOptions_eq_walk]
    unfold specDecode
    cases splitStrings b with
    | none => rfl
    | some ss => simp [codeWalk_consume]
  · subst h; exact critical_decoding_faithful ip consume tbl b
  · cases consume with
    | true =>
      rw [decodeOptions_eq_walk]; unfold specDecode; rw [hs]; simp [codeWalk_consume]
    | false =>
      cases crit with
      | true => exact critical_decoding_faithful ip false tbl b
      | false =>
        rw [decodeOptions_eq_walk]; unfold specDecode; rw [hs]
        simp [codeWalk_clean ip tbl ss hev hcl]

/-- the bytes of candidate F9: extensions `foo@example.com = "permit-pty"` and `"" = ""` -/
def f9Exts : Bytes :=
  encStrings [strBytes "foo@example.com", strBytes "permit-pty", [], []]

def userExtsSnapshot : OptTable :=
  [(strBytes "permit-X11-forwarding", .flag), (strBytes "permit-agent-forwarding", .flag),
   (strBytes "permit-port-forwarding", .flag), (strBytes "permit-pty", .flag),
   (strBytes "permit-user-rc", .flag), (strBytes "no-touch-required", .flag)]

/-- **The precondition cannot be dropped (F9 witness).**  With the decoder that does not consume the data of
    an unknown extension, the field above — which grants nothing under PROTOCOL.certkeys — decodes to
    `permit-pty`.  Replayed on the real code by the oracle
    (signature `cert-unknown-extension-value-parsed-as-name`). -/
theorem extension_decoding_unfaithful_witness :
    decodeOptions (fun _ => none) false userExtsSnapshot false f9Exts = some [(strBytes "permit-pty", .flag)] ∧
    specDecode (fun _ => none) userExtsSnapshot false f9Exts = some [] ∧
    decodeOptions (fun _ => none) true userExtsSnapshot false f9Exts = some [] := by
  decide +kernel

/-- **Status of the current code** (tables and `consume` flag regenerated from the source): the F9 field is
    decoded faithfully by the current code iff the current `_decode_options` consumes unknown values. -/
theorem extension_decoding_gen_status :
    (decodeOptions (fun _ => none) certTables.consume certTables.userExts false f9Exts =
       specDecode (fun _ => none) certTables.userExts false f9Exts) ↔ certTables.consume = true := by
  decide +kernel

/-- and when it does, the current code decodes every extension field faithfully -/
theorem extension_decoding_gen_faithful (ip : Bytes → Option Bytes) (crit : Bool) (tbl : OptTable) (b : Bytes)
    (h : certTables.consume = true) :
    decodeOptions ip certTables.consume tbl crit b = specDecode ip tbl crit b :=
  extension_decoding_faithful ip _ tbl crit b (Or.inl h)

/-- the decoded options of a field are exactly its known names, in order -/
theorem decoded_names (ip : Bytes → Option Bytes) (tbl : OptTable) (crit : Bool) (b : Bytes)
    (res : List (Bytes × OptVal)) (h : specDecode ip tbl crit b = some res) :
    ∃ ss, splitStrings b = some ss ∧
      res.map Prod.fst = (pairNames ss).filter (fun n => (tbl.lookup n).isSome) := by
  unfold specDecode at h
  cases hs : splitStrings b with
  | none => simp [hs] at h
  | some ss =>
    simp only [hs] at h
    exact ⟨ss, rfl, specWalk_names ip tbl crit ss res h⟩

/-! ## 5. SSHSIG -/

/-- **The signed data is an injective encoding** of (namespace, hash name, digest). -/
theorem sshsig_signed_data_injective (magic ns h d ns' h' d' : Bytes)
    (l1 : ns.length < 2 ^ 32) (l2 : h.length < 2 ^ 32) (l3 : d.length < 2 ^ 32)
    (l1' : ns'.length < 2 ^ 32) (l2' : h'.length < 2 ^ 32) (l3' : d'.length < 2 ^ 32)
    (e : signedData magic ns h d = signedData magic ns' h' d') : ns = ns' ∧ h = h' ∧ d = d' :=
  signedData_inj l1 l2 l3 l1' l2' l3' e

/-- the raw SSHSIG blob is read back exactly; everything except the reserved string is named -/
theorem sshsig_blob_layout (magic : Bytes) (version : Nat) (b : Bytes) (sb : SigBlob)
    (h : parseSigBlob magic version b = some sb) :
    b = magic ++ u32 version ++ sshString sb.pub ++ sshString sb.ns ++ sshString sb.reserved ++
          sshString sb.hashName ++ sshString sb.sig :=
  (parseSigBlob_eq_some h).1

theorem sshsig_blob_roundtrip (magic : Bytes) (version : Nat) (pub ns hashName sig : Bytes)
    (hv : version < 2 ^ 32) (h1 : pub.length < 2 ^ 32) (h2 : ns.length < 2 ^ 32)
    (h3 : hashName.length < 2 ^ 32) (h4 : sig.length < 2 ^ 32) :
    parseSigBlob magic version (encodeSigBlob magic version pub ns hashName sig) =
      some { pub := pub, ns := ns, reserved := [], hashName := hashName, sig := sig } :=
  parseSigBlob_encode magic version pub ns hashName sig hv h1 h2 h3 h4

/-- who authorised a signature: a plain-key entry for the signing key, or a `cert-authority` entry for the CA
    of the signing certificate (which must then also pass `cert.validate`) -/
inductive Authorised (E : SigEnv) (es : List Entry) (principal ns : List Nat) (now : Q)
    (cert : Option Cert) (key : Bytes) : Prop where
  | byKey (e : Entry) (hmem : e ∈ es) (hca : e.ca = false) (hkey : e.key = key)
      (hmatch : e.matchOptions principal ns now = some true)
  | byCa (c : Cert) (caKey : Bytes) (e : Entry) (hc : cert = some c) (hck : E.decodeKey c.ca = .ok caKey)
      (hmem : e ∈ es) (hca : e.ca = true) (hkey : e.key = caKey)
      (hmatch : e.matchOptions principal ns now = some true) (hvalid : E.certValid c principal now = true)

/-- **sshsig validation is sound.**  `validate_sshsig` returning True means: the blob parses with the right magic
    and version; the public-key field decodes to a certificate or a key; the signing key's `verify` accepted
    the blob's signature over `signedData(namespace, hash name, H(message))` with namespace and hash name taken
    from the blob; and the allowed-signers data holds an entry that authorises this signer for this principal
    and this namespace at this time. -/
theorem sshsig_validate_sound (E : SigEnv) (msg : Bytes) (isHashed : Bool) (sig : Bytes) (principal : List Nat)
    (signers : Option (List Entry)) (now : Q)
    (h : validateSshsig E msg isHashed sig principal signers now = .valid) :
    ∃ sb cert key nsText toVerify es,
      parseSigBlob E.magic E.version sig = some sb ∧
      ((∃ c, E.decodeCert sb.pub = .ok c ∧ cert = some c ∧ key = c.keyData) ∨
       (E.decodeCert sb.pub = .importError ∧ cert = none ∧ E.decodeKey sb.pub = .ok key)) ∧
      utf8Decode sb.ns = some nsText ∧
      signedDataFor E msg isHashed sb.hashName sb.ns = some toVerify ∧
      E.verify key toVerify sb.sig = true ∧
      signers = some es ∧ Authorised E es principal nsText now cert key := by
  unfold validateSshsig at h
  split at h
  · simp at h
  · rename_i pub rest hhead
    simp only at h
    split at h
    · simp at h
    · simp at h
    · rename_i cert key hwho
      split at h
      · simp at h
      · rename_i ns reserved hashName sigv htail
        have hsb : parseSigBlob E.magic E.version sig =
            some { pub := pub, ns := ns, reserved := reserved, hashName := hashName, sig := sigv } := by
          unfold parseSigBlob; simp [hhead, htail]
        split at h
        · simp at h
        · rename_i nsText hns
          split at h
          · simp at h
          · rename_i toVerify htv
            split at h
            · simp at h
            · rename_i hver
              have hver' : E.verify key toVerify sigv = true := by
                cases hh : E.verify key toVerify sigv <;> simp_all
              split at h
              · simp at h
              · rename_i es
                have hwho' : (∃ c, E.decodeCert pub = .ok c ∧ cert = some c ∧ key = c.keyData) ∨
                    (E.decodeCert pub = .importError ∧ cert = none ∧ E.decodeKey pub = .ok key) := by
                  cases hc : E.decodeCert pub with
                  | ok c =>
                    simp only [hc, Dec.ok.injEq, Prod.mk.injEq] at hwho
                    exact Or.inl ⟨c, rfl, hwho.1.symm, hwho.2.symm⟩
                  | crash => simp [hc] at hwho
                  | importError =>
                    simp only [hc] at hwho
                    cases hk : E.decodeKey pub with
                    | importError => simp [hk] at hwho
                    | crash => simp [hk] at hwho
                    | ok k =>
                      simp only [hk, Dec.ok.injEq, Prod.mk.injEq] at hwho
                      exact Or.inr ⟨rfl, hwho.1.symm, by rw [hwho.2]⟩
                split at h
                · simp at h
                · rename_i hsv
                  obtain ⟨e, hmem, hca, hkey, hm⟩ := signersValidate_true hsv
                  exact ⟨_, cert, key, nsText, toVerify, es, hsb, hwho', hns, htv, hver', rfl,
                         .byKey e hmem hca hkey hm⟩
                · split at h
                  · simp at h
                  · rename_i c
                    split at h
                    · rename_i caKey hck
                      split at h
                      · simp at h
                      · simp at h
                      · rename_i hsv
                        split at h
                        · rename_i hcv
                          obtain ⟨e, hmem, hca, hkey, hm⟩ := signersValidate_true hsv
                          exact ⟨_, some c, key, nsText, toVerify, es, hsb, hwho', hns, htv, hver', rfl,
                                 .byCa c caKey e rfl hck hmem hca hkey hm hcv⟩
                        · simp at h
                    · simp at h

/-- what an authorising entry guarantees: principal pattern, namespace pattern (when given) and validity window -/
theorem sshsig_entry_authorises (e : Entry) (p ns : List Nat) (now : Q)
    (h : e.matchOptions p ns now = some true) :
    patListMatch e.principals p = true ∧
    (e.namespaces = .absent ∨ ∃ pl, e.namespaces = .pats pl ∧ patListMatch pl ns = true) ∧
    (∀ a, e.validAfter = some a → a * (now.den : Int) ≤ (now.num : Int)) ∧
    (∀ b, e.validBefore = some b → (now.num : Int) < b * (now.den : Int)) := by
  obtain ⟨h1, h2, h3, h4⟩ := (matchOptions_true_iff e p ns now).mp h
  refine ⟨h1, h2, ?_, ?_⟩
  · intro a ha
    have := h3 a ha
    simp only [Q.ltI, decide_eq_false_iff_not, Int.not_lt] at this
    exact this
  · intro b hb
    have := h4 b hb
    simp only [Q.geI, decide_eq_false_iff_not, Int.not_le] at this
    exact this

/-- no entry for the signing key and none for its CA: never valid -/
theorem sshsig_unlisted_signer_rejected (E : SigEnv) (msg : Bytes) (isHashed : Bool) (sig : Bytes)
    (principal : List Nat) (es : List Entry) (now : Q)
    (hnone : ∀ e ∈ es, ∀ sb, parseSigBlob E.magic E.version sig = some sb →
       (∀ c, E.decodeCert sb.pub = .ok c → e.key ≠ c.keyData ∧ E.decodeKey c.ca ≠ .ok e.key) ∧
       E.decodeKey sb.pub ≠ .ok e.key) :
    validateSshsig E msg isHashed sig principal (some es) now ≠ .valid := by
  intro h
  obtain ⟨sb, cert, key, nsText, toVerify, es', hsb, hwho, _, _, _, hes, hauth⟩ :=
    sshsig_validate_sound E msg isHashed sig principal (some es) now h
  simp only [Option.some.injEq] at hes
  subst hes
  cases hauth with
  | byKey e hmem hca hkey hmatch =>
    obtain ⟨hc, hk⟩ := hnone e hmem sb hsb
    rcases hwho with ⟨c, hdc, _, hkc⟩ | ⟨_, _, hdk⟩
    · exact (hc c hdc).1 (by rw [hkey, hkc])
    · exact hk (by rw [hkey]; exact hdk)
  | byCa c caKey e hcert hck hmem hca hkey hmatch hvalid =>
    obtain ⟨hc, _⟩ := hnone e hmem sb hsb
    rcases hwho with ⟨c', hdc, hcc, _⟩ | ⟨_, hcn, _⟩
    · rw [hcert] at hcc
      simp only [Option.some.injEq] at hcc
      subst hcc
      exact (hc c hdc).2 (by rw [hkey]; exact hck)
    · rw [hcert] at hcn; simp at hcn

/-- **sshsig_binding.**  Suppose the signing keys' `verify` accepts only data that was honestly signed
    (`signed`), every honestly signed SSHSIG payload by key `k0` is `signedData(ns0, h0, H(h0, m0))`, and the
    hash is injective.  Then a True answer for message `msg` means: `msg = m0`, the blob names namespace `ns0`
    and hash `h0`, and an allowed-signers entry authorises the signer for this principal and that namespace now. -/
theorem sshsig_binding (E : SigEnv) (signed : List (Bytes × Bytes))
    (hideal : ∀ k d s, E.verify k d s = true → (k, d) ∈ signed)
    (k0 ns0 h0 m0 : Bytes)
    (honly : ∀ k d, (k, d) ∈ signed → k = k0 ∧ d = signedData E.magic ns0 h0 (E.hash h0 m0))
    (hinj : ∀ a b, E.hash h0 a = E.hash h0 b → a = b)
    (hl1 : ns0.length < 2 ^ 32) (hl2 : h0.length < 2 ^ 32)
    (hl3 : ∀ hn m, (E.hash hn m).length < 2 ^ 32)
    (msg sig : Bytes) (principal : List Nat) (signers : Option (List Entry)) (now : Q)
    (h : validateSshsig E msg false sig principal signers now = .valid) :
    msg = m0 ∧ ∃ sb cert nsText es, parseSigBlob E.magic E.version sig = some sb ∧ sb.ns = ns0 ∧
      sb.hashName = h0 ∧ utf8Decode ns0 = some nsText ∧ signers = some es ∧
      Authorised E es principal nsText now cert k0 := by
  obtain ⟨sb, cert, key, nsText, toVerify, es, hsb, _, hns, htv, hver, hes, hauth⟩ :=
    sshsig_validate_sound E msg false sig principal signers now h
  obtain ⟨hk, hd⟩ := honly _ _ (hideal _ _ _ hver)
  obtain ⟨_, hlns, hlh⟩ := parseSigBlob_eq_some hsb
  unfold signedDataFor at htv
  split at htv
  · simp at htv
  · rename_i size hsz
    split at htv
    · simp at htv
    · simp only [Bool.false_eq_true, if_false, Option.some.injEq] at htv
      rw [← htv] at hd
      have hh0 : sb.hashName = h0 ∧ sb.ns = ns0 := by
        obtain ⟨a, b, _⟩ := signedData_inj hlns hlh (hl3 _ msg) hl1 hl2 (hl3 _ m0) hd
        exact ⟨b, a⟩
      obtain ⟨hhn, hnn⟩ := hh0
      rw [hhn, hnn] at hd
      obtain ⟨_, _, hdig⟩ := signedData_inj hl1 hl2 (hl3 _ msg) hl1 hl2 (hl3 _ m0) hd
      subst hk
      refine ⟨hinj _ _ hdig, sb, cert, nsText, es, hsb, hnn, hhn, by rw [← hnn]; exact hns, hes, hauth⟩

/-- non-vacuity of the SSHSIG model: a blob built by the encoder validates against a matching entry and is
    refused for another message, another principal, a non-matching namespace pattern, an expired entry -/
theorem sshsig_example :
    let E : SigEnv := { magic := strBytes "SSHSIG", version := 1,
                        hashes := [(strBytes "sha512", 2)], hash := fun _ m => m.take 2,
                        decodeCert := fun _ => .importError, decodeKey := fun b => .ok b,
                        verify := fun k d s => s == k ++ d, certValid := fun _ _ _ => true }
    let key : Bytes := [7, 7]
    let ns := strBytes "file"
    let toSign := signedData E.magic ns (strBytes "sha512") [1, 2]
    let blob := encodeSigBlob E.magic 1 key ns (strBytes "sha512") (key ++ toSign)
    let entry (nsp : NsOpt) (vb : Option Int) : Entry :=
      { principals := parsePatList [97, 42, 44, 33, 97, 98], key := key, ca := false, namespaces := nsp,
        validAfter := none, validBefore := vb }
    validateSshsig E [1, 2] false blob [97, 99] (some [entry .absent none]) ⟨5, 1⟩ = .valid ∧
    validateSshsig E [1, 3] false blob [97, 99] (some [entry .absent none]) ⟨5, 1⟩ = .invalid ∧
    validateSshsig E [1, 2] false blob [97, 98] (some [entry .absent none]) ⟨5, 1⟩ = .invalid ∧
    validateSshsig E [1, 2] false blob [97, 99]
      (some [entry (.pats (parsePatList [103, 105, 116])) none]) ⟨5, 1⟩ = .invalid ∧
    validateSshsig E [1, 2] false blob [97, 99] (some [entry .absent (some 5)]) ⟨5, 1⟩ = .invalid ∧
    validateSshsig E [1, 2] false blob [97, 99] (some [entry .absent (some 5)]) ⟨9, 2⟩ = .valid ∧
    validateSshsig E [1, 2] false blob [97, 99] none ⟨5, 1⟩ = .raises := by
  decide +kernel

/-! ## 6. SSHSIG: the signer's certificate must be a user certificate (audit finding 5) -/

/-- `cert.validate(t, principal)` does not raise: the `certValid` of `SigEnv` for the type `t` that
    `validate_sshsig` passes (`Gen.C16.sshsigCertType`, read from the source) -/
def certValidFor (t : Nat) (c : Cert) (p : List Nat) (now : Q) : Bool :=
  (certValidate c t (some p) now).isNone

theorem certValidFor_iff (t : Nat) (c : Cert) (p : List Nat) (now : Q) :
    certValidFor t c p now = true ↔
      (t = 0 ∨ t = c.ctype) ∧ c.validAfter * now.den ≤ now.num ∧ now.num < c.validBefore * now.den ∧
      (c.principals = [] ∨ p ∈ c.principals) := by
  unfold certValidFor
  rw [Option.isNone_iff_eq_none, cert_validate_iff]
  simp

/-- **sshsig_cert_signer_is_user_certificate** ("its type matches the use").  When `validate_sshsig` validates
    the signer's certificate as type `t ≠ 0` (the repaired code: `t = 1`, CERT_TYPE_USER), a True answer that is
    not due to a plain-key entry for the signing key means the blob carries a certificate of exactly that type,
    inside its validity window, which lists the principal or lists none. -/
theorem sshsig_cert_signer_is_user_certificate (E : SigEnv) (t : Nat) (hE : E.certValid = certValidFor t)
    (ht : t ≠ 0) (msg : Bytes) (isHashed : Bool) (sig : Bytes) (principal : List Nat)
    (signers : Option (List Entry)) (now : Q)
    (h : validateSshsig E msg isHashed sig principal signers now = .valid) :
    ∃ es nsText key, signers = some es ∧
      ((∃ e ∈ es, e.ca = false ∧ e.key = key ∧ e.matchOptions principal nsText now = some true) ∨
       (∃ sb c, parseSigBlob E.magic E.version sig = some sb ∧ E.decodeCert sb.pub = .ok c ∧ c.ctype = t ∧
          c.validAfter * now.den ≤ now.num ∧ now.num < c.validBefore * now.den ∧
          (c.principals = [] ∨ principal ∈ c.principals))) := by
  obtain ⟨sb, cert, key, nsText, toVerify, es, hsb, hwho, _, _, _, hes, hauth⟩ :=
    sshsig_validate_sound E msg isHashed sig principal signers now h
  refine ⟨es, nsText, key, hes, ?_⟩
  cases hauth with
  | byKey e hmem hca hkey hmatch => exact Or.inl ⟨e, hmem, hca, hkey, hmatch⟩
  | byCa c caKey e hcert hck hmem hca hkey hmatch hvalid =>
    right
    rw [hE] at hvalid
    obtain ⟨h1, h2, h3, h4⟩ := (certValidFor_iff t c principal now).mp hvalid
    rcases hwho with ⟨c', hdc, hcc, _⟩ | ⟨_, hcn, _⟩
    · rw [hcert] at hcc
      simp only [Option.some.injEq] at hcc
      subst hcc
      refine ⟨sb, c, hsb, hdc, ?_, h2, h3, h4⟩
      rcases h1 with h1 | h1
      · exact absurd h1 ht
      · exact h1.symm
    · rw [hcert] at hcn; simp at hcn

/-- a host certificate (type 2) for principal `a`, valid in [100, 200) -/
def hostCertEx : Cert :=
  { alg := [], keyAlg := [], keyFields := [], serial := 0, ctype := 2, keyId := [], principals := [[97]],
    validAfter := 100, validBefore := 200, options := [], ca := [67, 65], blob := [], keyData := [7, 7] }

def sshsigEnvEx (t : Nat) : SigEnv :=
  { magic := strBytes "SSHSIG", version := 1, hashes := [(strBytes "sha512", 2)], hash := fun _ m => m.take 2,
    decodeCert := fun _ => .ok hostCertEx, decodeKey := fun b => .ok b,
    verify := fun k d s => s == k ++ d, certValid := certValidFor t }

/-- **Behaviour before the repair (witness).**  With `cert.validate(CERT_TYPE_ANY, …)` (a16cedc) a message signed
    with a HOST certificate of a CA listed as `cert-authority` validates; with CERT_TYPE_USER it does not.
    Replayed on the real code by the oracle (signature `sshsig-accepts-host-certificate-signer`). -/
theorem sshsig_host_cert_prefix_witness :
    let ns := strBytes "file"
    let toSign := signedData (strBytes "SSHSIG") ns (strBytes "sha512") [1, 2]
    let blob := encodeSigBlob (strBytes "SSHSIG") 1 [9] ns (strBytes "sha512") ([7, 7] ++ toSign)
    let es : List Entry := [{ principals := parsePatList [42], key := [67, 65], ca := true, namespaces := .absent,
                              validAfter := none, validBefore := none }]
    validateSshsig (sshsigEnvEx 0) [1, 2] false blob [97] (some es) ⟨150, 1⟩ = .valid ∧
    validateSshsig (sshsigEnvEx 1) [1, 2] false blob [97] (some es) ⟨150, 1⟩ = .invalid ∧
    validateSshsig (sshsigEnvEx 2) [1, 2] false blob [97] (some es) ⟨150, 1⟩ = .valid := by
  decide +kernel

/-- **Status of the current code** (type constant read from the source of `validate_sshsig`): the host
    certificate above passes the certificate check of `validate_sshsig` iff the code still passes CERT_TYPE_ANY. -/
theorem sshsig_cert_type_gen_status :
    certValidFor sshsigCertType hostCertEx [97] ⟨150, 1⟩ = true ↔ sshsigCertType = 0 := by
  decide +kernel

/-- and when the code passes CERT_TYPE_USER, no certificate of another type passes it, whatever it lists -/
theorem sshsig_gen_rejects_other_cert_types (h : sshsigCertType = 1) (c : Cert) (hc : c.ctype ≠ 1)
    (p : List Nat) (now : Q) : certValidFor sshsigCertType c p now = false := by
  cases hv : certValidFor sshsigCertType c p now with
  | false => rfl
  | true =>
    obtain ⟨h1, _⟩ := (certValidFor_iff _ c p now).mp hv
    rw [h] at h1
    rcases h1 with h1 | h1
    · simp at h1
    · exact absurd h1.symm hc

/-! ## 7. allowed-signers option names (audit findings 1 and 3) -/

theorem lowerAscii_idem (s : List Nat) : lowerAscii (lowerAscii s) = lowerAscii s := by
  unfold lowerAscii
  rw [List.map_map]
  apply List.map_congr_left
  intro c _
  simp only [Function.comp]
  repeat' split
  all_goals omega

/-- **Option names are stored in lower case** (finding 1): whatever `_add_option` stores when names are
    lower-cased is stored under a name that lower-casing leaves alone, so the exact-name lookups of
    `namespaces`, `valid-after`, `valid-before` and `cert-authority` see an option however its letters were cased. -/
theorem addOption_stores_lower (M : OptMode) (hl : M.lower = true) (opts res : List (List Nat × RawOpt))
    (option : List Nat) (h : addOption M opts option = some res) :
    ∃ name v, res = opts ++ [(name, v)] ∧ lowerAscii name = name := by
  unfold addOption at h
  split at h
  · simp at h
  · split at h
    · dsimp only at h
      split at h
      · simp at h
      · simp only [Option.some.injEq] at h
        exact ⟨_, _, h.symm, by simp [OptMode.norm, hl, lowerAscii_idem]⟩
    · dsimp only at h
      split at h
      · simp at h
      · simp only [Option.some.injEq] at h
        exact ⟨_, _, h.symm, by simp [OptMode.norm, hl, lowerAscii_idem]⟩

/-- **A flag that is then given a value is refused** (finding 3) -/
theorem addOption_flag_then_value (M : OptMode) (hs : M.flagThenValueRaises = true)
    (opts : List (List Nat × RawOpt)) (option : List Nat) (hne : option.head? ≠ some 61)
    (hv : option.contains 61 = true)
    (hflag : opts.reverse.lookup (M.norm (option.takeWhile (· ≠ 61))) = some .flag) :
    addOption M opts option = none := by
  unfold addOption
  split
  · simp at hne
  · simp_all

/-- **A bare option that needs a value is refused** (finding 3): `namespaces`, `valid-after`, `valid-before` -/
theorem addOption_bare_value_opt (M : OptMode) (hs : M.bareValueOptRaises = true)
    (opts : List (List Nat × RawOpt)) (option : List Nat) (hv : option.contains 61 = false)
    (hin : M.valueOpts.contains (M.norm option) = true) :
    addOption M opts option = none := by
  unfold addOption
  split
  · simp at hv
  · simp_all

def optModePreFix (valueOpts : List (List Nat)) : OptMode :=
  { lower := false, flagThenValueRaises := false, bareValueOptRaises := false, valueOpts := valueOpts }

/-- the parser with all switches off is the code before the repairs, up to the class of the exception -/
theorem addOption_prefix_agrees (vo : List (List Nat)) (opts : List (List Nat × RawOpt)) (option : List Nat) :
    addOption (optModePreFix vo) opts option =
      match addOptionPreFix vo opts option with
      | .ok o => some o
      | _ => none := by
  unfold addOption addOptionPreFix optModePreFix OptMode.norm
  split
  · rfl
  · simp only [Bool.false_eq_true, if_false, false_or, false_and]
    split
    · split <;> rfl
    · rfl

def signerValueOptsSnapshot : List (List Nat) := [nm "namespaces", nm "valid-after", nm "valid-before"]
def optModeFixed : OptMode :=
  { lower := true, flagThenValueRaises := true, bareValueOptRaises := true, valueOpts := signerValueOptsSnapshot }

/-- **Behaviour before the repair (witness, finding 3).**  `foo,foo=1` made `_add_option` call `append` on the
    stored True (AttributeError, not ValueError); bare `namespaces` was stored as True and failed only when the
    entry was matched.  The repaired parser answers ValueError to both.  Replayed on the real code by the oracle
    (signature `allowed-signers-malformed-option-leaks-exception`). -/
theorem addOption_prefix_witness :
    addOptionPreFix signerValueOptsSnapshot [(nm "foo", .flag)] (nm "foo=1") = .crash ∧
    addOption optModeFixed [(nm "foo", .flag)] (nm "foo=1") = none ∧
    addOptionPreFix signerValueOptsSnapshot [] (nm "namespaces") = .ok [(nm "namespaces", .flag)] ∧
    addOption optModeFixed [] (nm "namespaces") = none ∧
    addOption optModeFixed [] (nm "Namespaces=git") = some [(nm "namespaces", .value (nm "git"))] ∧
    addOptionPreFix signerValueOptsSnapshot [] (nm "Namespaces=git") = .ok [(nm "Namespaces", .value (nm "git"))] := by
  decide +kernel

/-- what an allowed-signers line restricts, as a Bool (for `decide`) -/
def lineRestricts (M : OptMode) (line : String) (ns : NsOpt) (vb : Option Int) (ca : Bool) : Bool :=
  match lineEntry M (fun s => if s = nm "KEY" then some [1] else none)
          (fun v => if v = nm "5" then some 5 else none) (nm line) with
  | .entry e => e.namespaces == ns && e.validBefore == vb && e.ca == ca
  | _ => false

/-- **Behaviour before the repair (witness, finding 1).**  `Namespaces="git"`, `Valid-Before=5` and
    `Cert-Authority` written with capitals restricted nothing (the entry authorised every namespace, for ever,
    as a plain key); the repaired parser reads them as the lower-case keywords.  Replayed on the real code by the
    oracle (signature `sshsig-option-keyword-case-sensitive`). -/
theorem option_case_prefix_witness :
    lineRestricts (optModePreFix signerValueOptsSnapshot) "alice Namespaces=\"git\",Valid-Before=5,Cert-Authority KEY"
      .absent none false = true ∧
    lineRestricts optModeFixed "alice Namespaces=\"git\",Valid-Before=5,Cert-Authority KEY"
      (.pats (parsePatList (nm "git"))) (some 5) true = true ∧
    lineRestricts optModeFixed "alice namespaces=\"git\",valid-before=5,cert-authority KEY"
      (.pats (parsePatList (nm "git"))) (some 5) true = true := by
  decide +kernel

/-- **Status of the current code** (switches probed on the live `OptionsParser`): the capitalised line is read
    as a restriction iff the current parser lower-cases option names. -/
theorem option_case_gen_status :
    lineRestricts signerOptMode "alice Namespaces=\"git\",Valid-Before=5,Cert-Authority KEY"
      (.pats (parsePatList (nm "git"))) (some 5) true = true ↔ signerOptMode.lower = true := by
  decide +kernel

/-- and the malformed forms of finding 3 make the current loader raise its ValueError (`.raises`) iff the current
    parser has the two checks -/
theorem option_strict_gen_status :
    ((match lineEntry signerOptMode (fun s => if s = nm "KEY" then some [1] else none) (fun _ => none)
              (nm "alice namespaces KEY") with | .raises => true | _ => false) = true ↔
       signerOptMode.bareValueOptRaises = true) ∧
    ((match lineEntry signerOptMode (fun s => if s = nm "KEY" then some [1] else none) (fun _ => none)
              (nm "alice namespaces,namespaces=git KEY") with | .raises => true | _ => false) = true ↔
       (signerOptMode.bareValueOptRaises = true ∨ signerOptMode.flagThenValueRaises = true)) := by
  decide +kernel

/-! ## 7b. the repaired state is what the current source shows (reverting a repair breaks these) -/

/-- **Tie (F122)**: `validate_sshsig` asks `cert.validate` for a USER certificate. -/
theorem sshsig_cert_type_tie : sshsigCertType = 1 := by decide

/-- hence, on the current code, a certificate of any other type never passes the SSHSIG certificate check -/
theorem sshsig_rejects_other_cert_types_now (c : Cert) (hc : c.ctype ≠ 1) (p : List Nat) (now : Q) :
    certValidFor sshsigCertType c p now = false :=
  sshsig_gen_rejects_other_cert_types sshsig_cert_type_tie c hc p now

/-- **Tie (F119, F123)**: the live option parser lower-cases names, refuses a flag repeated with a value and a value
    option given bare. -/
theorem signer_option_parser_tie :
    signerOptMode.lower = true ∧ signerOptMode.flagThenValueRaises = true ∧
    signerOptMode.bareValueOptRaises = true := by decide

/-! ## 8. allowed-signers data: one line, one entry (F146) -/

/-- **Tie to the code**: the loader splits at newline only, which is what `splitLines` models. -/
theorem signers_split_tie : Gen.C16.signersSplitNewlineOnly = true := by decide

theorem splitNlAux_no_newline (s cur : List Nat) (h : 10 ∉ s) : splitNlAux s cur = [cur.reverse ++ s] := by
  induction s generalizing cur with
  | nil => simp [splitNlAux]
  | cons c rest ih =>
    have hc : c ≠ 10 := fun e => h (e ▸ List.mem_cons_self)
    have hr : 10 ∉ rest := fun m => h (List.mem_cons_of_mem _ m)
    rw [splitNlAux, if_neg hc, ih _ hr]
    simp

theorem loadLines_single (M : OptMode) (ik : List Nat → Option Bytes) (pt : List Nat → Option Int) (l : List Nat) :
    loadLines M ik pt [l] = none ∨ loadLines M ik pt [l] = some [] ∨ ∃ e, loadLines M ik pt [l] = some [e] := by
  simp only [loadLines]
  split
  · exact Or.inr (Or.inl rfl)
  · split
    · exact Or.inl rfl
    · exact Or.inr (Or.inl rfl)
    · exact Or.inr (Or.inr ⟨_, rfl⟩)

/-- **One line, one entry**: allowed-signers data without a newline in it is read as a single line, so it never
    yields more than one entry — whatever else it contains (vertical tab, form feed, the separators FS GS RS, NEL,
    the Unicode line and paragraph separators, a lone carriage return: the characters `str.splitlines()` breaks
    at).  A key placed in the comment of a line can therefore not become a signer of its own. -/
theorem signers_one_line_one_entry (M : OptMode) (ik : List Nat → Option Bytes) (pt : List Nat → Option Int)
    (text : List Nat) (h : 10 ∉ text) (es : List Entry) (hl : loadSigners M ik pt text = some es) :
    es.length = 1 := by
  unfold loadSigners loadSignersWith splitLines at hl
  rw [splitNlAux_no_newline text [] h] at hl
  rcases loadLines_single M ik pt ([].reverse ++ text) with h0 | h0 | ⟨e, h0⟩
  · rw [h0] at hl; cases hl
  · rw [h0] at hl; cases hl
  · rw [h0] at hl
    simp only [Option.some.injEq] at hl
    subst hl
    rfl

/-- **Witness of defect F146 (repaired)**: `alice KEYA c<FF>mallory KEYM` — with `splitlines()` the form feed ended
    the line and the text in the comment was loaded as a second entry, authorising mallory's key; read at newlines
    only there is one entry, alice's. -/
theorem signers_hidden_entry_prefix_witness :
    let ik : List Nat → Option Bytes := fun s => if s = nm "KEYA c\x0cmallory KEYM" ∨ s = nm "KEYA c" then some [1]
                                                else if s = nm "KEYM" then some [2] else none
    let text := nm "alice KEYA c\x0cmallory KEYM"
    ((loadSignersWith splitLinesPreFix optModeFixed ik (fun _ => none) text).map
        (fun es => es.map (fun e => e.key))) = some [[1], [2]] ∧
    ((loadSigners optModeFixed ik (fun _ => none) text).map (fun es => es.map (fun e => e.key))) = some [[1]] := by
  decide +kernel

end AsyncsshModel.C16
