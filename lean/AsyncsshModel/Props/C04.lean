import AsyncsshModel.Lemmas.HostTrust
import AsyncsshModel.Lemmas.HostTrustMachine
/-
  C04 — Client only talks to a server whose host key it trusts.

  "A client connection becomes usable only if the server proved possession of a host key that the client's trust
   configuration accepts for that host, address and port: a listed key that is not revoked, or a certificate signed
   by a trusted, non-revoked CA whose type is host, whose validity window contains now and whose principals cover
   the host.  Otherwise the connection fails with a host-key error before any credentials are sent."

  The trust configuration enters as the three sets `match_known_hosts` returned for
  (`lookupHost alias host`, addr, `lookupPort port`) — the C17 theorems say what those sets are for every
  known_hosts text.  Signatures are an ideal-signature parameter: the law is a hypothesis of `liar_rejected`.
  The certificate tests, their presence and the arguments of `cert.validate` come from `Gen/C04.lean`, which is
  regenerated from the source on every run: the theorems below are re-proved against what the code says now.
-/
namespace AsyncsshModel.Props.C04

open AsyncsshModel.HostTrust AsyncsshModel.Gen

variable {Hash Sig : Type}

/-! ## the decision -/

/-- the regenerated `validate` performs all four certificate checks (type, not-yet-valid, expired, principal) -/
theorem certChecks_complete : 0 ∈ C04.certChecks ∧ 1 ∈ C04.certChecks ∧ 2 ∈ C04.certChecks ∧ 3 ∈ C04.certChecks := by
  decide

/-- … and no check this model does not know -/
theorem certChecks_known : ∀ chk ∈ C04.certChecks, chk < 4 := by decide

/-- The certificate checks pass exactly when: type = host, valid_after ≤ now < valid_before (now in quarter
    seconds), and the principal list is empty or names the host. -/
theorem certValidate_host_ok_iff (c : Cert) (now4 : Nat) (host : String) :
    certValidate c C04.hostCertTypeArg now4 (if C04.passesHostAsPrincipal then some host else none) = .ok () ↔
      (c.certType = C04.certTypeHost ∧ 4 * c.validAfter ≤ now4 ∧ now4 < 4 * c.validBefore ∧
        (c.principals = [] ∨ host ∈ c.principals)) := by
  unfold certValidate
  rw [runChecks_ok_iff]
  obtain ⟨h0, h1, h2, h3⟩ := certChecks_complete
  constructor
  · intro h
    have e0 := h 0 h0
    have e1 := h 1 h1
    have e2 := h 2 h2
    have e3 := h 3 h3
    simp only [checkFails, C04.wrongTypeExpr, C04.notYetValidExpr, C04.expiredExpr, C04.principalMismatchExpr,
      C04.hostCertTypeArg, C04.passesHostAsPrincipal] at e0 e1 e2 e3
    simp only [C04.certTypeHost]
    refine ⟨?_, ?_, ?_, ?_⟩
    · simp at e0; omega
    · simp at e1; omega
    · simp at e2; omega
    · simp at e3
      by_cases hp : c.principals = []
      · exact Or.inl hp
      · exact Or.inr (e3 hp)
  · rintro ⟨ht, ha, hb, hp⟩ chk hm
    have hlt := certChecks_known chk hm
    simp only [C04.certTypeHost] at ht
    match chk, hlt with
    | 0, _ => simp [checkFails, C04.wrongTypeExpr, C04.hostCertTypeArg, ht]
    | 1, _ => simp [checkFails, C04.notYetValidExpr]; omega
    | 2, _ => simp [checkFails, C04.expiredExpr]; omega
    | 3, _ =>
      simp only [checkFails, C04.principalMismatchExpr, C04.passesHostAsPrincipal]
      rcases hp with hp | hp
      · simp [hp]
      · simp [hp]

/-- the regenerated `_validate_openssh_host_certificate` looks the CA key up in the revoked set -/
theorem caRevocationChecked : 1 ∈ C04.certRevocationChecks := by decide

/-- `_validate_openssh_host_certificate` accepts exactly the certificates of the decision table -/
theorem validateCert_ok_iff (t : Trust) (app : App) (host addr : String) (port now4 : Nat) (c : Cert) (k' : KeyId) :
    validateCert (some t) app host addr port now4 c = .ok k' ↔
      (k' = c.key ∧ c.ca ∉ t.revoked ∧ (0 ∈ C04.certRevocationChecks → c.key ∉ t.revoked) ∧
        (c.ca ∈ t.cas ∨ app.caKeyOk host addr port c.ca = true) ∧
        c.certType = C04.certTypeHost ∧ 4 * c.validAfter ≤ now4 ∧ now4 < 4 * c.validBefore ∧
        (c.principals = [] ∨ host ∈ c.principals)) := by
  unfold validateCert
  have hv := certValidate_host_ok_iff c now4 host
  have hrev := revocationFails_none_iff t c C04.certRevocationChecks
  cases hrf : revocationFails t c C04.certRevocationChecks with
  | some r =>
    have hno : ¬ ((0 ∈ C04.certRevocationChecks → c.key ∉ t.revoked) ∧
        (1 ∈ C04.certRevocationChecks → c.ca ∉ t.revoked)) := by
      intro h; rw [hrev.mpr h] at hrf; cases hrf
    simp only [hrf]
    constructor
    · intro h; cases h
    · rintro ⟨_, h1, h0, _⟩
      exact absurd ⟨h0, fun _ => h1⟩ hno
  | none =>
    obtain ⟨hk0, hk1⟩ := hrev.mp hrf
    have hr : c.ca ∉ t.revoked := hk1 caRevocationChecked
    simp only [hrf]
    cases hcv : certValidate c C04.hostCertTypeArg now4 (if C04.passesHostAsPrincipal then some host else none) with
    | error r =>
      have hno : ¬ (c.certType = C04.certTypeHost ∧ 4 * c.validAfter ≤ now4 ∧ now4 < 4 * c.validBefore ∧
          (c.principals = [] ∨ host ∈ c.principals)) := by
        intro h; rw [hv.mpr h] at hcv; cases hcv
      constructor
      · intro h
        split at h <;> cases h
      · rintro ⟨_, _, _, _, h⟩
        exact absurd h hno
    | ok u =>
      have hyes := hv.mp (by rw [hcv])
      by_cases ht : c.ca ∈ t.cas
      · simp [hr, ht, hyes]
        exact ⟨fun h => ⟨h.symm, hk0⟩, fun h => h.1.symm⟩
      · cases hc : app.caKeyOk host addr port c.ca
        · simp [ht]
        · simp [hr, hyes]
          exact ⟨fun h => ⟨h.symm, hk0⟩, fun h => h.1.symm⟩

/-- the current source looks the certified key of a host certificate up in the revoked set
    (regenerated from `_validate_openssh_host_certificate`; false of the tree before commit 6942731) -/
theorem subjectRevocationChecked : 0 ∈ C04.certRevocationChecks := by decide

/-- **Decision table (clause "a listed key that is not revoked, or a certificate …").**  For every trust
    configuration, application, host/address/port, time, and every blob classification: the client settles on key
    `k` for verifying the exchange signature iff
    * the blob is the plain key `k`, `k` is not revoked, and `k` is listed or the application callback
      `validate_host_public_key` said yes; or
    * the blob is an OpenSSH certificate for `k` whose CA is not revoked, whose CA is listed as `@cert-authority`
      or approved by `validate_host_ca_key`, whose type is host (2), with `valid_after ≤ now < valid_before`
      (`now4` = time in quarter seconds), whose principal list is empty or contains the host name, and whose
      certified key `k` is itself not revoked (the look-ups `_validate_openssh_host_certificate` performs are
      regenerated into `Gen.C04.certRevocationChecks`; this clause is re-proved against them); or
    * the blob is an X.509 chain and the (unmodelled) chain validation returned `k`. -/
theorem accept_iff (t : Trust) (app : App) (host addr : String) (port now4 : Nat) (p : Presented) (k : KeyId) :
    validateHostKey (some t) app host addr port now4 p = .ok k ↔
      ((p = .key k ∧ k ∉ t.revoked ∧ (k ∈ t.trusted ∨ app.hostKeyOk host addr port k = true)) ∨
       (∃ c, p = .cert c ∧ k = c.key ∧ c.ca ∉ t.revoked ∧ c.key ∉ t.revoked ∧
          (c.ca ∈ t.cas ∨ app.caKeyOk host addr port c.ca = true) ∧
          c.certType = 2 ∧ 4 * c.validAfter ≤ now4 ∧ now4 < 4 * c.validBefore ∧
          (c.principals = [] ∨ host ∈ c.principals)) ∨
       (p = .x509 ∧ app.x509Verdict = .ok k)) := by
  cases p with
  | key k0 =>
    simp only [validateHostKey, validatePlain_ok_iff]
    constructor
    · rintro ⟨rfl, h1, h2⟩
      exact Or.inl ⟨rfl, h1, h2⟩
    · rintro (⟨h0, h1, h2⟩ | ⟨c, h0, _⟩ | ⟨h0, _⟩)
      · have hk : k0 = k := Presented.key.inj h0
        subst hk
        exact ⟨rfl, h1, h2⟩
      · cases h0
      · cases h0
  | cert c0 =>
    simp only [validateHostKey, validateCert_ok_iff]
    have e : C04.certTypeHost = 2 := rfl
    have hsrc : (0 ∈ C04.certRevocationChecks → c0.key ∉ t.revoked) ↔ c0.key ∉ t.revoked :=
      ⟨fun h => h subjectRevocationChecked, fun h _ => h⟩
    rw [e, hsrc]
    constructor
    · intro h
      exact Or.inr (Or.inl ⟨c0, rfl, h⟩)
    · rintro (⟨h0, _⟩ | ⟨c, h0, h⟩ | ⟨h0, _⟩)
      · cases h0
      · cases h0; exact h
      · cases h0
  | x509 =>
    simp only [validateHostKey]
    constructor
    · intro h; exact Or.inr (Or.inr ⟨trivial, h⟩)
    · rintro (⟨h0, _⟩ | ⟨c, h0, _⟩ | ⟨_, h⟩)
      · cases h0
      · cases h0
      · exact h
  | garbage =>
    simp only [validateHostKey]
    constructor
    · intro h; cases h
    · rintro (⟨h0, _⟩ | ⟨c, h0, _⟩ | ⟨h0, _⟩) <;> cases h0

/-- **The statement's table for an application that does not override the callbacks** (the `SSHClient` defaults
    answer False; no X.509 trust): acceptance ⇔ listed-and-not-revoked key, or host certificate of a listed,
    non-revoked CA inside its validity window whose principals are empty or name the host. -/
theorem accept_iff_default (t : Trust) (host addr : String) (port now4 : Nat) (p : Presented) :
    acceptHostKey (some t) App.default host addr port now4 p = true ↔
      ((∃ k, p = .key k ∧ k ∈ t.trusted ∧ k ∉ t.revoked) ∨
       (∃ c, p = .cert c ∧ c.ca ∈ t.cas ∧ c.ca ∉ t.revoked ∧ c.key ∉ t.revoked ∧
          c.certType = 2 ∧
          4 * c.validAfter ≤ now4 ∧ now4 < 4 * c.validBefore ∧ (c.principals = [] ∨ host ∈ c.principals))) := by
  unfold acceptHostKey
  constructor
  · intro h
    cases hv : validateHostKey (some t) App.default host addr port now4 p with
    | error r => rw [hv] at h; cases h
    | ok k =>
      rcases (accept_iff t App.default host addr port now4 p k).mp hv with
        ⟨h0, h1, h2⟩ | ⟨c, h0, _, h2, hk, h3, h4⟩ | ⟨_, h1⟩
      · rcases h2 with h2 | h2
        · exact Or.inl ⟨k, h0, h2, h1⟩
        · simp [App.default] at h2
      · rcases h3 with h3 | h3
        · exact Or.inr ⟨c, h0, h3, h2, hk, h4⟩
        · simp [App.default] at h3
      · simp [App.default] at h1
  · rintro (⟨k, h0, h1, h2⟩ | ⟨c, h0, h1, h2, hk, h3⟩)
    · rw [(accept_iff t App.default host addr port now4 p k).mpr (Or.inl ⟨h0, h2, Or.inl h1⟩)]
    · rw [(accept_iff t App.default host addr port now4 p c.key).mpr
        (Or.inr (Or.inl ⟨c, h0, rfl, h2, hk, Or.inl h1, h3⟩))]

/-- `known_hosts=None` is the documented opt-out: nothing is checked, any decodable key or certificate is used. -/
theorem accept_without_known_hosts (app : App) (host addr : String) (port now4 : Nat) :
    (∀ k, validateHostKey none app host addr port now4 (.key k) = .ok k) ∧
    (∀ c, validateHostKey none app host addr port now4 (.cert c) = .ok c.key) ∧
    validateHostKey none app host addr port now4 .garbage = .error .undecodable := by
  refine ⟨fun k => rfl, fun c => rfl, rfl⟩

/-- a certificate whose CA is revoked is rejected with a revocation reason (which of the two depends on the order
    of the look-ups in the source) -/
theorem ca_revoked_reason (t : Trust) (app : App) (host addr : String) (port now4 : Nat) (c : Cert)
    (hc : c.ca ∈ t.revoked) :
    ∃ r, validateHostKey (some t) app host addr port now4 (.cert c) = .error r ∧
      (r = .caRevoked ∨ r = .keyRevoked) := by
  have key : ∀ l : List Nat, 1 ∈ l → ∃ r, revocationFails t c l = some r ∧ (r = .caRevoked ∨ r = .keyRevoked) := by
    intro l
    induction l with
    | nil => intro h; cases h
    | cons a l ih =>
      intro h
      unfold revocationFails
      by_cases h0 : a = 0 ∧ t.revoked.contains c.key = true
      · exact ⟨.keyRevoked, by rw [if_pos h0], Or.inr rfl⟩
      · by_cases h1 : a = 1 ∧ t.revoked.contains c.ca = true
        · exact ⟨.caRevoked, by rw [if_neg h0, if_pos h1], Or.inl rfl⟩
        · simp only [h0, h1, if_false]
          rcases List.mem_cons.mp h with h | h
          · exact absurd ⟨h.symm, by simpa using hc⟩ h1
          · exact ih h
  obtain ⟨r, hr, hor⟩ := key _ caRevocationChecked
  exact ⟨r, by simp [validateHostKey, validateCert, hr], hor⟩

/-- **Revocation beats everything the code compares it with**: a presented plain key that is revoked, and a
    certificate whose CA key is revoked, are rejected whatever else is listed and whatever the callbacks answer. -/
theorem revoked_wins (t : Trust) (app : App) (host addr : String) (port now4 : Nat) :
    (∀ k, k ∈ t.revoked → validateHostKey (some t) app host addr port now4 (.key k) = .error .keyRevoked) ∧
    (∀ c, c.ca ∈ t.revoked → (∀ k, validateHostKey (some t) app host addr port now4 (.cert c) ≠ .ok k) ∧
      ∃ r, validateHostKey (some t) app host addr port now4 (.cert c) = .error r ∧
        (r = .caRevoked ∨ r = .keyRevoked)) := by
  constructor
  · intro k hk
    simp [validateHostKey, validatePlain, hk]
  · intro c hc
    have hne : ∀ k, validateHostKey (some t) app host addr port now4 (.cert c) ≠ .ok k := by
      intro k h
      rcases (accept_iff t app host addr port now4 _ k).mp h with ⟨h0, _⟩ | ⟨c', h0, _, h1, _⟩ | ⟨h0, _⟩
      · cases h0
      · cases h0; exact h1 hc
      · cases h0
    exact ⟨hne, ca_revoked_reason t app host addr port now4 c hc⟩

/-- The key finally used is never a revoked one — PARTIAL: only when it was presented as a plain key
    (hypothesis `hplain`).  For certificates the claim depends on the source, see the next two theorems. -/
theorem revoked_never_used_partial (t : Trust) (app : App) (host addr : String) (port now4 : Nat) (p : Presented)
    (k : KeyId) (hplain : ∃ k0, p = .key k0)
    (h : validateHostKey (some t) app host addr port now4 p = .ok k) : k ∉ t.revoked := by
  obtain ⟨k0, rfl⟩ := hplain
  rcases (accept_iff t app host addr port now4 _ k).mp h with ⟨_, h1, _⟩ | ⟨c, h0, _⟩ | ⟨h0, _⟩
  · exact h1
  · cases h0
  · cases h0

/-- **"A revoked key is never accepted whatever else matches"**: for every plain key and every OpenSSH
    certificate the key the client settles on is not in the revoked set.  Proved against the regenerated list of
    revocation look-ups (`subjectRevocationChecked`): it stops compiling if the source drops the look-up of
    `cert.key` again. -/
theorem revoked_never_used (t : Trust) (app : App) (host addr : String) (port now4 : Nat) (p : Presented)
    (k : KeyId) (hx : p ≠ .x509)
    (h : validateHostKey (some t) app host addr port now4 p = .ok k) : k ∉ t.revoked := by
  rcases (accept_iff t app host addr port now4 p k).mp h with ⟨_, h1, _⟩ | ⟨c, _, hk, _, h2, _⟩ | ⟨h0, _⟩
  · exact h1
  · rw [hk]; exact h2
  · exact absurd h0 hx

/-- **Witness of the defect repaired by commit 6942731** (kept as a statement about any source that does NOT look
    `cert.key` up): a key listed as `@revoked` is accepted when the server presents it inside a host certificate
    signed by a trusted CA, because only `cert.signing_key` is compared with the revoked set (OpenSSH's
    `check_key_not_revoked` tests both).  The oracle keeps replaying this input on the real code
    (signature `revoked-key-accepted-via-certificate`). -/
theorem revoked_wins_full_false (hsrc : 0 ∉ C04.certRevocationChecks) :
    ∃ (t : Trust) (c : Cert) (host addr : String) (port now4 : Nat),
      c.key ∈ t.revoked ∧ validateCert (some t) App.default host addr port now4 c = .ok c.key := by
  refine ⟨⟨[], [7], [1]⟩, ⟨1, 7, 2, 0, 100, []⟩, "h", "a", 22, 40, by simp, ?_⟩
  rw [validateCert_ok_iff]
  simp [hsrc, C04.certTypeHost]

/-! ## ordering in the handshake -/

/-- **No credentials before trust (clause "before any credentials are sent").**  In every trace of the client
    machine, for every sequence of packets/times the server and network choose, each SERVICE_REQUEST and each
    USERAUTH_REQUEST the client emits is preceded by: a KEX reply whose blob the decision accepted as key `k` and
    which fits the negotiated host key algorithm, the trace event `hostKeyAccepted k`, then `sigVerified k h` for
    a signature that names the negotiated algorithm's signature algorithm and verifies under `k` over the
    exchange hash `h` of that reply. -/
theorem no_auth_before_trust (cfg : Cfg Hash Sig) (evs : List (Ev Hash Sig)) (pre post : List (Out Hash))
    (o : Out Hash) (hrun : run cfg St.init evs = pre ++ o :: post) (ho : o.isAuthTraffic = true) :
    ∃ p h sg now4 k, Ev.kexReply p h sg now4 ∈ evs ∧
      validateHostKey cfg.trust cfg.app cfg.host cfg.addr cfg.port now4 p = .ok k ∧
      cfg.keyAlgOk p = true ∧ cfg.sigAlgOk sg = true ∧
      cfg.verify k h sg = true ∧
      [Out.hostKeyAccepted k, Out.sigVerified k h].Sublist pre := by
  have hs := run_safe cfg evs evs St.init [] (fun _ h => h) wf_init (by simp [St.init])
  have := Safe.split pre [] _ o post hs hrun ho
  simpa [Est] using this

/-- **A lying server never gets that far.**  Ideal signatures: `verify k h sg` implies the holder of `k` signed
    `h` (`Signed`).  If for every KEX reply the server sends, the key the client would accept for the presented
    blob did not sign that exchange hash (the server shows a trusted key or certificate it cannot sign for,
    replays an old signature, signs with another key …), then no SERVICE_REQUEST / USERAUTH_REQUEST is ever
    emitted — whatever else the server sends, in any order. -/
theorem liar_rejected (cfg : Cfg Hash Sig) (Signed : KeyId → Hash → Sig → Prop)
    (ideal : ∀ k h sg, cfg.verify k h sg = true → Signed k h sg)
    (evs : List (Ev Hash Sig))
    (liar : ∀ p h sg now4 k, Ev.kexReply p h sg now4 ∈ evs →
      validateHostKey cfg.trust cfg.app cfg.host cfg.addr cfg.port now4 p = .ok k → ¬ Signed k h sg) :
    ∀ o ∈ run cfg St.init evs, o.isAuthTraffic = false := by
  intro o hmem
  cases hauth : o.isAuthTraffic with
  | false => rfl
  | true =>
    obtain ⟨pre, post, hsplit⟩ := List.append_of_mem hmem
    obtain ⟨p, h, sg, now4, k, hm, hv, _, _, hs, _⟩ := no_auth_before_trust cfg evs pre post o hsplit hauth
    exact absurd (ideal k h sg hs) (liar p h sg now4 k hm hv)

/-- **An untrusted server gets a host-key error and nothing else (clause "otherwise the connection fails with a
    host-key error").**  If the first KEX reply carries a blob the decision rejects with reason `r`, the whole
    trace is: `hostKeyRejected r`, disconnect with HostKeyNotVerifiable — no NEWKEYS, nothing after, whatever
    follows on the wire. -/
theorem untrusted_fails_closed (cfg : Cfg Hash Sig) (p : Presented) (h : Hash) (sg : Sig) (now4 : Nat) (r : Reject)
    (rest : List (Ev Hash Sig)) (hka : cfg.keyAlgOk p = true)
    (hrej : validateHostKey cfg.trust cfg.app cfg.host cfg.addr cfg.port now4 p = .error r) :
    run cfg St.init (.kexInit :: .kexReply p h sg now4 :: rest) =
      [.hostKeyRejected r, .disconnect (.hostKeyNotVerifiable r)] := by
  simp [run, step, validateServerHostKey, St.init, hka, hrej, fail, run_closed]

/-- **A host key of another type than negotiated gets a host-key error and nothing else**, trusted or not: the
    blob decodes but cannot be used with the host key algorithm this connection negotiated. -/
theorem wrong_key_alg_fails_closed (cfg : Cfg Hash Sig) (p : Presented) (h : Hash) (sg : Sig) (now4 : Nat)
    (rest : List (Ev Hash Sig)) (hp : p ≠ .garbage) (hka : cfg.keyAlgOk p = false) :
    run cfg St.init (.kexInit :: .kexReply p h sg now4 :: rest) =
      [.hostKeyRejected .algMismatch, .disconnect (.hostKeyNotVerifiable .algMismatch)] := by
  simp [run, step, validateServerHostKey, St.init, hp, hka, fail, run_closed]

/-- **A signature made with another signature algorithm than the negotiated one ends the handshake**, for a trusted
    key as well and whatever the signature bytes are: the key handed back by `validate_server_host_key` accepts only
    the negotiated algorithm's signature algorithm, so the signature does not verify — KeyExchangeFailed, nothing
    else. -/
theorem wrong_sig_alg_fails_closed (cfg : Cfg Hash Sig) (p : Presented) (h : Hash) (sg : Sig) (now4 : Nat)
    (k : KeyId) (rest : List (Ev Hash Sig)) (hka : cfg.keyAlgOk p = true)
    (hacc : validateHostKey cfg.trust cfg.app cfg.host cfg.addr cfg.port now4 p = .ok k)
    (hsa : cfg.sigAlgOk sg = false) :
    run cfg St.init (.kexInit :: .kexReply p h sg now4 :: rest) =
      [.hostKeyAccepted k, .sigBad k, .disconnect .keyExchangeFailed] := by
  simp [run, step, validateServerHostKey, St.init, hka, hacc, hsa, fail, run_closed]

/-- The same for a trusted blob with a signature that does not verify: KeyExchangeFailed, nothing else. -/
theorem bad_signature_fails_closed (cfg : Cfg Hash Sig) (p : Presented) (h : Hash) (sg : Sig) (now4 : Nat)
    (k : KeyId) (rest : List (Ev Hash Sig)) (hka : cfg.keyAlgOk p = true) (hsa : cfg.sigAlgOk sg = true)
    (hacc : validateHostKey cfg.trust cfg.app cfg.host cfg.addr cfg.port now4 p = .ok k)
    (hbad : cfg.verify k h sg = false) :
    run cfg St.init (.kexInit :: .kexReply p h sg now4 :: rest) =
      [.hostKeyAccepted k, .sigBad k, .disconnect .keyExchangeFailed] := by
  simp [run, step, validateServerHostKey, St.init, hka, hsa, hacc, hbad, fail, run_closed]

/-- An honest, trusted server: the trace of a normal connection start. -/
theorem trusted_proceeds (cfg : Cfg Hash Sig) (p : Presented) (h : Hash) (sg : Sig) (now4 : Nat) (k : KeyId)
    (hka : cfg.keyAlgOk p = true) (hsa : cfg.sigAlgOk sg = true)
    (hacc : validateHostKey cfg.trust cfg.app cfg.host cfg.addr cfg.port now4 p = .ok k)
    (hgood : cfg.verify k h sg = true) :
    run cfg St.init [.kexInit, .kexReply p h sg now4, .newkeys, .serviceAccept true] =
      [.hostKeyAccepted k, .sigVerified k h, .sendNewkeys, .sendServiceRequest, .sendUserauthRequest] := by
  simp [run, step, validateServerHostKey, St.init, hka, hsa, hacc, hgood]

/-! ## what is looked up and offered -/

/-- The host looked up in known_hosts and checked against certificate principals is the alias when one is set,
    else the host; the port is dropped from the lookup exactly when it is the default port. -/
theorem lookup_args (alias host : String) (port : Nat) :
    (alias ≠ "" → lookupHost alias host = alias) ∧ (lookupHost "" host = host) ∧
    (lookupPort 22 = none) ∧ (port ≠ 22 → lookupPort port = some port) := by
  refine ⟨?_, ?_, ?_, ?_⟩
  · intro h
    have : alias.isEmpty = false := by
      cases hh : alias.isEmpty
      · rfl
      · exact absurd (String.isEmpty_iff.mp hh) h
    simp [lookupHost, this]
  · rfl
  · rfl
  · intro h
    simp [lookupPort, C04.defaultPort, h]

theorem trustedKeyAlgs_acc_subset (tbl : List (String × List String)) :
    ∀ (l acc : List String), ∀ x ∈ acc, x ∈ trustedKeyAlgs tbl acc l
  | [], _, _, hx => hx
  | a :: l, acc, x, hx => by
    unfold trustedKeyAlgs
    split
    · exact trustedKeyAlgs_acc_subset tbl l acc x hx
    · exact trustedKeyAlgs_acc_subset tbl l _ x (List.mem_append_left _ hx)

/-- With the `server_host_key_algs` option unset, every signature algorithm of every trusted key's type is offered
    in KEXINIT (a server holding a listed key is not locked out by the algorithm choice), unless an earlier key
    already put that type's name on the list. -/
theorem offered_covers_trusted_keys (trust : Option Trust) (keyAlgs : List String) (a : String)
    (ha : a ∈ keyAlgs) : a ∈ offeredAlgs .unset trust keyAlgs ∨
      ∀ x ∈ (C04.sigAlgs.lookup a).getD [a], x ∈ offeredAlgs .unset trust keyAlgs := by
  have key : ∀ (l acc : List String), a ∈ l → a ∈ trustedKeyAlgs C04.sigAlgs acc l ∨
      ∀ x ∈ (C04.sigAlgs.lookup a).getD [a], x ∈ trustedKeyAlgs C04.sigAlgs acc l := by
    intro l
    induction l with
    | nil => intro acc h; cases h
    | cons b l ih =>
      intro acc h
      unfold trustedKeyAlgs
      rcases List.mem_cons.mp h with rfl | h
      · split
        · rename_i hc
          exact Or.inl (trustedKeyAlgs_acc_subset _ l acc a (by simpa using hc))
        · exact Or.inr (fun x hx => trustedKeyAlgs_acc_subset _ l _ x (List.mem_append_right _ hx))
      · split
        · exact ih acc h
        · exact ih _ h
  have hne : ∀ x, x ∈ trustedKeyAlgs C04.sigAlgs [] keyAlgs → x ∈ offeredAlgs .unset trust keyAlgs := by
    intro x hx
    unfold offeredAlgs
    have hnonempty : (trustedKeyAlgs C04.sigAlgs [] keyAlgs).isEmpty = false := by
      cases hh : trustedKeyAlgs C04.sigAlgs [] keyAlgs with
      | nil => rw [hh] at hx; cases hx
      | cons _ _ => rfl
    cases trust with
    | none => simp [hnonempty, hx]
    | some t =>
      by_cases hc : t.cas.isEmpty = true
      · simp [hc, hnonempty, hx]
      · have hne2 : trustedKeyAlgs C04.sigAlgs [] keyAlgs ≠ [] := by
          intro h0; rw [h0] at hx; cases hx
        simp [hc, hne2, hx]
  rcases key keyAlgs [] ha with h | h
  · exact Or.inl (hne a h)
  · exact Or.inr (fun x hx => hne x (h x hx))

/-- every table row lists the key type's own name among its signature algorithms, so the first disjunct of
    `offered_covers_trusted_keys` always holds for the key types of the table -/
theorem sigAlgs_self : ∀ row ∈ C04.sigAlgs, row.1 ∈ row.2 := by decide

/-! ## non-vacuity: concrete instances -/

/-- ideal signature functionality used by the driver: a signature is the pair (signer, message) -/
def idealVerify (k : KeyId) (h : Nat) (sg : Nat × Nat) : Bool := sg.1 == k && sg.2 == h

def exCfg : Cfg Nat (Nat × Nat) :=
  { trust := some ⟨[1], [7], [3]⟩, app := App.default, host := "host.example", addr := "10.0.0.1", port := 22,
    verify := idealVerify, keyAlgOk := fun _ => true, sigAlgOk := fun sg => sg.1 != 0 }

/-- a listed key with a genuine signature: the handshake proceeds to USERAUTH_REQUEST -/
theorem trusted_proceeds_example :
    run exCfg St.init [.kexInit, .kexReply (.key 1) 99 (1, 99) 0, .newkeys, .serviceAccept true] =
      [.hostKeyAccepted 1, .sigVerified 1 99, .sendNewkeys, .sendServiceRequest, .sendUserauthRequest] := by
  decide

/-- the same trusted blob with a signature made by key 2: KeyExchangeFailed and silence, whatever follows -/
theorem liar_rejected_example :
    run exCfg St.init [.kexInit, .kexReply (.key 1) 99 (2, 99) 0, .newkeys, .serviceAccept true,
      .userauthFailure true] = [.hostKeyAccepted 1, .sigBad 1, .disconnect .keyExchangeFailed] := by
  decide

/-- a revoked key, an unlisted key, an expired host certificate (valid [10,20), now = 20.0), a user certificate
    and a certificate naming another host are rejected; the certificate is accepted at now = 19.75 -/
theorem accept_iff_example :
    validateHostKey exCfg.trust App.default "host.example" "10.0.0.1" 22 0 (.key 3) = .error .keyRevoked ∧
    validateHostKey exCfg.trust App.default "host.example" "10.0.0.1" 22 0 (.key 2) = .error .keyUntrusted ∧
    validateHostKey exCfg.trust App.default "host.example" "10.0.0.1" 22 80
      (.cert ⟨5, 7, 2, 10, 20, ["host.example"]⟩) = .error .expired ∧
    validateHostKey exCfg.trust App.default "host.example" "10.0.0.1" 22 79
      (.cert ⟨5, 7, 2, 10, 20, ["host.example"]⟩) = .ok 5 ∧
    validateHostKey exCfg.trust App.default "host.example" "10.0.0.1" 22 39
      (.cert ⟨5, 7, 2, 10, 20, ["host.example"]⟩) = .error .notYetValid ∧
    validateHostKey exCfg.trust App.default "host.example" "10.0.0.1" 22 40
      (.cert ⟨5, 7, 1, 10, 20, ["host.example"]⟩) = .error .certType ∧
    validateHostKey exCfg.trust App.default "host.example" "10.0.0.1" 22 40
      (.cert ⟨5, 7, 2, 10, 20, ["other.example"]⟩) = .error .principal ∧
    validateHostKey exCfg.trust App.default "host.example" "10.0.0.1" 22 40
      (.cert ⟨5, 7, 2, 10, 20, []⟩) = .ok 5 ∧
    validateHostKey exCfg.trust App.default "host.example" "10.0.0.1" 22 40
      (.cert ⟨5, 3, 2, 10, 20, []⟩) = .error .caRevoked ∧
    validateHostKey exCfg.trust App.default "host.example" "10.0.0.1" 22 40
      (.cert ⟨5, 8, 2, 10, 20, []⟩) = .error .caUntrusted := by
  decide +kernel

/-- the trusted key 1 presented where the negotiated algorithm asks for another key type: a host key error; the
    same key with a signature that names another signature algorithm (modelled as signer 0): KeyExchangeFailed -/
theorem wrong_alg_example :
    run { exCfg with keyAlgOk := fun _ => false } St.init
      [.kexInit, .kexReply (.key 1) 99 (1, 99) 0, .newkeys, .serviceAccept true] =
      [.hostKeyRejected .algMismatch, .disconnect (.hostKeyNotVerifiable .algMismatch)] ∧
    run exCfg St.init [.kexInit, .kexReply (.key 1) 99 (0, 99) 0, .newkeys, .serviceAccept true] =
      [.hostKeyAccepted 1, .sigBad 1, .disconnect .keyExchangeFailed] := by
  decide

end AsyncsshModel.Props.C04
