import AsyncsshModel.Lemmas.KexMachine
/-
  C03 — Key exchange binds the whole negotiation; no silent downgrade.
  Property theorems only (models: Model/KexInit, KexHash, KexMachine; helper lemmas: Lemmas/Kex*.lean).

  Cryptography is symbolic.  The two laws used are *hypotheses* of the theorems that need them:
    `HashInjective`   — the exchange hash (family, one per kex method) has no collisions on the inputs used;
    `IdealSignature`  — a signature that verifies under a host key the client trusts was made by the honest
                        server, i.e. the signed message is one the server machine signed.
-/
namespace AsyncsshModel.C03
open AsyncsshModel AsyncsshModel.KexWire AsyncsshModel.Kex

/-! ## 1. each negotiated algorithm is the first one on the client's list that the server also supports -/

/-- **`_choose_alg` from both roles' viewpoints** is `client_list.find? (· ∈ server_list)`: the client calls it
    with (local = its list, remote = the server's), the server with (local = its list, remote = the client's). -/
theorem choose_first_client_pref (c s : List Name) :
    chooseAlg true c s = c.find? (fun a => decide (a ∈ s)) ∧
    chooseAlg false s c = c.find? (fun a => decide (a ∈ s)) := by
  simp [chooseAlg, firstIn_eq_find]

/-- hence both sides pick the same name whenever they saw the same two lists -/
theorem choose_same_on_both_sides (c s : List Name) : chooseAlg true c s = chooseAlg false s c := by
  simp [chooseAlg]

/-- the name picked is on both lists and every earlier client preference is unknown to the server;
    no name is picked exactly when the lists are disjoint (KeyExchangeFailed) -/
theorem choose_is_first_supported (c s : List Name) :
    (∀ a, chooseAlg true c s = some a →
        a ∈ s ∧ ∃ pre post, c = pre ++ a :: post ∧ ∀ b ∈ pre, b ∉ s) ∧
    (chooseAlg true c s = none ↔ ∀ a ∈ c, a ∉ s) := by
  refine ⟨fun a h => firstIn_some (by simpa [chooseAlg] using h), ?_⟩
  simp only [chooseAlg, if_true]
  exact firstIn_none

/-- no name of the regenerated kex registry is one of the pseudo-algorithms appended to KEXINIT, so the
    hypothesis `MarkerFree` of the agreement theorems holds for every list drawn from the registry -/
theorem registry_marker_free :
    ∀ a ∈ Gen.C03.kexTable.map (·.1) ++ Gen.C03.gssKexAlgs,
      a ∉ Gen.C03.extraKexClient ∧ a ∉ Gen.C03.extraKexServer := by
  decide +kernel

/-- **all eight negotiated names agree** (key exchange method, server host key algorithm, cipher, MAC and
    compression per direction, including the rule that a cipher with built-in integrity fixes the MAC name)
    when each side ran `_process_kexinit` on the KEXINIT the other side's `_send_kexinit` built -/
theorem negotiated_names_agree {c s : LocalAlgs} {ck sk : Bytes} {n1 n2 : Negotiated} (hm : MarkerFree c s)
    (hg : ∀ k ∈ s.kex, isGssKex k = false)
    (h1 : negotiate true c (sentKexInit false sk s) = .ok n1)
    (h2 : negotiate false s (sentKexInit true ck c) = .ok n2) : n1 = n2 :=
  negotiate_agree hm hg h1 h2

/-- **the server host key algorithm is the first one on the client's list the server has a key for**, from
    either role's viewpoint (the client's `_choose_alg('server host key', ..)`, the server's
    `choose_server_host_key`); without a common one the negotiation fails with KeyExchangeFailed on both sides -/
theorem host_key_alg_first_client_pref {isClient : Bool} {loc : LocalAlgs} {peer : KexInit} {n : Negotiated}
    (h : negotiate isClient loc peer = .ok n) (hg : isGssKex n.kex = false) :
    chooseAlg isClient loc.hostKey peer.hostKeyAlgs = some n.hostKey := by
  unfold negotiate at h
  split at h
  · simp at h
  · rename_i kex _
    split at h
    · simp at h
    · rename_i hk hhk
      have hn : n.kex = kex ∧ n.hostKey = hk := by
        unfold negotiateRest at h
        simp only [bind, Except.bind, pure, Except.pure] at h
        repeat' (first | split at h | dsimp only at h)
        all_goals first
          | (simp at h; done)
          | skip
        all_goals
          simp only [Except.ok.injEq] at h
          subst h
          exact ⟨rfl, rfl⟩
      rw [hn.1] at hg
      rw [hn.2]
      simpa [chooseHostKey, hg, chooseOrErr_ok] using hhk

/-- the signature algorithm that goes with a host key algorithm (`get_signature_alg`), on the regenerated
    certificate table: plain algorithms name themselves, certificate algorithms their key's algorithm, and the
    `x509v3-` prefix is dropped -/
theorem sig_alg_for_example :
    sigAlgFor (strBytes "rsa-sha2-512") = strBytes "rsa-sha2-512" ∧
    sigAlgFor (strBytes "rsa-sha2-512-cert-v01@openssh.com") = strBytes "rsa-sha2-512" ∧
    sigAlgFor (strBytes "ssh-ed25519-cert-v01@openssh.com") = strBytes "ssh-ed25519" ∧
    sigAlgFor (strBytes "x509v3-rsa2048-sha256") = strBytes "rsa2048-sha256" := by
  decide +kernel

/-- the code under test does what the model says about the host key algorithm (facts read from the AST of
    `choose_server_host_key`, `_process_kexinit`, `validate_server_host_key`, `_validate_host_key` on every
    run): the server selects the signature algorithm on a copy of the key pair private to the connection, the
    client chooses the host key algorithm and refuses a host key or a signature that does not match it -/
theorem host_key_alg_bound_in_code :
    Gen.C03.sigAlgPerConnection = true ∧ Gen.C03.clientChoosesHostKeyAlg = true ∧
    Gen.C03.clientChecksKeyAlg = true ∧ Gen.C03.clientChecksSigAlg = true := by
  decide

/-- the MAC-follows-cipher rule (connection.py:2451-2461) for the client→server direction -/
theorem mac_follows_cipher {isClient : Bool} {loc : LocalAlgs} {peer : KexInit} {n : Negotiated}
    (h : negotiate isClient loc peer = .ok n) :
    (needsMac n.encCS = false → n.macCS = n.encCS) ∧
    (needsMac n.encCS = true → chooseAlg isClient loc.mac peer.macCS = some n.macCS) := by
  unfold negotiate at h
  split at h
  · simp at h
  · split at h
    · simp at h
    · unfold negotiateRest at h
      simp only [bind, Except.bind, pure, Except.pure] at h
      repeat' (first | split at h | dsimp only at h)
      all_goals first
        | (simp at h; done)
        | skip
      all_goals
        simp only [Except.ok.injEq] at h
        subst h
        simp_all [chooseOrErr_ok]

/-- parsing a KEXINIT built by `_send_kexinit` returns exactly the lists that were encoded (names without
    commas, no empty name, 16-byte cookie) -/
theorem kexinit_roundtrip {k : KexInit} {w : Bytes} (hwf : k.WF) (h : k.encodeBody? = some w) :
    parseKexInit w = some k :=
  parseKexInit_encodeBody hwf h

/-! ## 2. the byte string fed to the hash determines every hashed value -/

/-- **`V_C, V_S, I_C, I_S` and `K_S` are determined by the hash input, across all message forms**
    (length-prefix framing of `get_hash_prefix` and of `String(host_key_data)`) -/
theorem hash_input_prefix_injective {a b : HashFields} {w : Bytes} (ha : hashInput? a = some w)
    (hb : hashInput? b = some w) : a.pre = b.pre ∧ a.hostKey = b.hostKey :=
  ⟨(hashInput_common ha hb).1, (hashInput_common ha hb).2.1⟩

/-- **within one message form the hash input determines the whole tuple**
    `(V_C, V_S, I_C, I_S, K_S, gex request, p, g, e|Q_C, f|Q_S, transient key, ciphertext, K)` -/
theorem hash_input_injective {a b : HashFields} {w : Bytes} (ha : hashInput? a = some w)
    (hb : hashInput? b = some w) (hf : SameForm a.body b.body) : a = b :=
  hashInput_inj ha hb hf

/-- fixed-group Diffie-Hellman form -/
theorem hash_input_injective_dh {p q : Prefix} {h h' k k' w : Bytes} {e f e' f' : Int}
    (ha : hashInput? ⟨p, h, .dh e f, k⟩ = some w) (hb : hashInput? ⟨q, h', .dh e' f', k'⟩ = some w) :
    p = q ∧ h = h' ∧ e = e' ∧ f = f' ∧ k = k' := by
  have := hashInput_inj ha hb (by simp [SameForm])
  simp_all

/-- group-exchange form (same request form on both sides) -/
theorem hash_input_injective_gex {p q : Prefix} {h h' k k' r r' w : Bytes} {pp g e f pp' g' e' f' : Int}
    (hl : r.length = r'.length)
    (ha : hashInput? ⟨p, h, .gex r pp g e f, k⟩ = some w) (hb : hashInput? ⟨q, h', .gex r' pp' g' e' f', k'⟩ = some w) :
    p = q ∧ h = h' ∧ r = r' ∧ pp = pp' ∧ g = g' ∧ e = e' ∧ f = f' ∧ k = k' := by
  have := hashInput_inj ha hb (by simp [SameForm, hl])
  simp_all

/-- ECDH / Curve25519 / Curve448 / hybrid post-quantum form -/
theorem hash_input_injective_ecdh {p q : Prefix} {h h' k k' qc qs qc' qs' w : Bytes}
    (ha : hashInput? ⟨p, h, .ecdh qc qs, k⟩ = some w) (hb : hashInput? ⟨q, h', .ecdh qc' qs', k'⟩ = some w) :
    p = q ∧ h = h' ∧ qc = qc' ∧ qs = qs' ∧ k = k' := by
  have := hashInput_inj ha hb (by simp [SameForm])
  simp_all

/-- RSA form -/
theorem hash_input_injective_rsa {p q : Prefix} {h h' k k' t c t' c' w : Bytes}
    (ha : hashInput? ⟨p, h, .rsa t c, k⟩ = some w) (hb : hashInput? ⟨q, h', .rsa t' c', k'⟩ = some w) :
    p = q ∧ h = h' ∧ t = t' ∧ c = c' ∧ k = k' := by
  have := hashInput_inj ha hb (by simp [SameForm])
  simp_all

/-- the one pair of forms that shares message numbers and a hash: an old-form (4-byte) group-exchange request
    hashed by a server for one of its own groups never yields the hash tail of a client that sent the
    new-form request of `_send_request` — so turning the request into the old form is detected too -/
theorem gex_request_form_bound {a b : HashFields} {p g e f p' g' e' f' : Int} {r' : Bytes}
    (ha : a.body = .gex clientGexReq p g e f) (hb : b.body = .gex r' p' g' e' f') (hr : r'.length = 4)
    (hp' : ∃ i, p' = (groupAt i).2) {w : Bytes} (hia : hashInput? a = some w) (hib : hashInput? b = some w) :
    False := by
  obtain ⟨_, _, ht⟩ := hashInput_common hia hib
  obtain ⟨_, _, t, _, _, t1, _⟩ := hashInput_split hia
  exact gex_old_new_tail_ne ha hb hr hp' ht (by simp [t1])

/-! ## 3. the three-party machine: no downgrade, same session id -/

/-- the exchange hash family is collision free on the inputs used -/
def HashInjective (cr : Crypto) : Prop := ∀ a b x y, cr.hashOf a x = cr.hashOf b y → x = y

/-- every signature that verifies under a host key the client trusts is over a message the honest server
    signed (the editor does not hold the key) -/
def IdealSignature (cr : Crypto) (signed : List Bytes) : Prop :=
  ∀ pk m σ, cr.trusted pk = true → cr.verify pk m σ = true → m ∈ signed

/-- "the client reached NEWKEYS accepted" is the same as "it holds an accepted record" -/
theorem accepted_has_record (cr : Crypto) (ccfg scfg : Cfg) (evs : List Ev)
    (h : (World.run cr ccfg scfg evs).c.phase = .accepted ∨ (World.run cr ccfg scfg evs).c.phase = .done) :
    ∃ a, (World.run cr ccfg scfg evs).c.acc = some a :=
  Option.isSome_iff_exists.mp ((World.run_phase cr ccfg scfg evs) h)

/-- **No downgrade.**  For every sequence of deliveries the on-path editor chooses (relay, replace by arbitrary
    bytes, inject, reorder, drop), under an injective hash and an ideal signature by a key the editor does not
    hold: if the client accepted (verified the signature, sent NEWKEYS) then the server signed a record whose
    every hashed field — `V_C, V_S, I_C, I_S, K_S`, group-exchange request, `p`, `g`, `e`/`Q_C`, `f`/`Q_S`,
    RSA transient key and ciphertext, `K` — equals the client's, and both negotiated the same eight names
    (key exchange method, server host key algorithm, cipher, MAC and compression per direction). -/
theorem no_downgrade (cr : Crypto) (ccfg scfg : Cfg) (hwf : CfgWF ccfg scfg) (hinj : HashInjective cr)
    (evs : List Ev) (a : Accept)
    (hsig : IdealSignature cr ((World.run cr ccfg scfg evs).s.signed cr))
    (hacc : (World.run cr ccfg scfg evs).c.acc = some a) :
    ∃ r ∈ (World.run cr ccfg scfg evs).s.signedRecs, r.1.view = a.view ∧ r.1.neg = a.neg := by
  obtain ⟨hc, hs⟩ := World.run_inv cr ccfg scfg evs
  have ha := hc.accOK a hacc
  obtain ⟨hi, hhi, hv⟩ := ha.verified
  have hm := hsig _ _ _ ha.trusted hv
  unfold SState.signed at hm
  obtain ⟨r, hr, he⟩ := List.mem_map.mp hm
  obtain ⟨hrOK, hrhi⟩ := hs.recOK r hr
  have : r.2 = hi := hinj _ _ _ _ he
  rw [this] at hrhi
  obtain ⟨h1, h2⟩ := accepted_eq_signed hwf ha hrOK hhi hrhi
  exact ⟨r, hr, h1.symm, h2.symm⟩

/-- **The host key and the signature are those of the negotiated host key algorithm.**  Under the hypotheses
    of `no_downgrade`, a client that accepted (a) holds a host key that can be used with the host key algorithm
    it negotiated, (b) verified a signature that names the signature algorithm of that host key algorithm, and
    (c) the server negotiated the same host key algorithm on that connection and its signature names the same
    signature algorithm — nobody, on-path or on another connection of the same listener, moved the exchange to
    another host key type or to a weaker signature hash. -/
theorem host_key_alg_bound (cr : Crypto) (ccfg scfg : Cfg) (hwf : CfgWF ccfg scfg) (hinj : HashInjective cr)
    (evs : List Ev) (a : Accept)
    (hsig : IdealSignature cr ((World.run cr ccfg scfg evs).s.signed cr))
    (hacc : (World.run cr ccfg scfg evs).c.acc = some a) :
    a.neg.hostKey ∈ cr.keyAlgs a.view.hostKey ∧ sigAlgName a.sig = some (sigAlgFor a.neg.hostKey) ∧
    chooseAlg true ccfg.algs.hostKey (sentKexInit false scfg.cookie scfg.algs).hostKeyAlgs = some a.neg.hostKey ∧
    ∃ r ∈ (World.run cr ccfg scfg evs).s.signedRecs, r.1.neg.hostKey = a.neg.hostKey ∧
      sigAlgName r.1.sig = some (sigAlgFor a.neg.hostKey) := by
  obtain ⟨r, hr, hview, hneg⟩ := no_downgrade cr ccfg scfg hwf hinj evs a hsig hacc
  obtain ⟨hc, hs⟩ := World.run_inv cr ccfg scfg evs
  have ha := hc.accOK a hacc
  obtain ⟨hrOK, _⟩ := hs.recOK r hr
  have his := hrOK.is
  rw [hview] at his
  obtain ⟨info, hnegA, _, _⟩ := ha.neg
  have hn := (negOK_of_sent (isClient := true) (other := scfg) hwf.sWF his hnegA).1
  have hkex : a.neg.kex ∈ scfg.algs.kex := by
    obtain ⟨infoB, hnegB, _, _⟩ := hrOK.neg
    obtain ⟨_, peer, _, _, hnb, _⟩ := hnegB
    rw [hneg] at hnb
    unfold negotiate at hnb
    split at hnb
    · simp at hnb
    · rename_i kex hk
      have : a.neg.kex = kex := by
        split at hnb
        · simp at hnb
        · unfold negotiateRest at hnb
          simp only [bind, Except.bind, pure, Except.pure] at hnb
          repeat' (first | split at hnb | dsimp only at hnb)
          all_goals first
            | (simp at hnb; done)
            | skip
          all_goals
            simp only [Except.ok.injEq] at hnb
            rw [← hnb]
      rw [this]
      simp only [chooseAlg, Bool.false_eq_true, if_false] at hk
      exact (firstIn_some hk).1
  refine ⟨ha.keyAlg, ha.sigAlg, host_key_alg_first_client_pref hn (hwf.noGss _ hkex), r, hr, by rw [hneg], ?_⟩
  rw [← hneg]; exact hrOK.sigAlg

/-- what `no_downgrade` means field by field: every value the client hashed as *received* is the value the
    server *sent* (its own version string, its own KEXINIT payload, its host key blob), and every value the
    server hashed as received is what the client sent — so an edit of either version string or of any byte of
    either KEXINIT (cookie, any offered list, flags) cannot end in an accepted handshake. -/
theorem no_downgrade_fields (cr : Crypto) (ccfg scfg : Cfg) (hwf : CfgWF ccfg scfg) (hinj : HashInjective cr)
    (evs : List Ev) (a : Accept)
    (hsig : IdealSignature cr ((World.run cr ccfg scfg evs).s.signed cr))
    (hacc : (World.run cr ccfg scfg evs).c.acc = some a) :
    a.view.pre.vc = ccfg.version ∧ a.view.pre.vs = scfg.version ∧
    ownKexInit true ccfg = some a.view.pre.ic ∧ ownKexInit false scfg = some a.view.pre.is ∧
    negotiate true ccfg.algs (sentKexInit false scfg.cookie scfg.algs) = .ok a.neg := by
  obtain ⟨r, hr, hview, hneg⟩ := no_downgrade cr ccfg scfg hwf hinj evs a hsig hacc
  obtain ⟨hc, hs⟩ := World.run_inv cr ccfg scfg evs
  have ha := hc.accOK a hacc
  obtain ⟨hrOK, _⟩ := hs.recOK r hr
  have hvs := hrOK.vs
  have his := hrOK.is
  rw [hview] at hvs his
  obtain ⟨info, hnegA, _, _⟩ := ha.neg
  exact ⟨ha.vc, hvs, ha.ic, his, (negOK_of_sent (isClient := true) (other := scfg) hwf.sWF his hnegA).1⟩

/-- the exchange hash of a record = the session identifier of a first key exchange (`send_newkeys`) -/
def sessionId (cr : Crypto) (a : Accept) : Option Bytes := (hashInput? a.view).map (cr.hashOf a.neg.kex)

/-- **Both sides derive the same session identifier and the same shared secret `K`** (hence, by
    `compute_key`, the same keys) whenever the client completes. -/
theorem session_id_agree (cr : Crypto) (ccfg scfg : Cfg) (hwf : CfgWF ccfg scfg) (hinj : HashInjective cr)
    (evs : List Ev) (a : Accept)
    (hsig : IdealSignature cr ((World.run cr ccfg scfg evs).s.signed cr))
    (hacc : (World.run cr ccfg scfg evs).c.acc = some a) :
    ∃ r ∈ (World.run cr ccfg scfg evs).s.signedRecs,
      sessionId cr r.1 = sessionId cr a ∧ (sessionId cr a).isSome ∧ r.1.view.k = a.view.k := by
  obtain ⟨r, hr, hview, hneg⟩ := no_downgrade cr ccfg scfg hwf hinj evs a hsig hacc
  obtain ⟨hc, _⟩ := World.run_inv cr ccfg scfg evs
  obtain ⟨hi, hhi, _⟩ := (hc.accOK a hacc).verified
  exact ⟨r, hr, by simp [sessionId, hview, hneg], by simp [sessionId, hhi], by rw [hview]⟩

/-! ## 4. Diffie-Hellman range checks -/

/-- **the bounds the code checks are exactly `1 ≤ x ≤ p - 1`**, for the server value `f` on the client and the
    client value `e` on the server (regenerated from `_compute_client_shared` / `_compute_server_shared`) -/
theorem dh_range (x p : Int) :
    (dhClientRangeOk x p = true ↔ 1 ≤ x ∧ x ≤ p - 1) ∧ (dhServerRangeOk x p = true ↔ 1 ≤ x ∧ x ≤ p - 1) := by
  have hc : dhClientRangeOk x p = true ↔ Gen.C03.dhClientRangeOk x p := by simp [dhClientRangeOk]
  have hs : dhServerRangeOk x p = true ↔ Gen.C03.dhServerRangeOk x p := by simp [dhServerRangeOk]
  rw [hc, hs]
  unfold Gen.C03.dhClientRangeOk Gen.C03.dhServerRangeOk
  constructor <;> constructor <;> intro h <;> omega

/-- a value outside the range is answered with ProtocolError before any secret is computed -/
theorem dh_range_rejected (cr : Crypto) (g p x : Int) (h : ¬ (1 ≤ x ∧ x ≤ p - 1)) :
    dhClientSecret cr g p x = .error .proto ∧ dhServerSecret cr g p x = .error .proto := by
  have h1 : dhClientRangeOk x p = false := by
    cases hc : dhClientRangeOk x p with
    | false => rfl
    | true => exact absurd ((dh_range x p).1.mp hc) h
  have h2 : dhServerRangeOk x p = false := by
    cases hc : dhServerRangeOk x p with
    | false => rfl
    | true => exact absurd ((dh_range x p).2.mp hc) h
  simp [dhClientSecret, dhServerSecret, h1, h2]

/-- in the machine: every DH / group-exchange record the client accepted has `f` in range, and every such
    record the server signed has `e` in range (for the group the side actually used) -/
theorem dh_range_machine (cr : Crypto) (ccfg scfg : Cfg) (evs : List Ev) :
    (∀ a, (World.run cr ccfg scfg evs).c.acc = some a →
      (∀ r p g e f, a.view.body = .gex r p g e f → 1 ≤ f ∧ f ≤ p - 1) ∧
      (∀ e f, a.view.body = .dh e f → ∃ info, kexInfo a.neg.kex = some info ∧ 1 ≤ f ∧ f ≤ info.p - 1)) ∧
    (∀ r ∈ (World.run cr ccfg scfg evs).s.signedRecs,
      (∀ q p g e f, r.1.view.body = .gex q p g e f → 1 ≤ e ∧ e ≤ p - 1) ∧
      (∀ e f, r.1.view.body = .dh e f → ∃ info, kexInfo r.1.neg.kex = some info ∧ 1 ≤ e ∧ e ≤ info.p - 1)) := by
  obtain ⟨hc, hs⟩ := World.run_inv cr ccfg scfg evs
  constructor
  · intro a hacc
    have ha := hc.accOK a hacc
    refine ⟨fun r p g e f hb => (dh_range f p).1.mp (ha.gexReq r p g e f hb).2, ?_⟩
    intro e f hb
    obtain ⟨info, ⟨_, _, _, _, _, hinfo⟩, _, hdh⟩ := ha.neg
    exact ⟨info, hinfo, (dh_range f info.p).1.mp (hdh e f hb)⟩
  · intro r hr
    obtain ⟨hrOK, _⟩ := hs.recOK r hr
    refine ⟨fun q p g e f hb => (dh_range e p).2.mp (hrOK.gex q p g e f hb).2.2, ?_⟩
    intro e f hb
    obtain ⟨info, ⟨_, _, _, _, _, hinfo⟩, _, hdh⟩ := hrOK.neg
    exact ⟨info, hinfo, (dh_range e info.p).2.mp (hdh e f hb)⟩

/-! ## 5. non-vacuity: a concrete run -/

def toyAlgs : LocalAlgs :=
  { kex := [strBytes "curve25519-sha256"], hostKey := [strBytes "ssh-ed25519"], enc := [strBytes "aes128-ctr"],
    mac := [strBytes "hmac-sha2-256"], cmp := [strBytes "none"] }
def toyClient : Cfg := { version := strBytes "SSH-2.0-C", cookie := List.replicate 16 1, algs := toyAlgs }
def toyServer : Cfg := { version := strBytes "SSH-2.0-S", cookie := List.replicate 16 2, algs := toyAlgs }

/-- the signature blob of the toy scheme: `String('ssh-ed25519')` and a one-byte tag -/
def toySig : Bytes := ((encString? (strBytes "ssh-ed25519")).getD []) ++ [9]

/-- identity "hash" (injective), a signature scheme whose verification accepts exactly the pair
    (`h0`, tag) under the one host key, and constant key-agreement results -/
def toyCrypto (h0 : Bytes) : Crypto :=
  { hashOf := fun _ x => x
    verify := fun pk m σ => pk == [7, 7] && m == h0 && σ == toySig
    trusted := fun pk => pk == [7, 7]
    keyAlgs := fun _ => [strBytes "ssh-ed25519"]
    hostKeyOf := fun _ => [7, 7]
    signRaw := fun _ _ => [9]
    dhClientPub := fun _ _ => none
    dhClientShared := fun _ _ _ => none
    dhServer := fun _ _ _ => none
    ecClientPub := fun _ => [1, 2, 3]
    ecClientShared := fun _ qs => some (0 :: 0 :: 0 :: 1 :: qs)
    ecServer := fun _ _ => some ([4, 5], [0, 0, 0, 1, 4, 5])
    rsaTransKey := []
    rsaEncrypt := fun _ => .error .proto
    rsaDecrypt := fun _ => .error .kexFailed }

/-- the honest relay as a list of editor moves: deliver everything written, in order -/
def relayEvs (cr : Crypto) (ccfg scfg : Cfg) : Nat → Nat → Nat → World → List Ev
  | 0, _, _, _ => []
  | fuel + 1, i, j, w =>
    match w.c2s[i]?, w.s2c[j]? with
    | some m, _ =>
      let ev := Ev.toServer (if i = 0 then m.dropLast else m)
      ev :: relayEvs cr ccfg scfg fuel (i + 1) j (w.step cr ccfg scfg ev)
    | none, some m =>
      let ev := Ev.toClient (if j = 0 then m.dropLast else m)
      ev :: relayEvs cr ccfg scfg fuel i (j + 1) (w.step cr ccfg scfg ev)
    | none, none => []

/-- what the honest server signs in the honest run (its behaviour does not depend on `verify`) -/
def toyH0 : Bytes :=
  let cr := toyCrypto []
  ((World.run cr toyClient toyServer (relayEvs cr toyClient toyServer 20 0 0 (World.init toyClient toyServer))).s.signed
    cr).headD []

def toyEvs : List Ev := relayEvs (toyCrypto toyH0) toyClient toyServer 20 0 0 (World.init toyClient toyServer)
def toyFinal : World := World.run (toyCrypto toyH0) toyClient toyServer toyEvs

theorem toy_cfg_wf : CfgWF toyClient toyServer :=
  ⟨⟨by decide +kernel, by decide +kernel, by decide +kernel, by decide +kernel, by decide +kernel,
    by decide +kernel, by decide +kernel, by decide +kernel, by decide +kernel, by decide +kernel,
    by decide +kernel⟩,
   ⟨by decide +kernel, by decide +kernel, by decide +kernel, by decide +kernel, by decide +kernel,
    by decide +kernel, by decide +kernel, by decide +kernel, by decide +kernel, by decide +kernel,
    by decide +kernel⟩,
   ⟨by decide +kernel, by decide +kernel⟩, by decide +kernel⟩

/-- **the hypotheses of `no_downgrade` are satisfiable and its conclusion is not vacuous**: with the toy
    primitives (identity hash; a verification that accepts only what the server signed) the unedited run ends
    with both sides done, the client's record equal to the server's. -/
theorem no_downgrade_example :
    HashInjective (toyCrypto toyH0) ∧ IdealSignature (toyCrypto toyH0) (toyFinal.s.signed (toyCrypto toyH0)) ∧
    toyFinal.c.phase = .done ∧ toyFinal.s.phase = .done ∧
    toyFinal.c.acc.map (·.view) = toyFinal.s.acc.map (·.view) ∧ toyFinal.c.acc.isSome = true := by
  refine ⟨fun _ _ _ _ h => h, ?_, by decide +kernel, by decide +kernel, by decide +kernel, by decide +kernel⟩
  intro pk m σ _ hv
  have hs : toyFinal.s.signed (toyCrypto toyH0) = [toyH0] := by decide +kernel
  rw [hs]
  simp only [toyCrypto, Bool.and_eq_true, beq_iff_eq] at hv
  simp [hv.1.2]

/-- the same run with one bit of the server's KEXINIT cookie flipped on its way to the client: the client
    ends with KeyExchangeFailed (signature over a different hash), it never accepts -/
theorem edited_kexinit_rejected_example :
    let evs := toyEvs.map fun ev => match ev with
      | .toClient (20 :: c :: rest) => .toClient (20 :: (c ^^^ 1) :: rest)
      | ev => ev
    (World.run (toyCrypto toyH0) toyClient toyServer evs).c.phase = .failed .kexFailed ∧
    (World.run (toyCrypto toyH0) toyClient toyServer evs).c.acc = none := by
  decide +kernel


/-! ## 6. several connections of one listener; the behaviour before the repairs -/

/-- **Another connection of the same listener cannot change the algorithm a connection signs with.**  For
    every interleaving of deliveries to two connections accepted by one listener (the second one may be any
    stranger: it needs no credentials to send a KEXINIT), every record either connection signed carries a
    signature that names the signature algorithm of the host key algorithm negotiated *on that connection*. -/
theorem listener_signs_with_own_alg (cr : Crypto) (cfg : Cfg) (evs : List LEv) :
    (∀ r ∈ (Listener.run cr cfg evs).a.signedRecs, sigAlgName r.1.sig = some (sigAlgFor r.1.neg.hostKey)) ∧
    (∀ r ∈ (Listener.run cr cfg evs).b.signedRecs, sigAlgName r.1.sig = some (sigAlgFor r.1.neg.hostKey)) := by
  obtain ⟨ha, hb⟩ := Listener.run_inv cr cfg evs
  exact ⟨fun r hr => (ha.recOK r hr).1.sigAlg, fun r hr => (hb.recOK r hr).1.sigAlg⟩

def rsaAlgs (hostKey : List String) : LocalAlgs := { toyAlgs with hostKey := hostKey.map strBytes }
/-- a listener with one RSA host key (registered under its three plain signature algorithms) -/
def rsaServer : Cfg :=
  { version := strBytes "SSH-2.0-S", cookie := List.replicate 16 2,
    algs := rsaAlgs ["rsa-sha2-256", "rsa-sha2-512", "ssh-rsa"] }
/-- the victim offers only `rsa-sha2-512`, the stranger only `ssh-rsa` -/
def victimKexInit : Bytes :=
  (ownKexInit true { version := strBytes "SSH-2.0-A", cookie := List.replicate 16 1, algs := rsaAlgs ["rsa-sha2-512"] }).getD []
def strangerKexInit : Bytes :=
  (ownKexInit true { version := strBytes "SSH-2.0-B", cookie := List.replicate 16 3, algs := rsaAlgs ["ssh-rsa"] }).getD []
/-- the stranger's KEXINIT reaches the listener between the victim's KEXINIT and the victim's ECDH INIT -/
def raceEvs : List LEv :=
  [.toA (strBytes "SSH-2.0-A"), .toA victimKexInit, .toB (strBytes "SSH-2.0-B"), .toB strangerKexInit,
   .toA (mkMsg Gen.C03.MSG_KEX_ECDH_INIT ((encString? [1, 2, 3]).getD []))]

/-- (host key algorithm negotiated, algorithm the signature names) of every record a connection signed -/
def signedAlgs (st : SState) : List (Name × Option Name) :=
  st.signedRecs.map fun r => (r.1.neg.hostKey, sigAlgName r.1.sig)

/-- **witness of the defect before the repair** (signature algorithm kept in the key pair object that all
    connections of a listener share): in the race above the victim negotiated `rsa-sha2-512` and its exchange
    hash was signed with `ssh-rsa`; the repaired server signs it with `rsa-sha2-512` -/
theorem listener_prefix_downgrade :
    signedAlgs (ListenerPreFix.run (toyCrypto []) rsaServer (strBytes "ssh-rsa") raceEvs).a =
      [(strBytes "rsa-sha2-512", some (strBytes "ssh-rsa"))] ∧
    signedAlgs (Listener.run (toyCrypto []) rsaServer raceEvs).a =
      [(strBytes "rsa-sha2-512", some (strBytes "rsa-sha2-512"))] := by
  decide +kernel

/-- a client state after a negotiation that chose `ssh-ed25519` -/
def negotiatedEd : CState :=
  { phase := .reply, vs := strBytes "SSH-2.0-S", is := [20],
    negInfo := some (⟨strBytes "curve25519-sha256", strBytes "ssh-ed25519", [], [], [], [], [], []⟩, ⟨.ecdh, 0, 0⟩) }
/-- a server that holds an RSA key the client trusts as well, and signs with it -/
def lyingCrypto : Crypto :=
  { toyCrypto [] with verify := fun _ _ _ => true, trusted := fun _ => true,
                      keyAlgs := fun pk => if pk == [8, 8] then [strBytes "rsa-sha2-256", strBytes "rsa-sha2-512", strBytes "ssh-rsa"]
                                           else [strBytes "ssh-ed25519"] }
def sigNamed (alg : String) : Bytes := ((encString? (strBytes alg)).getD []) ++ [9]

/-- **witness of the defect before the repair** (client never compared the host key or the signature with the
    negotiation): having negotiated `ssh-ed25519`, the old client accepted an RSA host key with an `ssh-rsa`
    signature, and an Ed25519 key whose signature names another algorithm; the repaired client refuses the
    first with a host key error and the second with KeyExchangeFailed, and still accepts the honest reply -/
theorem client_prefix_ignores_negotiated_host_key_alg :
    let shared : Except Err (KexBody × Bytes) := .ok (.ecdh [1] [2], [0, 0, 0, 1, 5])
    (clientVerifyPreFix lyingCrypto toyClient negotiatedEd [8, 8] shared (sigNamed "ssh-rsa")).1.phase = .accepted ∧
    (clientVerify lyingCrypto toyClient negotiatedEd [8, 8] shared (sigNamed "ssh-rsa")).1.phase = .failed .hostKey ∧
    (clientVerifyPreFix lyingCrypto toyClient negotiatedEd [7, 7] shared (sigNamed "ssh-rsa")).1.phase = .accepted ∧
    (clientVerify lyingCrypto toyClient negotiatedEd [7, 7] shared (sigNamed "ssh-rsa")).1.phase = .failed .kexFailed ∧
    (clientVerify lyingCrypto toyClient negotiatedEd [7, 7] shared (sigNamed "ssh-ed25519")).1.phase = .accepted := by
  decide +kernel

/-- before the repair the client chose no host key algorithm at all: a server KEXINIT whose host key list has
    nothing in common with the client's was accepted by the negotiation, which now fails -/
theorem client_prefix_chooses_no_host_key_alg :
    let peer := sentKexInit false (List.replicate 16 2) (rsaAlgs ["ssh-dss"])
    (chooseHostKeyPreFix true toyAlgs peer (strBytes "curve25519-sha256")).toOption = some [] ∧
    (chooseHostKey true toyAlgs peer (strBytes "curve25519-sha256")).toOption = none := by
  decide +kernel

/-- the client's order wins: client prefers `b` over `c`, the server lists `c` first -/
theorem choose_example :
    chooseAlg true [strBytes "a", strBytes "b", strBytes "c"] [strBytes "c", strBytes "b"] = some (strBytes "b") ∧
    chooseAlg false [strBytes "c", strBytes "b"] [strBytes "a", strBytes "b", strBytes "c"] = some (strBytes "b") ∧
    chooseAlg true [strBytes "a"] [strBytes "c"] = none := by
  decide +kernel

/-- the hash input of a small DH tuple, byte for byte (String framing of the five blobs, MPInt of e and f,
    then `k` as passed) -/
theorem hash_input_example :
    hashInput? ⟨⟨[1], [2], [3], [4]⟩, [5], .dh 1 128, [0, 0, 0, 1, 9]⟩ =
      some [0,0,0,1,1, 0,0,0,1,2, 0,0,0,1,3, 0,0,0,1,4, 0,0,0,1,5, 0,0,0,1,1, 0,0,0,2,0,128, 0,0,0,1,9] := by
  decide +kernel

/-- the range check at its four corners for `p = 23` -/
theorem dh_range_example :
    dhServerRangeOk 0 23 = false ∧ dhServerRangeOk 1 23 = true ∧ dhClientRangeOk 22 23 = true ∧
    dhClientRangeOk 23 23 = false ∧ dhClientRangeOk (-1) 23 = false := by
  decide +kernel

end AsyncsshModel.C03
