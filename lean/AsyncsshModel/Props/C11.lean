import AsyncsshModel.Model.Rekey
import AsyncsshModel.Lemmas.RekeySim
import AsyncsshModel.Gen.C11
/-
  C11 — Re-keying is invisible to applications and really changes keys.
  Per-endpoint theorems quantify over EVERY sequence of events (submissions by upper layers, limit
  expiry, packets arriving from the peer — in any order, any number of re-exchanges).
-/
namespace AsyncsshModel.C11
open AsyncsshModel.Rekey

/-! ### the model's deferral and trigger tests are the code's (regenerated from `send_packet`'s AST every run) -/

theorem mustDefer_matches_code (e : Endpoint) (t : Nat) :
    mustDefer e t = true ↔ Gen.C11.deferCond (t : Int) e.kexComplete e.authInProgress e.authComplete := by
  simp only [mustDefer, Gen.C11.deferCond, MSG_DEBUG, MSG_SERVICE_REQUEST, MSG_SERVICE_ACCEPT, MSG_KEX_LAST,
    MSG_USERAUTH_BANNER, MSG_USERAUTH_LAST]
  cases e.kexComplete <;> cases e.authInProgress <;> cases e.authComplete <;> simp <;> omega

/-- the trigger test of `sendPacket` is the code's `auth_complete and kex_complete and (limit reached)` -/
theorem trigger_matches_code (e : Endpoint) :
    (e.authComplete && e.kexComplete && e.rekeyDue) = true ↔
      Gen.C11.triggerCond e.authComplete e.kexComplete e.rekeyDue := by
  simp [Gen.C11.triggerCond, and_assoc]

/-- the model defers the packet when the nested IGNORE call started an exchange, as the code does (repair of F58) -/
theorem nested_ignore_rechecked : Gen.C11.recheckAfterIgnore = true := by decide

/-- **Tie to the code (F145)**: `send_newkeys` restarts both rekey limits before it flushes the deferred packets, which
    is what `sendNewkeys` models by clearing `rekeyDue` (`newkeys_flush_sends_everything`). -/
theorem limits_restart_at_newkeys : Gen.C11.restartLimitsAtNewkeys = true := by decide

/-- key-exchange and transport-control messages: everything `send_packet` never defers during an exchange -/
def controlType (t : Nat) : Prop :=
  t ≤ MSG_KEX_LAST ∧ t ≠ MSG_DEBUG ∧ t ≠ MSG_SERVICE_REQUEST ∧ t ≠ MSG_SERVICE_ACCEPT

def OnlyKexBetween (out : List Wire) : Prop := ∀ w ∈ out, w.duringKex = true → controlType w.pkt.type

theorem emit_okb (e : Endpoint) (p : Pkt) (h : OnlyKexBetween e.out)
    (hp : e.kexComplete = false → controlType p.type) : OnlyKexBetween (emit e p).out := by
  intro w hw
  simp only [emit, List.mem_append, List.mem_singleton] at hw
  rcases hw with hw | rfl
  · exact h w hw
  · intro hd
    simp at hd
    exact hp hd

theorem sendKexinit_okb (e : Endpoint) (h : OnlyKexBetween e.out) : OnlyKexBetween (sendKexinit e).out := by
  unfold sendKexinit
  apply emit_okb
  · exact h
  · intro _; simp [controlType, MSG_KEXINIT, MSG_KEX_LAST, MSG_DEBUG, MSG_SERVICE_REQUEST, MSG_SERVICE_ACCEPT]

theorem not_defer_control (e : Endpoint) (t : Nat) (hd : mustDefer e t = false) (hk : e.kexComplete = false) :
    controlType t := by
  simp only [mustDefer, hk, MSG_DEBUG, MSG_SERVICE_REQUEST, MSG_SERVICE_ACCEPT, MSG_KEX_LAST, MSG_USERAUTH_BANNER,
    MSG_USERAUTH_LAST] at hd
  simp only [controlType, MSG_DEBUG, MSG_SERVICE_REQUEST, MSG_SERVICE_ACCEPT, MSG_KEX_LAST]
  simp at hd
  omega

theorem ignore_control : controlType MSG_IGNORE := by
  simp [controlType, MSG_IGNORE, MSG_KEX_LAST, MSG_DEBUG, MSG_SERVICE_REQUEST, MSG_SERVICE_ACCEPT]

theorem sendIgnore_okb (e : Endpoint) (h : OnlyKexBetween e.out) : OnlyKexBetween (sendIgnore e).out := by
  unfold sendIgnore
  split
  · simp only
    split
    · apply emit_okb
      · exact sendKexinit_okb { e with lateArmed := false } h
      · intro _; exact ignore_control
    · apply emit_okb _ _ (by simpa using h)
      intro _; exact ignore_control
  · apply emit_okb _ _ h
    intro _; exact ignore_control

theorem sendPacket_okb (e : Endpoint) (p : Pkt) (h : OnlyKexBetween e.out) : OnlyKexBetween (sendPacket e p).out := by
  unfold sendPacket
  -- the state after the rekey trigger
  have h1 : OnlyKexBetween
      (if e.authComplete && e.kexComplete && e.rekeyDue then { sendKexinit e with kexinitSent := true } else e).out := by
    split
    · exact sendKexinit_okb e h
    · exact h
  generalize (if e.authComplete && e.kexComplete && e.rekeyDue then { sendKexinit e with kexinitSent := true } else e) = e1 at h1 ⊢
  simp only
  split
  · exact h1
  · rename_i hd
    have hd' : mustDefer e1 p.type = false := by simpa using hd
    split
    · rename_i hig
      have h2 := sendIgnore_okb e1 h1
      split
      · rename_i hk
        apply emit_okb _ _ h2
        intro hk'
        rw [hk] at hk'
        cases hk'
      · exact h2
    · apply emit_okb _ _ h1
      intro hk
      exact not_defer_control e1 p.type hd' hk

theorem foldl_sendPacket_okb (l : List Pkt) (e : Endpoint) (h : OnlyKexBetween e.out) :
    OnlyKexBetween (l.foldl sendPacket e).out := by
  induction l generalizing e with
  | nil => exact h
  | cons p ps ih => exact ih _ (sendPacket_okb e p h)

theorem sendNewkeys_okb (e : Endpoint) (h : OnlyKexBetween e.out) : OnlyKexBetween (sendNewkeys e).out := by
  unfold sendNewkeys flushDeferred
  apply foldl_sendPacket_okb
  exact sendPacket_okb e _ h

theorem recvPacket_okb (e : Endpoint) (w : Wire) (h : OnlyKexBetween e.out) : OnlyKexBetween (recvPacket e w).out := by
  unfold recvPacket
  split
  · exact h
  · split
    · exact h
    · simp only
      split
      · split
        · exact h
        · split
          · split
            · simpa using h
            · exact sendPacket_okb _ _ (by simpa using h)
          · split
            · simpa using sendKexinit_okb e h
            · exact sendPacket_okb _ _ (by simpa using sendKexinit_okb e h)
      · split
        · split
          · exact sendNewkeys_okb _ (sendPacket_okb e _ h)
          · exact h
        · split
          · split
            · exact sendNewkeys_okb e h
            · exact h
          · split
            · split <;> exact h
            · split <;> simpa using h

/-- **Between its KEXINIT and its NEWKEYS an endpoint emits only key-exchange and transport-control messages**:
    for every event sequence, every packet written while the exchange is incomplete has a type that
    `send_packet` never defers (≤ 49 and not DEBUG / SERVICE_REQUEST / SERVICE_ACCEPT) — no channel data, no
    requests, no channel opens. -/
theorem only_kex_between (e : Endpoint) (evs : List Ev) (h : OnlyKexBetween e.out) :
    OnlyKexBetween (run e evs).out := by
  unfold run
  induction evs generalizing e with
  | nil => exact h
  | cons ev rest ih =>
    apply ih
    cases ev with
    | submit p => exact sendPacket_okb e p h
    | limit => exact h
    | late => exact h
    | recv w => exact recvPacket_okb e w h


/-- **Witness of defect F58 (repaired).**  Before the repair `send_packet` wrote its packet after the nested
    `send_packet(MSG_IGNORE)` whatever that call had done: when the time limit passed between the two clock
    readings, the nested call sent KEXINIT and the outer call then wrote CHANNEL_DATA between the endpoint's KEXINIT
    and its NEWKEYS. -/
theorem prefix_emits_data_during_exchange :
    let e : Endpoint := { server := false, lateArmed := true }
    ((sendPacketPreFix e ⟨94, 1⟩).out.map fun w => (w.pkt.type, w.duringKex)) = [(20, true), (2, true), (94, true)] ∧
    ¬ OnlyKexBetween (sendPacketPreFix e ⟨94, 1⟩).out := by
  refine ⟨by decide, ?_⟩
  intro h
  have := h ⟨⟨94, 1⟩, 1, true⟩ (by decide) rfl
  revert this
  simp [controlType, MSG_KEX_LAST]

/-- ... the repaired code holds the packet back: KEXINIT and IGNORE go out, the data waits for NEWKEYS -/
theorem late_limit_defers_example :
    let e := run { server := false } [.late, .submit ⟨94, 1⟩, .submit ⟨94, 2⟩]
    (e.out.map fun w => w.pkt.type) = [20, 2] ∧ e.deferred = [⟨94, 1⟩, ⟨94, 2⟩] ∧ e.lateArmed = false := by
  decide

/-! ### once an exchange is complete, what was held back goes out -/

/-- an endpoint with nothing pending that makes a send start an exchange -/
structure Calm (e : Endpoint) : Prop where
  auth : e.authComplete = true
  kc : e.kexComplete = true
  due : e.rekeyDue = false
  late : e.lateArmed = false

theorem sendPacket_calm (e : Endpoint) (p : Pkt) (h : Calm e) :
    Calm (sendPacket e p) ∧ (sendPacket e p).deferred = e.deferred := by
  obtain ⟨ha, hk, hd, hl⟩ := h
  have hmd : mustDefer e p.type = false := by simp [mustDefer, ha, hk]
  unfold sendPacket
  simp only [ha, hk, hd, Bool.and_false, Bool.false_eq_true, if_false, hmd]
  split
  · have hi : sendIgnore e = emit { e with lateArmed := false } ⟨MSG_IGNORE, 0⟩ := by
      simp [sendIgnore, ha, hk, hd, hl]
    rw [hi]
    refine ⟨⟨?_, ?_, ?_, ?_⟩, ?_⟩ <;> simp [emit, hk, ha, hd]
  · exact ⟨⟨ha, hk, hd, hl⟩, rfl⟩

theorem foldl_sendPacket_calm (l : List Pkt) (e : Endpoint) (h : Calm e) :
    Calm (l.foldl sendPacket e) ∧ (l.foldl sendPacket e).deferred = e.deferred := by
  induction l generalizing e with
  | nil => exact ⟨h, rfl⟩
  | cons p ps ih =>
    obtain ⟨h1, d1⟩ := sendPacket_calm e p h
    obtain ⟨h2, d2⟩ := ih _ h1
    exact ⟨h2, d2.trans d1⟩

/-- **After NEWKEYS everything that was held back goes out**: for an authenticated endpoint, whatever limit ran
    out while the exchange was in progress, `send_newkeys` empties the deferral queue — unless the clock passes the
    (restarted) limit again inside one of the flushed `send_packet` calls (`lateArmed`).  Before the repair of F145
    the timer was restarted only at KEXINIT, so with a rekey interval no longer than one exchange the first flushed
    packet started the next exchange and no application packet ever left (`newkeys_flush_prefix_witness`). -/
theorem newkeys_flush_sends_everything (e : Endpoint) (ha : e.authComplete = true) (hl : e.lateArmed = false) :
    (sendNewkeys e).deferred = [] ∧ (sendNewkeys e).kexComplete = true := by
  unfold sendNewkeys flushDeferred
  have hnk : ∀ e : Endpoint, (sendPacket e ⟨MSG_NEWKEYS, 0⟩).authComplete = e.authComplete ∧
      (sendPacket e ⟨MSG_NEWKEYS, 0⟩).lateArmed = e.lateArmed := by
    intro e
    have hle : ¬ (MSG_NEWKEYS > MSG_KEX_LAST) := by decide
    unfold sendPacket
    simp only
    split <;> split <;> (try split) <;> (try split) <;> simp_all [sendKexinit, emit, MSG_NEWKEYS, MSG_KEX_LAST]
  obtain ⟨h1, h2⟩ := hnk e
  have hc : Calm { sendPacket e ⟨MSG_NEWKEYS, 0⟩ with
      sendEpoch := (sendPacket e ⟨MSG_NEWKEYS, 0⟩).sendEpoch + 1, nextRecvReady := true, kexActive := false,
      kexComplete := true, rekeyDue := false,
      sessionId := match (sendPacket e ⟨MSG_NEWKEYS, 0⟩).sessionId with
        | some h => some h
        | none => some (sendPacket e ⟨MSG_NEWKEYS, 0⟩).sendEpoch,
      deferred := [] } := ⟨by simpa using h1.trans ha, rfl, rfl, by simpa using h2.trans hl⟩
  obtain ⟨c, d⟩ := foldl_sendPacket_calm (sendPacket e ⟨MSG_NEWKEYS, 0⟩).deferred _ hc
  exact ⟨d, c.kc⟩

/-- **Witness of defect F145 (repaired).**  A limit that expires while the exchange is running: before the repair
    the flush after NEWKEYS sent KEXINIT again and kept the data back; now the data goes out. -/
theorem newkeys_flush_prefix_witness :
    let e : Endpoint := { server := false, kexComplete := false, kexActive := true, rekeyDue := true,
                          deferred := [⟨94, 1⟩] }
    ((sendNewkeysPreFix e).out.map fun w => w.pkt.type) = [21, 20] ∧ (sendNewkeysPreFix e).deferred = [⟨94, 1⟩] ∧
    ((sendNewkeys e).out.map fun w => w.pkt.type) = [21, 2, 94] ∧ (sendNewkeys e).deferred = [] := by
  decide

/-! ### what the model says about `close()` during an exchange (known finding F147) -/

/-- **Mechanism of the known finding F147**, stated so that it is not mistaken for something the theorems exclude:
    MSG_DISCONNECT (1) is never deferred, so a `disconnect()` / `close()` issued while an exchange is running writes
    DISCONNECT at once and leaves the deferred packets where they are — the connection then goes away with them.
    `deferred_fifo` and the pair theorems speak about connections that stay up; channel data written just before
    `close()` during a re-exchange is lost on the real code (oracle `channel-data-dropped-by-close-during-exchange`),
    while without a re-exchange it arrives. -/
theorem disconnect_overtakes_deferred (e : Endpoint) (tag : Nat) (hk : e.kexComplete = false) :
    (sendPacket e ⟨1, tag⟩).deferred = e.deferred ∧
    (sendPacket e ⟨1, tag⟩).out = e.out ++ [⟨⟨1, tag⟩, e.sendEpoch, true⟩] := by
  have hmd : mustDefer e 1 = false := by
    simp [mustDefer, MSG_DEBUG, MSG_SERVICE_REQUEST, MSG_SERVICE_ACCEPT, MSG_KEX_LAST, MSG_USERAUTH_BANNER,
      MSG_USERAUTH_LAST]
  unfold sendPacket
  simp [hk, hmd, emit, MSG_KEX_LAST]

/-! ### no loss, duplication or reordering of what upper layers submit -/

/-- message types `send_packet` may hold back during an exchange: everything that is not key exchange or
    transport control -/
def deferrable (t : Nat) : Bool :=
  t == MSG_DEBUG || t == MSG_SERVICE_REQUEST || t == MSG_SERVICE_ACCEPT || decide (t > MSG_KEX_LAST)

/-- the application-level packets on the wire, in wire order -/
def proj (out : List Wire) : List Pkt := (out.map (·.pkt)).filter (fun p => deferrable p.type)

/-- the submissions an event sequence contains, in order -/
def submitted : List Ev → List Pkt
  | [] => []
  | .submit p :: r => if deferrable p.type then p :: submitted r else submitted r
  | _ :: r => submitted r

/-- authenticated endpoint whose wire + deferral queue hold exactly the submissions `S`, in order -/
structure Good (e : Endpoint) (S : List Pkt) : Prop where
  auth : e.authComplete = true
  fifo : proj e.out ++ e.deferred = S
  idle : e.kexComplete = true → e.deferred = []
  defOK : ∀ p ∈ e.deferred, deferrable p.type = true

theorem proj_append (a b : List Wire) : proj (a ++ b) = proj a ++ proj b := by
  simp [proj]

theorem mustDefer_auth (e : Endpoint) (t : Nat) (ha : e.authComplete = true) :
    mustDefer e t = (deferrable t && !e.kexComplete) := by
  simp only [mustDefer, deferrable, ha, MSG_DEBUG, MSG_SERVICE_REQUEST, MSG_SERVICE_ACCEPT, MSG_KEX_LAST,
    MSG_USERAUTH_BANNER, MSG_USERAUTH_LAST]
  simp

theorem emit_good_ctl (e : Endpoint) (p : Pkt) (S : List Pkt) (h : Good e S) (hp : deferrable p.type = false) :
    Good (emit e p) S := by
  refine ⟨h.auth, ?_, h.idle, h.defOK⟩
  simp only [emit, proj_append]
  have : proj [⟨p, e.sendEpoch, !e.kexComplete⟩] = [] := by simp [proj, hp]
  rw [this, List.append_nil]
  exact h.fifo

theorem sendKexinit_good (e : Endpoint) (S : List Pkt) (h : Good e S) :
    Good (sendKexinit e) S ∧ (sendKexinit e).kexComplete = false := by
  unfold sendKexinit
  refine ⟨?_, rfl⟩
  have hg : Good { e with kexComplete := false, rekeyDue := false } S := ⟨h.auth, h.fifo, (by intro hk; cases hk), h.defOK⟩
  exact emit_good_ctl _ _ S hg (by simp [deferrable, MSG_KEXINIT, MSG_DEBUG, MSG_SERVICE_REQUEST, MSG_SERVICE_ACCEPT, MSG_KEX_LAST])

theorem sendIgnore_good (e : Endpoint) (S : List Pkt) (h : Good e S) :
    Good (sendIgnore e) S ∧ (sendIgnore e).deferred = e.deferred := by
  have hi : deferrable MSG_IGNORE = false := by
    simp [deferrable, MSG_IGNORE, MSG_DEBUG, MSG_SERVICE_REQUEST, MSG_SERVICE_ACCEPT, MSG_KEX_LAST]
  unfold sendIgnore
  split
  · simp only
    have h0 : Good { e with lateArmed := false } S := ⟨h.auth, h.fifo, h.idle, h.defOK⟩
    split
    · obtain ⟨g, _⟩ := sendKexinit_good { e with lateArmed := false } S h0
      have g' : Good { sendKexinit { e with lateArmed := false } with kexinitSent := true } S :=
        ⟨g.auth, g.fifo, g.idle, g.defOK⟩
      exact ⟨emit_good_ctl _ _ S g' hi, rfl⟩
    · exact ⟨emit_good_ctl _ _ S h0 hi, rfl⟩
  · exact ⟨emit_good_ctl _ _ S h hi, rfl⟩

theorem sendPacket_good (e : Endpoint) (p : Pkt) (S : List Pkt) (h : Good e S) :
    Good (sendPacket e p) (if deferrable p.type then S ++ [p] else S) := by
  unfold sendPacket
  have h1 : Good
      (if e.authComplete && e.kexComplete && e.rekeyDue then { sendKexinit e with kexinitSent := true } else e) S := by
    split
    · obtain ⟨g, _⟩ := sendKexinit_good e S h
      exact ⟨g.auth, g.fifo, g.idle, g.defOK⟩
    · exact h
  generalize (if e.authComplete && e.kexComplete && e.rekeyDue then { sendKexinit e with kexinitSent := true } else e) = e1 at h1 ⊢
  simp only
  rw [mustDefer_auth e1 p.type h1.auth]
  cases hd : deferrable p.type with
  | false =>
    simp only [Bool.false_and, Bool.false_eq_true, if_false]
    have hnot : ¬ (e1.sendEpoch ≠ 0 ∧ p.type > MSG_KEX_LAST) := by
      intro hh
      simp only [deferrable, Bool.or_eq_false_iff, decide_eq_false_iff_not] at hd
      exact hd.2 hh.2
    simp only [hnot, if_false]
    exact emit_good_ctl e1 p S h1 hd
  | true =>
    simp only [Bool.true_and, if_true]
    have hdefer : ∀ e2 : Endpoint, Good e2 S → e2.kexComplete = false →
        Good { e2 with deferred := e2.deferred ++ [p] } (S ++ [p]) := by
      intro e2 g2 hk2
      refine ⟨g2.auth, ?_, ?_, ?_⟩
      · simp only; rw [← List.append_assoc, g2.fifo]
      · intro hk'; simp only at hk'; rw [hk2] at hk'; cases hk'
      · intro q hq
        simp only [List.mem_append, List.mem_singleton] at hq
        rcases hq with hq | rfl
        · exact g2.defOK q hq
        · exact hd
    cases hk : e1.kexComplete with
    | false =>
      simp only [Bool.not_false, if_true]
      refine ⟨h1.auth, ?_, ?_, ?_⟩
      · simp only; rw [← List.append_assoc, h1.fifo]
      · intro hk'; simp only at hk'; cases hk'
      · intro q hq
        simp only [List.mem_append, List.mem_singleton] at hq
        rcases hq with hq | rfl
        · exact h1.defOK q hq
        · exact hd
    | true =>
      simp only [Bool.not_true, Bool.false_eq_true, if_false]
      have hidle := h1.idle hk
      have hign : ∀ e2 : Endpoint, Good e2 S → e2.deferred = [] → Good (emit e2 p) (S ++ [p]) := by
        intro e2 g2 hd2
        refine ⟨g2.auth, ?_, ?_, ?_⟩
        · simp only [emit, proj_append, hd2, List.append_nil]
          have : proj [⟨p, e2.sendEpoch, !e2.kexComplete⟩] = [p] := by simp [proj, hd]
          rw [this]
          have := g2.fifo
          rw [hd2, List.append_nil] at this
          rw [this]
        · intro _; exact hd2
        · intro q hq; simp only [emit] at hq; rw [hd2] at hq; cases hq
      split
      · obtain ⟨g2, hdf⟩ := sendIgnore_good e1 S h1
        split
        · exact hign _ g2 (by rw [hdf]; exact hidle)
        · rename_i hk2
          exact hdefer _ g2 (by simpa using hk2)
      · exact hign e1 h1 hidle

theorem foldl_sendPacket_good (l : List Pkt) (hl : ∀ p ∈ l, deferrable p.type = true) (e : Endpoint) (S : List Pkt)
    (h : Good e S) : Good (l.foldl sendPacket e) (S ++ l) := by
  induction l generalizing e S with
  | nil => simpa using h
  | cons p ps ih =>
    simp only [List.foldl_cons]
    have hp := hl p (by simp)
    have := sendPacket_good e p S h
    rw [hp] at this
    simp only [if_true] at this
    have := ih (fun q hq => hl q (by simp [hq])) _ _ this
    simpa [List.append_assoc] using this

theorem flushDeferred_good (e : Endpoint) (S : List Pkt) (ha : e.authComplete = true)
    (hf : proj e.out ++ e.deferred = S) (hd : ∀ p ∈ e.deferred, deferrable p.type = true) :
    Good (flushDeferred e) S := by
  unfold flushDeferred
  rw [← hf]
  apply foldl_sendPacket_good e.deferred hd
  exact ⟨ha, by simp, fun _ => rfl, by intro q hq; cases hq⟩

theorem sendNewkeys_good (e : Endpoint) (S : List Pkt) (h : Good e S) : Good (sendNewkeys e) S := by
  unfold sendNewkeys
  have h1 := sendPacket_good e ⟨MSG_NEWKEYS, 0⟩ S h
  have hnd : deferrable MSG_NEWKEYS = false := by
    simp [deferrable, MSG_NEWKEYS, MSG_DEBUG, MSG_SERVICE_REQUEST, MSG_SERVICE_ACCEPT, MSG_KEX_LAST]
  simp only [hnd, Bool.false_eq_true, if_false] at h1
  exact flushDeferred_good _ S h1.auth h1.fifo h1.defOK

theorem recvPacket_good (e : Endpoint) (w : Wire) (S : List Pkt) (h : Good e S) : Good (recvPacket e w) S := by
  have hctl : ∀ (e' : Endpoint) (t : Nat), Good e' S → deferrable t = false → Good (sendPacket e' ⟨t, 0⟩) S := by
    intro e' t g ht
    have := sendPacket_good e' ⟨t, 0⟩ S g
    simpa [ht] using this
  have hinit : deferrable MSG_KEX_INIT = false := by
    simp [deferrable, MSG_KEX_INIT, MSG_DEBUG, MSG_SERVICE_REQUEST, MSG_SERVICE_ACCEPT, MSG_KEX_LAST]
  have hreply : deferrable MSG_KEX_REPLY = false := by
    simp [deferrable, MSG_KEX_REPLY, MSG_DEBUG, MSG_SERVICE_REQUEST, MSG_SERVICE_ACCEPT, MSG_KEX_LAST]
  have hfield : ∀ (e' e'' : Endpoint), Good e' S → e''.authComplete = e'.authComplete → e''.out = e'.out →
      e''.deferred = e'.deferred → e''.kexComplete = e'.kexComplete → Good e'' S := by
    intro e' e'' g h1 h2 h3 h4
    exact ⟨by rw [h1]; exact g.auth, by rw [h2, h3]; exact g.fifo, by rw [h3, h4]; exact g.idle,
      by rw [h3]; exact g.defOK⟩
  unfold recvPacket
  split
  · exact h
  · split
    · exact hfield e _ h rfl rfl rfl rfl
    · simp only
      split
      · split
        · exact hfield e _ h rfl rfl rfl rfl
        · split
          · split
            · exact hfield e _ h rfl rfl rfl rfl
            · exact hctl _ _ (hfield e _ h rfl rfl rfl rfl) hinit
          · have hk := (sendKexinit_good e S h).1
            split
            · exact hfield _ _ hk rfl rfl rfl rfl
            · exact hctl _ _ (hfield _ _ hk rfl rfl rfl rfl) hinit
      · split
        · split
          · exact sendNewkeys_good _ S (hctl e _ h hreply)
          · exact hfield e _ h rfl rfl rfl rfl
        · split
          · split
            · exact sendNewkeys_good e S h
            · exact hfield e _ h rfl rfl rfl rfl
          · split
            · split <;> exact hfield e _ h rfl rfl rfl rfl
            · split
              · exact h
              · exact hfield e _ h rfl rfl rfl rfl

/-- **A re-exchange loses, duplicates and reorders nothing that upper layers submit**: for an authenticated
    endpoint and EVERY sequence of events (submissions of channel data / requests / opens, limits expiring at
    any moment, KEXINIT / key-exchange / NEWKEYS packets of any number of exchanges arriving, also while the
    endpoint has started one itself), the application-level packets on the wire followed by those still held
    back are exactly the packets submitted, in submission order. -/
theorem deferred_fifo (e : Endpoint) (S : List Pkt) (evs : List Ev) (h : Good e S) :
    Good (run e evs) (S ++ submitted evs) := by
  unfold run
  induction evs generalizing e S with
  | nil => simpa [submitted] using h
  | cons ev rest ih =>
    simp only [List.foldl_cons]
    cases ev with
    | submit p =>
      have h1 := sendPacket_good e p S h
      have := ih _ _ h1
      simp only [step, submitted]
      split at this <;> rename_i hd <;> simp only [hd, if_true, Bool.false_eq_true, if_false]
      · simpa [List.append_assoc] using this
      · exact this
    | limit =>
      simp only [step, submitted]
      exact ih _ S ⟨h.auth, h.fifo, h.idle, h.defOK⟩
    | late =>
      simp only [step, submitted]
      exact ih _ S ⟨h.auth, h.fifo, h.idle, h.defOK⟩
    | recv w =>
      simp only [step, submitted]
      exact ih _ S (recvPacket_good e w S h)

/-- once the exchange is complete nothing is held back: everything submitted is on the wire, in order -/
theorem all_sent_when_idle (e : Endpoint) (S : List Pkt) (evs : List Ev) (h : Good e S)
    (hk : (run e evs).kexComplete = true) : proj (run e evs).out = S ++ submitted evs := by
  have g := deferred_fifo e S evs h
  have := g.fifo
  rw [g.idle hk, List.append_nil] at this
  exact this


/-! ### fresh keys after every NEWKEYS, constant session identifier -/

/-- every packet is sealed under the epoch current at its position: epochs start at `ep` and advance by one
    exactly after each NEWKEYS -/
def epochsOK : Nat → List Wire → Bool
  | _, [] => true
  | ep, w :: r => (w.epoch == ep) && epochsOK (if w.pkt.type = MSG_NEWKEYS then ep + 1 else ep) r

def endEpoch : Nat → List Wire → Nat
  | ep, [] => ep
  | ep, w :: r => endEpoch (if w.pkt.type = MSG_NEWKEYS then ep + 1 else ep) r

theorem epochsOK_append (ep : Nat) (a b : List Wire) :
    epochsOK ep (a ++ b) = (epochsOK ep a && epochsOK (endEpoch ep a) b) := by
  induction a generalizing ep with
  | nil => simp [epochsOK, endEpoch]
  | cons w r ih => simp [epochsOK, endEpoch, ih, Bool.and_assoc]

theorem endEpoch_append (ep : Nat) (a b : List Wire) : endEpoch ep (a ++ b) = endEpoch (endEpoch ep a) b := by
  induction a generalizing ep with
  | nil => simp [endEpoch]
  | cons w r ih => simp [endEpoch, ih]

/-- wire so far is epoch-consistent from `ep0`, and a NEWKEYS that is still "open" (written, keys not yet
    switched) is accounted for by `pendingSwitch` -/
structure Keys (ep0 : Nat) (e : Endpoint) : Prop where
  ok : epochsOK ep0 e.out = true
  cur : e.sendEpoch = endEpoch ep0 e.out

def noNewkeys : List Ev → Prop
  | [] => True
  | .submit p :: r => p.type ≠ MSG_NEWKEYS ∧ noNewkeys r
  | _ :: r => noNewkeys r

theorem emit_keys (ep0 : Nat) (e : Endpoint) (p : Pkt) (h : Keys ep0 e) (hp : p.type ≠ MSG_NEWKEYS) :
    Keys ep0 (emit e p) := by
  refine ⟨?_, ?_⟩
  · simp only [emit, epochsOK_append, h.ok, Bool.true_and, epochsOK, hp, if_false, Bool.and_true]
    simp [h.cur]
  · simp only [emit, endEpoch_append, endEpoch, hp, if_false]
    exact h.cur

theorem sendIgnore_keys (ep0 : Nat) (e : Endpoint) (h : Keys ep0 e) : Keys ep0 (sendIgnore e) := by
  have hi : (⟨MSG_IGNORE, 0⟩ : Pkt).type ≠ MSG_NEWKEYS := by simp [MSG_IGNORE, MSG_NEWKEYS]
  unfold sendIgnore
  split
  · simp only
    split
    · have := emit_keys ep0 { e with lateArmed := false, kexComplete := false, rekeyDue := false } ⟨MSG_KEXINIT, 0⟩
        ⟨h.ok, h.cur⟩ (by simp [MSG_KEXINIT, MSG_NEWKEYS])
      exact emit_keys ep0 _ _ ⟨this.ok, this.cur⟩ hi
    · exact emit_keys ep0 _ _ ⟨h.ok, h.cur⟩ hi
  · exact emit_keys ep0 _ _ h hi

theorem sendPacket_keys (ep0 : Nat) (e : Endpoint) (p : Pkt) (h : Keys ep0 e) (hp : p.type ≠ MSG_NEWKEYS) :
    Keys ep0 (sendPacket e p) := by
  unfold sendPacket
  have h1 : Keys ep0
      (if e.authComplete && e.kexComplete && e.rekeyDue then { sendKexinit e with kexinitSent := true } else e) := by
    split
    · have := emit_keys ep0 { e with kexComplete := false, rekeyDue := false } ⟨MSG_KEXINIT, 0⟩ ⟨h.ok, h.cur⟩
        (by simp [MSG_KEXINIT, MSG_NEWKEYS])
      exact ⟨this.ok, this.cur⟩
    · exact h
  generalize (if e.authComplete && e.kexComplete && e.rekeyDue then { sendKexinit e with kexinitSent := true } else e) = e1 at h1 ⊢
  simp only
  split
  · exact ⟨h1.ok, h1.cur⟩
  · split
    · have h2 := sendIgnore_keys ep0 e1 h1
      split
      · exact emit_keys ep0 _ p h2 hp
      · exact ⟨h2.ok, h2.cur⟩
    · exact emit_keys ep0 e1 p h1 hp

theorem foldl_sendPacket_keys (ep0 : Nat) (l : List Pkt) (hl : ∀ p ∈ l, p.type ≠ MSG_NEWKEYS) (e : Endpoint)
    (h : Keys ep0 e) : Keys ep0 (l.foldl sendPacket e) := by
  induction l generalizing e with
  | nil => exact h
  | cons p ps ih =>
    exact ih (fun q hq => hl q (by simp [hq])) _ (sendPacket_keys ep0 e p h (hl p (by simp)))

/-- the deferral queue never holds a NEWKEYS (it is a control message) -/
def QueueClean (e : Endpoint) : Prop := ∀ p ∈ e.deferred, p.type ≠ MSG_NEWKEYS

theorem sendIgnore_deferred (e : Endpoint) : (sendIgnore e).deferred = e.deferred := by
  unfold sendIgnore
  split
  · simp only
    split <;> rfl
  · rfl

theorem sendPacket_clean (e : Endpoint) (p : Pkt) (h : QueueClean e) (hp : p.type ≠ MSG_NEWKEYS) :
    QueueClean (sendPacket e p) := by
  unfold sendPacket
  have h1 : QueueClean
      (if e.authComplete && e.kexComplete && e.rekeyDue then { sendKexinit e with kexinitSent := true } else e) := by
    split
    · simpa [QueueClean, sendKexinit, emit] using h
    · exact h
  generalize (if e.authComplete && e.kexComplete && e.rekeyDue then { sendKexinit e with kexinitSent := true } else e) = e1 at h1 ⊢
  simp only
  split
  · intro q hq
    simp only [List.mem_append, List.mem_singleton] at hq
    rcases hq with hq | rfl
    · exact h1 q hq
    · exact hp
  · split
    · split
      · simpa [QueueClean, emit, sendIgnore_deferred] using h1
      · intro q hq
        simp only [List.mem_append, List.mem_singleton, sendIgnore_deferred] at hq
        rcases hq with hq | rfl
        · exact h1 q hq
        · exact hp
    · simpa [QueueClean, emit] using h1

theorem foldl_sendPacket_clean (l : List Pkt) (hl : ∀ p ∈ l, p.type ≠ MSG_NEWKEYS) (e : Endpoint)
    (h : QueueClean e) : QueueClean (l.foldl sendPacket e) := by
  induction l generalizing e with
  | nil => exact h
  | cons p ps ih =>
    exact ih (fun q hq => hl q (by simp [hq])) _ (sendPacket_clean e p h (hl p (by simp)))

/-- writing NEWKEYS: never deferred; the epoch bookkeeping is one step behind until the keys are switched -/
theorem sendPacket_newkeys (ep0 : Nat) (e : Endpoint) (h : Keys ep0 e) (hq : QueueClean e) :
    let e1 := sendPacket e ⟨MSG_NEWKEYS, 0⟩
    epochsOK ep0 e1.out = true ∧ e1.sendEpoch + 1 = endEpoch ep0 e1.out ∧ QueueClean e1 := by
  simp only
  unfold sendPacket
  have h1 : Keys ep0
      (if e.authComplete && e.kexComplete && e.rekeyDue then { sendKexinit e with kexinitSent := true } else e) ∧
      QueueClean
      (if e.authComplete && e.kexComplete && e.rekeyDue then { sendKexinit e with kexinitSent := true } else e) := by
    split
    · have := emit_keys ep0 { e with kexComplete := false, rekeyDue := false } ⟨MSG_KEXINIT, 0⟩ ⟨h.ok, h.cur⟩
        (by simp [MSG_KEXINIT, MSG_NEWKEYS])
      exact ⟨⟨this.ok, this.cur⟩, by simpa [QueueClean, sendKexinit, emit] using hq⟩
    · exact ⟨h, hq⟩
  generalize (if e.authComplete && e.kexComplete && e.rekeyDue then { sendKexinit e with kexinitSent := true } else e) = e1 at h1 ⊢
  obtain ⟨hk1, hq1⟩ := h1
  have hnd : mustDefer e1 MSG_NEWKEYS = false := by
    simp [mustDefer, MSG_NEWKEYS, MSG_DEBUG, MSG_SERVICE_REQUEST, MSG_SERVICE_ACCEPT, MSG_KEX_LAST,
      MSG_USERAUTH_BANNER, MSG_USERAUTH_LAST]
  have hni : ¬ (e1.sendEpoch ≠ 0 ∧ MSG_NEWKEYS > MSG_KEX_LAST) := by simp [MSG_NEWKEYS, MSG_KEX_LAST]
  simp only [hnd, Bool.false_eq_true, if_false, hni]
  refine ⟨?_, ?_, ?_⟩
  · simp only [emit, epochsOK_append, hk1.ok, Bool.true_and, epochsOK, Bool.and_true]
    simp [hk1.cur]
  · simp only [emit, endEpoch_append, endEpoch, if_true]
    rw [hk1.cur]
  · simpa [QueueClean, emit] using hq1

theorem sendNewkeys_keys (ep0 : Nat) (e : Endpoint) (h : Keys ep0 e) (hq : QueueClean e) :
    Keys ep0 (sendNewkeys e) ∧ QueueClean (sendNewkeys e) := by
  obtain ⟨h1, h2, h3⟩ := sendPacket_newkeys ep0 e h hq
  unfold sendNewkeys flushDeferred
  simp only
  refine ⟨?_, ?_⟩
  · exact foldl_sendPacket_keys ep0 _ h3 _ ⟨h1, h2⟩
  · apply foldl_sendPacket_clean _ h3
    intro q hq'; cases hq'

theorem recvPacket_keys (ep0 : Nat) (e : Endpoint) (w : Wire) (h : Keys ep0 e) (hq : QueueClean e) :
    Keys ep0 (recvPacket e w) ∧ QueueClean (recvPacket e w) := by
  have hf : ∀ (e0 e' : Endpoint), Keys ep0 e0 → QueueClean e0 → e'.out = e0.out → e'.sendEpoch = e0.sendEpoch →
      e'.deferred = e0.deferred → Keys ep0 e' ∧ QueueClean e' := by
    intro e0 e' k q h1 h2 h3
    exact ⟨⟨by rw [h1]; exact k.ok, by rw [h1, h2]; exact k.cur⟩, by intro p hp; rw [h3] at hp; exact q p hp⟩
  have hctl : ∀ (e' : Endpoint) (t : Nat), Keys ep0 e' → QueueClean e' → t ≠ MSG_NEWKEYS →
      Keys ep0 (sendPacket e' ⟨t, 0⟩) ∧ QueueClean (sendPacket e' ⟨t, 0⟩) :=
    fun e' t k q ht => ⟨sendPacket_keys ep0 e' _ k ht, sendPacket_clean e' _ q ht⟩
  have hinit : MSG_KEX_INIT ≠ MSG_NEWKEYS := by simp [MSG_KEX_INIT, MSG_NEWKEYS]
  have hreply : MSG_KEX_REPLY ≠ MSG_NEWKEYS := by simp [MSG_KEX_REPLY, MSG_NEWKEYS]
  have hkx : Keys ep0 (sendKexinit e) ∧ QueueClean (sendKexinit e) := by
    have := emit_keys ep0 { e with kexComplete := false, rekeyDue := false } ⟨MSG_KEXINIT, 0⟩ ⟨h.ok, h.cur⟩
      (by simp [MSG_KEXINIT, MSG_NEWKEYS])
    exact ⟨⟨this.ok, this.cur⟩, by simpa [QueueClean, sendKexinit, emit] using hq⟩
  unfold recvPacket
  split
  · exact ⟨h, hq⟩
  · split
    · exact hf e _ h hq rfl rfl rfl
    · simp only
      split
      · split
        · exact hf e _ h hq rfl rfl rfl
        · split
          · split
            · exact hf e _ h hq rfl rfl rfl
            · obtain ⟨k, q⟩ := hf e { { e with kexinitSent := false } with kexActive := true } h hq rfl rfl rfl
              exact hctl _ _ k q hinit
          · split
            · exact hf _ _ hkx.1 hkx.2 rfl rfl rfl
            · obtain ⟨k, q⟩ := hf (sendKexinit e) { sendKexinit e with kexActive := true } hkx.1 hkx.2 rfl rfl rfl
              exact hctl _ _ k q hinit
      · split
        · split
          · obtain ⟨k, q⟩ := hctl e _ h hq hreply
            exact sendNewkeys_keys ep0 _ k q
          · exact hf e _ h hq rfl rfl rfl
        · split
          · split
            · exact sendNewkeys_keys ep0 e h hq
            · exact hf e _ h hq rfl rfl rfl
          · split
            · split <;> exact hf e _ h hq rfl rfl rfl
            · split
              · exact ⟨h, hq⟩
              · exact hf e _ h hq rfl rfl rfl

/-- **Traffic after NEWKEYS is protected with freshly derived keys, never with an older epoch**: for every
    event sequence in which upper layers do not themselves submit NEWKEYS, every packet on the wire is sealed
    under the epoch `ep0 + (number of NEWKEYS written before it)` — the epoch advances exactly at each NEWKEYS
    and no packet after it uses a previous epoch. -/
theorem keys_fresh (ep0 : Nat) (e : Endpoint) (evs : List Ev) (h : Keys ep0 e) (hq : QueueClean e)
    (hn : noNewkeys evs) : epochsOK ep0 (run e evs).out = true := by
  suffices hh : Keys ep0 (run e evs) ∧ QueueClean (run e evs) from hh.1.ok
  unfold run
  induction evs generalizing e with
  | nil => exact ⟨h, hq⟩
  | cons ev rest ih =>
    simp only [List.foldl_cons]
    cases ev with
    | submit p =>
      simp only [noNewkeys] at hn
      exact ih _ (sendPacket_keys ep0 e p h hn.1) (sendPacket_clean e p hq hn.1) hn.2
    | limit =>
      simp only [noNewkeys] at hn
      exact ih _ ⟨h.ok, h.cur⟩ hq hn
    | late =>
      simp only [noNewkeys] at hn
      exact ih _ ⟨h.ok, h.cur⟩ hq hn
    | recv w =>
      simp only [noNewkeys] at hn
      obtain ⟨k, q⟩ := recvPacket_keys ep0 e w h hq
      exact ih _ k q hn

/-! ### session identifier -/

theorem sendIgnore_sid (e : Endpoint) : (sendIgnore e).sessionId = e.sessionId := by
  unfold sendIgnore
  split
  · simp only
    split <;> rfl
  · rfl

theorem sendPacket_sid (e : Endpoint) (p : Pkt) : (sendPacket e p).sessionId = e.sessionId := by
  unfold sendPacket
  simp only
  split <;> split <;> (try split) <;> (try split) <;> simp [sendKexinit, emit, sendIgnore_sid]

theorem foldl_sendPacket_sid (l : List Pkt) (e : Endpoint) : (l.foldl sendPacket e).sessionId = e.sessionId := by
  induction l generalizing e with
  | nil => rfl
  | cons p ps ih => simp only [List.foldl_cons]; rw [ih, sendPacket_sid]

theorem sendNewkeys_sid (e : Endpoint) (h : Nat) (hs : e.sessionId = some h) :
    (sendNewkeys e).sessionId = some h := by
  unfold sendNewkeys flushDeferred
  simp only
  rw [foldl_sendPacket_sid]
  simp only [sendPacket_sid, hs]

theorem recvPacket_sid (e : Endpoint) (w : Wire) (h : Nat) (hs : e.sessionId = some h) :
    (recvPacket e w).sessionId = some h := by
  unfold recvPacket
  split
  · exact hs
  · split
    · exact hs
    · simp only
      split
      · split
        · exact hs
        · split <;> split <;> simp [sendPacket_sid, sendKexinit, emit, hs]
      · split
        · split
          · apply sendNewkeys_sid; rw [sendPacket_sid]; exact hs
          · exact hs
        · split
          · split
            · exact sendNewkeys_sid e h hs
            · exact hs
          · split
            · split <;> exact hs
            · split <;> exact hs

/-- **The session identifier never changes after the first exchange**, whatever happens later (any number of
    re-exchanges started by either side). -/
theorem session_id_constant (e : Endpoint) (evs : List Ev) (h : Nat) (hs : e.sessionId = some h) :
    (run e evs).sessionId = some h := by
  unfold run
  induction evs generalizing e with
  | nil => exact hs
  | cons ev rest ih =>
    simp only [List.foldl_cons]
    apply ih
    cases ev with
    | submit p => simp only [step]; rw [sendPacket_sid]; exact hs
    | limit => exact hs
    | late => exact hs
    | recv w => exact recvPacket_sid e w h hs

/-! ### the two ends stay in step: the receiver's key epoch is always the one the next packet was sealed under -/

theorem epochsOK_get (ep : Nat) (l : List Wire) (i : Nat) (w : Wire) (h : epochsOK ep l = true)
    (hw : l[i]? = some w) : w.epoch = endEpoch ep (l.take i) := by
  induction l generalizing ep i with
  | nil => simp at hw
  | cons x r ih =>
    simp only [epochsOK, Bool.and_eq_true, beq_iff_eq] at h
    cases i with
    | zero =>
      simp at hw; subst hw
      simp [endEpoch, h.1]
    | succ j =>
      simp only [List.getElem?_cons_succ] at hw
      simp only [List.take_succ_cons, endEpoch]
      exact ih _ j h.2 hw

theorem endEpoch_take_succ (ep : Nat) (l : List Wire) (i : Nat) (w : Wire) (hw : l[i]? = some w) :
    endEpoch ep (l.take (i + 1)) = (if w.pkt.type = MSG_NEWKEYS then endEpoch ep (l.take i) + 1 else endEpoch ep (l.take i)) := by
  induction l generalizing ep i with
  | nil => simp at hw
  | cons x r ih =>
    cases i with
    | zero => simp at hw; subst hw; simp [endEpoch]
    | succ j =>
      simp only [List.getElem?_cons_succ] at hw
      simp only [List.take_succ_cons, endEpoch]
      exact ih _ j hw

/-- `out` only ever grows -/
def Extends (a b : Endpoint) : Prop := ∃ extra, b.out = a.out ++ extra

theorem extends_refl (a : Endpoint) : Extends a a := ⟨[], by simp⟩
theorem extends_trans {a b c : Endpoint} (h1 : Extends a b) (h2 : Extends b c) : Extends a c := by
  obtain ⟨x, hx⟩ := h1; obtain ⟨y, hy⟩ := h2
  exact ⟨x ++ y, by rw [hy, hx, List.append_assoc]⟩

theorem emit_extends (e : Endpoint) (p : Pkt) : Extends e (emit e p) := ⟨_, rfl⟩

theorem sendKexinit_extends (e : Endpoint) : Extends e (sendKexinit e) := ⟨_, rfl⟩

theorem sendIgnore_extends (e : Endpoint) : Extends e (sendIgnore e) := by
  unfold sendIgnore
  split
  · simp only
    split
    · exact extends_trans (⟨[], by simp⟩ : Extends e { e with lateArmed := false })
        (extends_trans (sendKexinit_extends _) (extends_trans ⟨[], by simp⟩ (emit_extends _ _)))
    · exact extends_trans (⟨[], by simp⟩ : Extends e { e with lateArmed := false }) (emit_extends _ _)
  · exact emit_extends _ _

theorem sendPacket_extends (e : Endpoint) (p : Pkt) : Extends e (sendPacket e p) := by
  unfold sendPacket
  have h1 : Extends e
      (if e.authComplete && e.kexComplete && e.rekeyDue then { sendKexinit e with kexinitSent := true } else e) := by
    split
    · exact extends_trans (sendKexinit_extends e) ⟨[], by simp⟩
    · exact extends_refl e
  generalize (if e.authComplete && e.kexComplete && e.rekeyDue then { sendKexinit e with kexinitSent := true } else e) = e1 at h1 ⊢
  simp only
  split
  · exact extends_trans h1 ⟨[], by simp⟩
  · split
    · split
      · exact extends_trans h1 (extends_trans (sendIgnore_extends e1) (emit_extends _ _))
      · exact extends_trans h1 (extends_trans (sendIgnore_extends e1) ⟨[], by simp⟩)
    · exact extends_trans h1 (emit_extends e1 p)

theorem foldl_sendPacket_extends (l : List Pkt) (e : Endpoint) : Extends e (l.foldl sendPacket e) := by
  induction l generalizing e with
  | nil => exact extends_refl e
  | cons p ps ih => exact extends_trans (sendPacket_extends e p) (ih _)

theorem sendNewkeys_extends (e : Endpoint) : Extends e (sendNewkeys e) := by
  unfold sendNewkeys flushDeferred
  simp only
  refine extends_trans (sendPacket_extends e ⟨MSG_NEWKEYS, 0⟩) (extends_trans ?_ (foldl_sendPacket_extends _ _))
  exact ⟨[], by simp⟩

theorem recvPacket_extends (e : Endpoint) (w : Wire) : Extends e (recvPacket e w) := by
  have hf : ∀ e' : Endpoint, e'.out = e.out → Extends e e' := fun e' h => ⟨[], by simp [h]⟩
  unfold recvPacket
  split
  · exact extends_refl e
  · split
    · exact hf _ rfl
    · simp only
      split
      · split
        · exact hf _ rfl
        · split
          · split
            · exact hf _ rfl
            · exact extends_trans (hf { { e with kexinitSent := false } with kexActive := true } rfl) (sendPacket_extends _ _)
          · have hk : Extends e (sendKexinit e) := ⟨_, rfl⟩
            split
            · exact extends_trans hk ⟨[], by simp⟩
            · exact extends_trans (extends_trans hk (⟨[], by simp⟩ : Extends (sendKexinit e) { sendKexinit e with kexActive := true }))
                (sendPacket_extends _ _)
      · split
        · split
          · exact extends_trans (sendPacket_extends e _) (sendNewkeys_extends _)
          · exact hf _ rfl
        · split
          · split
            · exact sendNewkeys_extends e
            · exact hf _ rfl
          · split
            · split <;> exact hf _ rfl
            · split
              · exact extends_refl e
              · exact hf _ rfl

theorem sendIgnore_recvside (e : Endpoint) :
    (sendIgnore e).recvEpoch = e.recvEpoch ∧ (sendIgnore e).failed = e.failed := by
  unfold sendIgnore
  split
  · simp only
    split <;> exact ⟨rfl, rfl⟩
  · exact ⟨rfl, rfl⟩

theorem sendPacket_recvside (e : Endpoint) (p : Pkt) :
    (sendPacket e p).recvEpoch = e.recvEpoch ∧ (sendPacket e p).failed = e.failed := by
  unfold sendPacket
  simp only
  split <;> split <;> (try split) <;> (try split) <;>
    simp [sendKexinit, emit, (sendIgnore_recvside _).1, (sendIgnore_recvside _).2]

theorem foldl_sendPacket_recvside (l : List Pkt) (e : Endpoint) :
    (l.foldl sendPacket e).recvEpoch = e.recvEpoch ∧ (l.foldl sendPacket e).failed = e.failed := by
  induction l generalizing e with
  | nil => exact ⟨rfl, rfl⟩
  | cons p ps ih =>
    simp only [List.foldl_cons]
    obtain ⟨h1, h2⟩ := ih (sendPacket e p)
    obtain ⟨h3, h4⟩ := sendPacket_recvside e p
    exact ⟨h1.trans h3, h2.trans h4⟩

theorem sendNewkeys_recvside (e : Endpoint) :
    (sendNewkeys e).recvEpoch = e.recvEpoch ∧ (sendNewkeys e).failed = e.failed := by
  unfold sendNewkeys flushDeferred
  simp only
  constructor
  · rw [(foldl_sendPacket_recvside _ _).1]; exact (sendPacket_recvside e _).1
  · rw [(foldl_sendPacket_recvside _ _).2]; exact (sendPacket_recvside e _).2

/-- what `recvPacket` does to the receive epoch of an endpoint that does not fail -/
theorem recvPacket_recvEpoch (e : Endpoint) (w : Wire) (hnf : (recvPacket e w).failed = false) :
    (recvPacket e w).recvEpoch = (if w.pkt.type = MSG_NEWKEYS then e.recvEpoch + 1 else e.recvEpoch) ∧
    w.epoch = e.recvEpoch := by
  unfold recvPacket at hnf ⊢
  split at hnf
  · rename_i hf; rw [hf] at hnf; cases hnf
  · rename_i hf
    simp only [hf, Bool.false_eq_true, if_false]
    split at hnf
    · simp at hnf
    · rename_i hep
      have hep' : w.epoch = e.recvEpoch := by simpa using hep
      simp only [hep, if_false]
      refine ⟨?_, hep'⟩
      simp only at hnf ⊢
      by_cases h20 : w.pkt.type = MSG_KEXINIT
      · have hne : ¬ (w.pkt.type = MSG_NEWKEYS) := by rw [h20]; simp [MSG_KEXINIT, MSG_NEWKEYS]
        simp only [h20, if_true] at hnf ⊢
        simp only [show ¬ (MSG_KEXINIT = MSG_NEWKEYS) by simp [MSG_KEXINIT, MSG_NEWKEYS], if_false]
        split
        · simp
        · split <;> split <;> simp [(sendPacket_recvside _ _).1, sendKexinit, emit]
      · simp only [h20, if_false] at hnf ⊢
        by_cases h30 : w.pkt.type = MSG_KEX_INIT
        · simp only [h30, if_true] at hnf ⊢
          simp only [show ¬ (MSG_KEX_INIT = MSG_NEWKEYS) by simp [MSG_KEX_INIT, MSG_NEWKEYS], if_false]
          split
          · rw [(sendNewkeys_recvside _).1, (sendPacket_recvside _ _).1]
          · simp
        · simp only [h30, if_false] at hnf ⊢
          by_cases h31 : w.pkt.type = MSG_KEX_REPLY
          · simp only [h31, if_true] at hnf ⊢
            simp only [show ¬ (MSG_KEX_REPLY = MSG_NEWKEYS) by simp [MSG_KEX_REPLY, MSG_NEWKEYS], if_false]
            split
            · rw [(sendNewkeys_recvside _).1]
            · simp
          · simp only [h31, if_false] at hnf ⊢
            by_cases h21 : w.pkt.type = MSG_NEWKEYS
            · simp only [h21, if_true] at hnf ⊢
              split at hnf
              · rename_i hr; simp [hr]
              · simp at hnf
            · simp only [h21, if_false] at hnf ⊢
              split <;> simp

/-- both ends' wire and receive bookkeeping agree -/
structure SysInv (y : Sys) : Prop where
  kc : Keys 1 y.c
  qc : QueueClean y.c
  ks : Keys 1 y.s
  qs : QueueClean y.s
  rs : y.s.failed = false → y.s.recvEpoch = endEpoch 1 (y.c.out.take y.cDelivered)
  rc : y.c.failed = false → y.c.recvEpoch = endEpoch 1 (y.s.out.take y.sDelivered)
  bc : y.cDelivered ≤ y.c.out.length
  bs : y.sDelivered ≤ y.s.out.length

def sysNoNewkeys : List SysEv → Prop
  | [] => True
  | .submitC p :: r => p.type ≠ MSG_NEWKEYS ∧ sysNoNewkeys r
  | .submitS p :: r => p.type ≠ MSG_NEWKEYS ∧ sysNoNewkeys r
  | _ :: r => sysNoNewkeys r

theorem take_of_extends {a b : Endpoint} (h : Extends a b) (n : Nat) (hn : n ≤ a.out.length) :
    b.out.take n = a.out.take n := by
  obtain ⟨x, hx⟩ := h
  rw [hx, List.take_append_of_le_length hn]

theorem length_of_extends {a b : Endpoint} (h : Extends a b) : a.out.length ≤ b.out.length := by
  obtain ⟨x, hx⟩ := h
  rw [hx]; simp

theorem sysInv_init : SysInv Sys.init := by
  refine ⟨⟨rfl, rfl⟩, ?_, ⟨rfl, rfl⟩, ?_, ?_, ?_, ?_, ?_⟩
  · intro p hp; cases hp
  · intro p hp; cases hp
  · intro _; rfl
  · intro _; rfl
  · exact Nat.le_refl _
  · exact Nat.le_refl _

theorem sysStep_inv (y : Sys) (ev : SysEv) (h : SysInv y)
    (hev : match ev with | .submitC p => p.type ≠ MSG_NEWKEYS | .submitS p => p.type ≠ MSG_NEWKEYS | _ => True) :
    SysInv (sysStep y ev) := by
  cases ev with
  | submitC p =>
    simp only [sysStep]
    have hx := sendPacket_extends y.c p
    refine ⟨sendPacket_keys 1 y.c p h.kc hev, sendPacket_clean y.c p h.qc hev, h.ks, h.qs, ?_, ?_, ?_, h.bs⟩
    · intro hf; simp only; rw [take_of_extends hx _ h.bc]; exact h.rs hf
    · intro hf
      simp only at hf ⊢
      rw [(sendPacket_recvside y.c p).2] at hf
      rw [(sendPacket_recvside y.c p).1]; exact h.rc hf
    · exact Nat.le_trans h.bc (length_of_extends hx)
  | submitS p =>
    simp only [sysStep]
    have hx := sendPacket_extends y.s p
    refine ⟨h.kc, h.qc, sendPacket_keys 1 y.s p h.ks hev, sendPacket_clean y.s p h.qs hev, ?_, ?_, h.bc, ?_⟩
    · intro hf
      simp only at hf ⊢
      rw [(sendPacket_recvside y.s p).2] at hf
      rw [(sendPacket_recvside y.s p).1]; exact h.rs hf
    · intro hf; simp only; rw [take_of_extends hx _ h.bs]; exact h.rc hf
    · exact Nat.le_trans h.bs (length_of_extends hx)
  | limitC =>
    simp only [sysStep]
    exact ⟨⟨h.kc.ok, h.kc.cur⟩, h.qc, h.ks, h.qs, h.rs, h.rc, h.bc, h.bs⟩
  | limitS =>
    simp only [sysStep]
    exact ⟨h.kc, h.qc, ⟨h.ks.ok, h.ks.cur⟩, h.qs, h.rs, h.rc, h.bc, h.bs⟩
  | lateC =>
    simp only [sysStep]
    exact ⟨⟨h.kc.ok, h.kc.cur⟩, h.qc, h.ks, h.qs, h.rs, h.rc, h.bc, h.bs⟩
  | lateS =>
    simp only [sysStep]
    exact ⟨h.kc, h.qc, ⟨h.ks.ok, h.ks.cur⟩, h.qs, h.rs, h.rc, h.bc, h.bs⟩
  | deliverCS =>
    simp only [sysStep]
    split
    · rename_i w hw
      obtain ⟨k', q'⟩ := recvPacket_keys 1 y.s w h.ks h.qs
      have hx := recvPacket_extends y.s w
      have hlt : y.cDelivered < y.c.out.length := by
        rcases Nat.lt_or_ge y.cDelivered y.c.out.length with hl | hl
        · exact hl
        · rw [List.getElem?_eq_none hl] at hw; cases hw
      refine ⟨h.kc, h.qc, k', q', ?_, ?_, hlt, ?_⟩
      · intro hf
        simp only at hf ⊢
        obtain ⟨e1, _⟩ := recvPacket_recvEpoch y.s w hf
        rw [e1, endEpoch_take_succ 1 y.c.out y.cDelivered w hw]
        have hnf : y.s.failed = false := by
          cases hfs : y.s.failed with
          | false => rfl
          | true => simp [recvPacket, hfs] at hf
        rw [h.rs hnf]
      · intro hf; simp only; rw [take_of_extends hx _ h.bs]; exact h.rc hf
      · exact Nat.le_trans h.bs (length_of_extends hx)
    · exact h
  | deliverSC =>
    simp only [sysStep]
    split
    · rename_i w hw
      obtain ⟨k', q'⟩ := recvPacket_keys 1 y.c w h.kc h.qc
      have hx := recvPacket_extends y.c w
      have hlt : y.sDelivered < y.s.out.length := by
        rcases Nat.lt_or_ge y.sDelivered y.s.out.length with hl | hl
        · exact hl
        · rw [List.getElem?_eq_none hl] at hw; cases hw
      refine ⟨k', q', h.ks, h.qs, ?_, ?_, ?_, hlt⟩
      · intro hf; simp only; rw [take_of_extends hx _ h.bc]; exact h.rs hf
      · intro hf
        simp only at hf ⊢
        obtain ⟨e1, _⟩ := recvPacket_recvEpoch y.c w hf
        rw [e1, endEpoch_take_succ 1 y.s.out y.sDelivered w hw]
        have hnf : y.c.failed = false := by
          cases hfs : y.c.failed with
          | false => rfl
          | true => simp [recvPacket, hfs] at hf
        rw [h.rc hnf]
      · exact Nat.le_trans h.bc (length_of_extends hx)
    · exact h

theorem sysRun_inv (evs : List SysEv) (y : Sys) (h : SysInv y) (hn : sysNoNewkeys evs) : SysInv (sysRun y evs) := by
  unfold sysRun
  induction evs generalizing y with
  | nil => exact h
  | cons ev rest ih =>
    simp only [List.foldl_cons]
    cases ev with
    | submitC p => exact ih _ (sysStep_inv y _ h hn.1) hn.2
    | submitS p => exact ih _ (sysStep_inv y _ h hn.1) hn.2
    | limitC => exact ih _ (sysStep_inv y _ h trivial) hn
    | limitS => exact ih _ (sysStep_inv y _ h trivial) hn
    | lateC => exact ih _ (sysStep_inv y _ h trivial) hn
    | lateS => exact ih _ (sysStep_inv y _ h trivial) hn
    | deliverCS => exact ih _ (sysStep_inv y _ h trivial) hn
    | deliverSC => exact ih _ (sysStep_inv y _ h trivial) hn

/-- **Both ends switch keys in step, under every interleaving**: in every state reachable by any sequence of
    submissions, limit expiries and packet deliveries in both directions (simultaneous and repeated re-exchanges
    included), the next packet due at an endpoint that has not failed is sealed under exactly the epoch that
    endpoint is receiving with — a packet is never presented to stale or premature keys.  (So the only way the
    pair can fail is a key-exchange message arriving out of handshake order, never the key switch itself.) -/
theorem receiver_epoch_matches_next_packet (evs : List SysEv) (hn : sysNoNewkeys evs) :
    let y := sysRun Sys.init evs
    (∀ w, y.c.out[y.cDelivered]? = some w → y.s.failed = false → w.epoch = y.s.recvEpoch) ∧
    (∀ w, y.s.out[y.sDelivered]? = some w → y.c.failed = false → w.epoch = y.c.recvEpoch) := by
  have h := sysRun_inv evs Sys.init sysInv_init hn
  simp only
  constructor
  · intro w hw hf
    rw [h.rs hf]
    exact epochsOK_get 1 _ _ w h.kc.ok hw
  · intro w hw hf
    rw [h.rc hf]
    exact epochsOK_get 1 _ _ w h.ks.ok hw

/-! ### both ends at once; non-vacuity -/

def data (n : Nat) : Pkt := ⟨94, n⟩

/-- **Simultaneous initiation converges to one exchange** (concrete schedule, both limits expire at once, data
    submitted on both sides before, during and after): one KEXINIT each, one NEWKEYS each, nobody fails, all data
    delivered in order on both sides. -/
theorem simultaneous_example :
    let y := sysRun Sys.init [.submitC (data 1), .limitC, .limitS, .submitC (data 2), .submitS (data 3),
      .deliverCS, .deliverCS, .deliverCS, .deliverCS, .deliverSC, .deliverSC, .submitC (data 4), .deliverSC, .deliverSC,
      .deliverCS, .deliverCS, .deliverSC, .deliverSC, .deliverSC, .deliverSC, .deliverCS, .deliverCS,
      .deliverCS, .deliverCS, .deliverCS, .deliverSC, .deliverSC]
    y.c.failed = false ∧ y.s.failed = false ∧
    y.s.delivered = [data 1, data 2, data 4] ∧ y.c.delivered = [data 3] ∧
    (y.c.out.filter (·.pkt.type = MSG_KEXINIT)).length = 1 ∧ (y.s.out.filter (·.pkt.type = MSG_KEXINIT)).length = 1 ∧
    y.c.sendEpoch = 2 ∧ y.s.sendEpoch = 2 ∧ y.c.recvEpoch = 2 ∧ y.s.recvEpoch = 2 := by
  decide +kernel

/-- the per-endpoint hypotheses are met by a fresh authenticated endpoint -/
theorem fresh_endpoint_good (server : Bool) :
    Good { server := server } [] ∧ Keys 1 { server := server } ∧ QueueClean { server := server } ∧
      OnlyKexBetween ({ server := server } : Endpoint).out := by
  refine ⟨⟨rfl, rfl, fun _ => rfl, ?_⟩, ⟨rfl, rfl⟩, ?_, ?_⟩
  · intro p hp; cases hp
  · intro p hp; cases hp
  · intro w hw; cases hw

/-! ### the handshake itself never fails, under every interleaving -/

open AsyncsshModel.RekeyAbs in
/-- everything the global argument needs about a reachable state of the pair -/
structure FullInv (y : Sys) : Prop where
  si : SysInv y
  lc : Loc y.c
  ls : Loc y.s
  rc : y.c.server = false
  rs : y.s.server = true
  ab : reach.contains (absSys y) = true

/-- what upper layers may submit: application-level packets (anything above the key-exchange range) -/
def sysAppOnly : List SysEv → Prop
  | [] => True
  | .submitC p :: r => MSG_KEX_LAST < p.type ∧ sysAppOnly r
  | .submitS p :: r => MSG_KEX_LAST < p.type ∧ sysAppOnly r
  | _ :: r => sysAppOnly r

theorem app_ne_newkeys (t : Nat) (h : MSG_KEX_LAST < t) : t ≠ MSG_NEWKEYS := by
  simp only [MSG_KEX_LAST] at h
  simp only [MSG_NEWKEYS]; omega

open AsyncsshModel.RekeyAbs in
theorem fullInv_init : FullInv Sys.init :=
  ⟨sysInv_init, ⟨rfl, rfl, rfl, by intro p hp; cases hp⟩, ⟨rfl, rfl, rfl, by intro p hp; cases hp⟩, rfl, rfl,
    init_reach⟩

open AsyncsshModel.RekeyAbs in
theorem fullInv_step (y : Sys) (ev : SysEv) (h : FullInv y)
    (hev : match ev with | .submitC p => MSG_KEX_LAST < p.type | .submitS p => MSG_KEX_LAST < p.type | _ => True) :
    FullInv (sysStep y ev) := by
  have hnf := reach_no_failure _ h.ab
  cases ev with
  | submitC p =>
    have hsi := sysStep_inv y (.submitC p) h.si (app_ne_newkeys _ hev)
    obtain ⟨lo, sv, habs⟩ := sys_submitC y p h.lc hev h.si.bc
    refine ⟨hsi, lo, h.ls, sv.trans h.rc, h.rs, ?_⟩
    simp only [sysStep]
    rcases habs with e | e
    · rw [e]; exact h.ab
    · rw [e]; exact reach_closed _ _ h.ab
  | submitS p =>
    have hsi := sysStep_inv y (.submitS p) h.si (app_ne_newkeys _ hev)
    obtain ⟨lo, sv, habs⟩ := sys_submitS y p h.ls hev h.si.bs
    refine ⟨hsi, h.lc, lo, h.rc, sv.trans h.rs, ?_⟩
    simp only [sysStep]
    rcases habs with e | e
    · rw [e]; exact h.ab
    · rw [e]; exact reach_closed _ _ h.ab
  | limitC =>
    have hsi := sysStep_inv y .limitC h.si trivial
    exact ⟨hsi, ⟨h.lc.auth, h.lc.kc, h.lc.excl, h.lc.q⟩, h.ls, h.rc, h.rs, h.ab⟩
  | limitS =>
    have hsi := sysStep_inv y .limitS h.si trivial
    exact ⟨hsi, h.lc, ⟨h.ls.auth, h.ls.kc, h.ls.excl, h.ls.q⟩, h.rc, h.rs, h.ab⟩
  | lateC =>
    have hsi := sysStep_inv y .lateC h.si trivial
    exact ⟨hsi, ⟨h.lc.auth, h.lc.kc, h.lc.excl, h.lc.q⟩, h.ls, h.rc, h.rs, h.ab⟩
  | lateS =>
    have hsi := sysStep_inv y .lateS h.si trivial
    exact ⟨hsi, h.lc, ⟨h.ls.auth, h.ls.kc, h.ls.excl, h.ls.q⟩, h.rc, h.rs, h.ab⟩
  | deliverCS =>
    have hsi := sysStep_inv y .deliverCS h.si trivial
    cases hw : y.c.out[y.cDelivered]? with
    | none =>
      have : sysStep y .deliverCS = y := by simp [sysStep, hw]
      rw [this]; exact h
    | some w =>
      have hfs : y.s.failed = false := hnf.2
      have hep : w.epoch = y.s.recvEpoch := by
        rw [h.si.rs hfs]; exact epochsOK_get 1 _ _ w h.si.kc.ok hw
      obtain ⟨lo, sv, habs⟩ := sys_deliverCS y w hw h.ls h.rs hfs hep h.si.bs
      have hst : sysStep y .deliverCS = { y with s := recvPacket y.s w, cDelivered := y.cDelivered + 1 } := by
        simp [sysStep, hw]
      rw [hst] at hsi ⊢
      refine ⟨hsi, h.lc, lo, h.rc, sv.trans h.rs, ?_⟩
      rcases habs with e | ⟨b, e⟩
      · rw [e]; exact h.ab
      · rw [e]; exact reach_closed _ _ h.ab
  | deliverSC =>
    have hsi := sysStep_inv y .deliverSC h.si trivial
    cases hw : y.s.out[y.sDelivered]? with
    | none =>
      have : sysStep y .deliverSC = y := by simp [sysStep, hw]
      rw [this]; exact h
    | some w =>
      have hfc : y.c.failed = false := hnf.1
      have hep : w.epoch = y.c.recvEpoch := by
        rw [h.si.rc hfc]; exact epochsOK_get 1 _ _ w h.si.ks.ok hw
      obtain ⟨lo, sv, habs⟩ := sys_deliverSC y w hw h.lc h.rc hfc hep h.si.bc
      have hst : sysStep y .deliverSC = { y with c := recvPacket y.c w, sDelivered := y.sDelivered + 1 } := by
        simp [sysStep, hw]
      rw [hst] at hsi ⊢
      refine ⟨hsi, lo, h.ls, sv.trans h.rc, h.rs, ?_⟩
      rcases habs with e | ⟨b, e⟩
      · rw [e]; exact h.ab
      · rw [e]; exact reach_closed _ _ h.ab

theorem fullInv_run (evs : List SysEv) (y : Sys) (h : FullInv y) (hn : sysAppOnly evs) : FullInv (sysRun y evs) := by
  unfold sysRun
  induction evs generalizing y with
  | nil => exact h
  | cons ev rest ih =>
    simp only [List.foldl_cons]
    cases ev with
    | submitC p => exact ih _ (fullInv_step y _ h hn.1) hn.2
    | submitS p => exact ih _ (fullInv_step y _ h hn.1) hn.2
    | limitC => exact ih _ (fullInv_step y _ h trivial) hn
    | limitS => exact ih _ (fullInv_step y _ h trivial) hn
    | lateC => exact ih _ (fullInv_step y _ h trivial) hn
    | lateS => exact ih _ (fullInv_step y _ h trivial) hn
    | deliverCS => exact ih _ (fullInv_step y _ h trivial) hn
    | deliverSC => exact ih _ (fullInv_step y _ h trivial) hn

open AsyncsshModel.RekeyAbs in
/-- **Re-keying never fails, whoever starts it and however the two directions interleave.**  From a freshly
    keyed, authenticated pair, under every sequence of application sends on both sides, limit expiries on both
    sides (so: re-exchanges started by the client, by the server, by both at once, repeatedly, while the previous
    one is still finishing) and packet deliveries in either direction, neither endpoint ever fails: no packet
    meets the wrong keys, no KEXINIT arrives while an exchange is active, no KEX_INIT / KEX_REPLY arrives outside
    an exchange or at the wrong role, no NEWKEYS arrives before receive keys are staged. -/
theorem rekey_never_fails (evs : List SysEv) (hn : sysAppOnly evs) :
    (sysRun Sys.init evs).c.failed = false ∧ (sysRun Sys.init evs).s.failed = false := by
  have h := fullInv_run evs Sys.init fullInv_init hn
  have := reach_no_failure _ h.ab
  exact this

open AsyncsshModel.RekeyAbs in
/-- **Re-keying cannot stall**: whenever every key-exchange message written so far has been delivered, both ends
    are back in the idle phase (`kexComplete`), no key switch is pending, and therefore (`all_sent_when_idle`)
    nothing is held back in either deferred queue. -/
theorem rekey_completes_when_drained (evs : List SysEv) (hn : sysAppOnly evs)
    (hc : cproj ((sysRun Sys.init evs).c.out.drop (sysRun Sys.init evs).cDelivered) = [])
    (hs : cproj ((sysRun Sys.init evs).s.out.drop (sysRun Sys.init evs).sDelivered) = []) :
    let y := sysRun Sys.init evs
    y.c.kexComplete = true ∧ y.s.kexComplete = true ∧ y.c.nextRecvReady = false ∧ y.s.nextRecvReady = false := by
  have h := fullInv_run evs Sys.init fullInv_init hn
  obtain ⟨p1, p2, n1, n2⟩ := reach_quiescent _ h.ab hc hs
  simp only
  have idle_kc : ∀ e : Endpoint, Loc e → (absE e).ph = .idle → e.kexComplete = true := by
    intro e hl hp
    rw [hl.kc]
    cases h1 : e.kexActive <;> cases h2 : e.kexinitSent <;> simp [absE, h1, h2] at hp ⊢
  exact ⟨idle_kc _ h.lc p1, idle_kc _ h.ls p2, n1, n2⟩

open AsyncsshModel.RekeyAbs in
/-- at most three key-exchange messages are ever in flight in one direction (the handshake is self-clocking) -/
theorem rekey_inflight_bounded (evs : List SysEv) (hn : sysAppOnly evs) :
    (cproj ((sysRun Sys.init evs).c.out.drop (sysRun Sys.init evs).cDelivered)).length ≤ 3 ∧
    (cproj ((sysRun Sys.init evs).s.out.drop (sysRun Sys.init evs).sDelivered)).length ≤ 3 := by
  have h := fullInv_run evs Sys.init fullInv_init hn
  have h1 := reach_inflight_all
  rw [List.all_eq_true] at h1
  have h2 := h1 _ (by simpa using h.ab)
  simp only [absSys, Bool.and_eq_true] at h2
  exact ⟨of_decide_eq_true h2.1, of_decide_eq_true h2.2⟩

/-- the hypothesis of `rekey_never_fails` is met by the simultaneous-start schedule of `simultaneous_example`
    (and by any schedule whose submissions are channel data) -/
theorem simultaneous_schedule_admissible :
    sysAppOnly [.submitC (data 1), .limitC, .limitS, .submitC (data 2), .submitS (data 3),
      .deliverCS, .deliverCS, .deliverCS, .deliverCS, .deliverSC, .deliverSC, .submitC (data 4), .deliverSC] := by
  simp [sysAppOnly, data, MSG_KEX_LAST]

/-! ### the pair delivers exactly what was submitted, in order, across any number of re-exchanges -/

/-- the message types that can appear on the wire of an endpoint whose upper layers submit application packets:
    those, plus IGNORE and the four key-exchange messages -/
def okType (t : Nat) : Bool :=
  deferrable t || t == MSG_IGNORE || t == MSG_KEXINIT || t == MSG_NEWKEYS || t == MSG_KEX_INIT || t == MSG_KEX_REPLY

structure OutOK (e : Endpoint) : Prop where
  wire : ∀ w ∈ e.out, okType w.pkt.type = true
  queue : ∀ p ∈ e.deferred, okType p.type = true

theorem emit_ook (e : Endpoint) (p : Pkt) (h : OutOK e) (hp : okType p.type = true) : OutOK (emit e p) := by
  refine ⟨?_, h.queue⟩
  intro w hw
  simp only [emit, List.mem_append, List.mem_singleton] at hw
  rcases hw with hw | rfl
  · exact h.wire w hw
  · exact hp

theorem sendKexinit_ook (e : Endpoint) (h : OutOK e) : OutOK (sendKexinit e) := by
  unfold sendKexinit
  exact emit_ook _ _ ⟨h.wire, h.queue⟩ (by decide)

theorem sendIgnore_ook (e : Endpoint) (h : OutOK e) : OutOK (sendIgnore e) := by
  unfold sendIgnore
  split
  · simp only
    split
    · have hk := sendKexinit_ook { e with lateArmed := false } ⟨h.wire, h.queue⟩
      exact emit_ook _ _ ⟨hk.wire, hk.queue⟩ (by decide)
    · exact emit_ook _ _ ⟨h.wire, h.queue⟩ (by decide)
  · exact emit_ook _ _ h (by decide)

theorem sendPacket_ook (e : Endpoint) (p : Pkt) (h : OutOK e) (hp : okType p.type = true) : OutOK (sendPacket e p) := by
  unfold sendPacket
  have h1 : OutOK
      (if e.authComplete && e.kexComplete && e.rekeyDue then { sendKexinit e with kexinitSent := true } else e) := by
    split
    · exact ⟨(sendKexinit_ook e h).wire, (sendKexinit_ook e h).queue⟩
    · exact h
  generalize (if e.authComplete && e.kexComplete && e.rekeyDue then { sendKexinit e with kexinitSent := true } else e) = e1 at h1 ⊢
  simp only
  split
  · refine ⟨h1.wire, ?_⟩
    intro q hq
    simp only [List.mem_append, List.mem_singleton] at hq
    rcases hq with hq | rfl
    · exact h1.queue q hq
    · exact hp
  · split
    · have h2 := sendIgnore_ook e1 h1
      split
      · exact emit_ook _ _ h2 hp
      · refine ⟨h2.wire, ?_⟩
        intro q hq
        simp only [List.mem_append, List.mem_singleton] at hq
        rcases hq with hq | rfl
        · exact h2.queue q hq
        · exact hp
    · exact emit_ook _ _ h1 hp

theorem foldl_sendPacket_ook (l : List Pkt) (e : Endpoint) (h : OutOK e) (hl : ∀ p ∈ l, okType p.type = true) :
    OutOK (l.foldl sendPacket e) := by
  induction l generalizing e with
  | nil => exact h
  | cons p ps ih => exact ih _ (sendPacket_ook e p h (hl p (by simp))) (fun q hq => hl q (by simp [hq]))

theorem sendNewkeys_ook (e : Endpoint) (h : OutOK e) : OutOK (sendNewkeys e) := by
  unfold sendNewkeys flushDeferred
  have h1 := sendPacket_ook e ⟨MSG_NEWKEYS, 0⟩ h (by decide)
  exact foldl_sendPacket_ook _ _ ⟨h1.wire, by intro p hp; cases hp⟩ h1.queue

theorem recvPacket_ook (e : Endpoint) (w : Wire) (h : OutOK e) : OutOK (recvPacket e w) := by
  have hf : ∀ e' : Endpoint, e'.out = e.out → e'.deferred = e.deferred → OutOK e' := by
    intro e' h1 h2; exact ⟨by rw [h1]; exact h.wire, by rw [h2]; exact h.queue⟩
  unfold recvPacket
  split
  · exact h
  · split
    · exact hf _ rfl rfl
    · simp only
      split
      · split
        · exact hf _ rfl rfl
        · split
          · split
            · exact hf _ rfl rfl
            · exact sendPacket_ook _ _ (hf _ rfl rfl) (by decide)
          · split
            · exact ⟨(sendKexinit_ook e h).wire, (sendKexinit_ook e h).queue⟩
            · exact sendPacket_ook _ _ ⟨(sendKexinit_ook e h).wire, (sendKexinit_ook e h).queue⟩ (by decide)
      · split
        · split
          · exact sendNewkeys_ook _ (sendPacket_ook e _ h (by decide))
          · exact hf _ rfl rfl
        · split
          · split
            · exact sendNewkeys_ook e h
            · exact hf _ rfl rfl
          · split
            · split <;> exact hf _ rfl rfl
            · split
              · exact h
              · exact hf _ rfl rfl

/-- sending never touches what was delivered -/
theorem sendIgnore_delivered (e : Endpoint) : (sendIgnore e).delivered = e.delivered := by
  unfold sendIgnore
  split
  · simp only
    split <;> rfl
  · rfl

theorem sendPacket_delivered (e : Endpoint) (p : Pkt) : (sendPacket e p).delivered = e.delivered := by
  unfold sendPacket
  simp only
  split <;> split <;> (try split) <;> (try split) <;> simp [sendKexinit, emit, sendIgnore_delivered]

theorem foldl_sendPacket_delivered (l : List Pkt) (e : Endpoint) : (l.foldl sendPacket e).delivered = e.delivered := by
  induction l generalizing e with
  | nil => rfl
  | cons p ps ih => simp only [List.foldl_cons]; rw [ih, sendPacket_delivered]

theorem sendNewkeys_delivered (e : Endpoint) : (sendNewkeys e).delivered = e.delivered := by
  unfold sendNewkeys flushDeferred
  rw [foldl_sendPacket_delivered]
  exact sendPacket_delivered e _

open AsyncsshModel.RekeyAbs in
/-- a delivery hands the packet to upper layers exactly when it is neither key exchange nor IGNORE -/
theorem recvPacket_delivered (e : Endpoint) (w : Wire) (hf : e.failed = false) (hep : w.epoch = e.recvEpoch) :
    (recvPacket e w).delivered =
      if ctlOf w.pkt.type = none ∧ w.pkt.type ≠ MSG_IGNORE then e.delivered ++ [w.pkt] else e.delivered := by
  rw [recvPacket_ok e w hf hep]
  unfold recvBody
  simp only
  by_cases h20 : w.pkt.type = MSG_KEXINIT
  · have hc : ctlOf w.pkt.type = some .kexinit := by rw [h20]; decide
    have hR : (if ctlOf w.pkt.type = none ∧ w.pkt.type ≠ MSG_IGNORE then e.delivered ++ [w.pkt] else e.delivered) =
        e.delivered := if_neg (by rw [hc]; simp)
    rw [hR]
    simp only [h20, if_true]
    split
    · simp
    · split <;> split <;> simp [sendPacket_delivered, sendKexinit, emit]
  · by_cases h30 : w.pkt.type = MSG_KEX_INIT
    · have hc : ctlOf w.pkt.type = some .kinit := by rw [h30]; decide
      have hR : (if ctlOf w.pkt.type = none ∧ w.pkt.type ≠ MSG_IGNORE then e.delivered ++ [w.pkt] else e.delivered) =
          e.delivered := if_neg (by rw [hc]; simp)
      rw [hR]
      have : ¬ (MSG_KEX_INIT = MSG_KEXINIT) := by decide
      simp only [h30, this, if_true, if_false]
      split
      · rw [sendNewkeys_delivered, sendPacket_delivered]
      · simp
    · by_cases h31 : w.pkt.type = MSG_KEX_REPLY
      · have hc : ctlOf w.pkt.type = some .kreply := by rw [h31]; decide
        have hR : (if ctlOf w.pkt.type = none ∧ w.pkt.type ≠ MSG_IGNORE then e.delivered ++ [w.pkt] else e.delivered) =
            e.delivered := if_neg (by rw [hc]; simp)
        rw [hR]
        have a1 : ¬ (MSG_KEX_REPLY = MSG_KEXINIT) := by decide
        have a2 : ¬ (MSG_KEX_REPLY = MSG_KEX_INIT) := by decide
        simp only [h31, a1, a2, if_true, if_false]
        split
        · rw [sendNewkeys_delivered]
        · simp
      · by_cases h21 : w.pkt.type = MSG_NEWKEYS
        · have hc : ctlOf w.pkt.type = some .newkeys := by rw [h21]; decide
          have hR : (if ctlOf w.pkt.type = none ∧ w.pkt.type ≠ MSG_IGNORE then e.delivered ++ [w.pkt] else e.delivered) =
              e.delivered := if_neg (by rw [hc]; simp)
          rw [hR]
          have a1 : ¬ (MSG_NEWKEYS = MSG_KEXINIT) := by decide
          have a2 : ¬ (MSG_NEWKEYS = MSG_KEX_INIT) := by decide
          have a3 : ¬ (MSG_NEWKEYS = MSG_KEX_REPLY) := by decide
          simp only [h21, a1, a2, a3, if_true, if_false]
          split <;> simp
        · have hc : ctlOf w.pkt.type = none := by simp [ctlOf, h20, h30, h31, h21]
          simp only [h20, h30, h31, h21, if_false, hc, true_and]
          by_cases hi : w.pkt.type = MSG_IGNORE
          · simp [hi]
          · simp [hi]

open AsyncsshModel.RekeyAbs in
/-- on such a wire, "delivered to upper layers" and "application-level" are the same thing -/
theorem ok_dlv (t : Nat) (h : okType t = true) :
    (ctlOf t = none ∧ t ≠ MSG_IGNORE) ↔ deferrable t = true := by
  have hcases : t = 20 ∨ t = 30 ∨ t = 31 ∨ t = 21 ∨ t = 2 ∨ (t = 4 ∨ t = 5 ∨ t = 6 ∨ 49 < t) := by
    simp [okType, deferrable, MSG_IGNORE, MSG_KEXINIT, MSG_NEWKEYS, MSG_KEX_INIT, MSG_KEX_REPLY, MSG_DEBUG,
      MSG_SERVICE_REQUEST, MSG_SERVICE_ACCEPT, MSG_KEX_LAST] at h
    omega
  rcases hcases with h | h | h | h | h | h
  · subst h; decide
  · subst h; decide
  · subst h; decide
  · subst h; decide
  · subst h; decide
  · have hd : deferrable t = true := by
      simp [deferrable, MSG_DEBUG, MSG_SERVICE_REQUEST, MSG_SERVICE_ACCEPT, MSG_KEX_LAST]
      omega
    have a : t ≠ MSG_KEXINIT := by simp only [MSG_KEXINIT]; omega
    have b : t ≠ MSG_KEX_INIT := by simp only [MSG_KEX_INIT]; omega
    have c : t ≠ MSG_KEX_REPLY := by simp only [MSG_KEX_REPLY]; omega
    have d : t ≠ MSG_NEWKEYS := by simp only [MSG_NEWKEYS]; omega
    have i : t ≠ MSG_IGNORE := by simp only [MSG_IGNORE]; omega
    simp [ctlOf, a, b, c, d, i, hd]

def submittedC : List SysEv → List Pkt
  | [] => []
  | .submitC p :: r => p :: submittedC r
  | _ :: r => submittedC r

def submittedS : List SysEv → List Pkt
  | [] => []
  | .submitS p :: r => p :: submittedS r
  | _ :: r => submittedS r

structure DelInv (y : Sys) (Sc Ss : List Pkt) : Prop where
  gc : Good y.c Sc
  gs : Good y.s Ss
  oc : OutOK y.c
  os : OutOK y.s
  ds : y.s.delivered = proj (y.c.out.take y.cDelivered)
  dc : y.c.delivered = proj (y.s.out.take y.sDelivered)

theorem app_deferrable (t : Nat) (h : MSG_KEX_LAST < t) : deferrable t = true := by
  simp [deferrable, h]

theorem app_ok (t : Nat) (h : MSG_KEX_LAST < t) : okType t = true := by
  simp [okType, app_deferrable t h]

theorem take_succ_of_getElem? (l : List Wire) (n : Nat) (w : Wire) (h : l[n]? = some w) :
    l.take (n + 1) = l.take n ++ [w] := by
  rw [List.take_add_one, h]; rfl

theorem proj_single (w : Wire) : proj [w] = if deferrable w.pkt.type then [w.pkt] else [] := by
  simp only [proj, List.map_cons, List.map_nil, List.filter_cons, List.filter_nil]

theorem delInv_init : DelInv Sys.init [] [] :=
  ⟨(fresh_endpoint_good false).1, (fresh_endpoint_good true).1,
   ⟨(by intro w hw; cases hw), (by intro p hp; cases hp)⟩, ⟨(by intro w hw; cases hw), (by intro p hp; cases hp)⟩,
   rfl, rfl⟩

open AsyncsshModel.RekeyAbs in
theorem delInv_step (y : Sys) (ev : SysEv) (Sc Ss : List Pkt) (hF : FullInv y) (h : DelInv y Sc Ss)
    (hev : match ev with | .submitC p => MSG_KEX_LAST < p.type | .submitS p => MSG_KEX_LAST < p.type | _ => True) :
    DelInv (sysStep y ev) (Sc ++ submittedC [ev]) (Ss ++ submittedS [ev]) := by
  have hnf := reach_no_failure _ hF.ab
  cases ev with
  | submitC p =>
    simp only [sysStep, submittedC, submittedS, List.append_nil]
    have hg := sendPacket_good y.c p Sc h.gc
    rw [app_deferrable _ hev] at hg
    simp only [if_true] at hg
    refine ⟨hg, h.gs, sendPacket_ook y.c p h.oc (app_ok _ hev), h.os, ?_, ?_⟩
    · simp only; rw [take_of_extends (sendPacket_extends y.c p) _ hF.si.bc]; exact h.ds
    · simp only; rw [sendPacket_delivered]; exact h.dc
  | submitS p =>
    simp only [sysStep, submittedC, submittedS, List.append_nil]
    have hg := sendPacket_good y.s p Ss h.gs
    rw [app_deferrable _ hev] at hg
    simp only [if_true] at hg
    refine ⟨h.gc, hg, h.oc, sendPacket_ook y.s p h.os (app_ok _ hev), ?_, ?_⟩
    · simp only; rw [sendPacket_delivered]; exact h.ds
    · simp only; rw [take_of_extends (sendPacket_extends y.s p) _ hF.si.bs]; exact h.dc
  | limitC =>
    simp only [sysStep, submittedC, submittedS, List.append_nil]
    exact ⟨⟨h.gc.auth, h.gc.fifo, h.gc.idle, h.gc.defOK⟩, h.gs, ⟨h.oc.wire, h.oc.queue⟩, h.os, h.ds, h.dc⟩
  | limitS =>
    simp only [sysStep, submittedC, submittedS, List.append_nil]
    exact ⟨h.gc, ⟨h.gs.auth, h.gs.fifo, h.gs.idle, h.gs.defOK⟩, h.oc, ⟨h.os.wire, h.os.queue⟩, h.ds, h.dc⟩
  | lateC =>
    simp only [sysStep, submittedC, submittedS, List.append_nil]
    exact ⟨⟨h.gc.auth, h.gc.fifo, h.gc.idle, h.gc.defOK⟩, h.gs, ⟨h.oc.wire, h.oc.queue⟩, h.os, h.ds, h.dc⟩
  | lateS =>
    simp only [sysStep, submittedC, submittedS, List.append_nil]
    exact ⟨h.gc, ⟨h.gs.auth, h.gs.fifo, h.gs.idle, h.gs.defOK⟩, h.oc, ⟨h.os.wire, h.os.queue⟩, h.ds, h.dc⟩
  | deliverCS =>
    simp only [submittedC, submittedS, List.append_nil]
    cases hw : y.c.out[y.cDelivered]? with
    | none =>
      have : sysStep y .deliverCS = y := by simp [sysStep, hw]
      rw [this]; exact h
    | some w =>
      have hst : sysStep y .deliverCS = { y with s := recvPacket y.s w, cDelivered := y.cDelivered + 1 } := by
        simp [sysStep, hw]
      rw [hst]
      have hfs : y.s.failed = false := hnf.2
      have hep : w.epoch = y.s.recvEpoch := by
        rw [hF.si.rs hfs]; exact epochsOK_get 1 _ _ w hF.si.kc.ok hw
      have hwok : okType w.pkt.type = true := h.oc.wire w (List.mem_of_getElem? hw)
      refine ⟨h.gc, recvPacket_good y.s w Ss h.gs, h.oc, recvPacket_ook y.s w h.os, ?_, ?_⟩
      · simp only
        rw [recvPacket_delivered y.s w hfs hep, take_succ_of_getElem? _ _ _ hw, proj_append, proj_single, h.ds]
        by_cases hd : deferrable w.pkt.type = true
        · rw [if_pos ((ok_dlv _ hwok).2 hd), if_pos hd]
        · rw [if_neg (fun hc => hd ((ok_dlv _ hwok).1 hc)), if_neg hd, List.append_nil]
      · simp only; rw [take_of_extends (recvPacket_extends y.s w) _ hF.si.bs]; exact h.dc
  | deliverSC =>
    simp only [submittedC, submittedS, List.append_nil]
    cases hw : y.s.out[y.sDelivered]? with
    | none =>
      have : sysStep y .deliverSC = y := by simp [sysStep, hw]
      rw [this]; exact h
    | some w =>
      have hst : sysStep y .deliverSC = { y with c := recvPacket y.c w, sDelivered := y.sDelivered + 1 } := by
        simp [sysStep, hw]
      rw [hst]
      have hfc : y.c.failed = false := hnf.1
      have hep : w.epoch = y.c.recvEpoch := by
        rw [hF.si.rc hfc]; exact epochsOK_get 1 _ _ w hF.si.ks.ok hw
      have hwok : okType w.pkt.type = true := h.os.wire w (List.mem_of_getElem? hw)
      refine ⟨recvPacket_good y.c w Sc h.gc, h.gs, recvPacket_ook y.c w h.oc, h.os, ?_, ?_⟩
      · simp only; rw [take_of_extends (recvPacket_extends y.c w) _ hF.si.bc]; exact h.ds
      · simp only
        rw [recvPacket_delivered y.c w hfc hep, take_succ_of_getElem? _ _ _ hw, proj_append, proj_single, h.dc]
        by_cases hd : deferrable w.pkt.type = true
        · rw [if_pos ((ok_dlv _ hwok).2 hd), if_pos hd]
        · rw [if_neg (fun hc => hd ((ok_dlv _ hwok).1 hc)), if_neg hd, List.append_nil]

theorem submittedC_cons (ev : SysEv) (r : List SysEv) : submittedC (ev :: r) = submittedC [ev] ++ submittedC r := by
  cases ev <;> simp [submittedC]

theorem submittedS_cons (ev : SysEv) (r : List SysEv) : submittedS (ev :: r) = submittedS [ev] ++ submittedS r := by
  cases ev <;> simp [submittedS]

theorem delInv_run (evs : List SysEv) (y : Sys) (Sc Ss : List Pkt) (hF : FullInv y) (h : DelInv y Sc Ss)
    (hn : sysAppOnly evs) : DelInv (sysRun y evs) (Sc ++ submittedC evs) (Ss ++ submittedS evs) := by
  unfold sysRun
  induction evs generalizing y Sc Ss with
  | nil => simpa [submittedC, submittedS] using h
  | cons ev rest ih =>
    simp only [List.foldl_cons]
    rw [submittedC_cons, submittedS_cons, ← List.append_assoc, ← List.append_assoc]
    cases ev with
    | submitC p => exact ih _ _ _ (fullInv_step y _ hF hn.1) (delInv_step y _ Sc Ss hF h hn.1) hn.2
    | submitS p => exact ih _ _ _ (fullInv_step y _ hF hn.1) (delInv_step y _ Sc Ss hF h hn.1) hn.2
    | limitC => exact ih _ _ _ (fullInv_step y _ hF trivial) (delInv_step y _ Sc Ss hF h trivial) hn
    | limitS => exact ih _ _ _ (fullInv_step y _ hF trivial) (delInv_step y _ Sc Ss hF h trivial) hn
    | lateC => exact ih _ _ _ (fullInv_step y _ hF trivial) (delInv_step y _ Sc Ss hF h trivial) hn
    | lateS => exact ih _ _ _ (fullInv_step y _ hF trivial) (delInv_step y _ Sc Ss hF h trivial) hn
    | deliverCS => exact ih _ _ _ (fullInv_step y _ hF trivial) (delInv_step y _ Sc Ss hF h trivial) hn
    | deliverSC => exact ih _ _ _ (fullInv_step y _ hF trivial) (delInv_step y _ Sc Ss hF h trivial) hn

theorem proj_take_prefix (l : List Wire) (n : Nat) : ∃ r, proj l = proj (l.take n) ++ r := by
  refine ⟨proj (l.drop n), ?_⟩
  rw [← proj_append, List.take_append_drop]

/-- **Re-keying is invisible to the applications on both sides, under every interleaving.**  Across any number
    of re-exchanges started by either side or both at once, with sends, limit expiries and deliveries interleaved
    in any order: what each side's upper layers have received is, at every moment, an exact prefix of what the
    other side's upper layers submitted — same packets, same order, nothing lost, duplicated or invented — and
    the rest is either still on the wire or held in the sender's deferred queue. -/
theorem pair_delivers_prefix_in_order (evs : List SysEv) (hn : sysAppOnly evs) :
    let y := sysRun Sys.init evs
    (∃ r, submittedC evs = y.s.delivered ++ r) ∧ (∃ r, submittedS evs = y.c.delivered ++ r) := by
  have h := delInv_run evs Sys.init [] [] fullInv_init delInv_init hn
  simp only [List.nil_append] at h
  simp only
  constructor
  · obtain ⟨r, hr⟩ := proj_take_prefix (sysRun Sys.init evs).c.out (sysRun Sys.init evs).cDelivered
    refine ⟨r ++ (sysRun Sys.init evs).c.deferred, ?_⟩
    rw [← h.gc.fifo, hr, h.ds, List.append_assoc]
  · obtain ⟨r, hr⟩ := proj_take_prefix (sysRun Sys.init evs).s.out (sysRun Sys.init evs).sDelivered
    refine ⟨r ++ (sysRun Sys.init evs).s.deferred, ?_⟩
    rw [← h.gs.fifo, hr, h.dc, List.append_assoc]

/-- … and once a side's exchange is complete and everything it wrote has arrived, the peer's upper layers have
    received exactly everything submitted. -/
theorem pair_delivers_everything_when_drained (evs : List SysEv) (hn : sysAppOnly evs)
    (hk : (sysRun Sys.init evs).c.kexComplete = true)
    (hd : (sysRun Sys.init evs).cDelivered = (sysRun Sys.init evs).c.out.length) :
    (sysRun Sys.init evs).s.delivered = submittedC evs := by
  have h := delInv_run evs Sys.init [] [] fullInv_init delInv_init hn
  simp only [List.nil_append] at h
  rw [h.ds, hd, List.take_length, ← h.gc.fifo, h.gc.idle hk, List.append_nil]

end AsyncsshModel.C11
