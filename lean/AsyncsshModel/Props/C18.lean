import AsyncsshModel.Lemmas.ConfigInclude
import AsyncsshModel.Gen.C18
/-
  C18 — Config files resolve like OpenSSH, and never expand unsafe input.
  Property theorems only (helper lemmas live in Lemmas/Config*.lean).  The option tables, the
  `_conditionals` / `_no_split` / `_percent_expand` sets and the regular-expression sources come from
  Gen/C18.lean, which is regenerated from the checked tree on every run.

  Where the faithful model of the code does NOT satisfy the property, the full statement is refuted by a
  concrete witness (`…_witness`) and the provable part is kept with its hypothesis (`…_partial`).
-/
namespace AsyncsshModel.C18
open AsyncsshModel AsyncsshModel.Config AsyncsshModel.Path
open AsyncsshModel.Gen.C18

/-! ## the tie to the source: pinned regex sources and table sanity -/

/-- The model hand-transcribes `_token_pattern` and `_env_pattern`; this pins the source text they were
    transcribed from (a changed regex breaks this obligation). -/
theorem regex_sources_pinned :
    tokenPatternSrc = "%(.)" ∧ envPatternSrc = "\\${(.*?)}" := by
  decide +kernel

/-- every option name has one handler kind -/
def Consistent (cfg : Table) : Prop :=
  ∀ p ∈ cfg.handlers, ∀ q ∈ cfg.handlers, p.2.1 = q.2.1 → p.2.2 = q.2.2

/-- in both generated tables an option name is bound to exactly one setter kind -/
theorem tables_consistent : Consistent clientTable ∧ Consistent serverTable := by
  unfold Consistent; constructor <;> decide +kernel

theorem handler_mem {cfg : Table} {lopt opt : Bytes} {k : Kind} (h : cfg.handler lopt = some (opt, k)) :
    (lopt, (opt, k)) ∈ cfg.handlers := by
  unfold Table.handler at h
  cases hf : cfg.handlers.find? (fun p => p.1 = lopt) with
  | none => simp [hf] at h
  | some p =>
    simp [hf] at h
    have hm := List.mem_of_find?_eq_some hf
    have hp := List.find?_some hf
    simp at hp
    obtain ⟨a, b⟩ := p
    simp at hp h
    rw [← hp, ← h]; exact hm

/-- which options accumulate in OpenSSH (ssh_config(5): multiple `IdentityFile`, `CertificateFile`,
    `SendEnv` directives add up; for every other option the first obtained value is used) -/
def opensshClientKinds : List (String × Bool) :=
  [("identityfile", true), ("certificatefile", true), ("sendenv", true),
   ("user", false), ("port", false), ("hostname", false), ("compression", false), ("bindaddress", false),
   ("proxycommand", false), ("proxyjump", false), ("userknownhostsfile", false), ("globalknownhostsfile", false),
   ("setenv", false), ("ciphers", false), ("macs", false), ("kexalgorithms", false), ("hostkeyalias", false),
   ("addressfamily", false), ("forwardagent", false), ("identityagent", false), ("identitiesonly", false),
   ("connecttimeout", false), ("serveraliveinterval", false), ("serveralivecountmax", false),
   ("rekeylimit", false), ("requesttty", false), ("remotecommand", false), ("canonicaldomains", false),
   ("canonicalizehostname", false), ("passwordauthentication", false), ("pubkeyauthentication", false),
   ("tcpkeepalive", false), ("preferredauthentications", false)]

/-- **the generated client table gives every listed option the accumulation behaviour OpenSSH documents**
    (append setter exactly for IdentityFile / CertificateFile / SendEnv, first-value setter otherwise) -/
theorem client_kinds_match_openssh :
    ∀ p ∈ opensshClientKinds,
      (clientTable.handler (strBytes p.1)).map (fun x => (x.2.isAppend, x.2.isScalar)) = some (p.2, !p.2) := by
  decide +kernel

/-! ## first value wins, lists accumulate -/

/-- **first_value_wins.**  For every table whose option names have one kind (both generated tables, see
    `tables_consistent`), every file map, target, include depth, inherited options and list of top-level
    files: after a successful `load`, a first-value option outside `_percent_expand` holds exactly the first
    value logged for it — the log being the list of values the setters were asked to store, in reading order
    through included files, on lines whose enclosing `Host`/`Match` block was active (see
    `line_ignored_in_inactive_block`, `scalar_line_effect`), preceded by the inherited options and the
    `user` / `port` arguments. -/
theorem first_value_wins (cfg : Table) (hc : Consistent cfg) (env : Env) (fuel : Nat) (init : Opts)
    (paths : List Bytes) (st : St) (h : load cfg env fuel init paths = .ok st)
    (lopt o : Bytes) (k : Kind) (hh : cfg.handler lopt = some (o, k)) (hk : k.isScalar = true)
    (hpe : o ∉ cfg.percentExpand) :
    optGet st.opts o = firstLogged st.log o := by
  have h0 : LogFromTable cfg init st :=
    load_inv (logFromTable_ok cfg env init) fuel init paths st
      (by intro e he; left; simpa [initSt_log] using he) h
  have h1 : FirstWins cfg st :=
    load_inv (firstWins_ok cfg env) fuel init paths st
      (by
        intro o' _ _
        rw [initSt_log, firstLogged_initLog]; rfl) h
  apply h1 o hpe
  intro e he heo
  rcases h0 e he with hi | ⟨lopt', k', hh', ha⟩
  · simp only [initLog, List.mem_map] at hi
    obtain ⟨p, _, hp⟩ := hi
    rw [← hp]
  · rw [heo] at hh'
    have := hc _ (handler_mem hh') _ (handler_mem hh) rfl
    simp at this
    rw [ha, this]
    exact Kind.scalar_not_append k hk

/-- first_value_wins for the generated client table: e.g. `Port`, `User`, `BindAddress` -/
theorem first_value_wins_client (env : Env) (fuel : Nat) (init : Opts) (paths : List Bytes) (st : St)
    (h : load clientTable env fuel init paths = .ok st)
    (lopt o : Bytes) (k : Kind) (hh : clientTable.handler lopt = some (o, k)) (hk : k.isScalar = true)
    (hpe : o ∉ clientTable.percentExpand) : optGet st.opts o = firstLogged st.log o :=
  first_value_wins clientTable tables_consistent.1 env fuel init paths st h lopt o k hh hk hpe

/-- first_value_wins for the generated server table -/
theorem first_value_wins_server (env : Env) (fuel : Nat) (init : Opts) (paths : List Bytes) (st : St)
    (h : load serverTable env fuel init paths = .ok st)
    (lopt o : Bytes) (k : Kind) (hh : serverTable.handler lopt = some (o, k)) (hk : k.isScalar = true)
    (hpe : o ∉ serverTable.percentExpand) : optGet st.opts o = firstLogged st.log o :=
  first_value_wins serverTable tables_consistent.2 env fuel init paths st h lopt o k hh hk hpe

/-- **list_options_accumulate.**  After a successful `load`, an append option outside `_percent_expand`
    that was not inherited holds the concatenation, in reading order, of everything logged for it
    (`accumulated`: unset when nothing was logged). -/
theorem list_options_accumulate (cfg : Table) (hc : Consistent cfg) (env : Env) (fuel : Nat) (init : Opts)
    (paths : List Bytes) (st : St) (h : load cfg env fuel init paths = .ok st)
    (lopt o : Bytes) (k : Kind) (hh : cfg.handler lopt = some (o, k)) (hk : k.isAppend = true)
    (hpe : o ∉ cfg.percentExpand) (hinit : ∀ p ∈ init, p.1 ≠ o) :
    optGet st.opts o = accumulated (st.log.filter (fun e => e.opt = o)) := by
  have h0 : LogFromTable cfg init st :=
    load_inv (logFromTable_ok cfg env init) fuel init paths st
      (by intro e he; left; simpa [initSt_log] using he) h
  have h2 : Accumulates cfg st :=
    load_inv (accumulates_ok cfg env) fuel init paths st
      (by
        intro o' _ hall
        rw [initSt_log] at hall ⊢
        -- every initial entry is tagged scalar, so an all-append option has no initial entry
        have hnone : ∀ p ∈ init, p.1 ≠ o' := by
          intro p hp heq
          have := hall ⟨p.1, p.2, false⟩ (by simp only [initLog, List.mem_map]; exact ⟨p, hp, rfl⟩) heq
          simp at this
        have hf : (initLog init).filter (fun e => e.opt = o') = [] := by
          rw [List.filter_eq_nil_iff]
          intro e he
          simp only [initLog, List.mem_map] at he
          obtain ⟨p, hp, hpe⟩ := he
          rw [← hpe]; simpa using hnone p hp
        rw [hf]
        simp only [accumulated, if_true]
        exact (optGet_none_iff _ _).mpr hnone) h
  apply h2 o hpe
  intro e he heo
  rcases h0 e he with hi | ⟨lopt', k', hh', ha⟩
  · simp only [initLog, List.mem_map] at hi
    obtain ⟨p, hp, hpe'⟩ := hi
    rw [← hpe'] at heo
    exact absurd heo (hinit p hp)
  · rw [heo] at hh'
    have := hc _ (handler_mem hh') _ (handler_mem hh) rfl
    simp at this
    rw [ha, this, hk]

/-- in the generated tables the append options outside `_percent_expand` (where the theorem is exact) are
    SendEnv on the client and HostKey / HostCertificate on the server; IdentityFile and CertificateFile are
    expanded at the end of every `parse()` (see `include_rescan_witness`) -/
theorem append_options_of_tables :
    ((clientTable.handlers.filter (fun p => p.2.2.isAppend)).map (·.1) =
        [strBytes "certificatefile", strBytes "identityfile", strBytes "sendenv"]) ∧
    ((serverTable.handlers.filter (fun p => p.2.2.isAppend)).map (·.1) =
        [strBytes "hostcertificate", strBytes "hostkey"]) := by
  decide +kernel

/-! ### what gets logged: lines of inactive blocks are ignored, setter lines of active blocks take effect -/

/-- a line inside a block whose condition does not hold is ignored unless it opens a new block -/
theorem line_ignored_in_inactive_block (cfg : Table) (env : Env) (rec : St → Bytes → Except Err St)
    (st : St) (line : Bytes) (toks : List Bytes) (lopt : Bytes) (args : List Bytes)
    (hm : st.matching = false)
    (h1 : shlexSplit (strip line) = .ok toks) (h2 : splitEq cfg.conditionals toks = .ok (lopt, args))
    (h3 : cfg.conditionals.contains lopt = false) :
    handleLine cfg env rec st line = .ok st := by
  by_cases hb : strip line = [] ∨ (strip line).head? = some chHash
  · simp [handleLine, lineCmd, hb]
  · have h3' : lopt ∉ cfg.conditionals := by
      intro hmem; rw [List.contains_iff_mem.mpr hmem] at h3; exact absurd h3 (by simp)
    simp [handleLine, lineCmd, hb, hm, h1, h2, h3']

/-- a well-formed line for a plain first-value option inside an active block asks the setter to store
    its value (and the setter stores it iff the option is still unset: `setOnce`) -/
theorem scalar_line_effect (cfg : Table) (env : Env) (rec : St → Bytes → Except Err St)
    (st : St) (line : Bytes) (toks : List Bytes) (lopt opt : Bytes) (k : Kind) (args0 : List Bytes) (v : Value)
    (hm : st.matching = true)
    (hne : ¬(strip line = [] ∨ (strip line).head? = some chHash))
    (h1 : shlexSplit (strip line) = .ok toks) (h2 : splitEq cfg.conditionals toks = .ok (lopt, args0))
    (hh : cfg.handler lopt = some (opt, k))
    (hk : k.isScalar = true) (hk' : k ≠ .setHostname)
    (hv : scalarValue k (lineArgs cfg (strip line) lopt args0) = .ok (v, [])) :
    handleLine cfg env rec st line = .ok (setOnce st opt v) := by
  have hargs : lineArgs cfg (strip line) lopt args0 ≠ [] := by
    intro e; rw [e] at hv; simp [scalarValue] at hv
  unfold handleLine lineCmd
  simp only [hm, hne, h1, h2, hh, hargs, if_false, Bool.not_true, Bool.false_eq_true, false_and]
  have : runHandler cfg env rec st opt k (lineArgs cfg (strip line) lopt args0) = .ok (setOnce st opt v, []) := by
    cases k <;> simp_all [runHandler, runScalar, Kind.isScalar]
  simp [this]

/-! ## Host / Match -/

/-- **match_semantics (Match).**  The `Match` handler sets the block state to the conjunction of its
    criteria — each criterion's truth value (`all`: true, `canonical`: the canonical flag of the pass,
    `final`: this is the final pass, pattern criteria: pattern-list match of the criterion's subject)
    compared with its `!` flag — and records that a `final` criterion was seen; it fails exactly when the
    criteria list is malformed (`matchSpec`). -/
theorem match_semantics (cfg : Table) (env : Env) (rec : St → Bytes → Except Err St) (st : St)
    (opt : Bytes) (args : List Bytes) :
    runHandler cfg env rec st opt .matchBlock args =
      match matchSpec cfg env st st.final args with
      | .error e => .error e
      | .ok (crits, fin) => .ok ({ st with matching := crits.all critHolds, final := fin }, []) := by
  simp only [runHandler, matchLoop_spec]
  cases matchSpec cfg env st st.final args with
  | error e => simp [Except.map]
  | ok r => simp [Except.map]

/-- the criteria keywords: `all`, `canonical`, `final` need no argument; `final` holds only in a pass
    loaded with `final=True`, and makes `has_match_final()` true -/
theorem match_flags (cfg : Table) (env : Env) (st : St) (fin : Option Bool) :
    critHead cfg env st fin sAll = .ok (false, .flag true, fin) ∧
    critHead cfg env st fin sCanonical = .ok (false, .flag env.canonical, fin) ∧
    critHead cfg env st fin sFinal =
      .ok (false, .flag (fin == some true), if fin = none then some false else fin) ∧
    critHead cfg env st fin (chBang :: sAll) = .ok (true, .flag true, fin) := by
  refine ⟨?_, ?_, ?_, ?_⟩ <;>
    simp [critHead, lower, lowerByte, sAll, sCanonical, sFinal, sLocalnetwork, chBang]
  cases fin <;> simp

/-- **match_semantics (Host).**  `Host p1 p2 …` activates the block iff some non-negated argument matches the
    original host name and no `!`-argument does; each whitespace-separated argument is ONE pattern (a comma is an
    ordinary character, as in OpenSSH — the code used to split arguments at commas). -/
theorem host_semantics (cfg : Table) (env : Env) (rec : St → Bytes → Except Err St) (st : St)
    (opt : Bytes) (args : List Bytes) :
    ∃ st', runHandler cfg env rec st opt .matchHost args = .ok (st', []) ∧
      st'.opts = st.opts ∧ st'.log = st.log ∧
      (st'.matching = true ↔
        (∃ p ∈ args, p.head? ≠ some chBang ∧ wildMatch p env.origHost = true) ∧
        (∀ p ∈ args, p.head? = some chBang → wildMatch p.tail env.origHost = false)) := by
  refine ⟨_, rfl, rfl, rfl, ?_⟩
  simp only [patListMatchesL, Bool.and_eq_true, List.any_eq_true, List.mem_filter, decide_eq_true_eq,
    Bool.not_eq_true', List.any_eq_false, List.mem_map]
  constructor
  · rintro ⟨⟨p, ⟨hp, hb⟩, hm⟩, hneg⟩
    refine ⟨⟨p, hp, hb, hm⟩, ?_⟩
    intro q hq hqb
    have := hneg q.tail ⟨q, ⟨hq, hqb⟩, rfl⟩
    simpa using this
  · rintro ⟨⟨p, hp, hb, hm⟩, hneg⟩
    refine ⟨⟨p, ⟨hp, hb⟩, hm⟩, ?_⟩
    rintro x ⟨q, ⟨hq, hqb⟩, rfl⟩
    simpa using hneg q hq hqb

/-- a comma inside a `Host` argument does not separate patterns -/
theorem host_comma_is_literal :
    patListMatchesL [[97, 49, 44, 98, 49]] [97, 49] = false ∧          -- `Host a1,b1` does not match a1
    patListMatchesL [[97, 49, 44, 98, 49]] [97, 49, 44, 98, 49] = true := by decide

/-- a negated pattern excludes: the block state is false whenever a `!`-pattern matches -/
theorem negated_pattern_excludes (pats value p : Bytes) (hp : p ∈ patNeg pats)
    (hm : wildMatch p value = true) : patListMatches pats value = false := by
  unfold patListMatches
  have : (patNeg pats).any (fun p => wildMatch p value) = true := List.any_eq_true.mpr ⟨p, hp, hm⟩
  simp [this]

/-! ## Include -/

theorem tables_read_match_all : ReadsMatchAll clientTable ∧ ReadsMatchAll serverTable := by
  unfold ReadsMatchAll
  constructor <;> intro b <;> cases b <;> decide +kernel

/-- **include_is_inlining_partial.**  In both generated tables, an `Include` that resolves to one file
    gives the same options, log, `_final` flag and block state as the lines of that file followed by
    `Match all`, run in the including file with the token table reset — provided no `%`/`${}` expansion is
    pending at the end of the included file (`hnoexp`).  Without that hypothesis the statement is false of
    the code: see `include_expansion_timing_witness` and `include_rescan_witness`. -/
theorem include_is_inlining_partial (cfg : Table) (hcfg : cfg = clientTable ∨ cfg = serverTable)
    (env : Env) (f : Nat) (st : St) (opt : Bytes) (args : List Bytes) (text : Bytes) (r : St) (rest : List Bytes)
    (htext : args.flatMap (includeTargets env) = [text])
    (hinc : runHandler cfg env (parseText cfg env (f + 1)) st opt .includeFile args = .ok (r, rest))
    (hnoexp : ∀ s, runLines cfg env (parseText cfg env f) (prologue st) (fileLines text) = .ok s →
      ∀ toks, expandOpts env.inherited toks env.environ cfg.percentExpand s.opts = .ok s.opts) :
    ∃ r', runLines cfg env (parseText cfg env (f + 1)) (prologue st) (fileLines text ++ [matchAllLine]) = .ok r' ∧
      r'.opts = r.opts ∧ r'.log = r.log ∧ r'.final = r.final ∧ r'.matching = r.matching := by
  have hm : ReadsMatchAll cfg := by
    rcases hcfg with h | h <;> rw [h]
    · exact tables_read_match_all.1
    · exact tables_read_match_all.2
  exact include_inlined cfg env f st opt args text r rest hm htext hinc hnoexp

/-- several Include arguments are read one after the other -/
theorem include_args_in_order (cfg : Table) (env : Env) (rec : St → Bytes → Except Err St) (st : St)
    (opt : Bytes) (args : List Bytes) :
    runHandler cfg env rec st opt .includeFile args =
      match (args.flatMap (includeTargets env)).foldlM rec st with
      | .error e => .error e
      | .ok st' => .ok ({ st' with matching := true }, []) := rfl

/-- more include depth never changes a successful result -/
theorem include_depth_monotone (cfg : Table) (env : Env) (f : Nat) (st : St) (text : Bytes) (r : St)
    (h : parseText cfg env f st text = .ok r) : parseText cfg env (f + 1) st text = .ok r :=
  parseText_mono cfg env f st text r h

/-! ### witnesses: where the code leaves "read in place" / "first obtained value" -/

def wenv (files : List (String × String)) : Env :=
  { canonical := false, final := false, origHost := strBytes "h1", localUser := strBytes "luser",
    localAddr := [], localPort := [], user := [], host := [], addr := [], environ := [(strBytes "HOME", strBytes "/root")],
    localHost := strBytes "lh", home := some (strBytes "/home/l"), uid := some (strBytes "0"),
    defaultDir := strBytes "/home/l/.ssh",
    files := files.map fun p => (strBytes p.1, strBytes p.2),
    exec := fun _ => false, hashC := fun x => x, ifaddr := false }

def getOpt (r : Except Err St) (k : String) : Option Value :=
  match r with
  | .ok s => optGet s.opts (strBytes k)
  | .error _ => none

def isErr (r : Except Err St) (e : Err) : Bool :=
  match r with
  | .ok _ => false
  | .error e' => e = e'

/-- **the full inlining statement is false of the code (expansion timing).**  `IdentityFile %h-key` in an
    included file read before `Hostname real` is expanded at the end of the *included* file, with the host
    name known then (`h1-key`); the same lines in one file give `real-key` (as in OpenSSH). -/
theorem include_expansion_timing_witness :
    getOpt (load clientTable (wenv [("/m", "Include /i\nHostname real\n"), ("/i", "IdentityFile %h-key\n")])
      5 [] [strBytes "/m"]) "IdentityFile" = some (.list [strBytes "h1-key"]) ∧
    getOpt (load clientTable (wenv [("/m", "IdentityFile %h-key\nMatch all\nHostname real\n")])
      5 [] [strBytes "/m"]) "IdentityFile" = some (.list [strBytes "real-key"]) := by
  decide +kernel

/-- **substituted text is scanned again after an include (or a second top-level file).**  `%%h` is the
    literal `%h` in one file, but the host name when the line sits in an included file: the value is
    expanded once at the end of the included file and once more at the end of the including one. -/
theorem include_rescan_witness :
    getOpt (load clientTable (wenv [("/m", "IdentityFile %%h\n")]) 5 [] [strBytes "/m"]) "IdentityFile"
      = some (.list [strBytes "%h"]) ∧
    getOpt (load clientTable (wenv [("/m", "Include /i\n"), ("/i", "IdentityFile %%h\n")]) 5 [] [strBytes "/m"])
      "IdentityFile" = some (.list [strBytes "h1"]) ∧
    getOpt (load clientTable (wenv [("/m", "IdentityFile %%h\n"), ("/n", "Port 1\n")]) 5 []
      [strBytes "/m", strBytes "/n"]) "IdentityFile" = some (.list [strBytes "h1"]) := by
  decide +kernel

/-- **the final pass does not keep the first obtained values.**  For `Match final / Port 2222 / Host * /
    Port 22` the first pass obtains `Port 22`; the connection flow then re-reads the file from scratch with
    `final=True` and ends with 2222 (OpenSSH keeps 22: its second pass only fills in unset options). -/
theorem final_pass_restarts_witness :
    getOpt (load clientTable (wenv [("/m", "Match final\n Port 2222\nHost *\n Port 22\n")]) 5 [] [strBytes "/m"])
      "Port" = some (.int 22) ∧
    getOpt (resolveClient clientTable (wenv [("/m", "Match final\n Port 2222\nHost *\n Port 22\n")]) 5 []
      [strBytes "/m"] none) "Port" = some (.int 2222) := by
  decide +kernel

/-- **`Option=value` for the no-split options** (after fix aff25f2): `ProxyCommand=ssh -W %h:%p j` stores
    `ssh -W h1:22 j` as OpenSSH does, `ProxyCommand = x y` stores `x y`, and `Port=22` is read as 22 -/
theorem nosplit_equals_sign_dropped :
    getOpt (load clientTable (wenv [("/m", "ProxyCommand=ssh -W %h:%p j\nPort=22\n")]) 5 [] [strBytes "/m"])
      "ProxyCommand" = some (.str (strBytes "ssh -W h1:22 j")) ∧
    getOpt (load clientTable (wenv [("/m", "ProxyCommand = x y\n")]) 5 [] [strBytes "/m"])
      "ProxyCommand" = some (.str (strBytes "x y")) ∧
    getOpt (load clientTable (wenv [("/m", "ProxyCommand=ssh -W %h:%p j\nPort=22\n")]) 5 [] [strBytes "/m"])
      "Port" = some (.int 22) := by
  decide +kernel

/-- the rule before the fix: the rest of the line after the keyword, stripped -/
def lineArgsOld (line lopt : Bytes) : List Bytes := [strip (line.drop lopt.length)]

/-- witness of defect F30 (repaired by aff25f2): the old rule kept the separator, the new one drops it;
    both agree on the whitespace spelling -/
theorem nosplit_equals_old_witness :
    lineArgsOld (strBytes "ProxyCommand=nc j 22") (strBytes "proxycommand") = [strBytes "=nc j 22"] ∧
    lineArgs clientTable (strBytes "ProxyCommand=nc j 22") (strBytes "proxycommand") [] = [strBytes "nc j 22"] ∧
    lineArgs clientTable (strBytes "ProxyCommand nc j 22") (strBytes "proxycommand") [] =
      lineArgsOld (strBytes "ProxyCommand nc j 22") (strBytes "proxycommand") := by
  decide +kernel

/-- Include globs are read in sorted order and skip dotfiles unless the pattern asks for them
    (after fix 720d0f9; the order in which the file map lists the files does not matter) -/
theorem include_glob_sorted_example :
    getOpt (load clientTable (wenv [("/m", "Include /d/*\n"), ("/d/zz", "Port 1\n"), ("/d/.h", "Port 5\n"),
      ("/d/b", "Port 4\n"), ("/d/aa", "Port 3\n")]) 5 [] [strBytes "/m"]) "Port" = some (.int 3) ∧
    getOpt (load clientTable (wenv [("/m", "Include /d/.*\n"), ("/d/zz", "Port 1\n"), ("/d/.h", "Port 5\n")])
      5 [] [strBytes "/m"]) "Port" = some (.int 5) := by
  decide +kernel

/-! ### config objects based on one another (options objects, the second pass, hidden directories) -/

/-- **a hidden directory is not matched by a wildcard** (after the repair of `_include`): in every path the
    test accepts, a component that starts with a dot stands under a pattern component that starts with one -/
theorem hiddenOK_spec : ∀ (pcs comps : List Bytes), hiddenOK pcs comps = true →
    ∀ (i : Nat) (p c : Bytes), pcs[i]? = some p → comps[i]? = some c → c.head? = some 46 → p.head? = some 46 := by
  intro pcs
  induction pcs with
  | nil => intro comps _ i p c hp; simp at hp
  | cons p0 ps ih =>
    intro comps h i p c hp hcm hdot
    cases comps with
    | nil => simp at hcm
    | cons c0 cs =>
      simp only [hiddenOK, Bool.and_eq_true, Bool.or_eq_true, decide_eq_true_eq, bne_iff_ne, ne_eq] at h
      cases i with
      | zero =>
        simp at hp hcm
        subst hp; subst hcm
        rcases h.1 with h1 | h1
        · exact h1
        · exact absurd hdot h1
      | succ j =>
        simp at hp hcm
        exact ih cs h.2 j p c hp hcm hdot

/-- `Include /d/*/x` with a hidden and a visible directory: the repaired rule reads the visible file only
    (as glob(3) in OpenSSH), the rule before the repair (`includeTargetsPreFix`, which looked at the last
    component only) read the file below `/d/.off` first; an explicit `.off` or `.*` component still matches -/
theorem include_hidden_directory_witness :
    includeTargetsPreFix (wenv [("/d/.off/x", "User hidden\n"), ("/d/site/x", "User site\n")]) (strBytes "/d/*/x")
      = [strBytes "User hidden\n", strBytes "User site\n"] ∧
    includeTargets (wenv [("/d/.off/x", "User hidden\n"), ("/d/site/x", "User site\n")]) (strBytes "/d/*/x")
      = [strBytes "User site\n"] ∧
    includeTargets (wenv [("/d/.off/x", "User hidden\n"), ("/d/site/x", "User site\n")]) (strBytes "/d/.*/x")
      = [strBytes "User hidden\n"] ∧
    getOpt (load clientTable (wenv [("/m", "Include /d/*/x\n"), ("/d/.off/x", "User hidden\n"),
      ("/d/site/x", "User site\n")]) 5 [] [strBytes "/m"]) "User" = some (.str (strBytes "site")) := by
  decide +kernel

/-- a first-value option outside `_percent_expand` that the load starts with is still there afterwards -/
def Keeps (o : Bytes) (v : Value) (st : St) : Prop := optGet st.opts o = some v

theorem keeps_ok (cfg : Table) (hc : Consistent cfg) (env : Env) (lopt o : Bytes) (k : Kind)
    (hh : cfg.handler lopt = some (o, k)) (hk : k.isScalar = true) (hpe : o ∉ cfg.percentExpand) (v : Value) :
    InvOK cfg env (Keeps o v) where
  matching := fun _ _ h => h
  final := fun _ _ h => h
  tokens := fun _ _ h => h
  setOnce := by
    intro st _ opt _ v' _ _ h
    unfold Keeps at h ⊢
    simp only [Config.setOnce]
    by_cases ho : opt = o
    · subst ho; rw [optGet_setOnceOpts_same, h]; rfl
    · rw [optGet_setOnceOpts_other _ _ _ _ (Ne.symm ho)]; exact h
  appendTo := by
    intro st lopt' opt k' items hh' hk' h
    unfold Keeps at h ⊢
    simp only [Config.appendTo]
    by_cases ho : opt = o
    · subst ho
      have := hc _ (handler_mem hh') _ (handler_mem hh) rfl
      simp at this
      rw [this, Kind.scalar_not_append k hk] at hk'
      simp at hk'
    · rw [optGet_appendOpts_other _ _ _ _ (Ne.symm ho)]; exact h
  expandOpts := by
    intro st toks o' h he
    unfold Keeps at h ⊢
    simp only
    rw [expandOpts_get_other _ _ _ o _ _ _ hpe he]
    exact h

/-- **the second (canonical / final) pass keeps what the options object carries** (after the repair of
    `_connect`): a first-value option outside `_percent_expand` that is among the options the connection
    inherits holds the inherited value at the end of the connection flow, whatever the files say, whether
    or not a second pass is made. -/
theorem second_pass_keeps_inherited (cfg : Table) (hc : Consistent cfg) (env : Env) (fuel : Nat) (init : Opts)
    (paths : List Bytes) (canon : Option Bytes) (st : St)
    (h : resolveClient cfg env fuel init paths canon = .ok st)
    (lopt o : Bytes) (k : Kind) (hh : cfg.handler lopt = some (o, k)) (hk : k.isScalar = true)
    (hpe : o ∉ cfg.percentExpand) (v : Value) (hv : optGet init o = some v) :
    optGet st.opts o = some v := by
  unfold resolveClient at h
  cases h1 : load cfg { env with canonical := false, final := false } fuel init paths with
  | error e => simp [h1] at h
  | ok st1 =>
    simp only [h1] at h
    split at h
    · exact load_inv (keeps_ok cfg hc _ lopt o k hh hk hpe v) fuel init paths st hv h
    · simp at h
      rw [← h]
      exact load_inv (keeps_ok cfg hc _ lopt o k hh hk hpe v) fuel init paths st1 hv h1

/-- witness of the defect repaired in `_connect`: an options object that resolved `User alice` (from its own
    base `[]`) and a per-connection file with a `Match final` block.  Before the repair the second pass
    restarted from the base of the options object and the user was gone; now it is kept. -/
theorem second_pass_dropped_options_prefix_witness :
    getOpt (resolveClientPreFix clientTable (wenv [("/m", "Match final\n ServerAliveInterval 7\n")]) 5 []
      [(strBytes "User", .str (strBytes "alice"))] [strBytes "/m"] none) "User" = none ∧
    getOpt (resolveClient clientTable (wenv [("/m", "Match final\n ServerAliveInterval 7\n")]) 5
      [(strBytes "User", .str (strBytes "alice"))] [strBytes "/m"] none) "User" = some (.str (strBytes "alice")) ∧
    getOpt (resolveClient clientTable (wenv [("/m", "Match final\n ServerAliveInterval 7\n")]) 5
      [(strBytes "User", .str (strBytes "alice"))] [strBytes "/m"] none) "ServerAliveInterval" = some (.int 7) := by
  decide +kernel

theorem expandOpts_keeps_inherited_str (inh : Opts) (toks : Tokens) (environ : List (Bytes × Bytes))
    (o s : Bytes) (hin : (optGet inh o).isSome = true) :
    ∀ (ks : List Bytes) (opts opts' : Opts), optGet opts o = some (.str s) →
      expandOpts inh toks environ ks opts = .ok opts' → optGet opts' o = some (.str s) := by
  intro ks
  induction ks with
  | nil => intro opts opts' ho h; simp [expandOpts] at h; rw [← h]; exact ho
  | cons k ks ih =>
    intro opts opts' ho h
    unfold expandOpts at h
    cases hg : optGet opts k with
    | none => simp only [hg] at h; exact ih _ _ ho h
    | some v =>
      simp only [hg] at h
      cases hv : expandValue (optGet inh k) toks environ v with
      | error e => simp [hv] at h
      | ok v' =>
        simp only [hv] at h
        refine ih _ _ ?_ h
        by_cases hk : k = o
        · subst hk
          rw [ho] at hg
          cases hg
          simp [expandValue, hin] at hv
          rw [← hv, optGet_optSet_same]
        · rw [optGet_optSet_other _ _ _ _ (Ne.symm hk)]; exact ho

theorem keeps_inherited_ok (cfg : Table) (hc : Consistent cfg) (env : Env) (lopt o : Bytes) (k : Kind)
    (hh : cfg.handler lopt = some (o, k)) (hk : k.isScalar = true) (s : Bytes)
    (hin : (optGet env.inherited o).isSome = true) :
    InvOK cfg env (Keeps o (.str s)) where
  matching := fun _ _ h => h
  final := fun _ _ h => h
  tokens := fun _ _ h => h
  setOnce := by
    intro st _ opt _ v' _ _ h
    unfold Keeps at h ⊢
    simp only [Config.setOnce]
    by_cases ho : opt = o
    · subst ho; rw [optGet_setOnceOpts_same, h]; rfl
    · rw [optGet_setOnceOpts_other _ _ _ _ (Ne.symm ho)]; exact h
  appendTo := by
    intro st lopt' opt k' items hh' hk' h
    unfold Keeps at h ⊢
    simp only [Config.appendTo]
    by_cases ho : opt = o
    · subst ho
      have := hc _ (handler_mem hh') _ (handler_mem hh) rfl
      simp at this
      rw [this, Kind.scalar_not_append k hk] at hk'
      simp at hk'
    · rw [optGet_appendOpts_other _ _ _ _ (Ne.symm ho)]; exact h
  expandOpts := by
    intro st toks o' h he
    unfold Keeps at h ⊢
    simp only
    exact expandOpts_keeps_inherited_str _ _ _ o s hin _ _ _ h he

/-- **an inherited value is not expanded a second time** (after the repair of the end of `parse()`): a string
    option the load inherits from the previous config object (`env.inherited`, `_last_options`) - where it was
    expanded when that object was loaded - is byte for byte the same after the load, also when the option is in
    `_percent_expand` and the text contains `%` or `${`. -/
theorem inherited_value_not_expanded_again (cfg : Table) (hc : Consistent cfg) (env : Env) (fuel : Nat)
    (init : Opts) (paths : List Bytes) (st : St) (h : load cfg env fuel init paths = .ok st)
    (lopt o : Bytes) (k : Kind) (hh : cfg.handler lopt = some (o, k)) (hk : k.isScalar = true)
    (s : Bytes) (hv : optGet init o = some (.str s)) (hin : (optGet env.inherited o).isSome = true) :
    optGet st.opts o = some (.str s) :=
  load_inv (keeps_inherited_ok cfg hc env lopt o k hh hk s hin) fuel init paths st hv h

def inhOpts : Opts :=
  [(strBytes "RemoteCommand", .str (strBytes "echo 100%done %h")),
   (strBytes "IdentityFile", .list [strBytes "/k/%d/id"])]

/-- witness of the defect repaired at the end of `parse()`: the options object resolved
    `RemoteCommand echo 100%%done %%h` to `echo 100%done %h` and `IdentityFile /k/%%d/id` to `/k/%d/id`.  A
    connection based on it that reads any file expanded these again when the code did not know they were
    inherited (`inherited := []`: `%d` became the home directory, `%h` the host); now they are kept and only
    the item this connection adds (`/k/%h`) is expanded. -/
theorem inherited_reexpansion_prefix_witness :
    getOpt (load clientTable (wenv [("/m", "IdentityFile /k/%h\n")]) 5 inhOpts [strBytes "/m"]) "RemoteCommand"
      = some (.str (strBytes "echo 100/home/lone h1")) ∧
    getOpt (load clientTable (wenv [("/m", "IdentityFile /k/%h\n")]) 5 inhOpts [strBytes "/m"]) "IdentityFile"
      = some (.list [strBytes "/k//home/l/id", strBytes "/k/h1"]) ∧
    getOpt (load clientTable { wenv [("/m", "IdentityFile /k/%h\n")] with inherited := inhOpts } 5 inhOpts
      [strBytes "/m"]) "RemoteCommand" = some (.str (strBytes "echo 100%done %h")) ∧
    getOpt (load clientTable { wenv [("/m", "IdentityFile /k/%h\n")] with inherited := inhOpts } 5 inhOpts
      [strBytes "/m"]) "IdentityFile" = some (.list [strBytes "/k/%d/id", strBytes "/k/h1"]) := by
  decide +kernel

def pairOpt (r : Except Err (St × St)) (second : Bool) (k : String) : Option Value :=
  match r with
  | .ok p => optGet (if second then p.2 else p.1).opts (strBytes k)
  | .error _ => none

/-- witness of the defect repaired in `SSHConfig.__init__` / `get_options` (lists shared between config
    objects): an options object with `SendEnv COMMON`, a first connection whose file adds `SECRET_FOR_A`, a
    second connection whose file does not mention SendEnv.  With the lists shared (`twoConnectionsPreFix`) the
    second connection sends host A's variable; config objects that are values (`twoConnections`) do not. -/
theorem shared_list_prefix_witness :
    pairOpt (twoConnectionsPreFix clientTable (wenv [("/a", "SendEnv SECRET_FOR_A\n"), ("/b", "Port 3\n")]) 5
      [(strBytes "SendEnv", .list [strBytes "COMMON"])] [strBytes "/a"] [strBytes "/b"]) true "SendEnv"
      = some (.list [strBytes "COMMON", strBytes "SECRET_FOR_A"]) ∧
    pairOpt (twoConnections clientTable (wenv [("/a", "SendEnv SECRET_FOR_A\n"), ("/b", "Port 3\n")]) 5
      [(strBytes "SendEnv", .list [strBytes "COMMON"])] [strBytes "/a"] [strBytes "/b"]) true "SendEnv"
      = some (.list [strBytes "COMMON"]) ∧
    pairOpt (twoConnections clientTable (wenv [("/a", "SendEnv SECRET_FOR_A\n"), ("/b", "Port 3\n")]) 5
      [(strBytes "SendEnv", .list [strBytes "COMMON"])] [strBytes "/a"] [strBytes "/b"]) false "SendEnv"
      = some (.list [strBytes "COMMON", strBytes "SECRET_FOR_A"]) := by
  decide +kernel

/-- **connections made from one options object do not see one another**: the second connection's result is
    the load of its own files from the options object's values, whatever the first connection read -/
theorem connections_isolated (cfg : Table) (env : Env) (fuel : Nat) (parent : Opts) (paths1 paths2 : List Bytes)
    (s1 s2 : St) (h : twoConnections cfg env fuel parent paths1 paths2 = .ok (s1, s2)) :
    load cfg { env with inherited := parent } fuel parent paths2 = .ok s2 := by
  unfold twoConnections at h
  cases h1 : load cfg { env with inherited := parent } fuel parent paths1 with
  | error e => simp [h1] at h
  | ok a =>
    simp only [h1] at h
    cases h2 : load cfg { env with inherited := parent } fuel parent paths2 with
    | error e => simp [h2] at h
    | ok b => simp [h2] at h; rw [h.2]

/-- the token table survives an include: `Hostname %p.x` is an error in a plain file but is accepted after
    any `Include` (this is why `include_is_inlining_partial` resets / ignores the token table) -/
theorem hostname_tokens_after_include_witness :
    isErr (load clientTable (wenv [("/m", "Hostname %p.x\n")]) 5 [] [strBytes "/m"]) .parse = true ∧
    getOpt (load clientTable (wenv [("/m", "Include /i\nHostname %p.x\n"), ("/i", "Port 7\n")]) 5 [] [strBytes "/m"])
      "Hostname" = some (.str (strBytes "7.x")) := by
  decide +kernel

/-! ## expansion -/

/-- **expand_spec (tokens).**  For every value written as literal pieces without `%` and references `%c`
    (c not a newline): the token pass returns the pieces in order with each reference replaced, once, by
    its token value — whatever that value contains, it is not scanned again — and fails iff some reference
    names an unknown token. -/
theorem expand_spec (toks : Tokens) (segs : List Seg) (hwf : ∀ s ∈ segs, s.WF) :
    expandTokens toks (renderSegs segs) =
      match substSegs toks segs with
      | some r => .ok r
      | none => .error .parse :=
  expandTokens_segs toks segs hwf

/-- **expand_spec (environment).**  Same for `${name}` references (name without `}` / newline) and
    literal pieces without `$`. -/
theorem expand_spec_env (environ : List (Bytes × Bytes)) (segs : List ESeg) (hwf : ∀ s ∈ segs, s.WF) :
    expandEnv environ (renderESegs segs) =
      match substESegs environ segs with
      | some r => .ok r
      | none => .error .parse :=
  expandEnv_segs environ segs hwf

/-- a value without `%` and without a `${…}` span is left alone -/
theorem expand_identity (toks : Tokens) (environ : List (Bytes × Bytes)) (s : Bytes)
    (h1 : chPct ∉ s) (h2 : hasSpan [chDollar, chLBrace] [chRBrace] s = false) :
    expandVal toks environ s = .ok s := by
  unfold expandVal
  rw [expandTokens_no_pct toks s h1]
  exact expandEnv_id_of_no_span environ s h2

/-- `expand_spec` is about each pass: the *environment* pass runs over the output of the token pass, so a
    token value containing `${X}` is expanded again (this is why the server refuses such user names) -/
theorem env_pass_rescans_token_values_witness :
    expandVal [(117, strBytes "${HOME}")] [(strBytes "HOME", strBytes "/root")] (strBytes "/k/%u")
      = .ok (strBytes "/k//root") := by
  decide +kernel

theorem expand_spec_example :
    expandTokens [(chPct, [chPct]), (104, strBytes "%d")] (strBytes "a%%b%h%h") = .ok (strBytes "a%b%d%d") ∧
    expandEnv [(strBytes "A", strBytes "${A}")] (strBytes "x${A}${A}y$") = .ok (strBytes "x${A}${A}y$") := by
  decide +kernel

/-! ## the remote user name -/

/-- **what the filter guarantees** (alternatives of `_unsafe_user_pattern` as regenerated from the source):
    an accepted name contains no `/` and no `\`, is not `..` (nor `..` + newline) and — since fix 42ddfa4 — not `.`, does not start with `~`
    or with a letter followed by `:`, contains no `${…}` span, and therefore is left alone by the
    environment pass. -/
theorem safe_user_spec (u : Bytes) (h : unsafeUser serverTable.unsafeUserAlts u = false) :
    slash ∉ u ∧ chBackslash ∉ u ∧ u ≠ dotdot ∧ u ≠ dotdot ++ [chNl] ∧ u.head? ≠ some chTilde ∧
    UserPat.matches u (.prefixClassLit [(65, 90), (97, 122)] [58]) = false ∧
    hasSpan [chDollar, chLBrace] [chRBrace] u = false ∧
    (∀ environ, expandEnv environ u = .ok u) ∧ u ≠ dot := by
  have m0 : UserPat.exact [46] ∈ serverTable.unsafeUserAlts := by decide +kernel
  have e0 := unsafeUser_false_of_mem m0 h
  simp only [UserPat.matches, Bool.or_eq_false_iff, decide_eq_false_iff_not] at e0
  have m1 : UserPat.exact [46, 46] ∈ serverTable.unsafeUserAlts := by decide +kernel
  have m2 : UserPat.prefixLit [126] ∈ serverTable.unsafeUserAlts := by decide +kernel
  have m3 : UserPat.prefixClassLit [(65, 90), (97, 122)] [58] ∈ serverTable.unsafeUserAlts := by decide +kernel
  have m4 : UserPat.containsAny [47, 92] ∈ serverTable.unsafeUserAlts := by decide +kernel
  have m5 : UserPat.containsSpan [36, 123] [125] ∈ serverTable.unsafeUserAlts := by decide +kernel
  have e1 := unsafeUser_false_of_mem m1 h
  have e2 := unsafeUser_false_of_mem m2 h
  have e3 := unsafeUser_false_of_mem m3 h
  have e4 := unsafeUser_false_of_mem m4 h
  have e5 := unsafeUser_false_of_mem m5 h
  simp only [UserPat.matches, Bool.or_eq_false_iff, decide_eq_false_iff_not] at e1
  simp only [UserPat.matches] at e2 e4 e5
  have hspan : hasSpan [chDollar, chLBrace] [chRBrace] u = false := e5
  refine ⟨?_, ?_, e1.1, e1.2, ?_, e3, hspan, fun environ => expandEnv_id_of_no_span environ u hspan, e0.1⟩
  · intro hm
    have : u.any (fun c => [47, 92].contains c) = true := List.any_eq_true.mpr ⟨slash, hm, by decide⟩
    rw [this] at e4; exact absurd e4 (by simp)
  · intro hm
    have : u.any (fun c => [47, 92].contains c) = true := List.any_eq_true.mpr ⟨chBackslash, hm, by decide⟩
    rw [this] at e4; exact absurd e4 (by simp)
  · intro hh
    cases u with
    | nil => simp at hh
    | cons c cs =>
      simp at hh
      rw [hh] at e2
      simp [List.isPrefixOf, chTilde] at e2

/-- **unsafe_user_never_expanded.**  Let `u` be a user name the server filter accepts and `toks` a token
    table whose values are `u` or `%` (the server's: `{'%': '%', 'u': user}`).  For every template `t` whose
    token pass succeeds with result `r`:
    * `r` has exactly the `/`-components of `t`, each being the expansion of the corresponding component
      (the name never adds or removes a path component),
    * a component that is exactly `%u` becomes `u`, which is neither `..` nor contains a separator,
    * the environment pass applied to the name itself does nothing (no `${…}` can be smuggled in by `u`
      alone). -/
theorem unsafe_user_never_expanded (u : Bytes) (toks : Tokens) (t r : Bytes)
    (hsafe : unsafeUser serverTable.unsafeUserAlts u = false)
    (hv : ∀ p ∈ toks, (p.1 = 117 ∧ p.2 = u) ∨ (p.1 = chPct ∧ p.2 = [chPct]))
    (hexp : expandTokens toks t = .ok r) :
    AllPairs (fun c c' => expandTokens toks c = .ok c') (splitSlash t) (splitSlash r) ∧
    (splitSlash r).length = (splitSlash t).length ∧
    (∀ c', expandTokens toks [chPct, 117] = .ok c' → c' = u ∧ c' ≠ dotdot ∧ slash ∉ c') ∧
    (∀ environ, expandEnv environ u = .ok u) := by
  obtain ⟨hs, _, hdd, _, _, _, _, henv, _⟩ := safe_user_spec u hsafe
  have hvs : ∀ p ∈ toks, slash ∉ p.2 := by
    intro p hp
    rcases hv p hp with ⟨_, h⟩ | ⟨_, h⟩ <;> rw [h]
    · exact hs
    · decide
  have hks : ∀ p ∈ toks, p.1 ≠ slash := by
    intro p hp
    rcases hv p hp with ⟨h, _⟩ | ⟨h, _⟩ <;> rw [h] <;> decide
  have hall := expandTokens_splitSlash toks hvs hks t r hexp
  refine ⟨hall, hall.length_eq.symm, ?_, henv⟩
  intro c' hc'
  rw [expandTokens_tok _ _ _ (by decide)] at hc'
  cases hl : tokLookup toks 117 with
  | none => simp [hl] at hc'
  | some v =>
    simp [hl, expandTokens, Except.map] at hc'
    have hm := tokLookup_mem hl
    rcases hv _ hm with ⟨_, h⟩ | ⟨h, _⟩
    · simp at h; rw [← hc', h]; exact ⟨rfl, hdd, hs⟩
    · simp [chPct] at h

/-- the alternatives of `_unsafe_user_pattern` before fix 42ddfa4 -/
def preFixUserAlts : List UserPat :=
  [.exact [46, 46], .prefixLit [126], .prefixClassLit [(65, 90), (97, 122)] [58], .containsAny [47, 92],
   .containsSpan [36, 123] [125]]

/-- witness of defect F31 (repaired by 42ddfa4): the old filter accepted `.`, which collapses a `%u`
    component and, glued to other text by the template, forms `..`; the regenerated filter refuses it -/
theorem user_dot_old_witness :
    unsafeUser preFixUserAlts (strBytes ".") = false ∧
    expandVal [(117, strBytes "."), (chPct, [chPct])] [] (strBytes "/keys/%u%u") = .ok (strBytes "/keys/..") ∧
    unsafeUser serverTable.unsafeUserAlts (strBytes ".") = true := by
  decide +kernel

/-- **a `..` component needs the empty name.**  If an accepted, non-empty name is referenced by a piece
    of a template component (written as literal pieces and `%c` references) then the expansion of that
    component is not `..`: with `.` and `..` refused no other name fits inside `..`.  (The empty name is
    still accepted — known finding — and turns the literal text `.%u.` into `..`.) -/
theorem dotdot_needs_empty_name (u : Bytes) (toks : Tokens) (segs : List Seg) (r : Bytes)
    (hsafe : unsafeUser serverTable.unsafeUserAlts u = false) (hne : u ≠ [])
    (hu : tokLookup toks 117 = some u) (hmem : Seg.tok 117 ∈ segs)
    (hr : substSegs toks segs = some r) : r ≠ dotdot := by
  obtain ⟨_, _, hdd, _, _, _, _, _, hd⟩ := safe_user_spec u hsafe
  have hinfix : ∀ (segs : List Seg) (r : Bytes), Seg.tok 117 ∈ segs → substSegs toks segs = some r →
      ∃ a b, r = a ++ u ++ b := by
    intro segs
    induction segs with
    | nil => intro r hm; simp at hm
    | cons sg rest ih =>
      intro r hm hr
      cases sg with
      | lit s =>
        have hm' : Seg.tok 117 ∈ rest := by simpa using hm
        simp only [substSegs] at hr
        cases hs : substSegs toks rest with
        | none => simp [hs] at hr
        | some r' =>
          simp [hs] at hr
          obtain ⟨a, b, hab⟩ := ih r' hm' hs
          exact ⟨s ++ a, b, by rw [← hr, hab]; simp⟩
      | tok c =>
        simp only [substSegs] at hr
        cases hl : tokLookup toks c with
        | none => simp [hl] at hr
        | some v =>
          simp only [hl] at hr
          cases hs : substSegs toks rest with
          | none => simp [hs] at hr
          | some r' =>
            simp [hs] at hr
            by_cases hc : c = 117
            · subst hc
              rw [hu] at hl
              simp at hl
              exact ⟨[], r', by rw [← hr, hl]; simp⟩
            · have hm' : Seg.tok 117 ∈ rest := by
                simp only [List.mem_cons] at hm
                rcases hm with hm | hm
                · simp at hm; exact absurd hm.symm hc
                · exact hm
              obtain ⟨a, b, hab⟩ := ih r' hm' hs
              exact ⟨v ++ a, b, by rw [← hr, hab]; simp⟩
  obtain ⟨a, b, hab⟩ := hinfix segs r hmem hr
  intro hrd
  rw [hrd] at hab
  -- a non-empty infix of `..` is `.` or `..`
  have hlen := congrArg List.length hab
  simp [dotdot] at hlen
  have hall : ∀ x ∈ u, x = 46 := by
    intro x hx
    have : x ∈ dotdot := by rw [hab]; simp [hx]
    simpa [dotdot] using this
  match u, hne, hall, hlen, hd, hdd with
  | [x], _, hall, _, hd, _ => exact hd (by rw [hall x (by simp)]; rfl)
  | [x, y], _, hall, _, _, hdd => exact hdd (by rw [hall x (by simp), hall y (by simp)]; rfl)
  | _ :: _ :: _ :: _, _, _, hlen, _, _ => simp at hlen; omega

/-- what remains after the fix: the empty name is accepted and makes `.%u.` a `..` component, and two
    adjacent references still let an accepted name assemble a `${HOME}` reference from two copies of
    itself, which the environment pass then expands (known findings) -/
theorem user_glue_witness :
    unsafeUser serverTable.unsafeUserAlts [] = false ∧
    expandVal [(117, []), (chPct, [chPct])] [] (strBytes "/keys/.%u./x") = .ok (strBytes "/keys/../x") ∧
    expandVal [(117, []), (chPct, [chPct])] [] (strBytes "/keys/%u/ak") = .ok (strBytes "/keys//ak") ∧
    unsafeUser serverTable.unsafeUserAlts (strBytes "OME}${H") = false ∧
    expandVal [(117, strBytes "OME}${H"), (chPct, [chPct])] [(strBytes "HOME", strBytes "/root")]
      (strBytes "/keys/%u%u") = .ok (strBytes "/keys/OME}/root${H") := by
  decide +kernel

/-- the server refuses the documented unsafe names and accepts ordinary ones (non-vacuity) -/
theorem unsafe_user_example :
    (["..", "../x", "a/b", "a\\b", "~root", "C:", "x${HOME}y", "..\n", "."].map
      fun s => unsafeUser serverTable.unsafeUserAlts (strBytes s)) = [true, true, true, true, true, true, true, true, true] ∧
    (["alice", ". ", "...", "${HOME", "1:b", "x~", "%u", ""].map
      fun s => unsafeUser serverTable.unsafeUserAlts (strBytes s)) = [false, false, false, false, false, false, false, false] ∧
    isErr (load serverTable { wenv [("/s", "AuthorizedKeysFile /keys/%u\n")] with user := strBytes "../etc" } 5 []
      [strBytes "/s"]) .illegalUser = true ∧
    getOpt (load serverTable { wenv [("/s", "AuthorizedKeysFile /keys/%u/ak\n")] with user := strBytes "alice" } 5 []
      [strBytes "/s"]) "AuthorizedKeysFile" = some (.list [strBytes "/keys/alice/ak"]) := by
  decide +kernel

/-! ## non-vacuity of the resolution theorems -/

/-- first value wins across blocks and includes; negation; several criteria; lists accumulate -/
theorem first_value_wins_example :
    let env := wenv [("/m", "Host h2\n Port 1\nHost !h2 h*\n Include /i\n Port 3\nMatch host h1 user alice\n SendEnv C\nPort 4\nSendEnv A B\n"),
                     ("/i", "Port 2\nMatch user nobody\n Port 9\n SendEnv X\n")]
    let r := load clientTable env 5 [(strBytes "User", .str (strBytes "alice"))] [strBytes "/m"]
    getOpt r "Port" = some (.int 2) ∧ getOpt r "SendEnv" = some (.list [strBytes "C", strBytes "A", strBytes "B"]) ∧
    getOpt r "User" = some (.str (strBytes "alice")) := by
  decide +kernel

/-- the log of that run, for `Port`: 2 (include, active), 3, 4 — the first one is the result -/
theorem first_value_wins_log_example :
    let env := wenv [("/m", "Host h2\n Port 1\nHost !h2 h*\n Include /i\n Port 3\nPort 4\n"),
                     ("/i", "Port 2\nMatch user nobody\n Port 9\n")]
    (match load clientTable env 5 [] [strBytes "/m"] with
     | .ok st => (st.log.filter (fun e => e.opt = strBytes "Port")).map (·.val)
     | .error _ => []) = [.int 2, .int 3, .int 4] := by
  decide +kernel

theorem match_semantics_example :
    matchSpec clientTable (wenv []) (initSt (wenv []) []) none
      [strBytes "host", strBytes "h*,!h2", strBytes "!user", strBytes "root", strBytes "final"]
      = .ok ([(false, true), (true, false), (false, false)], some false) := by
  decide +kernel

end AsyncsshModel.C18
