import AsyncsshModel.Lemmas.LifecycleConn
import AsyncsshModel.Lemmas.LifecycleDrain
import AsyncsshModel.Lemmas.LifecycleHandshake
import AsyncsshModel.Lemmas.LifecycleFlow
import AsyncsshModel.Lemmas.LifecycleWaiters
/-
  C09 — Everything terminates: no hung waiter, one orderly close.
  Property theorems only; the model is Model/Lifecycle*.lean, helper lemmas live in Lemmas/Lifecycle*.lean.

  Setting of the connection-level theorems: ONE endpoint (client or server, any window, any behaviour of the
  application's callbacks) against an ARBITRARY environment — any sequence of received packets (well-formed or
  not, from a compliant or a hostile peer), ready-queue steps of the event loop, application calls and transport
  losses (`CEv`).  `Conn.runEvs (Conn.fresh ..) evs` is the state after the event sequence `evs`.
-/
namespace AsyncsshModel.C09
open AsyncsshModel.Lifecycle

/-- the connection is gone (`_transport is None`: cut, DISCONNECT received or sent, `abort()`, `close()`, internal
    error) and the event loop has run everything that was scheduled -/
def Quiesced (s : Conn) : Prop := s.transport = false ∧ s.ready = []

/-- **close_once_and_last (safety part).**  In every reachable state, for every channel object the callbacks
    its session received so far are accepted by the automaton `made · x* · lost?` where `x` is anything but
    `made` / `lost` and `eof` occurs at most once (state 1: live, state 3: live and `eof_received` already
    delivered, state 2: `connection_lost` delivered); the session reference is held exactly between `made`
    and `lost`; and the same for the connection owner (`connection_made · requests* · connection_lost?`).
    So: `connection_made` first, at most one `connection_lost`, nothing after it, `eof_received` at most once —
    including the path where the peer's CLOSE overtakes its still pending EOF (`_recv_eof_pending`). -/
theorem callbacks_legal (b : Bool) (w : Nat) (cfgs : List SrvCfg) (pf : List OpenMode) (evs : List CEv) :
    let s := (Conn.fresh b w cfgs pf).runEvs evs
    (∀ c ∈ s.chans, (c.session = true → runDfa c.trace = some 1 ∨ runDfa c.trace = some 3) ∧
                    (c.session = false → runDfa c.trace = some 0 ∨ runDfa c.trace = some 2)) ∧
    (s.owner = true → runOdfa s.ownerTrace = some 1) ∧ (s.owner = false → runOdfa s.ownerTrace = some 2) := by
  intro s
  have hI := inv_reachable b w cfgs pf evs
  refine ⟨?_, hI.ownerT, fun h => (hI.ownerF h).1⟩
  intro c hc
  obtain ⟨k, hk⟩ := List.getElem?_of_mem hc
  have := (hI.chans k c hk).1
  exact ⟨this.trT, this.trF⟩

/-- what acceptance by the automaton means, spelled out: a trace in state 2 is `made :: mid ++ [lost e]` with no
    `made` and no `lost` inside `mid` and at most one `eof` — exactly one final notification, nothing after it -/
theorem dfa_over_shape (tr : List Cb) (h : runDfa tr = some 2) :
    ∃ mid e, tr = .made :: mid ++ [.lost e] ∧ (∀ x ∈ mid, x ≠ .made ∧ ∀ e', x ≠ .lost e') ∧ mid.count .eof ≤ 1 :=
  (foldl_dfa_two tr 0 h).2.2.1 rfl

/-- **`eof_received` at most once**, in every reachable state, for every session, whatever the peer sends -/
theorem eof_at_most_once (b : Bool) (w : Nat) (cfgs : List SrvCfg) (pf : List OpenMode) (evs : List CEv) :
    ∀ c ∈ ((Conn.fresh b w cfgs pf).runEvs evs).chans, c.trace.count .eof ≤ 1 := by
  intro c hc
  obtain ⟨h1, h2⟩ := (callbacks_legal b w cfgs pf evs).1 c hc
  cases hs : c.session with
  | true => rcases h1 hs with y | y <;> exact runDfa_eof_once _ _ y
  | false => rcases h2 hs with y | y <;> exact runDfa_eof_once _ _ y

/-- **no_orphan_channel.**  Once the connection is closed (`_close_event` set by `_cleanup`), no channel is
    registered in its channel table — in every reachable state, hence for good. -/
theorem no_orphan_channel (b : Bool) (w : Nat) (cfgs : List SrvCfg) (pf : List OpenMode) (evs : List CEv) :
    let s := (Conn.fresh b w cfgs pf).runEvs evs
    s.closeEvent = true → ∀ c ∈ s.chans, c.reg = false := by
  intro s hce c hc
  have hI := inv_reachable b w cfgs pf evs
  obtain ⟨k, hk⟩ := List.getElem?_of_mem hc
  exact (hI.closed hce).2.1 k c hk

/-- **waiters_resolved.**  From every reachable state: once the transport is gone and the event loop has run
    what was scheduled, the connection's `_cleanup` has run (`_close_event` set, so every `wait_closed()` on the
    connection returned), no global request waiter is left and every global request call got its answer, the
    connect waiter is resolved, and for every channel: no open waiter, no request waiter, no unconsumed
    result, `_close_event` set with nobody still blocked in `wait_closed()`, and the `create_session` call that
    made the channel has returned or raised (`stage = done`).  Every `create_session` call has started and
    either failed early or got its channel. -/
theorem waiters_resolved (b : Bool) (w : Nat) (cfgs : List SrvCfg) (pf : List OpenMode) (evs : List CEv) :
    let s := (Conn.fresh b w cfgs pf).runEvs evs
    Quiesced s →
    s.closeEvent = true ∧ s.gwaiters = [] ∧ s.wcPending = 0 ∧ s.establishing = false ∧
    (∀ o ∈ s.greqs, o ≠ .pending) ∧
    (∀ cs ∈ s.cli, cs.started = true) ∧
    (∀ c ∈ s.chans, c.openWaiter = false ∧ c.reqWaiter = false ∧ c.wakeVal = none ∧ c.stage = .done ∧
                    c.closeEvent = true ∧ c.wcPending = 0) := by
  intro s ⟨ht, hq⟩
  have hI := inv_reachable b w cfgs pf evs
  have hce : s.closeEvent = true := by
    rcases hI.cc2 (by simp) ht with y | ⟨e, y⟩
    · exact y
    · rw [hq] at y; cases y
  obtain ⟨_, hunreg, hg, hwc, _, hest⟩ := hI.closed hce
  refine ⟨hce, hg, hwc, hest, ?_, ?_, ?_⟩
  · intro o ho hp
    subst hp
    obtain ⟨i, hi⟩ := List.getElem?_of_mem ho
    rcases hI.greq i (by simp) hi with y | y
    · rw [hq] at y; cases y
    · rw [hg] at y; cases y
  · intro cs hcs
    obtain ⟨i, hi⟩ := List.getElem?_of_mem hcs
    cases hst : cs.started with
    | true => rfl
    | false => have := hI.cliS i cs (by simp) hi hst; rw [hq] at this; cases this
  · intro c hc
    obtain ⟨k, hk⟩ := List.getElem?_of_mem hc
    have hci := (hI.chans k c hk).1
    have hr := hunreg k c hk
    have how : c.openWaiter = false := by
      cases h : c.openWaiter with
      | false => rfl
      | true => have := (hci.ow h).1; rw [hr] at this; cases this
    have hrw : c.reqWaiter = false := by
      cases h : c.reqWaiter with
      | false => rfl
      | true => have := (hci.rw h).1; rw [hr] at this; cases this
    have hwv : c.wakeVal = none := by
      cases h : c.wakeVal with
      | none => rfl
      | some v => have := hI.wakeQ k c (by simp) hk (by rw [h]; rfl); rw [hq] at this; cases this
    have hst : c.stage = .done := by
      cases h : c.stage with
      | done => rfl
      | waitOpen | waitPty | waitReq =>
        have := hci.live (by rw [h]; simp)
        rw [how, hrw, hwv] at this
        simp at this
    exact ⟨how, hrw, hwv, hst, hci.ce hr, hci.wc (hci.ce hr)⟩

/-- **close_once_and_last (liveness part).**  From every reachable state: once the transport is gone and the
    event loop has run what was scheduled, no channel holds a session any more — every session object that
    ever got `connection_made` has got its `connection_lost` (exactly one, and last, by `callbacks_legal`) —
    and the owner has got its `connection_lost`.  (This is where the FIFO order of the ready queue matters:
    `create()` resumes after a successful open before any `_cleanup` scheduled later can unregister the
    channel; see `InvX.okQ`.) -/
theorem every_session_closed (b : Bool) (w : Nat) (cfgs : List SrvCfg) (pf : List OpenMode) (evs : List CEv) :
    let s := (Conn.fresh b w cfgs pf).runEvs evs
    Quiesced s →
    s.owner = false ∧ runOdfa s.ownerTrace = some 2 ∧
    ∀ c ∈ s.chans, c.session = false ∧ (runDfa c.trace = some 0 ∨ runDfa c.trace = some 2) := by
  intro s ⟨ht, hq⟩
  have hI := inv_reachable b w cfgs pf evs
  have hce : s.closeEvent = true := by
    rcases hI.cc2 (by simp) ht with y | ⟨e, y⟩
    · exact y
    · rw [hq] at y; cases y
  obtain ⟨_, hunreg, _, _, hown, _⟩ := hI.closed hce
  refine ⟨hown, (hI.ownerF hown).1, ?_⟩
  intro c hc
  obtain ⟨k, hk⟩ := List.getElem?_of_mem hc
  obtain ⟨hci, hsr⟩ := hI.chans k c hk
  have hs : c.session = false := by
    cases h : c.session with
    | false => rfl
    | true => have := hsr h; rw [hunreg k c hk] at this; cases this
  exact ⟨hs, hci.trF hs⟩

/-- **waiters_resolved (the cleanup terminates, with its bound).**  Once the transport is gone, every executed
    ready-queue entry strictly decreases `Phi` (queue length + what each channel may still cause + pending global
    requests), so after at most `Phi s` entries the queue is empty — whatever state `s` the connection was in. -/
theorem cleanup_terminates (s : Conn) (ht : s.transport = false) : Quiesced (runN (Phi s) s) := by
  have := drain_bounded (Phi s) s ht (Nat.le_refl _)
  exact ⟨this.2, this.1⟩

/-- the bound in plain terms: at most (entries already queued) + 6 per channel object + 2 per queued global request -/
theorem cleanup_bound (s : Conn) : Phi s ≤ s.ready.length + 6 * s.chans.length + 2 * s.gqueue := by
  have hc : ∀ l : List Chan, chiSum l ≤ 6 * l.length := by
    intro l
    induction l with
    | nil => simp [chiSum]
    | cons c rest ih =>
      have h1 := wA_le c
      have h2 := rho_le c
      have h3 := wF_le c
      have h4 : sigma c.stage ≤ 3 := by cases c.stage <;> simp
      simp only [chiSum, List.map_cons, List.sum_cons, List.length_cons, chi] at ih ⊢
      omega
  have := hc s.chans
  unfold Phi; omega

theorem runN_eq_runEvs (n : Nat) (s : Conn) : runN n s = s.runEvs (List.replicate n .run) := by
  induction n generalizing s with
  | zero => rfl
  | succ n ih => simp only [runN, List.replicate_succ, Conn.runEvs, List.foldl_cons, Conn.stepEv]; exact ih _

/-- **waiters_resolved, end to end.**  Take ANY reachable state, let the transport report `connection_lost`
    (with or without an OSError), and let the event loop run `Phi` entries: the connection is quiesced, every
    waiter and every `create_session` call is resolved, every session and the owner have their single final
    `connection_lost`, no channel is registered. -/
theorem loss_then_drain_resolves (b : Bool) (w : Nat) (cfgs : List SrvCfg) (pf : List OpenMode) (evs : List CEv)
    (reset : Bool) :
    let s := (Conn.fresh b w cfgs pf).runEvs (evs ++ [.lose reset])
    let s' := runN (Phi s) s
    Quiesced s' ∧ s'.closeEvent = true ∧ s'.gwaiters = [] ∧ s'.wcPending = 0 ∧
    (∀ o ∈ s'.greqs, o ≠ .pending) ∧
    (∀ c ∈ s'.chans, c.openWaiter = false ∧ c.reqWaiter = false ∧ c.stage = .done ∧ c.wcPending = 0 ∧
                     c.session = false ∧ c.reg = false) ∧
    s'.owner = false ∧ runOdfa s'.ownerTrace = some 2 := by
  intro s s'
  have ht : s.transport = false := by
    show ((Conn.fresh b w cfgs pf).runEvs (evs ++ [.lose reset])).transport = false
    simp only [Conn.runEvs, List.foldl_append, List.foldl_cons, List.foldl_nil, Conn.stepEv, connectionLost]
    split
    · simp [forceClose, *]
    · rename_i h; simpa using h
  have hq : Quiesced s' := cleanup_terminates s ht
  have hs' : s' = (Conn.fresh b w cfgs pf).runEvs (evs ++ [.lose reset] ++ List.replicate (Phi s) .run) := by
    show runN (Phi s) s = _
    rw [runN_eq_runEvs]
    show (Conn.runEvs ((Conn.fresh b w cfgs pf).runEvs (evs ++ [.lose reset])) (List.replicate (Phi s) .run)) = _
    simp only [Conn.runEvs, List.foldl_append]
  have h1 := waiters_resolved b w cfgs pf (evs ++ [.lose reset] ++ List.replicate (Phi s) .run)
  have h2 := every_session_closed b w cfgs pf (evs ++ [.lose reset] ++ List.replicate (Phi s) .run)
  have h3 := no_orphan_channel b w cfgs pf (evs ++ [.lose reset] ++ List.replicate (Phi s) .run)
  simp only at h1 h2 h3
  rw [← hs'] at h1 h2 h3
  obtain ⟨a1, a2, a3, _, a5, _, a7⟩ := h1 hq
  obtain ⟨b1, b2, b3⟩ := h2 hq
  refine ⟨hq, a1, a2, a3, a5, ?_, b1, b2⟩
  intro c hc
  obtain ⟨c1, c2, _, c4, _, c6⟩ := a7 c hc
  exact ⟨c1, c2, c4, c6, (b3 c hc).1, h3 a1 c hc⟩

/-- the client asks for a session and the transport is lost before the server answered -/
def cutDuringOpen : Conn :=
  (Conn.fresh true 4 [] []).runEvs [.op (.open_ {}), .run, .op (.waitClosed 0), .op .connWaitClosed, .lose false,
    .run, .run, .run]

/-- non-vacuity of the connection-level theorems: in that run the loop is drained, `create_session` failed with
    ChannelOpenError 'SSH connection closed', the owner saw `made, lost(ConnectionLost)`, `wait_closed()` on the
    connection returned, nothing is registered -/
theorem waiters_resolved_example :
    cutDuringOpen.transport = false ∧ cutDuringOpen.ready = [] ∧
    cutDuringOpen.chans.map (·.outcome) = [.openErr 2] ∧ cutDuringOpen.chans.map (·.reg) = [false] ∧
    cutDuringOpen.ownerTrace = [.made, .lost .connLost] ∧ cutDuringOpen.wcDone = 1 ∧ cutDuringOpen.wcPending = 0 := by
  decide +kernel

/-- a server endpoint: open request, session made, then the peer's DISCONNECT arrives in the same burst as data -/
def serverDisconnected : Conn :=
  (Conn.fresh false 4 [{}] []).runEvs [.recv (.open_ 0 4), .run, .recv (.chan 0 (.req .exec true)),
    .recv (.chan 0 .data), .recv (.disconnect .clean), .run, .run]

theorem every_session_closed_example :
    serverDisconnected.ready = [] ∧
    serverDisconnected.chans.map (·.trace) = [[.made, .sessReq .exec, .started, .data, .lost .clean]] ∧
    serverDisconnected.ownerTrace = [.made, .sessionRequested, .lost .clean] := by
  decide +kernel

/-- a server session that has not started reading yet: the peer's data, EOF and CLOSE all arrive before the
    application resumes reading (`_recv_eof_pending` path of `_process_close` / `_flush_recv_buf`) -/
def closeOvertakesEof : Conn :=
  (Conn.fresh false 4 [{}] []).runEvs [.recv (.open_ 0 4), .run, .recv (.chan 0 .data), .recv (.chan 0 .eof),
    .recv (.chan 0 .close), .op (.chanOp 0 .resume), .run]

/-- non-vacuity for that path: the session sees the buffered data, then `eof_received` once, then `connection_lost` -/
theorem eof_before_lost_example :
    closeOvertakesEof.chans.map (·.trace) = [[.made, .data, .eof, .lost .clean]] ∧
    closeOvertakesEof.chans.map (·.reg) = [false] ∧ closeOvertakesEof.ready = [] := by
  decide +kernel

/-! ### the close handshake of one channel, both ends (`Model/LifecycleHandshake.lean`)

  Two channel objects joined by FIFO links; events: either application calls `write` / `write_eof` / `close` /
  `abort` / `pause_reading` / `resume_reading` / `exit` at any time, a packet is delivered, a scheduled `_cleanup`
  runs.  `HS.init w` is an established channel with windows `w`. -/

/-- **close_handshake_terminates (progress).**  In every state, every delivery of a packet and every run of a
    scheduled `_cleanup` strictly decreases the measure `HS.mu` (weights: DATA 2, other packets 1, a scheduled
    cleanup 1, buffered bytes 3 / 1, plus what the state variables may still cause to be sent). -/
theorem close_handshake_step_decreases (h : HS) (ev : HEv) (hna : ev.isApp = false) (hen : h.enabled ev = true) :
    (h.step ev).mu < h.mu := mu_decreases h ev hna hen

/-- **close_handshake_terminates (bound).**  From ANY state reached by ANY interleaving `pre` of application calls,
    deliveries and cleanups, at most `mu` further deliveries / cleanups can happen, whatever their order: the
    handshake cannot ping-pong.  `mu ≤ 3·(buffered to send) + (buffered to deliver) + 2·(packets in flight) +
    (scheduled cleanups) + 6`. -/
theorem close_handshake_bound (w : Nat) (pre evs : List HEv) (hna : ∀ ev ∈ evs, ev.isApp = false) :
    ((HS.init w).run pre).effective evs ≤ ((HS.init w).run pre).mu :=
  effective_le_mu evs _ hna

theorem close_handshake_mu_le (h : HS) :
    h.mu ≤ 3 * (h.a.sendBuf + h.b.sendBuf) + (h.a.recvBuf + h.b.recvBuf) + 2 * (h.ab.length + h.ba.length) +
      h.ca + h.cb + 6 := by
  have hw : ∀ l : List CMsg, wMsgs l ≤ 2 * l.length := by
    intro l
    induction l with
    | nil => simp [wMsgs]
    | cons m rest ih =>
      have : wMsg m ≤ 2 := by cases m <;> simp [wMsg]; split <;> omega
      simp only [wMsgs, List.map_cons, List.sum_cons, List.length_cons] at ih ⊢
      omega
  have := hw h.ab
  have := hw h.ba
  have := phiS_le h.a.sendSt
  have := phiS_le h.b.sendSt
  have := phiR_le h.a.recvSt
  have := phiR_le h.b.recvSt
  simp only [HS.mu, pot]
  omega

/-- the bound, concretely: an established quiet channel on which one side calls `close()` needs at most 5 more
    steps (CLOSE delivered, CLOSE reply delivered, two cleanups — 4 happen), for every window size -/
theorem close_handshake_bound_example (w : Nat) : ((HS.init w).step (.app true .close)).mu = 5 := by
  simp [HS.init, HS.step, HS.enabled, HS.put, appOp, close, flushSendBuf, flushSendTail, closeSendEof, pauseResumeWriting, closeSend,
    discardRecv, R.andThen, R.ok, R.pre, sendPkt, sentMsgs, schedCount, HS.mu, pot, phiS, phiR, wMsgs, wMsg]

/-- **close_handshake_terminates (terminal state).**  After ANY interleaving of application calls, deliveries and
    cleanups: if nothing is in flight or scheduled any more, **at least one side has SENT its CLOSE**
    (`a.sendSt = closed ∨ b.sendSt = closed` — a hypothesis, not a consequence of `close()` having been called: a
    `close()` whose data is still waiting for window leaves `close_pending`; that case is
    `close_handshake_no_mutual_deadlock` below), and neither side sits on undelivered data (a reader that paused and
    never resumes is the application's business), then BOTH ends are `closed`/`closed`, both `_cleanup`s have
    run: sessions told, channels unregistered, `_close_event`s set. -/
theorem close_handshake_quiescent_closed (w : Nat) (evs : List HEv) :
    let h := (HS.init w).run evs
    h.quiescent → (h.a.sendSt = .closed ∨ h.b.sendSt = .closed) → h.a.recvBuf = 0 → h.b.recvBuf = 0 →
    h.a.sendSt = .closed ∧ h.a.recvSt = .closed ∧ h.b.sendSt = .closed ∧ h.b.recvSt = .closed ∧
    cleaned h.a ∧ cleaned h.b := by
  intro h ⟨q1, q2, q3, q4⟩ hreq hra hrb
  have hi : HInv h := hinv_run evs _ (hinv_init w)
  -- once one side's CLOSE is out and delivered, the other side's follows
  have step1 : ∀ (x y : Chan) (l : List CMsg), l = [] → x.sendSt = .closed →
      (x.sendSt = .closed → CMsg.close ∈ l ∨ y.recvSt = .closePending ∨ y.recvSt = .closed) →
      D3 y → y.recvBuf = 0 → LInv y → y.recvSt = .closed ∧ y.sendSt = .closed := by
    intro x y l hl hx hd hd3 hb hly
    have hr : y.recvSt = .closed := by
      rcases hd hx with z | z | z
      · rw [hl] at z; cases z
      · have := hd3 z; omega
      · exact z
    exact ⟨hr, hly.d2 (Or.inr hr)⟩
  have both : (h.b.recvSt = .closed ∧ h.b.sendSt = .closed) ∧ (h.a.recvSt = .closed ∧ h.a.sendSt = .closed) := by
    rcases hreq with ha | hb
    · have s1 := step1 h.a h.b h.ab q1 ha hi.d1ab hi.db hrb hi.lb
      exact ⟨s1, step1 h.b h.a h.ba q2 s1.2 hi.d1ba hi.da hra hi.la⟩
    · have s1 := step1 h.b h.a h.ba q2 hb hi.d1ba hi.da hra hi.la
      exact ⟨step1 h.a h.b h.ab q1 s1.2 hi.d1ab hi.db hrb hi.lb, s1⟩
  obtain ⟨⟨b1, b2⟩, ⟨a1, a2⟩⟩ := both
  refine ⟨a2, a1, b2, b1, ?_, ?_⟩
  · rcases hi.d5a a1 with z | z
    · rw [q3] at z; cases z
    · exact z
  · rcases hi.d5b b1 with z | z
    · rw [q4] at z; cases z
    · exact z

/-- `close()` on one side of an established channel, then the four steps it causes -/
def closeRun : HS :=
  (HS.init 4).run [.app true .close, .deliver true, .deliver false, .cleanup false, .cleanup true]

/-- non-vacuity: that run ends quiescent, closed/closed, each session having seen `made, lost(None)` -/
theorem close_handshake_example :
    closeRun.ab = [] ∧ closeRun.ba = [] ∧ closeRun.ca = 0 ∧ closeRun.cb = 0 ∧ closeRun.a.sendSt = .closed ∧
    closeRun.b.recvSt = .closed ∧ closeRun.a.trace = [.made, .lost .clean] ∧
    closeRun.b.trace = [.made, .lost .clean] ∧ closeRun.err = false := by
  decide +kernel

/-! ### one channel closed in both directions while the connection stays up, whatever phase it was in -/

/-- everything `_cleanup` owes for one channel: session told and released, channel unregistered, `_close_event` set,
    no open / request waiter left, nobody blocked in `wait_closed()`, and if `create()` is still suspended the value
    that wakes it has been set -/
def CleanedUp (c : Chan) : Prop :=
  cleaned c ∧ c.openWaiter = false ∧ c.reqWaiter = false ∧ c.wcPending = 0 ∧
  (runDfa c.trace = some 0 ∨ runDfa c.trace = some 2) ∧ (c.stage ≠ .done → c.wakeVal.isSome = true)

/-- **closed_channel_cleaned_any_phase (per channel, connection up).**  Start from ANY pair of channel objects
    whose two directions are open and which satisfy the structural invariant `CInv` — established, or still in the
    start-up phase: `_recv_paused = 'starting'`, `create()` suspended on an unanswered pty / exec / shell / subsystem
    request (`reqWaiter`, `stage`), a server channel on which no session has been started.  Let the two
    applications and the network do anything (`evs`: write, EOF, close, abort, pause, resume, exit, write-buffer limits
    and drain on either side, deliveries, scheduled `_cleanup`s).  Once the queues have drained, if a CLOSE has been
    SENT by either side (`sendSt = closed`: an explicit hypothesis — `close()` with data still waiting for window
    leaves `close_pending`, see `mutual_close_deadlock_witness` for what that meant before the repair) and no
    side sits on undelivered data, then both ends are `closed`/`closed` and for BOTH channel objects `_cleanup` has
    done all it owes: the session got its final `connection_lost` and is released, the channel is unregistered,
    `_close_event` is set, no open / request waiter is left, nobody is blocked in `wait_closed()`, and a `create()`
    that was suspended has the value that wakes it.  The phase plays no role: in particular a CLOSE that arrives
    while the channel is still `'starting'` schedules `_cleanup` like any other (`flushClosePart` does not look at
    `paused`).  The hypothesis `recvBuf = 0` is needed: see `startup_data_then_close_hang_witness`. -/
theorem closed_channel_cleaned_any_phase (a b : Chan) (h0 : BothOpen a b) (evs : List HEv) :
    let h := (HS.ofPair a b).run evs
    h.quiescent → (h.a.sendSt = .closed ∨ h.b.sendSt = .closed) → h.a.recvBuf = 0 → h.b.recvBuf = 0 →
    h.a.sendSt = .closed ∧ h.a.recvSt = .closed ∧ h.b.sendSt = .closed ∧ h.b.recvSt = .closed ∧
    CleanedUp h.a ∧ CleanedUp h.b := by
  intro h ⟨q1, q2, q3, q4⟩ hreq hra hrb
  have hi : HInv h := hinv_run evs _ (hinv_ofPair a b h0)
  have hc : CInv h.a ∧ CInv h.b := cinv_run evs _ h0.aI h0.bI
  have step1 : ∀ (x y : Chan) (l : List CMsg), l = [] → x.sendSt = .closed →
      (x.sendSt = .closed → CMsg.close ∈ l ∨ y.recvSt = .closePending ∨ y.recvSt = .closed) →
      D3 y → y.recvBuf = 0 → LInv y → y.recvSt = .closed ∧ y.sendSt = .closed := by
    intro x y l hl hx hd hd3 hb hly
    have hr : y.recvSt = .closed := by
      rcases hd hx with z | z | z
      · rw [hl] at z; cases z
      · have := hd3 z; omega
      · exact z
    exact ⟨hr, hly.d2 (Or.inr hr)⟩
  have both : (h.b.recvSt = .closed ∧ h.b.sendSt = .closed) ∧ (h.a.recvSt = .closed ∧ h.a.sendSt = .closed) := by
    rcases hreq with ha | hb
    · have s1 := step1 h.a h.b h.ab q1 ha hi.d1ab hi.db hrb hi.lb
      exact ⟨s1, step1 h.b h.a h.ba q2 s1.2 hi.d1ba hi.da hra hi.la⟩
    · have s1 := step1 h.b h.a h.ba q2 hb hi.d1ba hi.da hra hi.la
      exact ⟨step1 h.a h.b h.ab q1 s1.2 hi.d1ab hi.db hrb hi.lb, s1⟩
  obtain ⟨⟨b1, b2⟩, ⟨a1, a2⟩⟩ := both
  have fin : ∀ c : Chan, CInv c → cleaned c → CleanedUp c := by
    intro c ci cl
    obtain ⟨s, r, ce⟩ := cl
    refine ⟨⟨s, r, ce⟩, ?_, ?_, ci.wc ce, ci.trF s, ?_⟩
    · cases ho : c.openWaiter with
      | false => rfl
      | true => have := (ci.ow ho).1; rw [r] at this; cases this
    · cases hr : c.reqWaiter with
      | false => rfl
      | true => have := (ci.rw hr).1; rw [r] at this; cases this
    · intro hs
      rcases ci.live hs with z | z | z
      · have := (ci.ow z).1; rw [r] at this; cases this
      · have := (ci.rw z).1; rw [r] at this; cases this
      · exact z
  refine ⟨a2, a1, b2, b1, fin _ hc.1 ?_, fin _ hc.2 ?_⟩
  · rcases hi.d5a a1 with z | z
    · rw [q3] at z; cases z
    · exact z
  · rcases hi.d5b b1 with z | z
    · rw [q4] at z; cases z
    · exact z

/-- a client channel whose `create()` is suspended on its exec request (still `'starting'`), and the server's
    channel on which no session has been started yet -/
def startingPair : Chan × Chan :=
  ({ server := false, sendSt := .opn, recvSt := .opn, sendChan := some 0, sendWin := 4, recvWin := 4, initWin := 4,
     paused := .starting, session := true, trace := [.made], reqWaiter := true, stage := .waitReq },
   { server := true, sendSt := .opn, recvSt := .opn, sendChan := some 0, sendWin := 4, recvWin := 4, initWin := 4,
     paused := .starting, session := true, trace := [.made], fo := .finished })

theorem startingPair_bothOpen : BothOpen startingPair.1 startingPair.2 := by
  refine ⟨rfl, rfl, rfl, ?_, rfl, rfl, rfl, ?_, rfl, rfl⟩ <;> (constructor <;> decide)

/-- the server closes the channel without answering the request (what `chan.close()` inside `exec_requested` does) -/
def closeInStartup : HS :=
  (HS.ofPair startingPair.1 startingPair.2).run
    [.app false .close, .deliver false, .deliver true, .cleanup true, .cleanup false]

/-- non-vacuity, start-up phase: the client's outstanding request is completed with `False` (so `create()` raises
    `ChannelOpenError`), both sessions get `made, lost(None)`, both channels are unregistered -/
theorem close_in_startup_example :
    closeInStartup.ab = [] ∧ closeInStartup.ba = [] ∧ closeInStartup.ca = 0 ∧ closeInStartup.cb = 0 ∧
    closeInStartup.a.reqWaiter = false ∧ closeInStartup.a.wakeVal = some (.reqVal false) ∧
    closeInStartup.a.reg = false ∧ closeInStartup.a.trace = [.made, .lost .clean] ∧
    closeInStartup.b.reg = false ∧ closeInStartup.b.trace = [.made, .lost .clean] ∧ closeInStartup.err = false := by
  decide +kernel

/-- the same with one byte written first -/
def dataThenCloseInStartup : HS :=
  (HS.ofPair startingPair.1 startingPair.2).run
    [.app false .write, .app false .close, .deliver false, .deliver false, .deliver true, .cleanup false]

/-- **the hypothesis `recvBuf = 0` cannot be dropped (defect D2 in asyncssh, present in the code and therefore in
    the model).**  Data buffered while the channel is `'starting'` is only handed over once start-up completes; the
    peer's CLOSE then leaves `close_pending` with a non-empty buffer, no `_cleanup` is scheduled, and since the
    unanswered request can never be answered after a CLOSE, start-up never completes: everything is drained, both
    CLOSEs have been exchanged, the server side is cleaned up — and the client's request waiter (hence
    `create_session()`) is still pending, its session has not been told, the channel is still registered. -/
theorem startup_data_then_close_hang_witness :
    dataThenCloseInStartup.ab = [] ∧ dataThenCloseInStartup.ba = [] ∧ dataThenCloseInStartup.ca = 0 ∧
    dataThenCloseInStartup.cb = 0 ∧ dataThenCloseInStartup.err = false ∧
    dataThenCloseInStartup.a.sendSt = .closed ∧ dataThenCloseInStartup.a.recvSt = .closePending ∧
    dataThenCloseInStartup.a.recvBuf = 1 ∧ dataThenCloseInStartup.a.paused = .starting ∧
    dataThenCloseInStartup.a.reqWaiter = true ∧ dataThenCloseInStartup.a.reg = true ∧
    dataThenCloseInStartup.a.session = true ∧ dataThenCloseInStartup.b.reg = false ∧
    dataThenCloseInStartup.b.trace = [.made, .lost .clean] := by
  decide +kernel

/-! ### flow control at the end of a channel's life (audit findings 1 and 3) -/

/-- the model describes the code that exists: `_process_close` looks at the water marks again after `_close_send()`
    (regenerated from asyncssh/channel.py on every run; false for a tree without the repair) -/
theorem peer_close_resumes_writer_in_code : Gen.C09.closeResumesWriting = true := by decide

/-- the model describes the code that exists: data dropped after the local close (`_accept_data`) and undelivered
    data thrown away by `close()` / `abort()` (`_discard_recv`) are credited with a WINDOW_ADJUST -/
theorem dropped_data_credited_in_code :
    Gen.C09.dropCreditsWindow = true ∧ Gen.C09.discardCreditsWindow = true := by decide

/-- **waiters_resolved (drain; one call).**  Whenever the peer's CLOSE is processed by a channel object whose
    session is attached — whatever else its state: reading paused with ANY amount of undelivered data (so that
    `_cleanup`, and with it `connection_lost`, has to wait for the application to read), any amount of unsent data,
    any water marks — afterwards the session is not paused for writing and NOBODY is blocked in `drain()`: everyone
    who was has been released (`drainDone` grew by `drainPending`). -/
theorem peer_close_releases_writer (c : Chan) (hs : c.session = true) (hl : recvLive c.recvSt = true)
    (hd : c.sendPaused = false → c.drainPending = 0) :
    (processClose c).c.sendPaused = false ∧ (processClose c).c.drainPending = 0 ∧
    (processClose c).c.drainDone = c.drainDone + c.drainPending := by
  obtain ⟨e0, e1, e2, e3, e4, e5⟩ := closeSendResume_writer c hs hd
  unfold processClose
  rw [if_neg (by simp [hl])]
  generalize (closeSend c).andThen pauseResumeWriting = r at e0 e1 e2 e3 e4 e5
  rw [(andThen_of_noerr _ _ e0).1]
  obtain ⟨k1, k2, k3, _, _⟩ := flushRecvBuf_wkeep
    { r.c with recvEofPending := decide (r.c.recvSt = .eofPending), recvSt := .closePending } e4
  refine ⟨k1.trans e1, k2.trans e2, ?_⟩
  rw [k3]
  show r.c.drainDone = _
  omega

/-- **waiters_resolved (drain; every interleaving, connection up).**  After ANY interleaving of application calls
    (write, EOF, close, abort, pause / resume reading, exit, `set_write_buffer_limits`, `drain()`), deliveries and
    cleanups on an established channel: an endpoint that has processed its peer's CLOSE (`_recv_state` is
    `close_pending` — possibly for ever, while the application does not read — or `closed`) is not paused for
    writing and has nobody blocked in `drain()`. -/
theorem writer_released_once_peer_closed (w : Nat) (evs : List HEv) :
    let h := (HS.init w).run evs
    ((h.a.recvSt = .closePending ∨ h.a.recvSt = .closed) → h.a.sendPaused = false ∧ h.a.drainPending = 0) ∧
    ((h.b.recvSt = .closePending ∨ h.b.recvSt = .closed) → h.b.sendPaused = false ∧ h.b.drainPending = 0) := by
  intro h
  obtain ⟨ia, ib⟩ := wi_init w
  obtain ⟨ha, hb⟩ := wi_run evs _ (hinv_init w) ia ib
  exact ⟨fun x => ⟨ha.w2 x, ha.w1 (ha.w2 x)⟩, fun x => ⟨hb.w2 x, hb.w1 (hb.w2 x)⟩⟩

/-- side `a` (window 2, write-buffer limits 1/0) pauses reading, receives one byte it does not read, writes five
    bytes (two fit the window, three stay buffered: `pause_writing`), waits in `drain()`; side `b` closes -/
def drainBehindPeerClose : List HEv :=
  [.app true (.limits 1 0), .app true .pause, .app false .pause, .app false .write, .deliver false,
   .app true .write, .app true .write, .app true .write, .app true .write, .app true .write, .app true .drain,
   .deliver true, .deliver true, .app false .close, .deliver false, .deliver true, .cleanup false]

/-- non-vacuity: in that run `a` is left with `close_pending` and one undelivered byte, no `_cleanup` scheduled — and
    its writer has been resumed and released -/
theorem drain_behind_peer_close_example :
    let h := (HS.init 2).run drainBehindPeerClose
    h.ab = [] ∧ h.ba = [] ∧ h.ca = 0 ∧ h.cb = 0 ∧ h.err = false ∧ h.a.recvSt = .closePending ∧ h.a.recvBuf = 1 ∧
    h.a.sendPaused = false ∧ h.a.drainPending = 0 ∧ h.a.drainDone = 1 ∧
    h.a.trace = [.made, .pauseW, .resumeW] := by
  decide +kernel

/-- **before the repair (`processClosePreFix`) the same history left the writer blocked for ever**: everything is
    drained, `a` has sent its CLOSE and discarded its unsent data, `connection_lost` cannot come before the
    application reads — which it does not, it waits in `drain()`.  (Replayed on the real code by the oracle:
    signatures `drain-never-completes:peer-closed-with-unread-data`, `drain-never-completes:peer-closed:*`.) -/
theorem drain_behind_peer_close_hang_witness :
    let h := (HS.init 2).runPreFix drainBehindPeerClose
    h.ab = [] ∧ h.ba = [] ∧ h.ca = 0 ∧ h.cb = 0 ∧ h.err = false ∧ h.a.sendSt = .closed ∧ h.a.sendBuf = 0 ∧
    h.a.recvSt = .closePending ∧ h.a.recvBuf = 1 ∧ h.a.sendPaused = true ∧ h.a.drainPending = 1 ∧
    h.a.trace = [.made, .pauseW] := by
  decide +kernel

/-- **close_handshake_terminates without "a CLOSE has been sent" (no mutual-close deadlock).**  For every window
    `w ≥ 1` and after ANY interleaving of application calls, deliveries and cleanups on an established channel during
    which no protocol error was raised: if nothing is in flight or scheduled any more, at least one application has
    CALLED `close()` / `abort()` (a send state `close_pending` or `closed` — the CLOSE itself need not have got out)
    and neither side sits on undelivered data, then BOTH ends are `closed`/`closed` and both `_cleanup`s have run.
    In particular a `close()` can not stay `close_pending` for ever: by the window ledger (`FInv`: sender's window +
    DATA in flight + undelivered data + credit in flight = receiver's window, kept exact because data dropped after the
    local close and data discarded by `close()` are credited) unsent data at rest means the peer holds undelivered
    data, which is excluded, or has sent its CLOSE, which discards the unsent data.  Before the repair this was false:
    `mutual_close_deadlock_witness`. -/
theorem close_handshake_no_mutual_deadlock (w : Nat) (hw : 1 ≤ w) (evs : List HEv) :
    let h := (HS.init w).run evs
    h.quiescent → h.err = false →
    (h.a.sendSt = .closePending ∨ h.a.sendSt = .closed ∨ h.b.sendSt = .closePending ∨ h.b.sendSt = .closed) →
    h.a.recvBuf = 0 → h.b.recvBuf = 0 →
    h.a.sendSt = .closed ∧ h.a.recvSt = .closed ∧ h.b.sendSt = .closed ∧ h.b.recvSt = .closed ∧
    cleaned h.a ∧ cleaned h.b := by
  intro h hq he hreq hra hrb
  have hf : FInv h := finv_run evs _ (hinv_init w) (finv_init w hw)
  obtain ⟨q1, q2, q3, q4⟩ := hq
  -- a close that is still pending would have to wait on a window the ledger shows to be open
  have stuck : ∀ (x y : Chan), NInv x → NInv y → x.sendSt = .closePending → y.recvBuf = 0 →
      (y.sendSt ≠ .closed → x.sendWin + 0 + y.recvBuf + 0 = y.recvWin) → y.sendSt = .closed := by
    intro x y nx ny hcp hb led
    cases hy : y.sendSt with
    | closed => rfl
    | _ =>
      exfalso
      have := led (by rw [hy]; simp)
      have h5 := nx.n5 hcp
      have h4 := nx.n4
      have h2 := ny.n2.1
      omega
  have lab := hf.lab he
  have lba := hf.lba he
  rw [q1, q2] at lab lba
  simp only [dataCnt, adjSum] at lab lba
  have key : h.a.sendSt = .closed ∨ h.b.sendSt = .closed := by
    rcases hreq with x | x | x | x
    · exact Or.inr (stuck h.a h.b hf.na hf.nb x hrb lab)
    · exact Or.inl x
    · exact Or.inl (stuck h.b h.a hf.nb hf.na x hra lba)
    · exact Or.inr x
  exact close_handshake_quiescent_closed w evs ⟨q1, q2, q3, q4⟩ key hra hrb

/-- both applications write one byte more than the peer's window and close before anything is delivered; then
    everything in flight is delivered -/
def bothClose (w : Nat) : List HEv :=
  let wr (a : Bool) := List.replicate (w + 1) (HEv.app a .write)
  wr true ++ [.app true .close] ++ wr false ++ [.app false .close] ++
    List.replicate (2 * w + 4) (.deliver true) ++ List.replicate (2 * w + 4) (.deliver false) ++
    List.replicate (2 * w + 4) (.deliver true) ++ List.replicate (2 * w + 4) (.deliver false) ++
    [.cleanup true, .cleanup false]

/-- non-vacuity for the mutual close: with the data that arrives after `close()` credited, both CLOSEs get out and
    both ends are cleaned up -/
theorem mutual_close_example :
    let h := (HS.init 4).run (bothClose 4)
    h.ab = [] ∧ h.ba = [] ∧ h.ca = 0 ∧ h.cb = 0 ∧ h.err = false ∧ h.a.sendSt = .closed ∧ h.a.recvSt = .closed ∧
    h.b.sendSt = .closed ∧ h.b.recvSt = .closed ∧ h.a.reg = false ∧ h.b.reg = false ∧
    h.a.trace = [.made, .lost .clean] ∧ h.b.trace = [.made, .lost .clean] := by
  decide +kernel

/-- **before the repair the statement of `close_handshake_quiescent_closed` WITHOUT the hypothesis "a CLOSE has been
    sent" was false** (and `wait_closed()` hung on both ends of the real code): both applications have called
    `close()`, everything is drained, nobody sits on undelivered data — and both ends are stuck in `close_pending`
    with one unsent byte and a send window of zero, neither `_cleanup` has run.  (`acceptDataPreFix` dropped the
    data without giving the window back.  Oracle signatures `both-closed-channel-never-cleaned-up:*`.) -/
theorem mutual_close_deadlock_witness :
    let h := (HS.init 4).runPreFix (bothClose 4)
    h.ab = [] ∧ h.ba = [] ∧ h.ca = 0 ∧ h.cb = 0 ∧ h.err = false ∧ h.a.recvBuf = 0 ∧ h.b.recvBuf = 0 ∧
    h.a.sendSt = .closePending ∧ h.a.sendBuf = 1 ∧ h.a.sendWin = 0 ∧ h.a.closeEvent = false ∧
    h.b.sendSt = .closePending ∧ h.b.sendBuf = 1 ∧ h.b.sendWin = 0 ∧ h.b.closeEvent = false := by
  decide +kernel

/-! ### waiters above the session callbacks (`Model/LifecycleWaiters.lean`) -/

open AsyncsshModel.Lifecycle.Waiters in
/-- **waiters_resolved (read / drain).**  After ANY sequence of stream-session events (data, EOF, pause/resume
    writing, reads and drains being started), `connection_lost(exc)` leaves no reader blocked on either data type
    and no drainer blocked — and it stays that way whatever happens afterwards (`evs'`). -/
theorem stream_waiters_resolved (evs evs' : List SEv) (e : Exc) :
    let s := ((evs ++ [SEv.lost e] ++ evs').foldl StreamSess.step {})
    s.reader0 = none ∧ s.reader1 = none ∧ s.drainers = 0 := by
  intro s
  have hinv : SInv s := sinv_run _
  have hl : s.connectionLost = true := by
    show ((evs ++ [SEv.lost e] ++ evs').foldl StreamSess.step {}).connectionLost = true
    rw [List.foldl_append, List.foldl_append]
    apply lost_mono_run
    simp only [List.foldl_cons, List.foldl_nil, StreamSess.step]
    exact onLost_lost _ e
  have he := (hinv.lost hl).1
  exact ⟨(hinv.eof he).1, (hinv.eof he).2, (hinv.lost hl).2⟩

open AsyncsshModel.Lifecycle.Waiters in
/-- **waiters_resolved (SFTP requests), partial.**  The SFTP client's `recv_packets` task waits for the next
    packet when the channel's `_cleanup(exc)` tells the stream session `connection_lost(exc)`.  If `exc` is `None`,
    an `OSError` or an `asyncssh.Error` (the classes `recv_packets` catches), the request table is emptied and
    every outstanding request is failed. -/
theorem sftp_requests_resolved_partial (st0 : StreamSess) (s : Sftp) (e : Exc) (halive : s.readerAlive = true)
    (hc : e = .clean ∨ caughtBySftp e = true) :
    let s' := (sftpOnChannelLost (atPacketBoundary st0) s e).2
    s'.requests = [] ∧ ∀ i ∈ s.requests, ∃ r, (i, r) ∈ s'.results ∧ r ≠ .pending := by
  intro s'
  have hr := reader_end_on_lost st0 e
  have hs' : s' = (sftpOnChannelLost (atPacketBoundary st0) s e).2 := rfl
  unfold sftpOnChannelLost at hs'
  simp only [halive, Bool.true_eq_false, if_false, hr] at hs'
  rcases hc with hcl | hca
  · subst hcl
    simp only [if_true, readerEndOf, sftpReaderEnd] at hs'
    rw [hs']
    have := sftpCleanup_resolves s .connClosed
    exact ⟨this.1, fun i hi => ⟨_, this.2 i hi, by simp⟩⟩
  · by_cases hne : e = .clean
    · subst hne
      simp only [if_true, readerEndOf, sftpReaderEnd] at hs'
      rw [hs']
      have := sftpCleanup_resolves s .connClosed
      exact ⟨this.1, fun i hi => ⟨_, this.2 i hi, by simp⟩⟩
    simp only [hne, if_false, readerEndOf, hca, if_true, sftpReaderEnd] at hs'
    rw [hs']
    have := sftpCleanup_resolves s (.failed e)
    exact ⟨this.1, fun i hi => ⟨_, this.2 i hi, by simp⟩⟩

open AsyncsshModel.Lifecycle.Waiters in
/-- **waiters_resolved (SFTP requests), full** — holds as soon as `recv_packets` has a catch-all clause
    (`Gen.C09.recvPacketsCatchesAll`, regenerated from the source on every run): then every outstanding request is
    failed whatever the exception class the connection died with. -/
theorem sftp_requests_resolved (hall : Gen.C09.recvPacketsCatchesAll = true) (st0 : StreamSess) (s : Sftp) (e : Exc)
    (halive : s.readerAlive = true) :
    let s' := (sftpOnChannelLost (atPacketBoundary st0) s e).2
    s'.requests = [] ∧ ∀ i ∈ s.requests, ∃ r, (i, r) ∈ s'.results ∧ r ≠ .pending :=
  sftp_requests_resolved_partial st0 s e halive (Or.inr (by simp [caughtBySftp, hall]))

open AsyncsshModel.Lifecycle.Waiters in
/-- **The full statement is false for the code as it is** (no catch-all clause): if the connection died with any
    other exception class — an application callback raised, or an internal error: `exc` is then e.g. a
    `ValueError` — `readexactly` re-raises it, `recv_packets` does not catch it, `_cleanup` never runs: the task is
    gone and every outstanding request stays pending for ever.  (Replayed on the real code by the oracle: signature
    `sftp-request-never-completes:connection-died-of-non-ssh-exception`.) -/
theorem sftp_requests_hang_witness (hnone : Gen.C09.recvPacketsCatchesAll = false) (st0 : StreamSess) (s : Sftp)
    (halive : s.readerAlive = true) :
    let s' := (sftpOnChannelLost (atPacketBoundary st0) s .value).2
    s'.requests = s.requests ∧ s'.results = s.results ∧ s'.readerAlive = false := by
  intro s'
  have hr := reader_end_on_lost st0 .value
  have hs' : s' = (sftpOnChannelLost (atPacketBoundary st0) s .value).2 := rfl
  unfold sftpOnChannelLost at hs'
  simp only [halive, Bool.true_eq_false, if_false, hr] at hs'
  simp [readerEndOf, caughtBySftp, hnone, sftpReaderEnd] at hs'
  rw [hs']
  exact ⟨rfl, rfl, rfl⟩

end AsyncsshModel.C09
