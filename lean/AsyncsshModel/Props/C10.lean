import AsyncsshModel.Lemmas.HostileWire
import AsyncsshModel.Lemmas.HostileBanner
import AsyncsshModel.Lemmas.HostileDer
import AsyncsshModel.Lemmas.HostileLoop
/-
  C10 — Hostile input costs bounded work and fails cleanly.
  Property theorems only (helper lemmas live in Lemmas/Hostile*.lean; the receive-loop measure `mu`,
  `step_measure` and `drain_quiet` are those of Lemmas/Transport.lean).

  CPU time is represented by step counts (handler invocations, getter calls, `der_decode_partial` calls, send-loop
  iterations); output by the number of packets emitted.  Limits and guards are the regenerated definitions of
  Gen/C10.lean.
-/
namespace AsyncsshModel.C10
open AsyncsshModel AsyncsshModel.Hostile

/-! ## the receive loop -/

open Transport in
/-- **recv_terminates_linear** — for EVERY receiver state, cipher shim and chunk: one `data_received` makes at
    most `2·|buffer| + 3` handler calls (each successful call but the last shrinks the measure `mu`), dispatches
    at most that many packets, and ends quiescent (`Quiet`: buffer empty or the handler declines), i.e. the
    `while self._inpbuf and self._recv_handler()` loop cannot spin whatever the bytes are — including every
    32-bit packet length (F12: a length that makes `rem` negative only shortens the buffer). -/
theorem recv_terminates_linear (p : Params) (sh : Shim) (e : Bool) (hbs : 0 < p.bs) (st : RState) (chunk : Bytes) :
    let st1 : RState := { st with buf := st.buf ++ chunk }
    drainSteps p sh e (fuelFor st1) st1 ≤ 2 * (st.buf.length + chunk.length) + 3 ∧
    (feed p sh e st chunk).2.length ≤ 2 * (st.buf.length + chunk.length) + 3 ∧
    Quiet p sh e (feed p sh e st chunk).1 := by
  intro st1
  have h1 := drainSteps_le (p := p) (sh := sh) (e := e) hbs (fuelFor st1) st1
  have h2 := mu_le st1
  have h3 := drain_outputs_le (p := p) (sh := sh) (e := e) (fuelFor st1) st1
  have hlen : st1.buf.length = st.buf.length + chunk.length := by simp [st1]
  refine ⟨by omega, ?_, ?_⟩
  · show (drain p sh e (fuelFor st1) st1).2.length ≤ _
    omega
  · exact drain_quiet hbs _ _ (fuelFor_gt_mu _)

/-- every receive block size the code can select (regenerated table) satisfies the hypothesis above -/
theorem recv_block_sizes_positive : ∀ bs ∈ Gen.C10.recvBlockSizes, 0 < bs := by
  intro bs h; have := recvBlockSizes_pos bs h; omega

/-- **handler-loop abstraction** — any receive handler that consumes at least one byte per successful dispatch
    and emits at most `c` packets per dispatch is invoked at most `|buffer|` times on a buffer and emits at most
    `c·|buffer|` packets: output proportional to input. -/
theorem handler_loop_linear {σ Out : Type} (h : Handler σ Out) (s : σ) (b : Bytes) :
    (h.run s b).2.2.2 ≤ b.length ∧ (h.run s b).2.2.1.length ≤ h.emits * b.length :=
  h.run_linear s b

/-! ## version / banner -/

/-- **banner_bounded** — for EVERY sequence of chunks fed to a client that still awaits the server's version:
    at most `_MAX_BANNER_LINES` non-version lines are skipped, each shorter than `_MAX_BANNER_LINE_LEN`; an
    accepted version line is at most `_MAX_VERSION_LINE_LEN` long; between two `data_received` calls less than
    `_MAX_BANNER_LINE_LEN` bytes stay buffered while the version is awaited (so memory is bounded too). -/
theorem banner_bounded (chunks : List Bytes) :
    let r := feedVersionAll true VState.init chunks
    bannerCount r.2.1 ≤ Gen.C10.maxBannerLines ∧
    (∀ line, VEvent.banner line ∈ r.2.1 → line.length < Gen.C10.maxBannerLineLen) ∧
    (∀ v, VEvent.version v ∈ r.2.1 → v.length ≤ Gen.C10.maxVersionLineLen) ∧
    (r.1.phase = .version → r.1.buf.length < Gen.C10.maxBannerLineLen) := by
  intro r
  have h1 := feedAll_eff true chunks VState.init
  have h2 := feedAll_events_ok true chunks VState.init
  have h3 := feedAll_bufBounded true chunks VState.init (by intro _; simp [VState.init, Gen.C10.maxBannerLineLen])
  refine ⟨?_, ?_, ?_, h3⟩
  · have : eff (feedVersionAll true VState.init chunks).1 ≤ Gen.C10.maxBannerLines := by
      unfold eff; omega
    have h0 : eff VState.init = 0 := by simp [eff, VState.init]
    show bannerCount (feedVersionAll true VState.init chunks).2.1 ≤ _
    omega
  · intro line hl; exact h2 _ hl
  · intro v hv; exact h2 _ hv

/-- the work per chunk in the version phase is linear: at most one handler call per buffered byte -/
theorem banner_steps_linear (isClient : Bool) (st : VState) (chunk : Bytes) :
    (feedVersion isClient st chunk).2.2 ≤ st.buf.length + chunk.length :=
  feed_steps_le isClient st chunk

/-- a server never skips a line: whatever is not a version line closes the connection -/
theorem server_accepts_no_banner (chunks : List Bytes) :
    bannerCount (feedVersionAll false VState.init chunks).2.1 = 0 :=
  feedAll_server_no_banner chunks VState.init

/-- after a close, further input is discarded without any work (connection.py:1439-1441) -/
theorem closed_discards_input (isClient : Bool) (st : VState) (e : VErr) (chunk : Bytes) (h : st.phase = .closed e) :
    feedVersion isClient st chunk = (st, [], 0) :=
  feed_closed isClient st e chunk h

/-- non-vacuity: the line after the `_MAX_BANNER_LINES`-th skipped line closes a client -/
theorem banner_limit_example :
    recvVersion true { buf := [10], bannerLines := Gen.C10.maxBannerLines, phase := .version } =
      ({ buf := [], bannerLines := Gen.C10.maxBannerLines + 1, phase := .closed .tooManyBannerLines }, false,
       [.close .tooManyBannerLines]) := by
  decide +kernel

/-- non-vacuity: a banner line, then a version line -/
theorem banner_then_version_example :
    (recvVersion true { buf := strBytes "hi\nSSH-2.0-x\r\n", bannerLines := 0, phase := .version }).2.2
        = [.banner (strBytes "hi")] ∧
    (recvVersion true { buf := strBytes "SSH-2.0-x\r\n", bannerLines := 1, phase := .version }).2.2
        = [.version (strBytes "SSH-2.0-x")] ∧
    (recvVersion false { buf := strBytes "hi\n", bannerLines := 0, phase := .version }).2.2
        = [.close .unsupportedVersion] := by
  decide +kernel

/-- the username guard of `_process_userauth_request` keeps accepted names below `_MAX_USERNAME_LEN` -/
theorem username_bounded (n : Nat) (h : Gen.C10.usernameTooLong (n : Int) = false) : n < Gen.C10.maxUsernameLen := by
  simp [Gen.C10.usernameTooLong, Gen.C10.maxUsernameLen] at *
  omega

/-! ## field decoders -/

/-- **decode_total** — for EVERY schema (sequence of `SSHPacket` getter calls) and EVERY payload the decode
    either fails with one of the two `PacketDecodeError`s or returns one value per getter together with the
    unread bytes, and `payload = consumed ++ unread`: no getter reads past the end or moves backwards.  The
    number of getter calls is bounded by the schema, not by the payload. -/
theorem decode_total (ts : List FieldTy) (payload : Bytes) :
    (match decodeFields ts payload with
     | .error e => e = .incomplete ∨ e = .trailing
     | .ok (vs, unread) => vs.length = ts.length ∧ ∃ consumed, payload = consumed ++ unread) ∧
    decodeSteps ts payload ≤ ts.length := by
  refine ⟨?_, decodeSteps_le ts payload⟩
  cases h : decodeFields ts payload with
  | error e => cases e <;> simp
  | ok p =>
    obtain ⟨vs, unread⟩ := p
    exact ⟨decodeFields_count ts payload vs unread h, decodeFields_split ts payload vs unread h⟩

/-- **every decode error of a synchronous handler becomes a protocol error** — the dispatch of a handler that
    decodes with getters has exactly two outcomes: the payload decoded (and then `payload = consumed ++ unread`),
    or the connection is closed with `ProtocolError`; nothing else can come out of the decoding. -/
theorem decode_error_closes_cleanly (ts : List FieldTy) (payload : Bytes) :
    (syncDispatch ts payload = .carriesOn ∧ ∃ vs unread consumed, decodeFields ts payload = .ok (vs, unread) ∧
        payload = consumed ++ unread) ∨
    (syncDispatch ts payload = .closeProtocolError ∧ ∃ e, decodeFields ts payload = .error e) := by
  unfold syncDispatch
  cases h : decodeFields ts payload with
  | error e => right; exact ⟨rfl, e, rfl⟩
  | ok p =>
    obtain ⟨vs, unread⟩ := p
    obtain ⟨c, hc⟩ := decodeFields_split ts payload vs unread h
    left; exact ⟨rfl, vs, unread, c, rfl, hc⟩

/-- a string / name-list / mpint length field larger than the bytes that remain is an error (never an
    over-read, never an allocation of the announced size); exact behaviour of `get_string` -/
theorem string_length_checked (b : Bytes) :
    getString b =
      if b.length < 4 then .error .incomplete
      else if b.length - 4 < Wire.beNat (b.take 4) then .error .incomplete
      else .ok ((b.drop 4).take (Wire.beNat (b.take 4)), (b.drop 4).drop (Wire.beNat (b.take 4))) :=
  getString_spec b

/-- non-vacuity at the extremes of a length field: 0, 1 and 2³²−1 -/
theorem string_length_extremes_example :
    (getString [0, 0, 0, 0, 7]).toOption = some ([], [7]) ∧
    (getString [0, 0, 0, 1, 7]).toOption = some ([7], []) ∧
    (match getString [0, 0, 0, 1] with | .error .incomplete => true | _ => false) = true ∧
    (match getString [255, 255, 255, 255, 7, 7, 7] with | .error .incomplete => true | _ => false) = true ∧
    (decodeFields channelOpenSchema
      ([0, 0, 0, 1, 120] ++ [0, 0, 0, 0] ++ [255, 255, 255, 255] ++ [0, 0, 0, 0])).toOption.map (·.2) = some [] := by
  decide +kernel

/-! ## DER -/

open Hostile.Der in
/-- **der_depth** — for EVERY byte string: the recursion depth the decoder reaches is at most `length/2 + 1`,
    the number of `der_decode_partial` calls at most `length + 1`, a successful decode consumed at most the
    input; the model's fuel `length + 1` is always enough; and a recursion limit of `length/2 + 1` levels is
    never exceeded. -/
theorem der_depth (s : Nat) (lim : Nat) (data : Bytes) :
    let o := decodePartial s (data.length + 1) lim data
    2 * o.depth ≤ data.length + 2 ∧ o.calls ≤ data.length + 1 ∧
    (∀ n, o.res = .ok n → n ≤ data.length) ∧ o.res ≠ .error .fuel ∧
    (data.length / 2 + 1 ≤ lim → o.res ≠ .error .recursion) := by
  intro o
  obtain ⟨hd, hc, hok⟩ := (bounds s (data.length + 1) lim data).1
  exact ⟨hd, hc, fun n hn => (hok n hn).1, (no_fuel_error s _ lim data).1 (Nat.le_refl _),
         (no_recursion_error s _ lim data).1⟩

open Hostile.Der in
/-- **F6 (what the real code does with deep nesting)** — CPython stops a recursion of more than about 500
    `der_decode_partial` levels with `RecursionError`, which is not `ASN1DecodeError`.  In the model: for EVERY
    level limit `L ≤ 10000` the `4L+2`-byte (or shorter) input `nest L (NULL)` ends in `.recursion`.  For the
    default interpreter limit that is an input of under 2 kB. -/
theorem der_recursion_witness (s L : Nat) (hL : L ≤ 10000) :
    (decode s L (nest L [5, 0])).res = .error .recursion ∧ (nest L [5, 0]).length ≤ 5 * L + 2 := by
  have hlen := nest_length_le [5, 0] L
  have hlen' : (nest L [5, 0]).length ≤ 5 * L + 2 := by simpa [Nat.add_comm] using hlen
  refine ⟨?_, hlen'⟩
  have hne : (nest L [5, 0]).length ≠ 0 := by
    have := nest_ne_nil [5, 0] (by simp) L
    intro h; exact this (List.length_eq_zero_iff.mp h)
  have hdeep : 2 * L + 1 ≤ (nest L [5, 0]).length + 1 := by
    have : ∀ d, 2 * d + 2 ≤ (nest d [5, 0]).length := by
      intro d
      induction d with
      | zero => simp [nest]
      | succ d ih =>
        have : 1 ≤ (lenOctets (nest d [5, 0]).length).length := by
          unfold lenOctets; repeat' split
          all_goals simp
        simp only [nest, List.length_cons, List.length_append]; omega
    have := this L
    omega
  have h := nest_recursion s [5, 0] (by simp) L ((nest L [5, 0]).length + 1) L (Nat.le_refl _) hdeep (by omega)
  unfold decode
  simp [h]

open Hostile.Der in
/-- non-vacuity: a two-level nest decodes with three levels and fails with two; malformed UTF-8 and a bad BIT
    STRING give the two other escaping exception classes -/
theorem der_examples :
    (decode 0 3 (nest 2 [5, 0])).res.toOption = some 6 ∧ (decode 0 3 (nest 2 [5, 0])).depth = 3 ∧
    (decode 0 2 (nest 2 [5, 0])).res.toOption = none ∧
    (decode 0 9 [0x0c, 1, 0xff]).depth = 1 ∧ (decode 0 9 [0x0c, 1, 0xff]).res.toOption = none ∧
    (decode 0 9 [3, 2, 7, 0xff]).res.toOption = none := by
  decide +kernel

/-! ## numeric extremes -/

/-- **send_loop_progress (partial: needs `1 ≤ max packet size`)** — for EVERY window `≥ 0`, EVERY positive
    maximum packet size (1 and 2³²−1 included) and EVERY send queue, `_flush_send_buf` leaves its loop within
    (bytes queued + queue entries) iterations, and no DATA packet exceeds the peer's maximum.  Holds whether or
    not the tree has the `break` on a non-positive packet size. -/
theorem send_loop_progress_partial (st : SendSt) (hm : 1 ≤ st.maxpkt) (hw : 0 ≤ st.window) :
    (flushLoop (sendMeasure st.bufs) st).2.2 = true ∧
    (flushLoop (sendMeasure st.bufs) st).2.1.length ≤ sendMeasure st.bufs ∧
    ∀ d ∈ (flushLoop (sendMeasure st.bufs) st).2.1, (d.length : Int) ≤ st.maxpkt :=
  flushLoop_terminates _ st hm hw (Nat.le_refl _)

/-- **send_loop_progress, decided for the generated loop (F2)** — either the tree's `_flush_send_buf` leaves the
    loop for every non-positive packet size, and then it terminates within `sendMeasure` iterations for EVERY
    maximum packet size a peer can advertise (0 and the dropbear-adjusted −1 included) and every window `≥ 0`;
    or it has no such exit, and then with a maximum packet size of 0, any positive window and anything to send
    it never reaches its exit: after `n` iterations it has emitted `n` empty DATA packets and is still running,
    for EVERY `n` (the full statement is false of the faithful model: defect F2). -/
theorem send_loop_progress :
    (sendLoopGuarded = true ∧ ∀ st : SendSt, 0 ≤ st.window →
        (flushLoop (sendMeasure st.bufs) st).2.2 = true ∧
        (flushLoop (sendMeasure st.bufs) st).2.1.length ≤ sendMeasure st.bufs) ∨
    (sendLoopGuarded = false ∧ ∀ (buf : Bytes) (rest : List Bytes) (w : Int) (n : Nat), buf ≠ [] → 0 < w →
        (flushLoop n { bufs := buf :: rest, window := w, maxpkt := 0 }).2.1.length = n ∧
        (flushLoop n { bufs := buf :: rest, window := w, maxpkt := 0 }).2.2 = false) := by
  by_cases hs : sendLoopGuarded = true
  · first
      | (left
         have hall : ∀ p : Int, p ≤ 0 → Gen.C10.flushBreaks p = true := by
           intro p hp; simp [Gen.C10.flushBreaks]; omega
         exact ⟨hs, fun st hw => flushLoop_terminates_all hall st hw⟩)
      | exact absurd hs (by decide)
  · first
      | (right
         have hg : Gen.C10.flushBreaks 0 = false := by decide
         exact ⟨by simpa using hs, fun buf rest w n hb hw => flushLoop_zero_spins hg buf rest w hb hw n⟩)
      | exact absurd (by decide : sendLoopGuarded = true) hs

/-- **numeric_extremes, channel open** — decided for the *generated* guards: either both open paths reject
    every advertised size that ends at `≤ 0` (then every accepted channel satisfies the hypothesis of
    `send_loop_progress_partial`), or the tree accepts an advertised maximum packet size that is stored as 0
    (then everything depends on the send loop: see `send_loop_progress`).  Which disjunct holds is printed by the
    driver. -/
theorem numeric_extremes_open :
    (openSafe = true ∧ ∀ (adv : Nat) (dropbear : Bool) (p : Int),
        (openPktsize adv dropbear = .accept p → 1 ≤ p) ∧ (confirmPktsize adv dropbear = .accept p → 1 ≤ p)) ∨
    (openSafe = false ∧ ∃ (adv : Nat) (dropbear : Bool), adv < 4294967296 ∧
        (openPktsize adv dropbear = .accept 0 ∨ confirmPktsize adv dropbear = .accept 0)) := by
  by_cases hs : openSafe = true
  · left; exact ⟨hs, fun adv d p => open_safe_positive hs adv d p⟩
  · -- which case applies is decided by evaluating the generated guards
    first
      | exact absurd (by decide : openSafe = true) hs
      | exact Or.inr ⟨by simpa using hs, 0, false, by decide, Or.inl (by decide)⟩
      | exact Or.inr ⟨by simpa using hs, 0, false, by decide, Or.inr (by decide)⟩
      | exact Or.inr ⟨by simpa using hs, 1, true, by decide, Or.inl (by decide)⟩
      | exact Or.inr ⟨by simpa using hs, 1, true, by decide, Or.inr (by decide)⟩

/-- **numeric_extremes, windows and lengths** — a DATA packet is delivered iff it fits what is left of the
    receive window (window minus what is already buffered for a paused reader), otherwise a clean protocol error;
    window adjustments never wrap; for every value incl. 0, 1, 2³²−1. -/
theorem numeric_extremes_window (datalen window buffered adjust : Nat) :
    (processData datalen window buffered = .protocolError ↔ (window : Int) - buffered < datalen) ∧
    (processData datalen window buffered = .deliver ↔ (datalen : Int) ≤ (window : Int) - buffered) ∧
    windowAdjust window adjust = window + adjust := by
  have h := processData_spec datalen window buffered
  refine ⟨h, ?_, rfl⟩
  constructor
  · intro hd
    by_cases hlt : (window : Int) - buffered < datalen
    · have := h.mpr hlt; rw [hd] at this; cases this
    · omega
  · intro hle
    cases hp : processData datalen window buffered with
    | deliver => rfl
    | protocolError => have := h.mp hp; omega

/-- non-vacuity at the extremes: window and size 0, 1, 2³²−1 -/
theorem numeric_extremes_example :
    (flushLoop 10 { bufs := [[1, 2, 3]], window := 4294967295, maxpkt := 1 }).2.1 = [[1], [2], [3]] ∧
    (flushLoop 10 { bufs := [[1, 2, 3]], window := 1, maxpkt := 4294967295 }).2.1 = [[1]] ∧
    (flushLoop 10 { bufs := [[1, 2, 3]], window := 0, maxpkt := 0 }).2.1 = [] ∧
    processData 0 0 0 = .deliver ∧ processData 1 0 0 = .protocolError ∧
    processData 4294967295 4294967295 0 = .deliver ∧ processData 1 4294967295 4294967295 = .protocolError := by
  decide +kernel

end AsyncsshModel.C10
