import AsyncsshModel.Model.Gate
/-
  C06 — Out-of-phase and injected messages never take effect.
  All theorems quantify over EVERY message number `t : Nat` (not an enumeration) and every flag valuation;
  the handler tables, ranges and role guards are those of the regenerated `Gen.C06`.
-/
namespace AsyncsshModel.C06
open AsyncsshModel.Gate AsyncsshModel.Gen.C06

/-! ### the cascade of the model is the cascade of the code (branch conditions regenerated from the AST) -/

/-- the model's `route` tests are exactly the six `if/elif` conditions of `_recv_packet`, in the same order
    (`route` is the nested `if` over the right-hand sides below, top to bottom) -/
theorem route_matches_code (f : Flags) (t : Nat) :
    cascadeLen = 6 ∧
    (cascade0 t f.strict f.recvEnc f.authComplete ↔ (MSG_KEX_FIRST ≤ t ∧ t ≤ MSG_KEX_LAST)) ∧
    (cascade1 t f.strict f.recvEnc f.authComplete ↔ (f.strict ∧ ¬ f.recvEnc ∧ MSG_IGNORE ≤ t ∧ t ≤ MSG_DEBUG)) ∧
    (cascade2 t f.strict f.recvEnc f.authComplete ↔ (MSG_USERAUTH_FIRST ≤ t ∧ t ≤ MSG_USERAUTH_LAST)) ∧
    (cascade3 t f.strict f.recvEnc f.authComplete ↔ (t > MSG_KEX_LAST ∧ ¬ f.recvEnc)) ∧
    (cascade4 t f.strict f.recvEnc f.authComplete ↔ (t > MSG_USERAUTH_LAST ∧ ¬ f.authComplete)) ∧
    (cascade5 t f.strict f.recvEnc f.authComplete ↔ (MSG_CHANNEL_FIRST ≤ t ∧ t ≤ MSG_CHANNEL_LAST)) := by
  refine ⟨rfl, ?_, ?_, ?_, ?_, ?_, ?_⟩
  · simp only [cascade0, MSG_KEX_FIRST, MSG_KEX_LAST]; omega
  · simp only [cascade1, MSG_IGNORE, MSG_DEBUG]
    constructor <;> (intro h; refine ⟨h.1, h.2.1, ?_, ?_⟩ <;> omega)
  · simp only [cascade2, MSG_USERAUTH_FIRST, MSG_USERAUTH_LAST]; omega
  · simp only [cascade3, MSG_KEX_LAST]
    constructor <;> (intro h; refine ⟨?_, h.2⟩; omega)
  · simp only [cascade4, MSG_USERAUTH_LAST]
    constructor <;> (intro h; refine ⟨?_, h.2⟩; omega)
  · simp only [cascade5, MSG_CHANNEL_FIRST, MSG_CHANNEL_LAST]; omega

/-! ### structure of `effect` -/

theorem handled_target {f : Flags} {t : Nat} {c : Option Nat} {tgt : Target} (h : effect f t c = .handled tgt) :
    route f t c = .dispatch tgt := by
  unfold effect unknownEffect at h
  grind

theorem handled_kex {f : Flags} {t : Nat} {c : Option Nat} (h : effect f t c = .handled .kex) :
    ∃ g, (t, g) ∈ f.kexHandlers ∧ roleOk f.server g = true := by
  unfold effect unknownEffect at h
  have hr := handled_target h
  simp only [hr] at h
  split at h
  · rename_i t' g hf
    have hm := List.mem_of_find?_eq_some hf
    have hp := List.find?_some hf
    simp at hp; subst hp
    exact ⟨g, hm, by grind⟩
  · grind

theorem handled_conn {f : Flags} {t : Nat} {c : Option Nat} (h : effect f t c = .handled .conn) :
    ∃ g, (t, g) ∈ connHandlers ∧ roleOk f.server g = true ∧ connGuard f t = true := by
  unfold effect unknownEffect at h
  have hr := handled_target h
  simp only [hr] at h
  split at h
  · rename_i t' g hf
    have hm := List.mem_of_find?_eq_some hf
    have hp := List.find?_some hf
    simp at hp; subst hp
    exact ⟨g, hm, by grind, by grind⟩
  · grind

theorem handled_auth {f : Flags} {t : Nat} {c : Option Nat} (h : effect f t c = .handled .auth) :
    t ∈ f.authHandlers := by
  unfold effect unknownEffect at h
  have hr := handled_target h
  simp only [hr] at h
  grind

theorem handled_chan {f : Flags} {t n : Nat} {c : Option Nat} (h : effect f t c = .handled (.chan n)) :
    t ∈ channelHandlers := by
  unfold effect unknownEffect at h
  have hr := handled_target h
  simp only [hr] at h
  grind

/-! ### the cascade, by target -/

theorem route_kex {f : Flags} {t : Nat} {c : Option Nat} (h : route f t c = .dispatch .kex) :
    f.kexActive = true ∧ f.ignoreFirstKex = false ∧ MSG_KEX_FIRST ≤ t ∧ t ≤ MSG_KEX_LAST := by
  simp only [route, MSG_KEX_FIRST, MSG_KEX_LAST, MSG_IGNORE, MSG_DEBUG, MSG_USERAUTH_FIRST, MSG_USERAUTH_LAST,
      MSG_CHANNEL_FIRST, MSG_CHANNEL_LAST] at h ⊢
  grind

theorem route_auth {f : Flags} {t : Nat} {c : Option Nat} (h : route f t c = .dispatch .auth) :
    f.authActive = true ∧ MSG_USERAUTH_FIRST ≤ t ∧ t ≤ MSG_USERAUTH_LAST ∧
      ¬ (f.strict = true ∧ f.recvEnc = false ∧ False) := by
  simp only [route, MSG_KEX_FIRST, MSG_KEX_LAST, MSG_IGNORE, MSG_DEBUG, MSG_USERAUTH_FIRST, MSG_USERAUTH_LAST,
      MSG_CHANNEL_FIRST, MSG_CHANNEL_LAST] at h ⊢
  grind

theorem route_chan_some {f : Flags} {t n m : Nat} (h : route f t (some m) = .dispatch (.chan n)) :
    f.recvEnc = true ∧ f.authComplete = true ∧ 93 ≤ t ∧ t ≤ 127 ∧ m = n ∧ n ∈ f.channels := by
  simp only [route, MSG_KEX_FIRST, MSG_KEX_LAST, MSG_IGNORE, MSG_DEBUG, MSG_USERAUTH_FIRST, MSG_USERAUTH_LAST,
      MSG_CHANNEL_FIRST, MSG_CHANNEL_LAST] at h ⊢
  grind (splits := 80)

theorem route_chan {f : Flags} {t n : Nat} {c : Option Nat} (h : route f t c = .dispatch (.chan n)) :
    f.recvEnc = true ∧ f.authComplete = true ∧ MSG_CHANNEL_FIRST ≤ t ∧ t ≤ MSG_CHANNEL_LAST ∧
      c = some n ∧ n ∈ f.channels := by
  cases c with
  | none =>
    simp only [route, MSG_KEX_FIRST, MSG_KEX_LAST, MSG_IGNORE, MSG_DEBUG, MSG_USERAUTH_FIRST, MSG_USERAUTH_LAST,
      MSG_CHANNEL_FIRST, MSG_CHANNEL_LAST] at h ⊢
    grind
  | some m =>
    obtain ⟨h1, h2, h3, h4, h5, h6⟩ := route_chan_some h
    subst h5
    exact ⟨h1, h2, h3, h4, rfl, h6⟩

theorem route_conn {f : Flags} {t : Nat} {c : Option Nat} (h : route f t c = .dispatch .conn) :
    (t < MSG_KEX_FIRST ∨ (MSG_KEX_LAST < t ∧ t < MSG_USERAUTH_FIRST) ∨
        (MSG_USERAUTH_LAST < t ∧ t < MSG_CHANNEL_FIRST) ∨ MSG_CHANNEL_LAST < t) ∧
    (MSG_KEX_LAST < t → f.recvEnc = true) ∧
    (MSG_USERAUTH_LAST < t → f.authComplete = true) ∧
    (f.strict = true → f.recvEnc = false → ¬ (MSG_IGNORE ≤ t ∧ t ≤ MSG_DEBUG)) := by
  simp only [route, MSG_KEX_FIRST, MSG_KEX_LAST, MSG_IGNORE, MSG_DEBUG, MSG_USERAUTH_FIRST, MSG_USERAUTH_LAST,
      MSG_CHANNEL_FIRST, MSG_CHANNEL_LAST] at h ⊢
  grind

/-! ### property theorems -/

/-- **Before the first key exchange completes only the messages that exchange calls for are acted on**:
    with no receive cipher yet, a handler runs only for DISCONNECT, KEXINIT, NEWKEYS (once keys are staged), the
    active key-exchange method's own messages in the role that may receive them, and — only when strict KEX is
    not in force — IGNORE/UNIMPLEMENTED/DEBUG.  (`hwf`: EXT_INFO is only expected right after NEWKEYS, an
    invariant of reachable states, like `hwf2`: an authentication object exists only after the first exchange;
    the correspondence run checks both on every sampled state.) -/
theorem pre_kex_only_kex (f : Flags) (t : Nat) (c : Option Nat) (tgt : Target)
    (hne : f.recvEnc = false) (hwf : f.canRecvExtInfo = true → f.recvEnc = true)
    (hwf2 : f.authActive = true → f.recvEnc = true)
    (h : effect f t c = .handled tgt) :
    (tgt = .kex ∧ f.kexActive = true ∧ MSG_KEX_FIRST ≤ t ∧ t ≤ MSG_KEX_LAST ∧
        ∃ g, (t, g) ∈ f.kexHandlers ∧ roleOk f.server g = true) ∨
    (tgt = .conn ∧ (t = MSG_DISCONNECT ∨ (t = MSG_KEXINIT ∧ f.kexActive = false) ∨
        (t = MSG_NEWKEYS ∧ f.nextRecvReady = true) ∨
        (f.strict = false ∧ (t = MSG_IGNORE ∨ t = MSG_UNIMPLEMENTED ∨ t = MSG_DEBUG)))) := by
  have hr := handled_target h
  cases tgt with
  | kex =>
    left
    obtain ⟨h1, _, h3, h4⟩ := route_kex hr
    exact ⟨rfl, h1, h3, h4, handled_kex h⟩
  | auth =>
    exfalso
    have := hwf2 (route_auth hr).1
    rw [hne] at this; cases this
  | chan n =>
    exfalso
    have := route_chan hr
    grind
  | conn =>
    right
    refine ⟨rfl, ?_⟩
    obtain ⟨g, hm, hrole, hguard⟩ := handled_conn h
    obtain ⟨r1, r2, r3, r4⟩ := route_conn hr
    have hext : f.canRecvExtInfo = false := by
      cases hc : f.canRecvExtInfo with
      | false => rfl
      | true => have := hwf hc; rw [hne] at this; cases this
    simp only [connHandlers, List.mem_cons, Prod.mk.injEq, List.mem_nil_iff, or_false] at hm
    simp only [MSG_KEX_FIRST, MSG_KEX_LAST, MSG_USERAUTH_FIRST, MSG_USERAUTH_LAST, MSG_CHANNEL_FIRST,
      MSG_CHANNEL_LAST, MSG_IGNORE, MSG_DEBUG, MSG_DISCONNECT, MSG_UNIMPLEMENTED, MSG_KEXINIT, MSG_NEWKEYS] at *
    rcases hm with h' | h' | h' | h' | h' | h' | h' | h' | h' | h' | h' | h' | h' | h' | h' | h' | h' | h' | h'
    all_goals (obtain ⟨rfl, rfl⟩ := h')
    all_goals (simp [connGuard, roleOk, MSG_SERVICE_REQUEST, MSG_SERVICE_ACCEPT, MSG_EXT_INFO, MSG_KEXINIT,
      MSG_NEWKEYS, MSG_USERAUTH_REQUEST, MSG_USERAUTH_FAILURE, MSG_USERAUTH_SUCCESS, hne, hext] at hguard hrole r2 r3 r4 ⊢)
    all_goals (try (first | exact hguard | exact hguard.1 | (cases hs : f.strict <;> simp [hs] at r4 ⊢) | omega))

/-- **Before authentication completes only transport and authentication messages are acted on**: no handler
    runs for any message number above 79 (global requests, channel opens, channel messages), whatever the
    other flags. -/
theorem pre_auth_only_transport_and_auth (f : Flags) (t : Nat) (c : Option Nat) (tgt : Target)
    (hna : f.authComplete = false) (h : effect f t c = .handled tgt) : t ≤ MSG_USERAUTH_LAST := by
  have hr := handled_target h
  cases tgt with
  | kex => have := route_kex hr; simp only [MSG_KEX_FIRST, MSG_KEX_LAST, MSG_USERAUTH_LAST] at *; omega
  | auth => have := route_auth hr; simp only [MSG_USERAUTH_FIRST, MSG_USERAUTH_LAST] at *; omega
  | chan n => have := route_chan hr; grind
  | conn =>
    obtain ⟨_, _, r3, _⟩ := route_conn hr
    simp only [MSG_USERAUTH_LAST] at *
    rcases Nat.lt_or_ge 79 t with hlt | hge
    · have := r3 hlt; rw [hna] at this; cases this
    · exact hge

/-- authentication-method messages (60–79) are acted on only while an authentication object exists and
    only if that object handles the number; channel messages only for a registered channel after auth -/
theorem auth_and_channel_messages_need_their_object (f : Flags) (t : Nat) (c : Option Nat) :
    (effect f t c = .handled .auth → f.authActive = true ∧ t ∈ f.authHandlers) ∧
    (∀ n, effect f t c = .handled (.chan n) → f.authComplete = true ∧ n ∈ f.channels ∧ c = some n) ∧
    (effect f t c = .handled .kex → f.kexActive = true) := by
  refine ⟨fun h => ⟨(route_auth (handled_target h)).1, handled_auth h⟩, fun n h => ?_, fun h => (route_kex (handled_target h)).1⟩
  have := route_chan (handled_target h)
  exact ⟨this.2.1, this.2.2.2.2.2, this.2.2.2.2.1⟩

/-- **A message only the other role may send never takes effect**: SERVICE_REQUEST and USERAUTH_REQUEST at a
    client, SERVICE_ACCEPT / USERAUTH_FAILURE / USERAUTH_SUCCESS at a server, and every key-exchange message
    whose handler carries a role guard, end the connection instead of being handled. -/
theorem wrong_role_rejected (f : Flags) (t : Nat) (c : Option Nat) :
    (f.server = false → (t = MSG_SERVICE_REQUEST ∨ t = MSG_USERAUTH_REQUEST) → effect f t c ≠ .handled .conn) ∧
    (f.server = true → (t = MSG_SERVICE_ACCEPT ∨ t = MSG_USERAUTH_FAILURE ∨ t = MSG_USERAUTH_SUCCESS) →
        effect f t c ≠ .handled .conn) ∧
    (∀ g, f.kexHandlers.find? (·.1 = t) = some (t, g) → roleOk f.server g = false →
        effect f t c ≠ .handled .kex) := by
  refine ⟨?_, ?_, ?_⟩
  · intro hs ht h
    obtain ⟨g, hm, hrole, _⟩ := handled_conn h
    simp only [connHandlers, List.mem_cons, Prod.mk.injEq, List.mem_nil_iff, or_false] at hm
    rcases ht with rfl | rfl <;>
      simp [MSG_SERVICE_REQUEST, MSG_USERAUTH_REQUEST] at hm <;> subst hm <;> simp [roleOk, hs] at hrole
  · intro hs ht h
    obtain ⟨g, hm, hrole, hguard⟩ := handled_conn h
    simp only [connHandlers, List.mem_cons, Prod.mk.injEq, List.mem_nil_iff, or_false] at hm
    rcases ht with rfl | rfl | rfl
    · simp [MSG_SERVICE_ACCEPT] at hm; subst hm; simp [roleOk, hs] at hrole
    · simp [connGuard, MSG_SERVICE_REQUEST, MSG_SERVICE_ACCEPT, MSG_EXT_INFO, MSG_KEXINIT, MSG_NEWKEYS,
        MSG_USERAUTH_REQUEST, MSG_USERAUTH_FAILURE, MSG_USERAUTH_SUCCESS, hs] at hguard
    · simp [connGuard, MSG_SERVICE_REQUEST, MSG_SERVICE_ACCEPT, MSG_EXT_INFO, MSG_KEXINIT, MSG_NEWKEYS,
        MSG_USERAUTH_REQUEST, MSG_USERAUTH_FAILURE, MSG_USERAUTH_SUCCESS, hs] at hguard
  · intro g hf hrole h
    have hr := handled_target h
    unfold effect unknownEffect at h
    simp only [hr, hf, hrole] at h
    simp at h

/-- every key-exchange handler class of the regenerated table guards each of its messages by role: what a
    server sends is rejected at a server and vice versa (finite table, checked by evaluation) -/
theorem every_kex_handler_has_a_role_guard :
    ∀ cl ∈ kexClasses, ∀ h ∈ cl.2, h.2 = 1 ∨ h.2 = 2 := by
  decide +kernel

/-- **Strict KEX: IGNORE, DEBUG and UNIMPLEMENTED are fatal during the initial exchange**, and so is every
    message number no handler knows (it is not answered with UNIMPLEMENTED). -/
theorem strict_no_filler (f : Flags) (t : Nat) (c : Option Nat)
    (hs : f.strict = true) (hne : f.recvEnc = false) :
    ((MSG_IGNORE ≤ t ∧ t ≤ MSG_DEBUG) → effect f t c = .error) ∧ effect f t c ≠ .unimplemented := by
  constructor
  · intro ht
    simp only [effect, route, MSG_KEX_FIRST, MSG_KEX_LAST, MSG_IGNORE, MSG_DEBUG, hs, hne] at ht ⊢
    grind
  · unfold effect unknownEffect
    grind

/-- **Strict KEX: the peer's KEXINIT must be its first packet.** -/
theorem strict_first_packet (f : Flags) (c : Option Nat)
    (hs : f.strict = true) (hne : f.recvEnc = false) (hseq : f.recvSeq ≠ 0) :
    effect f MSG_KEXINIT c = .error := by
  simp only [effect, route, connGuard, connHandlers, roleOk, unknownEffect, MSG_KEX_FIRST, MSG_KEX_LAST, MSG_IGNORE,
    MSG_DEBUG, MSG_USERAUTH_FIRST, MSG_USERAUTH_LAST, MSG_CHANNEL_FIRST, MSG_CHANNEL_LAST, MSG_KEXINIT,
    MSG_SERVICE_REQUEST, MSG_SERVICE_ACCEPT, MSG_EXT_INFO, hs, hne]
  simp [hseq]

/-- **Strict KEX: both sequence numbers restart at NEWKEYS**, whatever was counted before — so packets an
    on-path attacker added or removed during the cleartext phase cannot shift the numbering of the encrypted
    phase: for ANY pre-NEWKEYS counts on the two sides, the numbers agree afterwards (Terrapin). -/
theorem strict_seq_reset (sendSeq recvSeq : Nat) :
    seqAfter true MSG_NEWKEYS sendSeq = 0 ∧ seqAfter true MSG_NEWKEYS recvSeq = 0 ∧
    seqAfter true MSG_NEWKEYS sendSeq = seqAfter true MSG_NEWKEYS recvSeq := by
  simp [seqAfter]

/-- without strict KEX the counts carry over: an inserted packet shifts the receiver (why strict KEX exists) -/
theorem nonstrict_seq_carries (recvSeq : Nat) (h : recvSeq + 2 < 4294967296) :
    seqAfter false MSG_NEWKEYS (recvSeq + 1) ≠ seqAfter false MSG_NEWKEYS recvSeq := by
  simp [seqAfter]; omega

/-- **Answered as unimplemented or ignored ⇒ nothing else happens**: in those two outcomes no handler ran, so
    the session state is the state without the message (the model's `effect` returns no new state at all). -/
theorem ignored_means_no_handler (f : Flags) (t : Nat) (c : Option Nat)
    (h : effect f t c = .unimplemented ∨ effect f t c = .ignored) : ∀ tgt, effect f t c ≠ .handled tgt := by
  intro tgt h'
  rcases h with h | h <;> rw [h] at h' <;> cases h'

/-- **A client acts on USERAUTH_SUCCESS only while an authentication object of its own exists** (and never
    before the first key exchange completed).  This is what the code guarantees (`self.is_client() and self._auth`)
    and it is WEAKER than the property's last sentence, "only while a request of its own is outstanding": the
    client's auth object exists from `try_next_auth` on, before its first request is written (see `connGuard` and
    `success_accepted_before_request_is_written`; audit C06 #2, demonstrated on the real client, harmless). -/
theorem success_needs_outstanding_request (f : Flags) (c : Option Nat) (tgt : Target)
    (h : effect f MSG_USERAUTH_SUCCESS c = .handled tgt) :
    tgt = .conn ∧ f.server = false ∧ f.authActive = true ∧ f.recvEnc = true := by
  have hr := handled_target h
  cases tgt with
  | kex => have := route_kex hr; simp [MSG_KEX_FIRST, MSG_KEX_LAST, MSG_USERAUTH_SUCCESS] at this
  | auth => have := route_auth hr; simp [MSG_USERAUTH_FIRST, MSG_USERAUTH_LAST, MSG_USERAUTH_SUCCESS] at this
  | chan n => have := route_chan hr; simp [MSG_CHANNEL_FIRST, MSG_CHANNEL_LAST, MSG_USERAUTH_SUCCESS] at this
  | conn =>
    obtain ⟨g, hm, hrole, hguard⟩ := handled_conn h
    obtain ⟨_, r2, _, _⟩ := route_conn hr
    have henc := r2 (by simp [MSG_KEX_LAST, MSG_USERAUTH_SUCCESS])
    simp only [connGuard, MSG_SERVICE_REQUEST, MSG_SERVICE_ACCEPT, MSG_EXT_INFO, MSG_KEXINIT, MSG_NEWKEYS,
      MSG_USERAUTH_REQUEST, MSG_USERAUTH_FAILURE, MSG_USERAUTH_SUCCESS] at hguard
    simp at hguard
    exact ⟨rfl, hguard.1, hguard.2, henc⟩

/-- the gap between the theorem above and the property's wording, made explicit: nothing in the gate
    distinguishes a client whose auth object has written its request from one whose auth object is still asking
    the application what to send — in both states a USERAUTH_SUCCESS is handled -/
theorem success_accepted_before_request_is_written (f : Flags) (c : Option Nat)
    (hcl : f.server = false) (hauth : f.authActive = true) (henc : f.recvEnc = true) :
    effect f MSG_USERAUTH_SUCCESS c = .handled .conn := by
  simp [effect, route, connGuard, connHandlers, roleOk, MSG_KEX_FIRST, MSG_KEX_LAST, MSG_USERAUTH_SUCCESS,
    MSG_USERAUTH_FIRST, MSG_USERAUTH_LAST, MSG_IGNORE, MSG_DEBUG, MSG_CHANNEL_FIRST, MSG_CHANNEL_LAST,
    MSG_SERVICE_REQUEST, MSG_SERVICE_ACCEPT, MSG_EXT_INFO, MSG_KEXINIT, MSG_NEWKEYS, MSG_USERAUTH_REQUEST,
    MSG_USERAUTH_FAILURE, hcl, hauth, henc]

/-! ### non-vacuity -/

def exampleFlags : Flags :=
  { server := false, kexActive := true, kexHandlers := [(30, 1), (31, 2)], ignoreFirstKex := false,
    recvEnc := false, nextRecvReady := false, strict := true, recvSeq := 1, authActive := false,
    authHandlers := [], authComplete := false, authFinal := false, canRecvExtInfo := false, channels := [] }

/-- a client in the middle of its first (strict) exchange: the ECDH reply is handled, the init it should
    never receive, a channel open, an IGNORE and an unknown number all end the connection -/
theorem gate_example :
    effect exampleFlags 31 none = .handled .kex ∧ effect exampleFlags 30 none = .error ∧
    effect exampleFlags 90 none = .error ∧ effect exampleFlags 2 none = .error ∧
    effect exampleFlags 25 none = .error ∧
    effect { exampleFlags with strict := false } 25 none = .unimplemented := by
  decide +kernel

end AsyncsshModel.C06
