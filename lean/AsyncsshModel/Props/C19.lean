import AsyncsshModel.Lemmas.StreamUntil
import AsyncsshModel.Lemmas.StreamProc
import AsyncsshModel.Model.StreamSrc
import AsyncsshModel.Gen.C19
/-
  C19 — Stream and process APIs deliver what was sent, split as asked.
  Property theorems only (helper lemmas: Lemmas/Stream.lean, Lemmas/StreamUntil.lean, Lemmas/StreamProc.lean).

  Vocabulary (Lemmas/Stream.lean): `Inv s` — a reachable state of reader + channel queue holding data only;
  `Clean s sched` — what a well-behaved peer can still send (data, then at most one EOF); `pend s` — bytes received
  and not yet read (session buffer, then channel queue); `sdata sched` — bytes still to arrive; so
  `pend s ++ sdata sched` is the stream seen from the call, however it is cut into chunks, grouped into wake-ups,
  or split between buffer, queue and wire.  `Post s' sched' rest ec` — after the call: again a reachable
  clean situation whose stream is `rest`.
-/
namespace AsyncsshModel.C19
open AsyncsshModel AsyncsshModel.Stream
set_option linter.unusedSimpArgs false

theorem takeCount_nat (n len : Nat) : takeCount (n : Int) len = min n len := by
  unfold takeCount
  have : ¬ ((n : Int) < 0) := by omega
  simp [this]

/-- **readexactly(n), one call** -/
theorem readexactly_spec (s : St) (sched : Sched) (hs : Inv s) (hc : Clean s sched) (n : Nat) (hn : 0 < n) :
    (n ≤ (pend s ++ sdata sched).length →
      ∃ s' sched', AsyncsshModel.Stream.read true n s sched = (.ok ((pend s ++ sdata sched).take n), s', sched') ∧
        Post s' sched' ((pend s ++ sdata sched).drop n) (eofComing s sched)) ∧
    ((pend s ++ sdata sched).length < n → eofComing s sched = true →
      ∃ s' sched', AsyncsshModel.Stream.read true n s sched = (.incomplete (pend s ++ sdata sched), s', sched') ∧
        Post s' sched' [] true) ∧
    ((pend s ++ sdata sched).length < n → eofComing s sched = false →
      (AsyncsshModel.Stream.read true n s sched).1 = .blocked) := by
  have h := readLoop_det true sched s hs hc [] false n (Or.inl rfl)
  unfold DetSpec at h
  rw [takeCount_nat] at h
  obtain ⟨h1, h2, h3⟩ := h
  unfold AsyncsshModel.Stream.read
  refine ⟨?_, ?_, ?_⟩
  · intro hle
    have : (n : Int) - ((min n (pend s ++ sdata sched).length : Nat) : Int) = 0 := by omega
    obtain ⟨s', sched', e1, e2⟩ := h1 this
    refine ⟨s', sched', ?_, ?_⟩
    · rw [e1, Nat.min_eq_left hle]; simp
    · rw [Nat.min_eq_left hle] at e2; exact e2
  · intro hlt hec
    have : (n : Int) - ((min n (pend s ++ sdata sched).length : Nat) : Int) ≠ 0 := by omega
    obtain ⟨s', sched', e1, e2⟩ := h2 this hec
    refine ⟨s', sched', ?_, e2⟩
    rw [e1]
    have : (0 : Int) < n ∧ true = true := ⟨by omega, rfl⟩
    rw [if_pos this]; simp
  · intro hlt hec
    have : (n : Int) - ((min n (pend s ++ sdata sched).length : Nat) : Int) ≠ 0 := by omega
    exact h3 this hec


/-- Specification of a sequence of `readexactly` calls: a function of the *bytes* that have arrived by the time of
    each call (`avail`, then what arrives while the call waits) and of where the EOF is — not of how the bytes
    were cut into chunks, nor of how the chunks were grouped into wake-ups. -/
def cutRun : List (Nat × Sched) → Bytes → Bool → List Res
  | [], _, _ => []
  | (n, sch) :: rest, avail, eof =>
    if n ≤ (avail ++ sdata sch).length then
      .ok ((avail ++ sdata sch).take n) :: cutRun rest ((avail ++ sdata sch).drop n) (eof || hasEof sch.flatten)
    else if eof || hasEof sch.flatten then .incomplete (avail ++ sdata sch) :: cutRun rest [] true
    else [.blocked]

theorem eofComing_def (s : St) (sched : Sched) : eofComing s sched = (eofPend s || hasEof sched.flatten) := rfl

/-- **Chunk independence of `readexactly`.**  For every stream, every chunking of it, every grouping of the chunks
    into wake-ups and every state of pause/queueing the reader may be in, any sequence of `readexactly n` calls
    returns the stream cut at the cumulative sums of the `n`, with `IncompleteReadError(partial)` once the stream
    ends before `n` bytes (and a call for which neither enough data nor EOF ever arrives does not return). -/
theorem readexactly_chunk_independent (script : List (Nat × Sched)) (s : St) (hs : Inv s)
    (hpos : ∀ p ∈ script, 0 < p.1)
    (hc : CleanFrom (eofPend s) (script.flatMap fun p => p.2.flatten)) :
    runOps (script.map fun p => (Op.exactly p.1, p.2)) s = cutRun script (pend s) (eofPend s) := by
  induction script generalizing s with
  | nil => rfl
  | cons p rest ih =>
    obtain ⟨n, sch⟩ := p
    have hn : 0 < n := hpos (n, sch) (by simp)
    have hc' : CleanFrom (eofPend s) (sch.flatten ++ rest.flatMap fun p => p.2.flatten) := by
      simpa [List.flatMap_cons] using hc
    obtain ⟨c1, c2⟩ := CleanFrom_append hc'
    obtain ⟨r1, r2, r3⟩ := readexactly_spec s sch hs c1 n hn
    have hposr : ∀ p ∈ rest, 0 < p.1 := fun p hp => hpos p (by simp [hp])
    simp only [List.map_cons, runOps, runOp, cutRun]
    by_cases hle : n ≤ (pend s ++ sdata sch).length
    · obtain ⟨s', sched', e1, p1, p2, p3, p4⟩ := r1 hle
      have hcl : CleanFrom (eofPend s') (sched'.flatten ++ rest.flatMap fun p => p.2.flatten) := by
        apply CleanFrom_of_parts p2
        rw [← eofComing_def, p4]; exact c2
      obtain ⟨a1, a2, a3, a4⟩ := absorbAll_clean sched' s' p1 _ hcl
      rw [e1]
      simp only [hle, if_true]
      rw [ih _ a1 hposr a2, a3, p3, a4, p4]
      rfl
    · have hlt : (pend s ++ sdata sch).length < n := by omega
      simp only [hle, if_false]
      cases hec : eofComing s sch with
      | true =>
        obtain ⟨s', sched', e1, p1, p2, p3, p4⟩ := r2 hlt hec
        have hcl : CleanFrom (eofPend s') (sched'.flatten ++ rest.flatMap fun p => p.2.flatten) := by
          apply CleanFrom_of_parts p2
          rw [← eofComing_def, p4, ← hec]; exact c2
        obtain ⟨a1, a2, a3, a4⟩ := absorbAll_clean sched' s' p1 _ hcl
        rw [e1]
        rw [eofComing_def] at hec
        simp only [hec, if_true]
        rw [ih _ a1 hposr a2, a3, p3, a4, p4]
      | false =>
        have hb := r3 hlt hec
        rw [eofComing_def] at hec
        simp only [hec, Bool.false_eq_true, if_false]
        generalize hx : AsyncsshModel.Stream.read true (↑n) s sch = x at hb
        obtain ⟨r, s', l⟩ := x
        simp only at hb
        subst hb
        rfl


/-- Corollary in the words of the property: two deliveries of the same byte stream — different chunkings, different
    wake-up groupings, different reader states (buffered / queued behind a pause) — answer the same sequence of
    `readexactly` calls identically, provided the same bytes have arrived by each call. -/
theorem readexactly_same_bytes_same_results (ns : List Nat) (scheds₁ scheds₂ : List Sched) (s₁ s₂ : St)
    (h₁ : Inv s₁) (h₂ : Inv s₂) (hpos : ∀ n ∈ ns, 0 < n)
    (hl₁ : scheds₁.length = ns.length) (hl₂ : scheds₂.length = ns.length)
    (hc₁ : CleanFrom (eofPend s₁) ((ns.zip scheds₁).flatMap fun p => p.2.flatten))
    (hc₂ : CleanFrom (eofPend s₂) ((ns.zip scheds₂).flatMap fun p => p.2.flatten))
    (hpend : pend s₁ = pend s₂) (heof : eofPend s₁ = eofPend s₂)
    (hbytes : scheds₁.map sdata = scheds₂.map sdata)
    (heofs : scheds₁.map (fun x => hasEof x.flatten) = scheds₂.map (fun x => hasEof x.flatten)) :
    runOps ((ns.zip scheds₁).map fun p => (Op.exactly p.1, p.2)) s₁ =
    runOps ((ns.zip scheds₂).map fun p => (Op.exactly p.1, p.2)) s₂ := by
  have hp₁ : ∀ p ∈ ns.zip scheds₁, 0 < p.1 := fun p hp => hpos p.1 (List.of_mem_zip hp).1
  have hp₂ : ∀ p ∈ ns.zip scheds₂, 0 < p.1 := fun p hp => hpos p.1 (List.of_mem_zip hp).1
  rw [readexactly_chunk_independent _ s₁ h₁ hp₁ hc₁, readexactly_chunk_independent _ s₂ h₂ hp₂ hc₂, hpend, heof]
  -- `cutRun` only looks at the bytes and the EOF flag of each schedule
  clear hc₁ hc₂ hp₁ hp₂ hpend heof h₁ h₂ hpos
  generalize pend s₂ = avail
  generalize eofPend s₂ = eof
  induction ns generalizing scheds₁ scheds₂ avail eof with
  | nil => simp [cutRun]
  | cons n ns ih =>
    cases scheds₁ with
    | nil => simp at hl₁
    | cons a as =>
      cases scheds₂ with
      | nil => simp at hl₂
      | cons b bs =>
        simp only [List.map_cons, List.cons.injEq] at hbytes heofs
        simp only [List.zip_cons_cons, cutRun, hbytes.1, heofs.1]
        rw [ih as bs (by simpa using hl₁) (by simpa using hl₂) hbytes.2 heofs.2,
            ih as bs (by simpa using hl₁) (by simpa using hl₂) hbytes.2 heofs.2]

/-- **read-to-EOF** (`read()` / `read(-1)`): returns everything up to EOF, whatever the chunking; never returns
    before EOF. -/
theorem read_all_to_eof (s : St) (sched : Sched) (hs : Inv s) (hc : Clean s sched) :
    (eofComing s sched = true →
      ∃ s' sched', AsyncsshModel.Stream.read false (-1) s sched = (.ok (pend s ++ sdata sched), s', sched') ∧
        Post s' sched' [] true) ∧
    (eofComing s sched = false → (AsyncsshModel.Stream.read false (-1) s sched).1 = .blocked) := by
  have h := readLoop_det false sched s hs hc [] false (-1) (Or.inr (by omega))
  unfold DetSpec at h
  obtain ⟨_, h2, h3⟩ := h
  have hne : (-1 : Int) - ((takeCount (-1) (pend s ++ sdata sched).length : Nat) : Int) ≠ 0 := by omega
  unfold AsyncsshModel.Stream.read
  refine ⟨?_, h3 hne⟩
  intro hec
  obtain ⟨s', sched', e1, e2⟩ := h2 hne hec
  refine ⟨s', sched', ?_, e2⟩
  rw [e1]
  have : ¬ ((0 : Int) < -1 ∧ false = true) := by simp
  rw [if_neg this]; simp

/-- **read(n)**, `n > 0`: returns a prefix of the stream of at least 1 and at most `n` bytes — empty only when the
    stream is exhausted and EOF has arrived — and leaves exactly the rest; it waits forever only if nothing and
    no EOF ever arrives.  (How long the prefix is depends on what has arrived, as documented: "up to n".) -/
theorem read_n_prefix (s : St) (sched : Sched) (hs : Inv s) (hc : Clean s sched) (n : Nat) (hn : 0 < n) :
    ∃ r s' sched', AsyncsshModel.Stream.read false n s sched = (r, s', sched') ∧
      ((∃ j : Nat, r = .ok ((pend s ++ sdata sched).take j) ∧ j ≤ n ∧ j ≤ (pend s ++ sdata sched).length ∧
          (0 < j ∨ (pend s ++ sdata sched = [] ∧ eofComing s sched = true)) ∧
          Post s' sched' ((pend s ++ sdata sched).drop j) (eofComing s sched))
       ∨ (r = .blocked ∧ pend s ++ sdata sched = [] ∧ eofComing s sched = false)) := by
  obtain ⟨r, s', sched', e, h⟩ := readLoop_some sched s hs hc n (by omega)
  refine ⟨r, s', sched', e, ?_⟩
  rcases h with ⟨j, h1, h2, h3⟩ | h
  · exact Or.inl ⟨j, h1, by omega, h3⟩
  · exact Or.inr h


/-! ### readuntil / readline -/

theorem le_maxLen {seps : List Bytes} {sep : Bytes} (h : sep ∈ seps) : sep.length ≤ maxLen seps := by
  induction seps with
  | nil => simp at h
  | cons a as ih =>
    simp at h
    unfold maxLen
    rcases h with rfl | h
    · omega
    · have := ih h; omega

theorem maxLen_pos {seps : List Bytes} (h0 : seps ≠ []) (hne : ∀ sep ∈ seps, sep ≠ []) : 0 < maxLen seps := by
  cases seps with
  | nil => exact absurd rfl h0
  | cons a as =>
    have : 0 < a.length := List.length_pos_iff.mpr (hne a (by simp))
    unfold maxLen; omega

theorem NoOcc_nil {seps : List Bytes} (hne : ∀ sep ∈ seps, sep ≠ []) : NoOcc seps [] := by
  intro p sep hs ho
  simp at ho
  exact hne sep hs ho

theorem pend_unpaused {s : St} (hs : Inv s) (hp : s.paused = false) : pend s = dataOf s.buf := by
  simp [pend, (hs.unpaused hp).1]

/-- The search window cannot skip a separator that spans a chunk boundary: with everything before the new chunk
    already searched, `pat.search(buf, max(buflen + 1 - seplen, 0))` finds nothing only if the whole text contains no
    separator, and otherwise ends exactly at the shortest prefix ending in a separator. -/
theorem readuntil_window_never_skips (seps : List Bytes) (seplen : Nat) (searched chunk : Bytes)
    (hlen : ∀ sep ∈ seps, sep ≠ [] ∧ sep.length ≤ seplen) (hpos : 0 < seplen)
    (hno : NoOcc seps searched) (hinf : NoEarlyInfix seps) :
    (search seps (searched ++ chunk) (searchStart searched.length seplen) = none → NoOcc seps (searched ++ chunk)) ∧
    (∀ e, search seps (searched ++ chunk) (searchStart searched.length seplen) = some e →
      IsFirstEnd seps (searched ++ chunk) e) :=
  window_sound seps seplen searched chunk hlen hpos hno hinf

/-- the same for the search a separator LIST makes (one pattern per separator, earliest end): no condition on the
    separators is needed -/
theorem readuntil_window_never_skips_list (seps : List Bytes) (seplen : Nat) (searched chunk : Bytes)
    (hlen : ∀ sep ∈ seps, sep ≠ [] ∧ sep.length ≤ seplen) (hpos : 0 < seplen) (hno : NoOcc seps searched) :
    (srch true seps (searched ++ chunk) (searchStart searched.length seplen) = none →
      NoOcc seps (searched ++ chunk)) ∧
    (∀ e, srch true seps (searched ++ chunk) (searchStart searched.length seplen) = some e →
      IsFirstEnd seps (searched ++ chunk) e) :=
  window_sound_srch true seps seplen searched chunk hlen hpos hno (Or.inl rfl)

/-- **readuntil with several separators** — for EVERY list of non-empty separators (also lists in which one
    separator lies inside another: the code takes the match that ends first since the repair of F10), while reading
    is never paused (fewer bytes than the receive window between separators): the result is the shortest prefix of
    the stream that ends in a separator, whatever the chunking and wake-up grouping;
    `IncompleteReadError(everything)` if EOF comes first. -/
theorem readuntil_multi_sep (seps : List Bytes) (h0 : seps ≠ []) (hne : ∀ sep ∈ seps, sep ≠ [])
    (s : St) (sched : Sched) (hs : Inv s) (hc : Clean s sched)
    (hnp : NoPause s (sdata sched).length) :
    (∀ e, IsFirstEnd seps (pend s ++ sdata sched) e →
      ∃ s' sched', readuntil seps s sched = (.ok ((pend s ++ sdata sched).take e), s', sched') ∧
        PostU s' sched' ((pend s ++ sdata sched).drop e) (eofComing s sched)) ∧
    (NoOcc seps (pend s ++ sdata sched) → eofComing s sched = true →
      ∃ s' sched', readuntil seps s sched = (.incomplete (pend s ++ sdata sched), s', sched') ∧
        PostU s' sched' [] true) ∧
    (NoOcc seps (pend s ++ sdata sched) → eofComing s sched = false →
      (readuntil seps s sched).1 = .blocked) := by
  have he : seps.isEmpty = false := by cases seps <;> simp_all
  rw [pend_unpaused hs hnp.1]
  unfold readuntil
  simp only [he, Bool.false_eq_true, if_false]
  exact untilLoop_spec true seps (maxLen seps) (fun sep h => ⟨hne sep h, le_maxLen h⟩) (maxLen_pos h0 hne)
    (Or.inl rfl) sched s hs hc [] 0 (by omega) (by simp [dataOf]) (NoOcc_nil hne) hnp

/-- **the result of readuntil does not depend on how the stream was cut into chunks or grouped into wake-ups**:
    two schedules that carry the same bytes (and both / neither an EOF) give the same result, for every
    separator list. -/
theorem readuntil_multi_sep_chunk_independent (seps : List Bytes) (h0 : seps ≠ []) (hne : ∀ sep ∈ seps, sep ≠ [])
    (s : St) (sched₁ sched₂ : Sched) (hs : Inv s) (hc₁ : Clean s sched₁) (hc₂ : Clean s sched₂)
    (hnp : NoPause s (sdata sched₁).length) (hd : sdata sched₁ = sdata sched₂)
    (he : eofComing s sched₁ = eofComing s sched₂) :
    (readuntil seps s sched₁).1 = (readuntil seps s sched₂).1 := by
  have hnp₂ : NoPause s (sdata sched₂).length := by rw [← hd]; exact hnp
  obtain ⟨a1, a2, a3⟩ := readuntil_multi_sep seps h0 hne s sched₁ hs hc₁ hnp
  obtain ⟨b1, b2, b3⟩ := readuntil_multi_sep seps h0 hne s sched₂ hs hc₂ hnp₂
  rw [← hd, ← he] at b1 b2 b3
  rcases firstEnd_or_noOcc seps (pend s ++ sdata sched₁) with ⟨e, hfe⟩ | hno
  · obtain ⟨_, _, x1, _⟩ := a1 e hfe
    obtain ⟨_, _, y1, _⟩ := b1 e hfe
    rw [x1, y1]
  · cases hec : eofComing s sched₁ with
    | true =>
      obtain ⟨_, _, x1, _⟩ := a2 hno hec
      obtain ⟨_, _, y1, _⟩ := b2 hno hec
      rw [x1, y1]
    | false => rw [a3 hno hec, b3 hno hec]

/-- **readuntil with a regex that is an alternation of literals** (`re.compile(b'sep1|sep2|...')`, the caller
    states `max_separator_len ≥` every separator): the regex reports the leftmost START, so the result is the
    shortest prefix ending in a separator under the hypothesis that no separator occurs inside another one other
    than as its suffix (`NoEarlyInfix`; for other regexes the documentation's own warning applies, see
    `regex_alternation_unrestricted_false`). -/
theorem readuntil_regex_alternation_partial (seps : List Bytes) (m : Nat) (hm : 0 < m)
    (hlen : ∀ sep ∈ seps, sep ≠ [] ∧ sep.length ≤ m)
    (hinf : NoEarlyInfix seps) (s : St) (sched : Sched) (hs : Inv s) (hc : Clean s sched)
    (hnp : NoPause s (sdata sched).length) :
    (∀ e, IsFirstEnd seps (pend s ++ sdata sched) e →
      ∃ s' sched', readuntilPat seps m s sched = (.ok ((pend s ++ sdata sched).take e), s', sched') ∧
        PostU s' sched' ((pend s ++ sdata sched).drop e) (eofComing s sched)) ∧
    (NoOcc seps (pend s ++ sdata sched) → eofComing s sched = true →
      ∃ s' sched', readuntilPat seps m s sched = (.incomplete (pend s ++ sdata sched), s', sched') ∧
        PostU s' sched' [] true) ∧
    (NoOcc seps (pend s ++ sdata sched) → eofComing s sched = false →
      (readuntilPat seps m s sched).1 = .blocked) := by
  rw [pend_unpaused hs hnp.1]
  unfold readuntilPat
  exact untilLoop_spec false seps m hlen hm (Or.inr hinf) sched s hs hc [] 0 (by omega) (by simp [dataOf])
    (NoOcc_nil (fun sep h => (hlen sep h).1)) hnp

theorem NoEarlyInfix_single (sep : Bytes) : NoEarlyInfix [sep] := by
  intro a ha b hb d hd
  simp at ha hb
  subst ha hb
  omega

/-- **readuntil with one separator**: the shortest prefix ending in the separator, independent of chunking — in
    particular a separator spanning a chunk boundary is found. -/
theorem readuntil_single_sep (sep : Bytes) (hne : sep ≠ []) (s : St) (sched : Sched) (hs : Inv s)
    (hc : Clean s sched) (hnp : NoPause s (sdata sched).length) :
    (∀ e, IsFirstEnd [sep] (pend s ++ sdata sched) e →
      ∃ s' sched', readuntilOne sep s sched = (.ok ((pend s ++ sdata sched).take e), s', sched') ∧
        PostU s' sched' ((pend s ++ sdata sched).drop e) (eofComing s sched)) ∧
    (NoOcc [sep] (pend s ++ sdata sched) → eofComing s sched = true →
      ∃ s' sched', readuntilOne sep s sched = (.incomplete (pend s ++ sdata sched), s', sched') ∧
        PostU s' sched' [] true) ∧
    (NoOcc [sep] (pend s ++ sdata sched) → eofComing s sched = false →
      (readuntilOne sep s sched).1 = .blocked) := by
  have he : sep.isEmpty = false := by cases sep <;> simp_all
  have hne' : ∀ x ∈ [sep], x ≠ [] := by intro x hx; simp at hx; subst hx; exact hne
  rw [pend_unpaused hs hnp.1]
  unfold readuntilOne
  simp only [he, Bool.false_eq_true, if_false]
  exact untilLoop_spec false [sep] sep.length (fun x h => by simp at h; subst h; exact ⟨hne, Nat.le_refl _⟩)
    (List.length_pos_iff.mpr hne) (Or.inr (NoEarlyInfix_single sep))
    sched s hs hc [] 0 (by omega) (by simp [dataOf]) (NoOcc_nil hne') hnp

/-- **readline**: one line including its `\n`, or the rest of the stream at EOF (empty at EOF with nothing left) -/
theorem readline_spec (s : St) (sched : Sched) (hs : Inv s) (hc : Clean s sched)
    (hnp : NoPause s (sdata sched).length) :
    (∀ e, IsFirstEnd [[newline]] (pend s ++ sdata sched) e →
      ∃ s' sched', readline s sched = (.ok ((pend s ++ sdata sched).take e), s', sched') ∧
        PostU s' sched' ((pend s ++ sdata sched).drop e) (eofComing s sched)) ∧
    (NoOcc [[newline]] (pend s ++ sdata sched) → eofComing s sched = true →
      ∃ s' sched', readline s sched = (.ok (pend s ++ sdata sched), s', sched') ∧ PostU s' sched' [] true) ∧
    (NoOcc [[newline]] (pend s ++ sdata sched) → eofComing s sched = false → (readline s sched).1 = .blocked) := by
  obtain ⟨h1, h2, h3⟩ := readuntil_single_sep [newline] (by simp) s sched hs hc hnp
  have hu : readuntilOne [newline] s sched = untilLoop false [[newline]] 1 s [] 0 sched := by
    simp [readuntilOne]
  rw [hu] at h1 h2 h3
  unfold readline
  refine ⟨?_, ?_, ?_⟩
  · intro e he
    obtain ⟨s', sched', e1, e2⟩ := h1 e he
    exact ⟨s', sched', by rw [e1], e2⟩
  · intro hno hec
    obtain ⟨s', sched', e1, e2⟩ := h2 hno hec
    exact ⟨s', sched', by rw [e1], e2⟩
  · intro hno hec
    have := h3 hno hec
    generalize untilLoop false [[newline]] 1 s [] 0 sched = x at this ⊢
    obtain ⟨r, s', l⟩ := x
    simp only at this
    subst this
    rfl

/-- the byte string of an ASCII literal (for witnesses) -/
def lit (s : String) : Bytes := s.toList.map fun c => UInt8.ofNat c.toNat

/-- one wake-up per chunk, EOF at the end -/
def deliverChunks (chunks : List Bytes) : Sched := chunks.map (fun c => [Arrival.data c]) ++ [[Arrival.eof]]

/-- **Witness of defect F10 (repaired).**  With the separator list compiled into one alternation, as the code did
    before the repair (`readuntilPreFix`), `readuntil` with several separators was *not* independent of the
    chunking: separators `abc`,`b` and stream `xabcd` gave `xabc` when the stream arrived in one chunk, but `xab`
    when it arrived as `xab`,`cd`. -/
theorem readuntil_multi_sep_unrestricted_false :
    ∃ (seps : List Bytes) (S : Bytes) (c₁ c₂ : List Bytes),
      seps ≠ [] ∧ (∀ sep ∈ seps, sep ≠ []) ∧ c₁.flatten = S ∧ c₂.flatten = S ∧
      (readuntilPreFix seps {} (deliverChunks c₁)).1 = .ok (lit "xabc") ∧
      (readuntilPreFix seps {} (deliverChunks c₂)).1 = .ok (lit "xab") :=
  ⟨[lit "abc", lit "b"], lit "xabcd", [lit "xabcd"], [lit "xab", lit "cd"],
    by decide, by decide, by decide, by decide, by decide, by decide⟩

/-- ... hence "for every separator list and every two chunkings of the same stream the results agree" was false
    of the code before the repair ... -/
theorem readuntil_multi_sep_chunk_independence_false :
    ¬ ∀ (seps : List Bytes) (c₁ c₂ : List Bytes), seps ≠ [] → (∀ sep ∈ seps, sep ≠ []) → c₁.flatten = c₂.flatten →
        (readuntilPreFix seps {} (deliverChunks c₁)).1 = (readuntilPreFix seps {} (deliverChunks c₂)).1 := by
  intro h
  have := h [lit "abc", lit "b"] [lit "xabcd"] [lit "xab", lit "cd"] (by decide) (by decide) (by decide)
  revert this
  decide

/-- ... while the repaired code returns `xab`, the shortest prefix ending in a separator, on both deliveries -/
theorem readuntil_multi_sep_witness_repaired :
    (readuntil [lit "abc", lit "b"] {} (deliverChunks [lit "xabcd"])).1 = .ok (lit "xab") ∧
    (readuntil [lit "abc", lit "b"] {} (deliverChunks [lit "xab", lit "cd"])).1 = .ok (lit "xab") := by
  constructor <;> decide

/-- the same alternation handed over as a REGEX still depends on the chunking (the regex is the caller's; the
    documentation warns about separators that are not unique at their start and end) -/
theorem regex_alternation_unrestricted_false :
    (readuntilPat [lit "abc", lit "b"] 3 {} (deliverChunks [lit "xabcd"])).1 = .ok (lit "xabc") ∧
    (readuntilPat [lit "abc", lit "b"] 3 {} (deliverChunks [lit "xab", lit "cd"])).1 = .ok (lit "xab") := by
  constructor <;> decide

/-- the witness separators violate exactly the hypothesis of `readuntil_regex_alternation_partial` -/
theorem witness_violates_NoEarlyInfix : ¬ NoEarlyInfix [lit "abc", lit "b"] := by
  intro h
  exact h (lit "b") (by simp) (lit "abc") (by simp) 1 (by decide) (by decide)

/-- **Signals are delivered as exceptions**: if the next thing in the stream is a signal/break/window-change marker,
    `read`/`readexactly` raise it (consuming the marker, no data). -/
theorem read_raises_pending_signal (s : St) (sched : Sched) (c : Nat) (rest : List Item) (exact : Bool) (n : Int)
    (hb : s.buf = .exc (.other c) :: rest) (hn : n ≠ 0) :
    AsyncsshModel.Stream.read exact n s sched = (.raised (.other c), { s with buf := rest }, sched) := by
  unfold AsyncsshModel.Stream.read
  rw [readLoop_unfold]
  have hf : drainFuel s = (s.chanQ.length + 1) + 1 := rfl
  rw [hf, readDrain_succ]
  simp [hb, readInner, hn, loopBody, afterInner]

/-- ... and when data precedes the marker, `readexactly` reports the data read so far as
    `IncompleteReadError(partial)` and leaves the marker for the next call. -/
theorem readexactly_partial_before_signal (s : St) (sched : Sched) (b : Bytes) (e : Exc) (rest : List Item) (n : Nat)
    (hb : s.buf = .data b :: .exc e :: rest) (hp : s.paused = false) (hn : b.length < n) :
    AsyncsshModel.Stream.read true n s sched =
      (.incomplete b, { s with buf := .exc e :: rest, bufLen := s.bufLen - b.length }, sched) := by
  unfold AsyncsshModel.Stream.read
  rw [readLoop_unfold]
  have hf : drainFuel s = (s.chanQ.length + 1) + 1 := rfl
  rw [hf, readDrain_succ]
  have h1 : ¬ ((n : Int) = 0) := by omega
  have h2 : ¬ ((0 : Int) < n ∧ (n : Int) < b.length) := by omega
  have h3 : ¬ ((n : Int) - b.length = 0) := by omega
  have h4 : (0 : Int) < (n : Int) - b.length := by omega
  have h1' : ¬ (n = 0) := by omega
  have h2' : ¬ (0 < n ∧ n < b.length) := by omega
  simp [hb, readInner, h1, h2, h1', h2', h3, h4, loopBody, afterInner, maybeResume, hp]
  exact hn


/-- the same for `readuntil`: data, then a signal marker, no separator → `IncompleteReadError(data)` -/
theorem readuntil_partial_before_signal_example :
    (readuntilOne (lit "\n") { buf := [.data (lit "ab"), .exc (.other 2), .data (lit "c\n")], bufLen := 4 } []).1
      = .incomplete (lit "ab") := by decide

/-! ### two streams, one pause flag (finding A-C19-3)

  `_read_paused` and `_recv_buf_len` belong to the session: unread data of the OTHER stream (stderr while stdout is
  read, or the reverse) can pause reading while nothing is buffered for this one.  The theorems below hold for every
  state — also those in which `bufLen` counts bytes that are not in `buf`. -/

theorem deliver_eof (s : St) (b : Bytes) : (deliver s b).eof = s.eof := by
  unfold deliver
  simp only
  split <;> rfl

theorem flush_keeps_eof (q : List Bytes) (s : St) (h : s.eof = true) : (flush s q).eof = true := by
  induction q generalizing s with
  | nil =>
    unfold flush
    simp only
    split <;> simp_all
  | cons b q ih =>
    unfold flush
    split
    · exact h
    · apply ih
      rw [deliver_eof]; exact h

theorem maybeResume_keeps_eof (s : St) (h : s.eof = true) : (maybeResume s).1.eof = true := by
  unfold maybeResume
  split
  · exact flush_keeps_eof _ _ h
  · exact h

/-- **A partial read is reported only with something to report, or at EOF.**  For every state of the session
    (paused or not, whatever the other stream holds), every separator set and every schedule: if `readuntil` raises
    `IncompleteReadError` with an EMPTY partial result, EOF has been received.  (Before the repair the call also
    gave up, empty-handed, whenever the session had paused reading: `readuntil_empty_partial_without_eof_prefix`.) -/
theorem readuntil_empty_partial_only_at_eof (me : Bool) (seps : List Bytes) (seplen : Nat) (sched : Sched)
    (s : St) (rbuf : Bytes) (cur : Nat) (s' : St) (sched' : Sched)
    (h : untilLoop me seps seplen s rbuf cur sched = (.incomplete [], s', sched')) : s'.eof = true := by
  induction sched generalizing s rbuf cur with
  | nil =>
    rw [untilLoop_unfold] at h
    split at h
    all_goals try (simp at h; done)
    · next part nb hsc =>
      -- an exception item was reached with data read before it: `part` is not empty
      simp only [Prod.mk.injEq, Res.incomplete.injEq] at h
      obtain ⟨hp, _, _⟩ := h
      subst hp
      exact absurd hsc (scan_excPartial_nonempty me seps seplen rbuf cur _ nb)
    · next rbuf' cur' hsc =>
      split at h
      · next hc =>
        simp only [Prod.mk.injEq, Res.incomplete.injEq] at h
        obtain ⟨hp, hs', _⟩ := h
        subst hp
        have he : s.eof = true := by simpa using hc
        rw [← hs']
        exact maybeResume_keeps_eof _ he
      · simp at h
  | cons g rest ih =>
    rw [untilLoop_unfold] at h
    split at h
    all_goals try (simp at h; done)
    · next part nb hsc =>
      simp only [Prod.mk.injEq, Res.incomplete.injEq] at h
      obtain ⟨hp, _, _⟩ := h
      subst hp
      exact absurd hsc (scan_excPartial_nonempty me seps seplen rbuf cur _ nb)
    · next rbuf' cur' hsc =>
      split at h
      · next hc =>
        simp only [Prod.mk.injEq, Res.incomplete.injEq] at h
        obtain ⟨hp, hs', _⟩ := h
        subst hp
        have he : s.eof = true := by simpa using hc
        rw [← hs']
        exact maybeResume_keeps_eof _ he
      · exact ih _ _ _ h

/-- **readline / readuntil wait when nothing is buffered for the stream and no EOF has come** — whether or not the
    session has paused reading on account of the other stream -/
theorem readline_waits_on_empty_stream (s : St) (hb : s.buf = []) (he : s.eof = false) :
    (readline s []).1 = .blocked ∧ ∀ sep, sep ≠ [] → (readuntilOne sep s []).1 = .blocked := by
  constructor
  · unfold readline
    rw [untilLoop_unfold]
    simp [hb, scan, he]
  · intro sep hsep
    have : sep.isEmpty = false := by cases sep <;> simp_all
    unfold readuntilOne
    rw [untilLoop_unfold]
    simp [this, hb, scan, he]

/-- **Witness of finding A-C19-3 (repaired).**  The session's pause limit is 8 and the OTHER stream holds 8 unread
    bytes (`bufLen = 8`, `paused`), nothing has arrived for this stream and no EOF: the code before the repair
    returned `b''` from `readline()` — the documented "EOF and buffer empty" value — with `at_eof()` false, and
    `readuntil` raised `IncompleteReadError(partial=b'')`; `async for line in stdout` turned into a busy loop. -/
theorem readuntil_empty_partial_without_eof_prefix :
    let s : St := { limit := 8, bufLen := 8, paused := true }
    readlinePreFix s [] = (.ok [], s, []) ∧ atEof s = false ∧
    untilLoopPreFix false [[newline]] 1 s [] 0 [] = (.incomplete [], s, []) := by
  refine ⟨?_, ?_, ?_⟩ <;> decide

/-- ... the repaired code waits; once the application has read the other stream the line arrives whole -/
theorem readline_two_streams_example :
    let s : St := { limit := 8, bufLen := 8, paused := true }
    (readline s []).1 = .blocked ∧
    (readline (otherRead s 8) [[.data (lit "hello "), .data (lit "world\n")]]).1 = .ok (lit "hello world\n") := by
  refine ⟨?_, ?_⟩ <;> decide

/-! ### non-vacuity: concrete runs of the same definitions -/

theorem readexactly_chunk_independent_example :
    runOps [(.exactly 3, [[.data (lit "ab")], [.data (lit "cdefg"), .eof]]), (.exactly 3, []), (.exactly 3, [])]
        { limit := 4 }
      = [.ok (lit "abc"), .ok (lit "def"), .incomplete (lit "g")] ∧
    cutRun [(3, [[.data (lit "ab")], [.data (lit "cdefg"), .eof]]), (3, []), (3, [])] [] false
      = [.ok (lit "abc"), .ok (lit "def"), .incomplete (lit "g")] := by
  constructor <;> decide +kernel

theorem Inv_init (limit : Nat) : Inv { limit := limit } :=
  ⟨by intro it h; simp at h, by intro b h; simp at h, rfl, fun _ => ⟨rfl, rfl⟩⟩

/-- a separator spanning a chunk boundary is found (`\r\n` cut between `\r` and `\n`) -/
theorem readuntil_single_sep_example :
    (readuntilOne (lit "\r\n") {} (deliverChunks [lit "ab\r", lit "\ncd"])).1 = .ok (lit "ab\r\n") ∧
    (readuntilOne (lit "\r\n") {} (deliverChunks [lit "ab\r\ncd"])).1 = .ok (lit "ab\r\n") := by
  constructor <;> decide

/-- a separator list satisfying the hypothesis of `readuntil_regex_alternation_partial` (`\n` is a suffix of `\r\n`) -/
theorem NoEarlyInfix_example : NoEarlyInfix [lit "\n", lit "\r\n"] := by
  intro a ha b hb d hd hp
  simp at ha hb
  rcases ha with rfl | rfl <;> rcases hb with rfl | rfl
  · simp [lit] at hd
  · have : d = 0 := by simp [lit] at hd; omega
    subst this; revert hp; decide
  · simp [lit] at hd
  · have : (lit "\r\n").length = 2 := by decide
    omega

theorem readuntil_multi_sep_example :
    (readuntil [lit "\n", lit "\r\n"] {} (deliverChunks [lit "ab\r", lit "\ncd"])).1 = .ok (lit "ab\r\n") ∧
    (readuntil [lit "\n", lit "\r\n"] {} (deliverChunks [lit "ab\r\ncd"])).1 = .ok (lit "ab\r\n") := by
  constructor <;> decide

theorem read_examples :
    (AsyncsshModel.Stream.read false (-1) {} (deliverChunks [lit "ab", lit "c"])).1 = .ok (lit "abc") ∧
    (AsyncsshModel.Stream.read false 5 {} (deliverChunks [lit "ab", lit "c"])).1 = .ok (lit "ab") ∧
    (readline {} (deliverChunks [lit "a", lit "b\nc"])).1 = .ok (lit "ab\n") := by
  refine ⟨?_, ?_, ?_⟩ <;> decide +kernel

/-! ### process layer -/

open AsyncsshModel.StreamProc in
/-- **Exit status comes with complete output** — for every ordering of data, EOF, exit-status, exit-signal and CLOSE
    on the wire, every interleaving of event-loop turns, every moment at which the application calls `wait()`
    or redirects stdout, and every pause limit: if the channel was closed by the close handshake (not torn down by a
    connection loss / protocol error — see `exit_with_complete_output_disconnect_false`), what `wait()` returns as
    stdout (together with what went to the redirect target) and stderr is everything the peer sent before CLOSE. -/
theorem exit_with_complete_output_partial (limit : Nat) (evs : List PEv)
    (hna : (prun { limit := limit } evs).abrupt = false)
    (st sg : Option Nat) (out err : Bytes)
    (hres : (prun { limit := limit } evs).result = some (.done st sg out err)) :
    (prun { limit := limit } evs).target.flatten ++ out = sentBeforeClose evs false ∧
    err = sentBeforeClose evs true := by
  rcases prun_inv evs { limit := limit } [] [] (PInv_init limit) with h | h
  · have hrem : ∀ e, remaining { limit := limit } evs e = sentBeforeClose evs e := by
      intro e; simp [remaining, closeSeen]
    rw [hrem, hrem] at h
    have hl : (prun { limit := limit } evs).lost = true := by
      cases hlo : (prun { limit := limit } evs).lost with
      | true => rfl
      | false => have := h.c hlo; rw [hres] at this; simp at this
    have hq := h.d hl
    obtain ⟨ho, he⟩ := h.f st sg out err hres
    constructor
    · have := h.out
      simpa [totalOut, collOut, hres, hq, ho, qdata] using this
    · have := h.err
      simpa [totalErr, collErr, hres, hq, he, qdata] using this
  · rw [h.1] at hna; simp at hna

open AsyncsshModel.StreamProc in
/-- **Redirection copies all data**: once stdout is redirected and the channel has closed (by the handshake), the
    target received — in order — everything that was sent before CLOSE and had not been returned by `wait()` before. -/
theorem redirect_copies_all (limit : Nat) (evs : List PEv)
    (hna : (prun { limit := limit } evs).abrupt = false)
    (hw : (prun { limit := limit } evs).writer.isSome = true)
    (hl : (prun { limit := limit } evs).lost = true) :
    (prun { limit := limit } evs).target.flatten ++ collOut (prun { limit := limit } evs)
      = sentBeforeClose evs false ∧ (prun { limit := limit } evs).out = [] := by
  rcases prun_inv evs { limit := limit } [] [] (PInv_init limit) with h | h
  · have hrem : ∀ e, remaining { limit := limit } evs e = sentBeforeClose evs e := by
      intro e; simp [remaining, closeSeen]
    rw [hrem, hrem] at h
    have hq := h.d hl
    have ho := h.b hw
    refine ⟨?_, ho⟩
    have := h.out
    simpa [totalOut, hq, ho, qdata] using this
  · rw [h.1] at hna; simp at hna

open AsyncsshModel.StreamProc in
/-- **Negation witness (new finding F33).**  The hypothesis "not torn down abruptly" cannot be dropped: with a pause
    limit of 4, `AAAA` fills the session buffer, `B` is queued in the channel, then exit-status 3, EOF and CLOSE
    arrive and the peer disconnects before the application calls `wait()`: `wait()` reports exit status 3 with
    stdout `AAAA` although `AAAAB` was sent (and received) before CLOSE. -/
theorem exit_with_complete_output_disconnect_false :
    ∃ (limit : Nat) (evs : List PEv) (out : Bytes),
      (prun { limit := limit } evs).result = some (.done (some 3) none out []) ∧
      out ≠ sentBeforeClose evs false :=
  ⟨4, [.data false (lit "AAAA"), .data false (lit "B"), .exitStatus 3, .eof, .close, .tick, .disconnect false,
       .tick, .waitCall, .tick], lit "AAAA", by decide, by decide⟩

open AsyncsshModel.StreamProc in
/-- same root cause, other symptom: with the EOF still queued behind paused data when the connection goes away,
    a later `wait()` raises `AssertionError` out of the channel's flush -/
theorem wait_after_connection_loss_assertion_witness :
    (prun { limit := 4 } [.data false (lit "AAAA"), .data false (lit "B"), .eof, .tick, .disconnect true, .tick,
        .waitCall, .tick]).result = some .assertionError := by decide

open AsyncsshModel.StreamProc in
theorem exit_with_complete_output_example :
    (prun { limit := 4 } [.data false (lit "AAAA"), .data true (lit "E"), .data false (lit "B"), .exitStatus 3,
        .eof, .close, .tick, .waitCall, .tick]).result = some (.done (some 3) none (lit "AAAAB") (lit "E")) ∧
    (prun { limit := 4 } [.data false (lit "AAAA"), .data true (lit "E"), .data false (lit "B"), .exitStatus 3,
        .eof, .close, .tick, .waitCall, .tick]).abrupt = false := by
  constructor <;> decide

open AsyncsshModel.StreamProc in
/-- **... and then EOF, exactly once**: for every event list (including abrupt ends), a target redirected with
    `recv_eof=True` has received `write_eof` exactly once when the channel has closed — and not before the session
    has seen EOF; a target redirected with `recv_eof=False` never receives it.  (`write_eof` comes after the data:
    the session sees EOF only once the channel queue is empty, and data after EOF is a protocol error.) -/
theorem redirect_eof_exactly_once (limit : Nat) (evs : List PEv) :
    ((prun { limit := limit } evs).writer = some true → (prun { limit := limit } evs).lost = true →
      (prun { limit := limit } evs).targetEof = 1) ∧
    ((prun { limit := limit } evs).writer = some true → (prun { limit := limit } evs).eofSeen = false →
      (prun { limit := limit } evs).targetEof = 0) ∧
    ((prun { limit := limit } evs).writer ≠ some true → (prun { limit := limit } evs).targetEof = 0) := by
  have h := prun_T evs { limit := limit } (TInv_init limit)
  refine ⟨?_, ?_, h.t2⟩
  · intro hw hl
    have := h.t1 hw
    simpa [h.t4 hl] using this
  · intro hw he
    have := h.t1 hw
    simpa [he] using this

open AsyncsshModel.StreamProc in
theorem redirect_example :
    (prun { limit := 4 } [.data false (lit "AAAA"), .data false (lit "B"), .tick, .redirect true, .tick,
        .data false (lit "C"), .eof, .close, .tick]).target.flatten = lit "AAAABC" ∧
    (prun { limit := 4 } [.data false (lit "AAAA"), .data false (lit "B"), .tick, .redirect true, .tick,
        .data false (lit "C"), .eof, .close, .tick]).targetEof = 1 := by
  constructor <;> decide

/-! ### drain -/

open AsyncsshModel.StreamProc in
/-- an event that does not wake a waiting `drain()` leaves it with a reason to wait (code as it is) -/
theorem dstep_not_woken_still_blocked (s : DSt) (e : DEv) (hb : shouldBlockDrain s = true)
    (hw : (dstepW {} s e).2 = false) : shouldBlockDrain (dstepW {} s e).1 = true := by
  obtain ⟨wp, cl, ex, rd, dc⟩ := s
  cases e <;> cases wp <;> cases cl <;> cases rd <;> simp_all [dstepW, shouldBlockDrain]

open AsyncsshModel.StreamProc in
/-- an event that wakes a waiting `drain()` leaves nothing to wait for -/
theorem dstep_woken_unblocked (cfg : DCfg) (s : DSt) (e : DEv) (hw : (dstepW cfg s e).2 = true) :
    shouldBlockDrain (dstepW cfg s e).1 = false := by
  obtain ⟨wp, cl, ex, rd, dc⟩ := s
  obtain ⟨c1, c2, c3⟩ := cfg
  cases c1 <;> cases c2 <;> cases e <;> cases wp <;> cases cl <;> cases rd <;> simp_all [dstepW, shouldBlockDrain]

open AsyncsshModel.StreamProc in
/-- what a `drain()` call may conclude from its outcome (`waited`: the call had to wait) -/
def DrainPost (waited : Bool) (r : DrainRes) (s : DSt) : Prop :=
  match r with
  | .returned => s.writePaused = false ∧ s.reader = false ∧ (s.connLost = true → s.exc = false) ∧
      (waited = true → s.connLost = false → s.discarded = false)
  | .raisedExc => s.connLost = true ∧ s.exc = true
  | .brokenPipe => (s.connLost = true ∧ s.exc = false ∧ s.writePaused = true) ∨
      (s.connLost = false ∧ waited = true ∧ s.discarded = true)
  | .blocked => shouldBlockDrain s = true

open AsyncsshModel.StreamProc in
theorem drainFinish_spec (waited : Bool) (s : DSt) (hb : shouldBlockDrain s = false) :
    DrainPost waited (drainFinish {} waited s) s ∧ drainFinish {} waited s ≠ .blocked := by
  obtain ⟨wp, cl, ex, rd, dc⟩ := s
  cases waited <;> cases wp <;> cases cl <;> cases ex <;> cases rd <;> cases dc <;>
    simp_all [drainFinish, shouldBlockDrain, DrainPost]

open AsyncsshModel.StreamProc in
theorem drainWait_contract (evs : List DEv) (s : DSt) (hb : shouldBlockDrain s = true) :
    DrainPost true (drainWait {} s evs).1 (drainWait {} s evs).2 := by
  induction evs generalizing s with
  | nil => simpa [drainWait, DrainPost] using hb
  | cons e rest ih =>
    unfold drainWait
    simp only
    split
    · next hw => exact (drainFinish_spec true _ (dstep_woken_unblocked {} s e hw)).1
    · next hw => exact ih _ (dstep_not_woken_still_blocked s e hb (by simpa using hw))

open AsyncsshModel.StreamProc in
/-- **drain contract** (process sessions, the override `SSHProcess._should_block_drain` included): `drain()` returns
    normally only when writing is not paused and no redirect source is still feeding the stream — and, if the call had
    to wait, only if nothing it waited for was thrown away by a peer closing the channel (and, if the channel is
    gone, it went cleanly with nothing held back); if the channel is gone with an exception, or while writing was
    still paused, or the peer closed it and discarded what the call waited for, it raises; it keeps waiting exactly
    while writing is paused with the channel still there, or a redirect source is registered. -/
theorem drain_contract (evs : List DEv) (s : DSt) :
    DrainPost (shouldBlockDrain s) (drain s evs).1 (drain s evs).2 := by
  unfold drain drainW
  split
  · next hb => rw [hb]; exact drainWait_contract evs s hb
  · next hb =>
    have hb' : shouldBlockDrain s = false := by simpa using hb
    rw [hb']
    exact (drainFinish_spec false s hb').1

open AsyncsshModel.StreamProc in
theorem drainWait_lost_not_blocked (evs : List DEv) (s : DSt) (e : Bool) (h : DEv.lost e ∈ evs) :
    (drainWait {} s evs).1 ≠ .blocked := by
  induction evs generalizing s with
  | nil => simp at h
  | cons a rest ih =>
    unfold drainWait
    simp only
    split
    · next hw => exact (drainFinish_spec true _ (dstep_woken_unblocked {} s a hw)).2
    · next hw =>
      simp only [List.mem_cons] at h
      rcases h with rfl | h
      · exfalso
        apply hw
        obtain ⟨wp, cl, ex, rd, dc⟩ := s
        simp [dstepW, shouldBlockDrain]
      · exact ih _ h

open AsyncsshModel.StreamProc in
/-- **... or fails if the channel is gone**: a `drain()` never keeps waiting across the loss of its channel — whatever
    was paused and whatever redirect source was registered, `connection_lost` ends the wait (the call then raises
    or returns as `drain_contract` says). -/
theorem drain_never_outlives_channel (evs : List DEv) (s : DSt) (e : Bool) (h : DEv.lost e ∈ evs) :
    (drain s evs).1 ≠ .blocked := by
  unfold drain drainW
  split
  · exact drainWait_lost_not_blocked evs s e h
  · next hb => exact (drainFinish_spec false s (by simpa using hb)).2

open AsyncsshModel.StreamProc in
/-- **the peer closes the channel under a writer that waits for its data to go out**: the wait ends at the CLOSE —
    also when `connection_lost` itself has to wait for the application to read what it has received — and the call
    FAILS: what it was waiting for was thrown away, more cannot be written. -/
theorem drain_fails_when_peer_closes_on_paused_writer (s : DSt) (u : Bool) (rest : List DEv)
    (hp : s.writePaused = true) (hl : s.connLost = false) (hr : s.reader = false) :
    (drain s (.peerClose u :: rest)).1 = .brokenPipe := by
  obtain ⟨wp, cl, ex, rd, dc⟩ := s
  simp only at hp hl hr
  subst hp hl hr
  cases u <;> cases dc <;> simp [drain, drainW, drainWait, dstepW, shouldBlockDrain, drainFinish]

open AsyncsshModel.StreamProc in
/-- a drain that waited and was resumed because its data WAS sent returns normally — also after `write_eof()` or when
    the stream was fed by a redirect source that has ended (EOF sent): the channel being closed for further writes
    is no failure -/
theorem drain_returns_when_data_was_sent (s : DSt) (rest : List DEv)
    (hl : s.connLost = false) (hd : s.discarded = false) :
    (s.writePaused = true → s.reader = false → (drain s (.resumeWriting :: rest)).1 = .returned) ∧
    (s.writePaused = false → s.reader = true → (drain s (.readerDone :: rest)).1 = .returned) := by
  obtain ⟨wp, cl, ex, rd, dc⟩ := s
  simp only at hl hd
  subst hl hd
  constructor <;> intro h1 h2 <;> simp only at h1 h2 <;> subst h1 h2 <;>
    simp [drain, drainW, drainWait, dstepW, shouldBlockDrain, drainFinish]

open AsyncsshModel.StreamProc in
/-- **Witness of finding A-C19-1 (repaired).**  A redirect source is registered for the stream and `drain()` waits
    for it; the channel is closed (or the connection lost).  Before the repair the only `_unblock_drain` call of
    `connection_lost` came while the reader was still registered: the waiter was not woken, and nothing woke it after
    `self._readers = {}` — `drain()` neither returned nor raised, although nothing blocked it any more. -/
theorem drain_hangs_after_channel_loss_prefix :
    (drainPreFix { reader := true } [.lost false]).1 = .blocked ∧
    shouldBlockDrain (drainPreFix { reader := true } [.lost false]).2 = false ∧
    (drainPreFix { reader := true } [.lost true]).1 = .blocked ∧
    (drain { reader := true } [.lost false]).1 = .returned ∧
    (drain { reader := true } [.lost true]).1 = .raisedExc := by
  refine ⟨?_, ?_, ?_, ?_, ?_⟩ <;> decide

open AsyncsshModel.StreamProc in
/-- **Witnesses of the two regressions around the peer's CLOSE.**  A writer is paused and waits in `drain()`; the
    peer's CLOSE arrives while received data is still queued (so `connection_lost` is not yet due).
    Before C09's repair (repo 352f310) nothing resumed the session: the call kept waiting although its data was
    gone (`drainNoResumeOnClose`).  With that repair alone the call was woken by `resume_writing()` and returned
    NORMALLY with the data discarded (`drainNoDiscardTest`).  The code as it is fails with BrokenPipeError. -/
theorem drain_after_peer_close_witnesses :
    (drainNoResumeOnClose { writePaused := true } [.peerClose true]).1 = .blocked ∧
    (drainNoDiscardTest { writePaused := true } [.peerClose true]).1 = .returned ∧
    (drainNoDiscardTest { writePaused := true } [.peerClose true]).2.discarded = true ∧
    (drain { writePaused := true } [.peerClose true]).1 = .brokenPipe := by
  refine ⟨?_, ?_, ?_, ?_⟩ <;> decide

open AsyncsshModel.StreamProc in
theorem drain_contract_example :
    (drain { writePaused := true } [.resumeWriting]).1 = .returned ∧
    (drain { writePaused := true } [.lost false]).1 = .brokenPipe ∧
    (drain { writePaused := true } [.lost true]).1 = .raisedExc ∧
    (drain { writePaused := true } []).1 = .blocked ∧
    (drain {} [.setReader]).1 = .returned ∧
    (drain { reader := true } [.pauseWriting, .resumeWriting]).1 = .blocked ∧
    (drain { reader := true } [.pauseWriting, .readerDone, .resumeWriting]).1 = .returned ∧
    (drain { reader := true } [.peerClose true, .readerDone]).1 = .brokenPipe ∧
    (drain { discarded := true } []).1 = .returned := by
  refine ⟨?_, ?_, ?_, ?_, ?_, ?_, ?_, ?_, ?_⟩ <;> decide

/-! ### redirect after EOF, `recv_eof=False` -/

open AsyncsshModel.StreamProc in
/-- **Witness of finding A-C19-4 (repaired).**  Data and EOF arrive, then the application redirects stdout with
    `recv_eof=False` to a target that does not re-check the flag itself (another process's stdin): before the repair
    `feed_recv_buf` wrote EOF to it all the same; the repaired code leaves it open. -/
theorem redirect_after_eof_recv_eof_false_prefix :
    (prunPreFix { limit := 4 } [.data false (lit "one"), .eof, .tick, .redirect false]).targetEof = 1 ∧
    (prun { limit := 4 } [.data false (lit "one"), .eof, .tick, .redirect false]).targetEof = 0 ∧
    (prun { limit := 4 } [.data false (lit "one"), .eof, .tick, .redirect false]).target.flatten = lit "one" := by
  refine ⟨?_, ?_, ?_⟩ <;> decide

/-! ### redirect sources (the half of process.py that feeds the channel) -/

open AsyncsshModel.StreamSrc in
theorem wellFormed_none_nil (evs : List SEv) (h : WellFormed none none evs) : evs = [] := by
  cases evs with
  | nil => rfl
  | cons e r => cases e <;> simp [WellFormed] at h <;> (try (obtain ⟨h1, _⟩ := h; revert h1; split <;> simp))

open AsyncsshModel.StreamSrc in
theorem srun_cons (s : SSt) (ev : SEv) (rest : List SEv) : srun s (ev :: rest) = srun (sstepW true s ev) rest := rfl

open AsyncsshModel.StreamSrc in
/-- **Redirect sources: all data, then EOF** (server side: stdout and stderr of a local program redirected into the
    channel, `send_eof` as by default).  For every history in which each registered source delivers data while it
    is registered and then ends: nothing a source delivers is refused by the channel, the channel carries exactly
    what the sources delivered, in order, and EOF is sent when — and only when — the last source has ended. -/
theorem sources_copy_all_then_eof (evs : List SEv) (s : SSt) (o e : Option Bool)
    (ho : s.out = o) (he : s.err = e) (hs : s.eofSent = false)
    (hwo : o ≠ some false) (hwe : e ≠ some false) (hwf : WellFormed o e evs) :
    (srun s evs).refused = s.refused ∧ (srun s evs).stray = s.stray ∧
    (srun s evs).wire = s.wire ++ delivered evs ∧
    ((srun s evs).eofSent = true → (srun s evs).out = none ∧ (srun s evs).err = none) ∧
    ((o.isSome = true ∨ e.isSome = true) → (srun s evs).out = none → (srun s evs).err = none →
      (srun s evs).eofSent = true) := by
  induction evs generalizing s o e with
  | nil =>
    refine ⟨rfl, rfl, by simp [srun, delivered], ?_, ?_⟩
    · intro h; simp [srun, hs] at h
    · intro h h1 h2
      simp only [srun, List.foldl_nil] at h1 h2
      rw [ho] at h1; rw [he] at h2
      subst h1 h2
      simp at h
  | cons ev rest ih =>
    rw [srun_cons]
    cases ev with
    | redirect a b => simp [WellFormed] at hwf
    | data err b =>
      obtain ⟨_, hwf'⟩ := hwf
      have hstep : sstepW true s (.data err b) =
          if b.isEmpty then s else { s with wire := s.wire ++ [(err, b)] } := by
        simp [sstepW, feedData, hs]
      by_cases hb : b.isEmpty
      · rw [hstep, if_pos hb]
        obtain ⟨i1, i2, i3, i4, i5⟩ := ih s o e ho he hs hwo hwe hwf'
        exact ⟨i1, i2, by rw [i3]; simp [delivered, hb], i4, i5⟩
      · rw [hstep, if_neg hb]
        obtain ⟨i1, i2, i3, i4, i5⟩ := ih { s with wire := s.wire ++ [(err, b)] } o e ho he hs hwo hwe hwf'
        exact ⟨i1, i2, by rw [i3]; simp [delivered, hb], i4, i5⟩
    | srcEof err =>
      obtain ⟨hreg, hwf'⟩ := hwf
      cases err with
      | false =>
        simp only [Bool.false_eq_true, if_false] at hreg hwf'
        -- stdout's source ends
        cases o with
        | none => simp at hreg
        | some v =>
          cases v with
          | false => exact absurd rfl hwo
          | true =>
            cases e with
            | none =>
              have := wellFormed_none_nil rest hwf'
              subst this
              simp [srun, sstepW, feedEof, reg, setReg, anyWantsEof, ho, he, delivered]
            | some w =>
              cases w with
              | false => exact absurd rfl hwe
              | true =>
                have hstep : sstepW true s (.srcEof false) = { s with out := none } := by
                  simp [sstepW, feedEof, reg, setReg, anyWantsEof, ho, he]
                rw [hstep]
                obtain ⟨i1, i2, i3, i4, i5⟩ := ih { s with out := none } none (some true) rfl he hs (by simp) (by simp) hwf'
                exact ⟨i1, i2, by rw [i3]; simp [delivered], i4, fun _ => i5 (Or.inr rfl)⟩
      | true =>
        simp only [if_true] at hreg hwf'
        cases e with
        | none => simp at hreg
        | some w =>
          cases w with
          | false => exact absurd rfl hwe
          | true =>
            cases o with
            | none =>
              have := wellFormed_none_nil rest hwf'
              subst this
              simp [srun, sstepW, feedEof, reg, setReg, anyWantsEof, ho, he, delivered]
            | some v =>
              cases v with
              | false => exact absurd rfl hwo
              | true =>
                have hstep : sstepW true s (.srcEof true) = { s with err := none } := by
                  simp [sstepW, feedEof, reg, setReg, anyWantsEof, ho, he]
                rw [hstep]
                obtain ⟨i1, i2, i3, i4, i5⟩ := ih { s with err := none } (some true) none ho rfl hs (by simp) (by simp) hwf'
                exact ⟨i1, i2, by rw [i3]; simp [delivered], i4, fun _ => i5 (Or.inl rfl)⟩

open AsyncsshModel.StreamSrc in
/-- **Witness of finding A-C19-2 (repaired).**  stdout and stderr are both redirected with `send_eof`; the stdout
    source ends first, then the stderr source delivers `oops` and ends.  Before the repair EOF went out when the
    FIRST source ended and `oops` was refused (`BrokenPipeError`); the repaired code carries it and sends EOF after
    the second source. -/
theorem first_source_eof_closes_channel_prefix :
    let evs := [SEv.data false (lit "hello"), .srcEof false, .data true (lit "oops"), .srcEof true]
    (srunPreFix { out := some true, err := some true } evs).refused = 1 ∧
    (srunPreFix { out := some true, err := some true } evs).wire = [(false, lit "hello")] ∧
    (srun { out := some true, err := some true } evs).refused = 0 ∧
    (srun { out := some true, err := some true } evs).wire = [(false, lit "hello"), (true, lit "oops")] ∧
    (srun { out := some true, err := some true } evs).eofSent = true ∧
    WellFormed (some true) (some true) evs := by
  refine ⟨by decide, by decide, by decide, by decide, by decide, by simp [WellFormed]⟩

/-! ### the model's arithmetic and tests are the code's (expressions regenerated from asyncssh/stream.py) -/

/-- the search window start of the model is the expression in `readuntil` -/
theorem searchStart_matches_code (buflen seplen : Nat) :
    ((searchStart buflen seplen : Nat) : Int) = Gen.C19.searchStartCode buflen seplen := by
  unfold searchStart Gen.C19.searchStartCode
  repeat' split
  all_goals omega

/-- the model's `readuntil` searches a separator list the way the code does (earliest end, the repair of F10) -/
theorem list_search_matches_code : Gen.C19.listSearchMinEnd = true := by decide

/-- `_should_pause_reading` (stream model and process model) -/
theorem shouldPause_matches_code (s : St) :
    shouldPause s = true ↔ Gen.C19.shouldPauseCode s.limit s.bufLen := by
  unfold shouldPause Gen.C19.shouldPauseCode
  simp only [Bool.and_eq_true, bne_iff_ne, ne_eq, decide_eq_true_eq]
  constructor <;> (intro h; refine ⟨?_, ?_⟩ <;> omega)

theorem proc_shouldPause_matches_code (s : StreamProc.PSt) :
    StreamProc.shouldPause s = true ↔ Gen.C19.shouldPauseCode s.limit s.bufLen := by
  unfold StreamProc.shouldPause Gen.C19.shouldPauseCode
  simp only [Bool.and_eq_true, bne_iff_ne, ne_eq, decide_eq_true_eq]
  constructor <;> (intro h; refine ⟨?_, ?_⟩ <;> omega)

/-- the exit test of the `while True` loop of `read` (as used in `loopBody`/`readLoop`) -/
theorem read_loop_exit_matches_code (exact : Bool) (d : Drained) :
    (d.n = 0 ∨ (0 < d.n ∧ d.got = true ∧ (!exact) = true) ∨ (d.n < 0 ∧ (!d.st.buf.isEmpty) = true)
        ∨ d.st.eof = true ∨ d.brk = true)
      ↔ Gen.C19.readBreakCode d.n d.got exact (!d.st.buf.isEmpty) d.st.eof d.brk := by
  unfold Gen.C19.readBreakCode
  cases exact <;> simp <;> omega

/-- the final `IncompleteReadError` test of `read` -/
theorem read_incomplete_matches_code (n : Int) (exact : Bool) :
    (0 < n ∧ exact = true) ↔ Gen.C19.readIncompleteCode n exact := by
  unfold Gen.C19.readIncompleteCode
  constructor <;> (intro h; exact ⟨by omega, h.2⟩)

/-- the inner loop of `read` splits the head chunk exactly when the code's chained comparison `l > n > 0` holds -/
theorem readInner_split_matches_code (b : Bytes) (rest : List Item) (bl : Int) (acc : Bytes) (got : Bool) (n : Int) :
    (Gen.C19.readSplitCode b.length n →
      readInner (.data b :: rest) bl acc got n =
        ⟨.data (b.drop n.toNat) :: rest, bl - n, acc ++ b.take n.toNat, true, 0, false, none⟩) ∧
    (¬ Gen.C19.readSplitCode b.length n → n ≠ 0 →
      readInner (.data b :: rest) bl acc got n = readInner rest (bl - b.length) (acc ++ b) true (n - b.length)) := by
  unfold Gen.C19.readSplitCode
  constructor
  · intro h
    have h0 : n ≠ 0 := by omega
    have h1 : 0 < n ∧ n < (b.length : Int) := by omega
    simp [readInner, h0, h1]
  · intro h h0
    have h1 : ¬ (0 < n ∧ n < (b.length : Int)) := by omega
    simp [readInner, h0, h1]

/-- `drain` keeps waiting exactly under the code's `_should_block_drain` — the override every process session runs -/
theorem drain_block_matches_code (s : StreamProc.DSt) :
    StreamProc.shouldBlockDrain s = true ↔ Gen.C19.procShouldBlockDrainCode s.reader s.writePaused s.connLost := by
  unfold StreamProc.shouldBlockDrain Gen.C19.procShouldBlockDrainCode Gen.C19.shouldBlockDrainCode
  cases s.reader <;> cases s.writePaused <;> cases s.connLost <;> simp

theorem drain_wakeup_matches_code : Gen.C19.connLostUnblocksAfterReadersCleared = true := by decide

/-- the test `drain` makes after its loop when the connection is not lost is the model's: the call had to wait
    (`blocked`, which the code sets exactly in the body of its waiting loop) and the channel reports that unsent data
    was discarded — whatever `is_closing()` says (it is also true after `write_eof()`), with the channel present -/
theorem drain_fail_test_matches_code (blocked closing : Bool) (s : StreamProc.DSt) :
    Gen.C19.drainBlockedFlagTracksWaiting = true ∧
    ((blocked && s.discarded) = true ↔ Gen.C19.drainFailAfterWaitCode blocked true closing s.discarded) := by
  refine ⟨by decide, ?_⟩
  unfold Gen.C19.drainFailAfterWaitCode
  cases blocked <;> cases closing <;> cases s.discarded <;> simp

/-- the channel side of the `peerClose` event is the code's: `_process_close` resumes a session paused for writing
    after `_close_send()` (C09's repair), and `_close_send()` records that it threw unsent data away -/
theorem peer_close_matches_code :
    Gen.C19.processCloseResumesWriting = true ∧ Gen.C19.closeSendRecordsDiscard = true := by
  constructor <;> decide

open AsyncsshModel.StreamProc in
/-- the EOF test of the model's `onRedirect` is the one `feed_recv_buf` makes -/
theorem feed_recv_buf_eof_matches_code (eofSeen r : Bool) :
    (eofSeen && r) = true ↔ Gen.C19.feedRecvBufEofCode eofSeen r := by
  unfold Gen.C19.feedRecvBufEofCode
  cases eofSeen <;> cases r <;> simp

/-- the give-up test of the model's `untilLoop` is the one `readuntil` makes -/
theorem until_giveup_matches_code (paused eof : Bool) (rbuf : Bytes) :
    ((paused && !rbuf.isEmpty) || eof) = true ↔ Gen.C19.untilGiveUpCode paused (!rbuf.isEmpty) eof := by
  unfold Gen.C19.untilGiveUpCode
  cases paused <;> cases eof <;> cases rbuf.isEmpty <;> simp

open AsyncsshModel.StreamSrc in
/-- the EOF decision of the model's `feedEof` is the one `SSHProcess.feed_eof` makes: the ending reader is cleared
    first, then EOF is sent if it was asked for and no other source still wants it (repair of A-C19-2) -/
theorem feed_eof_matches_code (sendEof others : Bool) :
    Gen.C19.feedEofClearsReaderFirst = true ∧
    ((sendEof && !others) = true ↔ Gen.C19.feedEofSendCode sendEof others) := by
  refine ⟨by decide, ?_⟩
  unfold Gen.C19.feedEofSendCode
  cases sendEof <;> cases others <;> simp

end AsyncsshModel.C19
