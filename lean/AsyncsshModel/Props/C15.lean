import AsyncsshModel.Lemmas.Wire
import AsyncsshModel.Lemmas.Der
import AsyncsshModel.Lemmas.KeyFmtBase64
import AsyncsshModel.Lemmas.KeyFmtOpenssh
import AsyncsshModel.Lemmas.KeyFmtPem
/-
  C15 — Keys survive every export/import path and interoperate.
  Property theorems only (helper lemmas live in Lemmas/{Wire,Der,KeyFmt*}.lean).
-/
namespace AsyncsshModel.C15
open AsyncsshModel AsyncsshModel.Wire AsyncsshModel.Der AsyncsshModel.KeyFmt

/-! ## SSH wire primitives (packet.py) -/

/-- **UInt32 round trip with exact consumption**: whatever `UInt32(n)` writes, `get_uint32` reads back
    as `n` and leaves precisely the bytes that followed. -/
theorem uint32_roundtrip (n : Nat) (w rest : Bytes) (h : encUInt32? n = some w) :
    getUInt32 (w ++ rest) = some (n, rest) := getUInt32_enc h rest

/-- `UInt32(n)` succeeds exactly for `n < 2^32` (otherwise Python raises `OverflowError`). -/
theorem uint32_defined_iff (n : Nat) : (encUInt32? n).isSome ↔ n < 2 ^ 32 := by
  simp [encUInt32?, toBytes?]

/-- **String round trip with exact consumption**, for every byte string. -/
theorem string_roundtrip (s w rest : Bytes) (h : encString? s = some w) :
    getString (w ++ rest) = some (s, rest) := getString_enc h rest

/-- **Prefix-freeness of `String`**: two encodings followed by anything are equal only if the strings and
    the continuations are equal — concatenations of strings decode uniquely. -/
theorem string_prefix_free (s₁ s₂ w₁ w₂ r₁ r₂ : Bytes) (h₁ : encString? s₁ = some w₁)
    (h₂ : encString? s₂ = some w₂) (h : w₁ ++ r₁ = w₂ ++ r₂) : s₁ = s₂ ∧ r₁ = r₂ := by
  have a := getString_enc h₁ r₁
  have b := getString_enc h₂ r₂
  rw [h, b] at a
  simp at a
  exact ⟨a.1.symm, a.2.symm⟩

/-- **MPInt round trip for every integer** (positive, negative, zero), with exact consumption. -/
theorem mpint_roundtrip (v : Int) (w rest : Bytes) (h : encMPInt? v = some w) :
    getMPInt (w ++ rest) = some (v, rest) := getMPInt_enc h rest

/-- `MPInt(v)` is defined unless the length field itself overflows (`|v|` beyond `2^(8·2^32)`). -/
theorem mpint_defined (v : Int) (h : mpintLen v < 2 ^ 32) : (encMPInt? v).isSome :=
  encMPInt?_isSome v h

/-- **The MPInt length rule is the minimal two's-complement length**: the value fits in `mpintLen v`
    bytes and in no fewer (so a leading `00`/`ff` byte is present exactly when the sign bit needs it). -/
theorem mpint_length_minimal (v : Int) :
    FitsSigned v (mpintLen v) ∧ ∀ l, l < mpintLen v → ¬ FitsSigned v l :=
  mpintLen_fits_minimal v

/-- **Prefix-freeness of `MPInt`**. -/
theorem mpint_prefix_free (v₁ v₂ : Int) (w₁ w₂ r₁ r₂ : Bytes) (h₁ : encMPInt? v₁ = some w₁)
    (h₂ : encMPInt? v₂ = some w₂) (h : w₁ ++ r₁ = w₂ ++ r₂) : v₁ = v₂ ∧ r₁ = r₂ := by
  have a := getMPInt_enc h₁ r₁
  have b := getMPInt_enc h₂ r₂
  rw [h, b] at a
  simp at a
  exact ⟨a.1.symm, a.2.symm⟩

/-- The length expression translated from the current source of `packet.MPInt` is the model's rule
    (tie of `Base/Wire.lean` to the code; re-proved against the regenerated `Gen/C15.lean`). -/
theorem mpint_len_matches_code (v : Int) :
    Gen.C15.mpintLenExpr (bitLength v) v = (mpintLen v : Int) := by
  unfold Gen.C15.mpintLenExpr mpintLen
  simp only []
  have hcast : ((bitLength v : Int) - 1).toNat = bitLength v - 1 := by omega
  rw [hcast]
  have hpow : (-(1 : Int)) * (2 : Int) ^ (bitLength v - 1) = -((2 : Int) ^ (bitLength v - 1)) := by
    simp
  rw [hpow]
  have hmod : ((bitLength v : Int) % 8 = 0) ↔ (bitLength v % 8 = 0) := by omega
  by_cases hc : bitLength v % 8 = 0 ∧ v ≠ 0 ∧ v ≠ -((2 : Int) ^ (bitLength v - 1))
  · have hc' : ((bitLength v : Int) % 8 = 0) ∧ v ≠ 0 ∧ v ≠ -((2 : Int) ^ (bitLength v - 1)) :=
      ⟨hmod.mpr hc.1, hc.2.1, hc.2.2⟩
    rw [if_pos hc, if_pos hc']
    omega
  · have hc' : ¬ (((bitLength v : Int) % 8 = 0) ∧ v ≠ 0 ∧ v ≠ -((2 : Int) ^ (bitLength v - 1))) :=
      fun h => hc ⟨hmod.mp h.1, h.2.1, h.2.2⟩
    rw [if_neg hc, if_neg hc']
    omega

/-- non-vacuity: `MPInt(128) = 00 00 00 02 00 80`, `MPInt(-128) = 00 00 00 01 80`, `MPInt(0)` is empty -/
theorem mpint_example :
    encMPInt? 128 = some [0, 0, 0, 2, 0, 0x80] ∧ encMPInt? (-128) = some [0, 0, 0, 1, 0x80] ∧
    encMPInt? 0 = some [0, 0, 0, 0] ∧ getMPInt [0, 0, 0, 2, 0xff, 0x7f, 9] = some (-129, [9]) := by
  decide +kernel

/-! ## DER (asn1.py) -/

/-- **DER round trip for every value of the modelled universe** (`wf`): `der_decode(der_encode(v)) = v`,
    for integers of any size and sign, byte/bit/character strings, OIDs, nested sequences, canonical sets,
    tagged and raw objects with any class and (multi-byte) tag number. -/
theorem der_roundtrip (v : DerVal) (hwf : wf v = true) (hsize : (enc v).length < sizeBound) :
    decode (enc v) = .ok v := by
  unfold decode
  have h := decodePartial_enc v hwf ((enc v).length + 1) [] (by omega) hsize
  rw [List.append_nil] at h
  rw [h]
  simp

/-- **The decoder consumes exactly the encoder's output** (`der_decode_partial`): DER values are
    self-delimiting, so concatenated DER keys in one file decode uniquely. -/
theorem der_partial_roundtrip (v : DerVal) (rest : Bytes) (hwf : wf v = true)
    (hsize : (enc v).length < sizeBound) :
    decodePartial ((enc v ++ rest).length + 1) (enc v ++ rest) = .ok (v, (enc v).length) :=
  decodePartial_enc v hwf _ rest (by simp; omega) hsize

/-- **`der_encode` is injective on the universe** (canonical direction: equal encodings, equal values). -/
theorem der_encode_injective (v₁ v₂ : DerVal) (h₁ : wf v₁ = true) (h₂ : wf v₂ = true)
    (s₁ : (enc v₁).length < sizeBound) (s₂ : (enc v₂).length < sizeBound) (h : enc v₁ = enc v₂) : v₁ = v₂ := by
  have a := der_roundtrip v₁ h₁ s₁
  have b := der_roundtrip v₂ h₂ s₂
  rw [h, b] at a
  cases a; rfl

/-- `der_canonical` does **not** hold of the decoder: asn1.py accepts non-minimal long-form lengths
    (`04 81 01 41` decodes like `04 01 41`); the code does not enforce minimal lengths. -/
theorem der_decoder_accepts_noncanonical_length :
    decode [0x04, 0x81, 0x01, 0x41] = .ok (.octets [0x41]) ∧ decode [0x04, 0x01, 0x41] = .ok (.octets [0x41]) :=
  ⟨by rfl, by rfl⟩

/-- The universe restriction "tag ≠ 31" is necessary: `_encode_identifier` writes tag 31 in the one-byte
    form, which the decoder reads as the multi-byte escape (an `asn1.py` off-by-one; no key format uses it). -/
theorem der_tag31_does_not_roundtrip :
    enc (.raw 2 31 [0x01]) = [0x9f, 0x01, 0x01] ∧ decode [0x9f, 0x01, 0x01] = .error .decode :=
  ⟨by decide +kernel, by rfl⟩

/-- The universe restriction on OIDs is necessary: for `2.999` the decoder splits the first *byte*. -/
theorem der_oid_large_second_arc_does_not_roundtrip :
    enc (.oid [2, 999]) = [0x06, 0x02, 0x88, 0x37] ∧ decode [0x06, 0x02, 0x88, 0x37] = .ok (.oid [2, 56, 55]) :=
  ⟨by decide +kernel, by rfl⟩

/-- The length-octet rule translated from the current source of `der_encode` is the model's rule. -/
theorem der_len_matches_code (n : Nat) :
    Gen.C15.derShortLimit = 128 ∧ Gen.C15.derLongFlag = 128 ∧
    Gen.C15.derLenSizeExpr (bitLength (n : Int)) = (lenSize n : Int) := by
  refine ⟨rfl, rfl, ?_⟩
  unfold Gen.C15.derLenSizeExpr lenSize
  omega

def derExampleValue : DerVal :=
  .seq [.int 0, .seq [.oid [1, 2, 840, 113549, 1, 1, 1], .null], .octets (List.replicate 300 7),
        .tagged 2 1 (.bits 3 [0xf8]), .int (-129), .set [.int 1, .int 2]]

/-- non-vacuity: a PKCS#8-shaped structure with a 300-byte key (long-form length), a negative integer,
    a tagged bit string and a set is inside the universe, so it round-trips -/
theorem der_example : wf derExampleValue = true ∧ decode (enc derExampleValue) = .ok derExampleValue := by
  have h : wf derExampleValue = true := by decide +kernel
  have hs : (enc derExampleValue).length < sizeBound := by decide +kernel
  exact ⟨h, der_roundtrip _ h hs⟩

/-! ## base64 and line wrapping -/

/-- **base64 survives wrapping at every width ≥ 1**, for every byte string, whatever non-alphabet
    characters (line ends, blanks, a header separator) surround the wrapped text. -/
theorem base64_wrap_roundtrip (w : Nat) (hw : 1 ≤ w) (data pre post : Bytes)
    (hpre : ∀ c ∈ pre, isSkip c = true) (hpost : ∀ c ∈ post, isSkip c = true) :
    ∃ body, wrapJoin? w (b2a data) = some body ∧ a2b (pre ++ body ++ post) = some data :=
  a2b_wrapJoin w hw data pre post hpre hpost

/-- unwrapped special case -/
theorem base64_roundtrip (data : Bytes) : a2b (b2a data) = some data := a2bGo_b2a data

/-- non-vacuity -/
theorem base64_example :
    wrapJoin? 3 (b2a (strBytes "hello")) = some (strBytes "aGV\nsbG\n8=") ∧
    a2b (strBytes "aGV\nsbG\n8=\n") = some (strBytes "hello") := by
  decide +kernel

/-! ## OpenSSH private key container -/

/-- **OpenSSH container round trip** for every key (any algorithm with a known field layout, any field
    contents), comment bytes, public blob, check-int, block size and abstract cipher with
    `decrypt (encrypt x) = x`: whenever the export succeeds, the import returns the same key and comment. -/
theorem openssh_container_roundtrip (c : Cipher) (pass : Option Cipher) (check : Nat) (k : OpensshKey) (w : Bytes)
    (hpass : c.name ≠ sNone → pass = some c)
    (hlaw : ∀ x, c.decrypt (c.encrypt x).1 (c.encrypt x).2 = some x)
    (hkdf : c.name ≠ sNone → c.kdf = bcryptName)
    (henc : encodeOpenssh? c check k = some w) :
    decodeOpenssh pass w = .ok k :=
  decodeOpenssh_encodeOpenssh c pass check k w hpass hlaw hkdf henc

/-- specialisation to unencrypted files, readable with or without a passphrase argument -/
theorem openssh_container_roundtrip_clear (bs check : Nat) (k : OpensshKey) (w : Bytes) (pass : Option Cipher)
    (henc : encodeOpenssh? { noCipher with blockSize := bs } check k = some w) :
    decodeOpenssh pass w = .ok k :=
  decodeOpenssh_encodeOpenssh _ pass check k w (by intro h; exact absurd rfl h) (by intro x; rfl)
    (by intro h; exact absurd rfl h) henc

/-- **The padding rule is correct for every data length and block size 1…256** (the expressions are the
    ones translated from the current source): the padded length is a multiple of the block size, the padding
    is `1, 2, 3, …` with fewer than `blockSize` bytes, and the reader's check accepts it. -/
theorem openssh_padding_correct (bs : Nat) (data : Bytes) (h1 : 1 ≤ bs) (h2 : bs ≤ 256) :
    ∃ p, addPadding? bs data = some (data ++ p) ∧ (data ++ p).length % bs = 0 ∧ p.length < bs ∧
      padOk p = true ∧ ∀ i (hi : i < p.length), p[i] = UInt8.ofNat (i + 1) :=
  addPadding_spec bs data h1 h2

def opensshExampleKey : OpensshKey :=
  { alg := strBytes "ssh-ed25519", fields := [[1, 2, 3], [4, 5]], comment := [0xff, 10, 7, 32], pub := [9, 9] }

/-- the same key with a NUL inside its comment -/
def opensshNulCommentKey : OpensshKey := { opensshExampleKey with comment := [0x61, 0, 0x62] }

/-- **The exporter reports failure for a comment OpenSSH cannot load**: since the repair,
    `export_private_key('openssh')` raises `KeyExportError` for a comment that contains a NUL, whatever the
    cipher (the flag is probed on the tree under check, so this theorem stops building if the refusal
    disappears). -/
theorem openssh_export_refuses_nul_comment (c : Cipher) (check : Nat) (k : OpensshKey) (h : (0 : UInt8) ∈ k.comment) :
    encodeOpenssh? c check k = none := by
  have hflag : Gen.C15.exportRefusesNulComment = true := rfl
  apply encodeOpenssh?_refused
  simp [commentRefused, hflag, h]

/-- **Every comment the exporter writes is one OpenSSH can load** (`sshbuf_get_cstring`: no NUL except
    possibly as the last byte), and the file then reads back with exactly that comment
    (`openssh_container_roundtrip`). -/
theorem openssh_exported_comment_is_cstring (c : Cipher) (check : Nat) (k : OpensshKey) (w : Bytes)
    (henc : encodeOpenssh? c check k = some w) : cstringOk k.comment = true := by
  have hflag : Gen.C15.exportRefusesNulComment = true := rfl
  have h := not_refused_of_encodeOpenssh? henc
  apply cstringOk_of_no_nul
  simpa [commentRefused, hflag] using h

/-- Behaviour BEFORE the repair, machine-checked witness: the unchecked writer produced a file for the comment
    `a\0b`, which asyncssh's reader accepts with that comment, although it is not a C string — OpenSSH cannot
    load such a file (oracle signature `interop:ssh-keygen-rejects:openssh:nul-in-comment`).  The repaired
    writer refuses it. -/
theorem openssh_prefix_wrote_nul_comment :
    (encodeOpensshPreFix? noCipher 0xdeadbeef opensshNulCommentKey).map (decodeOpenssh none) =
      some (.ok opensshNulCommentKey) ∧
    cstringOk opensshNulCommentKey.comment = false ∧
    encodeOpenssh? noCipher 0xdeadbeef opensshNulCommentKey = none := by
  refine ⟨by decide +kernel, by decide +kernel, ?_⟩
  exact openssh_export_refuses_nul_comment _ _ _ (by decide)

/-- non-vacuity: an ed25519-shaped key with a comment of arbitrary non-NUL bytes, block size 8 -/
theorem openssh_container_example :
    (encodeOpenssh? noCipher 0xdeadbeef opensshExampleKey).map (decodeOpenssh none) =
      some (.ok opensshExampleKey) := by
  decide +kernel

/-! ## PEM, RFC 4716 and public-key-line framing; files holding several keys -/

def ktPrivate : Bytes := strBytes "PRIVATE KEY"
def ktPublic : Bytes := strBytes "PUBLIC KEY"

/-- **PEM framing round trip**: a block written by `wrap_base64` for any payload bytes, any wrap width ≥ 1,
    any PEM name (`RSA`, `EC`, `DSA`, `OPENSSH`, `ENCRYPTED`, or none) and any `Key: value` headers
    (`Proc-Type`/`DEK-Info`) is found by `_match_next` with the same name, headers and payload, and the match
    ends at the end of the text (conditions on names/headers: `PemItem.Ok`). -/
theorem pem_roundtrip (kt : Bytes) (pub : Bool) (it : PemItem) (text : Bytes) (hok : it.Ok kt)
    (ht : it.text? kt = some text) :
    matchNext kt pub text = .pem it.name it.pairs it.data text.length := by
  have := pem_matchNext kt pub it text [] 0 hok ht (Or.inl rfl)
  simpa [stopAfter] using this

/-- **The exporter reports failure for a comment it cannot write**: since the fix in /repo the public-key and
    certificate exporters raise `KeyExportError` for a comment containing a newline, in both line-oriented
    formats (the flag is probed on the tree under check, so this breaks if the refusal disappears). -/
theorem export_refuses_linebreak_comment (alg blob c : Bytes) (h : nl ∈ c) :
    exportPublicLine? alg blob c = none ∧ exportRfc4716? blob c = none :=
  export_refuses_newline alg blob c h

/-- **RFC 4716 round trip**: whenever `export_public_key('rfc4716')` writes a file (every blob; every comment
    it accepts, i.e. one without a newline), `_match_next` gives back the key blob and the comment (an empty
    comment reads back as "no comment"). -/
theorem rfc4716_roundtrip (blob c text : Bytes) (ht : exportRfc4716? blob c = some text) :
    matchNext ktPublic true text = .rfc4716 (if c = [] then none else some c) blob text.length := by
  have hnl := noNl_of_exportRfc4716? ht
  rw [exportRfc4716?_of_noNl blob c hnl] at ht
  have := rfc_matchNext ktPublic blob c text [] 0 hnl ht (Or.inl rfl)
  simpa [stopAfter] using this

/-- **OpenSSH public key line round trip**: whenever `export_public_key('openssh')` writes a line, for every
    algorithm of the generated tables, every non-empty blob and every accepted comment without leading or
    trailing white space (the field separator of the line is white space), the line reads back with the same
    algorithm, blob and comment. -/
theorem public_line_roundtrip (alg blob c text : Bytes) (ht : exportPublicLine? alg blob c = some text)
    (halg : alg ∈ Gen.C15.publicKeyAlgs ++ Gen.C15.certificateAlgs) (hblob : blob ≠ [])
    (hhead : ∀ x, c.head? = some x → isSpace x = false) (hlast : ∀ x, c.getLast? = some x → isSpace x = false) :
    matchNext ktPublic true text = .openssh alg (if c = [] then none else some c) blob text.length := by
  have hnl := noNl_of_exportPublicLine? ht
  rw [exportPublicLine?_of_noNl alg blob c hnl] at ht
  cases ht
  have := line_matchNext ktPublic alg blob c [] 0 ⟨halg, hblob, hnl, hhead, hlast⟩
  simpa using this

/-- **Files holding several keys**: the concatenation of any number of exported blocks / lines, as
    `append_private_key` / `append_public_key` produce it, is split by the import loop into exactly these items,
    in order, each with its own name, headers, comment and payload bytes (offsets aside). -/
theorem multi_key_file (kt : Bytes) (pub : Bool) (items : List FileItem) (data : Bytes) (fuel : Nat)
    (hne : items ≠ []) (ht : fileText? kt items = some data) (hok : ∀ it ∈ items, it.Ok kt pub)
    (hf : items.length ≤ fuel) :
    (matchAll kt pub fuel data).map Found.forget = items.map FileItem.found := by
  have := matchAll_file kt pub items data 0 fuel hne ht hok hf
  simpa using this

/-- the comment an imported public item carries -/
def foundComment : Found → Option Bytes
  | .openssh _ c _ _ => c
  | .rfc4716 c _ _ => c
  | _ => none

def foundPayload : Found → Bytes
  | .openssh _ _ p _ => p
  | .rfc4716 _ p _ => p
  | .pem _ _ p _ => p
  | _ => []

def exampleBlob : Bytes := [0, 0, 0, 11] ++ strBytes "ssh-ed25519" ++ [0, 0, 0, 1, 7]

/-- Why the exporter must refuse: the *unchecked* writers (`opensshPublicLine`, `rfc4716Block` — the code as it
    was before the fix) do not round-trip a comment with a line break: the public key line written for `a⏎b`
    reads back with comment `a`, and the RFC 4716 block written for `two⏎lines` reads back with another
    comment **and other key bytes**.  The oracle keeps looking for this on the real code
    (signatures `comment-altered:*:line-break`). -/
theorem text_comment_linebreak_not_preserved :
    foundComment (matchNext ktPublic true (opensshPublicLine (strBytes "ssh-ed25519") exampleBlob (strBytes "a\nb")))
      = some (strBytes "a") ∧
    (rfc4716Block exampleBlob (strBytes "two\nlines")).map
        (fun t => (foundComment (matchNext ktPublic true t), foundPayload (matchNext ktPublic true t) == exampleBlob))
      = some (some (strBytes "\"two"), false) := by
  decide +kernel

/-- … and so is "no leading/trailing white space" for the white-space separated public key line
    (a format limit: the field separator is white space). -/
theorem public_line_edge_whitespace_not_preserved :
    foundComment (matchNext ktPublic true (opensshPublicLine (strBytes "ssh-ed25519") exampleBlob (strBytes " x ")))
      = some (strBytes "x") := by
  decide +kernel

/-- **A DER key that follows a text block is not found** by the import loop of the model (the match of a PEM /
    RFC 4716 block ends *before* the newline, so the remaining data starts with `\n`, not with `0x30`), while
    the same two keys in the other order are both found.  Replayed on the real code by the oracle: signature
    `multi-key-file:der-after-text-block-dropped`. -/
theorem der_after_pem_is_dropped :
    ((PemItem.text? ktPrivate { name := [], pairs := [], data := [0x30, 0x00], wrap := 64 }).map fun t =>
      ((matchAll ktPrivate false 100 (t ++ [0x30, 0x00])).length,
       (matchAll ktPrivate false 100 ([0x30, 0x00] ++ t)).length)) = some (1, 2) := by
  decide +kernel

def examplePem : PemItem :=
  { name := [69, 67], pairs := [([80], [52])], data := [1, 2, 3, 4, 5], wrap := 3 }

/-- non-vacuity: an `EC PRIVATE KEY` block with one header, wrapped at width 3, satisfies the side
    conditions and is read back -/
theorem pem_example : examplePem.Ok ktPrivate ∧
    (examplePem.text? ktPrivate).map (fun t => foundPayload (matchNext ktPrivate false t)) = some [1, 2, 3, 4, 5] := by
  refine ⟨⟨by decide, ?_, ?_, by decide +kernel, by decide +kernel, ?_⟩, by decide +kernel⟩
  · intro c hc; simp [examplePem] at hc; subst hc; decide
  · intro c hc; simp [examplePem] at hc; subst hc; decide
  · intro kv hkv
    simp [examplePem] at hkv
    subst hkv
    refine ⟨⟨by decide, by decide, by decide, by decide, ?_, ?_, ?_, ?_⟩, by decide⟩ <;>
      (intro c hc; simp at hc; subst hc; decide)

end AsyncsshModel.C15
