import AsyncsshModel.Lemmas.Transport
import AsyncsshModel.Gen.C02
/-
  C02 — Emitted packets conform to RFC 4253 and survive any segmentation.
  `Gen.C02` is regenerated from asyncssh/connection.py on every run: the padding rule, the receive-length
  expression, the sequence-number updates and the layout table of every negotiable cipher/MAC pair.
-/
namespace AsyncsshModel.C02
open AsyncsshModel AsyncsshModel.Transport

/-- Every layout in the regenerated table has block size 8 or 16, header length 1 or 5, and a MAC unless it is
    the cleartext layout. (finite table, checked by evaluation) -/
theorem layouts_shape :
    ∀ t ∈ Gen.C02.layouts, (t.1 = 8 ∨ t.1 = 16) ∧ (t.2.2 = 1 ∨ t.2.2 = 5) ∧ (t.2.1 = 0 → t = (8, 0, 5)) := by
  decide +kernel

/-- **RFC 4253 §6 padding, from the code's own expression, for every payload length**: at least 4 and at most
    255 bytes of padding, and the encrypted part is a multiple of the block size. -/
theorem pad_ok (t : Nat × Nat × Nat) (ht : t ∈ Gen.C02.layouts) (L : Nat) :
    let pad := Gen.C02.padlenExpr (t.2.2 : Int) (L : Int) (t.1 : Int)
    4 ≤ pad ∧ pad ≤ 255 ∧ ((t.2.2 : Int) + L + pad) % (t.1 : Int) = 0 := by
  obtain ⟨hbs, hhdr, _⟩ := layouts_shape t ht
  simp only [Gen.C02.padlenExpr]
  rcases hbs with h | h <;> rcases hhdr with h' | h' <;> rw [h, h'] <;>
    (split <;> omega)

/-- the model's padding rule (on naturals) is the code's expression -/
theorem model_pad_eq_gen (t : Nat × Nat × Nat) (ht : t ∈ Gen.C02.layouts) (L : Nat) :
    (padLen t.2.2 L t.1 : Int) = Gen.C02.padlenExpr (t.2.2 : Int) (L : Int) (t.1 : Int) := by
  obtain ⟨hbs, hhdr, _⟩ := layouts_shape t ht
  simp only [Gen.C02.padlenExpr, padLen]
  rcases hbs with h | h <;> rcases hhdr with h' | h' <;> rw [h, h'] <;>
    (split <;> split <;> omega)

/-- the receiver model's remaining-length and sequence arithmetic are the code's expressions -/
theorem model_rem_eq_gen (pktlen mac bs : Nat) :
    (4 + (pktlen : Int) + (mac : Int) - (bs : Int)) = Gen.C02.remExpr pktlen mac bs := by
  simp only [Gen.C02.remExpr]

theorem model_seq_eq_gen (seq : Nat) :
    (nextSeq seq : Int) = Gen.C02.recvSeqExpr seq ∧ (nextSeq seq : Int) = Gen.C02.sendSeqExpr seq := by
  simp only [Gen.C02.recvSeqExpr, Gen.C02.sendSeqExpr, nextSeq]
  omega


/-- **Every frame the sender builds is well formed**, for every layout of the regenerated table, every payload
    and every choice of the random padding bytes: it parses back to the payload, fills the first block and
    always leaves something to read after it (so the receiver's two-step framing never stalls on it). -/
theorem frame_good (t : Nat × Nat × Nat) (ht : t ∈ Gen.C02.layouts) (payload padding : Bytes)
    (hpad : padding.length = padLen t.2.2 payload.length t.1) (hsmall : payload.length + 300 < 4294967296) :
    GoodPkt ⟨t.1, t.2.1⟩ (packetBody payload padding) payload := by
  obtain ⟨hbs, hhdr, hmac⟩ := layouts_shape t ht
  have hp := pad_ok t ht payload.length
  have he := model_pad_eq_gen t ht payload.length
  simp only at hp
  rw [← he] at hp
  obtain ⟨p1, p2, p3⟩ := hp
  have hlen : (packetBody payload padding).length = 1 + payload.length + padding.length := by
    simp [packetBody]; omega
  refine ⟨by simp [packetBody], extract_packetBody payload padding (by omega) (by omega), ?_, ?_, ?_⟩
  · simp only [hlen, hpad]
    rcases hbs with h | h <;> rcases hhdr with h' | h' <;> rw [h, h'] at p3 ⊢ <;> omega
  · simp only [hlen, hpad]
    by_cases hm : t.2.1 = 0
    · have := hmac hm
      subst this
      simp at p1 p3 ⊢
      omega
    · rcases hbs with h | h <;> rcases hhdr with h' | h' <;> rw [h, h'] at p3 ⊢ <;> omega
  · rw [hlen, hpad]; omega

/-- the cleartext phase is an instance of the decoding laws (`decrypt_header`/`decrypt_packet` are the identity) -/
theorem plain_correct (sent : Nat → Option Bytes) : Correct ⟨8, 0⟩ plainShim plainEnc sent := by
  refine ⟨?_, ?_, ?_⟩
  · intro s pd; simp [plainEnc, be32_length]
  · intro s pd _ hsmall hfb
    simp only [plainShim, plainEnc]
    rw [List.take_take]
    rw [List.take_append_of_le_length (by simp [be32_length])]
    rw [List.take_of_length_le (by simp [be32_length])]
    exact beNat_be32 _ hsmall
  · intro s pd _ hsmall hfb
    simp only [plainShim, plainEnc]
    have h4 : (be32 pd.length).length = 4 := be32_length _
    have e1 : ((be32 pd.length ++ pd).take 8).drop 4 = pd.take 4 := by
      rw [List.take_append, h4, List.take_of_length_le (by omega), List.drop_append_of_le_length (by omega)]
      rw [← h4, List.drop_length]; simp [h4]
    have e2 : ((be32 pd.length ++ pd).drop 8).take (4 + pd.length - 8) = pd.drop 4 := by
      rw [List.drop_append, h4, List.drop_eq_nil_of_le (by omega)]
      simp only [List.nil_append]
      rw [List.take_of_length_le (by simp; omega)]
    rw [e1, e2, List.take_append_drop]

/-- **Segmentation independence / exactly once, in order**: for every cipher shim that decodes what the sender
    seals (`Setting`), every list of well-formed packets and EVERY way of cutting the wire stream into chunks
    (1-byte chunks, empty chunks, chunks spanning many packets), the payloads handed on are exactly the payloads
    sent, once each, in order. -/
theorem segmentation_independent {p : Params} {sh : Shim} {enc : Nat → Bytes → Bytes} {s0 : Nat}
    {pkts : List Bytes} (hs : Setting p sh enc s0 pkts) (e : Bool) (chunks : List Bytes)
    (hw : chunks.flatten = wire enc s0 pkts) :
    (feedAll p sh e (RState.init s0) chunks).2 = pkts.map payloadOf := by
  have hsrc : IntCtxt p sh enc (sentOf s0 pkts) ∨ ([] ++ chunks.flatten) <+: wire enc s0 pkts := by
    right; rw [List.nil_append, hw]; exact List.prefix_refl _
  have hinv := inv_feedAll hs e chunks (RState.init s0) [] [] hsrc (inv_init p sh enc s0 pkts)
  simp only [List.nil_append] at hinv
  have hq : Quiet p sh e (feedAll p sh e (RState.init s0) chunks).1 :=
    feedAll_quiet hs.bs_pos chunks _ (Or.inl rfl)
  have h1 := quiet_complete hs e hinv hq pkts [] (by simp) (by rw [hw]; exact List.prefix_refl _)
  obtain ⟨done, todo, B, hp, ho, _⟩ := hinv
  have h2 : (feedAll p sh e (RState.init s0) chunks).2 <+: pkts.map payloadOf := by
    rw [ho, hp]; simp
  exact List.IsPrefix.eq_of_length_le h2 (List.IsPrefix.length_le h1)

/-- any two segmentations of the same honest stream deliver the same thing -/
theorem chunking_irrelevant {p : Params} {sh : Shim} {enc : Nat → Bytes → Bytes} {s0 : Nat}
    {pkts : List Bytes} (hs : Setting p sh enc s0 pkts) (e : Bool) (c1 c2 : List Bytes)
    (h1 : c1.flatten = wire enc s0 pkts) (h2 : c2.flatten = wire enc s0 pkts) :
    (feedAll p sh e (RState.init s0) c1).2 = (feedAll p sh e (RState.init s0) c2).2 := by
  rw [segmentation_independent hs e c1 h1, segmentation_independent hs e c2 h2]

/-- the cleartext handshake phase: frames built by the sender model for ANY payloads and padding bytes, cut
    anywhere, are received exactly once and in order (non-vacuity of `segmentation_independent`: the hypotheses
    are met by the real cleartext layout). -/
theorem plain_exactly_once (s0 : Nat) (items : List (Bytes × Bytes))
    (hitems : ∀ it ∈ items, it.2.length = padLen 5 it.1.length 8 ∧ it.1.length + 300 < 4294967296)
    (hseq : s0 + items.length < 4294967296) (chunks : List Bytes)
    (hw : chunks.flatten = wire plainEnc s0 (items.map fun it => packetBody it.1 it.2)) :
    (feedAll ⟨8, 0⟩ plainShim false (RState.init s0) chunks).2 = items.map (·.1) := by
  have hmem : ((8, 0, 5) : Nat × Nat × Nat) ∈ Gen.C02.layouts := by decide +kernel
  have hs : Setting ⟨8, 0⟩ plainShim plainEnc s0 (items.map fun it => packetBody it.1 it.2) := by
    refine ⟨plain_correct _, ?_, by simpa using hseq, by decide⟩
    intro pd hpd
    simp only [List.mem_map] at hpd
    obtain ⟨it, hit, rfl⟩ := hpd
    obtain ⟨h1, h2⟩ := hitems it hit
    have hg := frame_good (8, 0, 5) hmem it.1 it.2 h1 h2
    have : payloadOf (packetBody it.1 it.2) = it.1 := by
      unfold payloadOf; rw [hg.payload_ok]; rfl
    rw [this]; exact hg
  rw [segmentation_independent hs false chunks hw]
  simp only [List.map_map]
  apply List.map_congr_left
  intro it hit
  obtain ⟨h1, h2⟩ := hitems it hit
  have hg := frame_good (8, 0, 5) hmem it.1 it.2 h1 h2
  simp only [Function.comp]
  unfold payloadOf; rw [hg.payload_ok]; rfl

/-- concrete run: two packets, payloads `[20]` and `[21, 1]`, delivered byte by byte -/
theorem plain_example :
    (feedAll ⟨8, 0⟩ plainShim false (RState.init 0)
      ((plainFrame [20] [0,0,0,0,0,0] ++ plainFrame [21, 1] [9,9,9,9,9]).map fun b => [b])).2 = [[20], [21, 1]] := by
  decide +kernel


theorem take_of_prefix {a b : Bytes} (h : a <+: b) (n : Nat) (hn : n ≤ a.length) : a.take n = b.take n := by
  obtain ⟨t, rfl⟩ := h
  rw [List.take_append_of_le_length hn]

/-- **Key derivation is RFC 4253 §7.2**: for every hash with a fixed non-zero digest length and EVERY requested
    key length, the loop of `Kex.compute_key` returns the first `keylen` bytes of `K1 ‖ K2 ‖ …` with
    `K1 = HASH(K‖H‖X‖session_id)`, `K(n+1) = HASH(K‖H‖K1‖…‖Kn)`. -/
theorem compute_key_eq_rfc (H : Bytes → Bytes) (k h x sid : Bytes) (d : Nat) (hd : ∀ m, (H m).length = d)
    (hpos : 0 < d) (keylen m : Nat) (hm : keylen ≤ m * d) :
    computeKey H k h x sid keylen = (rfcStream H k h x sid m).take keylen := by
  unfold computeKey
  obtain ⟨m0, _, h0, hlen0⟩ := ckLoop_rfc H k h x sid d hd hpos keylen keylen 0 (by omega)
  simp only [rfcStream] at h0
  rw [h0]
  have l0 := rfcStream_length H k h x sid d hd m0
  have l1 := rfcStream_length H k h x sid d hd m
  rcases Nat.le_total m0 m with hle | hle
  · exact take_of_prefix (rfcStream_prefix H k h x sid m0 m hle) keylen (by omega)
  · exact (take_of_prefix (rfcStream_prefix H k h x sid m m0 hle) keylen (by omega)).symm

/-- a 3-byte "digest" and a 7-byte key: the loop runs three times -/
theorem compute_key_example :
    computeKey (fun m => [UInt8.ofNat m.length, 1, 2]) [9] [8] [65] [7, 7] 7 = [5, 1, 2, 5, 1, 2, 8] := by
  decide +kernel

/-- **An independent RFC 4253 decoder accepts every frame the sender builds** and recovers the payload: length
    field, at least four bytes of padding, alignment to `max 8 blocksize` — for every layout of the regenerated
    table, every payload and every padding bytes. -/
theorem rfc_decodes_sender_frames (t : Nat × Nat × Nat) (ht : t ∈ Gen.C02.layouts) (payload padding : Bytes)
    (hpad : padding.length = padLen t.2.2 payload.length t.1) (hsmall : payload.length + 300 < 4294967296) :
    rfcDecode t.1 t.2.2 (be32 (packetBody payload padding).length ++ packetBody payload padding) = .ok payload := by
  obtain ⟨hbs, hhdr, _⟩ := layouts_shape t ht
  have hp := pad_ok t ht payload.length
  have he := model_pad_eq_gen t ht payload.length
  simp only at hp
  rw [← he] at hp
  obtain ⟨p1, p2, p3⟩ := hp
  have hlen : (packetBody payload padding).length = 1 + payload.length + padding.length := by
    simp [packetBody]; omega
  have h4 := be32_length (packetBody payload padding).length
  unfold rfcDecode
  have e0 : ¬ ((be32 (packetBody payload padding).length ++ packetBody payload padding).length < 5) := by
    simp [h4, hlen]; omega
  have e1 : (be32 (packetBody payload padding).length ++ packetBody payload padding).take 4 =
      be32 (packetBody payload padding).length := by
    rw [List.take_append_of_le_length (by omega), List.take_of_length_le (by omega)]
  have e2 : beNat (be32 (packetBody payload padding).length) = (packetBody payload padding).length :=
    beNat_be32 _ (by rw [hlen, hpad]; omega)
  have e3 : (be32 (packetBody payload padding).length ++ packetBody payload padding).getD 4 0 =
      UInt8.ofNat padding.length := by
    rw [List.getD_eq_getElem?_getD, List.getElem?_append_right (by omega), h4]
    simp [packetBody]
  have e4 : (UInt8.ofNat padding.length).toNat = padding.length := by
    simp only [UInt8.toNat_ofNat']; omega
  have e5 : (be32 (packetBody payload padding).length ++ packetBody payload padding).drop 5 =
      payload ++ padding := by
    rw [List.drop_append, h4, List.drop_eq_nil_of_le (by omega)]
    simp [packetBody]
  simp only [e0, if_false, e1, e2, e3, e4, e5]
  have c1 : ¬ ((packetBody payload padding).length + 4 ≠
      (be32 (packetBody payload padding).length ++ packetBody payload padding).length) := by
    simp [h4]; omega
  have c2 : ¬ (padding.length < 4) := by omega
  have c3 : ¬ ((packetBody payload padding).length < padding.length + 1) := by omega
  have c4 : ¬ ((t.2.2 - 1 + (packetBody payload padding).length) % (max 8 t.1) ≠ 0) := by
    rw [hlen, hpad]
    rcases hbs with h | h <;> rcases hhdr with h' | h' <;> rw [h, h'] at p3 ⊢ <;> simp <;> omega
  simp only [c1, c2, c3, c4, if_false]
  rw [hlen]
  have : 1 + payload.length + padding.length - padding.length - 1 = payload.length := by omega
  rw [this, List.take_left']
  rfl

end AsyncsshModel.C02
